(* The first line of a list item is not a thematic break: ThematicBreak.pattern evaluated on  marker, spaces, x0 ...  for every marker,
   every number of spaces and every rest of the line - the pattern fails at x0 when x0 is neither white space nor the bullet itself
   (after the bullet only white space and the bullet again may follow: the back-reference).  Used to DERIVE the condition that
   wf_b asks of a list item from the shape of its first child, so that it survives a change of the words on that line. *)
From Coq Require Import ZArith List Bool Lia.
From Mistletoe Require Import Base.Sx Base.PyStr Base.PyText Gen.GenTables Gen.GenRegex Re.ReMatch Model.Block
     Proofs.ReFirst Proofs.ReExact Proofs.ListLaw.
Import ListNotations.
Local Open Scope Z_scope.

Section LoopNone.
  Variable fl : flags.
  (* a repetition of a one-character class, greedy or lazy, fails when what follows rejects every prefix of the run it can read *)
  Lemma loop_none g r mn mx k rest : is_char_re r = true -> stops fl r rest ->
    forall fuel run s cnt,
      aft s = run ++ rest -> forallb (char_ok fl r) run = true ->
      (forall j, (j <= length run)%nat -> k (adv_run s (firstn j run) (skipn j run ++ rest)) = None) ->
      loop (m fl r) g mn mx k fuel cnt s = None.
  Proof.
    intros Hr Hst. induction fuel as [|x fuel IH]; intros run s cnt Ha Hall Hk.
    - cbn [loop]. destruct (Nat.ltb cnt mn); [reflexivity|].
      specialize (Hk 0%nat (Nat.le_0_l _)). cbn [firstn skipn] in Hk. rewrite <- Ha, adv_run_nil in Hk. exact Hk.
    - cbn [loop].
      assert (K0 : k s = None).
      { specialize (Hk 0%nat (Nat.le_0_l _)). cbn [firstn skipn] in Hk. rewrite <- Ha, adv_run_nil in Hk. exact Hk. }
      assert (More : (if under mx cnt then m fl r s (fun s' => if Nat.leb mn cnt && (pos s' =? pos s) then None else loop (m fl r) g mn mx k fuel (S cnt) s') else None) = None).
      { destruct (under mx cnt); [|reflexivity]. destruct run as [|c run].
        - cbn [app] in Ha. destruct rest as [|d t]; [apply m_char_nil; assumption|].
          rewrite (m_char fl r s d t _ Hr Ha). cbn [stops] in Hst. rewrite Hst. reflexivity.
        - cbn [app] in Ha. cbn [forallb] in Hall. apply andb_true_iff in Hall as [Hc Hall].
          rewrite (m_char fl r s c (run ++ rest) _ Hr Ha), Hc.
          destruct (Nat.leb mn cnt && _); [reflexivity|].
          apply (IH run (advance s c (run ++ rest)) (S cnt) eq_refl Hall).
          intros j Hj. specialize (Hk (S j) (le_n_S _ _ Hj)). cbn [firstn skipn] in Hk.
          rewrite <- adv_run_cons in Hk.
          replace (firstn j run ++ skipn j run ++ rest) with (run ++ rest) in Hk by (rewrite app_assoc, firstn_skipn; reflexivity).
          exact Hk. }
      rewrite More. destruct (Nat.ltb cnt mn); [reflexivity|]. destruct g; cbn [orelse]; rewrite K0; reflexivity.
  Qed.

  (* a back-reference to a group whose text begins with c fails in front of another character, and at the end of the text *)
  Lemma bref_none n s k a b c seg : lookup_grp n (grp s) = Some (a, b) -> segment s a b = c :: seg ->
    match aft s with [] => True | y :: _ => (c =? y) = false end -> m fl (Bref n) s k = None.
  Proof.
    intros Hl Hs Hy. cbn [m]. rewrite Hl, Hs. cbn [eat]. destruct (aft s) as [|y t]; [reflexivity|]. rewrite Hy. reflexivity.
  Qed.
End LoopNone.

Definition TB_SPACE : re := Set_ false [CCat CatSpace].
Definition TB_DELIM : re := Set_ false [CLit 45; CLit 95; CLit 42].
Lemma tb_shape :
  re_block_token_ThematicBreak_pattern =
    Seq (Rep true 0%nat (Some 3%nat) (Lit 32)) (Seq (Grp 1%nat TB_DELIM) (Seq (Rep false 0%nat None TB_SPACE)
      (Seq (Rep true 2%nat None (Seq (Bref 1%nat) (Rep false 0%nat None TB_SPACE))) Eol))) /\
  fl_block_token_ThematicBreak_pattern = mkFlags false false.
Proof. split; reflexivity. Qed.

Section TB.
  Let fl := mkFlags false false.

  Lemma rep0_skip_t g mx body s k : (forall k', m fl body s k' = None) -> m fl (Rep g 0 mx body) s k = k s.
  Proof.
    intros Hb. cbn [m repeat app loop Nat.ltb Nat.leb]. rewrite Hb. destruct (under mx 0), g; cbn [orelse]; destruct (k s); reflexivity.
  Qed.

  (* a line that begins with something other than a space or one of - _ * *)
  Lemma thematic_first f t : (f =? 32) = false -> char_ok fl TB_DELIM f = false -> thematic_start (f :: t) = false.
  Proof.
    intros H32 Hd. unfold thematic_start, rmatch, match_here. destruct tb_shape as [-> ->]. fold fl.
    set (s0 := mkMst (bef (start_at [] (f :: t))) (aft (start_at [] (f :: t))) (pos (start_at [] (f :: t))) []).
    assert (Ha : aft s0 = f :: t) by reflexivity.
    rewrite m_seq, rep0_skip_t.
    2:{ intros k'. rewrite (m_char fl (Lit 32) s0 f t _ eq_refl Ha). cbn [char_ok]. rewrite H32. reflexivity. }
    rewrite m_seq, m_grp, (m_char fl TB_DELIM s0 f t _ eq_refl Ha), Hd. reflexivity.
  Qed.

  (* a bullet that could begin a thematic break, spaces, then a character that is neither white space nor that bullet *)
  Lemma thematic_bullet b n x0 t : char_ok fl TB_DELIM b = true -> (b =? 32) = false ->
    (b =? x0) = false -> cat_match CatSpace x0 = false -> thematic_start (b :: repeat 32 n ++ x0 :: t) = false.
  Proof.
    intros Hb Hb32 Hbx Hsx. unfold thematic_start, rmatch, match_here. destruct tb_shape as [-> ->]. fold fl.
    set (line := b :: repeat 32 n ++ x0 :: t).
    set (s0 := mkMst (bef (start_at [] line)) (aft (start_at [] line)) (pos (start_at [] line)) []).
    assert (Ha : aft s0 = b :: repeat 32 n ++ x0 :: t) by reflexivity.
    rewrite m_seq, rep0_skip_t.
    2:{ intros k'. rewrite (m_char fl (Lit 32) s0 b _ _ eq_refl Ha). cbn [char_ok]. rewrite Hb32. reflexivity. }
    rewrite m_seq, m_grp, (m_char fl TB_DELIM s0 b _ _ eq_refl Ha), Hb.
    set (s1 := set_grp 1 (pos s0) (pos (advance s0 b (repeat 32 n ++ x0 :: t))) (advance s0 b (repeat 32 n ++ x0 :: t))).
    rewrite m_seq.
    match goal with |- match m fl (Rep false 0 None TB_SPACE) s1 ?kk with _ => _ end = _ =>
      assert (E : m fl (Rep false 0 None TB_SPACE) s1 kk = None); [|rewrite E; reflexivity] end.
    match goal with |- m fl (Rep false 0 None TB_SPACE) ?st ?kk = _ =>
      change (m fl (Rep false 0 None TB_SPACE) st kk) with (loop (m fl TB_SPACE) false 0 None kk (repeat 0 0 ++ 0 :: aft st) 0%nat st) end.
    apply (loop_none fl false TB_SPACE 0 None _ (x0 :: t)) with (run := repeat 32 n); [reflexivity|cbn [stops char_ok TB_SPACE existsb citem_match xorb]; rewrite Hsx; reflexivity|reflexivity|apply forallb_forall; intros y Hy; apply repeat_spec in Hy; subst y; reflexivity|].
    intros j Hj. rewrite repeat_length in Hj. cbv beta.
    set (sj := adv_run s1 (firstn j (repeat 32 n)) (skipn j (repeat 32 n) ++ x0 :: t)).
    rewrite m_seq.
    match goal with |- m fl (Rep true 2 None ?body) ?st ?kk = _ =>
      change (m fl (Rep true 2 None body) st kk) with (loop (m fl body) true 2 None kk (0 :: 0 :: 0 :: aft st) 0%nat st) end.
    cbn [loop Nat.ltb Nat.leb under]. rewrite m_seq.
    apply (bref_none fl 1 sj _ 0 1 b []); [reflexivity| |].
    - rewrite (segment_known sj (b :: firstn j (repeat 32 n)) 0 1); [reflexivity| | |lia|lia|].
      + unfold sj, adv_run, s1, set_grp, advance, s0, start_at. cbn [bef]. cbn [rev]. reflexivity.
      + unfold sj, adv_run, s1, set_grp, advance, s0, start_at, slen. cbn [pos bef length Z.of_nat]. cbn [length]. lia.
      + unfold slen. cbn [length]. lia.
    - unfold sj, adv_run. cbn [aft].
      destruct (skipn j (repeat 32 n)) as [|y r] eqn:E; cbn [app]; [exact Hbx|].
      assert (y = 32) by (apply (repeat_spec n 32 y); apply (in_skipn y j); rewrite E; left; reflexivity). subst y. exact Hb32.
  Qed.
End TB.

(* the first line of a list item: any marker, one space or more, then x0 - not white space and, after a bullet, not that bullet *)
Theorem thematic_item mk pad x0 t : marker_ok mk -> (1 <= pad)%nat -> cat_match CatSpace x0 = false ->
  match mk with MBullet b => (b =? x0) = false | _ => True end ->
  thematic_start (marker_str mk ++ repeat 32 pad ++ x0 :: t) = false.
Proof.
  intros Hok Hp Hs Hx. destruct mk as [b|ds d]; cbn [marker_ok marker_str] in *.
  - destruct Hok as [->|[->| ->]]; cbn [app].
    + apply thematic_first; reflexivity.
    + apply thematic_bullet; [reflexivity|reflexivity|exact Hx|exact Hs].
    + apply thematic_bullet; [reflexivity|reflexivity|exact Hx|exact Hs].
  - destruct Hok as (Hne & _ & Hd & _). destruct ds as [|x r]; [contradiction|]. inversion Hd as [|? ? Hx0 _]; subst.
    cbn [app]. apply thematic_first.
    + apply Z.eqb_neq. lia.
    + unfold TB_DELIM. cbn [char_ok existsb citem_match xorb].
      rewrite (proj2 (Z.eqb_neq x 45)), (proj2 (Z.eqb_neq x 95)), (proj2 (Z.eqb_neq x 42)) by lia. reflexivity.
Qed.
