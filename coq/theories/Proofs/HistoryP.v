(* C11: the token lists over histories. *)
From Coq Require Import ZArith List Bool.
From Mistletoe Require Import Base.Sx Gen.GenConfig Model.Tree Model.Parser Model.History.
Import ListNotations.

Lemma run_op_defaults st o : st = defaults -> run_op st o = defaults.
Proof. intros ->. destruct o; reflexivity. Qed.

(* after any history of (non-nested) sessions and bare parses that starts from the
   defaults, the active block and span token sets are exactly the defaults *)
Theorem exit_resets h : run h defaults = defaults.
Proof.
  unfold run. assert (H : forall st, st = defaults -> fold_left run_op h st = defaults).
  { induction h as [|o h IH]; intros st Hst; cbn; [exact Hst|]. apply IH. now apply run_op_defaults. }
  now apply H.
Qed.

(* even from an arbitrary state of the lists, one complete session restores the defaults *)
Theorem one_session_resets st r body : run_op st (Session r body) = defaults.
Proof. reflexivity. Qed.

(* the regenerated configuration data: outside every context the lists are the defaults of __all__ *)
Theorem parse_is_a_function_of_configuration_and_text cfg text1 text2 :
  text1 = text2 -> parse_document cfg text1 = parse_document cfg text2.
Proof. now intros ->. Qed.
