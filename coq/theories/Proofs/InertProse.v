(* C14: delimiter characters in positions where they mean nothing.  A text without backslash and
   backtick, in which no run of * or _ can close emphasis (isolated runs, intraword underscores,
   runs that can only open) and no ] is followed by ( - in a document without link reference
   definitions - gives the delimiter scanner nothing to find: find_core_tokens returns no match,
   however many runs and brackets the text holds.  Proved by an invariant of the scanner loop. *)
From Coq Require Import ZArith List Bool Lia.
From Mistletoe Require Import Base.Sx Base.PyStr Base.PyText Gen.GenTables Gen.GenRegex Gen.GenConfig Re.ReMatch
     Model.SpanTokenizer Model.Tree Model.Unescape Model.CoreTokens Model.Inline Model.Block Model.Build Model.Parser Model.HtmlRenderer
     Proofs.ReFirst Proofs.ReNeeds Proofs.Prose Proofs.PlainProse Proofs.ListLaw Proofs.ProseLines.
Import ListNotations.
Local Open Scope Z_scope.

Definition nc (d : delim) : bool := negb (d_emph d && d_close d).

(* [a, b) is a maximal run of one delimiter character *)
Definition run_at (s : str) (a b : Z) : Prop :=
  0 <= a /\ a < b /\ b <= slen s /\ (char_at s a = 42 \/ char_at s a = 95) /\
  (forall j, a <= j < b -> char_at s j = char_at s a) /\
  (a = 0 \/ char_at s (a - 1) <> char_at s a) /\ (b = slen s \/ char_at s b <> char_at s a).

Lemma mem_char_at c s i : mem c s = false -> 0 <= i < slen s -> char_at s i <> c.
Proof.
  intros H Hi E. unfold char_at in E. destruct (i <? 0) eqn:E0; [apply Z.ltb_lt in E0; lia|].
  assert (In c s) by (rewrite <- E; apply nth_In; unfold slen in Hi; lia).
  unfold mem in H. assert (existsb (Z.eqb c) s = true) by (apply existsb_exists; exists c; split; [assumption|apply Z.eqb_refl]). congruence.
Qed.

Lemma mem_skipn c n s : mem c s = false -> mem c (skipn n s) = false.
Proof.
  revert s. induction n as [|n IH]; intros s H; [exact H|]. destruct s as [|x s]; [reflexivity|].
  cbn [skipn]. apply IH. unfold mem in *. cbn [existsb] in H. apply orb_false_iff in H as [_ H]. exact H.
Qed.

Lemma substr_head s a b : 0 <= a -> a < b -> a < slen s -> exists t, substr s a b = char_at s a :: t.
Proof.
  intros Ha Hab Hs. unfold substr, char_at. destruct (a <? 0) eqn:E0; [apply Z.ltb_lt in E0; lia|].
  assert (Hn : (Z.to_nat a < length s)%nat) by (unfold slen in Hs; lia).
  destruct (Z.to_nat (b - a)) as [|m] eqn:Em; [lia|].
  revert Hn. generalize (Z.to_nat a) as n. clear. intros n. revert s. induction n as [|n IH]; intros s Hn.
  - destruct s as [|x s]; [cbn in Hn; lia|]. cbn [skipn firstn nth]. eexists; reflexivity.
  - destruct s as [|x s]; [cbn in Hn; lia|]. cbn [skipn nth]. apply IH. cbn in Hn. lia.
Qed.

Lemma nc_head s a b : 0 <= a -> a < b -> a < slen s -> char_at s a <> 42 -> char_at s a <> 95 -> nc (new_delim a b s) = true.
Proof.
  intros Ha Hab Hs H1 H2. destruct (substr_head s a b Ha Hab Hs) as [t Ht]. unfold nc, new_delim. cbn [d_emph d_close]. rewrite Ht.
  apply Z.eqb_neq in H1. apply Z.eqb_neq in H2. rewrite H1, H2. reflexivity.
Qed.

Lemma nc_run s a b : is_closer a b s = false -> nc (new_delim a b s) = true.
Proof. intros H. unfold nc, new_delim. cbn [d_emph d_close]. rewrite H, andb_false_r, andb_false_r. reflexivity. Qed.

Lemma forallb_firstn {A} (f : A -> bool) n l : forallb f l = true -> forallb f (firstn n l) = true.
Proof. revert l. induction n as [|n IH]; intros [|x l] H; try reflexivity. cbn [firstn forallb] in *. apply andb_true_iff in H as [H1 H2]. rewrite H1. apply IH. exact H2. Qed.
Lemma forallb_skipn {A} (f : A -> bool) n l : forallb f l = true -> forallb f (skipn n l) = true.
Proof. revert l. induction n as [|n IH]; intros [|x l] H; try reflexivity; try exact H. cbn [skipn forallb] in *. apply andb_true_iff in H as [_ H2]. apply IH. exact H2. Qed.

Lemma forallb_remove_at {A} (f : A -> bool) l i : forallb f l = true -> forallb f (remove_at l i) = true.
Proof. intros H. unfold remove_at. rewrite forallb_app, forallb_firstn, forallb_skipn by exact H. reflexivity. Qed.

(* ---- a closing bracket that is not followed by ( finds no link when the document defines none ---- *)
Lemma mli_none s off d : follows s off 40 = false -> match_link_image s off d [] = None.
Proof.
  intros H. unfold match_link_image. rewrite H.
  assert (L : forall o, match_link_label s o [] = None).
  { intros o. unfold match_link_label. destruct (label_scan _ _ _ _) as [[st en]|]; [|reflexivity].
    destruct (negb (is_blank _)); reflexivity. }
  assert (G : forall t, get_link_label t [] = None).
  { intros t. unfold get_link_label. destruct (_ && _); reflexivity. }
  rewrite L, G. destruct (follows s off 91); reflexivity.
Qed.

Lemma fli_down s off : follows s off 40 = false -> forall n i ds, forallb nc ds = true ->
  exists ds2, find_li_down n i s off ds [] [] = (off, ds2, []) /\ forallb nc ds2 = true.
Proof.
  intros H. induction n as [|n IH]; intros i ds Hd; [exists ds; split; [reflexivity|exact Hd]|].
  cbn [find_li_down]. destruct (is_bracket (nthd ds i dummy)).
  - destruct (negb (d_active (nthd ds i dummy))).
    + eexists; split; [reflexivity|apply forallb_remove_at; exact Hd].
    + rewrite (mli_none s off _ H). eexists; split; [reflexivity|apply forallb_remove_at; exact Hd].
  - apply IH. exact Hd.
Qed.

Lemma fli s off ds : follows s off 40 = false -> forallb nc ds = true ->
  exists ds2, find_link_image s off ds [] [] = (off, ds2, []) /\ forallb nc ds2 = true.
Proof. intros H Hd. unfold find_link_image. apply fli_down; assumption. Qed.

(* ---- the scanner ---- *)
Section Inert.
  Variable s : str.
  Hypothesis Hbs : mem 92 s = false.
  Hypothesis Hbt : mem 96 s = false.
  Hypothesis Hlp : forall i, 0 <= i < slen s -> char_at s i = 93 -> follows s i 40 = false.
  Hypothesis Hrun : forall a b, run_at s a b -> is_closer a b s = false.

  Lemma code_none j : code_search s j = None.
  Proof.
    unfold code_search. apply (search_state_none _ _ 96); [vm_compute; reflexivity|]. unfold seek. cbn [aft]. unfold drop. apply mem_skipn. exact Hbt.
  Qed.

  Definition RunInv (i : Z) (run : option Z) (start : Z) : Prop :=
    match run with
    | Some rc => (rc = 42 \/ rc = 95) /\ 0 <= start /\ start < i /\ (forall j, start <= j < i -> char_at s j = rc) /\
                 (start = 0 \/ char_at s (start - 1) <> rc)
    | None => i = 0 \/ (char_at s (i - 1) <> 42 /\ char_at s (i - 1) <> 95)
    end.

  Definition Inv (i : Z) (st : scan) : Prop :=
    0 <= i /\ i <= slen s /\ sc_ms st = [] /\ sc_code st = [] /\ sc_escaped st = false /\ forallb nc (sc_ds st) = true /\
    RunInv i (sc_run st) (sc_start st) /\
    (sc_in_image st = true -> 0 < i /\ char_at s (i - 1) <> 42 /\ char_at s (i - 1) <> 95).

  Definition Final (st : scan) : Prop := sc_ms st = [] /\ sc_code st = [] /\ forallb nc (sc_ds st) = true.

  (* the delimiter of a run that ends at i *)
  Lemma run_closes i rc start : 0 <= i -> i <= slen s -> RunInv i (Some rc) start -> (i = slen s \/ char_at s i <> rc) ->
    nc (new_delim start i s) = true.
  Proof.
    intros Hi0 Hi (Hrc & Hs0 & Hsi & Hall & Hbefore) Hend. apply nc_run. apply Hrun.
    assert (Ea : char_at s start = rc) by (apply Hall; lia).
    unfold run_at. rewrite Ea. split; [lia|]. split; [lia|]. split; [lia|]. split; [exact Hrc|]. split; [exact Hall|]. split; [exact Hbefore|exact Hend].
  Qed.

  (* what one step does to the run, for the character c read at i *)
  Definition run2_of (run : option Z) (c : Z) : option Z :=
    match run with
    | Some rc => if c =? rc then run else if (c =? 42) || (c =? 95) then Some c else None
    | None => if (c =? 42) || (c =? 95) then Some c else None
    end.
  Definition start2_of (run : option Z) (start c i : Z) : Z :=
    match run with
    | Some rc => if c =? rc then start else if (c =? 42) || (c =? 95) then i else start
    | None => if (c =? 42) || (c =? 95) then i else start
    end.
  Definition ds1_of (st : scan) (c i : Z) : list delim :=
    match sc_run st with
    | Some rc => if c =? rc then sc_ds st else sc_ds st ++ [new_delim (sc_start st) i s]
    | None => sc_ds st
    end.

  Lemma run2_inv i run start : 0 <= i -> i < slen s -> RunInv i run start ->
    RunInv (i + 1) (run2_of run (char_at s i)) (start2_of run start (char_at s i) i).
  Proof.
    intros Hi0 Hi HR. set (c := char_at s i). unfold run2_of, start2_of. destruct run as [rc|].
    - destruct HR as (Hrc & Hs0 & Hsi & Hall & Hbefore). destruct (c =? rc) eqn:Ec.
      + apply Z.eqb_eq in Ec. split; [exact Hrc|]. split; [lia|]. split; [lia|]. split; [|exact Hbefore].
        intros j Hj. destruct (Z.eq_dec j i) as [->|Hne]; [exact Ec|apply Hall; lia].
      + apply Z.eqb_neq in Ec. destruct ((c =? 42) || (c =? 95)) eqn:Em.
        * apply orb_true_iff in Em. split; [|split; [lia|split; [lia|split]]].
          -- destruct Em as [Em|Em]; apply Z.eqb_eq in Em; [left|right]; exact Em.
          -- intros j Hj. replace j with i by lia. reflexivity.
          -- right. replace (char_at s (i - 1)) with rc by (symmetry; apply Hall; lia). congruence.
        * apply orb_false_iff in Em as [E1 E2]. apply Z.eqb_neq in E1. apply Z.eqb_neq in E2. right.
          replace (i + 1 - 1) with i by lia. split; assumption.
    - destruct ((c =? 42) || (c =? 95)) eqn:Em.
      + apply orb_true_iff in Em. split; [|split; [lia|split; [lia|split]]].
        * destruct Em as [Em|Em]; apply Z.eqb_eq in Em; [left|right]; exact Em.
        * intros j Hj. replace j with i by lia. reflexivity.
        * destruct HR as [->|[H1 H2]]; [left; reflexivity|right]. fold c. destruct Em as [Em|Em]; apply Z.eqb_eq in Em; rewrite Em; assumption.
      + apply orb_false_iff in Em as [E1 E2]. apply Z.eqb_neq in E1. apply Z.eqb_neq in E2. right.
        replace (i + 1 - 1) with i by lia. split; assumption.
  Qed.

  Lemma ds1_inv i st : Inv i st -> i < slen s -> forallb nc (ds1_of st (char_at s i) i) = true.
  Proof.
    intros (Hi0 & Hi & _ & _ & _ & Hd & HR & _) Hlt. unfold ds1_of. destruct (sc_run st) as [rc|]; [|exact Hd].
    destruct (char_at s i =? rc) eqn:Ec; [exact Hd|]. apply Z.eqb_neq in Ec.
    rewrite forallb_app, Hd. cbn [forallb andb]. rewrite (run_closes i rc (sc_start st)); [reflexivity|lia|lia|exact HR|right; exact Ec].
  Qed.

  (* one step of the loop, with the escape and code-span branches excluded *)
  Lemma scan_step fuel i st : i < slen s -> 0 <= i -> sc_escaped st = false ->
    scan_loop (S fuel) s [] i None st =
    let c := char_at s i in
    let ds1 := ds1_of st c i in
    let run2 := run2_of (sc_run st) c in
    let start2 := start2_of (sc_run st) (sc_start st) c i in
    if c =? 91 then
      scan_loop fuel s [] (i + 1) None
        (mkScan (if negb (sc_in_image st) then ds1 ++ [new_delim i (i + 1) s] else ds1 ++ [new_delim (i - 1) (i + 1) s]) (sc_ms st) false run2 false start2 (sc_code st))
    else if c =? 33 then scan_loop fuel s [] (i + 1) None (mkScan ds1 (sc_ms st) false run2 true start2 (sc_code st))
    else if c =? 93 then
      let '(i', ds2, ms2) := find_link_image s i ds1 (sc_ms st) [] in
      scan_loop fuel s [] (i' + 1) (code_search s i') (mkScan ds2 ms2 false run2 (sc_in_image st) start2 (sc_code st))
    else scan_loop fuel s [] (i + 1) None (mkScan ds1 (sc_ms st) false run2 false start2 (sc_code st)).
  Proof.
    intros Hlt Hi0 He. cbn [scan_loop]. assert (i <? slen s = true) as -> by (apply Z.ltb_lt; exact Hlt). cbn [negb].
    assert (Hc : (char_at s i =? 92) = false) by (apply Z.eqb_neq; apply mem_char_at; [exact Hbs|lia]).
    rewrite Hc, He. cbn [andb negb]. unfold ds1_of, run2_of, start2_of, close_run. rewrite He.
    destruct (sc_run st) as [rc|].
    - destruct (char_at s i =? rc) eqn:Ec; cbn [negb orb]; [reflexivity|].
      destruct ((char_at s i =? 42) || (char_at s i =? 95)); cbn [andb negb]; reflexivity.
    - destruct ((char_at s i =? 42) || (char_at s i =? 95)); cbn [andb negb]; reflexivity.
  Qed.

  Lemma scan_final : forall fuel i st, Inv i st -> Final (scan_loop fuel s [] i None st).
  Proof.
    induction fuel as [|fuel IH]; intros i st HI.
    - destruct HI as (_ & _ & Hm & Hc & _ & Hd & _). cbn [scan_loop]. repeat split; assumption.
    - pose proof HI as (Hi0 & Hi & Hm & Hc & He & Hd & HR & Him).
      destruct (Z.eq_dec i (slen s)) as [Eend|Hne].
      + (* the end of the text *)
        cbn [scan_loop]. assert (i <? slen s = false) as -> by (apply Z.ltb_ge; lia). cbn [negb].
        destruct (sc_run st) as [rc|] eqn:Er; [|repeat split; assumption].
        unfold Final. cbn [sc_ms sc_code sc_ds]. split; [exact Hm|]. split; [exact Hc|].
        rewrite forallb_app, Hd. cbn [forallb andb]. rewrite (run_closes i rc (sc_start st)); [reflexivity|lia|lia|exact HR|left; exact Eend].
      + assert (Hlt : i < slen s) by lia.
        rewrite (scan_step fuel i st Hlt Hi0 He). cbv zeta.
        pose proof (ds1_inv i st HI Hlt) as D1. pose proof (run2_inv i _ _ Hi0 Hlt HR) as R2.
        set (c := char_at s i) in *.
        destruct (c =? 91) eqn:E91; [|destruct (c =? 33) eqn:E33; [|destruct (c =? 93) eqn:E93]].
        * (* [ *)
          apply IH. unfold Inv. cbn [sc_ms sc_code sc_escaped sc_ds sc_run sc_start sc_in_image].
          split; [lia|]. split; [lia|]. split; [exact Hm|]. split; [exact Hc|]. split; [reflexivity|]. split; [|split; [exact R2|discriminate]].
          apply Z.eqb_eq in E91.
          destruct (sc_in_image st) eqn:Ei; cbn [negb]; rewrite forallb_app, D1; cbn [forallb andb]; rewrite andb_true_r.
          -- destruct (Him eq_refl) as (Hp & H1 & H2). apply nc_head; try lia; assumption.
          -- apply nc_head; try lia; fold c; rewrite E91; discriminate.
        * (* ! *)
          apply IH. unfold Inv. cbn [sc_ms sc_code sc_escaped sc_ds sc_run sc_start sc_in_image].
          split; [lia|]. split; [lia|]. split; [exact Hm|]. split; [exact Hc|]. split; [reflexivity|]. split; [exact D1|]. split; [exact R2|].
          intros _. apply Z.eqb_eq in E33. replace (i + 1 - 1) with i by lia. fold c. rewrite E33. split; [lia|split; discriminate].
        * (* ] *)
          apply Z.eqb_eq in E93. rewrite Hm.
          destruct (fli s i _ (Hlp i (conj Hi0 Hlt) E93) D1) as (ds2 & -> & D2). rewrite code_none.
          apply IH. unfold Inv. cbn [sc_ms sc_code sc_escaped sc_ds sc_run sc_start sc_in_image].
          split; [lia|]. split; [lia|]. split; [reflexivity|]. split; [exact Hc|]. split; [reflexivity|]. split; [exact D2|]. split; [exact R2|].
          intros _. replace (i + 1 - 1) with i by lia. fold c. rewrite E93. split; [lia|split; discriminate].
        * apply IH. unfold Inv. cbn [sc_ms sc_code sc_escaped sc_ds sc_run sc_start sc_in_image].
          split; [lia|]. split; [lia|]. split; [exact Hm|]. split; [exact Hc|]. split; [reflexivity|]. split; [exact D1|]. split; [exact R2|discriminate].
  Qed.

  Theorem core_inert : find_core_tokens s [] = ([], []).
  Proof.
    unfold find_core_tokens. rewrite code_none.
    assert (I0 : Inv 0 (mkScan [] [] false None false 0 [])).
    { unfold Inv. cbn [sc_ms sc_code sc_escaped sc_ds sc_run sc_start sc_in_image RunInv forallb].
      split; [lia|]. split; [unfold slen; lia|]. repeat split; try reflexivity; try discriminate. left. reflexivity. }
    pose proof (scan_final (S (S (length s))) 0 _ I0) as (Hm & Hc & Hd).
    set (st := scan_loop _ _ _ _ _ _) in *. rewrite Hm, Hc.
    unfold process_emphasis.
    assert (N : forall l k, forallb nc l = true -> next_closer_from l k = None).
    { induction l as [|d l IHl]; intros k Hl; [reflexivity|]. cbn [forallb] in Hl. apply andb_true_iff in Hl as [H1 H2].
      cbn [next_closer_from]. unfold nc in H1. apply negb_true_iff in H1. rewrite H1. apply IHl. exact H2. }
    unfold next_closer. cbn [Z.to_nat skipn]. rewrite (N _ 0 Hd), emph_none. reflexivity.
  Qed.
End Inert.

(* ---- the regex-defined span tokens: each needs a character the text lacks ---- *)
Definition probe : list Z := [92; 126; 60; 62; 10; 36; 91; 93; 124; 123; 125].
Definition lacks (s : str) (k : span_kind) : bool :=
  match k with
  | SK_CoreTokens | SK_InlineCode | SK_RawText => true
  | _ => existsb (fun c => needs (fst (re_of k)) c && negb (mem c s)) probe
  end.

Lemma lacks_finditer k s : lacks s k = true ->
  (match k with SK_CoreTokens | SK_InlineCode | SK_RawText => True | _ => finditer (snd (re_of k)) (fst (re_of k)) s = [] end).
Proof.
  intros Hq. destruct k; try exact I; cbn [lacks] in Hq;
    apply existsb_exists in Hq as (c & _ & Hn); apply andb_true_iff in Hn as [Hn Hm]; apply negb_true_iff in Hm;
    apply (finditer_none _ _ c s Hn Hm).
Qed.

(* an ampersand is inert when no character reference can be completed: the text has no & or no ; *)
Definition amp_ok (s : str) : bool := negb (mem 38 s) || negb (mem 59 s).

Lemma unescape_amp_ok l : amp_ok l = true -> unescape l = l.
Proof.
  intros H. unfold unescape, unescape_with. destruct (mem 38 l) eqn:E38; [|reflexivity]. cbn [negb].
  unfold amp_ok in H. rewrite E38 in H. cbn [negb orb] in H. apply negb_true_iff in H.
  rewrite (finditer_none _ _ 59 l); [reflexivity|vm_compute; reflexivity|exact H].
Qed.

(* the hypotheses on a text, gathered *)
Definition inert_core (s : str) : Prop :=
  mem 92 s = false /\ mem 96 s = false /\
  (forall i, 0 <= i < slen s -> char_at s i = 93 -> follows s i 40 = false) /\
  (forall a b, run_at s a b -> is_closer a b s = false).

Lemma find_all_inert s : inert_core s -> forall types, forallb (lacks s) types = true -> find_all types s [] [] = [].
Proof.
  intros (H1 & H2 & H3 & H4). induction types as [|k ts IH]; intros Hq; [reflexivity|].
  cbn [forallb] in Hq. apply andb_true_iff in Hq as [Hk Hts].
  cbn [find_all]. pose proof (lacks_finditer k s Hk) as F.
  destruct k; cbn [find_kind];
    try (rewrite (core_inert s H1 H2 H3 H4); cbn [map app]; apply IH; exact Hts);
    try (cbn [map app]; apply IH; exact Hts);
    (cbn [re_of fst snd] in F |- *; rewrite F; cbn [map app]; apply IH; exact Hts).
Qed.

Theorem tokenize_inner_inert types s :
  inert_core s -> amp_ok s = true -> s <> [] -> forallb (lacks s) (removelast types) = true ->
  tokenize_inner types [] s = [RawText s].
Proof.
  intros Hc Ha Hne Hq. unfold tokenize_inner. rewrite (find_all_inert s Hc _ Hq).
  cbn [number_from map]. unfold tokenize, SpanTokenizer.make_tokens, make_tokens_with. cbn [sort_cands fold_right buffer_rev last_end mk_rev app].
  destruct (0 =? slen s) eqn:E.
  - apply Z.eqb_eq in E. destruct s; [contradiction|]. unfold slen in E. cbn [length] in E. lia.
  - cbn [rev app map build_otok]. rewrite substr_all. rewrite (unescape_amp_ok s Ha). reflexivity.
Qed.

(* ---- the block phase: a line that starts no block other than a paragraph ---- *)
Definition block_line (l : str) : Prop :=
  plain_first (hd 0 l) = true /\ mem 124 l = false /\ l <> [] /\ is_space_c (last l 0) = false.

Lemma strip_block_line l : block_line l -> strip (lstrip (l ++ [10])) = l /\ is_blank (l ++ [10]) = false.
Proof.
  intros (Hf & _ & Hne & Hl). destruct l as [|c t]; [contradiction|]. cbn [hd] in Hf.
  pose proof (plain_first_not_space c Hf) as Hc.
  assert (L : lstrip ((c :: t) ++ [10]) = (c :: t) ++ [10]) by (unfold lstrip; cbn [app lstrip_by]; rewrite Hc; reflexivity).
  assert (S : strip ((c :: t) ++ [10]) = c :: t).
  { unfold strip, strip_by. fold (lstrip ((c :: t) ++ [10])). rewrite L. apply rstrip_last; assumption. }
  split.
  - rewrite L. exact S.
  - unfold is_blank. rewrite S. reflexivity.
Qed.

Section Block.
  Variable types : list block_kind.
  Variable rec : list str -> Z -> pstate -> list pre * bool * pstate.

  Lemma try_types_block_line l ln st : block_line l -> forall ts, In BK_Paragraph ts ->
    try_types types rec ts [l ++ [10]] ln st = Some (PParagraph ln [l ++ [10]], 1%nat, st).
  Proof.
    intros PL. pose proof PL as (Hf & Hp & Hne & Hl). destruct (strip_block_line l PL) as [_ Hb].
    destruct l as [|c t]; [contradiction|]. cbn [hd] in Hf.
    induction ts as [|k ts IH]; intros Hin; [destruct Hin|].
    cbn [try_types].
    destruct (kind_eqb k BK_Paragraph) eqn:EP.
    - assert (k = BK_Paragraph) by (destruct k; try discriminate; reflexivity). subst k.
      cbn [start_read app]. unfold paragraph_start. change ((c :: t) ++ [10]) with (c :: t ++ [10]) in Hb. rewrite Hb.
      cbn [negb para_loop rev app]. reflexivity.
    - assert (N : start_read types rec k [(c :: t) ++ [10]] ln st = None).
      { destruct (non_paragraph_non_table k) eqn:EN.
        - cbn [app]. apply block_starts_need_marker; assumption.
        - destruct k; try discriminate. cbn [start_read app]. unfold table_start.
          change (c :: t ++ [10]) with ((c :: t) ++ [10]). unfold mem. rewrite existsb_app.
          fold (mem 124 (c :: t)). rewrite Hp. reflexivity. }
      rewrite N. apply IH. destruct Hin as [->|Hin]; [destruct BK_Paragraph; discriminate|exact Hin].
  Qed.
End Block.

Definition inert_line (l : str) : Prop := block_line l /\ inert_core l /\ amp_ok l = true.
Definition lacks_config (cfg : pconfig) (l : str) : bool :=
  existsb (fun k => kind_eqb k BK_Paragraph) (cfg_block cfg) && forallb (lacks l) (removelast (cfg_span cfg)).

Theorem inert_line_parses cfg l : inert_line l -> lacks_config cfg l = true ->
  parse_lines cfg [l ++ [10]] = (Document [Paragraph [RawText l]], [], [1]).
Proof.
  intros (PL & Hc & Ha) Hq. apply andb_true_iff in Hq as [Hpar Hsp]. apply in_dec_paragraph in Hpar.
  unfold parse_lines, block_phase, depth_fuel. cbn [tokenize_block length dispatch_loop].
  rewrite (try_types_block_line _ _ l 1 (mkPs true) PL _ Hpar). cbn [skipn rev app dispatch_loop].
  unfold footnotes_of. cbn [flat_map defs_of app append_footnotes fold_left].
  unfold make_tokens. cbn [flat_map build concat map app lnums].
  destruct (strip_block_line l PL) as [S _]. rewrite app_nil_r, S.
  pose proof PL as (_ & _ & Hne & _).
  unfold inline. rewrite (tokenize_inner_inert _ l Hc Ha Hne Hsp). reflexivity.
Qed.

Theorem inert_line_renders cfg o l : inert_line l -> lacks_config cfg l = true ->
  render_html o (fst (fst (parse_lines cfg [l ++ [10]]))) = $"<p>" ++ escape_html_text o l ++ $"</p>" ++ [10].
Proof. intros PL Hq. rewrite (inert_line_parses cfg l PL Hq). cbn [fst]. apply render_plain_paragraph. Qed.

(* ---- the hypotheses as computable checks ---- *)
Definition no_link_paren (s : str) : bool :=
  forallb (fun n => let i := Z.of_nat n in negb (char_at s i =? 93) || negb (follows s i 40)) (seq 0 (length s)).

Lemma no_link_paren_spec s : no_link_paren s = true -> forall i, 0 <= i < slen s -> char_at s i = 93 -> follows s i 40 = false.
Proof.
  intros H i Hi Hc. unfold no_link_paren in H. rewrite forallb_forall in H.
  specialize (H (Z.to_nat i)). rewrite Z2Nat.id in H by lia. cbv zeta in H.
  assert (Hin : In (Z.to_nat i) (seq 0 (length s))) by (apply in_seq; unfold slen in Hi; lia).
  specialize (H Hin). rewrite Hc in H. cbn [Z.eqb Pos.eqb negb orb] in H. apply negb_true_iff in H. exact H.
Qed.

Definition run_at_b (s : str) (a b : Z) : bool :=
  let c := char_at s a in
  (0 <=? a) && (a <? b) && (b <=? slen s) && ((c =? 42) || (c =? 95)) &&
  forallb (fun n => char_at s (a + Z.of_nat n) =? c) (seq 0 (Z.to_nat (b - a))) &&
  ((a =? 0) || negb (char_at s (a - 1) =? c)) && ((b =? slen s) || negb (char_at s b =? c)).

Lemma run_at_b_complete s a b : run_at s a b -> run_at_b s a b = true.
Proof.
  intros (H0 & Hab & Hb & Hc & Hall & Hbef & Haft). unfold run_at_b. cbv zeta.
  assert ((0 <=? a) = true) as -> by (apply Z.leb_le; lia).
  assert ((a <? b) = true) as -> by (apply Z.ltb_lt; lia).
  assert ((b <=? slen s) = true) as -> by (apply Z.leb_le; lia).
  assert (((char_at s a =? 42) || (char_at s a =? 95)) = true) as -> by (destruct Hc as [->| ->]; reflexivity).
  assert (forallb (fun n => char_at s (a + Z.of_nat n) =? char_at s a) (seq 0 (Z.to_nat (b - a))) = true) as ->.
  { apply forallb_forall. intros n Hn. apply in_seq in Hn. apply Z.eqb_eq. apply Hall. lia. }
  assert (((a =? 0) || negb (char_at s (a - 1) =? char_at s a)) = true) as ->.
  { destruct Hbef as [->|Hn]; [reflexivity|]. apply Z.eqb_neq in Hn. rewrite Hn. apply orb_true_r. }
  assert (((b =? slen s) || negb (char_at s b =? char_at s a)) = true) as ->.
  { destruct Haft as [->|Hn]; [rewrite Z.eqb_refl; reflexivity|]. apply Z.eqb_neq in Hn. rewrite Hn. apply orb_true_r. }
  reflexivity.
Qed.

Definition closers_free (s : str) : bool :=
  forallb (fun na => forallb (fun nb => let a := Z.of_nat na in let b := Z.of_nat nb in negb (run_at_b s a b) || negb (is_closer a b s))
                             (seq 0 (S (length s)))) (seq 0 (length s)).

Lemma closers_free_spec s : closers_free s = true -> forall a b, run_at s a b -> is_closer a b s = false.
Proof.
  intros H a b HR. pose proof HR as (H0 & Hab & Hb & _). unfold closers_free in H. rewrite forallb_forall in H.
  assert (Ha : In (Z.to_nat a) (seq 0 (length s))) by (apply in_seq; unfold slen in Hb; lia).
  specialize (H _ Ha). rewrite forallb_forall in H.
  assert (Hbn : In (Z.to_nat b) (seq 0 (S (length s)))) by (apply in_seq; unfold slen in Hb; lia).
  specialize (H _ Hbn). cbv zeta in H. rewrite !Z2Nat.id in H by lia.
  rewrite (run_at_b_complete s a b HR) in H. cbn [negb orb] in H. apply negb_true_iff in H. exact H.
Qed.

Definition inert_line_b (l : str) : bool :=
  plain_first (hd 0 l) && negb (mem 124 l) && (match l with [] => false | _ => true end) && negb (is_space_c (last l 0)) &&
  negb (mem 92 l) && negb (mem 96 l) && amp_ok l && no_link_paren l && closers_free l.

Lemma inert_line_b_spec l : inert_line_b l = true -> inert_line l.
Proof.
  unfold inert_line_b. intros H. repeat rewrite andb_true_iff in H. destruct H as [[[[[[[[H1 H2] H3] H4] H5] H6] H7] H8] H9].
  apply negb_true_iff in H2, H4, H5, H6.
  split; [|split].
  - split; [exact H1|]. split; [exact H2|]. split; [destruct l; discriminate|exact H4].
  - split; [exact H5|]. split; [exact H6|]. split; [apply no_link_paren_spec; exact H8|apply closers_free_spec; exact H9].
  - exact H7.
Qed.

Theorem inert_line_b_renders cfg o l : inert_line_b l = true -> lacks_config cfg l = true ->
  render_html o (fst (fst (parse_lines cfg [l ++ [10]]))) = $"<p>" ++ escape_html_text o l ++ $"</p>" ++ [10].
Proof. intros H. apply inert_line_renders. apply inert_line_b_spec. exact H. Qed.

(* non-vacuity: lines with isolated and intraword delimiters, unpaired and paired brackets, < without > *)
Example inert_instances :
  forallb (fun l => inert_line_b l && forallb (fun c => lacks_config c l) [cfg_html; cfg_html_nohtml; cfg_markdown; cfg_latex; cfg_mathjax; cfg_default])
    [$"so 2 * 3 = 6, and snake_case_name stays"; $"a [b] c and ![d] and e] f [g"; $"x < y, 5 * 2 _ 1"; $"open *only and **twice, never closed";
     $"f(x)[i] = a_b * c_d"; $"(see [1]) and [^note]"; $"x > y"; $"AT&T, R&D and a && b"] = true /\
  inert_line_b ($"a *b* c") = false /\ inert_line_b ($"a _b_ c") = false /\ inert_line_b ($"[a](b)") = false /\ inert_line_b ($"a \\* b") = false /\
  inert_line_b ($"a*") = false /\ inert_line_b ($"x &amp; y") = false /\ lacks_config cfg_html ($"a ~ b") = false /\ lacks_config cfg_html ($"a <b> c") = false.
Proof. vm_compute. repeat split; reflexivity. Qed.

(* ================= paragraphs of several lines ================= *)
(* what the inline phase needs of each line *)
Definition wline (l : str) : Prop := mem 10 l = false /\ mem 92 l = false /\ amp_ok l = true /\ l <> [] /\ last l 0 <> 32.

Lemma wline_tail l : wline l -> ok_tail l.
Proof. intros (H1 & H2 & _ & _ & Hl). repeat split; [exact H1|exact H2|intros _; exact Hl]. Qed.


Lemma np_increasing_any : forall ls p, chain (lbc 0 (newline_positions p ls)) /\ Forall (fun c => inner c = false) (lbc 0 (newline_positions p ls)).
Proof.
  assert (G : forall ls p i, chain (lbc i (newline_positions p ls)) /\ Forall (fun c => inner c = false) (lbc i (newline_positions p ls)) /\
                             (forall c, In c (lbc i (newline_positions p ls)) -> p <= cs c)).
  { induction ls as [|l r IH]; intros p i; [cbn; repeat split; [constructor|intros c []]|]. destruct r as [|l2 r']; [cbn; repeat split; [constructor|intros c []]|].
    change (newline_positions p (l :: l2 :: r')) with ((p + slen l) :: newline_positions (p + slen l + 1) (l2 :: r')). cbn [lbc].
    destruct (IH (p + slen l + 1) (i + 1)) as (C & Inn & B). assert (0 <= slen l) by (unfold slen; lia). repeat split.
    - destruct (lbc (i + 1) (newline_positions (p + slen l + 1) (l2 :: r'))) as [|d more] eqn:E; [exact Logic.I|].
      cbn [chain ce cs]. specialize (B d (or_introl eq_refl)). repeat split; [lia|lia|exact C].
    - constructor; [reflexivity|exact Inn].
    - intros c [<-|Hc]; [cbn [cs]; lia|specialize (B c Hc); lia]. }
  intros ls p. destruct (G ls p 0) as (A & B & _). split; assumption.
Qed.

Section InnerGen.
  Variable types : list span_kind.
  Variable fn : footnotes.

  Theorem tokenize_inner_lines ls : ls <> [] -> Forall wline ls ->
    find_all (removelast types) (join [10] ls) fn [] = lb_srcs (join [10] ls) ->
    tokenize_inner types fn (join [10] ls) = prose_toks ls.
  Proof.
    intros Hne Hok Hsrcs. set (s := join [10] ls) in *.
    unfold tokenize_inner. rewrite Hsrcs. unfold lb_srcs.
    set (ms := finditer fl_span_token_LineBreak_pattern re_span_token_LineBreak_pattern s).
    assert (F2 : Forall2 lb_ok (newline_positions 0 ls) ms).
    { destruct lb_shape as [Sh Fl]. unfold ms, finditer. rewrite Sh, Fl.
      apply (finditer_lb ls (start_at [] s) (0 :: s) false Hne eq_refl).
      - apply Forall_forall. intros l Hl. apply wline_tail. rewrite Forall_forall in Hok. apply Hok. exact Hl.
      - cbn [length]. clear -Hne. unfold s. induction ls as [|l r IH]; [contradiction|]. destruct r as [|l2 r']; [cbn [length]; lia|].
        change (join [10] (l :: l2 :: r')) with (l ++ 10 :: join [10] (l2 :: r')). rewrite app_length. cbn [length] in *. specialize (IH ltac:(discriminate)). lia. }
    set (srcs := map (fun p => CRe SK_LineBreak (fst p) (snd p)) ms).
    assert (Ec : forall i ps mm, Forall2 lb_ok ps mm ->
              map (fun p => cand_of (fst p) (snd p)) (number_from i (map (fun p => CRe SK_LineBreak (fst p) (snd p)) mm)) = lbc i ps).
    { clear. intros i ps mm H. revert i. induction H as [|P [s0 s1] ps mm (H0 & H1 & _) _ IH]; intros i; [reflexivity|].
      cbn [map number_from lbc fst snd cand_of sk_parse_group grp_span sk_precedence sk_parse_inner] in *. rewrite H0, H1, IH. reflexivity. }
    replace (map (fun p => cand_of (fst p) (snd p)) (number_from 0 srcs)) with (lbc 0 (newline_positions 0 ls)) by (symmetry; apply (Ec 0 _ _ F2)).
    destruct (np_increasing_any ls 0) as [Hch Hin]. rewrite (tokenize_chain _ _ Hch Hin). fold (out 0 (lbc 0 (newline_positions 0 ls)) (slen s)).
    assert (Leaf : forall j P, nth_error (newline_positions 0 ls) j = Some P -> build_leaf (src_at srcs (Z.of_nat j)) = LineBreak [] true).
    { intros j P Hj. unfold src_at, srcs. rewrite Nat2Z.id.
      destruct (Forall2_nth_error_l _ _ _ F2 j P Hj) as ([s0 s1] & Hm & (_ & H1 & Hg)).
      rewrite (nth_error_nth _ _ _ (map_nth_error (fun p => CRe SK_LineBreak (fst p) (snd p)) j ms Hm)).
      cbn [build_leaf fst snd]. unfold gtext, group_text. cbn [snd] in Hg. rewrite Hg. unfold segment. rewrite Z.sub_diag. reflexivity. }
    assert (G : forall ls' pre i k, ls' <> [] -> Forall wline ls' -> s = pre ++ join [10] ls' -> i = Z.of_nat k ->
              (forall j P, nth_error (newline_positions (slen pre) ls') j = Some P -> build_leaf (src_at srcs (Z.of_nat (k + j))) = LineBreak [] true) ->
              map (build_otok s srcs) (out (slen pre) (lbc i (newline_positions (slen pre) ls')) (slen s)) = prose_toks ls').
    { induction ls' as [|l r IH]; intros pre i k Hn Hk Es Ei HL; [contradiction|].
      inversion Hk as [|? ? (_ & _ & Hpl & Hln & _) Hr]; subst. destruct r as [|l2 r'].
      - cbn [join] in Es. cbn [newline_positions lbc prose_toks]. unfold out. cbn [body app end_of rev].
        assert (slen s = slen pre + slen l) by (rewrite Es, slen_app; reflexivity).
        assert (0 < slen l) by (destruct l; [contradiction|unfold slen; cbn [length]; lia]).
        replace (slen pre =? slen s) with false by (symmetry; apply Z.eqb_neq; lia). cbn [map build_otok].
        rewrite H. rewrite Es. rewrite <- (app_nil_r l) at 1. rewrite (substr_mid pre l []). rewrite unescape_amp_ok by exact Hpl. reflexivity.
      - change (join [10] (l :: l2 :: r')) with (l ++ 10 :: join [10] (l2 :: r')) in Es.
        change (newline_positions (slen pre) (l :: l2 :: r')) with ((slen pre + slen l) :: newline_positions (slen pre + slen l + 1) (l2 :: r')) in *.
        cbn [lbc]. rewrite out_cons. cbn [cs ce].
        assert (0 < slen l) by (destruct l; [contradiction|unfold slen; cbn [length]; lia]).
        unfold gap. replace (slen pre + slen l >? slen pre) with true by (symmetry; apply Z.gtb_lt; lia).
        cbn [app map build_otok cid]. rewrite Es at 1. rewrite (substr_mid pre l (10 :: join [10] (l2 :: r'))). rewrite unescape_amp_ok by exact Hpl.
        pose proof (HL 0%nat (slen pre + slen l) eq_refl) as H0. rewrite Nat.add_0_r in H0. rewrite H0. cbn [prose_toks]. f_equal. f_equal.
        assert (Ep : slen (pre ++ l ++ [10]) = slen pre + slen l + 1) by (rewrite !slen_app; unfold slen; cbn [length]; lia).
        rewrite <- Ep. apply (IH (pre ++ l ++ [10]) (Z.of_nat k + 1) (S k)); [discriminate|exact Hr| |lia|].
        + rewrite Es, <- !app_assoc. reflexivity.
        + intros j P Hj. rewrite Ep in Hj. replace (S k + j)%nat with (k + S j)%nat by lia. apply (HL (S j) P). exact Hj. }
    apply (G ls [] 0 0%nat Hne Hok eq_refl eq_refl). intros j P Hj. apply (Leaf j P). exact Hj.
  Qed.
End InnerGen.

(* the other finders on the joined text: only LineBreak finds anything *)
Definition lacks_nl (s : str) (k : span_kind) : bool :=
  match k with
  | SK_CoreTokens | SK_InlineCode | SK_RawText | SK_LineBreak => true
  | _ => existsb (fun c => needs (fst (re_of k)) c && negb (mem c s)) probe
  end.

Lemma lacks_nl_finditer k s : lacks_nl s k = true ->
  (match k with SK_CoreTokens | SK_InlineCode | SK_RawText | SK_LineBreak => True | _ => finditer (snd (re_of k)) (fst (re_of k)) s = [] end).
Proof.
  intros Hq. destruct k; try exact I; cbn [lacks_nl] in Hq;
    apply existsb_exists in Hq as (c & _ & Hn); apply andb_true_iff in Hn as [Hn Hm]; apply negb_true_iff in Hm;
    apply (finditer_none _ _ c s Hn Hm).
Qed.

Lemma find_all_inert_nl s : inert_core s -> forall types, forallb (lacks_nl s) types = true ->
  find_all types s [] [] = flat_map (fun k => match k with SK_LineBreak => lb_srcs s | _ => [] end) types.
Proof.
  intros (H1 & H2 & H3 & H4). induction types as [|k ts IH]; intros Hq; [reflexivity|].
  cbn [forallb] in Hq. apply andb_true_iff in Hq as [Hk Hts].
  cbn [find_all flat_map]. pose proof (lacks_nl_finditer k s Hk) as F.
  destruct k; cbn [find_kind];
    try (rewrite (core_inert s H1 H2 H3 H4); cbn [map app]; apply IH; exact Hts);
    try (cbn [map app]; apply IH; exact Hts);
    try (cbn [re_of fst snd] in F |- *; rewrite F; cbn [map app]; apply IH; exact Hts).
  cbn [re_of]. unfold lb_srcs. f_equal. apply IH. exact Hts.
Qed.

Lemma srcs_inert types s : inert_core s -> forallb (lacks_nl s) types = true ->
  filter (fun k => match k with SK_LineBreak => true | _ => false end) types = [SK_LineBreak] ->
  find_all types s [] [] = lb_srcs s.
Proof.
  intros Hc Hq Hlb. rewrite (find_all_inert_nl s Hc _ Hq). clear Hq. revert Hlb. generalize types as ts.
  assert (G : forall ts n, length (filter (fun k => match k with SK_LineBreak => true | _ => false end) ts) = n ->
            flat_map (fun k => match k with SK_LineBreak => lb_srcs s | _ => [] end) ts = concat (repeat (lb_srcs s) n)).
  { induction ts as [|k ts IH]; intros n Hn; [cbn in Hn; subst n; reflexivity|]. cbn [flat_map filter] in *.
    destruct k; try (cbn [app]; apply IH; exact Hn). destruct n as [|n]; [discriminate|]. cbn [length] in Hn. cbn [repeat concat]. f_equal. apply IH. lia. }
  intros ts H. rewrite (G ts 1%nat) by (rewrite H; reflexivity). cbn [repeat concat]. apply app_nil_r.
Qed.

(* ---- the block phase over lines that start no block and cannot continue anything but the paragraph ---- *)
Definition bl_cont (l : str) : Prop := block_line l /\ cont_first (hd 0 l) = true.

Section ParaGen.
  Variable types : list block_kind.

  Lemma para_loop_lines setext : forall ls buf taken, Forall bl_cont ls ->
    para_loop types setext (map (fun l => l ++ [10]) ls) buf taken = (rev buf ++ map (fun l => l ++ [10]) ls, (taken + length ls)%nat, false).
  Proof.
    induction ls as [|l r IH]; intros buf taken H; [cbn [map para_loop length]; rewrite app_nil_r, Nat.add_0_r; reflexivity|].
    inversion H as [|? ? [PL Hc] Hr]; subst. pose proof PL as (Hf & Hp & Hne & Hl). destruct (strip_block_line l PL) as [_ Hb].
    destruct l as [|c t]; [contradiction|]. cbn [hd] in Hf, Hc. unfold cont_first in Hc. repeat rewrite andb_true_iff in Hc. destruct Hc as [[_ Hsx] Hli].
    cbn [map para_loop]. rewrite Hb.
    assert (Np : match map (fun l => l ++ [10]) r with [] => True | l2 :: _ => mem 124 l2 = false end).
    { destruct r as [|l2 r']; [exact I|]. cbn [map]. inversion Hr as [|? ? [(_ & Hp2 & _) _] _]; subst.
      unfold mem. rewrite existsb_app. fold (mem 124 l2). rewrite Hp2. reflexivity. }
    change ((c :: t) ++ [10]) with (c :: t ++ [10]).
    rewrite (plain_no_interrupt types c (t ++ [10]) _ Hf Hli Np).
    rewrite (rmatch_plain _ _ c (t ++ [10]) Hsx). rewrite andb_false_r.
    assert (Th : thematic_start (c :: t ++ [10]) = false).
    { pose proof (block_starts_need_marker [] (fun _ _ _ => ([], false, mkPs true)) BK_ThematicBreak c (t ++ [10]) [] 0 (mkPs true) Hf eq_refl) as N.
      cbn [start_read] in N. destruct (thematic_start (c :: t ++ [10])); [discriminate|reflexivity]. }
    rewrite Th. rewrite (IH _ _ Hr). cbn [rev length]. rewrite <- app_assoc. cbn [app]. f_equal. f_equal. lia.
  Qed.
End ParaGen.

Section BlocksGen.
  Variable types : list block_kind.
  Variable rec : list str -> Z -> pstate -> list pre * bool * pstate.

  Lemma try_types_para_lines l rest ln st buf c : block_line l ->
    para_loop types (ps_setext st) rest [l ++ [10]] 1%nat = (buf, c, false) ->
    forall ts, In BK_Paragraph ts ->
    try_types types rec ts ((l ++ [10]) :: rest) ln st = Some (PParagraph ln buf, c, st).
  Proof.
    intros PL Hpl. pose proof PL as (Hf & Hp & Hne & Hl). destruct (strip_block_line l PL) as [_ Hbl].
    destruct l as [|c0 t]; [contradiction|]. cbn [hd] in Hf. cbn [app] in Hpl, Hbl |- *.
    induction ts as [|k ts IH]; intros Hin; [destruct Hin|].
    cbn [try_types].
    destruct (kind_eqb k BK_Paragraph) eqn:EP.
    - assert (k = BK_Paragraph) by (destruct k; try discriminate; reflexivity). subst k.
      cbn [start_read]. unfold paragraph_start. rewrite Hbl. cbn [negb].
      match goal with |- context [para_loop ?pa ?pb ?pc ?pd ?pe] => replace (para_loop pa pb pc pd pe) with (buf, c, false) by (symmetry; exact Hpl) end. reflexivity.
    - assert (N : start_read types rec k ((c0 :: t ++ [10]) :: rest) ln st = None).
      { destruct (non_paragraph_non_table k) eqn:EN.
        - apply block_starts_need_marker; assumption.
        - destruct k; try discriminate. cbn [start_read]. unfold table_start.
          change (c0 :: t ++ [10]) with ((c0 :: t) ++ [10]). unfold mem. rewrite existsb_app. fold (mem 124 (c0 :: t)). rewrite Hp. reflexivity. }
      rewrite N. apply IH. destruct Hin as [->|Hin]; [destruct BK_Paragraph; discriminate|exact Hin].
  Qed.
End BlocksGen.

Theorem lines_block types f l ls ln st : In BK_Paragraph types -> block_line l -> Forall bl_cont ls ->
  tokenize_block types (S f) (nl_lines (l :: ls)) ln st = ([PParagraph ln (nl_lines (l :: ls))], false, st).
Proof.
  intros Hpar PL Hc. unfold nl_lines. cbn [map]. set (L := map (fun l0 => l0 ++ [10]) ls).
  assert (EL : @skipn str (length ls) L = []) by (apply skipn_all2; unfold L; rewrite map_length; apply le_n).
  assert (Ell : length L = length ls) by (unfold L; apply map_length).
  pose proof (para_loop_lines types (ps_setext st) ls [l ++ [10]] 1 Hc) as PLoop. cbn [rev app] in PLoop. fold L in PLoop.
  cbn [tokenize_block length dispatch_loop].
  rewrite (try_types_para_lines types (tokenize_block types f) l L ln st _ _ PL PLoop types Hpar).
  change (1 + length ls)%nat with (S (length ls)). cbn [skipn]. rewrite EL. reflexivity.
Qed.

Lemma strip_lines l ls : block_line l -> Forall bl_cont ls ->
  strip (concat (map lstrip (nl_lines (l :: ls)))) = join [10] (l :: ls).
Proof.
  intros PL Hc.
  assert (Hall : Forall block_line (l :: ls)) by (constructor; [exact PL|apply Forall_forall; intros x Hx; rewrite Forall_forall in Hc; apply (Hc x Hx)]).
  assert (E1 : map lstrip (nl_lines (l :: ls)) = nl_lines (l :: ls)).
  { unfold nl_lines. rewrite map_map. apply map_ext_in. intros x Hx. rewrite Forall_forall in Hall. destruct (Hall x Hx) as (Hf & _ & Hne & _).
    destruct x as [|c t]; [contradiction|]. cbn [hd] in Hf. cbn [app]. apply lstrip_nonspace. apply plain_first_not_space. exact Hf. }
  rewrite E1, concat_nl_lines by discriminate.
  set (X := join [10] (l :: ls)).
  destruct PL as (Hf & _ & Hne & _). destruct l as [|c t]; [contradiction|]. cbn [hd] in Hf.
  assert (Hx : exists t', X = c :: t') by (unfold X; destruct ls; [exists t; reflexivity|eexists; reflexivity]). destruct Hx as [t' Ex].
  unfold strip, strip_by. fold (lstrip (X ++ [10])). rewrite Ex. cbn [app]. rewrite lstrip_nonspace by (apply plain_first_not_space; exact Hf).
  change (c :: t' ++ [10]) with ((c :: t') ++ [10]). rewrite <- Ex. fold (rstrip (X ++ [10])). apply rstrip_last.
  - rewrite Ex. discriminate.
  - assert (Hn : Forall (fun x : str => x <> []) ((c :: t) :: ls)).
    { apply Forall_forall. intros x Hx. rewrite Forall_forall in Hall. destruct (Hall x Hx) as (_ & _ & Hn & _). exact Hn. }
    pose proof (last_join ls (c :: t) Hn) as LJ. change (join [10] ((c :: t) :: ls)) with X in LJ. rewrite LJ.
    pose proof (last_in ls (c :: t)) as Hin.
    rewrite Forall_forall in Hall. destruct (Hall _ Hin) as (_ & _ & _ & Hl). exact Hl.
Qed.

(* ---- the paragraph ---- *)
Lemma mem_join_line c : forall ls l, mem c (join [10] ls) = false -> In l ls -> mem c l = false.
Proof.
  induction ls as [|x r IH]; intros l H Hin; [destruct Hin|]. destruct r as [|y r'].
  - cbn [join] in H. destruct Hin as [<-|[]]. exact H.
  - change (join [10] (x :: y :: r')) with (x ++ [10] ++ join [10] (y :: r')) in H. unfold mem in H; rewrite !existsb_app in H; fold (mem c x) in H; fold (mem c (join [10] (y :: r'))) in H.
    apply orb_false_iff in H as [Hx H]. apply orb_false_iff in H as [_ H].
    destruct Hin as [<-|Hin]; [exact Hx|apply IH; assumption].
Qed.

Lemma amp_ok_join_line ls x : amp_ok (join [10] ls) = true -> In x ls -> amp_ok x = true.
Proof.
  unfold amp_ok. intros H Hin. apply orb_true_iff in H as [H|H]; apply negb_true_iff in H.
  - rewrite (mem_join_line 38 ls x H Hin). reflexivity.
  - rewrite (mem_join_line 59 ls x H Hin). apply orb_true_r.
Qed.

Definition inert_paragraph (l : str) (ls : list str) : Prop :=
  block_line l /\ Forall bl_cont ls /\ Forall (fun x => mem 10 x = false) (l :: ls) /\
  inert_core (join [10] (l :: ls)) /\ amp_ok (join [10] (l :: ls)) = true.

Definition lacks_nl_config (cfg : pconfig) (s : str) : bool :=
  existsb (fun k => kind_eqb k BK_Paragraph) (cfg_block cfg) && forallb (lacks_nl s) (removelast (cfg_span cfg)) &&
  match filter (fun k => match k with SK_LineBreak => true | _ => false end) (removelast (cfg_span cfg)) with [SK_LineBreak] => true | _ => false end.

Theorem inert_paragraph_parses cfg l ls : inert_paragraph l ls -> lacks_nl_config cfg (join [10] (l :: ls)) = true ->
  fst (fst (parse_lines cfg (nl_lines (l :: ls)))) = Document [Paragraph (prose_toks (l :: ls))].
Proof.
  intros (PL & Hc & H10 & Hcore & Hamp) Hq. unfold lacks_nl_config in Hq. repeat rewrite andb_true_iff in Hq. destruct Hq as [[Hpar Hquiet] Hlb].
  apply in_dec_paragraph in Hpar.
  assert (Hlb' : filter (fun k => match k with SK_LineBreak => true | _ => false end) (removelast (cfg_span cfg)) = [SK_LineBreak]).
  { destruct (filter _ _) as [|[] [|? ?]]; try discriminate. reflexivity. }
  unfold parse_lines, block_phase, depth_fuel. rewrite (lines_block (cfg_block cfg) _ l ls 1 (mkPs true) Hpar PL Hc).
  cbn [fst]. unfold Build.make_tokens. cbn [flat_map build app]. rewrite (strip_lines l ls PL Hc). unfold inline.
  unfold footnotes_of. cbn [flat_map defs_of app append_footnotes fold_left].
  rewrite (tokenize_inner_lines (cfg_span cfg) [] (l :: ls)); [reflexivity|discriminate| |apply srcs_inert; assumption].
  assert (Hbl : Forall block_line (l :: ls)) by (constructor; [exact PL|apply Forall_forall; intros x Hx; rewrite Forall_forall in Hc; apply (Hc x Hx)]).
  apply Forall_forall. intros x Hx. rewrite Forall_forall in Hbl, H10. destruct (Hbl x Hx) as (_ & _ & Hne & Hl).
  destruct Hcore as (H92 & _).
  split; [apply H10; exact Hx|]. split; [apply (mem_join_line 92 (l :: ls)); assumption|]. split; [apply (amp_ok_join_line (l :: ls)); assumption|].
  split; [exact Hne|]. intros E. rewrite E in Hl. vm_compute in Hl. discriminate.
Qed.

Theorem inert_paragraph_renders cfg o l ls : inert_paragraph l ls -> lacks_nl_config cfg (join [10] (l :: ls)) = true ->
  render_html o (fst (fst (parse_lines cfg (nl_lines (l :: ls))))) =
  $"<p>" ++ join [10] (map (escape_html_text o) (l :: ls)) ++ $"</p>" ++ [10].
Proof.
  intros HP Hq. rewrite (inert_paragraph_parses cfg l ls HP Hq).
  unfold render_html. cbn [render map join_items]. unfold wrap.
  assert (E : serialize (IOpen $"p" [] :: flat_map (render o false false) (prose_toks (l :: ls)) ++ [IClose $"p"]) =
              $"<p>" ++ join [10] (map (escape_html_text o) (l :: ls)) ++ $"</p>").
  { unfold serialize. cbn [flat_map]. rewrite flat_map_app. fold (serialize (flat_map (render o false false) (prose_toks (l :: ls)))).
    rewrite render_prose_toks by discriminate. cbn. rewrite ?app_nil_r. reflexivity. }
  rewrite E. change ($"<p>" ++ join [10] (map (escape_html_text o) (l :: ls)) ++ $"</p>") with (60 :: ($"p>" ++ join [10] (map (escape_html_text o) (l :: ls)) ++ $"</p>")).
  cbv iota. change (IOpen $"p" [] :: (flat_map (render o false false) (prose_toks (l :: ls)) ++ [IClose $"p"]) ++ [nl])
    with ((IOpen $"p" [] :: flat_map (render o false false) (prose_toks (l :: ls)) ++ [IClose $"p"]) ++ [nl]).
  rewrite serialize_app_items, E. cbn [serialize flat_map ser_item nl app]. rewrite <- !app_assoc. reflexivity.
Qed.

(* the hypotheses as one computable check *)
Definition block_line_b (l : str) : bool :=
  plain_first (hd 0 l) && negb (mem 124 l) && (match l with [] => false | _ => true end) && negb (is_space_c (last l 0)).
Lemma block_line_b_spec l : block_line_b l = true -> block_line l.
Proof.
  unfold block_line_b. intros H. repeat rewrite andb_true_iff in H. destruct H as [[[H1 H2] H3] H4]. apply negb_true_iff in H2, H4.
  split; [exact H1|]. split; [exact H2|]. split; [destruct l; discriminate|exact H4].
Qed.

Definition inert_paragraph_b (l : str) (ls : list str) : bool :=
  let s := join [10] (l :: ls) in
  block_line_b l && forallb (fun x => block_line_b x && cont_first (hd 0 x)) ls && forallb (fun x => negb (mem 10 x)) (l :: ls) &&
  negb (mem 92 s) && negb (mem 96 s) && no_link_paren s && closers_free s && amp_ok s.

Lemma inert_paragraph_b_spec l ls : inert_paragraph_b l ls = true -> inert_paragraph l ls.
Proof.
  unfold inert_paragraph_b. cbv zeta. intros H. repeat rewrite andb_true_iff in H. destruct H as [[[[[[[H1 H2] H3] H4] H5] H6] H7] H8].
  apply negb_true_iff in H4, H5.
  split; [apply block_line_b_spec; exact H1|]. split; [|split; [|split]].
  - apply Forall_forall. intros x Hx. rewrite forallb_forall in H2. specialize (H2 x Hx). apply andb_true_iff in H2 as [A B].
    split; [apply block_line_b_spec; exact A|exact B].
  - apply Forall_forall. intros x Hx. rewrite forallb_forall in H3. specialize (H3 x Hx). apply negb_true_iff in H3. exact H3.
  - split; [exact H4|]. split; [exact H5|]. split; [apply no_link_paren_spec; exact H6|apply closers_free_spec; exact H7].
  - exact H8.
Qed.

Theorem inert_paragraph_b_renders cfg o l ls : inert_paragraph_b l ls = true -> lacks_nl_config cfg (join [10] (l :: ls)) = true ->
  render_html o (fst (fst (parse_lines cfg (nl_lines (l :: ls))))) =
  $"<p>" ++ join [10] (map (escape_html_text o) (l :: ls)) ++ $"</p>" ++ [10].
Proof. intros H. apply inert_paragraph_renders. apply inert_paragraph_b_spec. exact H. Qed.

Example inert_paragraph_instance :
  let l := $"so 2 * 3 = 6 and snake_case stays," in
  let ls := [$"a [b] c, ![d], e] and [f *"; $"then x < y _ z and **open"; $"f(x)[i] = a_b * c_d"; $"AT&T & co"] in
  inert_paragraph_b l ls = true /\
  forallb (fun c => lacks_nl_config c (join [10] (l :: ls))) [cfg_html; cfg_html_nohtml; cfg_markdown; cfg_latex; cfg_mathjax; cfg_default] = true /\
  inert_paragraph_b ($"a *b") [$"c* d"] = false /\ inert_paragraph_b ($"a [b](c)") [$"d"] = false.
Proof. vm_compute. repeat split; reflexivity. Qed.

(* ================= a static form, for whole trees of paragraphs ================= *)
(* the characters an inert line may not hold at all; * _ [ ] ! & ; > ( ) are judged by position instead *)
Definition triggers_i : list Z := [92; 96; 126; 60; 10; 36; 123; 124].
Definition inert_chars (l : str) : bool := forallb (fun c => negb (mem c triggers_i)) l.

Lemma inert_no c l : mem c triggers_i = true -> inert_chars l = true -> mem c l = false.
Proof.
  intros Hc. induction l as [|x l IH]; [reflexivity|]. unfold inert_chars. cbn [forallb]. intros H. apply andb_true_iff in H as [Hx Hl].
  unfold mem. cbn [existsb]. fold (mem c l). rewrite (IH Hl), orb_false_r.
  destruct (c =? x) eqn:E; [|reflexivity]. apply Z.eqb_eq in E. subst x. apply negb_true_iff in Hx. congruence.
Qed.

Lemma mem_join_lines c : c <> 10 -> forall ls, Forall (fun l => mem c l = false) ls -> mem c (join [10] ls) = false.
Proof.
  intros Hc. induction ls as [|l r IH]; intros H; [reflexivity|]. inversion H as [|? ? Hl Hr]; subst. destruct r as [|l2 r'].
  - exact Hl.
  - change (join [10] (l :: l2 :: r')) with (l ++ [10] ++ join [10] (l2 :: r')). unfold mem. rewrite !existsb_app. fold (mem c l). fold (mem c (join [10] (l2 :: r'))).
    rewrite Hl, (IH Hr). cbn [existsb]. rewrite orb_false_r. apply Z.eqb_neq in Hc. rewrite Hc. reflexivity.
Qed.

(* the span types: every regex-defined token needs one of the characters such a text lacks *)
Definition quiet_chars : list Z := [92; 126; 60; 36; 123; 124].
Definition kind_quiet_i (k : span_kind) : bool :=
  match k with
  | SK_CoreTokens | SK_InlineCode | SK_RawText | SK_LineBreak => true
  | _ => existsb (fun c => needs (fst (re_of k)) c) quiet_chars
  end.
Definition inert_spans (types : list span_kind) : bool :=
  forallb kind_quiet_i (removelast types) &&
  match filter (fun k => match k with SK_LineBreak => true | _ => false end) (removelast types) with [SK_LineBreak] => true | _ => false end.

Lemma quiet_lacks s k : kind_quiet_i k = true -> (forall c, In c quiet_chars -> mem c s = false) -> lacks_nl s k = true.
Proof.
  intros Hk Hs. destruct k; try reflexivity; cbn [kind_quiet_i lacks_nl] in *;
    apply existsb_exists in Hk as (c & Hin & Hn); apply existsb_exists; exists c;
    (split; [unfold quiet_chars, probe in *; cbn [In] in *; intuition|rewrite Hn, (Hs c Hin); reflexivity]).
Qed.

(* the paragraph: its lines, and what the joined text must be *)
Definition inert_para_b (ls : list str) : bool :=
  let s := join [10] ls in
  forallb inert_chars ls && no_link_paren s && closers_free s && amp_ok s.

Lemma inert_para_core ls : inert_para_b ls = true -> inert_core (join [10] ls) /\ amp_ok (join [10] ls) = true /\
  (forall c, In c quiet_chars -> mem c (join [10] ls) = false) /\ Forall (fun l => mem 10 l = false) ls.
Proof.
  unfold inert_para_b. cbv zeta. intros H. repeat rewrite andb_true_iff in H. destruct H as [[[Hc Hl] Hr] Ha].
  assert (Hno : forall c, mem c triggers_i = true -> c <> 10 -> mem c (join [10] ls) = false).
  { intros c Hc1 Hc2. apply (mem_join_lines c Hc2). apply Forall_forall. intros l Hin. rewrite forallb_forall in Hc. apply (inert_no c l Hc1 (Hc l Hin)). }
  split; [|split; [exact Ha|split]].
  - split; [apply Hno; [reflexivity|discriminate]|]. split; [apply Hno; [reflexivity|discriminate]|].
    split; [apply no_link_paren_spec; exact Hl|apply closers_free_spec; exact Hr].
  - intros c Hin. unfold quiet_chars in Hin. cbn [In] in Hin.
    destruct Hin as [<-|[<-|[<-|[<-|[<-|[<-|[]]]]]]]; apply Hno; try reflexivity; discriminate.
  - apply Forall_forall. intros l Hin. rewrite forallb_forall in Hc. apply (inert_no 10 l eq_refl (Hc l Hin)).
Qed.

Lemma srcs_inert_static types ls : inert_spans types = true -> inert_para_b ls = true ->
  find_all (removelast types) (join [10] ls) [] [] = lb_srcs (join [10] ls).
Proof.
  intros Hs Hp. unfold inert_spans in Hs. apply andb_true_iff in Hs as [Hq Hl].
  destruct (inert_para_core ls Hp) as (Hcore & _ & Hno & _).
  apply srcs_inert; [exact Hcore| |destruct (filter _ _) as [|[] [|? ?]]; try discriminate; reflexivity].
  apply forallb_forall. intros k Hk. rewrite forallb_forall in Hq. apply quiet_lacks; [apply Hq; exact Hk|exact Hno].
Qed.

Lemma inert_configs_static :
  forallb (fun c => inert_spans (cfg_span c)) [cfg_html; cfg_html_nohtml; cfg_markdown; cfg_latex; cfg_mathjax; cfg_default] = true.
Proof. vm_compute. reflexivity. Qed.
