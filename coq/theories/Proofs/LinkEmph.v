(* C03 / C06 / C16: an inline link whose TEXT holds emphasised phrases.  pre [h *w1* t1 _w2_ t2 ... z](dest) post tokenizes to the
   text, ONE Link whose children are the text h, the phrases (Emphasis / Strong) each with the text after it, and z, and the text.
   The scanner pushes the bracket, then the delimiter runs of the phrases; at "]" find_link_image walks down over them to the
   bracket, matches the destination, and process_emphasis WITH THE BRACKET AS STACK BOTTOM pairs the runs above it (emph_loop_link);
   the span tokenizer nests the phrase candidates into the link's parse group (tokenize_nested). *)
From Coq Require Import ZArith List Bool Lia Permutation.
From Mistletoe Require Import Base.Sx Base.PyStr Base.PyText Gen.GenTables Gen.GenRegex Gen.GenConfig Re.ReMatch
     Model.SpanTokenizer Model.Tree Model.Unescape Model.CoreTokens Model.Inline Model.Block Model.Build Model.Parser Model.HtmlRenderer
     Proofs.ReFirst Proofs.ReNeeds Proofs.Prose Proofs.PlainProse Proofs.ListLaw Proofs.ProseLines Proofs.EmphSimple Proofs.EmphSentence
     Proofs.EmphPairs Proofs.ChainTokens Proofs.EmphPhrases Proofs.MixPhrases Proofs.RefSentence Proofs.LinkSentence Proofs.NestedEmph.
Import ListNotations.
Local Open Scope Z_scope.

(* ---- process_emphasis above a bracket: the pairs are matched, the bracket is never looked at ---- *)
Lemma emph_loop_link s B : d_close B = false -> forall pairs fuel ms, Forall pair_ok pairs -> (length pairs <= fuel)%nat ->
  emph_loop fuel s 0 [] (next_closer 1 (B :: flat pairs)) (B :: flat pairs) ms = ([B], ms ++ map (match_of s) pairs).
Proof.
  intros HB. induction pairs as [|[o c] r IH]; intros fuel ms Hok Hf.
  - cbn [flat flat_map map]. change (next_closer 1 [B]) with (@None Z). rewrite app_nil_r. destruct fuel; reflexivity.
  - inversion Hok as [|? ? Hp Hr]; subst. destruct Hp as (Eo & Oo & Co & Ec & Oc & Cc & Ty & Nm & Hn & Hs).
    destruct fuel as [|fuel']; [cbn [length] in Hf; lia|].
    change (B :: flat ((o, c) :: r)) with (B :: o :: c :: flat r).
    assert (NC : next_closer 1 (B :: o :: c :: flat r) = Some 2).
    { unfold next_closer. change (Z.to_nat 1) with 1%nat. cbn [skipn next_closer_from]. rewrite Eo, Co, Ec, Cc. reflexivity. }
    rewrite NC. cbn [emph_loop]. change (nthd (B :: o :: c :: flat r) 2 dummy) with c.
    assert (MO : matching_opener 2 (B :: o :: c :: flat r) 0 (ob_get (type0 c, d_open c, d_orig c mod 3) []) = Some 1).
    { unfold matching_opener. change (nthd (B :: o :: c :: flat r) 2 dummy) with c. cbn [ob_get].
      change (Z.to_nat (2 - 1 - 0)) with 1%nat. change (2 - 1) with 1. cbn [matching_opener_down]. change (nthd (B :: o :: c :: flat r) 1 dummy) with o.
      assert (d_start o <? -1 = false) as -> by (apply Z.ltb_ge; lia).
      assert (CB : closed_by o c = true).
      { unfold closed_by. rewrite Ty, Z.eqb_refl. cbn [negb]. rewrite Oo, Co, Oc, Cc. reflexivity. }
      rewrite Eo, Oo, CB. reflexivity. }
    rewrite MO. change (nthd (B :: o :: c :: flat r) 1 dummy) with o.
    assert (EN : (if (2 <=? d_number c) && (2 <=? d_number o) then 2 else 1) = d_number o).
    { rewrite <- Nm. destruct Hn as [-> | ->]; reflexivity. }
    rewrite EN.
    assert (R1 : d_remove o (d_number o) false = None) by (unfold d_remove; rewrite Z.sub_diag; reflexivity).
    assert (R2 : d_remove c (d_number o) true = None) by (unfold d_remove; rewrite Nm, Z.sub_diag; reflexivity).
    rewrite R1, R2.
    change (firstn (Z.to_nat (1 + 1)) (B :: o :: c :: flat r) ++ skipn (Z.to_nat 2) (B :: o :: c :: flat r)) with (B :: o :: c :: flat r).
    change (remove_at (B :: o :: c :: flat r) 1) with (B :: c :: flat r). change (1 + 1 - 1) with 1.
    change (remove_at (B :: c :: flat r) 1) with (B :: flat r).
    rewrite (IH fuel' _ Hr ltac:(cbn [length] in Hf; lia)).
    cbn [map match_of]. rewrite <- !app_assoc. reflexivity.
Qed.

Lemma process_above_bracket s B pairs ms : d_emph B && d_close B = false -> d_close B = false -> Forall pair_ok pairs -> (length pairs <= 3 * length s + 3)%nat ->
  process_emphasis s (Some 0) (B :: flat pairs) ms = ([], ms ++ map (match_of s) pairs).
Proof.
  intros _ HB Hok Hl. unfold process_emphasis.
  rewrite (next_closer_skip B (flat pairs) HB), (emph_loop_link s B HB pairs _ ms Hok Hl). reflexivity.
Qed.

(* find_link_image walks down over delimiters that are not brackets *)
Lemma li_down_skip s offset fn ms ds : forall k i n,
  (forall j, i - Z.of_nat k < j <= i -> is_bracket (nthd ds j dummy) = false) ->
  find_li_down (k + n) i s offset ds ms fn = find_li_down n (i - Z.of_nat k) s offset ds ms fn.
Proof.
  induction k as [|k IH]; intros i n H.
  - cbn [Nat.add Z.of_nat]. rewrite Z.sub_0_r. reflexivity.
  - cbn [Nat.add find_li_down]. rewrite (H i) by lia. rewrite IH by (intros j Hj; apply H; lia). f_equal. lia.
Qed.

Lemma pairs_not_brackets : forall ps a, Forall phrase_ok ps -> Forall (fun d => is_bracket d = false) (flat (pairs_at a ps)).
Proof.
  induction ps as [|[[[ch k] w] t] r IH]; intros a Hok; [constructor|].
  apply Forall_cons_iff in Hok as [Hp Hr]. destruct Hp as (Hch & _). cbn [pairs_at flat flat_map fst snd app].
  assert (E : forall x y z u v q, is_bracket (mkDelim (ch :: repeat ch k) x y true z u v q false) = false /\ True).
  { intros. split; [|exact I]. unfold is_bracket. cbn [d_type]. destruct Hch as [-> | ->]; reflexivity. }
  constructor; [unfold is_bracket; cbn [d_type]; destruct Hch as [-> | ->]; reflexivity|].
  constructor; [unfold is_bracket; cbn [d_type]; destruct Hch as [-> | ->]; reflexivity|]. apply IH. exact Hr.
Qed.

Lemma nil_or_not {A} (l : list A) : l = [] \/ l <> [].
Proof. destruct l; [left; reflexivity|right; discriminate]. Qed.

Section LinkE.
  Variables (pre h : str) (ps : list phrase) (z dest post : str) (fn : footnotes).
  Hypothesis Hpre : plain_text pre = true.
  Hypothesis Hh : plain_text h = true.
  Hypothesis Hhl : edge_ok (last (91 :: h) 0) = true.
  Hypothesis Hps : Forall phrase_ok ps.
  Hypothesis Hpsne : ps <> [].
  Hypothesis Hz : plain_text z = true.
  Hypothesis Hpost : plain_text post = true.
  Hypothesis Hd : forallb dest_char dest = true.
  Hypothesis Hdne : dest <> [].

  Let w := h ++ body ps ++ z.
  Let s := pre ++ [91] ++ w ++ [93; 40] ++ dest ++ [41] ++ post.
  Let a := slen pre.
  Let b := a + 1 + slen w.
  Let off := b + 2.
  Let de := off + slen dest.
  Let prs := pairs_at (a + 1 + slen h) ps.

  Lemma e_len : slen s = de + 1 + slen post.
  Proof. unfold s, de, off, b, a. rewrite !slen_app. unfold slen. cbn [length]. lia. Qed.
  Lemma e_a0 : 0 <= a.  Proof. unfold a, slen. lia. Qed.
  Lemma e_w0 : 0 < slen w.
  Proof.
    unfold w. rewrite !slen_app. destruct ps as [|p r]; [contradiction|]. pose proof (body_length (p :: r)) as B. cbn [length] in B. unfold slen. lia.
  Qed.
  Lemma e_d0 : 0 < slen dest.
  Proof. unfold slen. destruct (length dest) eqn:El; [apply length_zero_iff_nil in El; contradiction|lia]. Qed.
  Lemma e_p0 : 0 <= slen post.  Proof. unfold slen. lia. Qed.

  Lemma es_at_b : s = (pre ++ [91] ++ w) ++ 93 :: (40 :: dest ++ [41] ++ post).
  Proof. unfold s. rewrite <- !app_assoc. reflexivity. Qed.
  Lemma es_at_p : s = (pre ++ [91] ++ w ++ [93]) ++ 40 :: (dest ++ [41] ++ post).
  Proof. unfold s. rewrite <- !app_assoc. reflexivity. Qed.
  Lemma es_at_off : s = (pre ++ [91] ++ w ++ [93; 40]) ++ dest ++ 41 :: post.
  Proof. unfold s. rewrite <- !app_assoc. reflexivity. Qed.
  Lemma es_at_de : s = (pre ++ [91] ++ w ++ [93; 40] ++ dest) ++ 41 :: post.
  Proof. unfold s. rewrite <- !app_assoc. reflexivity. Qed.

  Lemma elen_b : slen (pre ++ [91] ++ w) = b.
  Proof. unfold b, a. rewrite !slen_app. unfold slen. cbn [length]. lia. Qed.
  Lemma elen_p : slen (pre ++ [91] ++ w ++ [93]) = b + 1.
  Proof. unfold b, a. rewrite !slen_app. unfold slen. cbn [length]. lia. Qed.
  Lemma elen_off : slen (pre ++ [91] ++ w ++ [93; 40]) = off.
  Proof. unfold off, b, a. rewrite !slen_app. unfold slen. cbn [length]. lia. Qed.
  Lemma elen_de : slen (pre ++ [91] ++ w ++ [93; 40] ++ dest) = de.
  Proof. unfold de, off, b, a. rewrite !slen_app. unfold slen. cbn [length]. lia. Qed.

  Lemma e_at_b : char_at s b = 93.
  Proof. rewrite es_at_b, <- elen_b. apply char_at_mid. Qed.
  Lemma e_at_p : char_at s (b + 1) = 40.
  Proof. rewrite es_at_p, <- elen_p. apply char_at_mid. Qed.
  Lemma e_at_de : char_at s de = 41.
  Proof. rewrite es_at_de, <- elen_de. apply char_at_mid. Qed.

  Lemma edest_first : exists c r, dest = c :: r /\ is_ws c = false /\ (c =? 60) = false.
  Proof.
    assert (Hcase : exists c r, dest = c :: r) by (destruct dest as [|c r]; [contradiction|exists c, r; reflexivity]).
    destruct Hcase as (c & r & E). exists c, r. split; [exact E|]. pose proof Hd as H. rewrite E in H. cbn [forallb] in H. apply andb_true_iff in H as [Hc _].
    unfold dest_char in Hc. repeat rewrite andb_true_iff in Hc. destruct Hc as [[[[H1 _] _] H4] _]. apply negb_true_iff in H1, H4. split; [exact H1|].
    unfold mem, triggers_r in H4. cbn [existsb] in H4. repeat (apply orb_false_iff in H4; destruct H4 as [? H4]).
    assumption.
  Qed.

  Lemma e_paren : follows s b 40 = true.
  Proof.
    unfold follows. rewrite e_at_p. assert (b + 1 <? slen s = true) as -> by (apply Z.ltb_lt; rewrite e_len; unfold de, off; pose proof e_d0; pose proof e_p0; lia). reflexivity.
  Qed.

  Lemma e_inner_w : substr s (a + 1) b = w.
  Proof.
    pose proof (substr_mid (pre ++ [91]) w ([93; 40] ++ dest ++ [41] ++ post)) as M.
    replace (slen (pre ++ [91])) with (a + 1) in M by (rewrite slen_app; reflexivity).
    replace (a + 1 + slen w) with b in M by (unfold b; lia).
    unfold s. replace (pre ++ [91] ++ w ++ [93; 40] ++ dest ++ [41] ++ post) with ((pre ++ [91]) ++ w ++ [93; 40] ++ dest ++ [41] ++ post) by (rewrite <- !app_assoc; reflexivity). exact M.
  Qed.

  Lemma e_bracket_text : substr s a (a + 1) = [91].
  Proof. pose proof (substr_mid pre [91] (w ++ [93; 40] ++ dest ++ [41] ++ post)) as M. fold a in M. exact M. Qed.

  Lemma e_dest_text : substr s off de = dest.
  Proof.
    pose proof (substr_mid (pre ++ [91] ++ w ++ [93; 40]) dest ([41] ++ post)) as M. rewrite elen_off in M. fold de in M.
    rewrite es_at_off. exact M.
  Qed.

  Definition ELD : delim := mkDelim [91] 1 1 true a (a + 1) false false false.
  Lemma ELD_eq : new_delim a (a + 1) s = ELD.
  Proof. unfold new_delim. rewrite e_bracket_text. cbn [andb]. unfold ELD. f_equal; lia. Qed.

  Lemma edest_found : match_link_dest s (b + 1) = Some (off, de, dest).
  Proof.
    destruct edest_first as (c & r & Ed & Hws & H60).
    unfold match_link_dest.
    assert (Esh : shift_whitespace s (b + 1 + 1) = off).
    { unfold shift_whitespace. replace (b + 1 + 1) with off by (unfold off; lia). rewrite es_at_off at 1. rewrite <- elen_off at 1. rewrite drop_app_len.
      apply shift_ws_stop; [rewrite Ed; exact Hws|rewrite Ed; discriminate]. }
    rewrite Esh.
    assert (off =? slen s = false) as -> by (apply Z.eqb_neq; rewrite e_len; unfold de; pose proof e_d0; pose proof e_p0; lia).
    assert (Ec : char_at s off = c).
    { rewrite es_at_off, Ed. rewrite <- elen_off. cbn [app]. apply char_at_mid. }
    rewrite Ec, H60.
    assert (Edrop : drop off s = dest ++ 41 :: post) by (rewrite es_at_off at 1; rewrite <- elen_off; apply drop_app_len).
    rewrite Edrop, (dest_plain_run dest off post Hd). fold de. rewrite e_dest_text. reflexivity.
  Qed.

  Lemma etitle_found : match_link_title s de = Some (de, de, []).
  Proof.
    unfold match_link_title.
    assert (Esh : shift_whitespace s de = de).
    { unfold shift_whitespace. rewrite es_at_de at 1. rewrite <- elen_de at 1. rewrite drop_app_len. apply shift_ws_stop; [reflexivity|discriminate]. }
    rewrite Esh.
    assert (de =? slen s = false) as -> by (apply Z.eqb_neq; rewrite e_len; pose proof e_p0; lia).
    rewrite e_at_de. reflexivity.
  Qed.

  Definition the_elink : mobj :=
    link_mobj false a (de + 1) (a + 1, b, w) (off, de, dest) (de, de, []) $"uri" None [].

  Lemma elink_found : match_link_image s b ELD fn = Some the_elink.
  Proof.
    destruct edest_first as (c & r & Ed & Hws & H60).
    unfold match_link_image. cbn [ELD d_type d_start d_number].
    rewrite e_paren, e_inner_w, edest_found, etitle_found.
    assert (Esh : shift_whitespace s de = de).
    { unfold shift_whitespace. rewrite es_at_de at 1. rewrite <- elen_de at 1. rewrite drop_app_len. apply shift_ws_stop; [reflexivity|discriminate]. }
    rewrite Esh.
    assert (de <? slen s = true) as -> by (apply Z.ltb_lt; rewrite e_len; pose proof e_p0; lia).
    rewrite e_at_de. cbn [andb Z.eqb Pos.eqb].
    assert (Ec : char_at s off = c) by (rewrite es_at_off, Ed; rewrite <- elen_off; cbn [app]; apply char_at_mid).
    rewrite Ec, H60. rewrite andb_false_r. rewrite Z.ltb_irrefl. reflexivity.
  Qed.

  Lemma prs_ok : Forall pair_ok prs.
  Proof. unfold prs. apply pairs_ok; [unfold a, slen; lia|exact Hps]. Qed.

  Lemma prs_len : (length prs <= 3 * length s + 3)%nat.
  Proof. unfold prs. rewrite pairs_length. pose proof (body_length ps). unfold s, w. rewrite !app_length. lia. Qed.

  (* at the closing bracket: down over the runs to the bracket, the link, the runs paired *)
  Lemma find_elink : find_link_image s b (ELD :: flat prs) [] fn = (de, [], map (match_of s) prs ++ [the_elink]).
  Proof.
    unfold find_link_image.
    replace (length (ELD :: flat prs)) with (length (flat prs) + 1)%nat by (cbn [length]; lia).
    rewrite (li_down_skip s b fn [] (ELD :: flat prs) (length (flat prs)) _ 1).
    2:{ intros j Hj. cbn [length] in Hj. unfold nthd. destruct (Z.to_nat j) as [|j'] eqn:Ej; [lia|]. cbn [nth].
        pose proof (pairs_not_brackets ps (a + 1 + slen h) Hps) as F. fold prs in F. rewrite Forall_forall in F.
        destruct (Nat.lt_ge_cases j' (length (flat prs))) as [Hlt|Hge]; [apply F; apply nth_In; exact Hlt|rewrite nth_overflow by exact Hge; reflexivity]. }
    replace (Z.of_nat (length (flat prs) + 1) - 1 - Z.of_nat (length (flat prs))) with 0 by lia.
    cbn [find_li_down]. change (nthd (ELD :: flat prs) 0 dummy) with ELD.
    change (is_bracket ELD) with true. cbn [d_active ELD negb]. cbv iota. rewrite elink_found.
    rewrite (process_above_bracket s ELD prs [] eq_refl eq_refl prs_ok prs_len). cbn [app].
    change (str_eqb (d_type ELD) ($"[")) with true. cbv iota. unfold deactivate. cbn [Z.to_nat firstn skipn map app].
    unfold the_elink, link_mobj. cbn [m_end]. replace (de + 1 - 1) with de by lia. reflexivity.
  Qed.

  Lemma e_no c : mem c triggers_r = true -> mem c s = false.
  Proof.
    intros Hc.
    assert (Ht : mem c triggers = true).
    { unfold mem, triggers_r, triggers in *. cbn [existsb] in *.
      repeat (apply orb_true_iff in Hc; destruct Hc as [Hc|Hc]); try discriminate; rewrite Hc; cbn [orb]; rewrite ?orb_true_r; reflexivity. }
    assert (P : forall t, plain_text t = true -> mem c t = false) by (intros t Ht0; apply plain_no; [exact Ht|exact Ht0]).
    assert (C4 : c <> 91 /\ c <> 93 /\ c <> 40 /\ c <> 41 /\ c <> 42 /\ c <> 95).
    { repeat split; intros ->; vm_compute in Hc; discriminate. }
    destruct C4 as (C1 & C2 & C3 & C5 & C6 & C7).
    unfold s, w, mem. rewrite !existsb_app. fold (mem c pre). fold (mem c h). fold (mem c (body ps)). fold (mem c z). fold (mem c dest). fold (mem c post).
    rewrite (P pre Hpre), (P h Hh), (P z Hz), (P post Hpost), (dest_no c dest Hc Hd), (body_no c Ht C6 C7 ps Hps). cbn [existsb orb].
    apply Z.eqb_neq in C1, C2, C3, C5. rewrite C1, C2, C3, C5. reflexivity.
  Qed.

  Lemma e_no_code i : code_search s i = None.
  Proof.
    unfold code_search. apply (search_state_none _ _ 96); [vm_compute; reflexivity|]. unfold seek. cbn [aft].
    apply mem_drop. apply e_no. reflexivity.
  Qed.

  Definition e_ms : list mobj := map (match_of s) prs ++ [the_elink].

  (* ---- the scanner ---- *)
  Lemma scan_elink : exists st, scan_loop (S (S (length s))) s fn 0 None (mkScan [] [] false None false 0 []) = st /\
                                sc_ds st = [] /\ sc_ms st = e_ms /\ sc_code st = [].
  Proof.
    assert (El : (S (S (length s)) = length pre + S (length h + (length (body ps) + (length z + S (length dest + 2 + (length post + 2))))))%nat).
    { unfold s, w. rewrite !app_length. cbn [length]. lia. }
    rewrite El.
    set (st0 := mkScan [] [] false None false 0 []).
    rewrite (scan_inert_any s fn pre _ [] ([91] ++ w ++ [93; 40] ++ dest ++ [41] ++ post) st0 eq_refl (plain_inert pre Hpre)) by (repeat split).
    change (slen [] + slen pre) with (slen pre).
    rewrite (scan_bracket_step _ s fn pre (w ++ [93; 40] ++ dest ++ [41] ++ post) st0 eq_refl) by (repeat split).
    fold a. rewrite ELD_eq. cbn [st0 sc_ds sc_ms sc_start sc_code app].
    set (st1 := mkScan [ELD] [] false None false 0 []).
    replace (a + 1) with (slen (pre ++ [91])) by (rewrite slen_app; reflexivity).
    rewrite (scan_inert_any s fn h _ (pre ++ [91]) (body ps ++ z ++ [93; 40] ++ dest ++ [41] ++ post) st1); [|unfold s, w; rewrite <- !app_assoc; reflexivity|exact (plain_inert h Hh)|repeat split].
    replace (slen (pre ++ [91]) + slen h) with (slen ((pre ++ [91]) ++ h)) by (rewrite !slen_app; reflexivity).
    assert (Hpe1 : (pre ++ [91]) ++ h = [] \/ edge_ok (last ((pre ++ [91]) ++ h) 0) = true).
    { right. rewrite <- app_assoc. change ([91] ++ h) with (91 :: h). rewrite last_app_ne by discriminate. exact Hhl. }
    assert (Es0 : s = ((pre ++ [91]) ++ h) ++ body ps ++ z ++ [93; 40] ++ dest ++ [41] ++ post) by (unfold s, w; rewrite <- !app_assoc; reflexivity).
    pose proof (scan_phrases_rest s fn (z ++ [93; 40] ++ dest ++ [41] ++ post) ps ((pre ++ [91]) ++ h) st1 (length z + S (length dest + 2 + (length post + 2))) Es0 Hpe1 ltac:(repeat split) Hps) as X.
    destruct X as (st2 & E2 & (Hr2 & He2 & Hi2) & Hd2 & Hm2 & Hc2).
    rewrite E2.
    rewrite (scan_inert_any s fn z _ (((pre ++ [91]) ++ h) ++ body ps) ([93; 40] ++ dest ++ [41] ++ post) st2); [|unfold s, w; rewrite <- !app_assoc; reflexivity|exact (plain_inert z Hz)|repeat split; assumption].
    replace (slen (((pre ++ [91]) ++ h) ++ body ps) + slen z) with b by (unfold b, a, w; rewrite !slen_app; unfold slen; cbn [length]; lia).
    assert (Hds : sc_ds st2 = ELD :: flat prs).
    { rewrite Hd2. unfold st1. cbn [sc_ds app]. unfold prs. replace (slen ((pre ++ [91]) ++ h)) with (a + 1 + slen h) by (unfold a; rewrite !slen_app; unfold slen; cbn [length]; lia). reflexivity. }
    assert (Hms : sc_ms st2 = []) by (rewrite Hm2; reflexivity).
    assert (Hcs : sc_code st2 = []) by (rewrite Hc2; reflexivity).
    (* the closing bracket *)
    cbn [scan_loop].
    assert (Hlt : b <? slen s = true) by (apply Z.ltb_lt; rewrite e_len; unfold de, off; pose proof e_p0; pose proof e_d0; lia).
    rewrite Hlt. cbn [negb]. rewrite e_at_b. rewrite He2, Hr2, Hi2, Hds, Hms. cbn [andb negb orb Z.eqb Pos.eqb].
    rewrite find_elink. rewrite e_no_code. rewrite Hcs.
    fold e_ms.
    set (st3 := mkScan [] e_ms false None false (sc_start st2) []).
    pose proof (nil_or_not post) as Hcase.
    destruct Hcase as [Ep|Ep].
    - assert (Lp : length post = 0%nat) by (rewrite Ep; reflexivity). rewrite Lp.
      assert (Ee : de + 1 = slen s) by (rewrite e_len, Ep; unfold slen; cbn [length]; lia).
      rewrite Ee. replace (length dest + 2 + (0 + 2))%nat with (S (length dest + 3)) by lia. rewrite scan_end. cbn [sc_run]. eexists. split; [reflexivity|]. repeat split.
    - replace (de + 1) with (slen (pre ++ [91] ++ w ++ [93; 40] ++ dest ++ [41])) by (unfold de, off, b, a; rewrite !slen_app; unfold slen; cbn [length]; lia).
      replace (length dest + 2 + (length post + 2))%nat with (length post + (length dest + 4))%nat by lia.
      rewrite (scan_inert_any s fn post _ (pre ++ [91] ++ w ++ [93; 40] ++ dest ++ [41]) []); [|unfold s; rewrite app_nil_r, <- !app_assoc; reflexivity|exact (plain_inert post Hpost)|repeat split].
      replace (slen (pre ++ [91] ++ w ++ [93; 40] ++ dest ++ [41]) + slen post) with (slen s) by (rewrite e_len; unfold de, off, b, a; rewrite !slen_app; unfold slen; cbn [length]; lia).
      replace (length dest + 4)%nat with (S (length dest + 3)) by lia.
      rewrite scan_end. cbn [sc_run]. eexists. split; [reflexivity|]. repeat split.
  Qed.

  Theorem core_finds_elink : find_core_tokens s fn = (e_ms, []).
  Proof.
    unfold find_core_tokens. rewrite e_no_code. destruct scan_elink as (st & -> & Hds & Hm & Hc). rewrite Hds, Hm, Hc.
    unfold process_emphasis. change (next_closer 0 []) with (@None Z). destruct (3 * length s + 3)%nat; reflexivity.
  Qed.
End LinkE.

Section LinkETok.
  Variables (pre h : str) (ps : list phrase) (z dest post : str) (fn : footnotes) (types : list span_kind).
  Hypothesis Hpre : plain_text pre = true.
  Hypothesis Hh : plain_text h = true.
  Hypothesis Hhl : edge_ok (last (91 :: h) 0) = true.
  Hypothesis Hps : Forall phrase_ok ps.
  Hypothesis Hpsne : ps <> [].
  Hypothesis Hz : plain_text z = true.
  Hypothesis Hpost : plain_text post = true.
  Hypothesis Hd : forallb dest_char dest = true.
  Hypothesis Hdne : dest <> [].
  Hypothesis Hq : forallb kind_quiet_r (removelast types) = true.
  Hypothesis Hc : filter (fun kd => match kd with SK_CoreTokens => true | _ => false end) (removelast types) = [SK_CoreTokens].

  Let w := h ++ body ps ++ z.
  Let s := pre ++ [91] ++ w ++ [93; 40] ++ dest ++ [41] ++ post.
  Let a := slen pre.
  Let b := a + 1 + slen w.
  Let off := b + 2.
  Let de := off + slen dest.
  Let prs := pairs_at (a + 1 + slen h) ps.
  Let ML := the_elink pre h ps z dest.
  Let ms := map (match_of s) prs ++ [ML].

  Lemma find_all_elink : forall ts, forallb kind_quiet_r ts = true ->
    find_all ts s fn [] = flat_map (fun kd => match kd with SK_CoreTokens => map CCore ms | _ => [] end) ts.
  Proof.
    induction ts as [|kd ts IH]; intros Hq'; [reflexivity|].
    cbn [forallb] in Hq'. apply andb_true_iff in Hq' as [Hkq Hts]. cbn [find_all flat_map].
    assert (F : match kd with SK_CoreTokens | SK_InlineCode | SK_RawText => True | _ => finditer (snd (re_of kd)) (fst (re_of kd)) s = [] end).
    { destruct kd; try exact I; cbn [kind_quiet_r] in Hkq; apply existsb_exists in Hkq as (c & Hin & Hn);
        (apply (finditer_none _ _ c s Hn); apply (e_no pre h ps z dest post Hpre Hh Hps Hz Hpost Hd); unfold mem; apply existsb_exists; exists c; split; [exact Hin|apply Z.eqb_refl]). }
    destruct kd; cbn [find_kind];
      try (unfold s, w; rewrite (core_finds_elink pre h ps z dest post fn Hpre Hh Hhl Hps Hz Hpost Hd Hdne); cbn [map app fst snd]; change (e_ms pre h ps z dest post) with ms; f_equal; apply IH; exact Hts);
      try (cbn [map app]; apply IH; exact Hts);
      (cbn [re_of fst snd] in F |- *; rewrite F; cbn [map app]; apply IH; exact Hts).
  Qed.

  Definition elink_tok : tok := Link (mkLink (escape_strip (strip dest)) (escape_strip []) $"uri" None []) (nest_toks h ps z).

  Theorem tokenize_inner_elink : tokenize_inner types fn s = raw_if pre ++ [elink_tok] ++ raw_if post.
  Proof.
    unfold tokenize_inner. rewrite (find_all_elink _ Hq).
    assert (Es : flat_map (fun kd => match kd with SK_CoreTokens => map CCore ms | _ => [] end) (removelast types) = map CCore ms).
    { clear Hq. revert Hc. generalize (removelast types) as ts.
      assert (G : forall ts n, length (filter (fun kd => match kd with SK_CoreTokens => true | _ => false end) ts) = n ->
                flat_map (fun kd => match kd with SK_CoreTokens => map CCore ms | _ => [] end) ts = concat (repeat (map CCore ms) n)).
      { induction ts as [|kd ts IH]; intros n Hn; [cbn in Hn; subst n; reflexivity|]. cbn [flat_map filter] in *.
        destruct kd; try (cbn [app]; apply IH; exact Hn). destruct n as [|n]; [discriminate|]. cbn [length] in Hn. cbn [repeat concat]. f_equal. apply IH. lia. }
      intros ts H. rewrite (G ts 1%nat) by (rewrite H; reflexivity). cbn [repeat concat]. apply app_nil_r. }
    rewrite Es. fold (cands_from 0 ms).
    set (ims := map (match_of s) prs).
    set (inners := cands_from 0 ims).
    set (N := Z.of_nat (length ims)).
    set (outer := cand_of N (CCore ML)).
    assert (Ecands : cands_from 0 ms = inners ++ [outer]).
    { unfold ms. rewrite cands_from_app. fold ims. fold inners. f_equal. }
    assert (Eo : cs outer = a /\ ce outer = de + 1 /\ SpanTokenizer.ps outer = a + 1 /\ pe outer = b /\ inner outer = true /\ cid outer = N).
    { unfold outer, ML, the_elink, link_mobj. cbn [cand_of field_span sk_parse_group nth_error m_fields m_start m_end sk_precedence sk_parse_inner cs ce SpanTokenizer.ps pe inner cid].
      repeat split; reflexivity. }
    destruct Eo as (O1 & O2 & O3 & O4 & O5 & O6).
    assert (Ha0 : 0 <= a) by (unfold a, slen; lia).
    assert (Hs1 : sincr (a + 1 + slen h) inners).
    { unfold inners, ims, prs. apply inner_cands_sincr; [exact Hps|unfold a, slen; lia]. }
    assert (Hs0 : sincr (a + 1) inners) by (apply (sincr_weaken _ (a + 1 + slen h)); [unfold slen; lia|exact Hs1]).
    assert (Hend : Forall (fun y => ce y <= b) inners).
    { unfold inners, ims, prs. pose proof (inner_cands_end s ps (a + 1 + slen h) 0 Hps) as F.
      apply Forall_forall. intros y Hy. rewrite Forall_forall in F. specialize (F y Hy). unfold b, w. rewrite !slen_app. unfold slen in *. lia. }
    assert (Esort : sort_cands (cands_from 0 ms) = outer :: inners).
    { rewrite Ecands. apply sort_to.
      - apply Permutation_sym, Permutation_cons_append.
      - apply (incr_cons_sincr outer (a + 1 + slen h)); [rewrite O1; unfold slen; lia|exact Hs1].
      - cbn [map]. constructor; [|apply (sincr_nodup (a + 1 + slen h)); exact Hs1].
        intros Hin. apply in_map_iff in Hin as (x & Ex & Hx). pose proof (sincr_lower _ _ Hs1) as F. rewrite Forall_forall in F. specialize (F x Hx).
        rewrite O1 in Ex. unfold slen in *. lia. }
    pose proof (e_len pre h ps z dest post) as Hl. fold w in Hl. fold s in Hl. fold a in Hl. fold b in Hl. fold off in Hl. fold de in Hl.
    assert (Hd0 : 0 < slen dest) by (unfold slen; destruct (length dest) eqn:El; [apply length_zero_iff_nil in El; contradiction|lia]).
    rewrite (tokenize_nested (cands_from 0 ms) outer inners (slen s) Esort O5); [|rewrite O3; exact Hs0|rewrite O4; exact Hend|rewrite O4, O2; unfold de, off; lia].
    rewrite O1, O2, O3, O4.
    rewrite !map_app. cbn [map build_otok]. rewrite O6.
    assert (E1 : map (build_otok s (map CCore ms)) (gap 0 a) = raw_if pre).
    { unfold gap. replace a with (0 + slen pre) by (unfold a; lia). rewrite gap_raw.
      pose proof (raw_gap_tok s (map CCore ms) [] pre ([91] ++ w ++ [93; 40] ++ dest ++ [41] ++ post) eq_refl Hpre) as T. cbn [app] in T. unfold slen at 1 2 in T. cbn [length Z.of_nat] in T. exact T. }
    assert (E3 : map (build_otok s (map CCore ms)) (if de + 1 =? slen s then [] else [ORaw (de + 1) (slen s)]) = raw_if post).
    { rewrite Hl. assert (Eg : (if de + 1 =? de + 1 + slen post then [] else [ORaw (de + 1) (de + 1 + slen post)]) = match post with [] => [] | _ => [ORaw (de + 1) (de + 1 + slen post)] end) by apply gap_after.
      rewrite Eg. pose proof (raw_gap_tok s (map CCore ms) (pre ++ [91] ++ w ++ [93; 40] ++ dest ++ [41]) post []) as T.
      replace (slen (pre ++ [91] ++ w ++ [93; 40] ++ dest ++ [41])) with (de + 1) in T by (unfold de, off, b, a; rewrite !slen_app; unfold slen; cbn [length]; lia).
      apply T; [unfold s; rewrite app_nil_r, <- !app_assoc; reflexivity|exact Hpost]. }
    rewrite E1, E3. f_equal. f_equal.
    assert (Esrc : src_at (map CCore ms) N = CCore ML).
    { unfold ms. rewrite map_app. cbn [map]. unfold N. fold ims. rewrite <- (map_length CCore ims). apply src_at_app. }
    rewrite Esrc.
    assert (Ech : map (build_otok s (map CCore ms)) (out_g (a + 1) inners b) = nest_toks h ps z).
    { pose proof (phrases_tokens_in s (map CCore ms) z ([93; 40] ++ dest ++ [41] ++ post) [CCore ML] ps (pre ++ [91]) h []) as T.
      replace (slen (pre ++ [91])) with (a + 1) in T by (unfold a; rewrite slen_app; reflexivity).
      replace (slen ((pre ++ [91]) ++ h)) with (a + 1 + slen h) in T by (unfold a; rewrite !slen_app; unfold slen; cbn [length]; lia).
      replace (slen ((pre ++ [91]) ++ h ++ body ps ++ z)) with b in T by (unfold b, a, w; rewrite !slen_app; unfold slen; cbn [length]; lia).
      cbn [length Z.of_nat app] in T. apply T; [unfold s, w; rewrite <- !app_assoc; reflexivity|exact Hh|exact Hz|exact Hps|].
      unfold ms, ims, prs. rewrite map_app. reflexivity. }
    rewrite Ech. reflexivity.
  Qed.
End LinkETok.

(* ---- the statement with computable hypotheses ---- *)
Definition elink_ok (pre h : str) (ps : list phrase) (z dest post : str) : bool :=
  plain_text pre && plain_text h && edge_ok (last (91 :: h) 0) && forallb phrase_okb ps && (match ps with [] => false | _ => true end) &&
  plain_text z && plain_text post && forallb dest_char dest && (match dest with [] => false | _ => true end).

Definition elink_of (h : str) (ps : list phrase) (z dest : str) : tok := Link (mkLink dest [] $"uri" None []) (nest_toks h ps z).

Theorem link_with_emphasis types fn pre h ps z dest post :
  ref_spans types = true -> elink_ok pre h ps z dest post = true ->
  tokenize_inner types fn (pre ++ [91] ++ (h ++ body ps ++ z) ++ [93; 40] ++ dest ++ [41] ++ post) = raw_if pre ++ [elink_of h ps z dest] ++ raw_if post.
Proof.
  intros Hs Ho. unfold ref_spans in Hs. apply andb_true_iff in Hs as [Hq Hc].
  unfold elink_ok in Ho. repeat rewrite andb_true_iff in Ho. destruct Ho as [[[[[[[[H1 H2] H3] H4] H5] H6] H7] H8] H9].
  assert (Hps : Forall phrase_ok ps) by (apply Forall_forall; intros p Hp; rewrite forallb_forall in H4; apply phrase_okb_spec; apply H4; exact Hp).
  assert (Hpsne : ps <> []) by (destruct ps; [discriminate|discriminate]).
  assert (Hdne : dest <> []) by (destruct dest; [discriminate|discriminate]).
  assert (Hc' : filter (fun kd => match kd with SK_CoreTokens => true | _ => false end) (removelast types) = [SK_CoreTokens]).
  { destruct (filter _ _) as [|[] [|? ?]]; try discriminate. reflexivity. }
  rewrite (tokenize_inner_elink pre h ps z dest post fn types H1 H2 H3 Hps H6 H7 H8 Hdne Hq Hc').
  unfold elink_tok, elink_of. rewrite (dest_clean dest H8 Hdne). reflexivity.
Qed.

Example elink_instance :
  (elink_ok ($"see ") ($"the ") [(42, 0%nat, $"new", $" and "); (95, 1%nat, $"very good", $" ")] ($"site") ($"http://ex.am/a?b=c") ($", ok") = true) /\
  (elink_ok [] [] [(42, 1%nat, $"all", $".")] [] ($"/x") [] = true) /\
  (elink_ok [] ($"a") [(42, 0%nat, $"b", $" ")] [] ($"/x") [] = false) /\ (elink_ok [] [] [] ($"z") ($"/x") [] = false).
Proof. vm_compute. repeat split; reflexivity. Qed.
