(* C06, unbounded, the pairing itself: on a delimiter stack that is a sequence of ANY number of pairs
   opener, closer - the opener a run that can only open, the closer a run of the same character and length
   (one or two) that can only close - process_emphasis matches every closer with the opener before it, in
   order, consumes both runs and leaves nothing: n matches for n pairs, by induction on n over the loop of the
   code (the openers_bottom table stays empty: no search for an opener ever fails). *)
From Coq Require Import ZArith List Bool Lia.
From Mistletoe Require Import Base.Sx Base.PyStr Base.PyText Model.CoreTokens.
Import ListNotations.
Local Open Scope Z_scope.

Definition pair_ok (p : delim * delim) : Prop :=
  let (o, c) := p in
  d_emph o = true /\ d_open o = true /\ d_close o = false /\
  d_emph c = true /\ d_open c = false /\ d_close c = true /\
  type0 o = type0 c /\ d_number o = d_number c /\ (d_number o = 1 \/ d_number o = 2) /\ 0 <= d_start o.

Definition flat (pairs : list (delim * delim)) : list delim := flat_map (fun p => [fst p; snd p]) pairs.

(* the match process_emphasis builds for a pair *)
Definition match_of (s : str) (p : delim * delim) : mobj :=
  let (o, c) := p in
  let n := d_number o in
  let st := d_end o - n in
  let en := d_start c + n in
  mkMobj st en [(st + n, en - n, substr s (st + n) (en - n))] (if n =? 2 then $"Strong" else $"Emphasis") [char_at s st] [] None [].

Lemma emph_loop_pairs s : forall pairs fuel ms, Forall pair_ok pairs -> (length pairs <= fuel)%nat ->
  emph_loop fuel s (-1) [] (next_closer 0 (flat pairs)) (flat pairs) ms = ([], ms ++ map (match_of s) pairs).
Proof.
  induction pairs as [|[o c] r IH]; intros fuel ms Hok Hf.
  - cbn [flat flat_map map]. change (next_closer 0 []) with (@None Z). rewrite app_nil_r. destruct fuel; reflexivity.
  - inversion Hok as [|? ? Hp Hr]; subst. destruct Hp as (Eo & Oo & Co & Ec & Oc & Cc & Ty & Nm & Hn & Hs).
    destruct fuel as [|fuel']; [cbn [length] in Hf; lia|].
    change (flat ((o, c) :: r)) with (o :: c :: flat r).
    assert (NC : next_closer 0 (o :: c :: flat r) = Some 1).
    { unfold next_closer. cbn [Z.to_nat skipn next_closer_from]. rewrite Eo, Co, Ec, Cc. reflexivity. }
    rewrite NC. cbn [emph_loop]. change (nthd (o :: c :: flat r) 1 dummy) with c.
    assert (MO : matching_opener 1 (o :: c :: flat r) (-1) (ob_get (type0 c, d_open c, d_orig c mod 3) []) = Some 0).
    { unfold matching_opener. change (nthd (o :: c :: flat r) 1 dummy) with c. cbn [ob_get].
      change (Z.to_nat (1 - 1 - -1)) with 1%nat. change (1 - 1) with 0. cbn [matching_opener_down]. change (nthd (o :: c :: flat r) 0 dummy) with o.
      assert (d_start o <? -1 = false) as -> by (apply Z.ltb_ge; lia).
      assert (CB : closed_by o c = true).
      { unfold closed_by. rewrite Ty, Z.eqb_refl. cbn [negb]. rewrite Oo, Co, Oc, Cc. reflexivity. }
      rewrite Eo, Oo, CB. reflexivity. }
    rewrite MO. change (nthd (o :: c :: flat r) 0 dummy) with o.
    assert (EN : (if (2 <=? d_number c) && (2 <=? d_number o) then 2 else 1) = d_number o).
    { rewrite <- Nm. destruct Hn as [-> | ->]; reflexivity. }
    rewrite EN.
    assert (R1 : d_remove o (d_number o) false = None) by (unfold d_remove; rewrite Z.sub_diag; reflexivity).
    assert (R2 : d_remove c (d_number o) true = None) by (unfold d_remove; rewrite Nm, Z.sub_diag; reflexivity).
    rewrite R1, R2.
    change (firstn (Z.to_nat (0 + 1)) (o :: c :: flat r) ++ skipn (Z.to_nat 1) (o :: c :: flat r)) with (o :: c :: flat r).
    change (remove_at (o :: c :: flat r) 0) with (c :: flat r). change (0 + 1 - 1) with 0.
    change (remove_at (c :: flat r) 0) with (flat r).
    rewrite (IH fuel' _ Hr ltac:(cbn [length] in Hf; lia)).
    cbn [map match_of]. rewrite <- app_assoc. reflexivity.
Qed.

Theorem sequential_pairs s pairs ms : Forall pair_ok pairs -> (length pairs <= 3 * length s + 3)%nat ->
  process_emphasis s None (flat pairs) ms = ([], ms ++ map (match_of s) pairs).
Proof.
  intros Hok Hl. unfold process_emphasis. rewrite (emph_loop_pairs s pairs _ ms Hok Hl). reflexivity.
Qed.

(* non-vacuity: three pairs of different characters and lengths *)
Example three_pairs :
  let o1 := mkDelim [42] 1 1 true 0 1 true true false in let c1 := mkDelim [42] 1 1 true 2 3 true false true in
  let o2 := mkDelim [95; 95] 2 2 true 4 6 true true false in let c2 := mkDelim [95; 95] 2 2 true 7 9 true false true in
  let o3 := mkDelim [42; 42] 2 2 true 10 12 true true false in let c3 := mkDelim [42; 42] 2 2 true 13 15 true false true in
  Forall pair_ok [(o1, c1); (o2, c2); (o3, c3)] /\
  map m_type (snd (process_emphasis ($"*a* __b__ **c**") None (flat [(o1, c1); (o2, c2); (o3, c3)]) [])) = [ $"Emphasis"; $"Strong"; $"Strong" ].
Proof.
  split; [|vm_compute; reflexivity].
  repeat (constructor; [cbn; repeat split; try reflexivity; try lia; auto|]). constructor.
Qed.
