(* C10 at every nesting depth: block quotes and lists (any markers, several items, tight or loose) whose paragraphs are lines of plain
   words, with fenced code blocks, ATX headings and thematic breaks between them.  For EVERY maximum line length the Markdown renderer
   writes such a tree as the same tree with the words of each paragraph regrouped (reflow: the budget shrinks by 2 in a quote and
   by the marker and its padding in a list item); the regrouped tree is again in the fragment, so it parses to itself (C03), its HTML
   is the original's up to line endings exchanged for spaces, and reflowing it once more changes nothing. *)
From Coq Require Import ZArith List Bool Lia.
From Mistletoe Require Import Base.Sx Base.PyStr Base.PyText Gen.GenTables Gen.GenRegex Gen.GenConfig Gen.GenEscapes Re.ReMatch Model.Fillers Model.Tree Model.CoreTokens Model.Block Model.Build
     Model.HtmlRenderer Model.MarkdownRenderer Model.Parser Proofs.ReFirst Proofs.Prose Proofs.PlainProse Proofs.ProseLines Proofs.WrapBound Proofs.HtmlSafe Proofs.ReflowProse
     Proofs.ListLaw Proofs.FenceLaw Spec.Fragment Proofs.InertProse Proofs.FragmentP Proofs.FragmentDoc Proofs.FragmentHtml Proofs.RoundTrip Proofs.ThematicItem.
Import ListNotations.
Local Open Scope Z_scope.
Notation SP := WrapBound.SP.

(* ---- the trees ---- *)
Inductive wtree :=
| WPara (gs : list (list str))                         (* a paragraph: its lines, each a list of words *)
| WFence (ch : Z) (n : nat) (content : list sline)
| WHead (lv : nat) (c : Z) (body : str)
| WRule (c : Z) (n : nat)
| WQuote (ts : list wtree)
| WItem (mk : marker) (pad : nat) (ts : list wtree)
| WMore (mk : marker) (pad : nat) (ts : list wtree) (bl : bool) (next : wtree).

Definition para_f (ls : list str) : ftree := match ls with (c :: body) :: more => FPara c body more | _ => FPara 0 [] [] end.

Fixpoint to_f (t : wtree) : ftree :=
  match t with
  | WPara gs => para_f (map (join SP) gs)
  | WFence ch n content => FFence ch n content
  | WHead lv c body => FHead lv c body
  | WRule c n => FRule c n
  | WQuote ts => FQuote (map to_f ts)
  | WItem mk pad ts => FItem mk pad (map to_f ts)
  | WMore mk pad ts bl next => FMore mk pad (map to_f ts) bl (to_f next)
  end.

Definition mwidth (mk : marker) (pad : nat) : Z := Z.of_nat (length (marker_str mk) + pad).

(* the tree the renderer writes with maximum line length L *)
Fixpoint reflow (L : Z) (t : wtree) : wtree :=
  match t with
  | WPara gs => WPara (fill_struct L [] (concat gs))
  | WQuote ts => WQuote (map (reflow (L - 2)) ts)
  | WItem mk pad ts => WItem mk pad (map (reflow (L - mwidth mk pad)) ts)
  | WMore mk pad ts bl next => WMore mk pad (map (reflow (L - mwidth mk pad)) ts) bl (reflow L next)
  | other => other
  end.

(* the first character of the first line *)
Definition first_char (t : wtree) : Z :=
  match t with
  | WPara gs => hd 0 (hd [] (hd [] gs))
  | WFence ch _ _ => ch
  | WHead _ _ _ => 35
  | WRule c _ => c
  | WQuote _ => 62
  | WItem mk _ _ | WMore mk _ _ _ _ => hd 0 (marker_str mk)
  end.

Definition w_is_item (t : wtree) : bool := match t with WItem _ _ _ | WMore _ _ _ _ _ => true | _ => false end.
Definition w_marker (t : wtree) : marker := match t with WItem mk _ _ | WMore mk _ _ _ _ => mk | _ => MBullet 0 end.
Fixpoint wseq_ok (ts : list wtree) : bool :=
  match ts with
  | [] => false
  | [_] => true
  | t :: ((t2 :: _) as r) => negb (w_is_item t && w_is_item t2) && wseq_ok r
  end.
(* after a bullet the content does not begin with that bullet again (it would read as a thematic break or one longer marker run) *)
Definition after_marker (mk : marker) (ts : list wtree) : bool :=
  match mk, ts with MBullet b, t :: _ => negb (b =? first_char t) | _, _ => true end.

Definition words_okb (gs : list (list str)) : bool :=
  (match gs with [] => false | _ => true end) && forallb (fun g => (match g with [] => false | _ => true end) && forallb word_okb g) gs.

Fixpoint wwf (t : wtree) : bool :=
  match t with
  | WPara gs => words_okb gs
  | WFence ch n content => wf_b (FFence ch n content)
  | WHead lv c body => wf_b (FHead lv c body)
  | WRule c n => wf_b (FRule c n)
  | WQuote ts => wseq_ok ts && forallb wwf ts
  | WItem mk pad ts => marker_okb mk && Nat.leb 1 pad && Nat.leb pad 4 && wseq_ok ts && forallb wwf ts && after_marker mk ts
  | WMore mk pad ts bl next =>
    marker_okb mk && Nat.leb 1 pad && Nat.leb pad 4 && wseq_ok ts && forallb wwf ts && after_marker mk ts &&
    w_is_item next && (mkey mk =? mkey (w_marker next)) && wwf next
  end.

Fixpoint wdepth (t : wtree) : nat :=
  match t with
  | WQuote ts | WItem _ _ ts => S (fold_right (fun t m => Nat.max (wdepth t) m) 0%nat ts)
  | WMore _ _ ts _ next => Nat.max (S (fold_right (fun t m => Nat.max (wdepth t) m) 0%nat ts)) (wdepth next)
  | _ => 0%nat
  end.

Lemma wdepth_children x ts n : In x ts -> (S (fold_right (fun t m => Nat.max (wdepth t) m) 0%nat ts) <= S n)%nat -> (wdepth x <= n)%nat.
Proof.
  intros Hin H. apply le_S_n in H. induction ts as [|y r IH]; [contradiction|]. cbn [fold_right] in H. destruct Hin as [->|Hin]; [lia|]. apply IH; [exact Hin|lia].
Qed.

(* ---- words ---- *)
Lemma words_okb_spec gs : words_okb gs = true -> gs <> [] /\ Forall (fun g => g <> [] /\ Forall (fun w => word_okb w = true) g) gs.
Proof.
  unfold words_okb. intros H. apply andb_true_iff in H as [H1 H2]. split; [destruct gs; [discriminate|discriminate]|].
  apply Forall_forall. intros g Hg. rewrite forallb_forall in H2. specialize (H2 g Hg). apply andb_true_iff in H2 as [A B].
  split; [destruct g; [discriminate|discriminate]|]. apply Forall_forall. intros w Hw. rewrite forallb_forall in B. apply B. exact Hw.
Qed.

Lemma words_okb_intro gs : gs <> [] -> Forall (fun g => g <> [] /\ Forall (fun w => word_okb w = true) g) gs -> words_okb gs = true.
Proof.
  intros Hne H. unfold words_okb. apply andb_true_iff. split; [destruct gs; [contradiction|reflexivity]|].
  apply forallb_forall. intros g Hg. rewrite Forall_forall in H. destruct (H g Hg) as [A B]. apply andb_true_iff. split; [destruct g; [contradiction|reflexivity]|].
  apply forallb_forall. intros w Hw. rewrite Forall_forall in B. apply B. exact Hw.
Qed.

Lemma concat_words gs : gs <> [] -> Forall (fun g => g <> [] /\ Forall (fun w => word_okb w = true) g) gs ->
  concat gs <> [] /\ Forall (fun w => word_okb w = true) (concat gs).
Proof.
  intros Hne H. split.
  - destruct gs as [|g r]; [contradiction|]. inversion H as [|? ? [Hg _] _]; subst. cbn [concat]. destruct g; [contradiction|discriminate].
  - apply Forall_forall. intros w Hw. apply in_concat in Hw as (g & Hg & Hwg). rewrite Forall_forall in H. destruct (H g Hg) as [_ B]. rewrite Forall_forall in B. apply B. exact Hwg.
Qed.

(* regrouping keeps the words and their order *)
Lemma refill_facts L gs : words_okb gs = true ->
  words_okb (fill_struct L [] (concat gs)) = true /\ concat (fill_struct L [] (concat gs)) = concat gs.
Proof.
  intros H. destruct (words_okb_spec gs H) as [Hne HF]. destruct (concat_words gs Hne HF) as [Cne Cok].
  destruct (groups_facts (concat gs) L Cne Cok) as (E & F & N). split; [apply words_okb_intro; assumption|exact E].
Qed.

(* ---- a paragraph of word lines is a well-formed paragraph of the fragment ---- *)
Lemma char_at_In s i : 0 <= i < slen s -> In (char_at s i) s.
Proof.
  intros H. unfold char_at. assert (i <? 0 = false) as -> by (apply Z.ltb_ge; lia). apply nth_In. unfold slen in H. lia.
Qed.

Lemma char_at_not c s i : mem c s = false -> c <> -1 -> (char_at s i =? c) = false.
Proof.
  intros Hm Hc. apply Z.eqb_neq. intros E. unfold char_at in E. destruct (i <? 0); [congruence|].
  destruct (Nat.lt_ge_cases (Z.to_nat i) (length s)) as [Hlt|Hge].
  - assert (Hin : In c s) by (rewrite <- E; apply nth_In; exact Hlt).
    assert (T : mem c s = true) by (unfold mem; apply existsb_exists; exists c; split; [exact Hin|apply Z.eqb_refl]). congruence.
  - rewrite nth_overflow in E by exact Hge. congruence.
Qed.

Lemma plain_lines_inert ls : Forall (fun l => plain_text l = true) ls -> inert_para_b ls = true.
Proof.
  intros H. unfold inert_para_b. cbv zeta.
  assert (No : forall c, mem c triggers = true -> c <> 10 -> mem c (join [10] ls) = false).
  { intros c Hc C10. apply mem_join_lines; [exact C10|]. apply Forall_forall. intros l Hl. rewrite Forall_forall in H. apply plain_no; [exact Hc|apply H; exact Hl]. }
  repeat rewrite andb_true_iff. repeat split.
  - apply forallb_forall. intros l Hl. rewrite Forall_forall in H. specialize (H l Hl). unfold inert_chars. apply forallb_forall. intros x Hx.
    unfold plain_text in H. rewrite forallb_forall in H. specialize (H x Hx). apply negb_true_iff in H. apply negb_true_iff.
    unfold mem, triggers_i, triggers in *. cbn [existsb] in *. repeat (apply orb_false_iff in H; destruct H as [? H]).
    repeat match goal with X : (x =? _) = false |- _ => rewrite X; clear X end. reflexivity.
  - unfold no_link_paren. apply forallb_forall. intros n _. cbv zeta. rewrite (char_at_not 93 _ _ (No 93 eq_refl ltac:(discriminate))) by discriminate. reflexivity.
  - unfold closers_free. apply forallb_forall. intros na _. apply forallb_forall. intros nb _. cbv zeta. unfold run_at_b. cbv zeta.
    rewrite (char_at_not 42 _ _ (No 42 eq_refl ltac:(discriminate))), (char_at_not 95 _ _ (No 95 eq_refl ltac:(discriminate))) by discriminate.
    cbn [orb]. rewrite !andb_false_r. reflexivity.
  - unfold amp_ok. rewrite (No 38 eq_refl ltac:(discriminate)). reflexivity.
Qed.

Lemma word_no_tab w : word_okb w = true -> mem 9 w = false.
Proof.
  unfold word_okb. intros H. repeat rewrite andb_true_iff in H. destruct H as [[[_ Hs] _] _].
  unfold mem. destruct (existsb (Z.eqb 9) w) eqn:E; [|reflexivity]. apply existsb_exists in E as (x & Hx & Ex). apply Z.eqb_eq in Ex. subst x.
  rewrite forallb_forall in Hs. specialize (Hs 9 Hx). vm_compute in Hs. discriminate.
Qed.

Lemma join_no_tab g : Forall (fun w => word_okb w = true) g -> mem 9 (join SP g) = false.
Proof.
  induction 1 as [|w r Hw _ IH]; [reflexivity|]. destruct r as [|w2 r']; [exact (word_no_tab w Hw)|].
  change (join SP (w :: w2 :: r')) with (w ++ [32] ++ join SP (w2 :: r')). unfold mem. rewrite !existsb_app. fold (mem 9 w). fold (mem 9 (join SP (w2 :: r'))).
  rewrite (word_no_tab w Hw), IH. reflexivity.
Qed.

Lemma word_line_okb g : g <> [] -> Forall (fun w => word_okb w = true) g ->
  block_line_b (join SP g) = true /\ cont_okb (join SP g) = true /\ plain_text (join SP g) = true /\ join SP g <> [] /\ hd 0 (join SP g) = hd 0 (hd [] g).
Proof.
  intros Hne H. destruct (line_of_words g Hne H) as [(PT & PF & Hj & Hl) (_ & CF)].
  assert (B : block_line_b (join SP g) = true).
  { unfold block_line_b. rewrite PF, (plain_no 124 _ eq_refl PT), Hl. destruct (join SP g); [contradiction|reflexivity]. }
  split; [exact B|]. split; [unfold cont_okb; rewrite B, CF, (join_no_tab g H); reflexivity|]. split; [exact PT|]. split; [exact Hj|].
  destruct g as [|w r]; [contradiction|]. inversion H as [|? ? Hw _]; subst. pose proof (words_nonempty _ H) as Hn. inversion Hn as [|? ? Hwn _]; subst.
  destruct w; [contradiction|]. destruct r; reflexivity.
Qed.

Lemma para_wf gs : words_okb gs = true ->
  exists c body more, map (join SP) gs = (c :: body) :: more /\ wf_b (FPara c body more) = true /\ c = hd 0 (hd [] (hd [] gs)) /\
                      mem 9 (c :: body) = false /\ Forall (fun l => mem 9 l = false /\ l <> []) more.
Proof.
  intros H. destruct (words_okb_spec gs H) as [Hne HF]. destruct gs as [|g r]; [contradiction|]. inversion HF as [|? ? [Hg Hw] Hr]; subst.
  destruct (word_line_okb g Hg Hw) as (B & C & PT & Hj & Hh).
  destruct (join SP g) as [|c body] eqn:Ej; [contradiction|]. exists c, body, (map (join SP) r). cbn [map]. rewrite Ej. split; [reflexivity|].
  assert (Hmore : forall l, In l (map (join SP) r) -> cont_okb l = true /\ plain_text l = true /\ mem 9 l = false /\ l <> []).
  { intros l Hl. apply in_map_iff in Hl as (g' & <- & Hg'). rewrite Forall_forall in Hr. destruct (Hr g' Hg') as [A Bw].
    destruct (word_line_okb g' A Bw) as (_ & C' & PT' & Hj' & _). split; [exact C'|]. split; [exact PT'|]. split; [apply join_no_tab; exact Bw|exact Hj']. }
  split; [|split; [|split]].
  - cbn [wf_b]. repeat rewrite andb_true_iff. repeat split.
    + exact B.
    + rewrite <- Ej. rewrite (join_no_tab g Hw). reflexivity.
    + unfold cont_okb in C. repeat rewrite andb_true_iff in C. destruct C as [[_ CF] _]. cbn [hd] in CF. unfold cont_first in CF. repeat rewrite andb_true_iff in CF. tauto.
    + apply forallb_forall. intros l Hl. apply (Hmore l Hl).
    + apply plain_lines_inert. constructor; [exact PT|]. apply Forall_forall. intros l Hl. apply (Hmore l Hl).
  - cbn [hd] in Hh |- *. exact Hh.
  - rewrite <- Ej. apply join_no_tab. exact Hw.
  - apply Forall_forall. intros l Hl. destruct (Hmore l Hl) as (_ & _ & T & N). split; assumption.
Qed.

(* ---- what a container asks of its content (good_b), derived for every block of the fragment ---- *)
Lemma nonspace_first c : nonspace c = true -> first_ok c = true.
Proof.
  intros H. unfold nonspace in H. apply negb_true_iff in H. unfold first_ok. apply negb_true_iff.
  destruct (c =? 32) eqn:E1; [apply Z.eqb_eq in E1; subst c; vm_compute in H; discriminate|].
  destruct (c =? 9) eqn:E2; [apply Z.eqb_eq in E2; subst c; vm_compute in H; discriminate|].
  destruct (c =? 10) eqn:E3; [apply Z.eqb_eq in E3; subst c; vm_compute in H; discriminate|]. reflexivity.
Qed.

Lemma notspace_nonspace c : is_space_c c = false -> nonspace c = true.
Proof. intros H. unfold nonspace. apply negb_true_iff. exact H. Qed.

Lemma good_intro c body r : nonspace c = true -> forallb sline_okb (SLine 0 c body :: r) = true -> forallb notab_b (SLine 0 c body :: r) = true ->
  last_not_blank_b (SLine 0 c body :: r) = true -> good_b (SLine 0 c body :: r) = true.
Proof.
  intros H1 H2 H3 H4. cbn [forallb sline_okb] in H2. apply andb_true_iff in H2 as [A B]. apply andb_true_iff in A as [_ A].
  unfold good_b. rewrite H1, A, B, H3, H4. reflexivity.
Qed.

Lemma good_elim ls : good_b ls = true -> exists c body r, ls = SLine 0 c body :: r /\ nonspace c = true /\ forallb sline_okb ls = true /\
  forallb notab_b ls = true /\ last_not_blank_b ls = true.
Proof.
  unfold good_b. destruct ls as [|[|[|k] c body] r]; try discriminate. intros H. repeat rewrite andb_true_iff in H. destruct H as [[[[H1 H2] H3] H4] H5].
  exists c, body, r. split; [reflexivity|]. split; [exact H1|]. split; [|split; assumption].
  cbn [forallb sline_okb]. rewrite (nonspace_first c H1), H2, H3. reflexivity.
Qed.

Lemma lnb_app a b : b <> [] -> last_not_blank_b (a ++ b) = last_not_blank_b b.
Proof.
  intros Hb. unfold last_not_blank_b. rewrite rev_app_distr. destruct (rev b) as [|x r] eqn:E; [|reflexivity].
  apply (f_equal (@rev sline)) in E. rewrite rev_involutive in E. contradiction.
Qed.

Lemma lnb_cons x r : r <> [] -> last_not_blank_b (x :: r) = last_not_blank_b r.
Proof. intros H. apply (lnb_app [x] r H). Qed.

Lemma lnb_quote ls : last_not_blank_b (map quote_s ls) = true.
Proof.
  unfold last_not_blank_b. rewrite <- map_rev. destruct (rev ls) as [|x r]; [reflexivity|]. cbn [map]. destruct x; reflexivity.
Qed.

Lemma lnb_embed w r : last_not_blank_b (map (embed_s w) r) = last_not_blank_b r.
Proof.
  unfold last_not_blank_b. rewrite <- map_rev. destruct (rev r) as [|x t]; [reflexivity|]. cbn [map]. destruct x; reflexivity.
Qed.

(* two good blocks, with or without a blank line between them *)
Lemma good_two a b (blank : bool) : good_b a = true -> good_b b = true -> good_b (a ++ (if blank then [SBlank] else []) ++ b) = true.
Proof.
  intros Ha Hb. destruct (good_elim a Ha) as (c & body & r & -> & N & O & T & _). destruct (good_elim b Hb) as (c2 & body2 & r2 & -> & _ & O2 & T2 & L2).
  change ((SLine 0 c body :: r) ++ (if blank then [SBlank] else []) ++ SLine 0 c2 body2 :: r2) with (SLine 0 c body :: r ++ (if blank then [SBlank] else []) ++ SLine 0 c2 body2 :: r2).
  apply good_intro; [exact N| | |].
  - change (SLine 0 c body :: r ++ (if blank then [SBlank] else []) ++ SLine 0 c2 body2 :: r2) with ((SLine 0 c body :: r) ++ (if blank then [SBlank] else []) ++ SLine 0 c2 body2 :: r2).
    rewrite !forallb_app, O, O2. destruct blank; reflexivity.
  - change (SLine 0 c body :: r ++ (if blank then [SBlank] else []) ++ SLine 0 c2 body2 :: r2) with ((SLine 0 c body :: r) ++ (if blank then [SBlank] else []) ++ SLine 0 c2 body2 :: r2).
    rewrite !forallb_app, T, T2. destruct blank; reflexivity.
  - replace (SLine 0 c body :: r ++ (if blank then [SBlank] else []) ++ SLine 0 c2 body2 :: r2) with ((SLine 0 c body :: r ++ (if blank then [SBlank] else [])) ++ SLine 0 c2 body2 :: r2)
      by (cbn [app]; rewrite <- app_assoc; reflexivity).
    rewrite lnb_app by discriminate. exact L2.
Qed.

Lemma join_blank_cons x y r : join_blank (x :: y :: r) = x ++ SBlank :: join_blank (y :: r).
Proof. reflexivity. Qed.

Lemma good_join : forall ls, ls <> [] -> Forall (fun x => good_b x = true) ls -> good_b (join_blank ls) = true.
Proof.
  induction ls as [|x r IH]; intros Hne H; [contradiction|]. inversion H as [|? ? Hx Hr]; subst. destruct r as [|y r'].
  - unfold join_blank. cbn [flat_map]. rewrite app_nil_r. exact Hx.
  - rewrite join_blank_cons. apply (good_two x (join_blank (y :: r')) true Hx). apply IH; [discriminate|exact Hr].
Qed.

Lemma first_join_blank x r c body t : x = SLine 0 c body :: t -> exists t', join_blank (x :: r) = SLine 0 c body :: t'.
Proof. intros ->. unfold join_blank. cbn [app]. eexists. reflexivity. Qed.

Lemma good_quote ls : good_b ls = true -> good_b (map quote_s ls) = true.
Proof.
  intros H. destruct (good_elim ls H) as (c & body & r & -> & N & O & T & _).
  change (map quote_s (SLine 0 c body :: r)) with (SLine 0 62 (32 :: repeat 32 0 ++ c :: body) :: map quote_s r).
  assert (Q : forall l, sline_okb l = true -> notab_b l = true -> sline_okb (quote_s l) = true /\ notab_b (quote_s l) = true).
  { intros [|k c' b'] Ho Ht; cbn [quote_s sline_okb notab_b render_line]; [split; reflexivity|].
    cbn [sline_okb] in Ho. apply andb_true_iff in Ho as [Hf Hn]. apply negb_true_iff in Hn.
    unfold notab_b in Ht. cbn [render_line] in Ht. unfold line_of in Ht. apply negb_true_iff in Ht.
    unfold mem in Ht. rewrite existsb_app in Ht. apply orb_false_iff in Ht as [_ Ht].
    assert (R10 : forall n, existsb (Z.eqb 10) (repeat 32 n) = false) by (induction n; [reflexivity|cbn [repeat existsb]; exact IHn]).
    assert (R9 : forall n, existsb (Z.eqb 9) (repeat 32 n) = false) by (induction n; [reflexivity|cbn [repeat existsb]; exact IHn]).
    unfold first_ok in Hf. apply negb_true_iff in Hf. apply orb_false_iff in Hf as [Hf F10]. apply orb_false_iff in Hf as [F32 F9].
    split.
    - assert (M : mem 10 (32 :: repeat 32 k ++ c' :: b') = false).
      { unfold mem. cbn [existsb]. change (10 =? 32) with false. rewrite existsb_app, R10. cbn [existsb]. rewrite (Z.eqb_sym 10 c'), F10. unfold mem in Hn. rewrite Hn. reflexivity. }
      rewrite M. reflexivity.
    - unfold notab_b. cbn [render_line]. unfold line_of. cbn [repeat app]. unfold mem. cbn [existsb]. change (9 =? 62) with false. change (9 =? 32) with false. cbn [orb].
      rewrite <- app_assoc, existsb_app, R9. cbn [orb app]. rewrite Ht. reflexivity. }
  assert (QA : forall l0, forallb sline_okb l0 = true -> forallb notab_b l0 = true -> forallb sline_okb (map quote_s l0) = true /\ forallb notab_b (map quote_s l0) = true).
  { induction l0 as [|l t IH]; intros A B; [split; reflexivity|]. cbn [forallb map] in *. apply andb_true_iff in A as [A1 A2]. apply andb_true_iff in B as [B1 B2].
    destruct (Q l A1 B1) as [X Y]. destruct (IH A2 B2) as [X2 Y2]. rewrite X, Y, X2, Y2. split; reflexivity. }
  destruct (QA _ O T) as [O' T'].
  apply good_intro; [reflexivity|exact O'|exact T'|].
  change (SLine 0 62 (32 :: repeat 32 0 ++ c :: body) :: map quote_s r) with (map quote_s (SLine 0 c body :: r)). apply lnb_quote.
Qed.

Lemma mem_repeat_other c x n : (c =? x) = false -> mem c (repeat x n) = false.
Proof. intros H. induction n; [reflexivity|]. unfold mem. cbn [repeat existsb]. rewrite H. exact IHn. Qed.

Lemma marker_no_nl mk : marker_ok mk -> mem 10 (marker_str mk) = false.
Proof.
  destruct mk as [b|ds d]; cbn [marker_ok marker_str].
  - intros [->|[->| ->]]; reflexivity.
  - intros (_ & _ & Hd & Hdl). unfold mem. rewrite existsb_app. cbn [existsb]. rewrite orb_false_r.
    assert (E : existsb (Z.eqb 10) ds = false).
    { clear -Hd. induction Hd as [|x r Hx _ IH]; [reflexivity|]. cbn [existsb]. rewrite IH, (proj2 (Z.eqb_neq 10 x)) by lia. reflexivity. }
    rewrite E. destruct Hdl as [->| ->]; reflexivity.
Qed.

Lemma good_item mk pad inner : marker_ok mk -> good_b inner = true ->
  good_b (item_lines mk pad inner) = true /\ exists body t, item_lines mk pad inner = SLine 0 (hd 0 (marker_str mk)) body :: t.
Proof.
  intros Hmk H. destruct (good_elim inner H) as (c0 & body0 & rest & -> & N & O & T & L).
  destruct (marker_first mk Hmk) as (m0 & mr & Em & Hm0). pose proof (marker_no_tab mk Hmk) as [M9 _]. pose proof (marker_no_nl mk Hmk) as M10.
  unfold item_lines. rewrite Em. cbn [hd]. split; [|eexists; eexists; reflexivity].
  rewrite Em in M9, M10.
  assert (Sm0 : is_space_c m0 = false).
  { unfold mfirst_ok in Hm0. repeat rewrite andb_true_iff in Hm0. destruct Hm0 as [[[[_ H3] _] _] _]. apply negb_true_iff in H3. exact H3. }
  cbn [forallb sline_okb] in O. apply andb_true_iff in O as [O1 O2]. apply andb_true_iff in O1 as [F0 B0]. apply negb_true_iff in B0.
  cbn [forallb] in T. apply andb_true_iff in T as [T1 T2]. unfold notab_b in T1. cbn [render_line] in T1. unfold line_of in T1. cbn [repeat app] in T1. apply negb_true_iff in T1.
  unfold mem in M9, M10. cbn [existsb] in M9, M10. apply orb_false_iff in M9 as [M9a M9b]. apply orb_false_iff in M10 as [M10a M10b].
  assert (F0' := F0). unfold first_ok in F0'. apply negb_true_iff in F0'. apply orb_false_iff in F0' as [F0' C10]. 
  apply good_intro.
  - apply notspace_nonspace. exact Sm0.
  - cbn [forallb sline_okb]. rewrite (nonspace_first m0 (notspace_nonspace m0 Sm0)).
    assert (E10 : mem 10 (mr ++ repeat 32 pad ++ c0 :: body0) = false).
    { unfold mem. rewrite !existsb_app. fold (mem 10 (repeat 32 pad)). rewrite M10b, (mem_repeat_other 10 32 pad eq_refl). cbn [existsb]. rewrite (Z.eqb_sym 10 c0), C10. exact B0. }
    rewrite E10. cbn [negb andb].
    clear -O2. induction rest as [|l r IH]; [reflexivity|]. cbn [forallb map] in *. apply andb_true_iff in O2 as [A B]. rewrite (IH B), andb_true_r. destruct l; [reflexivity|exact A].
  - cbn [forallb]. apply andb_true_iff. split.
    + unfold notab_b. cbn [render_line]. unfold line_of. cbn [repeat app]. apply negb_true_iff. unfold mem. cbn [existsb]. rewrite M9a. cbn [orb].
      rewrite <- !app_assoc, !existsb_app. fold (mem 9 (repeat 32 pad)). rewrite M9b, (mem_repeat_other 9 32 pad eq_refl). cbn [orb app].
      unfold mem in T1. change (c0 :: body0 ++ [10]) with ((c0 :: body0) ++ [10]) in T1. rewrite existsb_app in T1. exact T1.
    + clear -T2. induction rest as [|l r IH]; [reflexivity|]. cbn [forallb map] in *. apply andb_true_iff in T2 as [A B]. rewrite (IH B), andb_true_r. destruct l as [|k c b]; [reflexivity|].
      unfold notab_b in *. cbn [embed_s render_line] in *. unfold line_of in *. apply negb_true_iff in A. apply negb_true_iff.
      unfold mem in *. rewrite existsb_app in *. apply orb_false_iff in A as [_ A]. rewrite A. fold (mem 9 (repeat 32 (length (m0 :: mr) + pad + k))). rewrite (mem_repeat_other 9 32 _ eq_refl). reflexivity.
  - destruct rest as [|l r]; [reflexivity|]. rewrite lnb_cons by discriminate. rewrite lnb_embed. rewrite lnb_cons in L by discriminate. exact L.
Qed.

Lemma good_para c body more : wf_b (FPara c body more) = true -> good_b (spell (FPara c body more)) = true.
Proof.
  intros Hw. pose proof Hw as Hw0. cbn [wf_b] in Hw. repeat rewrite andb_true_iff in Hw. destruct Hw as [[[[H1 H2] _] H4] H5].
  apply negb_true_iff in H2.
  destruct (inert_para_core _ H5) as (_ & _ & _ & H10). inversion H10 as [|? ? N1 Nr]; subst.
  pose proof (block_line_b_spec _ H1) as (PF & _ & _ & _). cbn [hd] in PF.
  cbn [spell]. apply good_intro.
  - apply notspace_nonspace. apply plain_first_not_space. exact PF.
  - cbn [forallb sline_okb]. rewrite (nonspace_first c (notspace_nonspace c (plain_first_not_space c PF))).
    unfold mem in N1. cbn [existsb] in N1. apply orb_false_iff in N1 as [_ N1]. unfold mem. rewrite N1. cbn [negb andb].
    apply forallb_forall. intros x Hx. apply in_map_iff in Hx as (l & <- & Hl). cbn [sline_okb].
    rewrite forallb_forall in H4. specialize (H4 l Hl). destruct (cont_ok_reflect l H4) as [[(PFl & _ & Hne & _) _] _].
    rewrite Forall_forall in Nr. specialize (Nr l Hl). destruct l as [|x t]; [contradiction|]. cbn [hd tl] in *.
    rewrite (nonspace_first x (notspace_nonspace x (plain_first_not_space x PFl))). unfold mem in Nr. cbn [existsb] in Nr. apply orb_false_iff in Nr as [_ Nr]. unfold mem. rewrite Nr. reflexivity.
  - cbn [forallb]. apply andb_true_iff. split.
    + unfold notab_b. cbn [render_line]. unfold line_of. cbn [repeat app]. apply negb_true_iff. change (c :: body ++ [10]) with ((c :: body) ++ [10]).
      unfold mem. rewrite existsb_app. fold (mem 9 (c :: body)). rewrite H2. reflexivity.
    + apply forallb_forall. intros x Hx. apply in_map_iff in Hx as (l & <- & Hl).
      rewrite forallb_forall in H4. specialize (H4 l Hl). destruct (cont_ok_reflect l H4) as [[(_ & _ & Hne & _) _] T9].
      destruct l as [|x t]; [contradiction|]. cbn [hd tl]. unfold notab_b. cbn [render_line]. unfold line_of. cbn [repeat app]. apply negb_true_iff.
      change (x :: t ++ [10]) with ((x :: t) ++ [10]). unfold mem. rewrite existsb_app. fold (mem 9 (x :: t)). rewrite T9. reflexivity.
  - unfold last_not_blank_b. change (SLine 0 c body :: map (fun l => SLine 0 (hd 0 l) (tl l)) more) with (map (fun l => SLine 0 (hd 0 l) (tl l)) ((c :: body) :: more)).
    rewrite <- map_rev. destruct (rev ((c :: body) :: more)); reflexivity.
Qed.

Lemma good_fence ch n content : wf_b (FFence ch n content) = true -> good_b (spell (FFence ch n content)) = true.
Proof.
  cbn [wf_b]. intros H. repeat rewrite andb_true_iff in H. destruct H as [[[[Hc _] Hok] Hnt] _].
  assert (Hch : ch = 96 \/ ch = 126) by (apply orb_true_iff in Hc as [E|E]; apply Z.eqb_eq in E; auto).
  cbn [spell]. apply good_intro.
  - destruct Hch as [->| ->]; reflexivity.
  - assert (E : sline_okb (SLine 0 ch (repeat ch (n - 1))) = true).
    { cbn [sline_okb]. assert (first_ok ch = true) as -> by (destruct Hch as [->| ->]; reflexivity).
      rewrite (mem_repeat_other 10 ch) by (destruct Hch as [->| ->]; reflexivity). reflexivity. }
    cbn [forallb]. rewrite E. rewrite forallb_app, Hok. cbn [forallb]. rewrite E. reflexivity.
  - assert (E : notab_b (SLine 0 ch (repeat ch (n - 1))) = true).
    { unfold notab_b. cbn [render_line]. unfold line_of. cbn [repeat app]. apply negb_true_iff. unfold mem. cbn [existsb]. rewrite existsb_app.
      fold (mem 9 (repeat ch (n - 1))). rewrite (mem_repeat_other 9 ch) by (destruct Hch as [->| ->]; reflexivity). destruct Hch as [->| ->]; reflexivity. }
    cbn [forallb]. rewrite E. rewrite forallb_app, Hnt. cbn [forallb]. rewrite E. reflexivity.
  - change (SLine 0 ch (repeat ch (n - 1)) :: content ++ [SLine 0 ch (repeat ch (n - 1))]) with ((SLine 0 ch (repeat ch (n - 1)) :: content) ++ [SLine 0 ch (repeat ch (n - 1))]).
    rewrite lnb_app by discriminate. reflexivity.
Qed.

Lemma good_head lv c body : wf_b (FHead lv c body) = true -> good_b (spell (FHead lv c body)) = true.
Proof.
  cbn [wf_b]. intros H. repeat rewrite andb_true_iff in H. destruct H as [[[[[[_ _] H3] _] H5] _] _]. apply negb_true_iff in H5.
  cbn [spell]. apply good_intro; [reflexivity| | |reflexivity].
  - cbn [forallb sline_okb]. unfold mem. rewrite existsb_app. fold (mem 10 (repeat 35 (lv - 1))). rewrite (mem_repeat_other 10 35 _ eq_refl).
    pose proof (plain_no 10 _ eq_refl H3) as P. unfold mem in P. cbn [orb]. change (existsb (Z.eqb 10) (32 :: c :: body)) with ((10 =? 32) || existsb (Z.eqb 10) (c :: body)).
    rewrite P. reflexivity.
  - cbn [forallb]. unfold notab_b. cbn [render_line]. unfold line_of. cbn [repeat app]. rewrite andb_true_r. apply negb_true_iff.
    unfold mem. cbn [existsb]. change (9 =? 35) with false. cbn [orb]. rewrite <- app_assoc, existsb_app. fold (mem 9 (repeat 35 (lv - 1))). rewrite (mem_repeat_other 9 35 _ eq_refl).
    cbn [orb]. rewrite existsb_app. unfold mem in H5. change (existsb (Z.eqb 9) (32 :: c :: body)) with ((9 =? 32) || existsb (Z.eqb 9) (c :: body)). rewrite H5. reflexivity.
Qed.

Lemma good_rule c n : wf_b (FRule c n) = true -> good_b (spell (FRule c n)) = true.
Proof.
  cbn [wf_b]. intros H. assert (Hc : c = 45 \/ c = 95 \/ c = 42) by (repeat (apply orb_true_iff in H; destruct H as [H|H]); apply Z.eqb_eq in H; auto).
  cbn [spell]. apply good_intro; [destruct Hc as [->|[->| ->]]; reflexivity| | |reflexivity].
  - cbn [forallb sline_okb]. assert (first_ok c = true) as -> by (destruct Hc as [->|[->| ->]]; reflexivity).
    rewrite (mem_repeat_other 10 c) by (destruct Hc as [->|[->| ->]]; reflexivity). reflexivity.
  - cbn [forallb]. unfold notab_b. cbn [render_line]. unfold line_of. rewrite andb_true_r. apply negb_true_iff. cbn [repeat app].
    unfold mem. cbn [existsb]. rewrite !existsb_app. fold (mem 9 (repeat c n)). rewrite (mem_repeat_other 9 c) by (destruct Hc as [->|[->| ->]]; reflexivity).
    destruct Hc as [->|[->| ->]]; reflexivity.
Qed.

(* ---- every tree of words is a tree of the fragment ---- *)
Definition Wok (t : wtree) : Prop :=
  wf_b (to_f t) = true /\ good_b (spell (to_f t)) = true /\ exists body r, spell (to_f t) = SLine 0 (first_char t) body :: r.

Lemma is_item_to_f t : is_item (to_f t) = w_is_item t.
Proof. destruct t; try reflexivity. cbn [to_f]. unfold para_f. destruct (map (join SP) gs) as [|[|? ?] ?]; reflexivity. Qed.

Lemma marker_to_f t : w_is_item t = true -> marker_of (to_f t) = w_marker t.
Proof. destruct t; try discriminate; reflexivity. Qed.

Lemma seq_ok_to_f ts : seq_ok_b (map to_f ts) = wseq_ok ts.
Proof.
  induction ts as [|t r IH]; [reflexivity|]. destruct r as [|t2 r']; [reflexivity|].
  change (seq_ok_b (map to_f (t :: t2 :: r'))) with (negb (is_item (to_f t) && is_item (to_f t2)) && seq_ok_b (map to_f (t2 :: r'))).
  change (wseq_ok (t :: t2 :: r')) with (negb (w_is_item t && w_is_item t2) && wseq_ok (t2 :: r')). rewrite !is_item_to_f, IH. reflexivity.
Qed.

Lemma children_ok ts : wseq_ok ts = true -> Forall Wok ts ->
  seq_ok_b (map to_f ts) = true /\ forallb wf_b (map to_f ts) = true /\ good_b (join_blank (map spell (map to_f ts))) = true /\
  exists t0 r0 body rest, ts = t0 :: r0 /\ join_blank (map spell (map to_f ts)) = SLine 0 (first_char t0) body :: rest.
Proof.
  intros Hs H. assert (Hne : ts <> []) by (destruct ts; [discriminate|discriminate]).
  split; [rewrite seq_ok_to_f; exact Hs|]. split; [|split].
  - apply forallb_forall. intros x Hx. apply in_map_iff in Hx as (t & <- & Ht). rewrite Forall_forall in H. apply (H t Ht).
  - apply good_join; [destruct ts; [contradiction|discriminate]|]. apply Forall_forall. intros x Hx. apply in_map_iff in Hx as (y & <- & Hy). apply in_map_iff in Hy as (t & <- & Ht).
    rewrite Forall_forall in H. apply (H t Ht).
  - destruct ts as [|t0 r0]; [contradiction|]. inversion H as [|? ? (_ & _ & body & r & E) _]; subst. exists t0, r0. cbn [map]. unfold join_blank. rewrite E. cbn [app]. eexists. eexists. split; reflexivity.
Qed.

Lemma item_ok mk pad ts : marker_okb mk = true -> Nat.leb 1 pad = true -> Nat.leb pad 4 = true -> wseq_ok ts = true -> after_marker mk ts = true -> Forall Wok ts ->
  marker_okb mk && Nat.leb 1 pad && Nat.leb pad 4 && seq_ok_b (map to_f ts) && forallb wf_b (map to_f ts) && good_b (join_blank (map spell (map to_f ts))) &&
    negb (thematic_start (item_first_line mk pad (join_blank (map spell (map to_f ts))))) = true /\
  good_b (item_lines mk pad (join_blank (map spell (map to_f ts)))) = true /\
  exists body t, item_lines mk pad (join_blank (map spell (map to_f ts))) = SLine 0 (hd 0 (marker_str mk)) body :: t.
Proof.
  intros Hmk Hp1 Hp4 Hs Ham H. destruct (children_ok ts Hs H) as (S1 & S2 & S3 & t0 & r0 & body & rest & Ets & Ej).
  pose proof (marker_ok_reflect mk Hmk) as Mok. destruct (good_item mk pad _ Mok S3) as [G Sh].
  split; [|split; [exact G|exact Sh]].
  rewrite Hmk, Hp1, Hp4, S1, S2, S3. cbn [andb]. apply negb_true_iff.
  rewrite Ej. cbn [item_first_line]. destruct (good_elim _ S3) as (c' & b' & r' & E' & N & _). rewrite Ej in E'. injection E' as <- <- <-.
  apply thematic_item; [exact Mok|apply Nat.leb_le; exact Hp1|unfold nonspace in N; apply negb_true_iff in N; exact N|].
  destruct mk as [b|]; [|exact I]. rewrite Ets in Ham. cbn [after_marker] in Ham. apply negb_true_iff in Ham. exact Ham.
Qed.

Lemma wok_all : forall f t, (wdepth t <= f)%nat -> wwf t = true -> Wok t.
Proof.
  assert (Leaf : forall t, match t with WQuote _ | WItem _ _ _ | WMore _ _ _ _ _ => false | _ => true end = true -> wwf t = true -> Wok t).
  { intros [gs|ch n content|lv c body|c n|ts|mk pad ts|mk pad ts bl next]; try discriminate; cbn [wwf]; intros _ Hw.
    - destruct (para_wf gs Hw) as (c & body & more & E & W & Ec & _). unfold Wok. cbn [to_f first_char]. rewrite E. cbn [para_f]. split; [exact W|]. split; [apply good_para; exact W|].
      rewrite <- Ec. cbn [spell]. eexists. eexists. reflexivity.
    - unfold Wok. cbn [to_f first_char]. split; [exact Hw|]. split; [apply good_fence; exact Hw|cbn [spell]; eexists; eexists; reflexivity].
    - unfold Wok. cbn [to_f first_char]. split; [exact Hw|]. split; [apply good_head; exact Hw|cbn [spell]; eexists; eexists; reflexivity].
    - unfold Wok. cbn [to_f first_char]. split; [exact Hw|]. split; [apply good_rule; exact Hw|cbn [spell]; eexists; eexists; reflexivity]. }
  induction f as [|f IH].
  - intros t Hd Hw. destruct t as [gs|ch n content|lv c body|c n|ts|mk pad ts|mk pad ts bl next]; try (cbn [wdepth] in Hd; lia); (apply Leaf; [reflexivity|exact Hw]).
  - intros t. induction t as [gs|ch n content|lv c body|c n|ts|mk pad ts|mk pad ts bl next IHn]; intros Hd Hw; try (apply Leaf; [reflexivity|exact Hw]).
    + cbn [wwf] in Hw. apply andb_true_iff in Hw as [Hs Hall]. cbn [wdepth] in Hd.
      assert (Hch : Forall Wok ts) by (apply Forall_forall; intros x Hx; rewrite forallb_forall in Hall; apply IH; [eapply wdepth_children; eassumption|apply Hall; exact Hx]).
      destruct (children_ok ts Hs Hch) as (S1 & S2 & S3 & t0 & r0 & body & rest & Ets & Ej).
      unfold Wok. cbn [to_f wf_b spell first_char]. rewrite S1, S2, S3. split; [reflexivity|]. split; [apply good_quote; exact S3|].
      rewrite Ej. cbn [map quote_s]. eexists. eexists. reflexivity.
    + cbn [wwf] in Hw. repeat rewrite andb_true_iff in Hw. destruct Hw as [[[[[Hmk Hp1] Hp4] Hs] Hall] Ham]. cbn [wdepth] in Hd.
      assert (Hch : Forall Wok ts) by (apply Forall_forall; intros x Hx; rewrite forallb_forall in Hall; apply IH; [eapply wdepth_children; eassumption|apply Hall; exact Hx]).
      destruct (item_ok mk pad ts Hmk Hp1 Hp4 Hs Ham Hch) as (W & G & Sh).
      unfold Wok. cbn [to_f wf_b spell first_char]. split; [exact W|]. split; [exact G|exact Sh].
    + cbn [wwf] in Hw. repeat rewrite andb_true_iff in Hw. destruct Hw as [[[[[[[[Hmk Hp1] Hp4] Hs] Hall] Ham] Hin] Hk] Hwn]. cbn [wdepth] in Hd.
      assert (Hch : Forall Wok ts) by (apply Forall_forall; intros x Hx; rewrite forallb_forall in Hall; apply IH; [eapply wdepth_children; [exact Hx|lia]|apply Hall; exact Hx]).
      destruct (item_ok mk pad ts Hmk Hp1 Hp4 Hs Ham Hch) as (W & G & body & t' & Sh).
      destruct (IHn ltac:(lia) Hwn) as (Wn & Gn & _).
      unfold Wok. cbn [to_f wf_b spell first_char]. split; [|split].
      * rewrite W, is_item_to_f, Hin, (marker_to_f next Hin), Hk, Wn. reflexivity.
      * apply good_two; assumption.
      * rewrite Sh. cbn [app]. eexists. eexists. reflexivity.
Qed.

Theorem wwf_fragment t : wwf t = true -> wf_b (to_f t) = true.
Proof. intros H. apply (wok_all (wdepth t) t (le_n _) H). Qed.

(* ---- regrouping the words keeps a tree of words a tree of words ---- *)
Lemma hd_concat (gs : list (list str)) : Forall (fun g => g <> []) gs -> hd [] (concat gs) = hd [] (hd [] gs).
Proof. intros H. destruct gs as [|g r]; [reflexivity|]. inversion H; subst. cbn [concat hd]. destruct g; [contradiction|reflexivity]. Qed.

Lemma first_char_reflow L t : wwf t = true -> first_char (reflow L t) = first_char t.
Proof.
  destruct t as [gs|ch n content|lv c body|c n|ts|mk pad ts|mk pad ts bl next]; try reflexivity. cbn [wwf reflow first_char]. intros H.
  destruct (refill_facts L gs H) as [H' E]. destruct (words_okb_spec _ H) as [_ F]. destruct (words_okb_spec _ H') as [_ F'].
  assert (A : forall gs0, Forall (fun g => g <> [] /\ Forall (fun w => word_okb w = true) g) gs0 -> Forall (fun g : list str => g <> []) gs0).
  { intros gs0 X. apply Forall_forall. intros g Hg. rewrite Forall_forall in X. apply (X g Hg). }
  rewrite <- (hd_concat _ (A _ F')), E, (hd_concat _ (A _ F)). reflexivity.
Qed.

Lemma is_item_reflow L t : w_is_item (reflow L t) = w_is_item t.
Proof. destruct t; reflexivity. Qed.
Lemma marker_reflow L t : w_marker (reflow L t) = w_marker t.
Proof. destruct t; reflexivity. Qed.

Lemma wseq_reflow (f : wtree -> wtree) ts : (forall t, w_is_item (f t) = w_is_item t) -> wseq_ok (map f ts) = wseq_ok ts.
Proof.
  intros Hf. induction ts as [|t r IH]; [reflexivity|]. destruct r as [|t2 r']; [reflexivity|].
  change (wseq_ok (map f (t :: t2 :: r'))) with (negb (w_is_item (f t) && w_is_item (f t2)) && wseq_ok (map f (t2 :: r'))).
  change (wseq_ok (t :: t2 :: r')) with (negb (w_is_item t && w_is_item t2) && wseq_ok (t2 :: r')). rewrite !Hf, IH. reflexivity.
Qed.

Lemma after_marker_reflow L mk ts : forallb wwf ts = true -> after_marker mk (map (reflow L) ts) = after_marker mk ts.
Proof.
  intros H. destruct mk as [b|]; [|reflexivity]. destruct ts as [|t r]; [reflexivity|]. cbn [map after_marker].
  cbn [forallb] in H. apply andb_true_iff in H as [Ht _]. rewrite (first_char_reflow L t Ht). reflexivity.
Qed.

Lemma wwf_reflow : forall f t L, (wdepth t <= f)%nat -> wwf t = true -> wwf (reflow L t) = true.
Proof.
  assert (Kids : forall f, (forall t L, (wdepth t <= f)%nat -> wwf t = true -> wwf (reflow L t) = true) ->
                 forall ts L n, (S (fold_right (fun t m => Nat.max (wdepth t) m) 0%nat ts) <= S n)%nat -> (n <= f)%nat -> forallb wwf ts = true -> forallb wwf (map (reflow L) ts) = true).
  { intros f IH ts L n Hd Hn Hall. apply forallb_forall. intros x Hx. apply in_map_iff in Hx as (t & <- & Ht). rewrite forallb_forall in Hall.
    apply IH; [pose proof (wdepth_children t ts n Ht Hd); lia|apply Hall; exact Ht]. }
  induction f as [|f IH].
  - intros t L Hd Hw. destruct t as [gs|ch n content|lv c body|c n|ts|mk pad ts|mk pad ts bl next]; try (cbn [wdepth] in Hd; lia); try exact Hw.
    cbn [wwf reflow] in *. apply (refill_facts L gs Hw).
  - intros t. induction t as [gs|ch n content|lv c body|c n|ts|mk pad ts|mk pad ts bl next IHn]; intros L Hd Hw; try exact Hw.
    + cbn [wwf reflow] in *. apply (refill_facts L gs Hw).
    + cbn [wwf reflow] in *. apply andb_true_iff in Hw as [Hs Hall]. cbn [wdepth] in Hd.
      rewrite (wseq_reflow _ ts (is_item_reflow (L - 2))), Hs. apply (Kids f IH ts (L - 2) f Hd (le_n _) Hall).
    + cbn [wwf reflow] in *. repeat rewrite andb_true_iff in Hw. destruct Hw as [[[[[Hmk Hp1] Hp4] Hs] Hall] Ham]. cbn [wdepth] in Hd.
      rewrite Hmk, Hp1, Hp4, (wseq_reflow _ ts (is_item_reflow _)), Hs, (after_marker_reflow _ mk ts Hall), Ham, (Kids f IH ts _ f Hd (le_n _) Hall). reflexivity.
    + cbn [wwf reflow] in *. repeat rewrite andb_true_iff in Hw. destruct Hw as [[[[[[[[Hmk Hp1] Hp4] Hs] Hall] Ham] Hin] Hk] Hwn]. cbn [wdepth] in Hd.
      assert (Hd' : (S (fold_right (fun t m => Nat.max (wdepth t) m) 0%nat ts) <= S f)%nat) by lia.
      rewrite Hmk, Hp1, Hp4, (wseq_reflow _ ts (is_item_reflow _)), Hs, (after_marker_reflow _ mk ts Hall), Ham, (Kids f IH ts _ f Hd' (le_n _) Hall).
      rewrite is_item_reflow, Hin, marker_reflow, Hk, (IHn L ltac:(lia) Hwn). reflexivity.
Qed.

Theorem reflow_in_fragment L t : wwf t = true -> wwf (reflow L t) = true /\ wf_b (to_f (reflow L t)) = true.
Proof. intros H. pose proof (wwf_reflow (wdepth t) t L (le_n _) H) as W. split; [exact W|apply wwf_fragment; exact W]. Qed.

(* ---- what the Markdown renderer writes with a maximum line length ---- *)
Section RL.
  Let o := mkMopts false.

  (* a paragraph of word lines: the words regrouped *)
  Lemma para_reflow gs L : words_okb gs = true ->
    block_lines o (Some L) (Paragraph (prose_toks (map (join SP) gs))) = word_lines L (concat gs).
  Proof.
    intros H. destruct (words_okb_spec gs H) as [Hne HF]. destruct (concat_words gs Hne HF) as [Cne Cok].
    cbn [block_lines]. unfold span_to_lines.
    transitivity (fragments_to_lines (Some L) [Fw (join SP (concat gs))]).
    - apply wrap_determined_by_words. unfold make_words. rewrite (words_again gs HF). symmetry. apply (make_words_line (concat gs) Cne Cok).
    - pose proof (reflow_lines (concat gs) L Cne Cok) as R. cbn [block_lines] in R. unfold span_to_lines in R. cbn [flat_map frags app] in R. exact R.
  Qed.

  Definition RL (L : Z) (t : wtree) : Prop := block_lines o (Some L) (tok_of true (to_f t)) = map bare (spell (to_f (reflow L t))).

  Lemma para_lines_bare gs : words_okb gs = true -> map bare (spell (para_f (map (join SP) gs))) = map (join SP) gs.
  Proof.
    intros H. destruct (para_wf gs H) as (c & body & more & E & _ & _ & _ & Hm). rewrite E. cbn [para_f spell map bare repeat app]. f_equal.
    rewrite map_map. rewrite <- (map_id more) at 2. apply map_ext_in. intros l Hl. rewrite Forall_forall in Hm. destruct (Hm l Hl) as [_ Hne]. destruct l; [contradiction|reflexivity].
  Qed.

  Lemma rl_para gs L : words_okb gs = true -> RL L (WPara gs).
  Proof.
    intros H. unfold RL. cbn [to_f reflow]. destruct (refill_facts L gs H) as [H' _].
    rewrite (para_lines_bare _ H'). destruct (para_wf gs H) as (c & body & more & E & _). rewrite E. cbn [para_f tok_of]. rewrite <- E.
    rewrite (para_reflow gs L H). reflexivity.
  Qed.

  Lemma rl_seq L ts ts' : Forall2 (fun t t' => block_lines o (Some L) (tok_of true t) = map bare (spell t')) ts ts' -> ts <> [] ->
    flat_map (block_lines o (Some L)) (tok_seq true ts) = map bare (join_blank (map spell ts')).
  Proof.
    intros H Hne. rewrite bare_join.
    assert (G : forall ts ts', Forall2 (fun t t' => block_lines o (Some L) (tok_of true t) = map bare (spell t')) ts ts' ->
                flat_map (fun y => [] :: block_lines o (Some L) (tok_of true y)) ts = flat_map (fun y => [] :: map bare y) (map spell ts')).
    { induction 1 as [|t t' r r' E _ IH]; [reflexivity|]. cbn [flat_map map]. rewrite E, IH. reflexivity. }
    destruct H as [|t t' r r' E Hr]; [contradiction|]. cbn [map].
    assert (F : forall r0, flat_map (block_lines o (Some L)) (match r0 with [] => [] | _ => blank_tok true ++ tok_seq true r0 end) =
                           flat_map (fun y => [] :: block_lines o (Some L) (tok_of true y)) r0).
    { induction r0 as [|y r0 IH]; [reflexivity|]. cbn [blank_tok app flat_map block_lines tok_seq]. f_equal. f_equal. exact IH. }
    change (tok_seq true (t :: r)) with (tok_of true t :: match r with [] => [] | _ => blank_tok true ++ tok_seq true r end).
    cbn [flat_map]. rewrite E. f_equal. rewrite F. apply G. exact Hr.
  Qed.

  (* a list item written with a limit: its blocks, written with what the marker and its padding leave of it, behind them *)
  Lemma item_render L mk pad chtoks inner lo (blank : bool) : marker_ok mk -> (1 <= pad)%nat -> good_b inner = true ->
    flat_map (block_lines o (Some (L - mwidth mk pad))) chtoks = map bare inner ->
    block_lines o (Some L) (ListItem (mkItem (marker_str mk) 0 (Z.of_nat (length (marker_str mk) + pad)) lo) (chtoks ++ (if blank then [BlankLine] else []))) =
    map bare (item_lines mk pad inner) ++ (if blank then [[]] else []).
  Proof.
    intros Hmk Hp1 Hg E.
    destruct (good_lines _ Hg) as (c0 & body0 & rest & El & Hc0 & _ & _ & _ & _ & _).
    destruct (marker_first mk Hmk) as (m0 & mr & Em & Hm0).
    cbn [block_lines sub_opt normalize_ws i_prepend i_indentation i_leader]. unfold o. cbn [normalize_ws].
    unfold mwidth, o in E. rewrite flat_map_app, E, El.
    assert (Eb : flat_map (block_lines (mkMopts false) (Some (L - Z.of_nat (length (marker_str mk) + pad)))) (if blank then [BlankLine] else []) = map bare (if blank then [SBlank] else [])) by (destruct blank; reflexivity).
    rewrite Eb, <- map_app. cbn [map or_blank bare repeat app].
    unfold item_lines. rewrite Em.
    set (w := (length (m0 :: mr) + pad)%nat).
    assert (Ew : spaces (Z.of_nat w) = repeat 32 w) by (unfold spaces; rewrite Nat2Z.id; reflexivity).
    assert (Ep : spaces (Z.of_nat w - len (m0 :: mr) - 0) = repeat 32 pad).
    { unfold spaces, len, w. f_equal. lia. }
    unfold prefix_lines. rewrite Ew. destruct w as [|w'] eqn:Ew0; [unfold w in Ew0; cbn [length] in Ew0; lia|].
    cbn [repeat prefix_from]. change (32 :: repeat 32 w') with (repeat 32 (S w')).
    rewrite (prefix_from_false_embed _ (S w') (rest ++ if blank then [SBlank] else []) (Nat.lt_0_succ _)).
    rewrite Ep. cbn [spaces Z.to_nat repeat app map bare nonempty orb].
    rewrite !map_app. destruct blank; cbn [map embed_s bare]; rewrite <- ?app_assoc; cbn [app]; rewrite ?app_nil_r; reflexivity.
  Qed.
End RL.

Section RLAll.
  Let o := mkMopts false.

  Lemma kids_forall2 L ts : Forall (RL L) ts ->
    Forall2 (fun t t' => block_lines o (Some L) (tok_of true t) = map bare (spell t')) (map to_f ts) (map to_f (map (reflow L) ts)).
  Proof. induction 1 as [|t r E _ IH]; [constructor|]. cbn [map]. constructor; [exact E|exact IH]. Qed.

  Lemma kids_render L ts : ts <> [] -> Forall (RL L) ts ->
    flat_map (block_lines o (Some L)) (tok_seq true (map to_f ts)) = map bare (join_blank (map spell (map to_f (map (reflow L) ts)))).
  Proof. intros Hne H. apply rl_seq; [apply kids_forall2; exact H|destruct ts; [contradiction|discriminate]]. Qed.

  Lemma kids_good L ts : wseq_ok ts = true -> forallb wwf ts = true ->
    good_b (join_blank (map spell (map to_f (map (reflow L) ts)))) = true.
  Proof.
    intros Hs Hall.
    assert (Hch : Forall Wok (map (reflow L) ts)).
    { apply Forall_forall. intros x Hx. apply in_map_iff in Hx as (t & <- & Ht). rewrite forallb_forall in Hall.
      pose proof (wwf_reflow (wdepth t) t L (le_n _) (Hall t Ht)) as W. apply (wok_all (wdepth (reflow L t)) _ (le_n _) W). }
    assert (Hs' : wseq_ok (map (reflow L) ts) = true) by (rewrite (wseq_reflow _ ts (is_item_reflow L)); exact Hs).
    apply (children_ok _ Hs' Hch).
  Qed.

  Lemma rl_all : forall f t L, (wdepth t <= f)%nat -> wwf t = true -> RL L t.
  Proof.
    assert (Leaf : forall t L, match t with WQuote _ | WItem _ _ _ | WMore _ _ _ _ _ => false | _ => true end = true -> wwf t = true -> RL L t).
    { intros [gs|ch n content|lv c body|c n|ts|mk pad ts|mk pad ts bl next] L; try discriminate; cbn [wwf]; intros _ Hw.
      - apply rl_para; exact Hw.
      - unfold RL. cbn [to_f reflow]. rewrite not_rebroken by reflexivity. apply (rt_fence ch n content Hw).
      - unfold RL. cbn [to_f reflow]. rewrite not_rebroken by reflexivity. apply (rt_head lv c body Hw).
      - unfold RL. cbn [to_f reflow]. rewrite not_rebroken by reflexivity. apply (rt_rule c n). }
    assert (Kids : forall f, (forall t L, (wdepth t <= f)%nat -> wwf t = true -> RL L t) ->
                   forall ts L n, (S (fold_right (fun t m => Nat.max (wdepth t) m) 0%nat ts) <= S n)%nat -> (n <= f)%nat -> forallb wwf ts = true -> Forall (RL L) ts).
    { intros f IH ts L n Hd Hn Hall. apply Forall_forall. intros t Ht. rewrite forallb_forall in Hall.
      apply IH; [pose proof (wdepth_children t ts n Ht Hd); lia|apply Hall; exact Ht]. }
    induction f as [|f IH].
    - intros t L Hd Hw. destruct t as [gs|ch n content|lv c body|c n|ts|mk pad ts|mk pad ts bl next]; try (cbn [wdepth] in Hd; lia); (apply Leaf; [reflexivity|exact Hw]).
    - intros t. induction t as [gs|ch n content|lv c body|c n|ts|mk pad ts|mk pad ts bl next IHn]; intros L Hd Hw; try (apply Leaf; [reflexivity|exact Hw]).
      + (* quote *)
        cbn [wwf] in Hw. apply andb_true_iff in Hw as [Hs Hall]. cbn [wdepth] in Hd.
        assert (Hne : ts <> []) by (destruct ts; [discriminate|discriminate]).
        pose proof (kids_render (L - 2) ts Hne (Kids f IH ts (L - 2) f Hd (le_n _) Hall)) as E. unfold o in E.
        unfold RL. cbn [to_f reflow tok_of block_lines sub_opt spell].
        change ((fix seq (ts0 : list ftree) : list tok := match ts0 with [] => [] | t :: r => tok_of true t :: match r with [] => [] | _ :: _ => blank_tok true ++ seq r end end) (map to_f ts)) with (tok_seq true (map to_f ts)).
        rewrite E. apply prefix_quote.
      + (* a list of one item *)
        cbn [wwf] in Hw. repeat rewrite andb_true_iff in Hw. destruct Hw as [[[[[Hmk Hp1] Hp4] Hs] Hall] Ham]. cbn [wdepth] in Hd.
        assert (Hne : ts <> []) by (destruct ts; [discriminate|discriminate]).
        pose proof (kids_render (L - mwidth mk pad) ts Hne (Kids f IH ts _ f Hd (le_n _) Hall)) as E.
        unfold RL. cbn [to_f reflow tok_of spell].
        change ((fix seq (ts0 : list ftree) : list tok := match ts0 with [] => [] | t :: r => tok_of true t :: match r with [] => [] | _ :: _ => blank_tok true ++ seq r end end) (map to_f ts)) with (tok_seq true (map to_f ts)).
        pose proof (item_render L mk pad (tok_seq true (map to_f ts)) _ (negb true && (1 <? Z.of_nat (length (map to_f ts)))) false
                      (marker_ok_reflect mk Hmk) (proj1 (Nat.leb_le _ _) Hp1) (kids_good _ ts Hs Hall) E) as RI. rewrite !app_nil_r in RI.
        cbn [block_lines flat_map]. rewrite app_nil_r. exact RI.
      + (* an item and the rest of the list *)
        cbn [wwf] in Hw. repeat rewrite andb_true_iff in Hw. destruct Hw as [[[[[[[[Hmk Hp1] Hp4] Hs] Hall] Ham] Hin] Hk] Hwn]. cbn [wdepth] in Hd.
        assert (Hne : ts <> []) by (destruct ts; [discriminate|discriminate]).
        assert (Hd' : (S (fold_right (fun t m => Nat.max (wdepth t) m) 0%nat ts) <= S f)%nat) by lia.
        pose proof (kids_render (L - mwidth mk pad) ts Hne (Kids f IH ts _ f Hd' (le_n _) Hall)) as E.
        specialize (IHn L ltac:(lia) Hwn). unfold RL in IHn |- *.
        destruct (wok_all (wdepth next) next (le_n _) Hwn) as (Wn & _ & _).
        assert (Hin' : is_item (to_f next) = true) by (rewrite is_item_to_f; exact Hin).
        destruct (tok_of_chain_is_list true (to_f next) Hin' Wn) as (s2 & lo2 & items & E2).
        cbn [to_f reflow tok_of spell]. rewrite E2 in *.
        change ((fix seq (ts0 : list ftree) : list tok := match ts0 with [] => [] | t :: r => tok_of true t :: match r with [] => [] | _ :: _ => blank_tok true ++ seq r end end) (map to_f ts)) with (tok_seq true (map to_f ts)).
        pose proof (item_render L mk pad (tok_seq true (map to_f ts)) _ (if bl then negb true else negb true && (1 <? Z.of_nat (length (map to_f ts)))) bl
                      (marker_ok_reflect mk Hmk) (proj1 (Nat.leb_le _ _) Hp1) (kids_good _ ts Hs Hall) E) as RI. cbn [blank_tok].
        match goal with |- block_lines ?oo (Some L) (List ?s ?l (?x :: items)) = _ =>
          change (block_lines oo (Some L) (List s l (x :: items))) with (block_lines o (Some L) x ++ block_lines o (Some L) (List s2 lo2 items)) end.
        unfold o. rewrite RI, IHn. rewrite !map_app. destruct bl; cbn [map bare app]; rewrite <- ?app_assoc; reflexivity.
  Qed.
End RLAll.

(* what MarkdownRenderer(max_line_length=L) writes for the parsed tree of words: the text of the regrouped tree *)
Theorem reflow_renders L t : wwf t = true ->
  block_lines (mkMopts false) (Some L) (tok_of true (to_f t)) = map bare (spell (to_f (reflow L t))).
Proof. intros H. apply (rl_all (wdepth t) t L (le_n _) H). Qed.

(* ---- reflowing twice is reflowing once ---- *)
Lemma reflow_twice : forall f t L, (wdepth t <= f)%nat -> wwf t = true -> reflow L (reflow L t) = reflow L t.
Proof.
  assert (Kids : forall f, (forall t L, (wdepth t <= f)%nat -> wwf t = true -> reflow L (reflow L t) = reflow L t) ->
                 forall ts L n, (S (fold_right (fun t m => Nat.max (wdepth t) m) 0%nat ts) <= S n)%nat -> (n <= f)%nat -> forallb wwf ts = true ->
                 map (reflow L) (map (reflow L) ts) = map (reflow L) ts).
  { intros f IH ts L n Hd Hn Hall. rewrite map_map. apply map_ext_in. intros t Ht. rewrite forallb_forall in Hall.
    apply IH; [pose proof (wdepth_children t ts n Ht Hd); lia|apply Hall; exact Ht]. }
  assert (Para : forall gs L, words_okb gs = true -> reflow L (reflow L (WPara gs)) = reflow L (WPara gs)).
  { intros gs L H. cbn [reflow]. destruct (refill_facts L gs H) as [_ E]. rewrite E. reflexivity. }
  induction f as [|f IH].
  - intros t L Hd Hw. destruct t as [gs|ch n content|lv c body|c n|ts|mk pad ts|mk pad ts bl next]; try (cbn [wdepth] in Hd; lia); try reflexivity. apply Para. exact Hw.
  - intros t. induction t as [gs|ch n content|lv c body|c n|ts|mk pad ts|mk pad ts bl next IHn]; intros L Hd Hw; try reflexivity.
    + apply Para. exact Hw.
    + cbn [wwf] in Hw. apply andb_true_iff in Hw as [_ Hall]. cbn [wdepth] in Hd. cbn [reflow]. rewrite (Kids f IH ts (L - 2) f Hd (le_n _) Hall). reflexivity.
    + cbn [wwf] in Hw. repeat rewrite andb_true_iff in Hw. destruct Hw as [[[[[_ _] _] _] Hall] _]. cbn [wdepth] in Hd. cbn [reflow].
      rewrite (Kids f IH ts _ f Hd (le_n _) Hall). reflexivity.
    + cbn [wwf] in Hw. repeat rewrite andb_true_iff in Hw. destruct Hw as [[[[[[[[_ _] _] _] Hall] _] _] _] Hwn]. cbn [wdepth] in Hd. cbn [reflow].
      assert (Hd' : (S (fold_right (fun t m => Nat.max (wdepth t) m) 0%nat ts) <= S f)%nat) by lia.
      rewrite (Kids f IH ts _ f Hd' (le_n _) Hall), (IHn L ltac:(lia) Hwn). reflexivity.
Qed.

Theorem reflow_idempotent_tree L t : wwf t = true -> reflow L (reflow L t) = reflow L t.
Proof. intros H. apply (reflow_twice (wdepth t) t L (le_n _) H). Qed.

(* ---- same meaning: the HTML of the regrouped tree is the original's, up to line endings exchanged for spaces ---- *)
Definition unl (s : str) : str := map (fun c => if c =? 10 then 32 else c) s.

Lemma unl_app a b : unl (a ++ b) = unl a ++ unl b.
Proof. apply map_app. Qed.

Lemma unl_join_nl (xs : list str) : unl (join [10] xs) = join [32] (map unl xs).
Proof.
  induction xs as [|x r IH]; [reflexivity|]. destruct r as [|y r']; [reflexivity|].
  change (join [10] (x :: y :: r')) with (x ++ [10] ++ join [10] (y :: r')). rewrite !unl_app, IH. reflexivity.
Qed.

Lemma unl_join_sp (xs : list str) : unl (join [32] xs) = join [32] (map unl xs).
Proof.
  induction xs as [|x r IH]; [reflexivity|]. destruct r as [|y r']; [reflexivity|].
  change (join [32] (x :: y :: r')) with (x ++ [32] ++ join [32] (y :: r')). rewrite !unl_app, IH. reflexivity.
Qed.

Lemma para_html_unl o gs (tight : bool) : words_okb gs = true ->
  unl (html_f o tight (para_f (map (join SP) gs))) =
  unl (if tight then escape_html_text o (join SP (concat gs)) else $"<p>" ++ escape_html_text o (join SP (concat gs)) ++ $"</p>").
Proof.
  intros H. destruct (para_wf gs H) as (c & body & more & E & _). destruct (words_okb_spec gs H) as [_ HF].
  rewrite E. cbn [para_f html_f]. rewrite <- E.
  assert (X : unl (join [10] (map (escape_html_text o) (map (join SP) gs))) = unl (escape_html_text o (join SP (concat gs)))).
  { rewrite unl_join_nl, <- unl_join_sp. change [32] with SP. rewrite <- esc_join. rewrite join_join; [reflexivity|].
    apply Forall_forall. intros g Hg. rewrite Forall_forall in HF. apply (HF g Hg). }
  destruct tight; [exact X|]. rewrite !unl_app, X. reflexivity.
Qed.

Lemma is_fpara_reflow L t : is_fpara (to_f (reflow L t)) = is_fpara (to_f t).
Proof.
  destruct t; try reflexivity. cbn [to_f reflow]. unfold para_f.
  destruct (map (join SP) (fill_struct L [] (concat gs))) as [|[|? ?] ?]; destruct (map (join SP) gs) as [|[|? ?] ?]; reflexivity.
Qed.

Lemma first_fpara_reflow L ts : first_fpara (map to_f (map (reflow L) ts)) = first_fpara (map to_f ts).
Proof. destruct ts as [|t r]; [reflexivity|]. cbn [map first_fpara]. apply is_fpara_reflow. Qed.

Lemma last_fpara_reflow L ts : last_fpara (map to_f (map (reflow L) ts)) = last_fpara (map to_f ts).
Proof.
  unfold last_fpara. rewrite <- !map_rev. destruct (rev ts) as [|t r]; [reflexivity|]. cbn [map]. apply is_fpara_reflow.
Qed.

Lemma chain_loose_reflow L t : chain_loose (to_f (reflow L t)) = chain_loose (to_f t).
Proof.
  induction t as [gs|ch n content|lv c body|c n|ts|mk pad ts|mk pad ts bl next IHn]; try reflexivity.
  - cbn [to_f reflow]. unfold para_f.
    destruct (map (join SP) (fill_struct L [] (concat gs))) as [|[|? ?] ?]; destruct (map (join SP) gs) as [|[|? ?] ?]; reflexivity.
  - cbn [to_f reflow chain_loose]. rewrite !map_length. reflexivity.
  - cbn [to_f reflow chain_loose]. rewrite !map_length, IHn. reflexivity.
Qed.

Definition HU (t : wtree) : Prop := forall o b L,
  unl (html_f o b (to_f (reflow L t))) = unl (html_f o b (to_f t)) /\ unl (html_lis o b (to_f (reflow L t))) = unl (html_lis o b (to_f t)).

Lemma kids_html o b L ts : Forall HU ts ->
  unl (join [10] (map (html_f o b) (map to_f (map (reflow L) ts)))) = unl (join [10] (map (html_f o b) (map to_f ts))).
Proof.
  intros H. rewrite !unl_join_nl. f_equal. rewrite !map_map. apply map_ext_in. intros t Ht. rewrite Forall_forall in H. apply (H t Ht o b L).
Qed.

Lemma html_unl_all : forall f t, (wdepth t <= f)%nat -> wwf t = true -> HU t.
Proof.
  assert (Leaf : forall t, match t with WQuote _ | WItem _ _ _ | WMore _ _ _ _ _ => false | _ => true end = true -> wwf t = true -> HU t).
  { intros [gs|ch n content|lv c body|c n|ts|mk pad ts|mk pad ts bl next]; try discriminate; cbn [wwf]; intros _ Hw o b L; try (split; reflexivity).
    cbn [to_f reflow]. destruct (refill_facts L gs Hw) as [H' E]. split.
    - rewrite (para_html_unl o _ b H'), (para_html_unl o gs b Hw), E. reflexivity.
    - unfold para_f. destruct (map (join SP) (fill_struct L [] (concat gs))) as [|[|? ?] ?]; destruct (map (join SP) gs) as [|[|? ?] ?]; reflexivity. }
  assert (Kids : forall f, (forall t, (wdepth t <= f)%nat -> wwf t = true -> HU t) ->
                 forall ts n, (S (fold_right (fun t m => Nat.max (wdepth t) m) 0%nat ts) <= S n)%nat -> (n <= f)%nat -> forallb wwf ts = true -> Forall HU ts).
  { intros f IH ts n Hd Hn Hall. apply Forall_forall. intros t Ht. rewrite forallb_forall in Hall.
    apply IH; [pose proof (wdepth_children t ts n Ht Hd); lia|apply Hall; exact Ht]. }
  induction f as [|f IH].
  - intros t Hd Hw. destruct t as [gs|ch n content|lv c body|c n|ts|mk pad ts|mk pad ts bl next]; try (cbn [wdepth] in Hd; lia); (apply Leaf; [reflexivity|exact Hw]).
  - intros t. induction t as [gs|ch n content|lv c body|c n|ts|mk pad ts|mk pad ts bl next IHn]; intros Hd Hw; try (apply Leaf; [reflexivity|exact Hw]).
    + cbn [wwf] in Hw. apply andb_true_iff in Hw as [_ Hall]. cbn [wdepth] in Hd. pose proof (Kids f IH ts f Hd (le_n _) Hall) as K.
      intros o b L. cbn [to_f reflow html_f html_lis]. split; [|reflexivity]. rewrite !unl_app, (kids_html o false (L - 2) ts K). reflexivity.
    + cbn [wwf] in Hw. repeat rewrite andb_true_iff in Hw. destruct Hw as [[[[[_ _] _] _] Hall] _]. cbn [wdepth] in Hd. pose proof (Kids f IH ts f Hd (le_n _) Hall) as K.
      intros o b L. cbn [to_f reflow html_f html_lis]. rewrite !map_length, first_fpara_reflow, last_fpara_reflow. split.
      * rewrite !unl_app, (kids_html o _ _ ts K). reflexivity.
      * rewrite !unl_app, (kids_html o _ _ ts K). reflexivity.
    + cbn [wwf] in Hw. repeat rewrite andb_true_iff in Hw. destruct Hw as [[[[[[[[_ _] _] _] Hall] _] _] _] Hwn]. cbn [wdepth] in Hd.
      assert (Hd' : (S (fold_right (fun t m => Nat.max (wdepth t) m) 0%nat ts) <= S f)%nat) by lia.
      pose proof (Kids f IH ts f Hd' (le_n _) Hall) as K. specialize (IHn ltac:(lia) Hwn).
      intros o b L. cbn [to_f reflow html_f html_lis]. rewrite !map_length, first_fpara_reflow, last_fpara_reflow, chain_loose_reflow. split.
      * rewrite !unl_app, (kids_html o _ _ ts K). destruct (IHn o (negb (bl || (1 <? Z.of_nat (length ts)) || chain_loose (to_f next))) L) as [_ E2]. rewrite E2. reflexivity.
      * rewrite !unl_app, (kids_html o _ _ ts K). destruct (IHn o b L) as [_ E2]. rewrite E2. reflexivity.
Qed.

Theorem reflow_same_html o L t : wwf t = true -> unl (html_f o false (to_f (reflow L t))) = unl (html_f o false (to_f t)).
Proof. intros H. apply (html_unl_all (wdepth t) t (le_n _) H o false L). Qed.

(* ---- the whole pipeline ---- *)
Theorem tree_reflow t L cfg o :
  wwf t = true ->
  fragment_config (cfg_block cfg) = true -> prose_spans (cfg_span cfg) = true -> EmphSimple.emph_spans (cfg_span cfg) = true ->
  inert_spans (cfg_span cfg) = true -> LeafSpans.leaf_spans (cfg_span cfg) = true ->
  let src := text_of (spell (to_f t)) in
  let t' := reflow L t in
  let out := text_of (spell (to_f t')) in
  render_md (mkMopts false) (Some L) (fst (fst (parse_lines cfg_markdown src))) = concat out /\
  wf_b (to_f t') = true /\
  fst (fst (parse_lines cfg out)) = Document [tok_of false (to_f t')] /\
  render_html o (fst (fst (parse_lines cfg src))) = html_f o false (to_f t) ++ [10] /\
  render_html o (fst (fst (parse_lines cfg out))) = html_f o false (to_f t') ++ [10] /\
  unl (html_f o false (to_f t')) = unl (html_f o false (to_f t)) /\
  render_md (mkMopts false) (Some L) (fst (fst (parse_lines cfg_markdown out))) = concat out.
Proof.
  intros Hw Hc Hq He Hi Hr src t' out.
  pose proof (wwf_fragment t Hw) as Wt. destruct (reflow_in_fragment L t Hw) as [Hw' Wt'].
  assert (R : forall x, wwf x = true -> render_md (mkMopts false) (Some L) (fst (fst (parse_lines cfg_markdown (text_of (spell (to_f x)))))) = concat (text_of (spell (to_f (reflow L x))))).
  { intros x Hx. rewrite (fragment_document_markdown (to_f x) (wwf_fragment x Hx)). unfold render_md. cbn [is_block block_lines flat_map]. rewrite app_nil_r.
    rewrite (reflow_renders L x Hx). apply render_lines_bare. }
  split; [apply R; exact Hw|]. split; [exact Wt'|]. split; [apply fragment_document; assumption|].
  split; [apply fragment_html; assumption|]. split; [apply fragment_html; assumption|]. split; [apply reflow_same_html; exact Hw|].
  unfold out, t'. rewrite (R (reflow L t) Hw'), (reflow_idempotent_tree L t Hw). reflexivity.
Qed.

(* ---- clause 3: a line longer than the limit has no breakable space after its container prefix ---- *)
Lemma fill_struct_fits lim : forall ws cur, Forall (fun w : str => w <> [] /\ is_nl w = false) ws -> Forall (fun w : str => w <> []) cur ->
  (cur = [] \/ len (join SP cur) <= lim \/ exists w, cur = [w]) ->
  Forall (fun g => len (join SP g) <= lim \/ exists w, g = [w]) (fill_struct lim cur ws).
Proof.
  induction ws as [|w r IH]; intros cur Hws Hcur Hfit; cbn [fill_struct].
  - rewrite (nonempty_join cur Hcur). destruct cur as [|c0 cr]; [constructor|]. constructor; [|constructor].
    destruct Hfit as [E|[E|E]]; [discriminate|left; exact E|right; exact E].
  - inversion Hws as [|? ? [Hwn Hnl] Hr]; subst. rewrite Hnl. rewrite (nonempty_join cur Hcur).
    destruct cur as [|c0 cr].
    + cbn [negb]. apply IH; [exact Hr|constructor; [exact Hwn|constructor]|right; right; exists w; reflexivity].
    + cbn [negb]. destruct (len (join SP ((c0 :: cr) ++ [w])) <=? lim) eqn:E.
      * apply IH; [exact Hr|apply Forall_app; split; [exact Hcur|constructor; [exact Hwn|constructor]]|right; left; apply Z.leb_le; exact E].
      * constructor; [destruct Hfit as [E0|[E0|E0]]; [discriminate|left; exact E0|right; exact E0]|].
        apply IH; [exact Hr|constructor; [exact Hwn|constructor]|right; right; exists w; reflexivity].
Qed.

(* the paragraph lines of a tree with the width of the container prefix in front of each *)
Fixpoint pw_lines (W : Z) (t : wtree) : list (Z * list str) :=
  match t with
  | WPara gs => map (fun g => (W, g)) gs
  | WQuote ts => flat_map (pw_lines (W + 2)) ts
  | WItem mk pad ts => flat_map (pw_lines (W + mwidth mk pad)) ts
  | WMore mk pad ts bl next => flat_map (pw_lines (W + mwidth mk pad)) ts ++ pw_lines W next
  | _ => []
  end.

Definition fits_or_single (L : Z) (x : Z * list str) : Prop := fst x + len (join SP (snd x)) <= L \/ exists w, snd x = [w].

Lemma reflow_fits_all : forall f t L W, (wdepth t <= f)%nat -> wwf t = true -> Forall (fits_or_single (L + W)) (pw_lines W (reflow L t)).
Proof.
  assert (Para : forall gs L W, words_okb gs = true -> Forall (fits_or_single (L + W)) (pw_lines W (reflow L (WPara gs)))).
  { intros gs L W H. cbn [reflow pw_lines]. destruct (words_okb_spec gs H) as [Hne HF]. destruct (concat_words gs Hne HF) as [_ Cok].
    assert (Hr : Forall (fun w : str => w <> [] /\ is_nl w = false) (concat gs)).
    { apply Forall_forall. intros w Hw. rewrite Forall_forall in Cok. apply word_not_nl. apply Cok. exact Hw. }
    pose proof (fill_struct_fits L (concat gs) [] Hr ltac:(constructor) (or_introl eq_refl)) as F.
    apply Forall_forall. intros x Hx. apply in_map_iff in Hx as (g & <- & Hg). rewrite Forall_forall in F. unfold fits_or_single. cbn [fst snd].
    destruct (F g Hg) as [E|E]; [left; lia|right; exact E]. }
  assert (Kids : forall f, (forall t L W, (wdepth t <= f)%nat -> wwf t = true -> Forall (fits_or_single (L + W)) (pw_lines W (reflow L t))) ->
                 forall ts L W n, (S (fold_right (fun t m => Nat.max (wdepth t) m) 0%nat ts) <= S n)%nat -> (n <= f)%nat -> forallb wwf ts = true ->
                 Forall (fits_or_single (L + W)) (flat_map (pw_lines W) (map (reflow L) ts))).
  { intros f IH ts L W n Hd Hn Hall. apply Forall_forall. intros x Hx. apply in_flat_map in Hx as (t' & Ht' & Hx). apply in_map_iff in Ht' as (t & <- & Ht).
    rewrite forallb_forall in Hall. pose proof (IH t L W ltac:(pose proof (wdepth_children t ts n Ht Hd); lia) (Hall t Ht)) as F. rewrite Forall_forall in F. apply F. exact Hx. }
  induction f as [|f IH].
  - intros t L W Hd Hw. destruct t as [gs|ch n content|lv c body|c n|ts|mk pad ts|mk pad ts bl next]; try (cbn [wdepth] in Hd; lia); try constructor. apply Para. exact Hw.
  - intros t. induction t as [gs|ch n content|lv c body|c n|ts|mk pad ts|mk pad ts bl next IHn]; intros L W Hd Hw; try constructor.
    + apply Para. exact Hw.
    + cbn [wwf] in Hw. apply andb_true_iff in Hw as [_ Hall]. cbn [wdepth] in Hd. cbn [reflow pw_lines].
      pose proof (Kids f IH ts (L - 2) (W + 2) f Hd (le_n _) Hall) as K. replace (L - 2 + (W + 2)) with (L + W) in K by lia. exact K.
    + cbn [wwf] in Hw. repeat rewrite andb_true_iff in Hw. destruct Hw as [[[[[_ _] _] _] Hall] _]. cbn [wdepth] in Hd. cbn [reflow pw_lines].
      pose proof (Kids f IH ts (L - mwidth mk pad) (W + mwidth mk pad) f Hd (le_n _) Hall) as K. replace (L - mwidth mk pad + (W + mwidth mk pad)) with (L + W) in K by lia. exact K.
    + cbn [wwf] in Hw. repeat rewrite andb_true_iff in Hw. destruct Hw as [[[[[[[[_ _] _] _] Hall] _] _] _] Hwn]. cbn [wdepth] in Hd. cbn [reflow pw_lines].
      assert (Hd' : (S (fold_right (fun t m => Nat.max (wdepth t) m) 0%nat ts) <= S f)%nat) by lia.
      pose proof (Kids f IH ts (L - mwidth mk pad) (W + mwidth mk pad) f Hd' (le_n _) Hall) as K. replace (L - mwidth mk pad + (W + mwidth mk pad)) with (L + W) in K by lia.
      apply Forall_app. split; [exact K|apply (IHn L W ltac:(lia) Hwn)].
Qed.

Theorem reflow_fits L t : wwf t = true -> Forall (fits_or_single L) (pw_lines 0 (reflow L t)).
Proof. intros H. pose proof (reflow_fits_all (wdepth t) t L 0 (le_n _) H) as F. rewrite Z.add_0_r in F. exact F. Qed.

(* ... and those are lines of the text: each paragraph line stands in the spelled tree behind a prefix of exactly that width *)
Lemma pw_shift : forall f t W, (wdepth t <= f)%nat -> pw_lines W t = map (fun x => (fst x + W, snd x)) (pw_lines 0 t).
Proof.
  assert (Kids : forall f, (forall t W, (wdepth t <= f)%nat -> pw_lines W t = map (fun x => (fst x + W, snd x)) (pw_lines 0 t)) ->
                 forall ts W V n, (S (fold_right (fun t m => Nat.max (wdepth t) m) 0%nat ts) <= S n)%nat -> (n <= f)%nat ->
                 flat_map (pw_lines (W + V)) ts = map (fun x => (fst x + W, snd x)) (flat_map (pw_lines (0 + V)) ts)).
  { intros f IH ts W V n Hd Hn. induction ts as [|t r IHr]; [reflexivity|]. cbn [flat_map]. rewrite map_app. f_equal.
    - assert (Ht : (wdepth t <= f)%nat) by (pose proof (wdepth_children t (t :: r) n (or_introl eq_refl) Hd); lia).
      rewrite (IH t (W + V) Ht), (IH t (0 + V) Ht), map_map. apply map_ext. intros [w g]. cbn [fst snd]. f_equal. lia.
    - apply IHr. cbn [fold_right] in Hd. lia. }
  induction f as [|f IH].
  - intros t W Hd. destruct t as [gs|ch n content|lv c body|c n|ts|mk pad ts|mk pad ts bl next]; try (cbn [wdepth] in Hd; lia); try reflexivity.
    cbn [pw_lines]. rewrite map_map. apply map_ext. intros g. cbn [fst snd]. reflexivity.
  - intros t. induction t as [gs|ch n content|lv c body|c n|ts|mk pad ts|mk pad ts bl next IHn]; intros W Hd; try reflexivity.
    + cbn [pw_lines]. rewrite map_map. apply map_ext. intros g. cbn [fst snd]. reflexivity.
    + cbn [wdepth] in Hd. cbn [pw_lines]. apply (Kids f IH ts W 2 f Hd (le_n _)).
    + cbn [wdepth] in Hd. cbn [pw_lines]. apply (Kids f IH ts W (mwidth mk pad) f Hd (le_n _)).
    + cbn [wdepth] in Hd. cbn [pw_lines]. rewrite map_app. f_equal; [apply (Kids f IH ts W (mwidth mk pad) f ltac:(lia) (le_n _))|apply IHn; lia].
Qed.

Definition in_text (ls : list sline) (x : Z * list str) : Prop := exists p, len p = fst x /\ In (p ++ join SP (snd x)) (map bare ls).

Lemma in_text_quote ls x : snd x <> [] -> Forall (fun w : str => w <> []) (snd x) -> in_text ls x -> in_text (map quote_s ls) (fst x + 2, snd x).
Proof.
  intros Hne Hw (p & Hp & Hin). apply in_map_iff in Hin as (l & El & Hl). exists ([62; 32] ++ p). split; [unfold len in *; cbn [app length fst] in *; lia|].
  apply in_map_iff. exists (quote_s l). split; [|apply in_map; exact Hl].
  destruct l as [|k c body].
  - cbn [bare] in El. exfalso. destruct p; [|discriminate]. cbn [app] in El. destruct (snd x) as [|w r]; [contradiction|]. inversion Hw; subst.
    pose proof (join_sp_nonempty w r ltac:(assumption)) as J. rewrite <- El in J. contradiction.
  - cbn [quote_s bare repeat app snd]. cbn [bare] in El. rewrite El. reflexivity.
Qed.

Lemma in_text_join t ts x : In t ts -> in_text (spell t) x -> in_text (join_blank (map spell ts)) x.
Proof.
  intros Ht (p & Hp & Hin). exists p. split; [exact Hp|]. apply in_map_iff in Hin as (l & El & Hl). apply in_map_iff. exists l. split; [exact El|].
  clear -Ht Hl. induction ts as [|y r IH]; [contradiction|]. destruct r as [|y2 r'].
  - destruct Ht as [->|[]]. unfold join_blank. cbn [map flat_map]. rewrite app_nil_r. exact Hl.
  - change (join_blank (map spell (y :: y2 :: r'))) with (spell y ++ SBlank :: join_blank (map spell (y2 :: r'))). destruct Ht as [->|Ht]; [apply in_or_app; left; exact Hl|].
    apply in_or_app. right. right. apply IH. exact Ht.
Qed.

Lemma in_text_item mk pad inner x : marker_ok mk -> good_b inner = true -> snd x <> [] -> Forall (fun w : str => w <> []) (snd x) ->
  in_text inner x -> in_text (item_lines mk pad inner) (fst x + mwidth mk pad, snd x).
Proof.
  intros Hmk Hg Hne Hw (p & Hp & Hin). destruct (good_elim inner Hg) as (c0 & body0 & rest & -> & _).
  destruct (marker_first mk Hmk) as (m0 & mr & Em & _). unfold item_lines. rewrite Em.
  assert (Jne : join SP (snd x) <> []) by (destruct (snd x) as [|w r]; [contradiction|]; inversion Hw; subst; apply join_sp_nonempty; assumption).
  apply in_map_iff in Hin as (l & El & Hl). destruct Hl as [<-|Hl].
  - exists ((m0 :: mr ++ repeat 32 pad) ++ p). split.
    + unfold len, mwidth in *. rewrite Em. rewrite !app_length. cbn [length fst]. rewrite app_length, repeat_length. lia.
    + left. cbn [bare repeat app]. cbn [bare repeat app] in El. rewrite <- app_assoc. cbn [app]. f_equal. rewrite <- app_assoc. f_equal. f_equal. exact El.
  - exists (repeat 32 (length (m0 :: mr) + pad) ++ p). split.
    + unfold len, mwidth in *. rewrite Em, app_length, repeat_length. cbn [fst]. lia.
    + right. apply in_map_iff. exists (embed_s (length (m0 :: mr) + pad) l). split; [|apply in_map; exact Hl].
      destruct l as [|k c body]; [cbn [bare] in El; exfalso; destruct p; [cbn [app] in El; rewrite <- El in Jne; contradiction|discriminate]|].
      cbn [embed_s bare]. cbn [bare] in El. rewrite repeat_app, <- !app_assoc. f_equal. exact El.
Qed.

Lemma pw_words : forall f t x, (wdepth t <= f)%nat -> wwf t = true -> In x (pw_lines 0 t) -> snd x <> [] /\ Forall (fun w : str => w <> []) (snd x).
Proof.
  assert (Para : forall gs x, words_okb gs = true -> In x (pw_lines 0 (WPara gs)) -> snd x <> [] /\ Forall (fun w : str => w <> []) (snd x)).
  { intros gs x H Hx. cbn [pw_lines] in Hx. apply in_map_iff in Hx as (g & <- & Hg). cbn [snd]. destruct (words_okb_spec gs H) as [_ F]. rewrite Forall_forall in F.
    destruct (F g Hg) as [A B]. split; [exact A|apply words_nonempty; exact B]. }
  induction f as [|f IH].
  - intros t x Hd Hw Hx. destruct t as [gs|ch n content|lv c body|c n|ts|mk pad ts|mk pad ts bl next]; try (cbn [wdepth] in Hd; lia); try contradiction. apply (Para gs x Hw Hx).
  - intros t. induction t as [gs|ch n content|lv c body|c n|ts|mk pad ts|mk pad ts bl next IHn]; intros x Hd Hw Hx; try contradiction.
    + apply (Para gs x Hw Hx).
    + cbn [wwf] in Hw. apply andb_true_iff in Hw as [_ Hall]. cbn [wdepth] in Hd. cbn [pw_lines] in Hx. apply in_flat_map in Hx as (t & Ht & Hx).
      rewrite forallb_forall in Hall. rewrite (pw_shift f t (0 + 2)) in Hx by (pose proof (wdepth_children t ts f Ht Hd); lia). apply in_map_iff in Hx as (y & <- & Hy). cbn [snd].
      apply (IH t y); [pose proof (wdepth_children t ts f Ht Hd); lia|apply Hall; exact Ht|exact Hy].
    + cbn [wwf] in Hw. repeat rewrite andb_true_iff in Hw. destruct Hw as [[[[[_ _] _] _] Hall] _]. cbn [wdepth] in Hd. cbn [pw_lines] in Hx. apply in_flat_map in Hx as (t & Ht & Hx).
      rewrite forallb_forall in Hall. rewrite (pw_shift f t (0 + mwidth mk pad)) in Hx by (pose proof (wdepth_children t ts f Ht Hd); lia). apply in_map_iff in Hx as (y & <- & Hy). cbn [snd].
      apply (IH t y); [pose proof (wdepth_children t ts f Ht Hd); lia|apply Hall; exact Ht|exact Hy].
    + cbn [wwf] in Hw. repeat rewrite andb_true_iff in Hw. destruct Hw as [[[[[[[[_ _] _] _] Hall] _] _] _] Hwn]. cbn [wdepth] in Hd. cbn [pw_lines] in Hx. apply in_app_or in Hx as [Hx|Hx].
      * apply in_flat_map in Hx as (t & Ht & Hx). assert (Hdt : (wdepth t <= f)%nat) by (pose proof (wdepth_children t ts f Ht ltac:(lia)); lia).
        rewrite forallb_forall in Hall. rewrite (pw_shift f t (0 + mwidth mk pad) Hdt) in Hx. apply in_map_iff in Hx as (y & <- & Hy). cbn [snd].
        apply (IH t y Hdt (Hall t Ht) Hy).
      * apply (IHn x ltac:(lia) Hwn Hx).
Qed.

Lemma in_text_app_l a b x : in_text a x -> in_text (a ++ b) x.
Proof. intros (p & Hp & Hin). exists p. split; [exact Hp|]. rewrite map_app. apply in_or_app. left. exact Hin. Qed.
Lemma in_text_app_r a b x : in_text b x -> in_text (a ++ b) x.
Proof. intros (p & Hp & Hin). exists p. split; [exact Hp|]. rewrite map_app. apply in_or_app. right. exact Hin. Qed.

Lemma pw_in_text_all : forall f t, (wdepth t <= f)%nat -> wwf t = true -> Forall (in_text (spell (to_f t))) (pw_lines 0 t).
Proof.
  assert (Para : forall gs, words_okb gs = true -> Forall (in_text (spell (to_f (WPara gs)))) (pw_lines 0 (WPara gs))).
  { intros gs H. apply Forall_forall. intros x Hx. cbn [pw_lines] in Hx. apply in_map_iff in Hx as (g & <- & Hg). exists []. split; [reflexivity|].
    cbn [to_f fst snd app]. rewrite (para_lines_bare gs H). apply in_map. exact Hg. }
  assert (Kid : forall f, (forall t, (wdepth t <= f)%nat -> wwf t = true -> Forall (in_text (spell (to_f t))) (pw_lines 0 t)) ->
                forall ts V x n, (S (fold_right (fun t m => Nat.max (wdepth t) m) 0%nat ts) <= S n)%nat -> (n <= f)%nat -> forallb wwf ts = true ->
                In x (flat_map (pw_lines (0 + V)) ts) ->
                exists y, x = (fst y + V, snd y) /\ snd y <> [] /\ Forall (fun w : str => w <> []) (snd y) /\ in_text (join_blank (map spell (map to_f ts))) y).
  { intros f IH ts V x n Hd Hn Hall Hx. apply in_flat_map in Hx as (t & Ht & Hx). rewrite forallb_forall in Hall.
    assert (Hdt : (wdepth t <= f)%nat) by (pose proof (wdepth_children t ts n Ht Hd); lia).
    rewrite (pw_shift f t (0 + V) Hdt) in Hx. apply in_map_iff in Hx as (y & <- & Hy). exists y. split; [f_equal|].
    destruct (pw_words f t y Hdt (Hall t Ht) Hy) as [A B]. split; [exact A|]. split; [exact B|].
    pose proof (IH t Hdt (Hall t Ht)) as F. rewrite Forall_forall in F. apply (in_text_join (to_f t) (map to_f ts)); [apply in_map; exact Ht|apply F; exact Hy]. }
  induction f as [|f IH].
  - intros t Hd Hw. destruct t as [gs|ch n content|lv c body|c n|ts|mk pad ts|mk pad ts bl next]; try (cbn [wdepth] in Hd; lia); try constructor. apply Para. exact Hw.
  - intros t. induction t as [gs|ch n content|lv c body|c n|ts|mk pad ts|mk pad ts bl next IHn]; intros Hd Hw; try constructor.
    + apply Para. exact Hw.
    + cbn [wwf] in Hw. apply andb_true_iff in Hw as [_ Hall]. cbn [wdepth] in Hd. apply Forall_forall. intros x Hx. cbn [pw_lines] in Hx.
      destruct (Kid f IH ts 2 x f Hd (le_n _) Hall Hx) as (y & -> & A & B & T). cbn [to_f spell]. apply in_text_quote; assumption.
    + pose proof Hw as Hw0. cbn [wwf] in Hw. repeat rewrite andb_true_iff in Hw. destruct Hw as [[[[[Hmk _] _] Hs] Hall] _]. cbn [wdepth] in Hd.
      apply Forall_forall. intros x Hx. cbn [pw_lines] in Hx.
      destruct (Kid f IH ts (mwidth mk pad) x f Hd (le_n _) Hall Hx) as (y & -> & A & B & T). cbn [to_f spell].
      assert (Hch : Forall Wok ts) by (apply Forall_forall; intros t Ht; rewrite forallb_forall in Hall; apply (wok_all (wdepth t) t (le_n _) (Hall t Ht))).
      destruct (children_ok ts Hs Hch) as (_ & _ & S3 & _).
      apply in_text_item; [apply marker_ok_reflect; exact Hmk|exact S3|exact A|exact B|exact T].
    + cbn [wwf] in Hw. repeat rewrite andb_true_iff in Hw. destruct Hw as [[[[[[[[Hmk _] _] Hs] Hall] _] _] _] Hwn]. cbn [wdepth] in Hd.
      apply Forall_forall. intros x Hx. cbn [pw_lines] in Hx. cbn [to_f spell]. apply in_app_or in Hx as [Hx|Hx].
      * destruct (Kid f IH ts (mwidth mk pad) x f ltac:(lia) (le_n _) Hall Hx) as (y & -> & A & B & T).
        assert (Hch : Forall Wok ts) by (apply Forall_forall; intros t Ht; rewrite forallb_forall in Hall; apply (wok_all (wdepth t) t (le_n _) (Hall t Ht))).
        destruct (children_ok ts Hs Hch) as (_ & _ & S3 & _).
        apply in_text_app_l. apply in_text_item; [apply marker_ok_reflect; exact Hmk|exact S3|exact A|exact B|exact T].
      * apply in_text_app_r. apply in_text_app_r. pose proof (IHn ltac:(lia) Hwn) as F. rewrite Forall_forall in F. apply F. exact Hx.
Qed.

(* clause 3 on the text: every paragraph line of the reflowed tree stands in the written text behind a container prefix of known width,
   and together they fit the limit - or the line is that prefix and ONE word *)
Theorem reflow_long_lines L t : wwf t = true ->
  Forall (fun x => (exists p, len p = fst x /\ In (p ++ join SP (snd x)) (map bare (spell (to_f (reflow L t))))) /\
                   (fst x + len (join SP (snd x)) <= L \/ exists w, snd x = [w])) (pw_lines 0 (reflow L t)).
Proof.
  intros H. pose proof (wwf_reflow (wdepth t) t L (le_n _) H) as W.
  pose proof (pw_in_text_all (wdepth (reflow L t)) (reflow L t) (le_n _) W) as A. pose proof (reflow_fits L t H) as B.
  apply Forall_forall. intros x Hx. rewrite Forall_forall in A, B. split; [apply A; exact Hx|apply B; exact Hx].
Qed.

(* ---- normalize_whitespace=True: every list marker is followed by ONE space, the budget shrinks accordingly ---- *)
Fixpoint norm (t : wtree) : wtree :=
  match t with
  | WQuote ts => WQuote (map norm ts)
  | WItem mk pad ts => WItem mk 1 (map norm ts)
  | WMore mk pad ts bl next => WMore mk 1 (map norm ts) bl (norm next)
  | other => other
  end.

Lemma first_char_norm t : first_char (norm t) = first_char t.
Proof. destruct t; reflexivity. Qed.
Lemma is_item_norm t : w_is_item (norm t) = w_is_item t.
Proof. destruct t; reflexivity. Qed.
Lemma marker_norm t : w_marker (norm t) = w_marker t.
Proof. destruct t; reflexivity. Qed.
Lemma after_marker_norm mk ts : after_marker mk (map norm ts) = after_marker mk ts.
Proof. destruct mk as [b|]; [|reflexivity]. destruct ts as [|t r]; [reflexivity|]. cbn [map after_marker]. rewrite first_char_norm. reflexivity. Qed.

Lemma wwf_norm : forall f t, (wdepth t <= f)%nat -> wwf t = true -> wwf (norm t) = true.
Proof.
  assert (Kids : forall f, (forall t, (wdepth t <= f)%nat -> wwf t = true -> wwf (norm t) = true) ->
                 forall ts n, (S (fold_right (fun t m => Nat.max (wdepth t) m) 0%nat ts) <= S n)%nat -> (n <= f)%nat -> forallb wwf ts = true -> forallb wwf (map norm ts) = true).
  { intros f IH ts n Hd Hn Hall. apply forallb_forall. intros x Hx. apply in_map_iff in Hx as (t & <- & Ht). rewrite forallb_forall in Hall.
    apply IH; [pose proof (wdepth_children t ts n Ht Hd); lia|apply Hall; exact Ht]. }
  induction f as [|f IH].
  - intros t Hd Hw. destruct t as [gs|ch n content|lv c body|c n|ts|mk pad ts|mk pad ts bl next]; try (cbn [wdepth] in Hd; lia); exact Hw.
  - intros t. induction t as [gs|ch n content|lv c body|c n|ts|mk pad ts|mk pad ts bl next IHn]; intros Hd Hw; try exact Hw.
    + cbn [wwf norm] in *. apply andb_true_iff in Hw as [Hs Hall]. cbn [wdepth] in Hd.
      rewrite (wseq_reflow norm ts is_item_norm), Hs. apply (Kids f IH ts f Hd (le_n _) Hall).
    + cbn [wwf norm] in *. repeat rewrite andb_true_iff in Hw. destruct Hw as [[[[[Hmk _] _] Hs] Hall] Ham]. cbn [wdepth] in Hd.
      rewrite Hmk, (wseq_reflow norm ts is_item_norm), Hs, after_marker_norm, Ham, (Kids f IH ts f Hd (le_n _) Hall). reflexivity.
    + cbn [wwf norm] in *. repeat rewrite andb_true_iff in Hw. destruct Hw as [[[[[[[[Hmk _] _] Hs] Hall] Ham] Hin] Hk] Hwn]. cbn [wdepth] in Hd.
      rewrite Hmk, (wseq_reflow norm ts is_item_norm), Hs, after_marker_norm, Ham, (Kids f IH ts f ltac:(lia) (le_n _) Hall).
      rewrite is_item_norm, Hin, marker_norm, Hk, (IHn ltac:(lia) Hwn). reflexivity.
Qed.

Lemma wdepth_norm : forall t, wdepth (norm t) = wdepth t.
Proof.
  fix IH 1. intros t. destruct t as [gs|ch n content|lv c body|c n|ts|mk pad ts|mk pad ts bl next]; try reflexivity; cbn [norm wdepth].
  - f_equal. induction ts as [|x r IHr]; [reflexivity|]. cbn [map fold_right]. rewrite IH, IHr. reflexivity.
  - f_equal. induction ts as [|x r IHr]; [reflexivity|]. cbn [map fold_right]. rewrite IH, IHr. reflexivity.
  - rewrite IH. f_equal. f_equal. induction ts as [|x r IHr]; [reflexivity|]. cbn [map fold_right]. rewrite IH, IHr. reflexivity.
Qed.

Section RLNorm.
  Let o := mkMopts true.

  (* a list item written with normalize_whitespace: the marker, one space, the blocks behind them *)
  Lemma item_render_norm L mk pad0 chtoks inner lo (blank : bool) : marker_ok mk -> good_b inner = true ->
    flat_map (block_lines o (Some (L - mwidth mk 1))) chtoks = map bare inner ->
    block_lines o (Some L) (ListItem (mkItem (marker_str mk) 0 (Z.of_nat (length (marker_str mk) + pad0)) lo) (chtoks ++ (if blank then [BlankLine] else []))) =
    map bare (item_lines mk 1 inner) ++ (if blank then [[]] else []).
  Proof.
    intros Hmk Hg E.
    destruct (good_lines _ Hg) as (c0 & body0 & rest & El & Hc0 & _ & _ & _ & _ & _).
    destruct (marker_first mk Hmk) as (m0 & mr & Em & Hm0).
    cbn [block_lines sub_opt normalize_ws i_prepend i_indentation i_leader]. unfold o. cbn [normalize_ws].
    unfold mwidth, o in E. replace (len (marker_str mk) + 1) with (Z.of_nat (length (marker_str mk) + 1)) by (unfold len; lia).
    rewrite flat_map_app, E, El.
    assert (Eb : flat_map (block_lines (mkMopts true) (Some (L - Z.of_nat (length (marker_str mk) + 1)))) (if blank then [BlankLine] else []) = map bare (if blank then [SBlank] else [])) by (destruct blank; reflexivity).
    rewrite Eb, <- map_app. cbn [map or_blank bare repeat app].
    unfold item_lines. rewrite Em.
    set (w := (length (m0 :: mr) + 1)%nat).
    assert (Ew : spaces (Z.of_nat w) = repeat 32 w) by (unfold spaces; rewrite Nat2Z.id; reflexivity).
    assert (Ep : spaces (Z.of_nat w - len (m0 :: mr) - 0) = repeat 32 1) by (unfold spaces, len, w; f_equal; lia).
    unfold prefix_lines. rewrite Ew. destruct w as [|w'] eqn:Ew0; [unfold w in Ew0; cbn [length] in Ew0; lia|].
    cbn [repeat prefix_from]. change (32 :: repeat 32 w') with (repeat 32 (S w')).
    rewrite (prefix_from_false_embed _ (S w') (rest ++ if blank then [SBlank] else []) (Nat.lt_0_succ _)).
    rewrite Ep. cbn [spaces Z.to_nat repeat app map bare nonempty orb].
    rewrite !map_app. destruct blank; cbn [map embed_s bare]; rewrite <- ?app_assoc; cbn [app]; rewrite ?app_nil_r; reflexivity.
  Qed.
End RLNorm.

Section RLNormAll.
  Let o := mkMopts true.

  Lemma leaf_any_opts o1 o2 L t : match t with Paragraph _ | Heading _ _ _ | CodeFence _ | ThematicBreak _ => True | _ => False end ->
    block_lines o1 L t = block_lines o2 L t.
  Proof. destruct t; intros H; try contradiction; reflexivity. Qed.

  Definition RLN (L : Z) (t : wtree) : Prop := block_lines o (Some L) (tok_of true (to_f t)) = map bare (spell (to_f (reflow L (norm t)))).

  Lemma rln_seq L ts ts' : Forall2 (fun t t' => block_lines o (Some L) (tok_of true t) = map bare (spell t')) ts ts' -> ts <> [] ->
    flat_map (block_lines o (Some L)) (tok_seq true ts) = map bare (join_blank (map spell ts')).
  Proof.
    intros H Hne. rewrite bare_join.
    assert (G : forall ts ts', Forall2 (fun t t' => block_lines o (Some L) (tok_of true t) = map bare (spell t')) ts ts' ->
                flat_map (fun y => [] :: block_lines o (Some L) (tok_of true y)) ts = flat_map (fun y => [] :: map bare y) (map spell ts')).
    { induction 1 as [|t t' r r' E _ IH]; [reflexivity|]. cbn [flat_map map]. rewrite E, IH. reflexivity. }
    destruct H as [|t t' r r' E Hr]; [contradiction|]. cbn [map].
    assert (F : forall r0, flat_map (block_lines o (Some L)) (match r0 with [] => [] | _ => blank_tok true ++ tok_seq true r0 end) =
                           flat_map (fun y => [] :: block_lines o (Some L) (tok_of true y)) r0).
    { induction r0 as [|y r0 IH]; [reflexivity|]. cbn [blank_tok app flat_map block_lines tok_seq]. f_equal. f_equal. exact IH. }
    change (tok_seq true (t :: r)) with (tok_of true t :: match r with [] => [] | _ => blank_tok true ++ tok_seq true r end).
    cbn [flat_map]. rewrite E. f_equal. rewrite F. apply G. exact Hr.
  Qed.

  Lemma nkids_render L ts : ts <> [] -> Forall (RLN L) ts ->
    flat_map (block_lines o (Some L)) (tok_seq true (map to_f ts)) = map bare (join_blank (map spell (map to_f (map (reflow L) (map norm ts))))).
  Proof.
    intros Hne H. apply rln_seq; [|destruct ts; [contradiction|discriminate]].
    induction H as [|t r E _ IH]; [constructor|]. cbn [map]. constructor; [exact E|]. destruct r; [constructor|]. apply IH. discriminate.
  Qed.

  Lemma nkids_good L ts : wseq_ok ts = true -> forallb wwf ts = true ->
    good_b (join_blank (map spell (map to_f (map (reflow L) (map norm ts))))) = true.
  Proof.
    intros Hs Hall. apply kids_good.
    - rewrite (wseq_reflow norm ts is_item_norm). exact Hs.
    - apply forallb_forall. intros x Hx. apply in_map_iff in Hx as (t & <- & Ht). rewrite forallb_forall in Hall. apply (wwf_norm (wdepth t) t (le_n _) (Hall t Ht)).
  Qed.

  Lemma rln_all : forall f t L, (wdepth t <= f)%nat -> wwf t = true -> RLN L t.
  Proof.
    assert (Leaf : forall t L, match t with WQuote _ | WItem _ _ _ | WMore _ _ _ _ _ => false | _ => true end = true -> wwf t = true -> RLN L t).
    { intros t L Hl Hw. unfold RLN. assert (En : norm t = t) by (destruct t; try discriminate; reflexivity). rewrite En.
      rewrite <- (rl_all (wdepth t) t L (le_n _) Hw). unfold o. apply leaf_any_opts.
      destruct t as [gs|ch n content|lv c body|c n|ts|mk pad ts|mk pad ts bl next]; try discriminate; cbn [to_f tok_of]; try exact I.
      unfold para_f. destruct (map (join SP) gs) as [|[|? ?] ?]; exact I. }
    assert (Kids : forall f, (forall t L, (wdepth t <= f)%nat -> wwf t = true -> RLN L t) ->
                   forall ts L n, (S (fold_right (fun t m => Nat.max (wdepth t) m) 0%nat ts) <= S n)%nat -> (n <= f)%nat -> forallb wwf ts = true -> Forall (RLN L) ts).
    { intros f IH ts L n Hd Hn Hall. apply Forall_forall. intros t Ht. rewrite forallb_forall in Hall.
      apply IH; [pose proof (wdepth_children t ts n Ht Hd); lia|apply Hall; exact Ht]. }
    induction f as [|f IH].
    - intros t L Hd Hw. destruct t as [gs|ch n content|lv c body|c n|ts|mk pad ts|mk pad ts bl next]; try (cbn [wdepth] in Hd; lia); (apply Leaf; [reflexivity|exact Hw]).
    - intros t. induction t as [gs|ch n content|lv c body|c n|ts|mk pad ts|mk pad ts bl next IHn]; intros L Hd Hw; try (apply Leaf; [reflexivity|exact Hw]).
      + cbn [wwf] in Hw. apply andb_true_iff in Hw as [Hs Hall]. cbn [wdepth] in Hd.
        assert (Hne : ts <> []) by (destruct ts; [discriminate|discriminate]).
        pose proof (nkids_render (L - 2) ts Hne (Kids f IH ts (L - 2) f Hd (le_n _) Hall)) as E. unfold o in E.
        unfold RLN. cbn [to_f norm reflow tok_of block_lines sub_opt spell].
        change ((fix seq (ts0 : list ftree) : list tok := match ts0 with [] => [] | t :: r => tok_of true t :: match r with [] => [] | _ :: _ => blank_tok true ++ seq r end end) (map to_f ts)) with (tok_seq true (map to_f ts)).
        unfold o. rewrite E. apply prefix_quote.
      + cbn [wwf] in Hw. repeat rewrite andb_true_iff in Hw. destruct Hw as [[[[[Hmk Hp1] Hp4] Hs] Hall] Ham]. cbn [wdepth] in Hd.
        assert (Hne : ts <> []) by (destruct ts; [discriminate|discriminate]).
        pose proof (nkids_render (L - mwidth mk 1) ts Hne (Kids f IH ts _ f Hd (le_n _) Hall)) as E.
        unfold RLN. cbn [to_f norm reflow tok_of spell].
        change ((fix seq (ts0 : list ftree) : list tok := match ts0 with [] => [] | t :: r => tok_of true t :: match r with [] => [] | _ :: _ => blank_tok true ++ seq r end end) (map to_f ts)) with (tok_seq true (map to_f ts)).
        pose proof (item_render_norm L mk pad (tok_seq true (map to_f ts)) _ (negb true && (1 <? Z.of_nat (length (map to_f ts)))) false
                      (marker_ok_reflect mk Hmk) (nkids_good _ ts Hs Hall) E) as RI. rewrite !app_nil_r in RI.
        cbn [block_lines flat_map]. rewrite app_nil_r. exact RI.
      + cbn [wwf] in Hw. repeat rewrite andb_true_iff in Hw. destruct Hw as [[[[[[[[Hmk Hp1] Hp4] Hs] Hall] Ham] Hin] Hk] Hwn]. cbn [wdepth] in Hd.
        assert (Hne : ts <> []) by (destruct ts; [discriminate|discriminate]).
        assert (Hd' : (S (fold_right (fun t m => Nat.max (wdepth t) m) 0%nat ts) <= S f)%nat) by lia.
        pose proof (nkids_render (L - mwidth mk 1) ts Hne (Kids f IH ts _ f Hd' (le_n _) Hall)) as E.
        specialize (IHn L ltac:(lia) Hwn). unfold RLN in IHn |- *.
        destruct (wok_all (wdepth next) next (le_n _) Hwn) as (Wn & _ & _).
        assert (Hin' : is_item (to_f next) = true) by (rewrite is_item_to_f; exact Hin).
        destruct (tok_of_chain_is_list true (to_f next) Hin' Wn) as (s2 & lo2 & items & E2).
        cbn [to_f norm reflow tok_of spell]. rewrite E2 in *.
        change ((fix seq (ts0 : list ftree) : list tok := match ts0 with [] => [] | t :: r => tok_of true t :: match r with [] => [] | _ :: _ => blank_tok true ++ seq r end end) (map to_f ts)) with (tok_seq true (map to_f ts)).
        pose proof (item_render_norm L mk pad (tok_seq true (map to_f ts)) _ (if bl then negb true else negb true && (1 <? Z.of_nat (length (map to_f ts)))) bl
                      (marker_ok_reflect mk Hmk) (nkids_good _ ts Hs Hall) E) as RI. cbn [blank_tok].
        match goal with |- block_lines ?oo (Some L) (List ?s ?l (?x :: items)) = _ =>
          change (block_lines oo (Some L) (List s l (x :: items))) with (block_lines o (Some L) x ++ block_lines o (Some L) (List s2 lo2 items)) end.
        unfold o. rewrite RI. unfold o in IHn. rewrite IHn. rewrite !map_app. destruct bl; cbn [map bare app]; rewrite <- ?app_assoc; reflexivity.
  Qed.
End RLNormAll.

(* MarkdownRenderer(max_line_length=L, normalize_whitespace=True): the text of the tree with every marker followed by one space, reflowed *)
Theorem reflow_renders_normalized L t : wwf t = true ->
  block_lines (mkMopts true) (Some L) (tok_of true (to_f t)) = map bare (spell (to_f (reflow L (norm t)))) /\
  wwf (reflow L (norm t)) = true /\ wf_b (to_f (reflow L (norm t))) = true.
Proof.
  intros H. split; [apply (rln_all (wdepth t) t L (le_n _) H)|].
  pose proof (wwf_norm (wdepth t) t (le_n _) H) as Wn. apply (reflow_in_fragment L (norm t) Wn).
Qed.

(* the padding of a marker is not seen in the HTML *)
Lemma is_fpara_norm t : is_fpara (to_f (norm t)) = is_fpara (to_f t).
Proof. destruct t; reflexivity. Qed.
Lemma first_fpara_norm ts : first_fpara (map to_f (map norm ts)) = first_fpara (map to_f ts).
Proof. destruct ts as [|t r]; [reflexivity|]. cbn [map first_fpara]. apply is_fpara_norm. Qed.
Lemma last_fpara_norm ts : last_fpara (map to_f (map norm ts)) = last_fpara (map to_f ts).
Proof. unfold last_fpara. rewrite <- !map_rev. destruct (rev ts) as [|t r]; [reflexivity|]. cbn [map]. apply is_fpara_norm. Qed.
Lemma chain_loose_norm t : chain_loose (to_f (norm t)) = chain_loose (to_f t).
Proof.
  induction t as [gs|ch n content|lv c body|c n|ts|mk pad ts|mk pad ts bl next IHn]; try reflexivity.
  - cbn [to_f norm chain_loose]. rewrite !map_length. reflexivity.
  - cbn [to_f norm chain_loose]. rewrite !map_length, IHn. reflexivity.
Qed.

Definition HN (t : wtree) : Prop := forall o b, html_f o b (to_f (norm t)) = html_f o b (to_f t) /\ html_lis o b (to_f (norm t)) = html_lis o b (to_f t).

Lemma html_norm_all : forall f t, (wdepth t <= f)%nat -> HN t.
Proof.
  assert (Kids : forall f, (forall t, (wdepth t <= f)%nat -> HN t) ->
                 forall ts o b n, (S (fold_right (fun t m => Nat.max (wdepth t) m) 0%nat ts) <= S n)%nat -> (n <= f)%nat ->
                 map (html_f o b) (map to_f (map norm ts)) = map (html_f o b) (map to_f ts)).
  { intros f IH ts o b n Hd Hn. rewrite !map_map. apply map_ext_in. intros t Ht. apply (IH t ltac:(pose proof (wdepth_children t ts n Ht Hd); lia) o b). }
  induction f as [|f IH].
  - intros t Hd. destruct t as [gs|ch n content|lv c body|c n|ts|mk pad ts|mk pad ts bl next]; try (cbn [wdepth] in Hd; lia); intros o b; split; reflexivity.
  - intros t. induction t as [gs|ch n content|lv c body|c n|ts|mk pad ts|mk pad ts bl next IHn]; intros Hd; try (intros o b; split; reflexivity).
    + cbn [wdepth] in Hd. intros o b. cbn [to_f norm html_f html_lis]. split; [|reflexivity]. rewrite (Kids f IH ts o false f Hd (le_n _)). reflexivity.
    + cbn [wdepth] in Hd. intros o b. cbn [to_f norm html_f html_lis]. rewrite !map_length, first_fpara_norm, last_fpara_norm. split.
      * rewrite (Kids f IH ts o _ f Hd (le_n _)). reflexivity.
      * rewrite (Kids f IH ts o _ f Hd (le_n _)). reflexivity.
    + cbn [wdepth] in Hd. intros o b. cbn [to_f norm html_f html_lis]. rewrite !map_length, first_fpara_norm, last_fpara_norm, chain_loose_norm.
      specialize (IHn ltac:(lia)). split.
      * rewrite (Kids f IH ts o _ f ltac:(lia) (le_n _)). destruct (IHn o (negb (bl || (1 <? Z.of_nat (length ts)) || chain_loose (to_f next)))) as [_ E2]. rewrite E2. reflexivity.
      * rewrite (Kids f IH ts o _ f ltac:(lia) (le_n _)). destruct (IHn o b) as [_ E2]. rewrite E2. reflexivity.
Qed.

Theorem normalized_same_html o L t : wwf t = true -> unl (html_f o false (to_f (reflow L (norm t)))) = unl (html_f o false (to_f t)).
Proof.
  intros H. rewrite (reflow_same_html o L (norm t) (wwf_norm (wdepth t) t (le_n _) H)).
  destruct (html_norm_all (wdepth t) t (le_n _) o false) as [E _]. rewrite E. reflexivity.
Qed.

(* ---- normalize_whitespace=True WITHOUT a line limit (C09): the renderer writes norm t ---- *)
Section RNone.
  Let o := mkMopts true.

  Lemma item_render_norm_none mk pad0 chtoks inner lo (blank : bool) : marker_ok mk -> good_b inner = true ->
    flat_map (block_lines o None) chtoks = map bare inner ->
    block_lines o None (ListItem (mkItem (marker_str mk) 0 (Z.of_nat (length (marker_str mk) + pad0)) lo) (chtoks ++ (if blank then [BlankLine] else []))) =
    map bare (item_lines mk 1 inner) ++ (if blank then [[]] else []).
  Proof.
    intros Hmk Hg E.
    destruct (good_lines _ Hg) as (c0 & body0 & rest & El & Hc0 & _ & _ & _ & _ & _).
    destruct (marker_first mk Hmk) as (m0 & mr & Em & Hm0).
    cbn [block_lines sub_opt normalize_ws i_prepend i_indentation i_leader]. unfold o. cbn [normalize_ws].
    unfold o in E. replace (len (marker_str mk) + 1) with (Z.of_nat (length (marker_str mk) + 1)) by (unfold len; lia).
    rewrite flat_map_app, E, El.
    assert (Eb : flat_map (block_lines (mkMopts true) None) (if blank then [BlankLine] else []) = map bare (if blank then [SBlank] else [])) by (destruct blank; reflexivity).
    rewrite Eb, <- map_app. cbn [map or_blank bare repeat app].
    unfold item_lines. rewrite Em.
    set (w := (length (m0 :: mr) + 1)%nat).
    assert (Ew : spaces (Z.of_nat w) = repeat 32 w) by (unfold spaces; rewrite Nat2Z.id; reflexivity).
    assert (Ep : spaces (Z.of_nat w - len (m0 :: mr) - 0) = repeat 32 1) by (unfold spaces, len, w; f_equal; lia).
    unfold prefix_lines. rewrite Ew. destruct w as [|w'] eqn:Ew0; [unfold w in Ew0; cbn [length] in Ew0; lia|].
    cbn [repeat prefix_from]. change (32 :: repeat 32 w') with (repeat 32 (S w')).
    rewrite (prefix_from_false_embed _ (S w') (rest ++ if blank then [SBlank] else []) (Nat.lt_0_succ _)).
    rewrite Ep. cbn [spaces Z.to_nat repeat app map bare nonempty orb].
    rewrite !map_app. destruct blank; cbn [map embed_s bare]; rewrite <- ?app_assoc; cbn [app]; rewrite ?app_nil_r; reflexivity.
  Qed.

  Definition RN (t : wtree) : Prop := block_lines o None (tok_of true (to_f t)) = map bare (spell (to_f (norm t))).

  Lemma rn_seq ts ts' : Forall2 (fun t t' => block_lines o None (tok_of true t) = map bare (spell t')) ts ts' -> ts <> [] ->
    flat_map (block_lines o None) (tok_seq true ts) = map bare (join_blank (map spell ts')).
  Proof.
    intros H Hne. rewrite bare_join.
    assert (G : forall ts ts', Forall2 (fun t t' => block_lines o None (tok_of true t) = map bare (spell t')) ts ts' ->
                flat_map (fun y => [] :: block_lines o None (tok_of true y)) ts = flat_map (fun y => [] :: map bare y) (map spell ts')).
    { induction 1 as [|t t' r r' E _ IH]; [reflexivity|]. cbn [flat_map map]. rewrite E, IH. reflexivity. }
    destruct H as [|t t' r r' E Hr]; [contradiction|]. cbn [map].
    assert (F : forall r0, flat_map (block_lines o None) (match r0 with [] => [] | _ => blank_tok true ++ tok_seq true r0 end) =
                           flat_map (fun y => [] :: block_lines o None (tok_of true y)) r0).
    { induction r0 as [|y r0 IH]; [reflexivity|]. cbn [blank_tok app flat_map block_lines tok_seq]. f_equal. f_equal. exact IH. }
    change (tok_seq true (t :: r)) with (tok_of true t :: match r with [] => [] | _ => blank_tok true ++ tok_seq true r end).
    cbn [flat_map]. rewrite E. f_equal. rewrite F. apply G. exact Hr.
  Qed.

  Lemma rnkids_render ts : ts <> [] -> Forall RN ts ->
    flat_map (block_lines o None) (tok_seq true (map to_f ts)) = map bare (join_blank (map spell (map to_f (map norm ts)))).
  Proof.
    intros Hne H. apply rn_seq; [|destruct ts; [contradiction|discriminate]].
    induction H as [|t r E _ IH]; [constructor|]. cbn [map]. constructor; [exact E|]. destruct r; [constructor|]. apply IH. discriminate.
  Qed.

  Lemma rnkids_good ts : wseq_ok ts = true -> forallb wwf ts = true -> good_b (join_blank (map spell (map to_f (map norm ts)))) = true.
  Proof.
    intros Hs Hall.
    assert (Hch : Forall Wok (map norm ts)).
    { apply Forall_forall. intros x Hx. apply in_map_iff in Hx as (t & <- & Ht). rewrite forallb_forall in Hall.
      pose proof (wwf_norm (wdepth t) t (le_n _) (Hall t Ht)) as W. apply (wok_all (wdepth (norm t)) _ (le_n _) W). }
    assert (Hs' : wseq_ok (map norm ts) = true) by (rewrite (wseq_reflow norm ts is_item_norm); exact Hs).
    apply (children_ok _ Hs' Hch).
  Qed.

  Lemma rn_all : forall f t, (wdepth t <= f)%nat -> wwf t = true -> RN t.
  Proof.
    assert (Leaf : forall t, match t with WQuote _ | WItem _ _ _ | WMore _ _ _ _ _ => false | _ => true end = true -> wwf t = true -> RN t).
    { intros t Hl Hw. unfold RN. assert (En : norm t = t) by (destruct t; try discriminate; reflexivity). rewrite En.
      pose proof (wwf_fragment t Hw) as Wf. pose proof (rt_all (depth (to_f t)) (to_f t) (le_n _) Wf) as R. unfold RT, md_lines in R. rewrite <- R.
      unfold o. apply leaf_any_opts.
      destruct t as [gs|ch n content|lv c body|c n|ts|mk pad ts|mk pad ts bl next]; try discriminate; cbn [to_f tok_of]; try exact I.
      unfold para_f. destruct (map (join SP) gs) as [|[|? ?] ?]; exact I. }
    assert (Kids : forall f, (forall t, (wdepth t <= f)%nat -> wwf t = true -> RN t) ->
                   forall ts n, (S (fold_right (fun t m => Nat.max (wdepth t) m) 0%nat ts) <= S n)%nat -> (n <= f)%nat -> forallb wwf ts = true -> Forall RN ts).
    { intros f IH ts n Hd Hn Hall. apply Forall_forall. intros t Ht. rewrite forallb_forall in Hall.
      apply IH; [pose proof (wdepth_children t ts n Ht Hd); lia|apply Hall; exact Ht]. }
    induction f as [|f IH].
    - intros t Hd Hw. destruct t as [gs|ch n content|lv c body|c n|ts|mk pad ts|mk pad ts bl next]; try (cbn [wdepth] in Hd; lia); (apply Leaf; [reflexivity|exact Hw]).
    - intros t. induction t as [gs|ch n content|lv c body|c n|ts|mk pad ts|mk pad ts bl next IHn]; intros Hd Hw; try (apply Leaf; [reflexivity|exact Hw]).
      + cbn [wwf] in Hw. apply andb_true_iff in Hw as [Hs Hall]. cbn [wdepth] in Hd.
        assert (Hne : ts <> []) by (destruct ts; [discriminate|discriminate]).
        pose proof (rnkids_render ts Hne (Kids f IH ts f Hd (le_n _) Hall)) as E. unfold o in E.
        unfold RN. cbn [to_f norm tok_of block_lines sub_opt spell].
        change ((fix seq (ts0 : list ftree) : list tok := match ts0 with [] => [] | t :: r => tok_of true t :: match r with [] => [] | _ :: _ => blank_tok true ++ seq r end end) (map to_f ts)) with (tok_seq true (map to_f ts)).
        unfold o. rewrite E. apply prefix_quote.
      + cbn [wwf] in Hw. repeat rewrite andb_true_iff in Hw. destruct Hw as [[[[[Hmk Hp1] Hp4] Hs] Hall] Ham]. cbn [wdepth] in Hd.
        assert (Hne : ts <> []) by (destruct ts; [discriminate|discriminate]).
        pose proof (rnkids_render ts Hne (Kids f IH ts f Hd (le_n _) Hall)) as E.
        unfold RN. cbn [to_f norm tok_of spell].
        change ((fix seq (ts0 : list ftree) : list tok := match ts0 with [] => [] | t :: r => tok_of true t :: match r with [] => [] | _ :: _ => blank_tok true ++ seq r end end) (map to_f ts)) with (tok_seq true (map to_f ts)).
        pose proof (item_render_norm_none mk pad (tok_seq true (map to_f ts)) _ (negb true && (1 <? Z.of_nat (length (map to_f ts)))) false
                      (marker_ok_reflect mk Hmk) (rnkids_good ts Hs Hall) E) as RI. rewrite !app_nil_r in RI.
        cbn [block_lines flat_map]. rewrite app_nil_r. exact RI.
      + cbn [wwf] in Hw. repeat rewrite andb_true_iff in Hw. destruct Hw as [[[[[[[[Hmk Hp1] Hp4] Hs] Hall] Ham] Hin] Hk] Hwn]. cbn [wdepth] in Hd.
        assert (Hne : ts <> []) by (destruct ts; [discriminate|discriminate]).
        assert (Hd' : (S (fold_right (fun t m => Nat.max (wdepth t) m) 0%nat ts) <= S f)%nat) by lia.
        pose proof (rnkids_render ts Hne (Kids f IH ts f Hd' (le_n _) Hall)) as E.
        specialize (IHn ltac:(lia) Hwn). unfold RN in IHn |- *.
        destruct (wok_all (wdepth next) next (le_n _) Hwn) as (Wn & _ & _).
        assert (Hin' : is_item (to_f next) = true) by (rewrite is_item_to_f; exact Hin).
        destruct (tok_of_chain_is_list true (to_f next) Hin' Wn) as (s2 & lo2 & items & E2).
        cbn [to_f norm tok_of spell]. rewrite E2 in *.
        change ((fix seq (ts0 : list ftree) : list tok := match ts0 with [] => [] | t :: r => tok_of true t :: match r with [] => [] | _ :: _ => blank_tok true ++ seq r end end) (map to_f ts)) with (tok_seq true (map to_f ts)).
        pose proof (item_render_norm_none mk pad (tok_seq true (map to_f ts)) _ (if bl then negb true else negb true && (1 <? Z.of_nat (length (map to_f ts)))) bl
                      (marker_ok_reflect mk Hmk) (rnkids_good ts Hs Hall) E) as RI. cbn [blank_tok].
        match goal with |- block_lines ?oo None (List ?s ?l (?x :: items)) = _ =>
          change (block_lines oo None (List s l (x :: items))) with (block_lines o None x ++ block_lines o None (List s2 lo2 items)) end.
        rewrite RI, IHn. rewrite !map_app. destruct bl; cbn [map bare app]; rewrite <- ?app_assoc; reflexivity.
  Qed.
End RNone.

Lemma norm_twice : forall f t, (wdepth t <= f)%nat -> norm (norm t) = norm t.
Proof.
  assert (Kids : forall f, (forall t, (wdepth t <= f)%nat -> norm (norm t) = norm t) ->
                 forall ts n, (S (fold_right (fun t m => Nat.max (wdepth t) m) 0%nat ts) <= S n)%nat -> (n <= f)%nat -> map norm (map norm ts) = map norm ts).
  { intros f IH ts n Hd Hn. rewrite map_map. apply map_ext_in. intros t Ht. apply IH. pose proof (wdepth_children t ts n Ht Hd). lia. }
  induction f as [|f IH].
  - intros t Hd. destruct t; try (cbn [wdepth] in Hd; lia); reflexivity.
  - intros t. induction t as [gs|ch n content|lv c body|c n|ts|mk pad ts|mk pad ts bl next IHn]; intros Hd; try reflexivity; cbn [wdepth] in Hd; cbn [norm].
    + rewrite (Kids f IH ts f Hd (le_n _)). reflexivity.
    + rewrite (Kids f IH ts f Hd (le_n _)). reflexivity.
    + rewrite (Kids f IH ts f ltac:(lia) (le_n _)), (IHn ltac:(lia)). reflexivity.
Qed.

(* MarkdownRenderer(normalize_whitespace=True), no line limit: the text of norm t, a tree of the fragment with the SAME HTML; normalizing
   again changes nothing *)
Theorem normalize_round_trip o t : wwf t = true ->
  render_md (mkMopts true) None (fst (fst (parse_lines cfg_markdown (text_of (spell (to_f t)))))) = concat (text_of (spell (to_f (norm t)))) /\
  wwf (norm t) = true /\ wf_b (to_f (norm t)) = true /\ html_f o false (to_f (norm t)) = html_f o false (to_f t) /\ norm (norm t) = norm t.
Proof.
  intros H. pose proof (wwf_norm (wdepth t) t (le_n _) H) as Wn. split; [|split; [exact Wn|split; [apply wwf_fragment; exact Wn|split]]].
  - rewrite (fragment_document_markdown (to_f t) (wwf_fragment t H)). unfold render_md. cbn [is_block block_lines flat_map]. rewrite app_nil_r.
    rewrite (rn_all (wdepth t) t (le_n _) H). apply render_lines_bare.
  - apply (html_norm_all (wdepth t) t (le_n _) o false).
  - apply (norm_twice (wdepth t) t (le_n _)).
Qed.
