(* C04, lists: putting a list marker and 1-4 spaces before the first line of a text and
   the marker's width in spaces before every other non-empty line makes the block tokenizer
   return exactly one list with one item whose content is the tokenization of the text.
   Unbounded: every marker (+ - * and 1-9 digits followed by . or )), every padding 1-4,
   every list of structured tab-free lines (blank lines empty, last line not blank), every
   fuel.  The three list patterns regenerated from /repo enter by their exact shape
   (reflexivity lemmas) and are evaluated with the lemmas of Proofs/ReExact.v. *)
From Coq Require Import ZArith List Bool Lia.
From Mistletoe Require Import Base.Sx Base.PyStr Base.PyText Gen.GenTables Gen.GenRegex Gen.GenConfig Re.ReMatch
     Model.CoreTokens Model.Block Proofs.ReFirst Proofs.ReExact.
Import ListNotations.
Local Open Scope Z_scope.

(* ---- small facts ---- *)
Lemma expandtabs_notab s : mem 9 s = false -> forall col, expandtabs_aux col s = s.
Proof.
  induction s as [|c s IH]; intros H col; [reflexivity|].
  unfold mem in H. cbn [existsb] in H. apply orb_false_iff in H as [Hc Hs].
  cbn [expandtabs_aux]. rewrite Z.eqb_sym, Hc. destruct ((c =? 10) || (c =? 13)); rewrite IH by exact Hs; reflexivity.
Qed.

Lemma mem_repeat c d n : c <> d -> mem c (repeat d n) = false.
Proof. intros H. induction n as [|n IH]; [reflexivity|]. unfold mem in *. cbn [repeat existsb]. rewrite IH, orb_false_r. apply Z.eqb_neq. exact H. Qed.

Lemma forallb_repeat {A} (f : A -> bool) x n : f x = true -> forallb f (repeat x n) = true.
Proof. intros H. induction n as [|n IH]; [reflexivity|]. cbn [repeat forallb]. rewrite H, IH. reflexivity. Qed.

Lemma slen_app a b : slen (a ++ b) = slen a + slen b.
Proof. unfold slen. rewrite app_length. lia. Qed.
Lemma slen_repeat c n : slen (repeat c n) = Z.of_nat n.
Proof. unfold slen. rewrite repeat_length. reflexivity. Qed.
Lemma slen_cons c s : slen (c :: s) = 1 + slen s.
Proof. unfold slen. cbn [length]. lia. Qed.

(* ---- the shapes of the three patterns ---- *)
Definition SPTAB : re := Set_ false [CLit 32; CLit 9].
Lemma cont_shape :
  re_block_token_ListItem_continuation_pattern =
  Seq (Grp 1 (Rep true 0 None SPTAB))
      (Grp 2 (Alt (Seq (Set_ true [CLit 32; CLit 9; CLit 10]) (Seq (Rep true 0 None Any) (Lit 10))) (Lit 10))) /\
  fl_block_token_ListItem_continuation_pattern = mkFlags false false.
Proof. split; reflexivity. Qed.

(* a structured line: k spaces, a first character that is not space, tab or newline, a body without newline, the newline *)
Definition line_of (k : nat) (c : Z) (body : str) : str := repeat 32 k ++ c :: body ++ [10].
Definition first_ok (c : Z) : bool := negb ((c =? 32) || (c =? 9) || (c =? 10)).

(* ---- ListItem.parse_continuation on a structured line ---- *)
Lemma cont_match n c body :
  first_ok c = true -> mem 10 body = false ->
  let line := line_of n c body in
  exists res,
    rmatch re_block_token_ListItem_continuation_pattern fl_block_token_ListItem_continuation_pattern line = Some res /\
    bef res = rev line /\ pos res = slen line /\
    lookup_grp 1 (grp res) = Some (0, Z.of_nat n) /\ lookup_grp 2 (grp res) = Some (Z.of_nat n, slen line).
Proof.
  intros Hc Hb line. destruct cont_shape as [Sh Fl]. unfold rmatch, match_here, start_at. rewrite Sh, Fl.
  cbn [bef aft pos length Z.of_nat]. set (fl := mkFlags false false). set (s0 := mkMst [] line 0 []).
  assert (E32 : (c =? 32) = false /\ (c =? 9) = false /\ (c =? 10) = false).
  { unfold first_ok in Hc. apply negb_true_iff in Hc. apply orb_false_iff in Hc as [Hc H10]. apply orb_false_iff in Hc as [H32 H9]. auto. }
  destruct E32 as (H32 & H9 & H10).
  eexists. split.
  - rewrite m_seq, m_grp.
    (* group 1: the greedy run of spaces *)
    eapply (m_greedy fl SPTAB 0 None s0 _ _ (repeat 32 n) (c :: body ++ [10])).
    + reflexivity.
    + cbn [stops char_ok SPTAB existsb citem_match xorb]. rewrite H32, H9. reflexivity.
    + reflexivity.
    + apply forallb_repeat. reflexivity.
    + lia.
    + discriminate.
    + (* group 2, first alternative: the first character, then .* up to the newline *)
      set (s1 := set_grp 1 (pos s0) (pos (adv_run s0 (repeat 32 n) (c :: body ++ [10]))) (adv_run s0 (repeat 32 n) (c :: body ++ [10]))).
      rewrite m_grp, m_alt, m_seq.
      rewrite (m_char fl (Set_ true [CLit 32; CLit 9; CLit 10]) s1 c (body ++ [10]) _ eq_refl eq_refl).
      assert (Ec : char_ok fl (Set_ true [CLit 32; CLit 9; CLit 10]) c = true).
      { cbn [char_ok existsb citem_match]. rewrite H32, H9, H10. reflexivity. }
      rewrite Ec. rewrite m_seq.
      set (s2 := advance s1 c (body ++ [10])).
      erewrite (m_greedy fl Any 0 None s2 _ _ body [10]); [reflexivity|reflexivity|reflexivity|reflexivity| |lia|discriminate|].
      * apply forallb_forall. intros x Hx. cbn [char_ok]. cbn [dotall fl orb].
        destruct (x =? 10) eqn:E; [|reflexivity]. apply Z.eqb_eq in E. subst x.
        assert (mem 10 body = true) by (unfold mem; apply existsb_exists; exists 10; split; [exact Hx|reflexivity]). congruence.
      * set (s3 := adv_run s2 body [10]).
        rewrite (m_char fl (Lit 10) s3 10 [] _ eq_refl eq_refl). cbn [char_ok Z.eqb Pos.eqb orelse]. reflexivity.
  - (* what the final state holds *)
    cbn [set_grp advance adv_run bef aft pos grp lookup_grp Nat.eqb]. subst s0. cbn [bef pos].
    unfold line, line_of.
    assert (L : slen (repeat 32 n ++ c :: body ++ [10]) = Z.of_nat n + 1 + slen body + 1).
    { unfold slen. rewrite app_length, repeat_length. cbn [length]. rewrite app_length. cbn [length]. lia. }
    rewrite L, slen_repeat. repeat split.
    + rewrite rev_app_distr. cbn [rev]. rewrite rev_app_distr. cbn [rev app]. rewrite <- !app_assoc. cbn [app]. rewrite app_nil_r. reflexivity.
Qed.

Lemma skipn_repeat_app {A} (x : A) n l : skipn n (repeat x n ++ l) = l.
Proof. induction n; [reflexivity|exact IHn]. Qed.
Lemma firstn_repeat_app {A} (x : A) n l : firstn n (repeat x n ++ l) = repeat x n.
Proof. induction n; [reflexivity|cbn; f_equal; exact IHn]. Qed.

Lemma firstn_skipn_mid {A} (a b c : list A) : firstn (length b) (skipn (length a) (a ++ b ++ c)) = b.
Proof. rewrite skipn_app, skipn_all, Nat.sub_diag. cbn [app skipn]. rewrite firstn_app, firstn_all, Nat.sub_diag. cbn [firstn]. apply app_nil_r. Qed.

Lemma parse_continuation_line n c body prepend :
  first_ok c = true -> mem 10 body = false -> 0 <= prepend <= Z.of_nat n ->
  parse_continuation (line_of n c body) prepend = Some (line_of (n - Z.to_nat prepend) c body).
Proof.
  intros Hc Hb Hp. destruct (cont_match n c body Hc Hb) as (res & Hm & Hbef & Hpos & G1 & G2).
  unfold parse_continuation. rewrite Hm. unfold gtxt, group_text. rewrite G1, G2.
  assert (L : slen (line_of n c body) = Z.of_nat n + (1 + slen body + 1)).
  { unfold line_of, slen. rewrite app_length, repeat_length. cbn [length]. rewrite app_length. cbn [length]. lia. }
  assert (B0 : 0 <= slen body) by (unfold slen; lia).
  assert (S1 : segment res 0 (Z.of_nat n) = repeat 32 n).
  { rewrite (segment_known res (line_of n c body)) by (try assumption; lia).
    rewrite Z.sub_0_r, Nat2Z.id. cbn [Z.to_nat skipn]. unfold line_of. apply firstn_repeat_app. }
  assert (S2 : segment res (Z.of_nat n) (slen (line_of n c body)) = c :: body ++ [10]).
  { rewrite (segment_known res (line_of n c body)) by (try assumption; lia).
    rewrite L. replace (Z.of_nat n + (1 + slen body + 1) - Z.of_nat n) with (slen (c :: body ++ [10])) by (unfold slen; cbn [length]; rewrite app_length; cbn [length]; lia).
    rewrite Nat2Z.id. unfold line_of, slen. rewrite Nat2Z.id. rewrite skipn_repeat_app. apply firstn_all. }
  rewrite S1, S2.
  assert (Ne : str_eqb (c :: body ++ [10]) [10] = false).
  { cbn [str_eqb]. unfold first_ok in Hc. apply negb_true_iff in Hc. apply orb_false_iff in Hc as [_ H10]. rewrite H10. reflexivity. }
  rewrite Ne. unfold expandtabs4. rewrite expandtabs_notab by (apply mem_repeat; lia).
  rewrite slen_repeat. assert (prepend <=? Z.of_nat n = true) as -> by (apply Z.leb_le; lia).
  unfold drop, line_of. f_equal. f_equal.
  replace n with (Z.to_nat prepend + (n - Z.to_nat prepend))%nat at 1 by lia.
  rewrite repeat_app. apply skipn_repeat_app.
Qed.

Lemma parse_continuation_blank prepend : parse_continuation [10] prepend = Some [10].
Proof. vm_compute. reflexivity. Qed.

(* ---- ListItem.parse_marker on "marker + 1-4 spaces + text" ---- *)
Definition DIG : re := Set_ false [CCat CatDigit].
Definition SPACE : re := Set_ false [CCat CatSpace].
Definition DELIM : re := Set_ false [CLit 46; CLit 41].
Definition BULLET : re := Set_ false [CLit 43; CLit 45; CLit 42].
Definition MARK : re := Alt (Seq (Rep true 1 (Some 9%nat) DIG) DELIM) BULLET.

Lemma item_shape :
  re_block_token_ListItem_pattern =
  Seq (Grp 1 (Rep true 0 (Some 3%nat) (Lit 32))) (Seq (Grp 2 MARK) (Grp 3 (Alt Eol (Rep true 1 None SPACE)))) /\
  fl_block_token_ListItem_pattern = mkFlags false false.
Proof. split; reflexivity. Qed.

Inductive marker := MBullet (b : Z) | MOrdered (ds : str) (d : Z).
Definition marker_str (mk : marker) : str := match mk with MBullet b => [b] | MOrdered ds d => ds ++ [d] end.
Definition marker_ok (mk : marker) : Prop :=
  match mk with
  | MBullet b => b = 43 \/ b = 45 \/ b = 42
  | MOrdered ds d => ds <> [] /\ (length ds <= 9)%nat /\ Forall (fun x => 48 <= x <= 57) ds /\ (d = 46 \/ d = 41)
  end.

Lemma ascii_digit x : 48 <= x <= 57 -> cat_match CatDigit x = true.
Proof.
  intros H. assert (x = 48 \/ x = 49 \/ x = 50 \/ x = 51 \/ x = 52 \/ x = 53 \/ x = 54 \/ x = 55 \/ x = 56 \/ x = 57) as D by lia.
  repeat (destruct D as [->|D]; [vm_compute; reflexivity|]). subst x. vm_compute. reflexivity.
Qed.

Section Marker.
  Let fl := mkFlags false false.

  (* the marker group reads exactly the marker when a space follows *)
  Lemma marker_group mk s rest k v : marker_ok mk ->
    aft s = marker_str mk ++ 32 :: rest ->
    k (set_grp 2 (pos s) (pos s + slen (marker_str mk)) (adv_run s (marker_str mk) (32 :: rest))) = Some v ->
    m fl (Grp 2 MARK) s k = Some v.
  Proof.
    intros Hok Ha Hk. rewrite m_grp. unfold MARK. destruct mk as [b|ds d]; cbn [marker_str marker_ok] in *.
    - (* bullet: the ordered alternative cannot start *)
      assert (Nm : nomatch fl (Seq (Rep true 1 (Some 9%nat) DIG) DELIM) b = true) by (destruct Hok as [->|[->| ->]]; vm_compute; reflexivity).
      cbn [app] in Ha. rewrite (m_alt_second fl _ _ s _ b (32 :: rest) Nm Ha).
      rewrite (m_char fl BULLET s b (32 :: rest) _ eq_refl Ha).
      assert (char_ok fl BULLET b = true) as -> by (destruct Hok as [->|[->| ->]]; reflexivity).
      replace (advance s b (32 :: rest)) with (adv_run s [b] (32 :: rest)) by (unfold adv_run, advance, slen; cbn; reflexivity).
      replace (pos (adv_run s [b] (32 :: rest))) with (pos s + slen [b]) by reflexivity. exact Hk.
    - destruct Hok as (Hne & Hlen & Hdig & Hd).
      rewrite m_alt, m_seq.
      assert (E : m fl (Rep true 1 (Some 9%nat) DIG) s (fun s' => m fl DELIM s' (fun s'0 => k (set_grp 2 (pos s) (pos s'0) s'0))) = Some v).
      { apply (m_greedy fl DIG 1 (Some 9%nat) s _ v ds (d :: 32 :: rest)).
        - reflexivity.
        - cbn [stops]. destruct Hd as [->| ->]; vm_compute; reflexivity.
        - rewrite Ha, <- app_assoc. reflexivity.
        - apply forallb_forall. intros x Hx. rewrite Forall_forall in Hdig. cbn [char_ok DIG existsb citem_match xorb].
          rewrite (ascii_digit x (Hdig x Hx)). reflexivity.
        - destruct ds; [contradiction|cbn [length]; lia].
        - intros x Hx. injection Hx as <-. exact Hlen.
        - rewrite (m_char fl DELIM (adv_run s ds (d :: 32 :: rest)) d (32 :: rest) _ eq_refl eq_refl).
          assert (char_ok fl DELIM d = true) as -> by (destruct Hd as [->| ->]; reflexivity).
          assert (Ea : advance (adv_run s ds (d :: 32 :: rest)) d (32 :: rest) = adv_run s (ds ++ [d]) (32 :: rest)).
          { unfold adv_run, advance. cbn [bef aft pos grp]. rewrite rev_app_distr, slen_app. cbn [rev app]. f_equal. unfold slen. cbn [length]. lia. }
          rewrite Ea. replace (pos (adv_run s (ds ++ [d]) (32 :: rest))) with (pos s + slen (ds ++ [d])) by reflexivity. exact Hk. }
      rewrite E. reflexivity.
  Qed.
End Marker.

Definition nonspace (c : Z) : bool := negb (cat_match CatSpace c).

Lemma marker_no_tab mk : marker_ok mk -> mem 9 (marker_str mk) = false /\ (exists m0 r, marker_str mk = m0 :: r /\ (m0 =? 32) = false).
Proof.
  destruct mk as [b|ds d]; cbn [marker_ok marker_str].
  - intros [->|[->| ->]]; (split; [reflexivity|eexists; eexists; split; reflexivity]).
  - intros (Hne & _ & Hd & Hdel). split.
    + unfold mem. rewrite existsb_app. cbn [existsb]. apply orb_false_iff. split.
      * rewrite Forall_forall in Hd. destruct (existsb (Z.eqb 9) ds) eqn:E; [|reflexivity].
        apply existsb_exists in E as (x & Hx & Ex). apply Z.eqb_eq in Ex. subst x. specialize (Hd 9 Hx). lia.
      * destruct Hdel as [->| ->]; reflexivity.
    + destruct ds as [|x r]; [contradiction|]. exists x, (r ++ [d]). split; [reflexivity|].
      inversion Hd; subst. apply Z.eqb_neq. lia.
Qed.

Lemma parse_marker_line mk pad c body :
  marker_ok mk -> (1 <= pad <= 4)%nat -> nonspace c = true ->
  parse_marker (marker_str mk ++ repeat 32 pad ++ c :: body ++ [10]) =
  Some (0, slen (marker_str mk) + Z.of_nat pad, marker_str mk, c :: body ++ [10]).
Proof.
  intros Hok Hpad Hc. destruct item_shape as [Sh Fl]. destruct (marker_no_tab mk Hok) as (Htab & m0 & mr & Em & Hm0).
  set (ms := marker_str mk) in *. set (tail := c :: body ++ [10]).
  destruct pad as [|p]; [lia|]. cbn [repeat app].
  set (line := ms ++ 32 :: repeat 32 p ++ tail).
  unfold parse_marker, rmatch, match_here, start_at. rewrite Sh, Fl. cbn [bef aft pos length Z.of_nat].
  set (fl := mkFlags false false). set (s0 := mkMst [] line 0 []).
  (* the match *)
  assert (M : exists res, m fl (Seq (Grp 1 (Rep true 0 (Some 3%nat) (Lit 32))) (Seq (Grp 2 MARK) (Grp 3 (Alt Eol (Rep true 1 None SPACE))))) s0 (fun s' => Some s') = Some res /\
                          bef res = rev (ms ++ repeat 32 (S p)) /\ pos res = slen ms + Z.of_nat (S p) /\
                          lookup_grp 1 (grp res) = Some (0, 0) /\ lookup_grp 2 (grp res) = Some (0, slen ms)).
  { eexists. split.
    - rewrite m_seq, m_grp.
      eapply (m_greedy fl (Lit 32) 0 (Some 3%nat) s0 _ _ [] line); [reflexivity| |reflexivity|reflexivity|cbn [length]; lia|intros x Hx; cbn [length]; lia|].
      + unfold line. rewrite Em. cbn [app stops char_ok]. exact Hm0.
      + change (adv_run s0 [] line) with s0. rewrite m_seq.
        eapply (marker_group mk (set_grp 1 (pos s0) (pos s0) s0) (repeat 32 p ++ tail) _ _ Hok); [reflexivity|].
        rewrite m_grp, m_alt, m_eol.
        set (s2 := set_grp 2 _ _ _).
        assert (Eo : at_eol fl s2 = false) by reflexivity.
        rewrite Eo. cbn [orelse].
        eapply (m_greedy fl SPACE 1 None s2 _ _ (repeat 32 (S p)) tail); [reflexivity| |reflexivity| |cbn [length]; rewrite repeat_length; lia|discriminate|reflexivity].
        * unfold tail. cbn [stops char_ok SPACE existsb citem_match xorb]. unfold nonspace in Hc. apply negb_true_iff in Hc. rewrite Hc. reflexivity.
        * apply forallb_repeat. vm_compute. reflexivity.
    - cbn [set_grp adv_run bef aft pos grp lookup_grp Nat.eqb]. subst s0. cbn [bef pos].
      repeat split.
      + rewrite rev_app_distr, app_nil_r. reflexivity.
      + fold ms. rewrite slen_repeat. lia. }
  destruct M as (res & Hm & Hbef & Hpos & G1 & G2). rewrite Hm.
  unfold gtxt, group_text, group_span. rewrite G1, G2.
  assert (P0 : 0 <= slen ms) by (unfold slen; lia).
  assert (S1 : segment res 0 0 = []) by (unfold segment; reflexivity).
  assert (S2 : segment res 0 (slen ms) = ms).
  { rewrite (segment_known res (ms ++ repeat 32 (S p))); [| exact Hbef | rewrite Hpos, slen_app, slen_repeat; reflexivity | lia | lia | rewrite slen_app, slen_repeat; lia].
    rewrite Z.sub_0_r. cbn [Z.to_nat skipn]. unfold slen. rewrite Nat2Z.id. rewrite firstn_app, firstn_all, Nat.sub_diag. cbn [firstn]. apply app_nil_r. }
  rewrite S1, S2. rewrite Hpos.
  assert (T : take (slen ms + Z.of_nat (S p)) line = ms ++ repeat 32 (S p)).
  { unfold take, line, slen. replace (Z.to_nat (Z.of_nat (length ms) + Z.of_nat (S p))) with (length ms + S p)%nat by lia.
    change (32 :: repeat 32 p ++ tail) with (repeat 32 (S p) ++ tail).
    rewrite firstn_app_2. f_equal. apply firstn_repeat_app. }
  rewrite T. unfold expandtabs4. rewrite expandtabs_notab.
  2:{ unfold mem. rewrite existsb_app. fold (mem 9 ms). rewrite Htab. cbn [orb]. apply (mem_repeat 9 32). lia. }
  rewrite slen_app, slen_repeat.
  replace (slen ms + Z.of_nat (S p) - slen ms) with (Z.of_nat (S p)) by lia.
  assert (4 <? Z.of_nat (S p) = false) as -> by (apply Z.ltb_ge; lia).
  f_equal. f_equal.
  unfold drop, line, slen. replace (Z.to_nat (Z.of_nat (length ms) + Z.of_nat (S p))) with (length ms + S p)%nat by lia.
  change (32 :: repeat 32 p ++ tail) with (repeat 32 (S p) ++ tail).
  rewrite skipn_app, skipn_all2 by lia. replace (length ms + S p - length ms)%nat with (S p) by lia.
  cbn [app]. apply skipn_repeat_app.
Qed.

Lemma in_skipn {A} (x : A) j l : In x (skipn j l) -> In x l.
Proof. intros H. rewrite <- (firstn_skipn j l). apply in_or_app. right. exact H. Qed.

(* ---- List.start on the marker line ---- *)
Lemma list_shape :
  re_block_token_List_pattern =
  Seq (Rep true 0 (Some 3%nat) (Lit 32)) (Seq MARK (Alt (Seq (Rep true 0 None SPTAB) Eol) (Rep true 1 None SPTAB))) /\
  fl_block_token_List_pattern = mkFlags false false.
Proof. split; reflexivity. Qed.

Section Start.
  Let fl := mkFlags false false.

  (* MARK without the group *)
  Lemma marker_plain mk s rest k v : marker_ok mk ->
    aft s = marker_str mk ++ 32 :: rest ->
    k (adv_run s (marker_str mk) (32 :: rest)) = Some v ->
    m fl MARK s k = Some v.
  Proof.
    intros Hok Ha Hk.
    (* replay the proof of marker_group without the group *)
    unfold MARK. destruct mk as [b|ds d]; cbn [marker_str marker_ok] in *.
    - assert (Nm : nomatch fl (Seq (Rep true 1 (Some 9%nat) DIG) DELIM) b = true) by (destruct Hok as [->|[->| ->]]; vm_compute; reflexivity).
      cbn [app] in Ha. rewrite (m_alt_second fl _ _ s _ b (32 :: rest) Nm Ha).
      rewrite (m_char fl BULLET s b (32 :: rest) _ eq_refl Ha).
      assert (char_ok fl BULLET b = true) as -> by (destruct Hok as [->|[->| ->]]; reflexivity).
      replace (advance s b (32 :: rest)) with (adv_run s [b] (32 :: rest)) by (unfold adv_run, advance, slen; cbn; reflexivity).
      exact Hk.
    - destruct Hok as (Hne & Hlen & Hdig & Hd).
      rewrite m_alt, m_seq.
      assert (E : m fl (Rep true 1 (Some 9%nat) DIG) s (fun s' => m fl DELIM s' k) = Some v).
      { apply (m_greedy fl DIG 1 (Some 9%nat) s _ v ds (d :: 32 :: rest)).
        - reflexivity.
        - cbn [stops]. destruct Hd as [->| ->]; vm_compute; reflexivity.
        - rewrite Ha, <- app_assoc. reflexivity.
        - apply forallb_forall. intros x Hx. rewrite Forall_forall in Hdig. cbn [char_ok DIG existsb citem_match xorb].
          rewrite (ascii_digit x (Hdig x Hx)). reflexivity.
        - destruct ds; [contradiction|cbn [length]; lia].
        - intros x Hx. injection Hx as <-. exact Hlen.
        - rewrite (m_char fl DELIM (adv_run s ds (d :: 32 :: rest)) d (32 :: rest) _ eq_refl eq_refl).
          assert (char_ok fl DELIM d = true) as -> by (destruct Hd as [->| ->]; reflexivity).
          assert (Ea : advance (adv_run s ds (d :: 32 :: rest)) d (32 :: rest) = adv_run s (ds ++ [d]) (32 :: rest)).
          { unfold adv_run, advance. cbn [bef aft pos grp]. rewrite rev_app_distr, slen_app. cbn [rev app]. f_equal. unfold slen. cbn [length]. lia. }
          rewrite Ea. exact Hk. }
      rewrite E. reflexivity.
  Qed.

  Lemma list_start_line mk pad c body : marker_ok mk -> (1 <= pad)%nat -> first_ok c = true ->
    list_start (marker_str mk ++ repeat 32 pad ++ c :: body ++ [10]) = true.
  Proof.
    intros Hok Hpad Hc. destruct list_shape as [Sh Fl]. destruct (marker_no_tab mk Hok) as (_ & m0 & mr & Em & Hm0).
    assert (E32 : (c =? 32) = false /\ (c =? 9) = false /\ (c =? 10) = false).
    { unfold first_ok in Hc. apply negb_true_iff in Hc. apply orb_false_iff in Hc as [Hc H10]. apply orb_false_iff in Hc as [H32 H9]. auto. }
    destruct E32 as (H32 & H9 & H10).
    set (tail := c :: body ++ [10]). destruct pad as [|p]; [lia|]. cbn [repeat app].
    set (line := marker_str mk ++ 32 :: repeat 32 p ++ tail).
    unfold list_start, rmatch, match_here, start_at. rewrite Sh, Fl. cbn [bef aft pos length Z.of_nat]. fold fl.
    set (s0 := mkMst [] line 0 []).
    assert (M : exists res, m fl (Seq (Rep true 0 (Some 3%nat) (Lit 32)) (Seq MARK (Alt (Seq (Rep true 0 None SPTAB) Eol) (Rep true 1 None SPTAB)))) s0 (fun s' => Some s') = Some res).
    { eexists. rewrite m_seq.
      eapply (m_greedy fl (Lit 32) 0 (Some 3%nat) s0 _ _ [] line); [reflexivity| |reflexivity|reflexivity|cbn [length]; lia|intros x Hx; cbn [length]; lia|].
      - unfold line. rewrite Em. cbn [app stops char_ok]. exact Hm0.
      - change (adv_run s0 [] line) with s0. rewrite m_seq.
        eapply (marker_plain mk s0 (repeat 32 p ++ tail) _ _ Hok); [reflexivity|].
        set (s2 := adv_run s0 (marker_str mk) (32 :: repeat 32 p ++ tail)).
        rewrite m_alt, m_seq.
        assert (N : m fl (Rep true 0 None SPTAB) s2 (fun s' => m fl Eol s' (fun s'0 => Some s'0)) = None).
        { apply (m_greedy_none fl SPTAB 0 None s2 _ (repeat 32 (S p)) tail); [reflexivity| |reflexivity| |].
          - unfold tail. cbn [stops char_ok SPTAB existsb citem_match xorb]. rewrite H32, H9. reflexivity.
          - apply forallb_repeat. reflexivity.
          - intros j Hj. rewrite m_eol.
            destruct (skipn j (repeat 32 (S p))) as [|x r] eqn:Es.
            + erewrite at_eol_not_nl; [reflexivity|cbn [adv_run aft app]; unfold tail; reflexivity|exact H10].
            + assert (x = 32).
              { assert (In x (skipn j (repeat 32 (S p)))) by (rewrite Es; left; reflexivity).
                apply (repeat_spec (S p) 32 x). eapply in_skipn. eassumption. }
              subst x. erewrite at_eol_not_nl; [reflexivity|cbn [adv_run aft app]; reflexivity|reflexivity]. }
        rewrite N. cbn [orelse].
        eapply (m_greedy fl SPTAB 1 None s2 _ _ (repeat 32 (S p)) tail); [reflexivity| |reflexivity| |cbn [length]; rewrite repeat_length; lia|discriminate|reflexivity].
        + unfold tail. cbn [stops char_ok SPTAB existsb citem_match xorb]. rewrite H32, H9. reflexivity.
        + apply forallb_repeat. reflexivity. }
    destruct M as (res & ->). reflexivity.
  Qed.
End Start.

(* ---- structured lines and their embedding ---- *)
Inductive sline := SBlank | SLine (k : nat) (c : Z) (body : str).
Definition sline_ok (l : sline) : Prop :=
  match l with SBlank => True | SLine _ c body => first_ok c = true /\ mem 10 body = false end.
Definition render_line (l : sline) : str := match l with SBlank => [10] | SLine k c body => line_of k c body end.
Definition embed_line (w : nat) (l : sline) : str := match l with SBlank => [10] | SLine k c body => line_of (w + k) c body end.

Lemma line_not_nl k c body : first_ok c = true -> str_eqb (line_of k c body) [10] = false.
Proof.
  intros Hc. unfold line_of. destruct k; cbn [repeat app str_eqb]; [|reflexivity].
  unfold first_ok in Hc. apply negb_true_iff in Hc. apply orb_false_iff in Hc as [_ H10]. rewrite H10. reflexivity.
Qed.

(* newline count carried by the loop after reading the lines *)
Definition next_nl (nl : nat) (l : sline) : nat := match l with SBlank => S nl | _ => O end.

Section Item.
  Variable types : list block_kind.
  Variable leader : str.
  Variable w : nat.

  Lemma item_loop_embedded : forall ls buf taken nl,
    Forall sline_ok ls ->
    item_loop types leader (map (embed_line w) ls) (Z.of_nat w) buf taken nl =
    let nl' := fold_left next_nl ls nl in
    let buf' := rev (map render_line ls) ++ buf in
    (rev (skipn nl' buf'), (match nl' with O => taken + length ls | _ => taken + length ls - 1 end)%nat, None).
  Proof.
    induction ls as [|l ls IH]; intros buf taken nl Hok.
    - cbn [map item_loop fold_left rev app length]. rewrite Nat.add_0_r. reflexivity.
    - inversion Hok as [|? ? Hl Hls]; subst. cbn [map item_loop].
      destruct l as [|k c body]; cbn [embed_line].
      + rewrite parse_continuation_blank. rewrite IH by exact Hls.
        cbn [str_eqb Z.eqb Pos.eqb fold_left next_nl map render_line rev length]. cbv zeta.
        rewrite <- app_assoc. cbn [app]. replace (S taken + length ls)%nat with (taken + S (length ls))%nat by lia. reflexivity.
      + destruct Hl as [Hc Hb].
        rewrite parse_continuation_line by (try assumption; lia).
        replace (w + k - Z.to_nat (Z.of_nat w))%nat with k by lia.
        rewrite line_not_nl by exact Hc. rewrite IH by exact Hls.
        cbn [fold_left next_nl map render_line rev length]. cbv zeta.
        rewrite <- app_assoc. cbn [app]. replace (S taken + length ls)%nat with (taken + S (length ls))%nat by lia. reflexivity.
  Qed.
End Item.

(* the text: a first line that starts with a non-space character, then structured lines, the last one not blank *)
Definition last_not_blank (ls : list sline) : Prop := match rev ls with SBlank :: _ => False | _ => True end.

Lemma fold_nl_last ls nl : ls <> [] -> last_not_blank ls -> fold_left next_nl ls nl = O.
Proof.
  intros Hne Hl. unfold last_not_blank in Hl. destruct (rev ls) as [|x r] eqn:E.
  - apply (f_equal (@rev sline)) in E. rewrite rev_involutive in E. contradiction.
  - apply (f_equal (@rev sline)) in E. rewrite rev_involutive in E. cbn [rev] in E. subst ls.
    rewrite fold_left_app. cbn [fold_left]. destruct x; [contradiction|reflexivity].
Qed.

(* ---- the first line of the embedded text opens no other kind of block ---- *)
Definition mfirst_ok (c : Z) : bool :=
  nomatch fl_block_token_Heading_pattern re_block_token_Heading_pattern c &&
  nomatch fl_block_token_CodeFence_pattern re_block_token_CodeFence_pattern c &&
  nomatch fl_markdown_renderer_BlankLine_pattern re_markdown_renderer_BlankLine_pattern c &&
  nomatch fl_block_token_HtmlBlock_multiblock re_block_token_HtmlBlock_multiblock c &&
  nomatch fl_block_token_HtmlBlock_predefined re_block_token_HtmlBlock_predefined c &&
  nomatch fl_block_token_HtmlBlock_custom_tag re_block_token_HtmlBlock_custom_tag c &&
  negb (is_space_c c) && negb (c =? 62) && negb (c =? 91) && negb (c =? 60).

Definition marker_firsts : list Z := [43; 45; 42; 48; 49; 50; 51; 52; 53; 54; 55; 56; 57].
Lemma marker_firsts_ok : forallb mfirst_ok marker_firsts = true.
Proof. vm_compute. reflexivity. Qed.

Lemma marker_first mk : marker_ok mk -> exists m0 r, marker_str mk = m0 :: r /\ mfirst_ok m0 = true.
Proof.
  intros Hok. pose proof marker_firsts_ok as F. rewrite forallb_forall in F.
  destruct mk as [b|ds d]; cbn [marker_ok marker_str] in *.
  - exists b, []. split; [reflexivity|]. apply F. destruct Hok as [->|[->| ->]]; cbn; auto 20.
  - destruct Hok as (Hne & _ & Hd & _). destruct ds as [|x r]; [contradiction|]. exists x, (r ++ [d]). split; [reflexivity|].
    apply F. inversion Hd; subst.
    assert (x = 48 \/ x = 49 \/ x = 50 \/ x = 51 \/ x = 52 \/ x = 53 \/ x = 54 \/ x = 55 \/ x = 56 \/ x = 57) as D by lia.
    repeat (destruct D as [->|D]; [cbn; auto 20|]). subst x. cbn; auto 20.
Qed.

Lemma rmatch_first r fl c t : nomatch fl r c = true -> rmatch r fl (c :: t) = None.
Proof. intros H. unfold rmatch. apply match_here_none. exact H. Qed.

Definition other_kind (k : block_kind) : bool :=
  match k with BK_List | BK_Paragraph | BK_Table => false | _ => true end.

Lemma start_read_other_kind types rec k m0 t rest ln st :
  mfirst_ok m0 = true -> thematic_start (m0 :: t) = false -> other_kind k = true ->
  start_read types rec k ((m0 :: t) :: rest) ln st = None.
Proof.
  unfold mfirst_ok. intros H Hth Hk. repeat rewrite andb_true_iff in H.
  destruct H as [[[[[[[[[N1 N2] N3] N4] N5] N6] H3] H62] H91] H60].
  apply negb_true_iff in H3, H62, H91, H60.
  assert (E9 : 9 =? m0 = false) by (apply Z.eqb_neq; intros <-; vm_compute in H3; discriminate).
  assert (E32 : 32 =? m0 = false) by (apply Z.eqb_neq; intros <-; vm_compute in H3; discriminate).
  assert (L : lstrip (m0 :: t) = m0 :: t) by (unfold lstrip; cbn [lstrip_by]; rewrite H3; reflexivity).
  destruct k; try discriminate; cbn [start_read].
  - unfold blockcode_start, tabs_to_spaces_once. cbn [replace_first startswith]. rewrite E9. cbn [andb].
    replace ($"    ") with [32; 32; 32; 32] by reflexivity. cbn [startswith]. rewrite E32. reflexivity.
  - unfold heading_start. rewrite rmatch_first by assumption. reflexivity.
  - unfold quote_start, lstrip_set. cbn [lstrip_by mem existsb]. rewrite (Z.eqb_sym m0 32), E32. cbn [orb]. rewrite Z.sub_diag. cbn [Z.ltb Z.compare startswith].
    rewrite Z.eqb_sym, H62. reflexivity.
  - unfold codefence_start. rewrite rmatch_first by assumption. reflexivity.
  - rewrite Hth. reflexivity.
  - unfold footnote_start. rewrite L. cbn [startswith]. rewrite Z.eqb_sym, H91. reflexivity.
  - unfold htmlblock_start. rewrite L. rewrite Z.sub_diag. cbn [Z.leb Z.compare].
    rewrite rmatch_first by assumption.
    assert (LL : forall p, startswith (60 :: p) (m0 :: t) = false) by (intros; cbn [startswith]; rewrite Z.eqb_sym, H60; reflexivity).
    cbn [s2l]. rewrite !LL. cbn [andb]. rewrite !rmatch_first by assumption. reflexivity.
  - unfold blankline_start. rewrite rmatch_first by assumption. reflexivity.
  - unfold footnote_start. rewrite L. cbn [startswith]. rewrite Z.eqb_sym, H91. reflexivity.
Qed.

Fixpoint list_first (ts : list block_kind) : bool :=
  match ts with
  | [] => false
  | BK_List :: _ => true
  | BK_Paragraph :: _ | BK_Table :: _ => false
  | _ :: r => list_first r
  end.

Lemma not_blank_first c t : is_space_c c = false -> is_blank (c :: t) = false.
Proof.
  intros Hc. unfold is_blank, strip, strip_by, rstrip_by. cbn [lstrip_by]. rewrite Hc.
  cbn [rev]. destruct (lstrip_by is_space_c (rev t ++ [c])) eqn:E.
  - exfalso. revert E. clear -Hc. induction (rev t) as [|y x IH]; cbn [app lstrip_by]; [rewrite Hc; discriminate|].
    destruct (is_space_c y); [exact IH|discriminate].
  - destruct (rev (z :: s)) eqn:E2; [|reflexivity].
    apply (f_equal (@length Z)) in E2. rewrite rev_length in E2. discriminate.
Qed.

(* ---- the law ---- *)
Section Law.
  Variable types : list block_kind.
  Variable rec : list str -> Z -> pstate -> list pre * bool * pstate.

  Variables (mk : marker) (pad : nat) (c0 : Z) (body0 : str) (rest : list sline).
  Hypothesis Hmk : marker_ok mk.
  Hypothesis Hpad : (1 <= pad <= 4)%nat.
  Hypothesis Hc0 : nonspace c0 = true.
  Hypothesis Hb0 : mem 10 body0 = false.
  Hypothesis Hrest : Forall sline_ok rest.
  Hypothesis Hlast : last_not_blank (SLine 0 c0 body0 :: rest).

  Let ms := marker_str mk.
  Let w := (length ms + pad)%nat.
  Let first_line := ms ++ repeat 32 pad ++ c0 :: body0 ++ [10].
  Let text := map render_line (SLine 0 c0 body0 :: rest).
  Let embedded := first_line :: map (embed_line w) rest.

  Hypothesis Hth : thematic_start first_line = false.

  Lemma c0_first_ok : first_ok c0 = true.
  Proof.
    unfold nonspace in Hc0. apply negb_true_iff in Hc0. unfold first_ok. apply negb_true_iff.
    destruct (c0 =? 32) eqn:E1; [apply Z.eqb_eq in E1; subst c0; vm_compute in Hc0; discriminate|].
    destruct (c0 =? 9) eqn:E2; [apply Z.eqb_eq in E2; subst c0; vm_compute in Hc0; discriminate|].
    destruct (c0 =? 10) eqn:E3; [apply Z.eqb_eq in E3; subst c0; vm_compute in Hc0; discriminate|]. reflexivity.
  Qed.

  Lemma fold_rest : fold_left next_nl rest 0%nat = 0%nat.
  Proof.
    destruct rest as [|x r] eqn:E; [reflexivity|]. rewrite <- E in *. apply fold_nl_last; [rewrite E; discriminate|].
    unfold last_not_blank in *. cbn [rev] in Hlast. destruct (rev rest) as [|y ys] eqn:Er.
    - apply (f_equal (@rev sline)) in Er. rewrite rev_involutive in Er. rewrite E in Er. discriminate.
    - cbn [app] in Hlast. exact Hlast.
  Qed.

  Lemma read_item_embedded ln st :
    read_item types rec embedded ln None st =
    let '(es, lo, st') := rec text ln st in
    (PItem ln es lo 0 (Z.of_nat w) ms, S (length rest), None, st').
  Proof.
    unfold read_item, embedded, first_line, ms.
    rewrite (parse_marker_line mk pad c0 body0 Hmk Hpad Hc0).
    assert (Nb : is_blank (c0 :: body0 ++ [10]) = false).
    { apply not_blank_first. unfold nonspace in Hc0. apply negb_true_iff in Hc0. exact Hc0. }
    rewrite Nb.
    assert (Ew : slen (marker_str mk) + Z.of_nat pad = Z.of_nat w) by (unfold w, ms, slen; lia).
    rewrite Ew. rewrite item_loop_embedded by exact Hrest.
    cbv zeta. rewrite fold_rest. cbn [skipn]. rewrite rev_app_distr, rev_involutive. cbn [rev app].
    change (c0 :: body0 ++ [10]) with (render_line (SLine 0 c0 body0)).
    change (render_line (SLine 0 c0 body0) :: map render_line rest) with text.
    destruct (rec text ln st) as [[es lo] st']. reflexivity.
  Qed.

  Lemma start_read_list ln st :
    start_read types rec BK_List embedded ln st =
    let '(es, lo, st') := rec text ln st in
    Some (PList ln [PItem ln es ((1 <? nlines (length es)) && lo) 0 (Z.of_nat w) ms], S (length rest), st').
  Proof.
    unfold start_read. unfold embedded at 1.
    assert (Ls : list_start first_line = true) by (unfold first_line, ms; apply (list_start_line mk pad c0 body0 Hmk (proj1 Hpad) c0_first_ok)).
    rewrite Ls. fold embedded. cbn [read_list]. rewrite read_item_embedded.
    destruct (rec text ln st) as [[es lo] st']. cbn [negb rev app Nat.add]. reflexivity.
  Qed.

  Lemma try_types_list ln st : forall ts, list_first ts = true ->
    try_types types rec ts embedded ln st = start_read types rec BK_List embedded ln st.
  Proof.
    destruct (marker_first mk Hmk) as (m0 & mr & Em & Hm0).
    assert (El : exists t, first_line = m0 :: t) by (unfold first_line, ms; rewrite Em; eexists; reflexivity).
    destruct El as (t & El).
    assert (SR : exists v, start_read types rec BK_List embedded ln st = Some v).
    { rewrite start_read_list. destruct (rec text ln st) as [[es lo] st']. eexists. reflexivity. }
    destruct SR as (v & SR).
    induction ts as [|k ts IH]; intros Hl; [discriminate|]. cbn [try_types].
    destruct (other_kind k) eqn:Ek.
    - unfold embedded at 1. rewrite El. rewrite start_read_other_kind; [|exact Hm0|rewrite <- El; exact Hth|exact Ek].
      apply IH. destruct k; try discriminate; exact Hl.
    - destruct k; try discriminate. rewrite SR. reflexivity.
  Qed.
End Law.

Theorem list_wraps types mk pad c0 body0 rest f ln st :
  list_first types = true -> marker_ok mk -> (1 <= pad <= 4)%nat -> nonspace c0 = true -> mem 10 body0 = false ->
  Forall sline_ok rest -> last_not_blank (SLine 0 c0 body0 :: rest) ->
  let ms := marker_str mk in
  let w := (length ms + pad)%nat in
  let first_line := ms ++ repeat 32 pad ++ c0 :: body0 ++ [10] in
  thematic_start first_line = false ->
  let text := map render_line (SLine 0 c0 body0 :: rest) in
  tokenize_block types (S f) (first_line :: map (embed_line w) rest) ln st =
  let '(es, lo, st') := tokenize_block types f text ln st in
  ([PList ln [PItem ln es ((1 <? nlines (length es)) && lo) 0 (Z.of_nat w) ms]], false, st').
Proof.
  intros Hl Hmk Hpad Hc0 Hb0 Hrest Hlast ms w first_line Hth text.
  subst text first_line w ms.
  cbn [tokenize_block length dispatch_loop].
  rewrite try_types_list by assumption.
  rewrite start_read_list by assumption.
  destruct (tokenize_block types f _ ln st) as [[es lo] st'].
  cbn [skipn]. rewrite skipn_all2 by (rewrite map_length; lia).
  reflexivity.
Qed.

(* ---- every configuration that is modelled tries List before Paragraph and Table ---- *)
From Mistletoe Require Import Model.Parser.
Lemma configs_list_first :
  forallb (fun c => list_first (cfg_block c)) [cfg_html; cfg_html_nohtml; cfg_markdown; cfg_latex; cfg_mathjax; cfg_default] = true.
Proof. vm_compute. reflexivity. Qed.

(* ---- raw lines: a line is structured iff it is "\n" or spaces + a first character that is neither space, tab nor newline
        + a body without newline + "\n"; parse_sline recovers the structure ---- *)
Fixpoint count_sp (l : str) : nat := match l with 32 :: r => S (count_sp r) | _ => O end.
Definition parse_sline (l : str) : option sline :=
  if str_eqb l [10] then Some SBlank
  else let k := count_sp l in
       match skipn k l with
       | c :: r =>
         match rev r with
         | 10 :: body_rev => if first_ok c && negb (mem 10 (rev body_rev)) then Some (SLine k c (rev body_rev)) else None
         | _ => None
         end
       | [] => None
       end.

Lemma count_sp_split l : l = repeat 32 (count_sp l) ++ skipn (count_sp l) l.
Proof. induction l as [|c l IH]; [reflexivity|]. cbn [count_sp]. destruct (c =? 32) eqn:E.
  - apply Z.eqb_eq in E. subst c. cbn [count_sp repeat app skipn]. f_equal. exact IH.
  - destruct c as [|p|p]; try reflexivity. do 6 (destruct p as [p|p|]; try reflexivity). discriminate.
Qed.

Lemma parse_sline_sound l sl : parse_sline l = Some sl -> render_line sl = l /\ sline_ok sl.
Proof.
  unfold parse_sline. destruct (str_eqb l [10]) eqn:E.
  - intros H. injection H as <-. apply str_eqb_eq in E. subst l. split; [reflexivity|exact I].
  - destruct (skipn (count_sp l) l) as [|c r] eqn:Es; [discriminate|].
    destruct (rev r) as [|x body_rev] eqn:Er; [discriminate|].
    destruct x as [|p|p]; try discriminate. do 4 (destruct p as [p|p|]; try discriminate).
    destruct (first_ok c && negb (mem 10 (rev body_rev))) eqn:Ec; [|discriminate].
    intros H. injection H as <-. apply andb_true_iff in Ec as [Hc Hb]. apply negb_true_iff in Hb.
    split; [|split; assumption]. cbn [render_line]. unfold line_of.
    rewrite (count_sp_split l) at 2. f_equal. rewrite Es. f_equal.
    apply (f_equal (@rev Z)) in Er. rewrite rev_involutive in Er. rewrite Er. reflexivity.
Qed.

(* non-vacuity: a three-line text with a blank line and an indented line, under "12) " *)
Example list_law_instance :
  let rest := [SBlank; SLine 4 99 $"ode"; SLine 0 62 $" q"] in
  let emb := ($"12)  a b" ++ [10]) :: map (embed_line 5) rest in
  marker_ok (MOrdered $"12" 41) /\ Forall sline_ok rest /\ last_not_blank (SLine 0 97 $" b" :: rest) /\
  nonspace 97 = true /\ thematic_start ($"12)  a b" ++ [10]) = false /\
  emb = [ $"12)  a b" ++ [10]; [10]; $"         code" ++ [10]; $"     > q" ++ [10] ] /\
  map parse_sline [ $"a b" ++ [10]; [10]; $"    code" ++ [10]; $"> q" ++ [10] ] = map Some (SLine 0 97 $" b" :: rest).
Proof.
  cbv zeta. split; [|split; [|split; [|split; [|split; [|split]]]]].
  - cbn [marker_ok]. split; [discriminate|]. split; [cbn; lia|]. split; [|right; reflexivity].
    repeat constructor; cbn; lia.
  - repeat constructor; vm_compute; reflexivity.
  - exact I.
  - vm_compute. reflexivity.
  - vm_compute. reflexivity.
  - vm_compute. reflexivity.
  - vm_compute. reflexivity.
Qed.
