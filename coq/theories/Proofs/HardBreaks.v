(* C03 / C10 / C14, unbounded: the text of a paragraph whose lines END IN ANY NUMBER OF SPACES before the line break.
   Lines free of trigger characters, none of them empty or ending in a space of its own, each but the last followed by k
   spaces (any k, a different one for every line) and a newline: the inline phase gives the lines as raw text and between
   two of them ONE LineBreak holding the k spaces - a SOFT break for k < 2, a HARD one from two spaces on.  LineBreak.pattern
   " *|\\" before the newline is evaluated exactly: no match starts inside a line (a run of spaces inside it is followed by a
   character that is no newline), the match at the first trailing space takes all of them (greedy), finditer finds exactly
   these matches; every other finder finds nothing; the candidates tile the text. *)
From Coq Require Import ZArith List Bool Lia.
From Mistletoe Require Import Base.Sx Base.PyStr Base.PyText Gen.GenTables Gen.GenRegex Gen.GenConfig Re.ReMatch
     Model.SpanTokenizer Model.Tree Model.Unescape Model.CoreTokens Model.Inline Model.Block Model.Build Model.Parser Model.HtmlRenderer
     Proofs.ReFirst Proofs.ReNeeds Proofs.ReExact Proofs.Prose Proofs.PlainProse Proofs.ListLaw Proofs.ProseLines.
Import ListNotations.
Local Open Scope Z_scope.

Definition bline : Type := str * nat.      (* a line, and the number of spaces between it and the newline after it *)

Fixpoint brk_join (ls : list bline) : str :=
  match ls with
  | [] => []
  | (l, k) :: r => match r with [] => l | _ => l ++ repeat 32 k ++ 10 :: brk_join r end
  end.

Fixpoint brk_toks (ls : list bline) : list tok :=
  match ls with
  | [] => []
  | (l, k) :: r => RawText l :: match r with [] => [] | _ => LineBreak (repeat 32 k) (Nat.ltb k 2) :: brk_toks r end
  end.

Section BRsearch.
  Let fl := mkFlags false false.

  Lemma m_rep_nl g mn mx r s k : m fl (Rep g mn mx r) s k = loop (m fl r) g mn mx k (repeat 0 mn ++ 0 :: aft s) 0%nat s.
  Proof. reflexivity. Qed.

  (* no match of LB starts inside a line, whatever follows the line *)
  Lemma lb_none_inside c t R s k : aft s = (c :: t) ++ R -> ok_tail (c :: t) -> m fl LB s k = None.
  Proof.
    intros Ha Hok. destruct (span32_spec (c :: t)) as (E & Rr & N).
    set (run := fst (span32 (c :: t))) in *. set (l' := snd (span32 (c :: t))) in *.
    destruct Hok as (H10 & H92 & Hlast).
    assert (Hl' : exists d t', l' = d :: t' /\ (d =? 32) = false /\ (d =? 10) = false).
    { destruct l' as [|d t'] eqn:El.
      - exfalso. rewrite app_nil_r in E. assert (Hr : run <> []) by (rewrite <- E; discriminate).
        apply (Hlast ltac:(discriminate)). rewrite E, Rr. destruct (length run) as [|n] eqn:En; [destruct run; [contradiction|discriminate]|].
        apply last_repeat32.
      - exists d, t'. split; [reflexivity|]. split; [exact N|].
        destruct (d =? 10) eqn:Ed; [|reflexivity]. apply Z.eqb_eq in Ed. subst d.
        assert (mem 10 (c :: t) = true) by (rewrite E; unfold mem; rewrite existsb_app; cbn [existsb]; change (10 =? 10) with true; cbn [orb]; apply orb_true_r). congruence. }
    destruct Hl' as (d & t' & El & Hd32 & Hd10).
    assert (Hc92 : (c =? 92) = false).
    { unfold mem in H92. cbn [existsb] in H92. apply orb_false_iff in H92 as [H _]. rewrite Z.eqb_sym. exact H. }
    unfold LB. rewrite m_seq, m_grp, m_alt.
    assert (A1 : m fl (Rep true 0 None (Lit 32)) s (fun s' => m fl (Lit 10) (set_grp 1 (pos s) (pos s') s') k) = None).
    { apply (m_greedy_none fl (Lit 32) 0 None s _ run (d :: t' ++ R)); [reflexivity|exact Hd32| |rewrite Rr; apply forallb_repeat; reflexivity|].
      - rewrite Ha, E, El, <- app_assoc. reflexivity.
      - intros j Hj. destruct (skipn j run) as [|x r] eqn:Es.
        + cbn [app]. erewrite (m_char fl (Lit 10) _ d _ _ eq_refl); [|reflexivity]. cbn [char_ok]. rewrite Hd10. reflexivity.
        + assert (x = 32) by (apply (repeat_spec (length run) 32 x); rewrite <- Rr; apply (in_skipn x j); rewrite Es; left; reflexivity). subst x.
          cbn [app]. erewrite (m_char fl (Lit 10) _ 32 _ _ eq_refl); [|reflexivity]. reflexivity. }
    rewrite A1. cbn [orelse]. rewrite (m_char fl (Lit 92) s c (t ++ R) _ eq_refl Ha). cbn [char_ok]. rewrite Hc92. reflexivity.
  Qed.

  (* the state after the match that begins at s: k spaces in the first group, then the newline *)
  Definition brk_end (s : mst) (k : nat) (rest : str) : mst :=
    advance (set_grp 1 (pos s) (pos s + Z.of_nat k) (adv_run (mkMst (bef s) (aft s) (pos s) []) (repeat 32 k) (10 :: rest))) 10 rest.

  Lemma lb_at_spaces k rest s K v : aft s = repeat 32 k ++ 10 :: rest ->
    K (advance (set_grp 1 (pos s) (pos s + Z.of_nat k) (adv_run s (repeat 32 k) (10 :: rest))) 10 rest) = Some v ->
    m fl LB s K = Some v.
  Proof.
    intros Ha HK. unfold LB. rewrite m_seq, m_grp, m_alt.
    assert (A1 : m fl (Rep true 0 None (Lit 32)) s (fun s' => m fl (Lit 10) (set_grp 1 (pos s) (pos s') s') K) = Some v).
    { rewrite m_rep_nl. apply greedy_run with (run := repeat 32 k) (rest := 10 :: rest).
      - reflexivity.
      - reflexivity.
      - exact Ha.
      - apply forallb_repeat. reflexivity.
      - lia.
      - intros x Hx. discriminate.
      - cbn [repeat app length]. rewrite Ha, app_length, repeat_length. cbn [length]. lia.
      - rewrite (m_char fl (Lit 10) _ 10 rest _ eq_refl) by reflexivity. cbn [char_ok Z.eqb Pos.eqb].
        assert (Ep : pos (adv_run s (repeat 32 k) (10 :: rest)) = pos s + Z.of_nat k) by (unfold adv_run, slen; cbn [pos]; rewrite repeat_length; reflexivity).
        rewrite Ep. exact HK. }
    rewrite A1. reflexivity.
  Qed.

  Lemma search_brk : forall l s fuel ma k rest, aft s = l ++ repeat 32 k ++ 10 :: rest -> ok_tail l -> (length l <= length fuel)%nat ->
    search_from fl LB fuel ma s = Some (adv_run s l (repeat 32 k ++ 10 :: rest), brk_end (adv_run s l (repeat 32 k ++ 10 :: rest)) k rest).
  Proof.
    induction l as [|c t IH]; intros s fuel ma k rest Ha Hok Hf.
    - cbn [app] in Ha. assert (Es : adv_run s [] (repeat 32 k ++ 10 :: rest) = s) by (rewrite <- Ha; apply adv_run_nil). rewrite Es.
      assert (M : m fl LB (mkMst (bef s) (aft s) (pos s) []) (fun s' => if ma && (pos s' =? pos s) then None else Some s') = Some (brk_end s k rest)).
      { apply (lb_at_spaces k rest); [exact Ha|]. unfold brk_end. cbn [pos bef aft grp].
        match goal with |- (if ma && (?x =? ?y) then _ else _) = _ => assert (Hne : (x =? y) = false) end.
        { apply Z.eqb_neq. unfold advance, set_grp, adv_run, slen. cbn [pos]. rewrite repeat_length. lia. }
        rewrite Hne, andb_false_r. reflexivity. }
      destruct fuel as [|x fuel']; cbn [search_from]; rewrite M; reflexivity.
    - destruct fuel as [|x fuel']; [cbn [length] in Hf; lia|]. cbn [search_from].
      rewrite (lb_none_inside c t (repeat 32 k ++ 10 :: rest) (mkMst (bef s) (aft s) (pos s) []) _ Ha Hok).
      rewrite Ha. cbn [app]. rewrite (IH (advance s c (t ++ repeat 32 k ++ 10 :: rest)) fuel' false k rest eq_refl (ok_tail_tl c t Hok)) by (cbn [length] in Hf; lia).
      rewrite adv_run_cons. reflexivity.
  Qed.
End BRsearch.

(* ---- finditer on the lines ---- *)
Fixpoint brk_positions (p : Z) (ls : list bline) : list (Z * nat) :=
  match ls with
  | (l, k) :: ((_ :: _) as r) => (p + slen l, k) :: brk_positions (p + slen l + Z.of_nat k + 1) r
  | _ => []
  end.

Definition brk_ok (Pk : Z * nat) (mm : mst * mst) : Prop :=
  pos (fst mm) = fst Pk /\ pos (snd mm) = fst Pk + Z.of_nat (snd Pk) + 1 /\
  lookup_grp 1 (grp (snd mm)) = Some (fst Pk, fst Pk + Z.of_nat (snd Pk)) /\
  segment (snd mm) (fst Pk) (fst Pk + Z.of_nat (snd Pk)) = repeat 32 (snd Pk).

Lemma rev_repeat {A} (x : A) n : rev (repeat x n) = repeat x n.
Proof.
  induction n as [|n IH]; [reflexivity|]. cbn [repeat rev]. rewrite IH. clear IH.
  induction n as [|n IH]; [reflexivity|]. cbn [repeat app]. rewrite IH. reflexivity.
Qed.

Lemma brk_end_facts s k rest :
  pos (brk_end s k rest) = pos s + Z.of_nat k + 1 /\ aft (brk_end s k rest) = rest /\
  lookup_grp 1 (grp (brk_end s k rest)) = Some (pos s, pos s + Z.of_nat k) /\
  segment (brk_end s k rest) (pos s) (pos s + Z.of_nat k) = repeat 32 k.
Proof.
  unfold brk_end, advance, set_grp, adv_run, slen. cbn [pos aft bef grp lookup_grp Nat.eqb]. rewrite repeat_length. repeat split.
  unfold segment. cbn [pos bef].
  replace (Z.to_nat (pos s + Z.of_nat k + 1 - pos s)) with (S k) by lia.
  replace (Z.to_nat (pos s + Z.of_nat k - pos s)) with k by lia.
  cbn [firstn]. rewrite firstn_app, rev_length, repeat_length, Nat.sub_diag. cbn [firstn]. rewrite app_nil_r.
  rewrite rev_repeat. rewrite (firstn_all2 (repeat 32 k)) by (rewrite repeat_length; lia).
  cbn [rev]. rewrite rev_repeat. rewrite firstn_app, repeat_length, Nat.sub_diag. cbn [firstn]. rewrite app_nil_r.
  apply firstn_all2. rewrite repeat_length. lia.
Qed.

Section BRfind.
  Let fl := mkFlags false false.

  Lemma brk_join_cons l k b r : brk_join ((l, k) :: b :: r) = l ++ repeat 32 k ++ 10 :: brk_join (b :: r).
  Proof. reflexivity. Qed.

  Lemma finditer_brk : forall ls s fuel ma, ls <> [] -> aft s = brk_join ls -> Forall (fun b => ok_tail (fst b)) ls -> (length ls <= S (length fuel))%nat ->
    Forall2 brk_ok (brk_positions (pos s) ls) (finditer_from fl LB fuel ma s).
  Proof.
    unfold fl. induction ls as [|[l k] r IH]; intros s fuel ma Hne Ha Hok Hf; [contradiction|].
    inversion Hok as [|? ? Hl Hr]; subst. cbn [fst] in Hl. destruct r as [|b r'].
    - cbn [brk_join] in Ha. cbn [brk_positions].
      assert (N : search_from (mkFlags false false) LB (aft s) ma s = None).
      { apply (search_none _ LB 10 lb_needs_newline). rewrite Ha. apply Hl. }
      destruct fuel; cbn [finditer_from]; rewrite N; constructor.
    - rewrite brk_join_cons in Ha.
      destruct fuel as [|x fuel']; [cbn [length] in Hf; lia|]. cbn [finditer_from].
      change (brk_positions (pos s) ((l, k) :: b :: r')) with ((pos s + slen l, k) :: brk_positions (pos s + slen l + Z.of_nat k + 1) (b :: r')).
      rewrite (search_brk l s (aft s) ma k _ Ha Hl) by (rewrite Ha, app_length; lia).
      match goal with |- context [brk_end (adv_run s l ?R) k ?R2] =>
        set (sA := adv_run s l R); pose proof (brk_end_facts sA k R2) as FE; set (sE := brk_end sA k R2) in * end.
      assert (PA : pos sA = pos s + slen l) by reflexivity.
      destruct FE as (F1 & F2 & F3 & F4).
      constructor.
      + unfold brk_ok. cbn [fst snd]. rewrite <- PA. repeat split; assumption.
      + assert (Ef : (pos sE =? pos sA) = false) by (apply Z.eqb_neq; lia).
        rewrite Ef.
        set (sN := mkMst (bef sE) (aft sE) (pos sE) []).
        assert (PN : pos sN = pos s + slen l + Z.of_nat k + 1) by (unfold sN; cbn [pos]; lia).
        rewrite <- PN. apply (IH sN fuel' false); [discriminate|exact F2|exact Hr|cbn [length] in Hf |- *; lia].
  Qed.
End BRfind.

(* ---- the candidates and the tokens ---- *)
Fixpoint bkc (i : Z) (ps : list (Z * nat)) : list cand :=
  match ps with [] => [] | (P, k) :: r => mkCand P (P + Z.of_nat k + 1) P (P + Z.of_nat k + 1) 5 false i :: bkc (i + 1) r end.

Definition bline_ok (b : bline) : Prop := line_ok (fst b).

Lemma brk_prose ls : Forall bline_ok ls -> prose_text (brk_join ls) = true.
Proof.
  induction ls as [|[l k] r IH]; intros H; [reflexivity|]. inversion H as [|? ? (Hp & _) Hr]; subst. cbn [fst] in Hp.
  destruct r as [|b r']; [cbn [brk_join]; apply plain_is_prose; exact Hp|].
  rewrite brk_join_cons. pose proof (IH Hr) as IH'. pose proof (plain_is_prose l Hp) as Pl. unfold prose_text in *. rewrite !forallb_app.
  change (10 :: brk_join (b :: r')) with ([10] ++ brk_join (b :: r')). rewrite forallb_app, Pl, IH'.
  rewrite forallb_repeat by reflexivity. reflexivity.
Qed.

Lemma bp_increasing : forall ls p, Forall bline_ok ls ->
  chain (bkc 0 (brk_positions p ls)) /\ Forall (fun c => inner c = false) (bkc 0 (brk_positions p ls)).
Proof.
  assert (G : forall ls p i, Forall bline_ok ls -> chain (bkc i (brk_positions p ls)) /\ Forall (fun c => inner c = false) (bkc i (brk_positions p ls)) /\
                             (forall c, In c (bkc i (brk_positions p ls)) -> p <= cs c)).
  { induction ls as [|[l k] r IH]; intros p i H; [cbn; repeat split; [constructor|intros c []]|]. inversion H as [|? ? Hl Hr]; subst.
    destruct r as [|b r']; [cbn; repeat split; [constructor|intros c []]|].
    change (brk_positions p ((l, k) :: b :: r')) with ((p + slen l, k) :: brk_positions (p + slen l + Z.of_nat k + 1) (b :: r')). cbn [bkc].
    destruct (IH (p + slen l + Z.of_nat k + 1) (i + 1) Hr) as (C & Inn & B). assert (0 <= slen l) by (unfold slen; lia). repeat split.
    - destruct (bkc (i + 1) (brk_positions (p + slen l + Z.of_nat k + 1) (b :: r'))) as [|d more] eqn:E; [exact Logic.I|].
      cbn [chain ce cs]. specialize (B d (or_introl eq_refl)). repeat split; [lia|lia|exact C].
    - constructor; [reflexivity|exact Inn].
    - intros c [<-|Hc]; [cbn [cs]; lia|specialize (B c Hc); lia]. }
  intros ls p H. destruct (G ls p 0 H) as (A & B & _). split; assumption.
Qed.

Section BRinner.
  Variable types : list span_kind.
  Variable fn : footnotes.
  Hypothesis Hquiet : forallb kind_quiet_nl (removelast types) = true.
  Hypothesis Hlb : filter (fun k => match k with SK_LineBreak => true | _ => false end) (removelast types) = [SK_LineBreak].

  Theorem tokenize_inner_brk ls : ls <> [] -> Forall bline_ok ls -> tokenize_inner types fn (brk_join ls) = brk_toks ls.
  Proof.
    intros Hne Hok. set (s := brk_join ls).
    assert (Hp : prose_text s = true) by (apply brk_prose; exact Hok).
    unfold tokenize_inner. rewrite (srcs_prose types fn Hquiet Hlb s Hp). unfold lb_srcs.
    set (ms := finditer fl_span_token_LineBreak_pattern re_span_token_LineBreak_pattern s).
    assert (F2 : Forall2 brk_ok (brk_positions 0 ls) ms).
    { destruct lb_shape as [Sh Fl]. unfold ms, finditer. rewrite Sh, Fl.
      apply (finditer_brk ls (start_at [] s) (0 :: s) false Hne eq_refl).
      - apply Forall_forall. intros b Hb. apply line_ok_tail. rewrite Forall_forall in Hok. apply (Hok b Hb).
      - cbn [length]. clear -Hne. unfold s. induction ls as [|[l k] r IH]; [contradiction|]. destruct r as [|b r']; [cbn [length]; lia|].
        rewrite brk_join_cons. rewrite !app_length. cbn [length] in *. specialize (IH ltac:(discriminate)). unfold bline in *. lia. }
    set (srcs := map (fun p => CRe SK_LineBreak (fst p) (snd p)) ms).
    assert (Ec : forall i ps mm, Forall2 brk_ok ps mm ->
              map (fun p => cand_of (fst p) (snd p)) (number_from i (map (fun p => CRe SK_LineBreak (fst p) (snd p)) mm)) = bkc i ps).
    { clear. intros i ps mm H. revert i. induction H as [|[P k] [s0 s1] ps mm (H0 & H1 & _) _ IH]; intros i; [reflexivity|].
      cbn [map number_from bkc fst snd cand_of sk_parse_group grp_span sk_precedence sk_parse_inner] in *. rewrite H0, H1, IH. reflexivity. }
    replace (map (fun p => cand_of (fst p) (snd p)) (number_from 0 srcs)) with (bkc 0 (brk_positions 0 ls)) by (symmetry; apply (Ec 0 _ _ F2)).
    destruct (bp_increasing ls 0 Hok) as [Hch Hin]. rewrite (tokenize_chain _ _ Hch Hin). fold (out 0 (bkc 0 (brk_positions 0 ls)) (slen s)).
    assert (Leaf : forall j P k, nth_error (brk_positions 0 ls) j = Some (P, k) -> build_leaf (src_at srcs (Z.of_nat j)) = LineBreak (repeat 32 k) (Nat.ltb k 2)).
    { intros j P k Hj. unfold src_at, srcs. rewrite Nat2Z.id.
      destruct (Forall2_nth_error_l _ _ _ F2 j (P, k) Hj) as ([s0 s1] & Hm & (_ & H1 & Hg & Hseg)).
      rewrite (nth_error_nth _ _ _ (map_nth_error (fun p => CRe SK_LineBreak (fst p) (snd p)) j ms Hm)).
      cbn [build_leaf fst snd]. unfold gtext, group_text. cbn [fst snd] in Hg, Hseg. rewrite Hg, Hseg.
      f_equal. destruct k as [|[|k]]; reflexivity. }
    assert (G : forall ls' pre i k0, ls' <> [] -> Forall bline_ok ls' -> s = pre ++ brk_join ls' -> i = Z.of_nat k0 ->
              (forall j P k, nth_error (brk_positions (slen pre) ls') j = Some (P, k) -> build_leaf (src_at srcs (Z.of_nat (k0 + j))) = LineBreak (repeat 32 k) (Nat.ltb k 2)) ->
              map (build_otok s srcs) (out (slen pre) (bkc i (brk_positions (slen pre) ls')) (slen s)) = brk_toks ls').
    { induction ls' as [|[l k] r IH]; intros pre i k0 Hn Hk Es Ei HL; [contradiction|].
      inversion Hk as [|? ? (Hpl & Hln & _) Hr]; subst. cbn [fst] in Hpl, Hln. destruct r as [|b r'].
      - cbn [brk_join] in Es. cbn [brk_positions bkc brk_toks]. unfold out. cbn [body app end_of rev].
        assert (slen s = slen pre + slen l) by (rewrite Es, slen_app; reflexivity).
        assert (0 < slen l) by (destruct l; [contradiction|unfold slen; cbn [length]; lia]).
        replace (slen pre =? slen s) with false by (symmetry; apply Z.eqb_neq; lia). cbn [map build_otok].
        rewrite H. rewrite Es. rewrite <- (app_nil_r l) at 1. rewrite (substr_mid pre l []). rewrite unescape_plain by exact Hpl. reflexivity.
      - rewrite brk_join_cons in Es.
        change (brk_positions (slen pre) ((l, k) :: b :: r')) with ((slen pre + slen l, k) :: brk_positions (slen pre + slen l + Z.of_nat k + 1) (b :: r')) in *.
        cbn [bkc]. rewrite out_cons. cbn [cs ce].
        assert (0 < slen l) by (destruct l; [contradiction|unfold slen; cbn [length]; lia]).
        unfold gap. replace (slen pre + slen l >? slen pre) with true by (symmetry; apply Z.gtb_lt; lia).
        cbn [app map build_otok cid]. rewrite Es at 1. match goal with |- context [substr (pre ++ l ++ ?R) _ _] => rewrite (substr_mid pre l R) end. rewrite unescape_plain by exact Hpl.
        pose proof (HL 0%nat (slen pre + slen l) k eq_refl) as H0. rewrite Nat.add_0_r in H0. rewrite H0. cbn [brk_toks]. f_equal. f_equal.
        assert (Ep : slen (pre ++ l ++ repeat 32 k ++ [10]) = slen pre + slen l + Z.of_nat k + 1) by (rewrite !slen_app; unfold slen; rewrite repeat_length; cbn [length]; lia).
        rewrite <- Ep. apply (IH (pre ++ l ++ repeat 32 k ++ [10]) (Z.of_nat k0 + 1) (S k0)); [discriminate|exact Hr| |lia|].
        + rewrite Es, <- !app_assoc. reflexivity.
        + intros j P k' Hj. rewrite Ep in Hj. replace (S k0 + j)%nat with (k0 + S j)%nat by lia. apply (HL (S j) P k'). exact Hj. }
    apply (G ls [] 0 0%nat Hne Hok eq_refl eq_refl). intros j P k Hj. apply (Leaf j P k). exact Hj.
  Qed.
End BRinner.

(* ---- the statement with computable hypotheses ---- *)
Definition bline_okb (b : bline) : bool :=
  plain_text (fst b) && (match fst b with [] => false | _ => true end) && negb (last (fst b) 0 =? 32).

Theorem breaks_in_paragraph_text types fn ls :
  prose_spans types = true -> ls <> [] -> forallb bline_okb ls = true ->
  tokenize_inner types fn (brk_join ls) = brk_toks ls.
Proof.
  intros H Hne Hall. unfold prose_spans in H. apply andb_true_iff in H as [Hq Hl].
  assert (Hl' : filter (fun k => match k with SK_LineBreak => true | _ => false end) (removelast types) = [SK_LineBreak]).
  { destruct (filter _ _) as [|[] [|? ?]]; try discriminate. reflexivity. }
  apply (tokenize_inner_brk types fn Hq Hl' ls Hne).
  apply Forall_forall. intros b Hb. rewrite forallb_forall in Hall. specialize (Hall b Hb).
  unfold bline_okb in Hall. repeat rewrite andb_true_iff in Hall. destruct Hall as [[H1 H2] H3].
  split; [exact H1|]. split; [destruct (fst b); [discriminate|discriminate]|]. apply negb_true_iff in H3. apply Z.eqb_neq in H3. exact H3.
Qed.

Example breaks_instance :
  let ls := [($"first line", 0%nat); ($"soft after one space", 1%nat); ($"hard", 2%nat); ($"harder", 5%nat); ($"the end.", 0%nat)] in
  forallb bline_okb ls = true /\
  brk_toks ls = [RawText ($"first line"); LineBreak [] true; RawText ($"soft after one space"); LineBreak [32] true; RawText ($"hard"); LineBreak [32; 32] false;
                 RawText ($"harder"); LineBreak [32; 32; 32; 32; 32] false; RawText ($"the end.")] /\
  bline_okb ($"ends in a space ", 2%nat) = false.
Proof. vm_compute. repeat split; reflexivity. Qed.
