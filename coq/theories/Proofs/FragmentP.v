(* C03 on the fragment of Spec/Fragment.v: for every tree - any size, any depth - the block
   tokenizer of the model returns, on the spelled text, exactly the pre-token tree written
   from the tree (kinds, nesting, line numbers, list attributes, loose flags).  The proof
   composes the three laws: a plain line is a paragraph (PlainProse), a quoted text is a
   quote of its tokenization (QuoteLaw), a list-indented text is a single-item list of its
   tokenization (ListLaw), and blocks separated by a blank line are tokenized independently
   (Independence). *)
From Coq Require Import ZArith List Bool Lia.
From Mistletoe Require Import Base.Sx Base.PyStr Base.PyText Gen.GenRegex Gen.GenConfig Re.ReMatch Model.CoreTokens Model.Block Proofs.ReFirst
     Proofs.BlockProgress Proofs.Independence Proofs.QuoteLaw Proofs.ListLaw Proofs.ListLaw2 Proofs.FenceLaw Proofs.Prose Proofs.PlainProse Proofs.ProseLines Proofs.HeadingLaw Proofs.SetextLaw Proofs.ThematicLaw Proofs.InertProse Proofs.EmphSimple Proofs.EmphSentence Proofs.RefSentence Proofs.LinkSentence Proofs.MixPhrases Proofs.CodeSpan Proofs.HardBreaks Proofs.BreakBlocks Proofs.StrikeSentence Proofs.EscSentence Proofs.ImageSentence Proofs.LeafSpans Spec.Fragment Proofs.OneInline.
Import ListNotations.
Local Open Scope Z_scope.

(* ---- the dispatch loop with an accumulator and a loose flag already set ---- *)
Lemma dispatch_general types rec : forall n after ln acc lo st,
  dispatch_loop types rec n after ln acc lo st =
  let '(es, lo', st') := dispatch_loop types rec n after ln [] false st in (rev acc ++ es, lo || lo', st').
Proof.
  induction n as [|n IH]; intros after ln acc lo st; cbn [dispatch_loop].
  - cbn. rewrite app_nil_r, orb_false_r. reflexivity.
  - destruct after as [|x rest]; [cbn; rewrite app_nil_r, orb_false_r; reflexivity|].
    destruct (try_types types rec types (x :: rest) ln st) as [[[p c] st']|].
    + destruct c.
      * cbn. rewrite orb_false_r. reflexivity.
      * rewrite (IH _ _ (p :: acc) lo st'), (IH _ _ [p] false st').
        destruct (dispatch_loop types rec n (skipn (S c) (x :: rest)) (ln + nlines (S c)) [] false st') as [[es lo'] st''].
        cbn [rev app orb]. rewrite <- app_assoc. reflexivity.
    + rewrite (IH rest (ln + 1) acc true st), (IH rest (ln + 1) [] true st).
      destruct (dispatch_loop types rec n rest (ln + 1) [] false st) as [[es lo'] st''].
      cbn [rev app orb]. rewrite orb_true_r. reflexivity.
Qed.

Section Seq.
  Variable types : list block_kind.
  Variable f : nat.
  Variable md : bool.
  (* how the loop takes a blank line: it skips it and notes the gap, or (Markdown token set) makes it a BlankLine block *)
  Hypothesis Hblank : forall rec m B ln acc lo st,
    dispatch_loop types rec (S m) (NL :: B) ln acc lo st = dispatch_loop types rec m B (ln + 1) (blank_entry md ln ++ acc) (lo || negb md) st.

  (* a block that takes all of A whatever follows the blank line, then a blank line, then B *)
  Lemma seq_step A B ln st p stA esB loB stB :
    A <> [] ->
    try_types types (tokenize_block types f) types (A ++ NL :: B) ln st = Some (p, length A, stA) ->
    tokenize_block types (S f) B (ln + nlines (length A) + 1) stA = (esB, loB, stB) ->
    tokenize_block types (S f) (A ++ NL :: B) ln st = (p :: blank_entry md (ln + nlines (length A)) ++ esB, negb md || loB, stB).
  Proof.
    intros Hne Ht HB. cbn [tokenize_block] in *. set (rec := tokenize_block types f) in *.
    destruct A as [|x X]; [contradiction|]. cbn [app dispatch_loop]. change (x :: X ++ NL :: B) with ((x :: X) ++ NL :: B). rewrite Ht.
    assert (Esk : skipn (length (x :: X)) ((x :: X) ++ NL :: B) = NL :: B).
    { rewrite skipn_app, (skipn_all (x :: X)), Nat.sub_diag. reflexivity. }
    rewrite Esk.
    replace (length ((x :: X) ++ NL :: B)) with (S (S (length X + length B))) by (rewrite app_length; cbn [length]; lia).
    cbn [length].
    rewrite Hblank. rewrite dispatch_general.
    rewrite <- (fuel_suffices types rec (S (length B)) (S (length X + length B)) B) by lia.
    cbn [length] in HB. rewrite HB. cbn [orb]. f_equal. f_equal.
    unfold blank_entry. destruct md; reflexivity.
  Qed.
End Seq.

(* ---- well-formed trees (a computable predicate) ---- *)
Definition plain_line_b (l : str) : bool :=
  plain_text l && plain_first (hd 0 l) && (match l with [] => false | _ => true end) && negb (is_space_c (last l 0)).
Lemma plain_line_reflect l : plain_line_b l = true -> plain_line l.
Proof.
  unfold plain_line_b, plain_line. intros H. repeat rewrite andb_true_iff in H. destruct H as [[[H1 H2] H3] H4].
  repeat split; try assumption; [destruct l; [discriminate|discriminate]|apply negb_true_iff in H4; exact H4].
Qed.

Definition marker_okb (mk : marker) : bool :=
  match mk with
  | MBullet b => (b =? 43) || (b =? 45) || (b =? 42)
  | MOrdered ds d => (match ds with [] => false | _ => true end) && Nat.leb (length ds) 9 &&
                     forallb (fun x => (48 <=? x) && (x <=? 57)) ds && ((d =? 46) || (d =? 41))
  end.
Lemma marker_ok_reflect mk : marker_okb mk = true -> marker_ok mk.
Proof.
  destruct mk as [b|ds d]; cbn [marker_okb marker_ok]; intros H.
  - repeat rewrite orb_true_iff in H. destruct H as [[H|H]|H]; apply Z.eqb_eq in H; auto.
  - repeat rewrite andb_true_iff in H. destruct H as [[[H1 H2] H3] H4]. repeat split.
    + destruct ds; [discriminate|discriminate].
    + apply Nat.leb_le. exact H2.
    + apply Forall_forall. intros x Hx. rewrite forallb_forall in H3. specialize (H3 x Hx).
      apply andb_true_iff in H3 as [A B]. apply Z.leb_le in A, B. lia.
    + apply orb_true_iff in H4 as [H4|H4]; apply Z.eqb_eq in H4; auto.
Qed.

Definition sline_okb (l : sline) : bool :=
  match l with SBlank => true | SLine _ c body => first_ok c && negb (mem 10 body) end.
Definition notab_b (l : sline) : bool := negb (mem 9 (render_line l)).
Definition last_not_blank_b (ls : list sline) : bool := match rev ls with SBlank :: _ => false | _ => true end.

(* what a container's content must look like: it starts with a non-space character, has no tabs, does not end in a blank line *)
Definition good_b (ls : list sline) : bool :=
  match ls with
  | SLine 0 c body :: r => nonspace c && negb (mem 10 body) && forallb sline_okb r && forallb notab_b ls && last_not_blank_b ls
  | _ => false
  end.

Definition is_item (t : ftree) : bool := match t with FItem _ _ _ | FMore _ _ _ _ _ => true | _ => false end.
(* the list type of a marker: the bullet character, or the delimiter of an ordered marker *)
Definition mkey (mk : marker) : Z := match mk with MBullet b => b | MOrdered _ d => d end.
Fixpoint seq_ok_b (ts : list ftree) : bool :=      (* two lists are never neighbours (they would be one list, or their blank line would be the first one's) *)
  match ts with
  | [] => false
  | [_] => true
  | t :: ((t2 :: _) as r) => negb (is_item t && is_item t2) && seq_ok_b r
  end.

Definition item_first_line (mk : marker) (pad : nat) (inner : list sline) : str :=
  match inner with
  | SLine 0 c0 body0 :: _ => marker_str mk ++ repeat 32 pad ++ c0 :: body0 ++ [10]
  | _ => []
  end.

(* a continuation line of a paragraph: a line that starts no block, can be neither a setext underline nor a list item, without tabs *)
Definition cont_okb (l : str) : bool := block_line_b l && cont_first (hd 0 l) && negb (mem 9 l).

Fixpoint wf_b (t : ftree) : bool :=
  match t with
  | FPara c body more => block_line_b (c :: body) && negb (mem 9 (c :: body)) &&
                         nomatch fl_block_token_ListItem_pattern re_block_token_ListItem_pattern c && forallb cont_okb more &&
                         inert_para_b ((c :: body) :: more)       (* delimiters allowed, as long as none can open or close anything *)
  | FFence ch n content =>
    ((ch =? 96) || (ch =? 126)) && Nat.leb 3 n && forallb sline_okb content && forallb notab_b content &&
    forallb (fun l => match l with SBlank => true | SLine _ c _ => negb (c =? ch) end) content
  | FQuote ts => seq_ok_b ts && forallb wf_b ts && good_b (join_blank (map spell ts))
  | FItem mk pad ts =>
    marker_okb mk && Nat.leb 1 pad && Nat.leb pad 4 && seq_ok_b ts && forallb wf_b ts && good_b (join_blank (map spell ts)) &&
    negb (thematic_start (item_first_line mk pad (join_blank (map spell ts))))
  | FMore mk pad ts bl next =>
    marker_okb mk && Nat.leb 1 pad && Nat.leb pad 4 && seq_ok_b ts && forallb wf_b ts && good_b (join_blank (map spell ts)) &&
    negb (thematic_start (item_first_line mk pad (join_blank (map spell ts)))) &&
    is_item next && (mkey mk =? mkey (marker_of next)) && wf_b next      (* the rest of the list: same bullet / same delimiter *)
  | FHead lv c body =>
    Nat.leb 1 lv && Nat.leb lv 6 && plain_text (c :: body) && negb (mem 35 (c :: body)) && negb (mem 9 (c :: body)) &&
    negb (is_space_c c) && negb (is_space_c (last (c :: body) 0))
  | FRule c _ => (c =? 45) || (c =? 95) || (c =? 42)
  | FEm c0 pre ch double w post =>
    let line := c0 :: em_body pre ch double w post in
    ((ch =? 42) || (ch =? 95)) && emph_word w && plain_text (c0 :: pre) && plain_text post && edge_pre (c0 :: pre) && edge_post post &&
    plain_first c0 && nomatch fl_block_token_ListItem_pattern re_block_token_ListItem_pattern c0 && negb (is_space_c (last line 0))
  | FLink c0 pre w dest post =>
    ilink_ok (c0 :: pre) w dest post && plain_first c0 && nomatch fl_block_token_ListItem_pattern re_block_token_ListItem_pattern c0 &&
    negb (is_space_c (last (c0 :: link_body pre w dest post) 0))
  | FSent c0 t0 gs =>
    mixed_ok (c0 :: t0) gs && plain_first c0 && nomatch fl_block_token_ListItem_pattern re_block_token_ListItem_pattern c0 &&
    negb (is_space_c (last (c0 :: t0 ++ mbody gs) 0))
  | FTick c0 pre n code post =>
    code_ok (c0 :: pre) code post && plain_first c0 && nomatch fl_block_token_ListItem_pattern re_block_token_ListItem_pattern c0 &&
    negb (is_space_c (last (c0 :: tick_body pre n code post) 0))
  | FBrk c body k more => brk_para_b ((c :: body, k) :: more)
  | FOne c0 pre x post =>
    inl_ok (c0 :: pre) x post && plain_first c0 && nomatch fl_block_token_ListItem_pattern re_block_token_ListItem_pattern c0 &&
    negb (is_space_c (last (c0 :: one_body pre x post) 0))
  end.

(* ---- the text of the spelled forms ---- *)
Lemma text_quote ls : text_of (map quote_s ls) = map (qline true) (text_of ls).
Proof.
  unfold text_of. rewrite !map_map. apply map_ext. intros [|k c body]; [reflexivity|].
  cbn [quote_s render_line qline]. unfold line_of. cbn [repeat app]. rewrite <- !app_assoc. reflexivity.
Qed.

Lemma text_join x y r : text_of (join_blank (x :: y :: r)) = text_of x ++ NL :: text_of (join_blank (y :: r)).
Proof.
  unfold text_of, join_blank. cbn [flat_map]. rewrite !map_app. cbn [map render_line app]. reflexivity.
Qed.

Lemma text_embed w rest : text_of (map (embed_s w) rest) = map (embed_line w) rest.
Proof. unfold text_of. rewrite map_map. apply map_ext. intros [|k c body]; reflexivity. Qed.

Lemma text_item mk pad c0 body0 rest : marker_ok mk ->
  text_of (item_lines mk pad (SLine 0 c0 body0 :: rest)) =
  (marker_str mk ++ repeat 32 pad ++ c0 :: body0 ++ [10]) :: map (embed_line (length (marker_str mk) + pad)) rest.
Proof.
  intros Hok. destruct (marker_first mk Hok) as (m0 & mr & Em & _). unfold item_lines. rewrite Em.
  unfold text_of. cbn [map render_line]. fold (text_of (map (embed_s (length (m0 :: mr) + pad)) rest)). rewrite text_embed.
  f_equal. unfold line_of. cbn [repeat app]. rewrite <- !app_assoc. reflexivity.
Qed.

Lemma good_lines ls : good_b ls = true ->
  exists c0 body0 rest, ls = SLine 0 c0 body0 :: rest /\ nonspace c0 = true /\ mem 10 body0 = false /\
                        Forall sline_ok rest /\ last_not_blank ls /\ Forall (ok_line true) (text_of ls) /\ text_of ls <> [].
Proof.
  unfold good_b. destruct ls as [|[|[|k] c body] r]; try discriminate. intros H.
  repeat rewrite andb_true_iff in H. destruct H as [[[[H1 H2] H3] H4] H5].
  exists c, body, r. repeat split; try assumption.
  - apply negb_true_iff. exact H2.
  - apply Forall_forall. intros x Hx. rewrite forallb_forall in H3. specialize (H3 x Hx).
    destruct x as [|k c' b']; [exact I|]. cbn [sline_okb] in H3. apply andb_true_iff in H3 as [A B]. apply negb_true_iff in B. split; assumption.
  - unfold last_not_blank, last_not_blank_b in *. destruct (rev (SLine 0 c body :: r)) as [|[] ?]; [exact I|discriminate|exact I].
  - unfold text_of. apply Forall_forall. intros x Hx. apply in_map_iff in Hx as (y & <- & Hy).
    rewrite forallb_forall in H4. specialize (H4 y Hy). unfold notab_b in H4. apply negb_true_iff in H4.
    unfold ok_line. split; [exact H4|discriminate].
  - discriminate.
Qed.

Lemma pre_of_quote md ln ts : pre_of md ln (FQuote ts) = PQuote ln (pre_seq md ln ts).
Proof. reflexivity. Qed.
Lemma pre_of_item md ln mk pad ts :
  pre_of md ln (FItem mk pad ts) =
  PList ln [PItem ln (pre_seq md ln ts) (negb md && (1 <? Z.of_nat (length ts))) 0 (Z.of_nat (length (marker_str mk) + pad)) (marker_str mk)].
Proof. reflexivity. Qed.
Lemma pre_seq_length ln ts : length (pre_seq false ln ts) = length ts.
Proof.
  revert ln. induction ts as [|t r IH]; intros ln; [reflexivity|]. cbn [pre_seq length].
  destruct r; [reflexivity|]. cbn [blank_entry app]. rewrite IH. reflexivity.
Qed.

Lemma app_cons_assoc {A} (a : list A) x b c : a ++ x :: b ++ c = (a ++ x :: b) ++ c.
Proof. rewrite <- app_assoc. reflexivity. Qed.

Lemma skipn_item {A} (x : A) (a : list A) y b n : n = length a -> skipn (S (S n)) ((x :: a) ++ y :: b) = b.
Proof.
  intros ->. change (skipn (S (S (length a))) ((x :: a) ++ y :: b)) with (skipn (S (length a)) (a ++ y :: b)).
  rewrite skipn_app, skipn_all2 by lia. replace (S (length a) - length a)%nat with 1%nat by lia. reflexivity.
Qed.

Lemma skipn_item0 {A} (x : A) (a : list A) b n : n = length a -> skipn (S n) ((x :: a) ++ b) = b.
Proof. intros ->. change (skipn (S (length a)) ((x :: a) ++ b)) with (skipn (length a) (a ++ b)). rewrite skipn_app, skipn_all, Nat.sub_diag. reflexivity. Qed.

(* ---- lists of several items ---- *)
Lemma all_decimal_digits ds : ds <> [] -> Forall (fun x => 48 <= x <= 57) ds -> all_decimal ds = true.
Proof.
  intros Hne H. destruct ds as [|x r]; [contradiction|]. unfold all_decimal. apply forallb_forall. intros y Hy.
  rewrite Forall_forall in H. specialize (H y Hy).
  assert (y = 48 \/ y = 49 \/ y = 50 \/ y = 51 \/ y = 52 \/ y = 53 \/ y = 54 \/ y = 55 \/ y = 56 \/ y = 57) as D by lia.
  repeat (destruct D as [->|D]; [vm_compute; reflexivity|]). subst y. vm_compute. reflexivity.
Qed.

Lemma last_char_snoc ds d : last_char (ds ++ [d]) = d.
Proof. unfold last_char. apply last_last. Qed.

(* List.same_marker_type on well-formed markers: the same bullet character, or the same delimiter *)
Lemma same_marker_key a b : marker_ok a -> marker_ok b -> same_marker_type (marker_str a) (marker_str b) = (mkey a =? mkey b).
Proof.
  intros Ha Hb. unfold same_marker_type. destruct a as [x|ds d], b as [y|ds' d']; cbn [marker_str mkey marker_ok] in *.
  - cbn [slen length Z.of_nat Pos.of_succ_nat Z.eqb Pos.eqb str_eqb]. rewrite andb_true_r. reflexivity.
  - destruct Hb as (Hne & _ & _ & Hd). cbn [slen length Z.of_nat Pos.of_succ_nat Z.eqb Pos.eqb].
    destruct ds' as [|y r]; [contradiction|]. cbn [app str_eqb]. destruct r; cbn [app str_eqb]; rewrite ?andb_false_r;
      symmetry; apply Z.eqb_neq; destruct Ha as [->|[->| ->]], Hd as [->| ->]; discriminate.
  - destruct Ha as (Hne & _ & _ & Hd). unfold slen. rewrite app_length. cbn [length].
    destruct ds as [|x r]; [contradiction|]. cbn [length].
    destruct (Z.of_nat (S (length r) + 1) =? 1) eqn:E; [apply Z.eqb_eq in E; lia|].
    cbn [removelast all_decimal]. rewrite andb_false_r. cbn [andb].
    symmetry; apply Z.eqb_neq; destruct Hb as [->|[->| ->]], Hd as [->| ->]; discriminate.
  - destruct Ha as (Hne & _ & Hds & Hd). destruct Hb as (Hne' & _ & Hds' & Hd').
    unfold slen. rewrite app_length. cbn [length]. destruct ds as [|x r]; [contradiction|]. cbn [length].
    destruct (Z.of_nat (S (length r) + 1) =? 1) eqn:E; [apply Z.eqb_eq in E; lia|].
    rewrite !removelast_last, !last_char_snoc, (all_decimal_digits (x :: r) Hne Hds), (all_decimal_digits ds' Hne' Hds'). reflexivity.
Qed.

Fixpoint chain_len (t : ftree) : nat := match t with FMore _ _ _ _ next => S (chain_len next) | _ => 1%nat end.

Section Chain.
  Variable md : bool.
  (* the items of a list, as the pre-tokens List.read returns them *)
  Fixpoint chain_items (ln : Z) (t : ftree) : list pre :=
    match t with
    | FItem mk pad ts => [PItem ln (pre_seq md ln ts) (negb md && (1 <? Z.of_nat (length ts))) 0 (Z.of_nat (length (marker_str mk) + pad)) (marker_str mk)]
    | FMore mk pad ts bl next =>
      let h := Z.of_nat (length (item_lines mk pad (join_blank (map spell ts)))) in
      PItem ln (pre_seq md ln ts ++ (if bl then blank_entry md (ln + h) else []))
            (if bl then negb md else negb md && (1 <? Z.of_nat (length ts))) 0 (Z.of_nat (length (marker_str mk) + pad)) (marker_str mk)
      :: chain_items (ln + h + (if bl then 1 else 0)) next
    | _ => []
    end.

  Lemma pre_of_more ln mk pad ts bl next :
    pre_of md ln (FMore mk pad ts bl next) =
    let h := Z.of_nat (length (item_lines mk pad (join_blank (map spell ts)))) in
    match pre_of md (ln + h + (if bl then 1 else 0)) next with
    | PList _ items => PList ln (PItem ln (pre_seq md ln ts ++ (if bl then blank_entry md (ln + h) else []))
                                       (if bl then negb md else negb md && (1 <? Z.of_nat (length ts))) 0 (Z.of_nat (length (marker_str mk) + pad)) (marker_str mk) :: items)
    | other => other
    end.
  Proof. reflexivity. Qed.

  Lemma pre_of_chain : forall t ln, is_item t = true -> wf_b t = true -> pre_of md ln t = PList ln (chain_items ln t).
  Proof.
    induction t as [| | | mk pad ts | mk pad ts bl next IH | | | | | | | | ]; intros ln Hi Hw; try discriminate.
    - reflexivity.
    - rewrite pre_of_more. cbv zeta. cbn [wf_b] in Hw. repeat rewrite andb_true_iff in Hw. destruct Hw as [[[_ Hin] _] Hwn].
      rewrite (IH _ Hin Hwn). reflexivity.
  Qed.

  Lemma chain_items_nonempty t ln : is_item t = true -> chain_items ln t <> [].
  Proof. destruct t; try discriminate; intros _; discriminate. Qed.
End Chain.

(* List.read's last step: the last item is loose only if it holds more than one block *)
Definition fix_last (items : list pre) : list pre :=
  match rev items with
  | PItem l e lo i p ld :: before => rev (PItem l e ((1 <? nlines (length e)) && lo) i p ld :: before)
  | _ => items
  end.
Lemma fix_last_cons x y r : fix_last (x :: y :: r) = x :: fix_last (y :: r).
Proof.
  unfold fix_last. change (rev (x :: y :: r)) with (rev (y :: r) ++ [x]).
  destruct (rev (y :: r)) as [|z before] eqn:E.
  - apply (f_equal (@length pre)) in E. rewrite rev_length in E. discriminate.
  - cbn [app]. destruct z; try reflexivity.
    cbn [rev]. rewrite rev_app_distr. cbn [rev app]. reflexivity.
Qed.

Section Main.
  Variable types : list block_kind.
  Variable md : bool.
  Hypothesis Hblank : forall rec m B ln acc lo st,
    dispatch_loop types rec (S m) (NL :: B) ln acc lo st = dispatch_loop types rec m B (ln + 1) (blank_entry md ln ++ acc) (lo || negb md) st.
  Hypothesis Hq : quote_first types = true.
  Hypothesis Hl : list_first types = true.
  Hypothesis Hp : In BK_Paragraph types.
  Hypothesis Hf : fence_first types = true.
  Hypothesis Hh : heading_first types = true.
  Hypothesis Hr : thematic_first types = true.

  Definition P (f : nat) : Prop := forall t ln st, wf_b t = true -> (depth t <= f)%nat ->
    tokenize_block types (S f) (text_of (spell t)) ln st = ([pre_of md ln t], false, st_after st t).
  Definition Q (f : nat) : Prop := forall ts ln st, seq_ok_b ts = true -> forallb wf_b ts = true -> Forall (fun t => (depth t <= f)%nat) ts ->
    tokenize_block types (S f) (text_of (join_blank (map spell ts))) ln st = (pre_seq md ln ts, negb md && (1 <? Z.of_nat (length ts)), st_seq st ts).
  (* what may follow a block after a blank line: anything, except that after a list it must be a line that is neither a
     continuation of the item nor a list marker *)
  Definition follower_ok (t : ftree) (B : list str) : Prop :=
    is_item t = false \/ B = [] \/
    exists l2 more, B = l2 :: more /\ (forall p, 0 < p -> parse_continuation l2 p = None) /\ parse_marker l2 = None.

  (* a block as the reader sees it when a blank line and more text follow *)
  Definition C (f : nat) : Prop := forall t ln st, wf_b t = true -> (depth t <= f)%nat ->
    text_of (spell t) <> [] /\
    forall B, follower_ok t B ->
              try_types types (tokenize_block types f) types (text_of (spell t) ++ NL :: B) ln st =
              Some (pre_of md ln t, length (text_of (spell t)), st_after st t).

  Lemma depth_children t ts f : In t ts -> (S (fold_right (fun t m => Nat.max (depth t) m) 0%nat ts) <= S f)%nat -> (depth t <= f)%nat.
  Proof.
    intros Hin H. apply le_S_n in H. induction ts as [|x r IH]; [destruct Hin|].
    cbn [fold_right] in H. destruct Hin as [->|Hin]; [lia|apply IH; [exact Hin|lia]].
  Qed.

  Lemma children_depth ts f : (S (fold_right (fun t m => Nat.max (depth t) m) 0%nat ts) <= S f)%nat -> Forall (fun t => (depth t <= f)%nat) ts.
  Proof. intros H. apply Forall_forall. intros t Hin. eapply depth_children; eassumption. Qed.

  Lemma head_wf lv c body : wf_b (FHead lv c body) = true -> head_ok lv c body /\ plain_text (c :: body) = true.
  Proof.
    cbn [wf_b]. intros H. repeat rewrite andb_true_iff in H. destruct H as [[[[[[H1 H2] H3] H4] _] H6] H7].
    apply Nat.leb_le in H1, H2. apply negb_true_iff in H4, H6, H7.
    split; [|exact H3]. repeat split; try assumption; try lia. apply plain_no; [reflexivity|exact H3].
  Qed.

  Lemma head_text lv c body : (1 <= lv)%nat -> text_of (spell (FHead lv c body)) = [hline lv (c :: body)].
  Proof. intros H. cbn [spell text_of map]. rewrite (hline_sline lv c body H). reflexivity. Qed.

  Lemma head_try rec lv c body rest ln st : wf_b (FHead lv c body) = true ->
    try_types types rec types (text_of (spell (FHead lv c body)) ++ rest) ln st = Some (pre_of md ln (FHead lv c body), 1%nat, st).
  Proof.
    intros Hw. destruct (head_wf lv c body Hw) as [Hok _]. pose proof Hok as ((H1 & _) & _). rewrite head_text by exact H1. cbn [app pre_of].
    apply (try_types_heading types rec lv c body rest ln st Hok types Hh).
  Qed.

  Lemma head_tokenize f lv c body ln st : wf_b (FHead lv c body) = true ->
    tokenize_block types (S f) (text_of (spell (FHead lv c body))) ln st = ([pre_of md ln (FHead lv c body)], false, st).
  Proof.
    intros Hw. pose proof (head_try (tokenize_block types f) lv c body [] ln st Hw) as T. rewrite app_nil_r in T.
    destruct (head_wf lv c body Hw) as [((H1 & _) & _) _]. rewrite head_text in * by exact H1.
    cbn [tokenize_block length dispatch_loop]. rewrite T. reflexivity.
  Qed.

  Lemma rule_wf c n : wf_b (FRule c n) = true -> c = 45 \/ c = 95 \/ c = 42.
  Proof.
    cbn [wf_b]. intros H. apply orb_true_iff in H as [H|H]; [apply orb_true_iff in H as [H|H]|]; apply Z.eqb_eq in H; auto.
  Qed.

  Lemma rule_text c n : text_of (spell (FRule c n)) = [tline c n].
  Proof. reflexivity. Qed.

  Lemma rule_try rec c n rest ln st : wf_b (FRule c n) = true ->
    try_types types rec types (text_of (spell (FRule c n)) ++ rest) ln st = Some (pre_of md ln (FRule c n), 1%nat, st).
  Proof. intros Hw. rewrite rule_text. cbn [app pre_of]. apply (try_types_thematic types rec c (rule_wf c n Hw) n rest ln st types Hr). Qed.

  Lemma rule_tokenize f c n ln st : wf_b (FRule c n) = true ->
    tokenize_block types (S f) (text_of (spell (FRule c n))) ln st = ([pre_of md ln (FRule c n)], false, st).
  Proof.
    intros Hw. pose proof (rule_try (tokenize_block types f) c n [] ln st Hw) as T. rewrite app_nil_r in T. rewrite rule_text in *.
    cbn [tokenize_block length dispatch_loop]. rewrite T. reflexivity.
  Qed.

  (* ---- FEm: a one-line paragraph with one emphasised phrase ---- *)
  Definition em_line (c0 : Z) (pre : str) (ch : Z) (double : bool) (w post : str) : str := c0 :: em_body pre ch double w post.

  Lemma em_wf c0 pre ch double w post : wf_b (FEm c0 pre ch double w post) = true ->
    (ch = 42 \/ ch = 95) /\ emph_word w = true /\ plain_text (c0 :: pre) = true /\ plain_text post = true /\
    edge_pre (c0 :: pre) = true /\ edge_post post = true /\ plain_first c0 = true /\
    nomatch fl_block_token_ListItem_pattern re_block_token_ListItem_pattern c0 = true /\ is_space_c (last (em_line c0 pre ch double w post) 0) = false.
  Proof.
    cbn [wf_b]. cbv zeta. intros H. repeat rewrite andb_true_iff in H. destruct H as [[[[[[[[H1 H2] H3] H4] H5] H6] H7] H8] H9].
    apply negb_true_iff in H9. repeat split; try assumption.
    apply orb_true_iff in H1 as [H1|H1]; apply Z.eqb_eq in H1; auto.
  Qed.

  Lemma em_no_pipe c0 pre ch double w post : wf_b (FEm c0 pre ch double w post) = true -> mem 124 (em_line c0 pre ch double w post) = false.
  Proof.
    intros Hw. destruct (em_wf _ _ _ _ _ _ Hw) as (Hch & Hew & Hpre & Hpost & _).
    unfold emph_word in Hew. repeat rewrite andb_true_iff in Hew. destruct Hew as [[[Hpw _] _] _].
    assert (R : mem 124 (em_run ch double) = false) by (unfold em_run; destruct double, Hch as [->| ->]; reflexivity).
    unfold em_line, em_body. change (c0 :: pre ++ em_run ch double ++ w ++ em_run ch double ++ post) with ((c0 :: pre) ++ em_run ch double ++ w ++ em_run ch double ++ post).
    unfold mem. rewrite !existsb_app. fold (mem 124 (c0 :: pre)). fold (mem 124 (em_run ch double)). fold (mem 124 w). fold (mem 124 post).
    rewrite (plain_no 124 _ eq_refl Hpre), (plain_no 124 _ eq_refl Hpw), (plain_no 124 _ eq_refl Hpost), R. reflexivity.
  Qed.

  Lemma em_block_line c0 pre ch double w post : wf_b (FEm c0 pre ch double w post) = true -> block_line (em_line c0 pre ch double w post).
  Proof.
    intros Hw. pose proof (em_no_pipe _ _ _ _ _ _ Hw) as Hpipe. destruct (em_wf _ _ _ _ _ _ Hw) as (_ & _ & _ & _ & _ & _ & Hfst & _ & Hlst).
    split; [exact Hfst|]. split; [exact Hpipe|]. split; [discriminate|exact Hlst].
  Qed.

  Lemma em_text c0 pre ch double w post : text_of (spell (FEm c0 pre ch double w post)) = [em_line c0 pre ch double w post ++ [10]].
  Proof. reflexivity. Qed.

  Lemma em_try rec c0 pre ch double w post rest ln st : wf_b (FEm c0 pre ch double w post) = true -> (rest = [] \/ exists B, rest = NL :: B) ->
    try_types types rec types (text_of (spell (FEm c0 pre ch double w post)) ++ rest) ln st = Some (pre_of md ln (FEm c0 pre ch double w post), 1%nat, st).
  Proof.
    intros Hw Hrest. rewrite em_text. cbn [app pre_of].
    apply (try_types_para_lines types rec (em_line c0 pre ch double w post) rest ln st _ _ (em_block_line _ _ _ _ _ _ Hw)); [|exact Hp].
    destruct Hrest as [->|[B ->]]; [reflexivity|]. cbn [para_loop]. rewrite nl_blank. reflexivity.
  Qed.

  Lemma em_tokenize f c0 pre ch double w post ln st : wf_b (FEm c0 pre ch double w post) = true ->
    tokenize_block types (S f) (text_of (spell (FEm c0 pre ch double w post))) ln st = ([pre_of md ln (FEm c0 pre ch double w post)], false, st).
  Proof.
    intros Hw. pose proof (em_try (tokenize_block types f) c0 pre ch double w post [] ln st Hw (or_introl eq_refl)) as T. rewrite app_nil_r in T. rewrite em_text in *.
    cbn [tokenize_block length dispatch_loop]. rewrite T. reflexivity.
  Qed.

  (* ---- FLink: a one-line paragraph with one inline link ---- *)
  Definition link_line (c0 : Z) (pre w dest post : str) : str := c0 :: link_body pre w dest post.

  Lemma link_wf c0 pre w dest post : wf_b (FLink c0 pre w dest post) = true ->
    ilink_ok (c0 :: pre) w dest post = true /\ plain_first c0 = true /\
    nomatch fl_block_token_ListItem_pattern re_block_token_ListItem_pattern c0 = true /\ is_space_c (last (link_line c0 pre w dest post) 0) = false.
  Proof.
    cbn [wf_b]. intros H. repeat rewrite andb_true_iff in H. destruct H as [[[H1 H2] H3] H4]. apply negb_true_iff in H4. repeat split; assumption.
  Qed.

  Lemma link_parts c0 pre w dest post : ilink_ok (c0 :: pre) w dest post = true ->
    plain_text (c0 :: pre) = true /\ plain_text w = true /\ plain_text post = true /\ forallb dest_char dest = true.
  Proof.
    unfold ilink_ok. intros H. repeat rewrite andb_true_iff in H. destruct H as [[[[[H1 H2] H3] _] H5] _]. repeat split; assumption.
  Qed.

  Lemma link_no c c0 pre w dest post : mem c triggers_r = true -> c <> 91 -> c <> 93 -> c <> 40 -> c <> 41 ->
    wf_b (FLink c0 pre w dest post) = true -> mem c (link_line c0 pre w dest post) = false.
  Proof.
    intros Hc C1 C2 C3 C4 Hw. destruct (link_wf _ _ _ _ _ Hw) as (Hok & _). destruct (link_parts _ _ _ _ _ Hok) as (Hpre & Hpw & Hpost & Hd).
    assert (P : forall t, plain_text t = true -> mem c t = false).
    { intros t Ht. apply plain_no; [|exact Ht]. unfold mem, triggers_r, triggers in *. cbn [existsb] in *.
      repeat (apply orb_true_iff in Hc; destruct Hc as [Hc|Hc]); try discriminate; rewrite Hc; cbn [orb]; rewrite ?orb_true_r; reflexivity. }
    unfold link_line, link_body. change (c0 :: pre ++ [91] ++ w ++ [93; 40] ++ dest ++ [41] ++ post) with ((c0 :: pre) ++ [91] ++ w ++ [93; 40] ++ dest ++ [41] ++ post).
    unfold mem. rewrite !existsb_app. fold (mem c (c0 :: pre)). fold (mem c w). fold (mem c dest). fold (mem c post).
    rewrite (P _ Hpre), (P _ Hpw), (P _ Hpost), (dest_no c dest Hc Hd). cbn [existsb orb].
    apply Z.eqb_neq in C1, C2, C3, C4. rewrite C1, C2, C3, C4. reflexivity.
  Qed.

  Lemma link_block_line c0 pre w dest post : wf_b (FLink c0 pre w dest post) = true -> block_line (link_line c0 pre w dest post).
  Proof.
    intros Hw. destruct (link_wf _ _ _ _ _ Hw) as (_ & Hfst & _ & Hlst).
    split; [exact Hfst|]. split; [apply (link_no 124); try discriminate; [reflexivity|exact Hw]|]. split; [discriminate|exact Hlst].
  Qed.

  Lemma link_text c0 pre w dest post : text_of (spell (FLink c0 pre w dest post)) = [link_line c0 pre w dest post ++ [10]].
  Proof. reflexivity. Qed.

  Lemma link_try rec c0 pre w dest post rest ln st : wf_b (FLink c0 pre w dest post) = true -> (rest = [] \/ exists B, rest = NL :: B) ->
    try_types types rec types (text_of (spell (FLink c0 pre w dest post)) ++ rest) ln st = Some (pre_of md ln (FLink c0 pre w dest post), 1%nat, st).
  Proof.
    intros Hw Hrest. rewrite link_text. cbn [app pre_of].
    apply (try_types_para_lines types rec (link_line c0 pre w dest post) rest ln st _ _ (link_block_line _ _ _ _ _ Hw)); [|exact Hp].
    destruct Hrest as [->|[B ->]]; [reflexivity|]. cbn [para_loop]. rewrite nl_blank. reflexivity.
  Qed.

  Lemma link_tokenize f c0 pre w dest post ln st : wf_b (FLink c0 pre w dest post) = true ->
    tokenize_block types (S f) (text_of (spell (FLink c0 pre w dest post))) ln st = ([pre_of md ln (FLink c0 pre w dest post)], false, st).
  Proof.
    intros Hw. pose proof (link_try (tokenize_block types f) c0 pre w dest post [] ln st Hw (or_introl eq_refl)) as T. rewrite app_nil_r in T. rewrite link_text in *.
    cbn [tokenize_block length dispatch_loop]. rewrite T. reflexivity.
  Qed.

  (* ---- FSent: a one-line paragraph with emphasised phrases and links ---- *)
  Definition sent_line (c0 : Z) (t0 : str) (gs : list mseg) : str := c0 :: t0 ++ mbody gs.

  Lemma sent_wf c0 t0 gs : wf_b (FSent c0 t0 gs) = true ->
    mixed_ok (c0 :: t0) gs = true /\ plain_first c0 = true /\
    nomatch fl_block_token_ListItem_pattern re_block_token_ListItem_pattern c0 = true /\ is_space_c (last (sent_line c0 t0 gs) 0) = false.
  Proof.
    cbn [wf_b]. intros H. repeat rewrite andb_true_iff in H. destruct H as [[[H1 H2] H3] H4]. apply negb_true_iff in H4. repeat split; assumption.
  Qed.

  Lemma sent_parts c0 t0 gs : mixed_ok (c0 :: t0) gs = true -> plain_text (c0 :: t0) = true /\ Forall mseg_ok gs.
  Proof.
    unfold mixed_ok. intros H. repeat rewrite andb_true_iff in H. destruct H as [[H1 _] H3]. split; [exact H1|].
    apply Forall_forall. intros g Hg. rewrite forallb_forall in H3. apply mseg_okb_spec. apply H3. exact Hg.
  Qed.

  Lemma sent_no c c0 t0 gs : mem c triggers_r = true -> wf_b (FSent c0 t0 gs) = true -> mem c (sent_line c0 t0 gs) = false.
  Proof.
    intros Hc Hw. destruct (sent_wf _ _ _ Hw) as (Hok & _). destruct (sent_parts _ _ _ Hok) as (Hpre & Hgs).
    unfold sent_line. change (c0 :: t0 ++ mbody gs) with ((c0 :: t0) ++ mbody gs). apply (mx_no (c0 :: t0) gs Hpre Hgs c Hc).
  Qed.

  Lemma sent_block_line c0 t0 gs : wf_b (FSent c0 t0 gs) = true -> block_line (sent_line c0 t0 gs).
  Proof.
    intros Hw. destruct (sent_wf _ _ _ Hw) as (_ & Hfst & _ & Hlst).
    split; [exact Hfst|]. split; [apply (sent_no 124); [reflexivity|exact Hw]|]. split; [discriminate|exact Hlst].
  Qed.

  Lemma sent_text c0 t0 gs : text_of (spell (FSent c0 t0 gs)) = [sent_line c0 t0 gs ++ [10]].
  Proof. reflexivity. Qed.

  Lemma sent_try rec c0 t0 gs rest ln st : wf_b (FSent c0 t0 gs) = true -> (rest = [] \/ exists B, rest = NL :: B) ->
    try_types types rec types (text_of (spell (FSent c0 t0 gs)) ++ rest) ln st = Some (pre_of md ln (FSent c0 t0 gs), 1%nat, st).
  Proof.
    intros Hw Hrest. rewrite sent_text. cbn [app pre_of].
    apply (try_types_para_lines types rec (sent_line c0 t0 gs) rest ln st _ _ (sent_block_line _ _ _ Hw)); [|exact Hp].
    destruct Hrest as [->|[B ->]]; [reflexivity|]. cbn [para_loop]. rewrite nl_blank. reflexivity.
  Qed.

  Lemma sent_tokenize f c0 t0 gs ln st : wf_b (FSent c0 t0 gs) = true ->
    tokenize_block types (S f) (text_of (spell (FSent c0 t0 gs))) ln st = ([pre_of md ln (FSent c0 t0 gs)], false, st).
  Proof.
    intros Hw. pose proof (sent_try (tokenize_block types f) c0 t0 gs [] ln st Hw (or_introl eq_refl)) as T. rewrite app_nil_r in T. rewrite sent_text in *.
    cbn [tokenize_block length dispatch_loop]. rewrite T. reflexivity.
  Qed.

  (* ---- FTick: a one-line paragraph with one code span ---- *)
  Definition tick_line (c0 : Z) (pre : str) (n : nat) (code post : str) : str := c0 :: tick_body pre n code post.

  Lemma tick_wf c0 pre n code post : wf_b (FTick c0 pre n code post) = true ->
    code_ok (c0 :: pre) code post = true /\ plain_first c0 = true /\
    nomatch fl_block_token_ListItem_pattern re_block_token_ListItem_pattern c0 = true /\ is_space_c (last (tick_line c0 pre n code post) 0) = false.
  Proof.
    cbn [wf_b]. intros H. repeat rewrite andb_true_iff in H. destruct H as [[[H1 H2] H3] H4]. apply negb_true_iff in H4. repeat split; assumption.
  Qed.

  Lemma tick_parts c0 pre code post : code_ok (c0 :: pre) code post = true ->
    plain_text (c0 :: pre) = true /\ plain_text post = true /\ code_text code = true.
  Proof.
    unfold code_ok. intros H. repeat rewrite andb_true_iff in H. destruct H as [[[H1 H2] H3] _]. repeat split; assumption.
  Qed.

  Lemma tick_no c c0 pre n code post : mem c triggers_c = true -> wf_b (FTick c0 pre n code post) = true -> mem c (tick_line c0 pre n code post) = false.
  Proof.
    intros Hc Hw. destruct (tick_wf _ _ _ _ _ Hw) as (Hok & _). destruct (tick_parts _ _ _ _ Hok) as (Hpre & Hpost & Hcode).
    exact (c_no (c0 :: pre) code post n Hpre Hpost Hcode c Hc).
  Qed.

  Lemma tick_block_line c0 pre n code post : wf_b (FTick c0 pre n code post) = true -> block_line (tick_line c0 pre n code post).
  Proof.
    intros Hw. destruct (tick_wf _ _ _ _ _ Hw) as (_ & Hfst & _ & Hlst).
    split; [exact Hfst|]. split; [apply (tick_no 124); [reflexivity|exact Hw]|]. split; [discriminate|exact Hlst].
  Qed.

  Lemma tick_text c0 pre n code post : text_of (spell (FTick c0 pre n code post)) = [tick_line c0 pre n code post ++ [10]].
  Proof. reflexivity. Qed.

  Lemma tick_try rec c0 pre n code post rest ln st : wf_b (FTick c0 pre n code post) = true -> (rest = [] \/ exists B, rest = NL :: B) ->
    try_types types rec types (text_of (spell (FTick c0 pre n code post)) ++ rest) ln st = Some (pre_of md ln (FTick c0 pre n code post), 1%nat, st).
  Proof.
    intros Hw Hrest. rewrite tick_text. cbn [app pre_of].
    apply (try_types_para_lines types rec (tick_line c0 pre n code post) rest ln st _ _ (tick_block_line _ _ _ _ _ Hw)); [|exact Hp].
    destruct Hrest as [->|[B ->]]; [reflexivity|]. cbn [para_loop]. rewrite nl_blank. reflexivity.
  Qed.

  Lemma tick_tokenize f c0 pre n code post ln st : wf_b (FTick c0 pre n code post) = true ->
    tokenize_block types (S f) (text_of (spell (FTick c0 pre n code post))) ln st = ([pre_of md ln (FTick c0 pre n code post)], false, st).
  Proof.
    intros Hw. pose proof (tick_try (tokenize_block types f) c0 pre n code post [] ln st Hw (or_introl eq_refl)) as T. rewrite app_nil_r in T. rewrite tick_text in *.
    cbn [tokenize_block length dispatch_loop]. rewrite T. reflexivity.
  Qed.

  (* ---- FBrk: a paragraph whose lines end in any number of spaces ---- *)
  Lemma fbrk_text c body k more : wf_b (FBrk c body k more) = true ->
    text_of (spell (FBrk c body k more)) = nl_lines (brk_lines ((c :: body, k) :: more)).
  Proof.
    cbn [wf_b]. intros Hw. pose proof (brk_lines_wline _ Hw) as Hall. cbn [spell]. unfold text_of, nl_lines. rewrite map_map.
    apply map_ext_in. intros l0 Hl0. rewrite Forall_forall in Hall. destruct (Hall l0 Hl0) as (_ & _ & Hne).
    destruct l0 as [|x t]; [contradiction|]. reflexivity.
  Qed.

  Lemma fbrk_try rec c body k more rest ln st : wf_b (FBrk c body k more) = true -> (rest = [] \/ exists B, rest = NL :: B) ->
    try_types types rec types (text_of (spell (FBrk c body k more)) ++ rest) ln st =
    Some (pre_of md ln (FBrk c body k more), length (text_of (spell (FBrk c body k more))), st).
  Proof.
    intros Hw Hrest. rewrite (fbrk_text _ _ _ _ Hw). cbn [pre_of]. cbn [wf_b] in Hw.
    rewrite (brk_try types Hp rec _ rest ln st Hw Hrest). unfold nl_lines. rewrite map_length. reflexivity.
  Qed.

  Lemma fbrk_tokenize f c body k more ln st : wf_b (FBrk c body k more) = true ->
    tokenize_block types (S f) (text_of (spell (FBrk c body k more))) ln st = ([pre_of md ln (FBrk c body k more)], false, st).
  Proof.
    intros Hw. rewrite (fbrk_text _ _ _ _ Hw). cbn [pre_of]. cbn [wf_b] in Hw. apply (brk_block types Hp f _ ln st Hw).
  Qed.

  (* ---- FOne: a one-line paragraph with a struck-through phrase, a backslash escape or an image ---- *)
  Definition one_line (c0 : Z) (pre : str) (x : inl) (post : str) : str := c0 :: one_body pre x post.

  Lemma one_wf c0 pre x post : wf_b (FOne c0 pre x post) = true ->
    inl_ok (c0 :: pre) x post = true /\ plain_first c0 = true /\
    nomatch fl_block_token_ListItem_pattern re_block_token_ListItem_pattern c0 = true /\ is_space_c (last (one_line c0 pre x post) 0) = false.
  Proof.
    cbn [wf_b]. intros H. repeat rewrite andb_true_iff in H. destruct H as [[[H1 H2] H3] H4]. apply negb_true_iff in H4. repeat split; assumption.
  Qed.

  Lemma one_no c c0 pre x post : c = 10 \/ c = 124 -> wf_b (FOne c0 pre x post) = true -> mem c (one_line c0 pre x post) = false.
  Proof. intros Hc Hw. destruct (one_wf _ _ _ _ Hw) as (Hok & _). exact (inl_no c (c0 :: pre) x post Hc Hok). Qed.

  Lemma one_block_line c0 pre x post : wf_b (FOne c0 pre x post) = true -> block_line (one_line c0 pre x post).
  Proof.
    intros Hw. destruct (one_wf _ _ _ _ Hw) as (_ & Hfst & _ & Hlst).
    split; [exact Hfst|]. split; [apply (one_no 124); [right; reflexivity|exact Hw]|]. split; [discriminate|exact Hlst].
  Qed.

  Lemma one_text c0 pre x post : text_of (spell (FOne c0 pre x post)) = [one_line c0 pre x post ++ [10]].
  Proof. reflexivity. Qed.

  Lemma one_try rec c0 pre x post rest ln st : wf_b (FOne c0 pre x post) = true -> (rest = [] \/ exists B, rest = NL :: B) ->
    try_types types rec types (text_of (spell (FOne c0 pre x post)) ++ rest) ln st = Some (pre_of md ln (FOne c0 pre x post), 1%nat, st).
  Proof.
    intros Hw Hrest. rewrite one_text. cbn [app pre_of].
    apply (try_types_para_lines types rec (one_line c0 pre x post) rest ln st _ _ (one_block_line _ _ _ _ Hw)); [|exact Hp].
    destruct Hrest as [->|[B ->]]; [reflexivity|]. cbn [para_loop]. rewrite nl_blank. reflexivity.
  Qed.

  Lemma one_tokenize f c0 pre x post ln st : wf_b (FOne c0 pre x post) = true ->
    tokenize_block types (S f) (text_of (spell (FOne c0 pre x post))) ln st = ([pre_of md ln (FOne c0 pre x post)], false, st).
  Proof.
    intros Hw. pose proof (one_try (tokenize_block types f) c0 pre x post [] ln st Hw (or_introl eq_refl)) as T. rewrite app_nil_r in T. rewrite one_text in *.
    cbn [tokenize_block length dispatch_loop]. rewrite T. reflexivity.
  Qed.

  Lemma cont_ok_reflect l : cont_okb l = true -> bl_cont l /\ mem 9 l = false.
  Proof.
    unfold cont_okb. intros H. repeat rewrite andb_true_iff in H. destruct H as [[H1 H2] H3]. apply block_line_b_spec in H1. apply negb_true_iff in H3.
    split; [split; assumption|exact H3].
  Qed.

  Lemma wf_para c body more : wf_b (FPara c body more) = true ->
    block_line (c :: body) /\ nomatch fl_block_token_ListItem_pattern re_block_token_ListItem_pattern c = true /\ Forall bl_cont more.
  Proof.
    cbn [wf_b]. intros H. repeat rewrite andb_true_iff in H. destruct H as [[[[H1 _] H2] H3] _]. apply block_line_b_spec in H1.
    split; [exact H1|]. split; [exact H2|]. apply Forall_forall. intros l Hin. rewrite forallb_forall in H3. apply (cont_ok_reflect l (H3 l Hin)).
  Qed.

  Lemma wf_para_inert c body more : wf_b (FPara c body more) = true -> inert_para_b ((c :: body) :: more) = true.
  Proof. cbn [wf_b]. intros H. repeat rewrite andb_true_iff in H. destruct H as [_ H]. exact H. Qed.

  Lemma para_text c body more : Forall bl_cont more -> text_of (spell (FPara c body more)) = nl_lines ((c :: body) :: more).
  Proof.
    intros H. cbn [spell text_of map render_line nl_lines]. unfold line_of. cbn [repeat app]. f_equal. rewrite map_map. apply map_ext_in.
    intros l Hin. rewrite Forall_forall in H. destruct (H l Hin) as [(_ & _ & Hne & _) _]. destruct l; [contradiction|reflexivity].
  Qed.

  Lemma para_pre ln c body more : pre_of md ln (FPara c body more) = PParagraph ln (nl_lines ((c :: body) :: more)).
  Proof. reflexivity. Qed.

  Lemma para_try rec c body more ln st : wf_b (FPara c body more) = true ->
    try_types types rec types (text_of (spell (FPara c body more))) ln st = Some (pre_of md ln (FPara c body more), S (length more), st).
  Proof.
    intros Hw. destruct (wf_para c body more Hw) as (PL & _ & Hc). rewrite (para_text c body more Hc), para_pre.
    pose proof (para_loop_lines types (ps_setext st) more [(c :: body) ++ [10]] 1 Hc) as PLoop. cbn [rev app] in PLoop.
    unfold nl_lines. cbn [map].
    rewrite (try_types_para_lines types rec (c :: body) _ ln st _ _ PL PLoop types Hp). reflexivity.
  Qed.

  Lemma tokenize_S f lines ln st :
    tokenize_block types (S f) lines ln st = dispatch_loop types (tokenize_block types f) (S (length lines)) lines ln [] false st.
  Proof. reflexivity. Qed.

  Lemma para_tokenize f c body more ln st : wf_b (FPara c body more) = true ->
    tokenize_block types (S f) (text_of (spell (FPara c body more))) ln st = ([pre_of md ln (FPara c body more)], false, st).
  Proof.
    intros Hw. destruct (wf_para c body more Hw) as (PL & _ & Hc). rewrite (para_text c body more Hc), para_pre.
    apply (lines_block types f (c :: body) more ln st Hp PL Hc).
  Qed.

  Lemma fence_text ch n content : (1 <= n)%nat -> text_of (spell (FFence ch n content)) = fence_block ch n content.
  Proof.
    intros Hn. cbn [spell]. unfold text_of, fence_block, fence_line. cbn [map render_line]. rewrite map_app. cbn [map render_line].
    assert (E : line_of 0 ch (repeat ch (n - 1)) = repeat ch n ++ [10]).
    { unfold line_of. cbn [repeat app]. destruct n as [|k]; [lia|]. replace (S k - 1)%nat with k by lia. reflexivity. }
    rewrite E. reflexivity.
  Qed.

  Lemma fence_wf ch n content : wf_b (FFence ch n content) = true ->
    fence_ok ch n /\ Forall sline_ok content /\ Forall (not_fence_start ch) content.
  Proof.
    cbn [wf_b]. intros H. repeat rewrite andb_true_iff in H. destruct H as [[[[Hc Hn] Hok] _] Hnf].
    split; [split; [apply orb_true_iff in Hc as [Hc|Hc]; apply Z.eqb_eq in Hc; auto|apply Nat.leb_le; exact Hn]|].
    split; apply Forall_forall; intros l0 Hin.
    - rewrite forallb_forall in Hok. specialize (Hok l0 Hin). destruct l0 as [|k c body]; [exact I|].
      cbn [sline_okb] in Hok. apply andb_true_iff in Hok as [A B]. apply negb_true_iff in B. split; assumption.
    - rewrite forallb_forall in Hnf. specialize (Hnf l0 Hin). destruct l0 as [|k c body]; [exact I|].
      cbn [not_fence_start]. apply negb_true_iff in Hnf. apply Z.eqb_neq. exact Hnf.
  Qed.

  Lemma fence_try rec ch n content rest ln st : wf_b (FFence ch n content) = true ->
    try_types types rec types (text_of (spell (FFence ch n content)) ++ rest) ln st =
    Some (pre_of md ln (FFence ch n content), length (text_of (spell (FFence ch n content))), st).
  Proof.
    intros Hw. destruct (fence_wf ch n content Hw) as (Hfo & Hok & Hnf).
    rewrite fence_text by (destruct Hfo as [_ H3]; lia).
    apply (try_types_fence types rec ch n content rest ln st Hfo Hok Hnf types Hf).
  Qed.

  Lemma fence_try_nil rec ch n content ln st : wf_b (FFence ch n content) = true ->
    try_types types rec types (text_of (spell (FFence ch n content))) ln st =
    Some (pre_of md ln (FFence ch n content), length (text_of (spell (FFence ch n content))), st).
  Proof. intros Hw. pose proof (fence_try rec ch n content [] ln st Hw) as T. rewrite app_nil_r in T. exact T. Qed.

  Lemma fence_tokenize f ch n content ln st : wf_b (FFence ch n content) = true ->
    tokenize_block types (S f) (text_of (spell (FFence ch n content))) ln st = ([pre_of md ln (FFence ch n content)], false, st).
  Proof.
    intros Hw. rewrite tokenize_S.
    pose proof (fence_try_nil (tokenize_block types f) ch n content ln st Hw) as T.
    destruct (text_of (spell (FFence ch n content))) as [|x X] eqn:E.
    - destruct (fence_wf ch n content Hw) as ((_ & H3) & _). rewrite fence_text in E by lia. discriminate.
    - cbn [dispatch_loop]. rewrite T.
      replace (skipn (length (x :: X)) (x :: X)) with (@nil str) by (symmetry; apply skipn_all).
      cbn [length]. destruct (length X); reflexivity.
  Qed.

  Lemma para_try_app rec c body more B ln st : wf_b (FPara c body more) = true ->
    try_types types rec types (text_of (spell (FPara c body more)) ++ NL :: B) ln st =
    Some (pre_of md ln (FPara c body more), length (text_of (spell (FPara c body more))), st).
  Proof.
    intros Hw. pose proof (para_try rec c body more ln st Hw) as T. destruct (wf_para c body more Hw) as (_ & _ & Hc).
    rewrite (para_text c body more Hc) in *. unfold nl_lines in *. cbn [map app length] in *. rewrite map_length.
    destruct (try_types_app types rec B ((c :: body) ++ [10]) (map (fun l => l ++ [10]) more) ln st types) as [T1 _].
    destruct (T1 _ _ _ T eq_refl) as (E & _ & _). exact E.
  Qed.

  Lemma nonspace_first_ok c : nonspace c = true -> first_ok c = true.
  Proof.
    intros H. unfold nonspace in H. apply negb_true_iff in H. unfold first_ok. apply negb_true_iff.
    destruct (c =? 32) eqn:E1; [apply Z.eqb_eq in E1; subst c; vm_compute in H; discriminate|].
    destruct (c =? 9) eqn:E2; [apply Z.eqb_eq in E2; subst c; vm_compute in H; discriminate|].
    destruct (c =? 10) eqn:E3; [apply Z.eqb_eq in E3; subst c; vm_compute in H; discriminate|]. reflexivity.
  Qed.

  (* the first line of a block that is not a list: not a list marker, and (starting in column 0) not a continuation line *)
  Lemma first_line_follower t : is_item t = false -> wf_b t = true ->
    exists l2 more, text_of (spell t) = l2 :: more /\ (forall p, 0 < p -> parse_continuation l2 p = None) /\ parse_marker l2 = None.
  Proof.
    intros Hi Hw. destruct t as [c body more|ch n content|ts|mk pad ts|mk pad ts bl next|lv hc hb|rc rn|e0 epre ech edbl ew epost|l0 lpre lw ldest lpost|s0 st0' sgs|k0 kpre kn kcode kpost|b0 bbody bk bmore|o0 opre ox opost]; [| | |discriminate|discriminate| | | | | | | |].
    - destruct (wf_para c body more Hw) as (Hw' & Hnm & _).
      destruct Hw' as (Hf1 & _ & _ & _). cbn [hd] in Hf1.
      assert (Hc : first_ok c = true).
      { apply nonspace_first_ok. unfold nonspace. change (cat_match CatSpace c) with (is_space_c c). rewrite (plain_first_not_space c Hf1). reflexivity. }
      assert (Hb : mem 10 body = false).
      { destruct (inert_para_core _ (wf_para_inert c body more Hw)) as (_ & _ & _ & H10). inversion H10 as [|? ? M _]; subst.
        unfold mem in M. cbn [existsb] in M. apply orb_false_iff in M. tauto. }
      cbn [spell text_of map render_line]. eexists. eexists. split; [reflexivity|]. split.
      + intros p Hp0. apply parse_continuation_short; assumption.
      + unfold parse_marker, line_of. cbn [repeat app]. rewrite rmatch_first by exact Hnm. reflexivity.
    - destruct (fence_wf ch n content Hw) as ((Hch & Hn) & _ & _). cbn [spell text_of map].
      eexists. eexists. split; [reflexivity|]. cbn [render_line]. split.
      + intros p Hp0. apply parse_continuation_short; [destruct Hch as [->| ->]; reflexivity| |exact Hp0].
        apply mem_repeat. destruct Hch as [->| ->]; discriminate.
      + unfold parse_marker, line_of. cbn [repeat app]. rewrite rmatch_first; [reflexivity|]. destruct Hch as [->| ->]; vm_compute; reflexivity.
    - cbn [wf_b] in Hw. repeat rewrite andb_true_iff in Hw. destruct Hw as [[_ _] Hg].
      destruct (good_lines _ Hg) as (c0 & body0 & rest & El & Hc0 & Hb0 & _ & _ & _ & _).
      cbn [spell]. rewrite El. cbn [map quote_s text_of render_line repeat app].
      eexists. eexists. split; [reflexivity|]. split.
      + intros p Hp0. apply parse_continuation_short; [reflexivity| |exact Hp0].
        pose proof (nonspace_first_ok c0 Hc0) as F. unfold first_ok in F. apply negb_true_iff in F. apply orb_false_iff in F as [_ F10].
        unfold mem in *. cbn [existsb]. rewrite Z.eqb_sym in F10. rewrite F10, Hb0. reflexivity.
      + unfold line_of. cbn [repeat app]. apply marker_gt.
    - destruct (head_wf lv hc hb Hw) as [((H1 & _) & H10 & _) _]. rewrite head_text by exact H1. rewrite (hline_sline lv hc hb H1).
      eexists. eexists. split; [reflexivity|]. cbn [render_line]. split.
      + intros p Hp0. apply parse_continuation_short; [reflexivity| |exact Hp0].
        unfold mem. rewrite existsb_app. fold (mem 10 (repeat 35 (lv - 1))). rewrite (mem_repeat 10 35) by lia. cbn [existsb orb Z.eqb Pos.eqb]. exact H10.
      + unfold parse_marker, line_of. cbn [repeat app]. rewrite rmatch_first; [reflexivity|]. pose proof hash_facts as F. repeat rewrite andb_true_iff in F. tauto.
    - pose proof (rule_wf rc rn Hw) as Hc. rewrite rule_text. eexists. eexists. split; [reflexivity|]. split.
      + intros p Hp0. unfold tline. change (repeat rc (S (S (S rn))) ++ [10]) with (line_of 0 rc (repeat rc (S (S rn)))).
        apply parse_continuation_short; [destruct Hc as [->|[->| ->]]; reflexivity| |exact Hp0].
        apply mem_repeat. destruct Hc as [->|[->| ->]]; discriminate.
      + destruct Hc as [->|[->| ->]].
        * apply (bullets_no_marker 45 (S rn)). left. reflexivity.
        * unfold parse_marker, tline. change (repeat 95 (S (S (S rn))) ++ [10]) with (95 :: (repeat 95 (S (S rn)) ++ [10])).
          rewrite rmatch_first; [reflexivity|vm_compute; reflexivity].
        * apply (bullets_no_marker 42 (S rn)). right. reflexivity.
    - destruct (em_wf _ _ _ _ _ _ Hw) as (Hch & Hew & Hpre & Hpost & _ & _ & Hfst & Hnm & _). rewrite em_text.
      eexists. eexists. split; [reflexivity|].
      assert (Hc : first_ok e0 = true).
      { apply nonspace_first_ok. unfold nonspace. change (cat_match CatSpace e0) with (is_space_c e0). rewrite (plain_first_not_space e0 Hfst). reflexivity. }
      assert (Hb : mem 10 (em_body epre ech edbl ew epost) = false).
      { unfold emph_word in Hew. repeat rewrite andb_true_iff in Hew. destruct Hew as [[[Hpw _] _] _].
        assert (R : mem 10 (em_run ech edbl) = false) by (unfold em_run; destruct edbl, Hch as [->| ->]; reflexivity).
        pose proof (plain_no 10 (e0 :: epre) eq_refl Hpre) as M. unfold mem in M. cbn [existsb] in M. apply orb_false_iff in M as [_ M].
        unfold em_body, mem. rewrite !existsb_app. fold (mem 10 (em_run ech edbl)). fold (mem 10 ew). fold (mem 10 epost).
        rewrite M, (plain_no 10 _ eq_refl Hpw), (plain_no 10 _ eq_refl Hpost), R. reflexivity. }
      split.
      + intros p Hp0. change (em_line e0 epre ech edbl ew epost ++ [10]) with (line_of 0 e0 (em_body epre ech edbl ew epost)).
        apply parse_continuation_short; assumption.
      + unfold parse_marker, em_line. change ((e0 :: em_body epre ech edbl ew epost) ++ [10]) with (e0 :: (em_body epre ech edbl ew epost ++ [10])).
        rewrite rmatch_first by exact Hnm. reflexivity.
    - destruct (link_wf _ _ _ _ _ Hw) as (Hok & Hfst & Hnm & _). rewrite link_text.
      eexists. eexists. split; [reflexivity|].
      assert (Hc : first_ok l0 = true).
      { apply nonspace_first_ok. unfold nonspace. change (cat_match CatSpace l0) with (is_space_c l0). rewrite (plain_first_not_space l0 Hfst). reflexivity. }
      assert (Hb : mem 10 (link_body lpre lw ldest lpost) = false).
      { pose proof (link_no 10 l0 lpre lw ldest lpost eq_refl ltac:(discriminate) ltac:(discriminate) ltac:(discriminate) ltac:(discriminate) Hw) as M.
        unfold link_line, mem in M. cbn [existsb] in M. apply orb_false_iff in M as [_ M]. exact M. }
      split.
      + intros p Hp0. change (link_line l0 lpre lw ldest lpost ++ [10]) with (line_of 0 l0 (link_body lpre lw ldest lpost)).
        apply parse_continuation_short; assumption.
      + unfold parse_marker, link_line. change ((l0 :: link_body lpre lw ldest lpost) ++ [10]) with (l0 :: (link_body lpre lw ldest lpost ++ [10])).
        rewrite rmatch_first by exact Hnm. reflexivity.
    - destruct (sent_wf _ _ _ Hw) as (Hok & Hfst & Hnm & _). rewrite sent_text.
      eexists. eexists. split; [reflexivity|].
      assert (Hc : first_ok s0 = true).
      { apply nonspace_first_ok. unfold nonspace. change (cat_match CatSpace s0) with (is_space_c s0). rewrite (plain_first_not_space s0 Hfst). reflexivity. }
      assert (Hb : mem 10 (st0' ++ mbody sgs) = false).
      { pose proof (sent_no 10 s0 st0' sgs eq_refl Hw) as M. unfold sent_line, mem in M. cbn [existsb] in M. apply orb_false_iff in M as [_ M]. exact M. }
      split.
      + intros p Hp0. change (sent_line s0 st0' sgs ++ [10]) with (line_of 0 s0 (st0' ++ mbody sgs)). apply parse_continuation_short; assumption.
      + unfold parse_marker, sent_line. change ((s0 :: st0' ++ mbody sgs) ++ [10]) with (s0 :: ((st0' ++ mbody sgs) ++ [10])).
        rewrite rmatch_first by exact Hnm. reflexivity.
    - destruct (tick_wf _ _ _ _ _ Hw) as (Hok & Hfst & Hnm & _). rewrite tick_text.
      eexists. eexists. split; [reflexivity|].
      assert (Hc : first_ok k0 = true).
      { apply nonspace_first_ok. unfold nonspace. change (cat_match CatSpace k0) with (is_space_c k0). rewrite (plain_first_not_space k0 Hfst). reflexivity. }
      assert (Hb : mem 10 (tick_body kpre kn kcode kpost) = false).
      { pose proof (tick_no 10 k0 kpre kn kcode kpost eq_refl Hw) as M. unfold tick_line, mem in M. cbn [existsb] in M. apply orb_false_iff in M as [_ M]. exact M. }
      split.
      + intros p Hp0. change (tick_line k0 kpre kn kcode kpost ++ [10]) with (line_of 0 k0 (tick_body kpre kn kcode kpost)). apply parse_continuation_short; assumption.
      + unfold parse_marker, tick_line. change ((k0 :: tick_body kpre kn kcode kpost) ++ [10]) with (k0 :: (tick_body kpre kn kcode kpost ++ [10])).
        rewrite rmatch_first by exact Hnm. reflexivity.
    - rewrite (fbrk_text _ _ _ _ Hw). cbn [wf_b] in Hw. destruct (brk_para_lines _ Hw) as (x & r & E & (Hfx & _ & Hnex) & _ & Hnm & Hhx & H10).
      rewrite E. unfold nl_lines. cbn [map]. eexists. eexists. split; [reflexivity|].
      destruct x as [|xc xt]; [contradiction|]. cbn [hd] in Hfx, Hnm.
      assert (Hc : first_ok xc = true).
      { apply nonspace_first_ok. unfold nonspace. change (cat_match CatSpace xc) with (is_space_c xc). rewrite (plain_first_not_space xc Hfx). reflexivity. }
      assert (Hb : mem 10 xt = false) by (unfold mem in H10; cbn [existsb] in H10; apply orb_false_iff in H10; tauto).
      split.
      + intros p Hp0. change ((xc :: xt) ++ [10]) with (line_of 0 xc xt). apply parse_continuation_short; assumption.
      + unfold parse_marker. change ((xc :: xt) ++ [10]) with (xc :: (xt ++ [10])). rewrite rmatch_first by exact Hnm. reflexivity.
    - destruct (one_wf _ _ _ _ Hw) as (Hok & Hfst & Hnm & _). rewrite one_text.
      eexists. eexists. split; [reflexivity|].
      assert (Hc : first_ok o0 = true).
      { apply nonspace_first_ok. unfold nonspace. change (cat_match CatSpace o0) with (is_space_c o0). rewrite (plain_first_not_space o0 Hfst). reflexivity. }
      assert (Hb : mem 10 (one_body opre ox opost) = false).
      { pose proof (one_no 10 o0 opre ox opost (or_introl eq_refl) Hw) as M. unfold one_line, mem in M. cbn [existsb] in M. apply orb_false_iff in M as [_ M]. exact M. }
      split.
      + intros p Hp0. change (one_line o0 opre ox opost ++ [10]) with (line_of 0 o0 (one_body opre ox opost)). apply parse_continuation_short; assumption.
      + unfold parse_marker, one_line. change ((o0 :: one_body opre ox opost) ++ [10]) with (o0 :: (one_body opre ox opost ++ [10])).
        rewrite rmatch_first by exact Hnm. reflexivity.
  Qed.

  (* ---- lists: List.read over the items of a list ---- *)
  Definition QN (f : nat) : Prop := forall ts ln st, seq_ok_b ts = true -> forallb wf_b ts = true -> Forall (fun t => (depth t <= f)%nat) ts ->
    tokenize_block types (S f) (text_of (join_blank (map spell ts)) ++ [NL]) ln st =
    (pre_seq md ln ts ++ blank_entry md (ln + Z.of_nat (length (join_blank (map spell ts)))), negb md, st_seq st ts).

  Definition chain_tail_ok (tail : list str) : Prop :=
    tail = [] \/ tail = [NL] \/
    exists l2 more, tail = NL :: l2 :: more /\ (forall p, 0 < p -> parse_continuation l2 p = None) /\ parse_marker l2 = None.
  Lemma chain_tail_w w tail : (0 < w)%nat -> chain_tail_ok tail -> tail_ok w tail.
  Proof.
    intros Hw [->|[->|(l2 & more & -> & Hc & Hm)]]; [left; reflexivity|right; left; reflexivity|].
    right. right. exists l2, more. split; [reflexivity|]. split; [apply Hc; lia|exact Hm].
  Qed.

  Definition leader_ok (leader : option str) (t : ftree) : Prop :=
    match leader with None => True | Some l => exists mk0, marker_ok mk0 /\ l = marker_str mk0 /\ mkey mk0 = mkey (marker_of t) end.

  Lemma read_item_prev rec line r ln m st : parse_marker line = Some m ->
    read_item types rec (line :: r) ln (Some m) st = read_item types rec (line :: r) ln None st.
  Proof. intros H. unfold read_item. rewrite H. reflexivity. Qed.

  Lemma item_parts mk pad ts :
    marker_okb mk && Nat.leb 1 pad && Nat.leb pad 4 && seq_ok_b ts && forallb wf_b ts && good_b (join_blank (map spell ts)) &&
    negb (thematic_start (item_first_line mk pad (join_blank (map spell ts)))) = true ->
    marker_ok mk /\ (1 <= pad <= 4)%nat /\ seq_ok_b ts = true /\ forallb wf_b ts = true /\
    exists c0 body0 rest, join_blank (map spell ts) = SLine 0 c0 body0 :: rest /\ nonspace c0 = true /\ mem 10 body0 = false /\
      Forall sline_ok rest /\ last_not_blank (SLine 0 c0 body0 :: rest) /\
      thematic_start (marker_str mk ++ repeat 32 pad ++ c0 :: body0 ++ [10]) = false.
  Proof.
    intros Hw. repeat rewrite andb_true_iff in Hw. destruct Hw as [[[[[[Hmk Hp1] Hp4] Hs] Hall] Hg] Hth].
    apply marker_ok_reflect in Hmk. apply Nat.leb_le in Hp1, Hp4. apply negb_true_iff in Hth.
    destruct (good_lines _ Hg) as (c0 & body0 & rest & El & Hc0 & Hb0 & Hrest & Hlast & _ & _).
    rewrite El in *. cbn [item_first_line] in Hth.
    split; [exact Hmk|]. split; [split; assumption|]. split; [exact Hs|]. split; [exact Hall|].
    exists c0, body0, rest. repeat split; assumption.
  Qed.

  Lemma item_lines_length mk pad l rest : marker_ok mk -> length (item_lines mk pad (SLine 0 (fst l) (snd l) :: rest)) = S (length rest).
  Proof.
    intros Hmk. destruct (marker_first mk Hmk) as (m0 & mr & Em & _). unfold item_lines. rewrite Em. cbn [length]. rewrite map_length. reflexivity.
  Qed.

  Lemma marker_no_nl mk : marker_ok mk -> mem 10 (marker_str mk) = false.
  Proof.
    destruct mk as [b|ds d]; cbn [marker_ok marker_str].
    - intros [->|[->| ->]]; reflexivity.
    - intros (_ & _ & Hd & Hdel). unfold mem. rewrite existsb_app. cbn [existsb]. apply orb_false_iff. split.
      + rewrite Forall_forall in Hd. destruct (existsb (Z.eqb 10) ds) eqn:E; [|reflexivity].
        apply existsb_exists in E as (x & Hx & Ex). apply Z.eqb_eq in Ex. subst x. specialize (Hd 10 Hx). lia.
      + destruct Hdel as [->| ->]; reflexivity.
  Qed.

  Lemma marker_line_cont mk pad c0 body0 : marker_ok mk -> mem 10 body0 = false -> nonspace c0 = true ->
    forall p, 0 < p -> parse_continuation (marker_str mk ++ repeat 32 pad ++ c0 :: body0 ++ [10]) p = None.
  Proof.
    intros Hmk Hb0 Hc0 p Hp0. pose proof (marker_no_nl mk Hmk) as Hn.
    destruct (marker_first mk Hmk) as (m0 & mr & Em & Hm0). rewrite Em in *.
    replace ((m0 :: mr) ++ repeat 32 pad ++ c0 :: body0 ++ [10]) with (line_of 0 m0 (mr ++ repeat 32 pad ++ c0 :: body0))
      by (unfold line_of; cbn [repeat app]; rewrite <- !app_assoc; reflexivity).
    apply parse_continuation_short; [| |exact Hp0].
    - apply nonspace_first_ok. unfold nonspace. unfold mfirst_ok in Hm0. repeat rewrite andb_true_iff in Hm0.
      destruct Hm0 as [[[[_ H3] _] _] _]. exact H3.
    - unfold mem in *. cbn [existsb] in Hn. apply orb_false_iff in Hn as [_ Hn]. rewrite !existsb_app. rewrite Hn.
      fold (mem 10 (repeat 32 pad)). rewrite (mem_repeat 10 32) by lia. cbn [existsb orb].
      pose proof (nonspace_first_ok c0 Hc0) as F. unfold first_ok in F. apply negb_true_iff in F. apply orb_false_iff in F as [_ F10].
      rewrite Z.eqb_sym, F10. exact Hb0.
  Qed.

  (* the first line of a list: a marker line *)
  Lemma chain_first_line t : is_item t = true -> wf_b t = true ->
    marker_ok (marker_of t) /\
    exists l2 more i p ct, text_of (spell t) = l2 :: more /\ (forall q, 0 < q -> parse_continuation l2 q = None) /\
      parse_marker l2 = Some (i, p, marker_str (marker_of t), ct) /\ thematic_start l2 = false /\
      exists m0 t0, l2 = m0 :: t0 /\ mfirst_ok m0 = true.
  Proof.
    intros Hi Hw.
    assert (G : forall mk pad ts tl, (marker_okb mk && Nat.leb 1 pad && Nat.leb pad 4 && seq_ok_b ts && forallb wf_b ts && good_b (join_blank (map spell ts)) &&
                 negb (thematic_start (item_first_line mk pad (join_blank (map spell ts)))) = true) ->
               marker_ok mk /\ exists l2 more i p ct, text_of (item_lines mk pad (join_blank (map spell ts)) ++ tl) = l2 :: more /\
                 (forall q, 0 < q -> parse_continuation l2 q = None) /\ parse_marker l2 = Some (i, p, marker_str mk, ct) /\ thematic_start l2 = false /\
                 exists m0 t0, l2 = m0 :: t0 /\ mfirst_ok m0 = true).
    { intros mk pad ts tl H. destruct (item_parts mk pad ts H) as (Hmk & Hpad & _ & _ & c0 & body0 & rest & El & Hc0 & Hb0 & _ & _ & Hth).
      split; [exact Hmk|]. rewrite El. unfold text_of. rewrite map_app. fold (text_of (item_lines mk pad (SLine 0 c0 body0 :: rest))).
      rewrite text_item by exact Hmk. cbn [app].
      eexists. eexists. eexists. eexists. eexists. split; [reflexivity|]. split; [apply marker_line_cont; assumption|].
      split; [apply (parse_marker_line mk pad c0 body0 Hmk Hpad Hc0)|]. split; [exact Hth|].
      destruct (marker_first mk Hmk) as (m0 & mr & Em & Hm0). rewrite Em. eexists. eexists. split; [reflexivity|exact Hm0]. }
    destruct t as [c body more|ch n content|ts|mk pad ts|mk pad ts bl next|lv hc hb|rc rn|e0 epre ech edbl ew epost|l0 lpre lw ldest lpost|s0 st0' sgs|k0 kpre kn kcode kpost|b0 bbody bk bmore|o0 opre ox opost]; try discriminate.
    - cbn [wf_b] in Hw. cbn [spell marker_of]. rewrite <- (app_nil_r (item_lines mk pad _)). apply G. exact Hw.
    - cbn [wf_b] in Hw. repeat rewrite andb_true_iff in Hw. destruct Hw as [[[Hw _] _] _]. cbn [spell marker_of]. apply G.
      repeat rewrite andb_true_iff. exact Hw.
  Qed.

  Section ChainRead.
    Variable f' : nat.
    Hypothesis HQ : Q f'.
    Hypothesis HQN : QN f'.

    Lemma chain_read : forall t, is_item t = true -> wf_b t = true -> (depth t <= S f')%nat ->
      forall tail, chain_tail_ok tail ->
      forall fuel ln st leader prev acc consumed,
        (chain_len t <= fuel)%nat -> leader_ok leader t ->
        (prev = None \/ prev = parse_marker (hd [] (text_of (spell t)))) ->
        read_list types (tokenize_block types (S f')) fuel (text_of (spell t) ++ tail) ln leader prev acc consumed st =
        (rev acc ++ chain_items md ln t, (consumed + length (text_of (spell t)))%nat, st_after st t).
    Proof.
      induction t as [| | | mk pad ts | mk pad ts bl next IH | | | | | | | | ]; intros Hi Hw Hd tail Htail fuel ln st leader prev acc consumed Hn Hlead Hprev; try discriminate.
      - (* the last item *)
        cbn [wf_b] in Hw. destruct (item_parts mk pad ts Hw) as (Hmk & Hpad & Hs & Hall & c0 & body0 & rest & El & Hc0 & Hb0 & Hrest & Hlast & Hth).
        cbn [spell chain_items st_after] in *. rewrite El in *. rewrite text_item in * by exact Hmk. cbn [hd] in Hprev.
        destruct fuel as [|n']; [cbn [chain_len] in Hn; lia|]. cbn [read_list].
        cbn [app].
        match goal with |- context [read_item ?a ?b ?c ln prev st] => replace (read_item a b c ln prev st) with (read_item a b c ln None st) end.
        2:{ destruct Hprev as [->| ->]; [reflexivity|]. rewrite (parse_marker_line mk pad c0 body0 Hmk Hpad Hc0).
            symmetry. apply read_item_prev. apply (parse_marker_line mk pad c0 body0 Hmk Hpad Hc0). }
        pose proof (read_item_tail types (tokenize_block types (S f')) mk pad c0 body0 rest tail Hmk Hpad Hc0 Hrest Hlast
                      (chain_tail_w (length (marker_str mk) + pad) tail ltac:(lia) Htail) ln st) as RI. cbn [app] in RI.
        match type of RI with _ = ?R => match goal with |- context [read_item ?a ?b ?c ln None st] => replace (read_item a b c ln None st) with R by (symmetry; exact RI) end end. clear RI.
        change (map render_line (SLine 0 c0 body0 :: rest)) with (text_of (SLine 0 c0 body0 :: rest)). rewrite <- El.
        cbn [depth] in Hd. rewrite (HQ ts ln st Hs Hall (children_depth ts f' Hd)).
        assert (Eok : match leader with None => true | Some l => same_marker_type l (marker_str mk) end = true).
        { destruct leader as [l|]; [|reflexivity]. destruct Hlead as (mk0 & Hmk0 & -> & Hk). cbn [marker_of] in Hk.
          rewrite (same_marker_key mk0 mk Hmk0 Hmk), Hk. apply Z.eqb_refl. }
        rewrite Eok. cbn [negb rev length]. rewrite map_length. unfold st_seq. reflexivity.
      - (* an item followed by more of the list *)
        cbn [wf_b] in Hw. repeat rewrite andb_true_iff in Hw. destruct Hw as [[[Hw Hin] Hk] Hwn]. apply Z.eqb_eq in Hk.
        assert (Hw' : marker_okb mk && Nat.leb 1 pad && Nat.leb pad 4 && seq_ok_b ts && forallb wf_b ts && good_b (join_blank (map spell ts)) &&
                      negb (thematic_start (item_first_line mk pad (join_blank (map spell ts)))) = true) by (repeat rewrite andb_true_iff; exact Hw).
        destruct (item_parts mk pad ts Hw') as (Hmk & Hpad & Hs & Hall & c0 & body0 & rest & El & Hc0 & Hb0 & Hrest & Hlast & Hth).
        destruct (chain_first_line next Hin Hwn) as (Hmk2 & l2 & more2 & i2 & p2 & ct2 & E2 & Hc2 & Hm2 & Ht2 & _).
        cbn [depth] in Hd.
        assert (Hd1 : (S (fold_right (fun t m => Nat.max (depth t) m) 0%nat ts) <= S f')%nat) by lia.
        assert (Hd2 : (depth next <= S f')%nat) by lia.
        assert (Ehd : hd [] (text_of (spell (FMore mk pad ts bl next))) = marker_str mk ++ repeat 32 pad ++ c0 :: body0 ++ [10]).
        { cbn [spell]. rewrite El. unfold text_of. rewrite map_app. fold (text_of (item_lines mk pad (SLine 0 c0 body0 :: rest))).
          rewrite text_item by exact Hmk. reflexivity. }
        rewrite Ehd in Hprev. clear Ehd.
        destruct bl.
        { (* a blank line, then the next item *)
          cbn [spell chain_items st_after app]. rewrite El in *. unfold text_of at 1 2. rewrite map_app. cbn [map render_line].
          fold (text_of (item_lines mk pad (SLine 0 c0 body0 :: rest))). fold (text_of (spell next)).
          rewrite text_item in * by exact Hmk. cbn [hd app] in Hprev.
          destruct fuel as [|n']; [cbn [chain_len] in Hn; lia|]. cbn [chain_len] in Hn. cbn [read_list].
          set (L := marker_str mk ++ repeat 32 pad ++ c0 :: body0 ++ [10]) in *.
          set (w := (length (marker_str mk) + pad)%nat) in *.
          match goal with |- context [read_item _ _ ?A ln prev st] =>
            replace A with ((L :: map (embed_line w) rest) ++ NL :: (text_of (spell next) ++ tail)) by (apply app_cons_assoc) end.
          rewrite E2. cbn [app].
          match goal with |- context [read_item ?a ?b ?c ln prev st] => replace (read_item a b c ln prev st) with (read_item a b c ln None st) end.
          2:{ destruct Hprev as [->| ->]; [reflexivity|]. pose proof (parse_marker_line mk pad c0 body0 Hmk Hpad Hc0) as PM. fold L in PM. rewrite PM.
              cbn [app]. symmetry. apply read_item_prev. exact PM. }
          assert (Hi2 : item_interrupt types (l2 :: more2 ++ tail) = false).
          { unfold item_interrupt. rewrite Hm2, Ht2. apply andb_false_r. }
          assert (Hs2 : same_marker_type (marker_str mk) (marker_str (marker_of next)) = true).
          { rewrite (same_marker_key mk (marker_of next) Hmk Hmk2), Hk. apply Z.eqb_refl. }
          pose proof (read_item_next types (tokenize_block types (S f')) mk pad c0 body0 rest Hmk Hpad Hc0 Hrest Hlast
                        l2 (more2 ++ tail) (i2, p2, marker_str (marker_of next), ct2) ln st (Hc2 (Z.of_nat w) ltac:(unfold w; lia)) Hi2 Hm2 Hs2) as RI.
          fold L w in RI.
          match type of RI with _ = ?R => match goal with |- context [read_item ?a ?b ?c ln None st] => replace (read_item a b c ln None st) with R by (symmetry; exact RI) end end. clear RI.
          change (map render_line (SLine 0 c0 body0 :: rest)) with (text_of (SLine 0 c0 body0 :: rest)). rewrite <- El.
          rewrite (HQN ts ln st Hs Hall (children_depth ts f' Hd1)).
          assert (Eok : match leader with None => true | Some l => same_marker_type l (marker_str mk) end = true).
          { destruct leader as [l|]; [|reflexivity]. destruct Hlead as (mk0 & Hmk0 & -> & Hk0). cbn [marker_of] in Hk0.
            rewrite (same_marker_key mk0 mk Hmk0 Hmk), Hk0. apply Z.eqb_refl. }
          rewrite Eok. cbn [negb].
          assert (Esk : skipn (S (S (length rest))) ((L :: map (embed_line w) rest) ++ NL :: l2 :: more2 ++ tail) = text_of (spell next) ++ tail).
          { rewrite E2. apply skipn_item. rewrite map_length. reflexivity. }
          match goal with |- context [@skipn ?T ?k ?A] => replace (@skipn T k A) with (text_of (spell next) ++ tail) by (symmetry; exact Esk) end.
          assert (Eh : Z.of_nat (length (item_lines mk pad (join_blank (map spell ts)))) = Z.of_nat (S (length rest))).
          { rewrite El. f_equal. apply (item_lines_length mk pad (c0, body0) rest Hmk). }
          rewrite (IH Hin Hwn Hd2 tail Htail n' (ln + nlines (S (S (length rest)))) (st_seq st ts)
                      (match leader with None => Some (marker_str mk) | Some _ => leader end) (Some (i2, p2, marker_str (marker_of next), ct2))).
          + rewrite Eh. unfold nlines. replace (ln + Z.of_nat (S (S (length rest)))) with (ln + Z.of_nat (S (length rest)) + 1) by lia.
            cbn [rev]. rewrite <- app_assoc. cbn [app]. unfold st_seq. rewrite El. cbn [length].
            assert (Elen : (consumed + S (S (length rest)) + length (text_of (spell next)) =
                            consumed + S (length (map (embed_line w) rest ++ NL :: l2 :: more2)))%nat).
            { rewrite app_length, map_length, E2. cbn [length]. lia. }
            rewrite Elen. reflexivity.
          + lia.
          + destruct leader as [l|].
            * destruct Hlead as (mk0 & Hmk0 & -> & Hk0). cbn [marker_of] in Hk0. exists mk0. repeat split; [exact Hmk0|congruence].
            * exists mk. repeat split; [exact Hmk|exact Hk].
          + right. rewrite E2. cbn [hd]. symmetry. exact Hm2. }
        (* the next item follows directly *)
        cbn [spell chain_items st_after app]. rewrite El in *. unfold text_of at 1 2. rewrite map_app.
        fold (text_of (item_lines mk pad (SLine 0 c0 body0 :: rest))). fold (text_of (spell next)).
        rewrite text_item in * by exact Hmk. cbn [hd app] in Hprev.
        destruct fuel as [|n']; [cbn [chain_len] in Hn; lia|]. cbn [chain_len] in Hn. cbn [read_list].
        set (L := marker_str mk ++ repeat 32 pad ++ c0 :: body0 ++ [10]) in *.
        set (w := (length (marker_str mk) + pad)%nat) in *.
        match goal with |- context [read_item _ _ ?A ln prev st] =>
          replace A with ((L :: map (embed_line w) rest) ++ (text_of (spell next) ++ tail)) by (apply app_assoc) end.
        rewrite E2. cbn [app].
        match goal with |- context [read_item ?a ?b ?c ln prev st] => replace (read_item a b c ln prev st) with (read_item a b c ln None st) end.
        2:{ destruct Hprev as [->| ->]; [reflexivity|]. pose proof (parse_marker_line mk pad c0 body0 Hmk Hpad Hc0) as PM. fold L in PM. rewrite PM.
            cbn [app]. symmetry. apply read_item_prev. exact PM. }
        assert (Hi2 : item_interrupt types (l2 :: more2 ++ tail) = false).
        { unfold item_interrupt. rewrite Hm2, Ht2. apply andb_false_r. }
        assert (Hs2 : same_marker_type (marker_str mk) (marker_str (marker_of next)) = true).
        { rewrite (same_marker_key mk (marker_of next) Hmk Hmk2), Hk. apply Z.eqb_refl. }
        pose proof (read_item_tight types (tokenize_block types (S f')) mk pad c0 body0 rest Hmk Hpad Hc0 Hrest Hlast
                      l2 (more2 ++ tail) (i2, p2, marker_str (marker_of next), ct2) ln st (Hc2 (Z.of_nat w) ltac:(unfold w; lia)) Hi2 Hm2 Hs2) as RI.
        fold L w in RI.
        match type of RI with _ = ?R => match goal with |- context [read_item ?a ?b ?c ln None st] => replace (read_item a b c ln None st) with R by (symmetry; exact RI) end end. clear RI.
        change (map render_line (SLine 0 c0 body0 :: rest)) with (text_of (SLine 0 c0 body0 :: rest)). rewrite <- El.
        rewrite (HQ ts ln st Hs Hall (children_depth ts f' Hd1)).
        assert (Eok : match leader with None => true | Some l => same_marker_type l (marker_str mk) end = true).
        { destruct leader as [l|]; [|reflexivity]. destruct Hlead as (mk0 & Hmk0 & -> & Hk0). cbn [marker_of] in Hk0.
          rewrite (same_marker_key mk0 mk Hmk0 Hmk), Hk0. apply Z.eqb_refl. }
        rewrite Eok. cbn [negb].
        assert (Esk : skipn (S (length rest)) ((L :: map (embed_line w) rest) ++ l2 :: more2 ++ tail) = text_of (spell next) ++ tail).
        { rewrite E2. apply skipn_item0. rewrite map_length. reflexivity. }
        match goal with |- context [@skipn ?T ?k ?A] => replace (@skipn T k A) with (text_of (spell next) ++ tail) by (symmetry; exact Esk) end.
        assert (Eh : Z.of_nat (length (item_lines mk pad (join_blank (map spell ts)))) = Z.of_nat (S (length rest))).
        { rewrite El. f_equal. apply (item_lines_length mk pad (c0, body0) rest Hmk). }
        rewrite (IH Hin Hwn Hd2 tail Htail n' (ln + nlines (S (length rest))) (st_seq st ts)
                    (match leader with None => Some (marker_str mk) | Some _ => leader end) (Some (i2, p2, marker_str (marker_of next), ct2))).
        + rewrite Eh. unfold nlines. replace (ln + Z.of_nat (S (length rest)) + 0) with (ln + Z.of_nat (S (length rest))) by lia.
          cbn [rev]. rewrite <- app_assoc. cbn [app]. unfold st_seq. rewrite app_nil_r. cbn [length].
          assert (Elen : (consumed + S (length rest) + length (text_of (spell next)) =
                          consumed + S (length (map (embed_line w) rest ++ l2 :: more2)))%nat).
          { rewrite app_length, map_length, E2. cbn [length]. lia. }
          rewrite Elen. reflexivity.
        + lia.
        + destruct leader as [l|].
          * destruct Hlead as (mk0 & Hmk0 & -> & Hk0). cbn [marker_of] in Hk0. exists mk0. repeat split; [exact Hmk0|congruence].
          * exists mk. repeat split; [exact Hmk|exact Hk].
        + right. rewrite E2. cbn [hd]. symmetry. exact Hm2.
    Qed.

    (* the whole list, as the dispatch loop's readers see it *)
    Lemma chain_start_read t tail ln st : is_item t = true -> wf_b t = true -> (depth t <= S f')%nat -> chain_tail_ok tail ->
      start_read types (tokenize_block types (S f')) BK_List (text_of (spell t) ++ tail) ln st =
      Some (pre_of md ln t, length (text_of (spell t)), st_after st t).
    Proof.
      intros Hi Hw Hd Htail. destruct (chain_first_line t Hi Hw) as (Hmk & l2 & more & i & p & ct & E2 & Hc2 & Hm2 & Ht2 & _).
      unfold start_read. rewrite E2. cbn [app].
      assert (Ls : list_start l2 = true).
      { assert (G : forall mk pad ts tl, (marker_okb mk && Nat.leb 1 pad && Nat.leb pad 4 && seq_ok_b ts && forallb wf_b ts && good_b (join_blank (map spell ts)) &&
                 negb (thematic_start (item_first_line mk pad (join_blank (map spell ts)))) = true) ->
                 list_start (hd [] (text_of (item_lines mk pad (join_blank (map spell ts)) ++ tl))) = true).
        { intros mk pad ts tl H. destruct (item_parts mk pad ts H) as (Hmk' & Hpad & _ & _ & c0 & body0 & rest & El & Hc0 & Hb0 & _ & _ & Hth).
          rewrite El. unfold text_of. rewrite map_app. fold (text_of (item_lines mk pad (SLine 0 c0 body0 :: rest))).
          rewrite text_item by exact Hmk'. cbn [app hd].
          apply (list_start_line mk pad c0 body0 Hmk' (proj1 Hpad)). apply nonspace_first_ok. exact Hc0. }
        replace l2 with (hd [] (text_of (spell t))) by (rewrite E2; reflexivity).
        destruct t as [ | | |mk pad ts|mk pad ts bl next| | | | | | | | ]; try discriminate.
        - cbn [wf_b] in Hw. cbn [spell]. rewrite <- (app_nil_r (item_lines mk pad _)). apply G. exact Hw.
        - cbn [wf_b] in Hw. repeat rewrite andb_true_iff in Hw. destruct Hw as [[[Hw _] _] _]. cbn [spell]. apply G.
          repeat rewrite andb_true_iff. exact Hw. }
      rewrite Ls. change (l2 :: more ++ tail) with ((l2 :: more) ++ tail). rewrite <- E2.
      assert (Hlen : (chain_len t <= S (length (text_of (spell t) ++ tail)))%nat).
      { clear -Hw. assert (G : forall t0, wf_b t0 = true -> (chain_len t0 <= S (length (text_of (spell t0))))%nat).
        { induction t0 as [| | | | mk0 pad0 ts0 bl0 next0 IHn | | | | | | | | ]; intros Hw0; cbn [chain_len]; try lia.
          cbn [wf_b] in Hw0. repeat rewrite andb_true_iff in Hw0. destruct Hw0 as [[[Hw0 _] _] Hwn]. specialize (IHn Hwn).
          assert (Hw' : marker_okb mk0 && Nat.leb 1 pad0 && Nat.leb pad0 4 && seq_ok_b ts0 && forallb wf_b ts0 && good_b (join_blank (map spell ts0)) &&
                        negb (thematic_start (item_first_line mk0 pad0 (join_blank (map spell ts0)))) = true) by (repeat rewrite andb_true_iff; exact Hw0).
          destruct (item_parts mk0 pad0 ts0 Hw') as (Hmk0 & _ & _ & _ & c0 & body0 & rest & El & _).
          cbn [spell]. rewrite El. unfold text_of in *. rewrite map_length in *. rewrite !app_length.
          pose proof (item_lines_length mk0 pad0 (c0, body0) rest Hmk0) as EL. cbn [fst snd] in EL. rewrite EL. lia. }
        specialize (G t Hw). rewrite app_length. lia. }
      rewrite (chain_read t Hi Hw Hd tail Htail (S (length (text_of (spell t) ++ tail))) ln st None None [] 0%nat Hlen I (or_introl eq_refl)).
      cbn [rev app Nat.add]. rewrite (pre_of_chain md t ln Hi Hw).
      assert (Efix : fix_last (chain_items md ln t) = chain_items md ln t).
      { clear -Hi Hw. revert ln. induction t as [| | | mk pad ts | mk pad ts bl next IH | | | | | | | | ]; intros ln; try discriminate.
        - cbn [chain_items]. unfold fix_last. cbn [rev app]. f_equal. f_equal.
          destruct md; [cbn [negb andb]; apply andb_false_r|]. cbn [negb andb]. rewrite pre_seq_length. unfold nlines. apply andb_diag.
        - cbn [wf_b] in Hw. repeat rewrite andb_true_iff in Hw. destruct Hw as [[[_ Hin] _] Hwn].
          cbn [chain_items]. cbv zeta. pose proof (chain_items_nonempty md next (ln + Z.of_nat (length (item_lines mk pad (join_blank (map spell ts)))) + (if bl then 1 else 0)) Hin) as Hne.
          destruct (chain_items md _ next) as [|y r] eqn:Ec; [contradiction|].
          rewrite fix_last_cons. f_equal. rewrite <- Ec. apply IH; assumption. }
      unfold fix_last in Efix. cbn [rev] in Efix. rewrite Efix. reflexivity.
    Qed.
  End ChainRead.

  Lemma try_types_list_gen rec m0 t rest v ln st : mfirst_ok m0 = true -> thematic_start (m0 :: t) = false ->
    start_read types rec BK_List ((m0 :: t) :: rest) ln st = Some v ->
    forall ts, list_first ts = true -> try_types types rec ts ((m0 :: t) :: rest) ln st = Some v.
  Proof.
    intros Hm0 Hth SR. induction ts as [|k ts IH]; intros Hl'; [discriminate|]. cbn [try_types].
    destruct (other_kind k) eqn:Ek.
    - rewrite start_read_other_kind by assumption. apply IH. destruct k; try discriminate; exact Hl'.
    - destruct k; try discriminate. rewrite SR. reflexivity.
  Qed.

  Lemma depth_item t : is_item t = true -> (1 <= depth t)%nat.
  Proof. destruct t; try discriminate; intros _; cbn [depth]; lia. Qed.

  Lemma C_list f : (forall f', f = S f' -> Q f' /\ QN f') -> forall t ln st, is_item t = true -> wf_b t = true -> (depth t <= f)%nat ->
    text_of (spell t) <> [] /\
    forall B, follower_ok t B ->
              try_types types (tokenize_block types f) types (text_of (spell t) ++ NL :: B) ln st =
              Some (pre_of md ln t, length (text_of (spell t)), st_after st t).
  Proof.
    intros HQ t ln st Hi Hw Hd. pose proof (depth_item t Hi) as H1.
    destruct f as [|f']; [lia|]. destruct (HQ f' eq_refl) as [HQ' HQN'].
    destruct (chain_first_line t Hi Hw) as (_ & l2 & more & i & p & ct & E2 & _ & _ & Ht2 & m0 & t0 & -> & Hm0).
    split; [rewrite E2; discriminate|]. intros B Hfol.
    assert (Htail : chain_tail_ok (NL :: B)).
    { destruct Hfol as [Hni|[->|(l3 & more3 & -> & Hc & Hm)]]; [congruence|right; left; reflexivity|].
      right. right. exists l3, more3. repeat split; assumption. }
    pose proof (chain_start_read f' HQ' HQN' t (NL :: B) ln st Hi Hw Hd Htail) as SR.
    rewrite E2 in *. cbn [app] in *. apply (try_types_list_gen _ m0 t0 _ _ ln st Hm0 Ht2 SR types Hl).
  Qed.

  Lemma C_from f : (forall f', f = S f' -> Q f' /\ QN f') -> C f.
  Proof.
    intros HQ t ln st Hw Hd. destruct t as [c body more|ch n content|ts|mk pad ts|mk pad ts bl next|lv hc hb|rc rn|e0 epre ech edbl ew epost|l0 lpre lw ldest lpost|s0 st0' sgs|k0 kpre kn kcode kpost|b0 bbody bk bmore|o0 opre ox opost].
    - split; [cbn [spell text_of map]; discriminate|]. intros B _. rewrite para_try_app by exact Hw. reflexivity.
    - split; [destruct (fence_wf ch n content Hw) as ((_ & H3) & _); rewrite fence_text by lia; discriminate|].
      intros B _. rewrite fence_try by exact Hw. reflexivity.
    - destruct f as [|f']; [cbn [depth] in Hd; lia|]. destruct (HQ f' eq_refl) as [HQ' _]. clear HQ. rename HQ' into HQ.
      cbn [wf_b] in Hw. repeat rewrite andb_true_iff in Hw. destruct Hw as [[Hs Hall] Hg].
      destruct (good_lines _ Hg) as (c0 & body0 & rest & El & _ & _ & _ & _ & Hok & Hne).
      cbn [spell]. rewrite text_quote. remember (text_of (join_blank (map spell ts))) as inner eqn:Ei.
      destruct inner as [|l ls]; [contradiction|].
      split; [discriminate|]. intros B _.
      pose proof (try_types_quote types (tokenize_block types (S f')) true l ls ln st types Hq Hok) as T.
      assert (HN : tokenize_block types (S f') (l :: ls) ln (mkPs false) =
                   (pre_seq md ln ts, negb md && (1 <? Z.of_nat (length ts)), st_seq (mkPs false) ts))
        by (rewrite Ei; apply (HQ ts ln (mkPs false) Hs Hall (children_depth ts f' Hd))).
      rewrite HN in T. cbn [fst] in T.
      cbn [map] in *. destruct (try_types_app types (tokenize_block types (S f')) B (qline true l) (map (qline true) ls) ln st types) as [T1 _].
      destruct (T1 _ _ _ T eq_refl) as (E & _ & _).
      change ((qline true l :: map (qline true) ls) ++ NL :: B) with (qline true l :: map (qline true) ls ++ NL :: B).
      rewrite E. rewrite pre_of_quote. cbn [st_after length]. rewrite map_length. reflexivity.
    - apply (C_list f HQ (FItem mk pad ts) ln st eq_refl Hw Hd).
    - apply (C_list f HQ (FMore mk pad ts bl next) ln st eq_refl Hw Hd).
    - destruct (head_wf lv hc hb Hw) as [((H1 & _) & _) _]. split; [rewrite head_text by exact H1; discriminate|].
      intros B _. rewrite head_try by exact Hw. rewrite head_text by exact H1. reflexivity.
    - split; [rewrite rule_text; discriminate|]. intros B _. rewrite rule_try by exact Hw. rewrite rule_text. reflexivity.
    - split; [rewrite em_text; discriminate|]. intros B _. rewrite (em_try _ _ _ _ _ _ _ (NL :: B) ln st Hw) by (right; exists B; reflexivity). rewrite em_text. reflexivity.
    - split; [rewrite link_text; discriminate|]. intros B _. rewrite (link_try _ _ _ _ _ _ (NL :: B) ln st Hw) by (right; exists B; reflexivity). rewrite link_text. reflexivity.
    - split; [rewrite sent_text; discriminate|]. intros B _. rewrite (sent_try _ _ _ _ (NL :: B) ln st Hw) by (right; exists B; reflexivity). rewrite sent_text. reflexivity.
    - split; [rewrite tick_text; discriminate|]. intros B _. rewrite (tick_try _ _ _ _ _ _ (NL :: B) ln st Hw) by (right; exists B; reflexivity). rewrite tick_text. reflexivity.
    - split.
      + rewrite (fbrk_text _ _ _ _ Hw). cbn [wf_b] in Hw. destruct (brk_para_lines _ Hw) as (x & r & E & _). rewrite E. discriminate.
      + intros B _. rewrite (fbrk_try _ _ _ _ _ (NL :: B) ln st Hw) by (right; exists B; reflexivity). reflexivity.
    - split; [rewrite one_text; discriminate|]. intros B _. rewrite (one_try _ _ _ _ _ (NL :: B) ln st Hw) by (right; exists B; reflexivity). rewrite one_text. reflexivity.
  Qed.

  Lemma Q_from f : P f -> C f -> Q f.
  Proof.
    intros HP HC. intros ts. induction ts as [|t1 r IH]; intros ln st Hs Hall Hd; [discriminate|].
    cbn [forallb] in Hall. apply andb_true_iff in Hall as [Hw1 Hallr]. inversion Hd as [|? ? Hd1 Hdr]; subst.
    destruct r as [|t2 r].
    - cbn [map join_blank flat_map]. rewrite app_nil_r. rewrite (HP t1 ln st Hw1 Hd1). cbn [pre_seq length]. rewrite andb_false_r. reflexivity.
    - cbn [seq_ok_b] in Hs. apply andb_true_iff in Hs as [Hi Hsr]. apply negb_true_iff in Hi.
      change (map spell (t1 :: t2 :: r)) with (spell t1 :: spell t2 :: map spell r). rewrite text_join.
      destruct (HC t1 ln st Hw1 Hd1) as (Hne & Ht).
      assert (Hfol : follower_ok t1 (text_of (join_blank (spell t2 :: map spell r)))).
      { destruct (is_item t1) eqn:E1; [|left; exact E1]. right. right.
        cbn [andb] in Hi. cbn [forallb] in Hallr. apply andb_true_iff in Hallr as [Hw2 _].
        destruct (first_line_follower t2 Hi Hw2) as (l2 & more & E2 & Hc2 & Hm2).
        exists l2, (more ++ text_of (flat_map (fun y => SBlank :: y) (map spell r))). split; [|split; assumption].
        unfold join_blank, text_of in *. rewrite map_app, E2. reflexivity. }
      specialize (IH (ln + nlines (length (text_of (spell t1))) + 1) (st_after st t1) Hsr Hallr Hdr).
      change (spell t2 :: map spell r) with (map spell (t2 :: r)) in *.
      rewrite (seq_step types f md Hblank _ _ ln st _ _ _ _ _ Hne (Ht _ Hfol) IH).
      assert (H : nlines (length (text_of (spell t1))) = height t1) by (unfold height, text_of, nlines; rewrite map_length; reflexivity).
      rewrite H. cbn [pre_seq length st_seq fold_left].
      assert (1 <? Z.of_nat (S (S (length r))) = true) as -> by (apply Z.ltb_lt; lia).
      assert (1 <? Z.of_nat (S (length r)) = true \/ 1 <? Z.of_nat (S (length r)) = false) as [-> | ->] by (destruct (1 <? Z.of_nat (S (length r))); auto);
        destruct md; reflexivity.
  Qed.

  (* the same sequence when one more blank line follows it (the content of a list item that is not the last) *)
  Lemma QN_from f : C f -> QN f.
  Proof.
    intros HC. intros ts. induction ts as [|t1 r IH]; intros ln st Hs Hall Hd; [discriminate|].
    cbn [forallb] in Hall. apply andb_true_iff in Hall as [Hw1 Hallr]. inversion Hd as [|? ? Hd1 Hdr]; subst.
    destruct (HC t1 ln st Hw1 Hd1) as (Hne & Ht).
    assert (Hht : nlines (length (text_of (spell t1))) = height t1) by (unfold height, text_of, nlines; rewrite map_length; reflexivity).
    destruct r as [|t2 r].
    - cbn [map join_blank flat_map]. rewrite app_nil_r.
      assert (Hfol : follower_ok t1 []) by (right; left; reflexivity).
      assert (E0 : tokenize_block types (S f) [] (ln + nlines (length (text_of (spell t1))) + 1) (st_after st t1) = ([], false, st_after st t1)) by reflexivity.
      rewrite (seq_step types f md Hblank _ _ ln st _ _ _ _ _ Hne (Ht _ Hfol) E0).
      rewrite Hht. cbn [pre_seq st_seq fold_left app]. rewrite app_nil_r, orb_false_r. unfold height. reflexivity.
    - cbn [seq_ok_b] in Hs. apply andb_true_iff in Hs as [Hi Hsr]. apply negb_true_iff in Hi.
      change (map spell (t1 :: t2 :: r)) with (spell t1 :: spell t2 :: map spell r). rewrite text_join.
      assert (Hfol : follower_ok t1 (text_of (join_blank (spell t2 :: map spell r)) ++ [NL])).
      { destruct (is_item t1) eqn:E1; [|left; exact E1]. right. right.
        cbn [andb] in Hi. cbn [forallb] in Hallr. apply andb_true_iff in Hallr as [Hw2 _].
        destruct (first_line_follower t2 Hi Hw2) as (l2 & more & E2 & Hc2 & Hm2).
        exists l2, ((more ++ text_of (flat_map (fun y => SBlank :: y) (map spell r))) ++ [NL]). split; [|split; assumption].
        unfold join_blank, text_of in *. rewrite map_app, E2. reflexivity. }
      specialize (IH (ln + nlines (length (text_of (spell t1))) + 1) (st_after st t1) Hsr Hallr Hdr).
      change (spell t2 :: map spell r) with (map spell (t2 :: r)) in *.
      rewrite <- app_assoc. cbn [app].
      rewrite (seq_step types f md Hblank _ _ ln st _ _ _ _ _ Hne (Ht _ Hfol) IH).
      rewrite Hht. cbn [pre_seq st_seq fold_left].
      assert (El : ln + Z.of_nat (length (join_blank (spell t1 :: map spell (t2 :: r)))) = ln + height t1 + 1 + Z.of_nat (length (join_blank (map spell (t2 :: r))))).
      { unfold height, join_blank. cbn [map flat_map]. rewrite !app_length. cbn [length app]. rewrite ?app_length. lia. }
      rewrite El. rewrite orb_diag. cbn [app]. rewrite <- app_assoc. reflexivity.
  Qed.

  Lemma tokenize_of_try f A ln st p st' : A <> [] ->
    try_types types (tokenize_block types f) types A ln st = Some (p, length A, st') ->
    tokenize_block types (S f) A ln st = ([p], false, st').
  Proof.
    intros Hne T. destruct A as [|x X]; [contradiction|]. rewrite tokenize_S. cbn [dispatch_loop]. rewrite T.
    replace (skipn (length (x :: X)) (x :: X)) with (@nil str) by (symmetry; apply skipn_all).
    cbn [length]. destruct (length X); reflexivity.
  Qed.

  Lemma P_list f : Q f -> QN f -> forall t ln st, is_item t = true -> wf_b t = true -> (depth t <= S f)%nat ->
    tokenize_block types (S (S f)) (text_of (spell t)) ln st = ([pre_of md ln t], false, st_after st t).
  Proof.
    intros HQ HQN t ln st Hi Hw Hd.
    destruct (chain_first_line t Hi Hw) as (_ & l2 & more & i & p & ct & E2 & _ & _ & Ht2 & m0 & t0 & -> & Hm0).
    pose proof (chain_start_read f HQ HQN t [] ln st Hi Hw Hd (or_introl eq_refl)) as SR. rewrite app_nil_r in SR.
    apply tokenize_of_try; [rewrite E2; discriminate|].
    rewrite E2 in *. apply (try_types_list_gen _ m0 t0 _ _ ln st Hm0 Ht2 SR types Hl).
  Qed.

  Lemma P_succ f : Q f -> QN f -> P (S f).
  Proof.
    intros HQ HQN t ln st Hw Hd. destruct t as [c body more|ch n content|ts|mk pad ts|mk pad ts bl next|lv hc hb|rc rn|e0 epre ech edbl ew epost|l0 lpre lw ldest lpost|s0 st0' sgs|k0 kpre kn kcode kpost|b0 bbody bk bmore|o0 opre ox opost].
    - rewrite para_tokenize by exact Hw. reflexivity.
    - rewrite fence_tokenize by exact Hw. reflexivity.
    - cbn [wf_b] in Hw. repeat rewrite andb_true_iff in Hw. destruct Hw as [[Hs Hall] Hg].
      destruct (good_lines _ Hg) as (c0 & body0 & rest & El & _ & _ & _ & _ & Hok & Hne).
      cbn [spell]. rewrite text_quote.
      rewrite (quote_wraps types true _ (S f) ln st Hq Hne Hok).
      rewrite (HQ ts ln (mkPs false) Hs Hall (children_depth ts f Hd)). cbn [fst]. rewrite pre_of_quote. reflexivity.
    - apply (P_list f HQ HQN (FItem mk pad ts) ln st eq_refl Hw Hd).
    - apply (P_list f HQ HQN (FMore mk pad ts bl next) ln st eq_refl Hw Hd).
    - rewrite head_tokenize by exact Hw. reflexivity.
    - rewrite rule_tokenize by exact Hw. reflexivity.
    - rewrite em_tokenize by exact Hw. reflexivity.
    - rewrite link_tokenize by exact Hw. reflexivity.
    - rewrite sent_tokenize by exact Hw. reflexivity.
    - rewrite tick_tokenize by exact Hw. reflexivity.
    - rewrite fbrk_tokenize by exact Hw. reflexivity.
    - rewrite one_tokenize by exact Hw. reflexivity.
  Qed.

  Lemma P_zero : P 0.
  Proof.
    intros t ln st Hw Hd. destruct t as [c body more|ch n content|ts|mk pad ts|mk pad ts bl next|lv hc hb|rc rn|e0 epre ech edbl ew epost|l0 lpre lw ldest lpost|s0 st0' sgs|k0 kpre kn kcode kpost|b0 bbody bk bmore|o0 opre ox opost]; [| |cbn [depth] in Hd; lia|cbn [depth] in Hd; lia|cbn [depth] in Hd; lia| | | | | | | |].
    - rewrite para_tokenize by exact Hw. reflexivity.
    - rewrite fence_tokenize by exact Hw. reflexivity.
    - rewrite head_tokenize by exact Hw. reflexivity.
    - rewrite rule_tokenize by exact Hw. reflexivity.
    - rewrite em_tokenize by exact Hw. reflexivity.
    - rewrite link_tokenize by exact Hw. reflexivity.
    - rewrite sent_tokenize by exact Hw. reflexivity.
    - rewrite tick_tokenize by exact Hw. reflexivity.
    - rewrite fbrk_tokenize by exact Hw. reflexivity.
    - rewrite one_tokenize by exact Hw. reflexivity.
  Qed.

  Theorem fragment_all : forall f, P f /\ Q f /\ QN f.
  Proof.
    induction f as [|f (IHP & IHQ & IHN)].
    - assert (HP : P 0) by exact P_zero.
      assert (HC : C 0) by (apply C_from; intros f' E; discriminate).
      split; [exact HP|]. split; [apply Q_from; assumption|apply QN_from; exact HC].
    - assert (HP : P (S f)) by (apply P_succ; assumption).
      assert (HC : C (S f)) by (apply C_from; intros f' E; injection E as <-; split; assumption).
      split; [exact HP|]. split; [apply Q_from; assumption|apply QN_from; exact HC].
  Qed.

  Theorem fragment_tree t f ln st : wf_b t = true -> (depth t <= f)%nat ->
    tokenize_block types (S f) (text_of (spell t)) ln st = ([pre_of md ln t], false, st_after st t).
  Proof. intros Hw Hd. exact (proj1 (fragment_all f) t ln st Hw Hd). Qed.

  (* a sequence of blocks separated by blank lines: a whole document, or the content of a container *)
  Theorem fragment_seq ts f ln st : seq_ok_b ts = true -> forallb wf_b ts = true -> Forall (fun t => (depth t <= f)%nat) ts ->
    tokenize_block types (S f) (text_of (join_blank (map spell ts))) ln st = (pre_seq md ln ts, negb md && (1 <? Z.of_nat (length ts)), st_seq st ts).
  Proof. intros Hs Hall Hd. exact (proj1 (proj2 (fragment_all f)) ts ln st Hs Hall Hd). Qed.
End Main.

(* ---- the token configurations that are modelled qualify ---- *)
From Mistletoe Require Import Model.Parser.
Definition fragment_config (types : list block_kind) : bool :=
  no_blankline_kind types && quote_first types && list_first types && existsb (fun k => kind_eqb k BK_Paragraph) types && fence_first types && heading_first types && thematic_first types.
Lemma fragment_configs :
  forallb (fun c => fragment_config (cfg_block c)) [cfg_html; cfg_html_nohtml; cfg_latex; cfg_mathjax; cfg_default] = true.
Proof. vm_compute. reflexivity. Qed.

Theorem fragment_tree_cfg types t f ln st : fragment_config types = true -> wf_b t = true -> (depth t <= f)%nat ->
  tokenize_block types (S f) (text_of (spell t)) ln st = ([pre_of false ln t], false, st_after st t).
Proof.
  unfold fragment_config. intros H. repeat rewrite andb_true_iff in H. destruct H as [[[[[[H1 H2] H3] H4] H5] H6] H7].
  apply (fragment_tree types false); try assumption; [|apply in_dec_paragraph; exact H4].
  intros rec m B ln0 acc lo st0. rewrite dispatch_nl by exact H1. cbn [blank_entry app negb]. rewrite orb_true_r. reflexivity.
Qed.

Theorem fragment_seq_cfg types ts f ln st : fragment_config types = true -> seq_ok_b ts = true -> forallb wf_b ts = true -> Forall (fun t => (depth t <= f)%nat) ts ->
  tokenize_block types (S f) (text_of (join_blank (map spell ts))) ln st = (pre_seq false ln ts, 1 <? Z.of_nat (length ts), st_seq st ts).
Proof.
  unfold fragment_config. intros H. repeat rewrite andb_true_iff in H. destruct H as [[[[[[H1 H2] H3] H4] H5] H6] H7].
  apply (fragment_seq types false); try assumption; [|apply in_dec_paragraph; exact H4].
  intros rec m B ln0 acc lo st0. rewrite dispatch_nl by exact H1. cbn [blank_entry app negb]. rewrite orb_true_r. reflexivity.
Qed.

(* the token set of the Markdown renderer: a blank line is a BlankLine block *)
Lemma markdown_blank rec m B ln acc lo st :
  dispatch_loop block_types_markdown rec (S m) (NL :: B) ln acc lo st =
  dispatch_loop block_types_markdown rec m B (ln + 1) (blank_entry true ln ++ acc) (lo || negb true) st.
Proof. cbn [dispatch_loop]. cbn [blank_entry app negb]. rewrite orb_false_r. reflexivity. Qed.

Theorem fragment_tree_markdown t f ln st : wf_b t = true -> (depth t <= f)%nat ->
  tokenize_block block_types_markdown (S f) (text_of (spell t)) ln st = ([pre_of true ln t], false, st_after st t).
Proof.
  apply (fragment_tree block_types_markdown true); try reflexivity; [exact markdown_blank|].
  apply in_dec_paragraph. reflexivity.
Qed.

Theorem fragment_seq_markdown ts f ln st : seq_ok_b ts = true -> forallb wf_b ts = true -> Forall (fun t => (depth t <= f)%nat) ts ->
  tokenize_block block_types_markdown (S f) (text_of (join_blank (map spell ts))) ln st = (pre_seq true ln ts, false, st_seq st ts).
Proof.
  apply (fragment_seq block_types_markdown true); try reflexivity; [exact markdown_blank|].
  apply in_dec_paragraph. reflexivity.
Qed.

(* non-vacuity: a fence inside a list inside a quote inside a list ... *)
Example fragment_instance :
  let fence := FFence 96 3 [SLine 2 120 $" = 1"; SBlank; SLine 0 35 $" not a heading"] in
  let t1 := FItem (MBullet 45) 2 [FPara 97 $"b" []; FQuote [FPara 99 $"d" []; FItem (MOrdered $"12" 41) 1 [FPara 101 [] []; fence]; FPara 103 [] []]; FPara 102 [] []] in
  let t2 := FQuote [FQuote [FPara 97 [] []]; fence; FPara 98 [] []; t1] in
  wf_b t2 = true /\ depth t2 = 4%nat /\ length (spell t2) = 25%nat /\
  text_of (spell (FItem (MOrdered $"12" 41) 1 [FPara 101 [] []; fence])) =
    [ $"12) e" ++ [10]; [10]; $"    ```" ++ [10]; $"      x = 1" ++ [10]; [10]; $"    # not a heading" ++ [10]; $"    ```" ++ [10] ].
Proof. vm_compute. repeat split; reflexivity. Qed.

(* ---- the token tree: the inline phase on the fragment ---- *)
From Mistletoe Require Import Model.Tree Model.Inline Model.Build Model.HtmlRenderer.

Section TokOf.
  Variable md : bool.
  Definition blank_tok : list tok := if md then [BlankLine] else [].
  Fixpoint tok_of (t : ftree) : tok :=
    let seq := (fix seq (ts : list ftree) : list tok :=
                  match ts with
                  | [] => []
                  | t :: r => tok_of t :: match r with [] => [] | _ => blank_tok ++ seq r end
                  end) in
    match t with
    | FPara c body more => Paragraph (prose_toks ((c :: body) :: more))
    | FFence ch n content => CodeFence (mkFence 0 (repeat ch n) [] [] (concat (map render_line content)))
    | FQuote ts => Quote (seq ts)
    | FItem mk pad ts =>
      let leader := marker_str mk in
      let loose := negb md && (1 <? Z.of_nat (length ts)) in
      List (if slen leader =? 1 then None else Some (int_of_digits (removelast leader))) loose
           [ListItem (mkItem leader 0 (Z.of_nat (length leader + pad)) loose) (seq ts)]
    | FMore mk pad ts bl next =>
      (* an item that is not the last: a blank line after it makes it loose (or is its last child, a BlankLine) *)
      let leader := marker_str mk in
      let loose := if bl then negb md else negb md && (1 <? Z.of_nat (length ts)) in
      let item := ListItem (mkItem leader 0 (Z.of_nat (length leader + pad)) loose) (seq ts ++ (if bl then blank_tok else [])) in
      match tok_of next with
      | List _ lo items => List (if slen leader =? 1 then None else Some (int_of_digits (removelast leader))) (loose || lo) (item :: items)
      | other => other
      end
    | FHead lv c body => Heading (Z.of_nat lv) [] [RawText (c :: body)]
    | FRule c n => ThematicBreak (repeat c (S (S (S n))))
    | FEm c0 pre ch double w post =>
      Paragraph (RawText (c0 :: pre) :: (if double then Strong [ch] [RawText w] else Emphasis [ch] [RawText w]) :: raw_if post)
    | FLink c0 pre w dest post => Paragraph (RawText (c0 :: pre) :: ilink_of w dest :: raw_if post)
    | FSent c0 t0 gs => Paragraph (RawText (c0 :: t0) :: mix_toks gs)
    | FTick c0 pre n code post => Paragraph (RawText (c0 :: pre) :: code_of n code :: raw_if post)
    | FBrk c body k more => Paragraph (brk_toks ((c :: body, k) :: more))
    | FOne c0 pre x post => Paragraph (RawText (c0 :: pre) :: inl_tok x :: raw_if post)
    end.
  Fixpoint tok_seq (ts : list ftree) : list tok :=
    match ts with
    | [] => []
    | t :: r => tok_of t :: match r with [] => [] | _ => blank_tok ++ tok_seq r end
    end.
End TokOf.

Section Tokens.
  Variable span_types : list span_kind.
  Variable keep : bool.
  Variable fn : footnotes.
  Variable md : bool.
  Hypothesis Hquiet : prose_spans span_types = true.
  Hypothesis Hemph : emph_spans span_types = true.
  Hypothesis Hinert : inert_spans span_types = true.
  Hypothesis Hleaf : leaf_spans span_types = true.
  Lemma Hrefs : ref_spans span_types = true.  Proof. unfold leaf_spans in Hleaf. repeat rewrite andb_true_iff in Hleaf. tauto. Qed.
  Lemma Hcodes : code_spans span_types = true.  Proof. unfold leaf_spans in Hleaf. repeat rewrite andb_true_iff in Hleaf. tauto. Qed.
  Hypothesis Hfn : fn = [].       (* the trees of the fragment define no link reference, so that "[b]" in a paragraph is text *)

  Lemma build_para c body more ln : wf_b (FPara c body more) = true ->
    build span_types keep fn (pre_of md ln (FPara c body more)) = Some (tok_of md (FPara c body more)).
  Proof.
    intros Hw. destruct (wf_para c body more Hw) as (PL & _ & Hc). pose proof (wf_para_inert c body more Hw) as Hi.
    destruct (inert_para_core _ Hi) as ((H92 & _) & Hamp & _ & H10).
    rewrite para_pre. cbn [build tok_of].
    pose proof (strip_lines (c :: body) more PL Hc) as E.
    match goal with |- context [strip ?x] => replace (strip x) with (join [10] ((c :: body) :: more)) by (symmetry; exact E) end. unfold inline.
    rewrite Hfn.
    rewrite (tokenize_inner_lines span_types [] ((c :: body) :: more)); [reflexivity|discriminate| |apply srcs_inert_static; assumption].
    assert (Hbl : Forall block_line ((c :: body) :: more)) by (constructor; [exact PL|apply Forall_forall; intros x Hx; rewrite Forall_forall in Hc; apply (Hc x Hx)]).
    apply Forall_forall. intros x Hx. rewrite Forall_forall in Hbl, H10. destruct (Hbl x Hx) as (_ & _ & Hne & Hl).
    split; [apply H10; exact Hx|]. split; [apply (mem_join_line 92 ((c :: body) :: more)); assumption|]. split; [apply (amp_ok_join_line ((c :: body) :: more)); assumption|].
    split; [exact Hne|]. intros E32. rewrite E32 in Hl. vm_compute in Hl. discriminate.
  Qed.

  Lemma build_head lv c body ln : wf_b (FHead lv c body) = true ->
    build span_types keep fn (pre_of md ln (FHead lv c body)) = Some (tok_of md (FHead lv c body)).
  Proof.
    intros Hw. cbn [wf_b] in Hw. repeat rewrite andb_true_iff in Hw. destruct Hw as [[[[[[_ _] Hp] _] _] _] H7]. apply negb_true_iff in H7.
    cbn [pre_of build tok_of]. unfold inline. change (c :: body) with (join [10] [c :: body]) at 1.
    rewrite (tokenize_inner_spans span_types fn [c :: body] Hquiet); [reflexivity|discriminate|].
    constructor; [|constructor]. repeat split; [exact Hp|discriminate|]. intros E. rewrite E in H7. vm_compute in H7. discriminate.
  Qed.

  Lemma build_rule c n ln : wf_b (FRule c n) = true ->
    build span_types keep fn (pre_of md ln (FRule c n)) = Some (tok_of md (FRule c n)).
  Proof.
    intros Hw. cbn [wf_b] in Hw. assert (Hc : c = 45 \/ c = 95 \/ c = 42).
    { apply orb_true_iff in Hw as [H|H]; [apply orb_true_iff in H as [H|H]|]; apply Z.eqb_eq in H; auto. }
    cbn [pre_of build tok_of]. f_equal. f_equal. change (c :: repeat c (S (S n)) ++ [10]) with (tline c n). apply strip_tline. exact Hc.
  Qed.

  Lemma build_em c0 pre ch double w post ln : wf_b (FEm c0 pre ch double w post) = true ->
    build span_types keep fn (pre_of md ln (FEm c0 pre ch double w post)) = Some (tok_of md (FEm c0 pre ch double w post)).
  Proof.
    intros Hw. destruct (em_wf _ _ _ _ _ _ Hw) as (Hch & Hew & Hpre & Hpost & Hpe & Hpo & _).
    cbn [pre_of build tok_of map concat]. rewrite app_nil_r.
    change (c0 :: em_body pre ch double w post ++ [10]) with (em_line c0 pre ch double w post ++ [10]).
    destruct (strip_block_line _ (em_block_line _ _ _ _ _ _ Hw)) as [S _]. rewrite S. unfold inline.
    pose proof (emphasis_in_sentence span_types fn (mkHopts false false) ch double (c0 :: pre) w post Hch Hew Hpre Hpost Hpe Hpo Hemph) as [T _].
    cbv zeta in T.
    replace (em_line c0 pre ch double w post) with ((c0 :: pre) ++ (if double then [ch; ch] else [ch]) ++ w ++ (if double then [ch; ch] else [ch]) ++ post) by reflexivity.
    rewrite T. reflexivity.
  Qed.

  Lemma build_link c0 pre w dest post ln : wf_b (FLink c0 pre w dest post) = true ->
    build span_types keep fn (pre_of md ln (FLink c0 pre w dest post)) = Some (tok_of md (FLink c0 pre w dest post)).
  Proof.
    intros Hw. destruct (link_wf _ _ _ _ _ Hw) as (Hok & _).
    cbn [pre_of build tok_of map concat]. rewrite app_nil_r.
    change (c0 :: link_body pre w dest post ++ [10]) with (link_line c0 pre w dest post ++ [10]).
    destruct (strip_block_line _ (link_block_line _ _ _ _ _ Hw)) as [S _]. rewrite S. unfold inline.
    pose proof (link_in_sentence span_types fn (c0 :: pre) w dest post Hrefs Hok) as T.
    replace (link_line c0 pre w dest post) with ((c0 :: pre) ++ [91] ++ w ++ [93; 40] ++ dest ++ [41] ++ post) by reflexivity.
    rewrite T. reflexivity.
  Qed.

  Lemma build_sent c0 t0 gs ln : wf_b (FSent c0 t0 gs) = true ->
    build span_types keep fn (pre_of md ln (FSent c0 t0 gs)) = Some (tok_of md (FSent c0 t0 gs)).
  Proof.
    intros Hw. destruct (sent_wf _ _ _ Hw) as (Hok & _).
    cbn [pre_of build tok_of map concat]. rewrite app_nil_r.
    change (c0 :: (t0 ++ mbody gs) ++ [10]) with (sent_line c0 t0 gs ++ [10]).
    destruct (strip_block_line _ (sent_block_line _ _ _ Hw)) as [S _]. rewrite S. unfold inline.
    pose proof (mixed_phrases span_types fn (c0 :: t0) gs Hrefs Hok) as T.
    replace (sent_line c0 t0 gs) with ((c0 :: t0) ++ mbody gs) by reflexivity.
    rewrite T. reflexivity.
  Qed.

  Lemma build_tick c0 pre n code post ln : wf_b (FTick c0 pre n code post) = true ->
    build span_types keep fn (pre_of md ln (FTick c0 pre n code post)) = Some (tok_of md (FTick c0 pre n code post)).
  Proof.
    intros Hw. destruct (tick_wf _ _ _ _ _ Hw) as (Hok & _).
    cbn [pre_of build tok_of map concat]. rewrite app_nil_r.
    change (c0 :: tick_body pre n code post ++ [10]) with (tick_line c0 pre n code post ++ [10]).
    destruct (strip_block_line _ (tick_block_line _ _ _ _ _ Hw)) as [S _]. rewrite S. unfold inline.
    pose proof (code_in_sentence span_types fn n (c0 :: pre) code post Hcodes Hok) as T.
    replace (tick_line c0 pre n code post) with ((c0 :: pre) ++ ticks n ++ code ++ ticks n ++ post) by reflexivity.
    rewrite T. reflexivity.
  Qed.

  Lemma build_brk c body k more ln : wf_b (FBrk c body k more) = true ->
    build span_types keep fn (pre_of md ln (FBrk c body k more)) = Some (tok_of md (FBrk c body k more)).
  Proof.
    cbn [wf_b]. intros Hw. cbn [pre_of build tok_of].
    pose proof (brk_strip _ Hw) as E.
    match goal with |- context [strip ?x] => replace (strip x) with (brk_join ((c :: body, k) :: more)) by (symmetry; exact E) end. unfold inline.
    destruct (brk_para_okb _ Hw) as [Hne Hok].
    rewrite (breaks_in_paragraph_text span_types fn _ Hquiet Hne Hok). reflexivity.
  Qed.

  Lemma build_one c0 pre x post ln : wf_b (FOne c0 pre x post) = true ->
    build span_types keep fn (pre_of md ln (FOne c0 pre x post)) = Some (tok_of md (FOne c0 pre x post)).
  Proof.
    intros Hw. destruct (one_wf _ _ _ _ Hw) as (Hok & _).
    cbn [pre_of build tok_of map concat]. rewrite app_nil_r.
    change (c0 :: one_body pre x post ++ [10]) with (one_line c0 pre x post ++ [10]).
    destruct (strip_block_line _ (one_block_line _ _ _ _ Hw)) as [S _]. rewrite S. unfold inline.
    pose proof (one_in_sentence span_types fn (c0 :: pre) x post Hleaf Hemph Hok) as T.
    replace (one_line c0 pre x post) with ((c0 :: pre) ++ inl_text x ++ post) by reflexivity.
    rewrite T. reflexivity.
  Qed.

  Lemma kids_blank ln : flat_map (fun e => match build span_types keep fn e with Some t => [t] | None => [] end) (blank_entry md ln) = blank_tok md.
  Proof. unfold blank_entry, blank_tok. destruct md; reflexivity. Qed.

  Lemma build_fragment : forall f t ln, (depth t <= f)%nat -> wf_b t = true ->
    build span_types keep fn (pre_of md ln t) = Some (tok_of md t).
  Proof.
    induction f as [|f IH].
    - intros t ln Hd Hw.
      destruct t as [c body more|ch n content|ts|mk pad ts|mk pad ts bl next|lv hc hb|rc rn|e0 epre ech edbl ew epost|l0 lpre lw ldest lpost|s0 st0' sgs|k0 kpre kn kcode kpost|b0 bbody bk bmore|o0 opre ox opost]; [apply build_para; exact Hw|reflexivity|cbn [depth] in Hd; lia|cbn [depth] in Hd; lia|cbn [depth] in Hd; lia|apply build_head; exact Hw|apply build_rule; exact Hw|apply build_em; exact Hw|apply build_link; exact Hw|apply build_sent; exact Hw|apply build_tick; exact Hw|apply build_brk; exact Hw|apply build_one; exact Hw].
    - assert (Kids : forall ts ln, Forall (fun t => (depth t <= f)%nat) ts -> forallb wf_b ts = true ->
                flat_map (fun e => match build span_types keep fn e with Some t => [t] | None => [] end) (pre_seq md ln ts) = tok_seq md ts).
      { induction ts as [|t0 r IHr]; intros ln0 Hds Hws; [reflexivity|].
        inversion Hds; subst. cbn [forallb] in Hws. apply andb_true_iff in Hws as [Hw1 Hwr].
        cbn [pre_seq flat_map tok_seq]. rewrite (IH t0 ln0) by assumption. cbn [app]. f_equal.
        destruct r as [|t1 r']; [reflexivity|]. rewrite flat_map_app. rewrite IHr by assumption.
        f_equal. unfold blank_entry, blank_tok. destruct md; reflexivity. }
      intros t. induction t as [c body more|ch n content|ts|mk pad ts|mk pad ts bl next IHn|lv hc hb|rc rn|e0 epre ech edbl ew epost|l0 lpre lw ldest lpost|s0 st0' sgs|k0 kpre kn kcode kpost|b0 bbody bk bmore|o0 opre ox opost]; intros ln Hd Hw;
        [apply build_para; exact Hw|reflexivity| | | |apply build_head; exact Hw|apply build_rule; exact Hw|apply build_em; exact Hw|apply build_link; exact Hw|apply build_sent; exact Hw|apply build_tick; exact Hw|apply build_brk; exact Hw|apply build_one; exact Hw].
      + cbn [wf_b] in Hw. repeat rewrite andb_true_iff in Hw. destruct Hw as [[_ Hall] _].
        rewrite pre_of_quote. cbn [build]. rewrite Kids; [reflexivity| |exact Hall].
        apply children_depth. cbn [depth] in Hd. exact Hd.
      + cbn [wf_b] in Hw. repeat rewrite andb_true_iff in Hw. destruct Hw as [[[[[[_ _] _] _] Hall] _] _].
        rewrite pre_of_item. cbn [build flat_map app existsb i_loose i_leader orb].
        rewrite Kids; [rewrite orb_false_r; reflexivity| |exact Hall].
        apply children_depth. cbn [depth] in Hd. exact Hd.
      + cbn [wf_b] in Hw. repeat rewrite andb_true_iff in Hw. destruct Hw as [[[[[[[[[_ _] _] _] Hall] _] _] Hin] _] Hwn].
        cbn [depth] in Hd.
        assert (Hd1 : Forall (fun t => (depth t <= f)%nat) ts) by (apply children_depth; lia).
        assert (Hd2 : (depth next <= S f)%nat) by lia.
        rewrite pre_of_more. cbv zeta.
        set (ln' := ln + Z.of_nat (length (item_lines mk pad (join_blank (map spell ts)))) + (if bl then 1 else 0)).
        specialize (IHn ln' Hd2 Hwn). rewrite (pre_of_chain md next ln' Hin Hwn) in IHn |- *.
        cbn [build] in IHn. injection IHn as IHn.
        cbn [tok_of]. fold (tok_seq md ts). rewrite <- IHn.
        cbn [build flat_map app existsb i_loose i_leader]. rewrite flat_map_app, (Kids ts ln Hd1 Hall).
        destruct bl; [rewrite kids_blank|]; reflexivity.
  Qed.

  Lemma build_seq ts ln : forallb wf_b ts = true ->
    flat_map (fun e => match build span_types keep fn e with Some t => [t] | None => [] end) (pre_seq md ln ts) = tok_seq md ts.
  Proof.
    revert ln. induction ts as [|t0 r IHr]; intros ln Hws; [reflexivity|].
    cbn [forallb] in Hws. apply andb_true_iff in Hws as [Hw1 Hwr].
    cbn [pre_seq flat_map tok_seq]. rewrite (build_fragment (depth t0) t0 ln (le_n _) Hw1). cbn [app]. f_equal.
    destruct r as [|t1 r']; [reflexivity|]. rewrite flat_map_app. rewrite IHr by assumption.
    f_equal. apply kids_blank.
  Qed.
End Tokens.

(* parse-after-write on the fragment, through the inline phase: the token tree is the tree the text was written from *)
Theorem fragment_token_tree types span_types keep t f ln st :
  fragment_config types = true -> prose_spans span_types = true -> emph_spans span_types = true -> inert_spans span_types = true -> leaf_spans span_types = true ->
  wf_b t = true -> (depth t <= f)%nat ->
  make_tokens span_types keep [] (fst (fst (tokenize_block types (S f) (text_of (spell t)) ln st))) = [tok_of false t].
Proof.
  intros Hc Hq He Hi Hr Hw Hd. rewrite fragment_tree_cfg by assumption. cbn [fst]. unfold make_tokens. cbn [flat_map].
  rewrite (build_fragment span_types keep [] false Hq He Hi Hr eq_refl f t ln Hd Hw). reflexivity.
Qed.

Theorem fragment_token_tree_markdown span_types keep t f ln st :
  prose_spans span_types = true -> emph_spans span_types = true -> inert_spans span_types = true -> leaf_spans span_types = true -> wf_b t = true -> (depth t <= f)%nat ->
  make_tokens span_types keep [] (fst (fst (tokenize_block block_types_markdown (S f) (text_of (spell t)) ln st))) = [tok_of true t].
Proof.
  intros Hq He Hi Hr Hw Hd. rewrite fragment_tree_markdown by assumption. cbn [fst]. unfold make_tokens. cbn [flat_map].
  rewrite (build_fragment span_types keep [] true Hq He Hi Hr eq_refl f t ln Hd Hw). reflexivity.
Qed.

(* the trees of the fragment define no link reference *)
Lemma defs_of_fragment md : forall f t ln, (depth t <= f)%nat -> defs_of (pre_of md ln t) = [].
Proof.
  induction f as [|f IH].
  - intros t ln Hd. destruct t; try reflexivity; cbn [depth] in Hd; lia.
  - assert (Kids : forall ts ln, Forall (fun t => (depth t <= f)%nat) ts -> flat_map defs_of (pre_seq md ln ts) = []).
    { induction ts as [|t0 r IHr]; intros ln0 Hds; [reflexivity|]. inversion Hds; subst.
      cbn [pre_seq flat_map]. rewrite (IH t0 ln0) by assumption. cbn [app].
      destruct r as [|t1 r']; [reflexivity|]. rewrite flat_map_app, IHr by assumption. unfold blank_entry. destruct md; reflexivity. }
    intros t. induction t as [c body more|ch n content|ts|mk pad ts|mk pad ts bl next IHn|lv hc hb|rc rn|e0 epre ech edbl ew epost|l0 lpre lw ldest lpost|s0 st0' sgs|k0 kpre kn kcode kpost|b0 bbody bk bmore|o0 opre ox opost]; intros ln Hd; try reflexivity.
    + rewrite pre_of_quote. cbn [defs_of]. apply Kids. apply children_depth. cbn [depth] in Hd. exact Hd.
    + rewrite pre_of_item. cbn [defs_of flat_map]. rewrite app_nil_r. apply Kids. apply children_depth. cbn [depth] in Hd. exact Hd.
    + cbn [depth] in Hd. rewrite pre_of_more. cbv zeta.
      specialize (IHn (ln + Z.of_nat (length (item_lines mk pad (join_blank (map spell ts)))) + (if bl then 1 else 0)) ltac:(lia)).
      destruct (pre_of md _ next); try exact IHn.
      cbn [defs_of flat_map] in *. rewrite IHn, app_nil_r, flat_map_app, Kids by (apply children_depth; lia).
      unfold blank_entry. destruct bl, md; reflexivity.
Qed.

Lemma footnotes_of_seq md ts ln : footnotes_of (pre_seq md ln ts) = [].
Proof.
  unfold footnotes_of. assert (E : flat_map defs_of (pre_seq md ln ts) = []); [|rewrite E; reflexivity].
  revert ln. induction ts as [|t0 r IHr]; intros ln; [reflexivity|].
  cbn [pre_seq flat_map]. rewrite (defs_of_fragment md (depth t0) t0 ln (le_n _)). cbn [app].
  destruct r as [|t1 r']; [reflexivity|]. rewrite flat_map_app, IHr. unfold blank_entry. destruct md; reflexivity.
Qed.

Lemma footnotes_of_fragment md t ln : footnotes_of [pre_of md ln t] = [].
Proof. unfold footnotes_of. cbn [flat_map]. rewrite app_nil_r, (defs_of_fragment md (depth t) t ln (le_n _)). reflexivity. Qed.
