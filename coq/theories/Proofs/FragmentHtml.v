(* C03 on the fragment, down to the HTML: for every tree of Spec/Fragment.v the HTML renderer
   model, applied to the document parsed from the spelled text, writes exactly the HTML
   written here directly from the tree (html_f: the layout of CommonMark's reference output -
   tags, newlines, tight list items without <p>, escaped text).  Also for the text given as
   ONE string (mistletoe.markdown(text)): splitting at line breaks gives the lines back when
   no line holds another of str.splitlines' break characters. *)
From Coq Require Import ZArith List Bool Lia.
From Mistletoe Require Import Base.Sx Base.PyStr Base.PyText Gen.GenTables Gen.GenConfig Gen.GenEscapes Model.Fillers Model.Tree Model.CoreTokens Model.Block Model.Build
     Model.DocLines Model.HtmlRenderer Model.Parser Proofs.PlainProse Proofs.Prose Proofs.ProseLines Proofs.ListLaw Proofs.FenceLaw Spec.Fragment Proofs.InertProse Proofs.FragmentP Proofs.FragmentDoc Proofs.EmphSimple Proofs.EmphSentence Proofs.RefSentence Proofs.LinkSentence Proofs.MixPhrases Proofs.CodeSpan Proofs.HardBreaks Proofs.BreakBlocks Proofs.StrikeSentence Proofs.EscSentence Proofs.ImageSentence Proofs.LeafSpans Proofs.OneInline Proofs.EmphPhrases Proofs.NestedEmph Proofs.TitleLink Proofs.AutoLinkSentence Proofs.AngleLink Proofs.LinkEmph.
Import ListNotations.
Local Open Scope Z_scope.

Definition is_fpara (t : ftree) : bool := match t with FPara _ _ _ | FEm _ _ _ _ _ _ | FLink _ _ _ _ _ | FSent _ _ _ | FTick _ _ _ _ _ | FBrk _ _ _ _ | FOne _ _ _ _ => true | _ => false end.

(* the HTML inside a nested emphasis: the text, the inner phrases with the text after each *)
Fixpoint nest_html (o : hopts) (g : str) (ps : list phrase) (zz : str) : str :=
  match ps with
  | [] => escape_html_text o (g ++ zz)
  | (ch, k, w, t) :: r =>
    let tag := if Z.of_nat (S k) =? 2 then $"strong" else $"em" in
    escape_html_text o g ++ $"<" ++ tag ++ $">" ++ escape_html_text o w ++ $"</" ++ tag ++ $">" ++ nest_html o t r zz
  end.

(* the HTML of the inline element of a leaf FOne *)
Definition inl_html (o : hopts) (x : inl) : str :=
  match x with
  | IAuto c0 sc r => $"<a href=" ++ [34] ++ fill o html_autolink_target (c0 :: sc ++ 58 :: r) ++ [34] ++ $">" ++ escape_html_text o (c0 :: sc ++ 58 :: r) ++ $"</a>"
  | ILinkE h ps z d => $"<a href=" ++ [34] ++ fill o html_link_target d ++ [34] ++ $">" ++ nest_html o h ps z ++ $"</a>"
  | ILinkA w c0 d => $"<a href=" ++ [34] ++ fill o html_link_target (c0 :: d) ++ [34] ++ $">" ++ escape_html_text o w ++ $"</a>"
  | ILinkT w d q tl =>
    $"<a href=" ++ [34] ++ fill o html_link_target d ++ [34] ++ (match tl with [] => [] | _ => $" title=" ++ [34] ++ fill o html_link_title tl ++ [34] end) ++ $">" ++ escape_html_text o w ++ $"</a>"
  | INest ch k h ps z =>
    let tag := if Z.of_nat (S k) =? 2 then $"strong" else $"em" in
    $"<" ++ tag ++ $">" ++ nest_html o h ps z ++ $"</" ++ tag ++ $">"
  | IStrike w => $"<del>" ++ escape_html_text o w ++ $"</del>"
  | IEsc c => escape_html_text o [c]
  | IImg w d => $"<img src=" ++ [34] ++ fill o html_image_src d ++ [34] ++ $" alt=" ++ [34] ++ fill0 html_plain_leaf w ++ [34] ++ $" />"
  end.

(* the lines of a paragraph, escaped; a line followed by two spaces or more ends in <br /> *)
Fixpoint brk_html (o : hopts) (ls : list (str * nat)) : str :=
  match ls with
  | [] => []
  | (l, k) :: r => escape_html_text o l ++ match r with [] => [] | _ => (if Nat.ltb k 2 then [10] else $"<br />" ++ [10]) ++ brk_html o r end
  end.

(* the HTML of one segment of a sentence: the phrase or the link, then the text after it *)
Definition seg_html (o : hopts) (g : mseg) : str :=
  match g with
  | MEm ch k w t =>
    let tag := if Z.of_nat (S k) =? 2 then $"strong" else $"em" in
    $"<" ++ tag ++ $">" ++ escape_html_text o w ++ $"</" ++ tag ++ $">" ++ escape_html_text o t
  | MLk w d t => $"<a href=" ++ [34] ++ fill o html_link_target d ++ [34] ++ $">" ++ escape_html_text o w ++ $"</a>" ++ escape_html_text o t
  end.
Definition first_fpara (ts : list ftree) : bool := match ts with t :: _ => is_fpara t | [] => false end.
Definition last_fpara (ts : list ftree) : bool := match rev ts with t :: _ => is_fpara t | [] => false end.

Definition list_open (mk : marker) : str :=
  match mk with
  | MBullet _ => $"<ul>"
  | MOrdered ds _ => if int_of_digits ds =? 1 then $"<ol>" else $"<ol start=""" ++ str_of_Z (int_of_digits ds) ++ $""">"
  end.
Definition list_close (mk : marker) : str := match mk with MBullet _ => $"</ul>" | MOrdered _ _ => $"</ol>" end.

(* a list is loose when one of its items holds two blocks or more, or a blank line separates two of its items *)
Fixpoint chain_loose (t : ftree) : bool :=
  match t with
  | FItem _ _ ts => 1 <? Z.of_nat (length ts)
  | FMore _ _ ts bl next => bl || (1 <? Z.of_nat (length ts)) || chain_loose next
  | _ => false
  end.

Fixpoint html_f (o : hopts) (tight : bool) (t : ftree) : str :=
  match t with
  | FPara c body more =>
    let inner := join [10] (map (escape_html_text o) ((c :: body) :: more)) in
    if tight then inner else $"<p>" ++ inner ++ $"</p>"
  | FFence _ _ content => $"<pre><code>" ++ escape_html_text o (concat (map render_line content)) ++ $"</code></pre>"
  | FQuote ts => $"<blockquote>" ++ [10] ++ join [10] (map (html_f o false) ts) ++ [10] ++ $"</blockquote>"
  | FItem mk pad ts =>
    let tight' := negb (1 <? Z.of_nat (length ts)) in
    list_open mk ++ [10] ++ $"<li>" ++ (if tight' && first_fpara ts then [] else [10]) ++
    join [10] (map (html_f o tight') ts) ++ (if tight' && last_fpara ts then [] else [10]) ++ $"</li>" ++ [10] ++ list_close mk
  | FMore mk pad ts bl next =>      (* a list of several items: tight only if no item holds two blocks and no blank line separates two items *)
    let tight' := negb (bl || (1 <? Z.of_nat (length ts)) || chain_loose next) in
    list_open mk ++ [10] ++ $"<li>" ++ (if tight' && first_fpara ts then [] else [10]) ++
    join [10] (map (html_f o tight') ts) ++ (if tight' && last_fpara ts then [] else [10]) ++ $"</li>" ++ [10] ++ html_lis o tight' next ++ [10] ++ list_close mk
  | FHead lv c body => $"<h" ++ [48 + Z.of_nat lv] ++ $">" ++ escape_html_text o (c :: body) ++ $"</h" ++ [48 + Z.of_nat lv] ++ $">"
  | FRule _ _ => $"<hr />"
  | FEm c0 pre ch double w post =>
    let tag := if double then $"strong" else $"em" in
    let inner := escape_html_text o (c0 :: pre) ++ $"<" ++ tag ++ $">" ++ escape_html_text o w ++ $"</" ++ tag ++ $">" ++ escape_html_text o post in
    if tight then inner else $"<p>" ++ inner ++ $"</p>"
  | FLink c0 pre w dest post =>      (* the target goes through the renderer's own filler for link targets (percent-encoding, then HTML escaping) *)
    let inner := escape_html_text o (c0 :: pre) ++ $"<a href=" ++ [34] ++ fill o html_link_target dest ++ [34] ++ $">" ++ escape_html_text o w ++ $"</a>" ++ escape_html_text o post in
    if tight then inner else $"<p>" ++ inner ++ $"</p>"
  | FSent c0 t0 gs =>
    let inner := escape_html_text o (c0 :: t0) ++ concat (map (seg_html o) gs) in
    if tight then inner else $"<p>" ++ inner ++ $"</p>"
  | FTick c0 pre n code post =>      (* the content of the span, one space stripped on each side when both are there, escaped as text *)
    let inner := escape_html_text o (c0 :: pre) ++ $"<code>" ++ escape_html_text o (code_content code) ++ $"</code>" ++ escape_html_text o post in
    if tight then inner else $"<p>" ++ inner ++ $"</p>"
  | FBrk c body k more =>
    let inner := brk_html o ((c :: body, k) :: more) in
    if tight then inner else $"<p>" ++ inner ++ $"</p>"
  | FOne c0 pre x post =>
    let inner := escape_html_text o (c0 :: pre) ++ inl_html o x ++ escape_html_text o post in
    if tight then inner else $"<p>" ++ inner ++ $"</p>"
  end
with html_lis (o : hopts) (tight : bool) (t : ftree) : str :=      (* the items of the rest of a list *)
  match t with
  | FItem _ _ ts =>
    $"<li>" ++ (if tight && first_fpara ts then [] else [10]) ++ join [10] (map (html_f o tight) ts) ++ (if tight && last_fpara ts then [] else [10]) ++ $"</li>"
  | FMore _ _ ts _ next =>
    $"<li>" ++ (if tight && first_fpara ts then [] else [10]) ++ join [10] (map (html_f o tight) ts) ++ (if tight && last_fpara ts then [] else [10]) ++ $"</li>" ++
    [10] ++ html_lis o tight next
  | _ => []
  end.

(* ---- serialisation ---- *)
Lemma serialize_app a b : serialize (a ++ b) = serialize a ++ serialize b.
Proof. apply flat_map_app. Qed.

Lemma serialize_join (f : ftree -> list item) ts :
  serialize (join_items [nl] (map f ts)) = join [10] (map (fun t => serialize (f t)) ts).
Proof.
  induction ts as [|x r IH]; [reflexivity|]. destruct r as [|y r']; [reflexivity|].
  change (map f (x :: y :: r')) with (f x :: map f (y :: r')).
  change (map (fun t => serialize (f t)) (x :: y :: r')) with (serialize (f x) :: map (fun t => serialize (f t)) (y :: r')).
  cbn [join_items join map] in *. rewrite !serialize_app, IH. reflexivity.
Qed.

Lemma join_items_snoc sep (l : list (list item)) x : l <> [] -> join_items sep (l ++ [x]) = join_items sep l ++ sep ++ x.
Proof.
  induction l as [|a r IH]; [contradiction|]. intros _. destruct r as [|b r'].
  - reflexivity.
  - assert (E : join_items sep ((a :: b :: r') ++ [x]) = a ++ sep ++ join_items sep ((b :: r') ++ [x])) by reflexivity.
    rewrite E, IH by discriminate. cbn [join_items]. rewrite <- !app_assoc. reflexivity.
Qed.

Lemma join_items_cons sep a (l : list (list item)) : l <> [] -> join_items sep (a :: l) = a ++ sep ++ join_items sep l.
Proof. destruct l; [contradiction|reflexivity]. Qed.

Lemma render_item o sup a ch : ch <> [] ->
  render o sup false (ListItem a ch) =
  wrap $"li" [] ((if sup && first_is_paragraph ch then [] else [nl]) ++ join_items [nl] (map (render o sup false) ch) ++
                 (if sup && last_is_paragraph ch then [] else [nl])).
Proof. destruct ch; [contradiction|reflexivity]. Qed.

Lemma tok_seq_plain ts : tok_seq false ts = map (tok_of false) ts.
Proof. induction ts as [|t r IH]; [reflexivity|]. cbn [tok_seq map blank_tok app]. destruct r; [reflexivity|]. rewrite IH. reflexivity. Qed.

Lemma tok_of_chain_is_list md : forall t, is_item t = true -> wf_b t = true -> exists s lo items, tok_of md t = List s lo items.
Proof.
  induction t as [| | | mk pad ts | mk pad ts bl next IH | | | | | | | | ]; intros Hi Hw; try discriminate.
  - cbn [tok_of]. eexists. eexists. eexists. reflexivity.
  - cbn [wf_b] in Hw. repeat rewrite andb_true_iff in Hw. destruct Hw as [[[_ Hin] _] Hwn].
    destruct (IH Hin Hwn) as (s & lo & items & E). cbn [tok_of]. rewrite E. eexists. eexists. eexists. reflexivity.
Qed.

Lemma is_para_tok t : wf_b t = true -> match tok_of false t with Paragraph _ => true | _ => false end = is_fpara t.
Proof.
  intros Hw. destruct t as [ | | | |mk pad ts bl next| | | | | | | | ]; try reflexivity.
  destruct (tok_of_chain_is_list false (FMore mk pad ts bl next) eq_refl Hw) as (s & lo & items & ->). reflexivity.
Qed.

Lemma first_para_tok ts : forallb wf_b ts = true -> first_is_paragraph (map (tok_of false) ts) = first_fpara ts.
Proof.
  destruct ts as [|t r]; [reflexivity|]. cbn [forallb]. intros H. apply andb_true_iff in H as [Hw _].
  cbn [map first_is_paragraph first_fpara]. apply (is_para_tok t Hw).
Qed.
Lemma last_para_tok ts : forallb wf_b ts = true -> last_is_paragraph (map (tok_of false) ts) = last_fpara ts.
Proof.
  intros H. unfold last_is_paragraph, last_fpara. rewrite <- map_rev.
  assert (Hr : forallb wf_b (rev ts) = true) by (apply forallb_forall; intros x Hx; rewrite forallb_forall in H; apply H; apply in_rev; exact Hx).
  destruct (rev ts) as [|t r]; [reflexivity|]. cbn [forallb] in Hr. apply andb_true_iff in Hr as [Hw _].
  cbn [map]. apply (is_para_tok t Hw).
Qed.

Lemma marker_list mk : marker_ok mk ->
  (if slen (marker_str mk) =? 1 then None else Some (int_of_digits (removelast (marker_str mk)))) =
  match mk with MBullet _ => None | MOrdered ds _ => Some (int_of_digits ds) end.
Proof.
  destruct mk as [b|ds d]; [reflexivity|]. intros (Hne & _). cbn [marker_str]. rewrite removelast_last.
  unfold slen. rewrite app_length. cbn [length]. destruct ds; [contradiction|]. cbn [length].
  destruct (Z.of_nat (S (length ds) + 1) =? 1) eqn:E; [apply Z.eqb_eq in E; lia|reflexivity].
Qed.

Lemma render_prose_gen o s h : forall ls, ls <> [] ->
  serialize (flat_map (render o s h) (prose_toks ls)) = join [10] (map (escape_html_text o) ls).
Proof.
  induction ls as [|l r IH]; [contradiction|]. intros _. destruct r as [|l2 r'].
  - cbn [prose_toks flat_map render map join]. unfold serialize. cbn [flat_map ser_item app]. rewrite app_nil_r. reflexivity.
  - change (prose_toks (l :: l2 :: r')) with (RawText l :: LineBreak [] true :: prose_toks (l2 :: r')).
    cbn [flat_map render]. unfold serialize in *. rewrite !flat_map_app. cbn [flat_map ser_item nl app]. rewrite IH by discriminate.
    change (map (escape_html_text o) (l :: l2 :: r')) with (escape_html_text o l :: map (escape_html_text o) (l2 :: r')).
    cbn [join map]. rewrite app_nil_r. reflexivity.
Qed.

Lemma html_para o sup c body more :
  serialize (render o sup false (tok_of false (FPara c body more))) = html_f o sup (FPara c body more).
Proof.
  cbn [tok_of render html_f]. destruct sup.
  - apply render_prose_gen. discriminate.
  - unfold wrap. change (IOpen $"p" [] :: flat_map (render o false false) (prose_toks ((c :: body) :: more)) ++ [IClose $"p"])
      with ([IOpen $"p" []] ++ flat_map (render o false false) (prose_toks ((c :: body) :: more)) ++ [IClose $"p"]).
    rewrite !serialize_app. rewrite render_prose_gen by discriminate. cbn. rewrite ?app_nil_r. reflexivity.
Qed.

Lemma html_head o sup lv c body : (1 <= lv <= 6)%nat ->
  serialize (render o sup false (tok_of false (FHead lv c body))) = html_f o sup (FHead lv c body).
Proof.
  intros H. cbn [tok_of render html_f flat_map]. change (fill o html_raw_text (c :: body)) with (escape_html_text o (c :: body)).
  set (T := escape_html_text o (c :: body)).
  assert (lv = 1 \/ lv = 2 \/ lv = 3 \/ lv = 4 \/ lv = 5 \/ lv = 6)%nat as D by lia.
  destruct D as [->|[->|[->|[->|[->| ->]]]]]; cbn; rewrite ?app_nil_r; reflexivity.
Qed.

Lemma html_em o sup c0 pre ch double w post :
  serialize (render o sup false (tok_of false (FEm c0 pre ch double w post))) = html_f o sup (FEm c0 pre ch double w post).
Proof.
  cbn [tok_of html_f]. cbv zeta.
  assert (E : serialize (flat_map (render o sup false) (RawText (c0 :: pre) :: (if double then Strong [ch] [RawText w] else Emphasis [ch] [RawText w]) :: raw_if post)) =
              escape_html_text o (c0 :: pre) ++ $"<" ++ (if double then $"strong" else $"em") ++ $">" ++ escape_html_text o w ++ $"</" ++ (if double then $"strong" else $"em") ++ $">" ++ escape_html_text o post).
  { change (RawText (c0 :: pre) :: (if double then Strong [ch] [RawText w] else Emphasis [ch] [RawText w]) :: raw_if post)
      with ([RawText (c0 :: pre)] ++ [if double then Strong [ch] [RawText w] else Emphasis [ch] [RawText w]] ++ raw_if post).
    rewrite !flat_map_app. unfold serialize. rewrite !flat_map_app.
    fold (serialize (flat_map (render o sup false) (raw_if post))).
    assert (Rp : serialize (flat_map (render o sup false) (raw_if post)) = escape_html_text o post).
    { destruct post as [|z p]; [|unfold raw_if; cbn [flat_map render]; rewrite app_nil_r; change (fill o GenEscapes.html_raw_text (z :: p)) with (escape_html_text o (z :: p)); unfold serialize; cbn [flat_map ser_item]; apply app_nil_r].
      cbn [raw_if flat_map serialize]. unfold serialize, escape_html_text, apply_chain. cbn [flat_map].
      induction GenEscapes.html_text_chain as [|[[g x] r] c IH]; [reflexivity|]. cbn [fold_left]. destruct (guard_on o g); exact IH. }
    rewrite Rp. destruct double; cbn; rewrite ?app_nil_r, <- ?app_assoc; reflexivity. }
  destruct sup.
  - cbn [render]. cbv iota. exact E.
  - cbn [render]. cbv iota. unfold wrap.
    set (X := flat_map (render o false false) (RawText (c0 :: pre) :: (if double then Strong [ch] [RawText w] else Emphasis [ch] [RawText w]) :: raw_if post)) in *.
    change (IOpen $"p" [] :: X ++ [IClose $"p"]) with ([IOpen $"p" []] ++ X ++ [IClose $"p"]).
    rewrite !serialize_app, E. cbn. rewrite ?app_nil_r, <- ?app_assoc. reflexivity.
Qed.

Lemma html_link o sup c0 pre w dest post :
  serialize (render o sup false (tok_of false (FLink c0 pre w dest post))) = html_f o sup (FLink c0 pre w dest post).
Proof.
  cbn [tok_of html_f]. cbv zeta.
  assert (E : serialize (flat_map (render o sup false) (RawText (c0 :: pre) :: ilink_of w dest :: raw_if post)) =
              escape_html_text o (c0 :: pre) ++ $"<a href=" ++ [34] ++ fill o html_link_target dest ++ [34] ++ $">" ++ escape_html_text o w ++ $"</a>" ++ escape_html_text o post).
  { change (RawText (c0 :: pre) :: ilink_of w dest :: raw_if post) with ([RawText (c0 :: pre)] ++ [ilink_of w dest] ++ raw_if post).
    rewrite !flat_map_app. unfold serialize. rewrite !flat_map_app.
    fold (serialize (flat_map (render o sup false) (raw_if post))).
    assert (Rp : serialize (flat_map (render o sup false) (raw_if post)) = escape_html_text o post).
    { destruct post as [|z p]; [|unfold raw_if; cbn [flat_map render]; rewrite app_nil_r; change (fill o GenEscapes.html_raw_text (z :: p)) with (escape_html_text o (z :: p)); unfold serialize; cbn [flat_map ser_item]; apply app_nil_r].
      cbn [raw_if flat_map serialize]. unfold serialize, escape_html_text, apply_chain. cbn [flat_map].
      induction GenEscapes.html_text_chain as [|[[g x] r] c IH]; [reflexivity|]. cbn [fold_left]. destruct (guard_on o g); exact IH. }
    rewrite Rp. unfold ilink_of. cbn [flat_map render l_target l_title title_attr]. unfold wrap.
    cbn [flat_map ser_item app]. change (fill o GenEscapes.html_raw_text w) with (escape_html_text o w). cbn. rewrite ?app_nil_r, <- ?app_assoc. reflexivity. }
  destruct sup.
  - cbn [render]. cbv iota. exact E.
  - cbn [render]. cbv iota. unfold wrap.
    set (X := flat_map (render o false false) (RawText (c0 :: pre) :: ilink_of w dest :: raw_if post)) in *.
    change (IOpen $"p" [] :: X ++ [IClose $"p"]) with ([IOpen $"p" []] ++ X ++ [IClose $"p"]).
    rewrite !serialize_app, E. cbn. rewrite ?app_nil_r, <- ?app_assoc. reflexivity.
Qed.

Lemma ser_raw_if o sup (t : str) : serialize (flat_map (render o sup false) (raw_if t)) = escape_html_text o t.
Proof.
  destruct t as [|z p]; [|unfold raw_if; cbn [flat_map render]; rewrite app_nil_r; change (fill o GenEscapes.html_raw_text (z :: p)) with (escape_html_text o (z :: p)); unfold serialize; cbn [flat_map ser_item]; apply app_nil_r].
  cbn [raw_if flat_map serialize]. unfold serialize, escape_html_text, apply_chain. cbn [flat_map].
  induction GenEscapes.html_text_chain as [|[[g x] r] c IH]; [reflexivity|]. cbn [fold_left]. destruct (guard_on o g); exact IH.
Qed.

Lemma html_segs o sup : forall gs, serialize (flat_map (render o sup false) (mix_toks gs)) = concat (map (seg_html o) gs).
Proof.
  induction gs as [|[ch k w t|w d t] r IH]; [reflexivity| |].
  - cbn [mix_toks flat_map map concat]. fold (mix_toks r). rewrite flat_map_app, serialize_app, IH. f_equal.
    cbn [seg_html]. unfold serialize. destruct (Z.of_nat (S k) =? 2); cbn [flat_map render app]; change (fill o GenEscapes.html_raw_text w) with (escape_html_text o w);
      change (fill o GenEscapes.html_raw_text t) with (escape_html_text o t); unfold wrap; cbn [flat_map ser_item app]; cbn; rewrite ?app_nil_r, <- ?app_assoc; reflexivity.
  - cbn [mix_toks flat_map map concat]. fold (mix_toks r). rewrite flat_map_app, serialize_app, IH. f_equal.
    change (ilink_of w d :: raw_if t) with ([ilink_of w d] ++ raw_if t). rewrite flat_map_app, serialize_app, ser_raw_if.
    cbn [seg_html]. unfold serialize, ilink_of. cbn [flat_map render l_target l_title title_attr]. unfold wrap.
    cbn [flat_map ser_item app]. change (fill o GenEscapes.html_raw_text w) with (escape_html_text o w). cbn. rewrite ?app_nil_r, <- ?app_assoc. reflexivity.
Qed.

Lemma html_sent o sup c0 t0 gs :
  serialize (render o sup false (tok_of false (FSent c0 t0 gs))) = html_f o sup (FSent c0 t0 gs).
Proof.
  cbn [tok_of html_f]. cbv zeta.
  assert (E : serialize (flat_map (render o sup false) (RawText (c0 :: t0) :: mix_toks gs)) = escape_html_text o (c0 :: t0) ++ concat (map (seg_html o) gs)).
  { change (RawText (c0 :: t0) :: mix_toks gs) with ([RawText (c0 :: t0)] ++ mix_toks gs). rewrite flat_map_app. unfold serialize. rewrite flat_map_app.
    fold (serialize (flat_map (render o sup false) (mix_toks gs))). rewrite html_segs.
    cbn [flat_map render app]. change (fill o GenEscapes.html_raw_text (c0 :: t0)) with (escape_html_text o (c0 :: t0)). cbn [flat_map ser_item app]. rewrite app_nil_r. reflexivity. }
  destruct sup.
  - cbn [render]. cbv iota. exact E.
  - cbn [render]. cbv iota. unfold wrap.
    set (X := flat_map (render o false false) (RawText (c0 :: t0) :: mix_toks gs)) in *.
    change (IOpen $"p" [] :: X ++ [IClose $"p"]) with ([IOpen $"p" []] ++ X ++ [IClose $"p"]).
    rewrite !serialize_app, E. cbn. rewrite ?app_nil_r, <- ?app_assoc. reflexivity.
Qed.

Lemma html_tick o sup c0 pre n code post :
  serialize (render o sup false (tok_of false (FTick c0 pre n code post))) = html_f o sup (FTick c0 pre n code post).
Proof.
  cbn [tok_of html_f]. cbv zeta.
  assert (E : serialize (flat_map (render o sup false) (RawText (c0 :: pre) :: code_of n code :: raw_if post)) =
              escape_html_text o (c0 :: pre) ++ $"<code>" ++ escape_html_text o (code_content code) ++ $"</code>" ++ escape_html_text o post).
  { change (RawText (c0 :: pre) :: code_of n code :: raw_if post) with ([RawText (c0 :: pre)] ++ [code_of n code] ++ raw_if post).
    rewrite !flat_map_app. unfold serialize. rewrite !flat_map_app.
    fold (serialize (flat_map (render o sup false) (raw_if post))). rewrite ser_raw_if.
    rewrite code_of_eq. cbn [flat_map render c_content]. unfold wrap.
    cbn [flat_map ser_item app]. change (fill o html_inline_code_inner (code_content code)) with (escape_html_text o (code_content code)).
    change (fill o GenEscapes.html_raw_text (c0 :: pre)) with (escape_html_text o (c0 :: pre)). cbn. rewrite ?app_nil_r, <- ?app_assoc. reflexivity. }
  destruct sup.
  - cbn [render]. cbv iota. exact E.
  - cbn [render]. cbv iota. unfold wrap.
    set (X := flat_map (render o false false) (RawText (c0 :: pre) :: code_of n code :: raw_if post)) in *.
    change (IOpen $"p" [] :: X ++ [IClose $"p"]) with ([IOpen $"p" []] ++ X ++ [IClose $"p"]).
    rewrite !serialize_app, E. cbn. rewrite ?app_nil_r, <- ?app_assoc. reflexivity.
Qed.

Lemma render_brk_toks o sup : forall ls, ls <> [] ->
  serialize (flat_map (render o sup false) (brk_toks ls)) = brk_html o ls.
Proof.
  induction ls as [|[l k] r IH]; [contradiction|]. intros _. destruct r as [|b r'].
  - cbn [brk_toks flat_map render brk_html]. unfold serialize. cbn [flat_map ser_item app]. rewrite !app_nil_r. reflexivity.
  - change (brk_toks ((l, k) :: b :: r')) with (RawText l :: LineBreak (repeat 32 k) (Nat.ltb k 2) :: brk_toks (b :: r')).
    change (brk_html o ((l, k) :: b :: r')) with (escape_html_text o l ++ (if Nat.ltb k 2 then [10] else $"<br />" ++ [10]) ++ brk_html o (b :: r')).
    cbn [flat_map render]. unfold serialize in *. rewrite !flat_map_app. rewrite IH by discriminate.
    destruct (Nat.ltb k 2); cbn [flat_map ser_item nl app ser_attrs]; rewrite ?app_nil_r; reflexivity.
Qed.

Lemma html_brk o sup c body k more :
  serialize (render o sup false (tok_of false (FBrk c body k more))) = html_f o sup (FBrk c body k more).
Proof.
  cbn [tok_of render html_f]. cbv zeta. destruct sup.
  - apply render_brk_toks. discriminate.
  - unfold wrap. change (IOpen $"p" [] :: flat_map (render o false false) (brk_toks ((c :: body, k) :: more)) ++ [IClose $"p"])
      with ([IOpen $"p" []] ++ flat_map (render o false false) (brk_toks ((c :: body, k) :: more)) ++ [IClose $"p"]).
    rewrite !serialize_app. rewrite render_brk_toks by discriminate. cbn. rewrite ?app_nil_r. reflexivity.
Qed.

Lemma render_nest_toks o sup : forall ps g zz, serialize (flat_map (render o sup false) (nest_toks g ps zz)) = nest_html o g ps zz.
Proof.
  induction ps as [|[[[ch k] w] t] r IH]; intros g zz.
  - cbn [nest_toks nest_html]. apply ser_raw_if.
  - cbn [nest_toks nest_html]. rewrite flat_map_app, serialize_app, ser_raw_if. f_equal.
    cbn [flat_map]. rewrite serialize_app, IH.
    destruct (Z.of_nat (S k) =? 2); cbn [render flat_map app]; unfold wrap; change (fill o GenEscapes.html_raw_text w) with (escape_html_text o w);
      set (W := escape_html_text o w); set (N := nest_html o t r zz); unfold serialize; cbn [flat_map ser_item app ser_attrs]; rewrite ?app_nil_r, <- ?app_assoc; reflexivity.
Qed.

Lemma html_one o sup c0 pre x post :
  serialize (render o sup false (tok_of false (FOne c0 pre x post))) = html_f o sup (FOne c0 pre x post).
Proof.
  cbn [tok_of html_f]. cbv zeta.
  assert (E : serialize (flat_map (render o sup false) (RawText (c0 :: pre) :: inl_tok x :: raw_if post)) =
              escape_html_text o (c0 :: pre) ++ inl_html o x ++ escape_html_text o post).
  { change (RawText (c0 :: pre) :: inl_tok x :: raw_if post) with ([RawText (c0 :: pre)] ++ [inl_tok x] ++ raw_if post).
    rewrite !flat_map_app. unfold serialize. rewrite !flat_map_app.
    fold (serialize (flat_map (render o sup false) (raw_if post))). rewrite ser_raw_if.
    change (fill o GenEscapes.html_raw_text (c0 :: pre)) with (escape_html_text o (c0 :: pre)).
    set (P := escape_html_text o (c0 :: pre)). set (Q := escape_html_text o post).
    destruct x as [w|c|w d|ch k h ps z|w d q tl|u0 usc ur|aw a0 ad|eh eps ez ed]; cbn [inl_tok inl_html flat_map render]; unfold image_of, tlink_of, auto_of, alink_of, wrap; cbn [flat_map render ser_item app l_target l_title title_attr to_plain ser_attrs fst snd].
    - change (fill o GenEscapes.html_raw_text w) with (escape_html_text o w). set (W := escape_html_text o w). cbn [app]. rewrite ?app_nil_r, <- ?app_assoc. reflexivity.
    - change (fill o GenEscapes.html_raw_text [c]) with (escape_html_text o [c]). set (W := escape_html_text o [c]). rewrite ?app_nil_r, <- ?app_assoc. reflexivity.
    - set (A := fill0 html_plain_leaf w). set (D := fill o html_image_src d). cbn [app]. rewrite ?app_nil_r. repeat (rewrite <- ?app_assoc; cbn [app]). reflexivity.
    - unfold nest_of. cbv zeta.
      assert (En : flat_map ser_item (flat_map (render o sup false) (nest_toks h ps z)) = nest_html o h ps z) by (apply (render_nest_toks o sup ps h z)).
      destruct (Z.of_nat (S k) =? 2); cbn [render flat_map app]; unfold wrap; cbn [flat_map ser_item app ser_attrs]; rewrite ?app_nil_r, !flat_map_app, En;
        set (N := nest_html o h ps z); cbn [flat_map ser_item app]; rewrite ?app_nil_r, <- ?app_assoc; reflexivity.
    - change (fill o GenEscapes.html_raw_text w) with (escape_html_text o w). set (W := escape_html_text o w). set (D := fill o html_link_target d).
      destruct tl as [|t0 tl']; cbn [title_attr]; [|set (T := fill o html_link_title (t0 :: tl'))]; unfold wrap; cbn [ser_attrs flat_map ser_item fst snd app]; rewrite ?app_nil_r; repeat (rewrite <- ?app_assoc; cbn [app]); reflexivity.
    - set (U := u0 :: usc ++ 58 :: ur). change (fill o GenEscapes.html_raw_text U) with (escape_html_text o U). set (W := escape_html_text o U). set (D := fill o html_autolink_target U).
      unfold wrap; cbn [ser_attrs flat_map ser_item fst snd app]; rewrite ?app_nil_r; repeat (rewrite <- ?app_assoc; cbn [app]); reflexivity.
    - change (fill o GenEscapes.html_raw_text aw) with (escape_html_text o aw). set (W := escape_html_text o aw). set (D := fill o html_link_target (a0 :: ad)).
      unfold wrap; cbn [title_attr ser_attrs flat_map ser_item fst snd app]; rewrite ?app_nil_r; repeat (rewrite <- ?app_assoc; cbn [app]); reflexivity.
    - set (D := fill o html_link_target ed).
      assert (En : flat_map ser_item (flat_map (render o sup false) (nest_toks eh eps ez)) = nest_html o eh eps ez) by (apply (render_nest_toks o sup eps eh ez)).
      unfold elink_of. cbn [render flat_map app l_target l_title title_attr]. unfold wrap; cbn [title_attr ser_attrs flat_map ser_item fst snd app]. rewrite ?app_nil_r, !flat_map_app, En.
      set (NH := nest_html o eh eps ez). cbn [flat_map ser_item app]. rewrite ?app_nil_r. repeat (rewrite <- ?app_assoc; cbn [app]). reflexivity. }
  destruct sup.
  - cbn [render]. cbv iota. exact E.
  - cbn [render]. cbv iota. unfold wrap.
    set (X := flat_map (render o false false) (RawText (c0 :: pre) :: inl_tok x :: raw_if post)) in *.
    change (IOpen $"p" [] :: X ++ [IClose $"p"]) with ([IOpen $"p" []] ++ X ++ [IClose $"p"]).
    rewrite !serialize_app, E. cbn. rewrite ?app_nil_r, <- ?app_assoc. reflexivity.
Qed.

Lemma ser_li o sup a ch : ch <> [] ->
  serialize (render o sup false (ListItem a ch)) =
  $"<li>" ++ (if sup && first_is_paragraph ch then [] else [10]) ++ serialize (join_items [nl] (map (render o sup false) ch)) ++
  (if sup && last_is_paragraph ch then [] else [10]) ++ $"</li>".
Proof.
  intros H. rewrite render_item by assumption. unfold wrap, serialize. cbn [flat_map app]. rewrite !flat_map_app.
  destruct (sup && first_is_paragraph ch), (sup && last_is_paragraph ch); cbn [flat_map ser_item nl app]; cbn; rewrite ?app_nil_r, <- ?app_assoc; reflexivity.
Qed.

Definition start_of (mk : marker) : option Z := match mk with MBullet _ => None | MOrdered ds _ => Some (int_of_digits ds) end.

(* the items of a list, rendered *)
Lemma html_chain o f (IH : forall t sup, (depth t <= f)%nat -> wf_b t = true -> serialize (render o sup false (tok_of false t)) = html_f o sup t) :
  forall t, is_item t = true -> wf_b t = true -> (depth t <= S f)%nat ->
  exists items, tok_of false t = List (start_of (marker_of t)) (chain_loose t) items /\ items <> [] /\
    forall sup, serialize (join_items [nl] (map (render o sup false) items)) = html_lis o sup t.
Proof.
  assert (Kids : forall ts sup, ts <> [] -> forallb wf_b ts = true -> Forall (fun t => (depth t <= f)%nat) ts ->
            serialize (join_items [nl] (map (render o sup false) (tok_seq false ts))) = join [10] (map (html_f o sup) ts)).
  { intros ts sup Hne Hall Hd. rewrite tok_seq_plain, map_map. rewrite (serialize_join (fun x => render o sup false (tok_of false x))).
    f_equal. apply map_ext_in. intros x Hx. rewrite forallb_forall in Hall. rewrite Forall_forall in Hd. apply IH; [apply Hd; exact Hx|apply Hall; exact Hx]. }
  induction t as [| | | mk pad ts | mk pad ts bl next IHn | | | | | | | | ]; intros Hi Hw Hd; try discriminate.
  - cbn [wf_b] in Hw. repeat rewrite andb_true_iff in Hw. destruct Hw as [[[[[[Hmk Hp1] Hp4] Hs] Hall] Hg] Hth].
    apply marker_ok_reflect in Hmk.
    assert (Hne : ts <> []) by (destruct ts; [discriminate|discriminate]).
    cbn [tok_of marker_of chain_loose].
    change ((fix seq (ts0 : list ftree) : list tok := match ts0 with [] => [] | t :: r => tok_of false t :: match r with [] => [] | _ :: _ => blank_tok false ++ seq r end end) ts) with (tok_seq false ts).
    rewrite (marker_list mk Hmk). eexists. split; [reflexivity|]. split; [discriminate|]. intros sup.
    cbn [map join_items]. rewrite ser_li by (rewrite tok_seq_plain; destruct ts; [contradiction|discriminate]).
    cbn [depth] in Hd. rewrite (Kids ts sup Hne Hall) by (apply Forall_forall; intros x Hx; eapply depth_children; eassumption).
    rewrite tok_seq_plain, first_para_tok, last_para_tok by exact Hall. reflexivity.
  - cbn [wf_b] in Hw. repeat rewrite andb_true_iff in Hw. destruct Hw as [[[[[[[[[Hmk Hp1] Hp4] Hs] Hall] Hg] Hth] Hin] Hk] Hwn].
    apply marker_ok_reflect in Hmk.
    assert (Hne : ts <> []) by (destruct ts; [discriminate|discriminate]).
    cbn [depth] in Hd.
    destruct (IHn Hin Hwn ltac:(lia)) as (items & E & Hni & Hser).
    cbn [tok_of marker_of chain_loose].
    change ((fix seq (ts0 : list ftree) : list tok := match ts0 with [] => [] | t :: r => tok_of false t :: match r with [] => [] | _ :: _ => blank_tok false ++ seq r end end) ts) with (tok_seq false ts).
    rewrite E, (marker_list mk Hmk). cbn [blank_tok negb andb].
    assert (Eb : tok_seq false ts ++ (if bl then [] else []) = tok_seq false ts) by (destruct bl; apply app_nil_r). rewrite Eb.
    assert (El : (if bl then true else 1 <? Z.of_nat (length ts)) || chain_loose next = bl || (1 <? Z.of_nat (length ts)) || chain_loose next) by (destruct bl; reflexivity).
    rewrite El.
    eexists. split; [reflexivity|]. split; [discriminate|]. intros sup.
    cbn [map]. rewrite join_items_cons by (destruct items; [contradiction|discriminate]).
    rewrite !serialize_app, Hser. rewrite ser_li by (rewrite tok_seq_plain; destruct ts; [contradiction|discriminate]).
    rewrite (Kids ts sup Hne Hall) by (apply Forall_forall; intros x Hx; eapply depth_children; [exact Hx|lia]).
    rewrite tok_seq_plain, first_para_tok, last_para_tok by exact Hall.
    cbn [html_lis]. cbn [serialize flat_map ser_item nl app]. repeat (rewrite <- ?app_assoc; cbn [app]). reflexivity.
Qed.

Lemma html_fragment o : forall f t sup, (depth t <= f)%nat -> wf_b t = true ->
  serialize (render o sup false (tok_of false t)) = html_f o sup t.
Proof.
  induction f as [|f IH]; intros t sup Hd Hw.
  - destruct t as [c body more|ch n content|ts|mk pad ts|mk pad ts bl next|lv hc hb|rc rn|e0 epre ech edbl ew epost|l0 lpre lw ldest lpost|s0 st0' sgs|k0 kpre kn kcode kpost|b0 bbody bk bmore|o0 opre ox opost]; [| |cbn [depth] in Hd; lia|cbn [depth] in Hd; lia|cbn [depth] in Hd; lia| |reflexivity|apply html_em|apply html_link|apply html_sent|apply html_tick|apply html_brk|apply html_one].
    + apply html_para.
    + cbn [tok_of render html_f f_language f_content]. cbn. rewrite ?app_nil_r. reflexivity.
    + apply html_head. cbn [wf_b] in Hw. repeat rewrite andb_true_iff in Hw. destruct Hw as [[[[[[H1 H2] _] _] _] _] _]. apply Nat.leb_le in H1, H2. lia.
  - destruct t as [c body more|ch n content|ts|mk pad ts|mk pad ts bl next|lv hc hb|rc rn|e0 epre ech edbl ew epost|l0 lpre lw ldest lpost|s0 st0' sgs|k0 kpre kn kcode kpost|b0 bbody bk bmore|o0 opre ox opost]; [| | | | |apply html_head; cbn [wf_b] in Hw; repeat rewrite andb_true_iff in Hw; destruct Hw as [[[[[[H1 H2] _] _] _] _] _]; apply Nat.leb_le in H1, H2; lia|reflexivity|apply html_em|apply html_link|apply html_sent|apply html_tick|apply html_brk|apply html_one].
    + apply html_para.
    + cbn [tok_of render html_f f_language f_content]. cbn. rewrite ?app_nil_r. reflexivity.
    + cbn [wf_b] in Hw. repeat rewrite andb_true_iff in Hw. destruct Hw as [[Hs Hall] Hg].
      assert (Hne : ts <> []) by (destruct ts; [discriminate|discriminate]).
      cbn [tok_of render html_f].
      change ((fix seq (ts0 : list ftree) : list tok := match ts0 with [] => [] | t :: r => tok_of false t :: match r with [] => [] | _ :: _ => blank_tok false ++ seq r end end) ts) with (tok_seq false ts).
      rewrite tok_seq_plain, map_map.
      set (body := map (fun x => render o false false (tok_of false x)) ts).
      assert (Hb : body <> []) by (unfold body; destruct ts; [contradiction|discriminate]).
      rewrite app_assoc. rewrite join_items_snoc by (destruct body; discriminate).
      change ([[IOpen $"blockquote" []]] ++ body) with ([IOpen $"blockquote" []] :: body). rewrite join_items_cons by exact Hb.
      unfold body. rewrite !serialize_app. rewrite (serialize_join (fun x => render o false false (tok_of false x))).
      rewrite forallb_forall in Hall.
      rewrite (map_ext_in _ (html_f o false)); [cbn; reflexivity|].
      intros x Hx. apply IH; [eapply depth_children; eassumption|apply Hall; exact Hx].
    + cbn [wf_b] in Hw. repeat rewrite andb_true_iff in Hw. destruct Hw as [[[[[[Hmk Hp1] Hp4] Hs] Hall] Hg] Hth].
      apply marker_ok_reflect in Hmk.
      assert (Hne : ts <> []) by (destruct ts; [discriminate|discriminate]).
      cbn [tok_of render html_f negb andb].
      change ((fix seq (ts0 : list ftree) : list tok := match ts0 with [] => [] | t :: r => tok_of false t :: match r with [] => [] | _ :: _ => blank_tok false ++ seq r end end) ts) with (tok_seq false ts).
      rewrite tok_seq_plain, (marker_list mk Hmk).
      set (lo := 1 <? Z.of_nat (length ts)).
      cbn [map join_items]. rewrite render_item by (destruct ts; [contradiction|discriminate]).
      rewrite first_para_tok, last_para_tok, map_map by exact Hall.
      unfold wrap, serialize. cbn [flat_map app]. rewrite !flat_map_app. cbn [flat_map]. rewrite ?flat_map_app, ?app_nil_r. change (flat_map ser_item) with serialize.
      rewrite (serialize_join (fun x => render o (negb lo) false (tok_of false x))).
      rewrite forallb_forall in Hall.
      rewrite (map_ext_in _ (html_f o (negb lo))) by (intros x Hx; apply IH; [eapply depth_children; eassumption|apply Hall; exact Hx]).
      set (J := join [10] (map (html_f o (negb lo)) ts)).
      destruct (negb lo && first_fpara ts), (negb lo && last_fpara ts); destruct mk as [b|ds d]; cbn [list_open list_close];
        try destruct (int_of_digits ds =? 1); cbn; rewrite ?app_nil_r; repeat (rewrite <- ?app_assoc; cbn [app]); reflexivity.
    + (* a list of several items *)
      pose proof Hw as Hw0. cbn [wf_b] in Hw. repeat rewrite andb_true_iff in Hw. destruct Hw as [[[[[[[[[Hmk Hp1] Hp4] Hs] Hall] Hg] Hth] Hin] Hk] Hwn].
      apply marker_ok_reflect in Hmk.
      destruct (html_chain o f IH (FMore mk pad ts bl next) eq_refl Hw0 Hd) as (items & E & Hni & Hser).
      rewrite E. cbn [render marker_of]. cbn [html_lis] in Hser.
      unfold wrap, serialize. cbn [flat_map app]. rewrite !flat_map_app. change (flat_map ser_item) with serialize. rewrite Hser. cbn [html_f chain_loose].
      destruct mk as [b|ds d]; cbn [start_of list_open list_close]; try destruct (int_of_digits ds =? 1); cbn; rewrite ?app_nil_r; repeat (rewrite <- ?app_assoc; cbn [app]); reflexivity.
Qed.

Lemma html_f_starts o t : exists r, html_f o false t = 60 :: r.
Proof.
  destruct t as [c body more|ch n content|ts|mk pad ts|mk pad ts bl next|lv hc hb|rc rn|e0 epre ech edbl ew epost|l0 lpre lw ldest lpost|s0 st0' sgs|k0 kpre kn kcode kpost|b0 bbody bk bmore|o0 opre ox opost]; cbn [html_f]; try (eexists; reflexivity);
  (destruct mk as [b|ds d]; cbn [list_open]; [eexists; reflexivity|]; destruct (int_of_digits ds =? 1); eexists; reflexivity).
Qed.

Lemma render_document_one o x r : serialize (render o false false x) = 60 :: r ->
  render_html o (Document [x]) = serialize (render o false false x) ++ [10].
Proof.
  intros E. unfold render_html. cbn [render map join_items]. rewrite E. rewrite serialize_app, E. reflexivity.
Qed.

(* Document(lines), rendered to HTML *)
Theorem fragment_html cfg o t :
  fragment_config (cfg_block cfg) = true -> prose_spans (cfg_span cfg) = true -> emph_spans (cfg_span cfg) = true ->
  inert_spans (cfg_span cfg) = true -> leaf_spans (cfg_span cfg) = true -> wf_b t = true ->
  render_html o (fst (fst (parse_lines cfg (text_of (spell t))))) = html_f o false t ++ [10].
Proof.
  intros Hc Hq He Hi Hr Hw. rewrite (fragment_document cfg t Hc Hq He Hi Hr Hw).
  pose proof (html_fragment o (depth t) t false (le_n _) Hw) as E. destruct (html_f_starts o t) as [r Er].
  rewrite (render_document_one o _ r) by (rewrite E; exact Er). rewrite E. reflexivity.
Qed.

(* a whole document of several blocks *)
Theorem fragment_seq_html cfg o ts :
  fragment_config (cfg_block cfg) = true -> prose_spans (cfg_span cfg) = true -> emph_spans (cfg_span cfg) = true ->
  inert_spans (cfg_span cfg) = true -> leaf_spans (cfg_span cfg) = true -> seq_ok_b ts = true -> forallb wf_b ts = true ->
  render_html o (fst (fst (parse_lines cfg (text_of (join_blank (map spell ts)))))) = join [10] (map (html_f o false) ts) ++ [10].
Proof.
  intros Hc Hq He Hi Hr Hs Hw. rewrite (fragment_seq_document cfg ts Hc Hq He Hi Hr Hs Hw).
  unfold render_html. cbn [render]. rewrite tok_seq_plain, map_map.
  assert (E : serialize (join_items [nl] (map (fun x => render o false false (tok_of false x)) ts)) = join [10] (map (html_f o false) ts)).
  { rewrite (serialize_join (fun x => render o false false (tok_of false x))). f_equal. apply map_ext_in. intros x Hx.
    rewrite forallb_forall in Hw. apply (html_fragment o (depth x) x false (le_n _) (Hw x Hx)). }
  rewrite E.
  destruct ts as [|t r]; [discriminate|]. destruct (html_f_starts o t) as [r0 Er].
  assert (Ej : exists r1, join [10] (map (html_f o false) (t :: r)) = 60 :: r1).
  { cbn [map]. destruct (map (html_f o false) r) as [|y ys]; cbn [join]; rewrite Er; eexists; reflexivity. }
  destruct Ej as [r1 Ej]. rewrite Ej. rewrite serialize_app, E, Ej. reflexivity.
Qed.

(* ---- the text as one string ---- *)
Definition no_brk (s : str) : bool := forallb (fun c => negb (is_brk c)) s.

Lemma splitlines_aux_line cur b rest : no_brk b = true ->
  splitlines_aux cur (b ++ 10 :: rest) = (rev cur ++ b ++ [10]) :: splitlines_aux [] rest.
Proof.
  revert cur. induction b as [|c b IH]; intros cur H.
  - cbn [app splitlines_aux]. change (10 =? 13) with false. change (is_brk 10) with true. cbn [rev]. reflexivity.
  - unfold no_brk in H. cbn [forallb] in H. apply andb_true_iff in H as [Hc Hb]. apply negb_true_iff in Hc.
    cbn [app splitlines_aux]. assert (c =? 13 = false) as ->.
    { destruct (c =? 13) eqn:E; [|reflexivity]. apply Z.eqb_eq in E. subst c. discriminate. }
    rewrite Hc. rewrite IH by exact Hb. cbn [rev]. rewrite <- app_assoc. reflexivity.
Qed.

Lemma splitlines_lines (bs : list str) : forallb no_brk bs = true ->
  splitlines_keep (concat (map (fun b => b ++ [10]) bs)) = map (fun b => b ++ [10]) bs.
Proof.
  unfold splitlines_keep. induction bs as [|b r IH]; intros H; [reflexivity|].
  cbn [forallb] in H. apply andb_true_iff in H as [Hb Hr]. cbn [map concat]. rewrite <- app_assoc. cbn [app].
  rewrite splitlines_aux_line by exact Hb. cbn [rev app]. rewrite IH by exact Hr. reflexivity.
Qed.

Lemma add_nl_terminated b : add_nl (b ++ [10]) = b ++ [10].
Proof. unfold add_nl, ends_with_lf. rewrite rev_app_distr. reflexivity. Qed.

Lemma doc_lines_terminated (bs : list str) : forallb no_brk bs = true ->
  doc_lines_of_str (concat (map (fun b => b ++ [10]) bs)) = map (fun b => b ++ [10]) bs.
Proof.
  intros H. unfold doc_lines_of_str, doc_lines_of_list. rewrite splitlines_lines by exact H. rewrite map_map. apply map_ext. intros b. apply add_nl_terminated.
Qed.

Lemma forallb_map_eq {A B} (f : A -> B) (p : B -> bool) l : forallb p (map f l) = forallb (fun x => p (f x)) l.
Proof. induction l as [|x r IH]; [reflexivity|]. cbn [map forallb]. rewrite IH. reflexivity. Qed.

(* a structured line without its newline *)
Definition bare (l : sline) : str := match l with SBlank => [] | SLine k c body => repeat 32 k ++ c :: body end.
Lemma render_bare l : render_line l = bare l ++ [10].
Proof. destruct l as [|k c body]; [reflexivity|]. cbn [render_line bare]. unfold line_of. rewrite <- app_assoc. reflexivity. Qed.

(* no line of the spelled tree holds a line-break character of str.splitlines (form feed, NEL, ...) *)
Definition one_string_ok (t : ftree) : bool := forallb (fun l => no_brk (bare l)) (spell t).

Lemma doc_lines_spelled t : one_string_ok t = true -> doc_lines_of_str (concat (text_of (spell t))) = text_of (spell t).
Proof.
  intros H. unfold text_of. rewrite (map_ext render_line (fun l => bare l ++ [10]) render_bare).
  rewrite <- (map_map bare (fun b => b ++ [10])). apply doc_lines_terminated. rewrite forallb_map_eq. exact H.
Qed.

(* mistletoe.markdown(text) *)
Theorem fragment_markdown_html o ph t : wf_b t = true -> one_string_ok t = true ->
  markdown_html o ph (concat (text_of (spell t))) = html_f o false t ++ [10].
Proof.
  intros Hw H1. unfold markdown_html, parse_document. rewrite (doc_lines_spelled t H1).
  pose proof (fragment_html (if ph then cfg_html else cfg_html_nohtml) o t) as F.
  destruct (parse_lines (if ph then cfg_html else cfg_html_nohtml) (text_of (spell t))) as [[d fn] ls]. cbn [fst] in F.
  apply F; [destruct ph; vm_compute; reflexivity|destruct ph; vm_compute; reflexivity|destruct ph; vm_compute; reflexivity|destruct ph; vm_compute; reflexivity|destruct ph; vm_compute; reflexivity|exact Hw].
Qed.

Example html_instance :
  let fence := FFence 96 3 [SLine 2 120 $" < 1"; SBlank; SLine 0 35 $" not a heading"] in
  let t := FQuote [FItem (MOrdered $"12" 41) 1 [FPara 101 [] []; fence]; FPara 120 [] []; FItem (MBullet 45) 2 [FPara 97 $" > b" []]] in
  wf_b t = true /\ one_string_ok t = true /\
  html_f (mkHopts false false) false t =
    $"<blockquote>" ++ [10] ++ $"<ol start=""12"">" ++ [10] ++ $"<li>" ++ [10] ++ $"<p>e</p>" ++ [10] ++
    $"<pre><code>  x &lt; 1" ++ [10; 10] ++ $"# not a heading" ++ [10] ++ $"</code></pre>" ++ [10] ++ $"</li>" ++ [10] ++ $"</ol>" ++ [10] ++ $"<p>x</p>" ++ [10] ++
    $"<ul>" ++ [10] ++ $"<li>a &gt; b</li>" ++ [10] ++ $"</ul>" ++ [10] ++ $"</blockquote>".
Proof. vm_compute. repeat split; reflexivity. Qed.
