(* The span tokenizer on candidates that do not overlap (a chain), whether or not they parse their content:
   every candidate becomes a token of its own - holding, if it parses its content, the raw text of its parse
   group - and the gaps become raw text.  Generalises tokenize_chain of Proofs/ProseLines.v. *)
From Coq Require Import ZArith List Bool Lia.
From Mistletoe Require Import Base.Sx Base.PyStr Base.PyText Model.SpanTokenizer Proofs.ProseLines.
Import ListNotations.
Local Open Scope Z_scope.

Definition leaf_otok (c : cand) : otok := make (PT c []).

Lemma leaf_otok_inner c : inner c = true -> leaf_otok c = OTok c (Some (if ps c =? pe c then [] else [ORaw (ps c) (pe c)])).
Proof.
  intros H. unfold leaf_otok. cbn [make]. rewrite H. unfold make_tokens_with. cbn [last_end mk_rev app]. rewrite app_nil_r.
  destruct (ps c =? pe c); reflexivity.
Qed.

Fixpoint body_g (start : Z) (l : list cand) : list otok :=
  match l with
  | [] => []
  | c :: r => gap start (cs c) ++ leaf_otok c :: body_g (ce c) r
  end.

Lemma body_g_snoc : forall l start c, body_g start (l ++ [c]) = body_g start l ++ gap (end_of start l) (cs c) ++ [leaf_otok c].
Proof.
  induction l as [|d r IH]; intros start c; [reflexivity|]. cbn [app body_g]. rewrite IH. rewrite <- !app_assoc. cbn [app]. f_equal. f_equal. f_equal.
  unfold end_of. cbn [rev]. destruct (rev r) as [|z zs] eqn:Er; [reflexivity|reflexivity].
Qed.

Lemma mk_rev_chain_g : forall l start, rev (mk_rev make (rev (map mkpt l)) start) = body_g start l.
Proof.
  induction l as [|c l' IH] using rev_ind; intros start; [reflexivity|].
  rewrite map_app, rev_app_distr. cbn [map rev app mk_rev]. rewrite body_g_snoc.
  change (fix go (rl : list ptok) (start0 : Z) {struct rl} : list otok := match rl with [] => [] | t :: rest => make t :: (if cs (pc t) >? match rest with [] => start0 | r :: _ => ce (pc r) end then [ORaw match rest with [] => start0 | r :: _ => ce (pc r) end (cs (pc t))] else []) ++ go rest start0 end)
    with (mk_rev make).
  cbn [rev]. rewrite rev_app_distr. rewrite (IH start). fold (leaf_otok c). cbn [mkpt pc].
  assert (Ee : match rev (map mkpt l') with [] => start | r :: _ => ce (pc r) end = end_of start l').
  { unfold end_of. rewrite <- map_rev. destruct (rev l'); reflexivity. }
  rewrite Ee. unfold gap. destruct (cs c >? end_of start l'); cbn [rev app]; rewrite <- ?app_assoc; reflexivity.
Qed.

Theorem tokenize_chain_g l len : chain l ->
  tokenize l len = body_g 0 l ++ (if end_of 0 l =? len then [] else [ORaw (end_of 0 l) len]).
Proof.
  intros Hc. unfold tokenize, SpanTokenizer.make_tokens, make_tokens_with. rewrite (sort_chain l Hc), (buffer_chain l Hc).
  rewrite rev_app_distr, (mk_rev_chain_g l 0). f_equal.
  assert (El : last_end (rev (map mkpt l)) 0 = end_of 0 l).
  { unfold last_end, end_of. rewrite <- map_rev. destruct (rev l); reflexivity. }
  rewrite El. destruct (end_of 0 l =? len); reflexivity.
Qed.
