(* The span tokenizer on candidates that do not overlap (a chain), whether or not they parse their content:
   every candidate becomes a token of its own - holding, if it parses its content, the raw text of its parse
   group - and the gaps become raw text.  Generalises tokenize_chain of Proofs/ProseLines.v. *)
From Coq Require Import ZArith List Bool Lia.
From Mistletoe Require Import Base.Sx Base.PyStr Base.PyText Model.SpanTokenizer Proofs.ProseLines.
Import ListNotations.
Local Open Scope Z_scope.

Definition leaf_otok (c : cand) : otok := make (PT c []).

Lemma leaf_otok_inner c : inner c = true -> leaf_otok c = OTok c (Some (if ps c =? pe c then [] else [ORaw (ps c) (pe c)])).
Proof.
  intros H. unfold leaf_otok. cbn [make]. rewrite H. unfold make_tokens_with. cbn [last_end mk_rev app]. rewrite app_nil_r.
  destruct (ps c =? pe c); reflexivity.
Qed.

Fixpoint body_g (start : Z) (l : list cand) : list otok :=
  match l with
  | [] => []
  | c :: r => gap start (cs c) ++ leaf_otok c :: body_g (ce c) r
  end.

Lemma body_g_snoc : forall l start c, body_g start (l ++ [c]) = body_g start l ++ gap (end_of start l) (cs c) ++ [leaf_otok c].
Proof.
  induction l as [|d r IH]; intros start c; [reflexivity|]. cbn [app body_g]. rewrite IH. rewrite <- !app_assoc. cbn [app]. f_equal. f_equal. f_equal.
  unfold end_of. cbn [rev]. destruct (rev r) as [|z zs] eqn:Er; [reflexivity|reflexivity].
Qed.

Lemma mk_rev_chain_g : forall l start, rev (mk_rev make (rev (map mkpt l)) start) = body_g start l.
Proof.
  induction l as [|c l' IH] using rev_ind; intros start; [reflexivity|].
  rewrite map_app, rev_app_distr. cbn [map rev app mk_rev]. rewrite body_g_snoc.
  change (fix go (rl : list ptok) (start0 : Z) {struct rl} : list otok := match rl with [] => [] | t :: rest => make t :: (if cs (pc t) >? match rest with [] => start0 | r :: _ => ce (pc r) end then [ORaw match rest with [] => start0 | r :: _ => ce (pc r) end (cs (pc t))] else []) ++ go rest start0 end)
    with (mk_rev make).
  cbn [rev]. rewrite rev_app_distr. rewrite (IH start). fold (leaf_otok c). cbn [mkpt pc].
  assert (Ee : match rev (map mkpt l') with [] => start | r :: _ => ce (pc r) end = end_of start l').
  { unfold end_of. rewrite <- map_rev. destruct (rev l'); reflexivity. }
  rewrite Ee. unfold gap. destruct (cs c >? end_of start l'); cbn [rev app]; rewrite <- ?app_assoc; reflexivity.
Qed.

Theorem tokenize_chain_g l len : chain l ->
  tokenize l len = body_g 0 l ++ (if end_of 0 l =? len then [] else [ORaw (end_of 0 l) len]).
Proof.
  intros Hc. unfold tokenize, SpanTokenizer.make_tokens, make_tokens_with. rewrite (sort_chain l Hc), (buffer_chain l Hc).
  rewrite rev_app_distr, (mk_rev_chain_g l 0). f_equal.
  assert (El : last_end (rev (map mkpt l)) 0 = end_of 0 l).
  { unfold last_end, end_of. rewrite <- map_rev. destruct (rev l); reflexivity. }
  rewrite El. destruct (end_of 0 l =? len); reflexivity.
Qed.

(* ---- candidates that arrive in another order: Python's stable sort by start puts a list whose starts are
        pairwise different into the one order in which the starts increase ---- *)
From Coq Require Import Permutation.

Lemma insert_perm c : forall l, Permutation (insert_stable c l) (c :: l).
Proof.
  induction l as [|d l IH]; [apply Permutation_refl|]. cbn [insert_stable]. destruct (cs c <=? cs d); [apply Permutation_refl|].
  apply perm_trans with (d :: c :: l); [apply perm_skip; exact IH|apply perm_swap].
Qed.

Lemma sort_perm l : Permutation (sort_cands l) l.
Proof.
  induction l as [|c l IH]; [apply Permutation_refl|]. unfold sort_cands in *. cbn [fold_right].
  apply perm_trans with (c :: fold_right insert_stable [] l); [apply insert_perm|apply perm_skip; exact IH].
Qed.

Fixpoint incr (l : list cand) : Prop :=       (* starts weakly increasing *)
  match l with
  | c :: ((d :: _) as r) => cs c <= cs d /\ incr r
  | _ => True
  end.

Lemma incr_head c l : incr (c :: l) -> Forall (fun d => cs c <= cs d) l.
Proof.
  revert c. induction l as [|d l IH]; intros c H; [constructor|]. destruct H as [Hcd Hr]. constructor; [exact Hcd|].
  specialize (IH d Hr). apply Forall_forall. intros x Hx. rewrite Forall_forall in IH. specialize (IH x Hx). lia.
Qed.

Lemma insert_incr c : forall l, incr l -> incr (insert_stable c l).
Proof.
  induction l as [|d l IH]; intros H; [exact I|]. cbn [insert_stable]. destruct (cs c <=? cs d) eqn:E.
  - apply Z.leb_le in E. split; [exact E|exact H].
  - apply Z.leb_gt in E. destruct l as [|e l'].
    + cbn [insert_stable]. split; [lia|exact I].
    + destruct H as [Hde Hr]. specialize (IH Hr). cbn [insert_stable] in *. destruct (cs c <=? cs e) eqn:E2.
      * apply Z.leb_le in E2. split; [lia|exact IH].
      * split; [exact Hde|exact IH].
Qed.

Lemma sort_incr l : incr (sort_cands l).
Proof. induction l as [|c l IH]; [exact I|]. unfold sort_cands in *. cbn [fold_right]. apply insert_incr. exact IH. Qed.

(* two weakly increasing lists with the same elements, whose starts are pairwise different, are equal *)
Lemma incr_unique : forall l l', Permutation l l' -> incr l -> incr l' -> NoDup (map cs l) -> l = l'.
Proof.
  induction l as [|c l IH]; intros l' Hp Hi Hi' Hnd.
  - apply Permutation_nil in Hp. subst. reflexivity.
  - destruct l' as [|c' l'']; [apply Permutation_sym, Permutation_nil in Hp; discriminate|].
    assert (Hc : c = c').
    { assert (In c (c' :: l'')) by (eapply Permutation_in; [exact Hp|left; reflexivity]).
      assert (In c' (c :: l)) by (eapply Permutation_in; [apply Permutation_sym; exact Hp|left; reflexivity]).
      destruct H as [->|H]; [reflexivity|]. destruct H0 as [<-|H0]; [reflexivity|].
      pose proof (incr_head c l Hi) as F1. pose proof (incr_head c' l'' Hi') as F2. rewrite Forall_forall in F1, F2.
      specialize (F1 c' H0). specialize (F2 c H). assert (E : cs c = cs c') by lia.
      exfalso. cbn [map] in Hnd. inversion Hnd as [|? ? Hni _]; subst. apply Hni. rewrite E. apply in_map. exact H0. }
    subst c'. f_equal. apply IH.
    + eapply Permutation_cons_inv. exact Hp.
    + destruct l; [exact I|]. destruct Hi as [_ Hi]. exact Hi.
    + destruct l''; [exact I|]. destruct Hi' as [_ Hi']. exact Hi'.
    + cbn [map] in Hnd. inversion Hnd; assumption.
Qed.

Theorem sort_to l l' : Permutation l l' -> incr l' -> NoDup (map cs l') -> sort_cands l = l'.
Proof.
  intros Hp Hi Hnd. apply incr_unique.
  - apply perm_trans with l; [apply sort_perm|exact Hp].
  - apply sort_incr.
  - exact Hi.
  - apply (Permutation_NoDup (l := map cs l')); [apply Permutation_map, Permutation_sym, perm_trans with l; [apply sort_perm|exact Hp]|exact Hnd].
Qed.
