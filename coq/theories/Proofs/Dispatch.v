(* C18: the contrib renderers, seen as method resolution over the HTML model,
   coincide with the HTML model wherever their own overrides are not reached. *)
From Coq Require Import ZArith List Bool.
From Mistletoe Require Import Base.Sx Base.PyStr Model.Fillers Model.Tree Gen.GenEscapes Gen.GenDispatch
     Model.HtmlRenderer Model.Contrib Model.SpanTokenizer.
Import ListNotations.
Local Open Scope Z_scope.

Definition method_of (t : tok) : str :=
  match t with
  | RawText _ => $"render_raw_text" | Strong _ _ => $"render_strong" | Emphasis _ _ => $"render_emphasis"
  | Strikethrough _ => $"render_strikethrough" | InlineCode _ => $"render_inline_code"
  | Image _ _ => $"render_image" | Link _ _ => $"render_link" | AutoLink _ _ _ => $"render_auto_link"
  | EscapeSequence _ => $"render_escape_sequence" | LineBreak _ _ => $"render_line_break"
  | HtmlSpan _ => $"render_html_span" | Math _ => $"render_math"
  | Heading _ _ _ | SetextHeading _ _ _ => $"render_heading" | Quote _ => $"render_quote"
  | Paragraph _ => $"render_paragraph" | BlockCode _ | CodeFence _ => $"render_block_code"
  | List _ _ _ => $"render_list" | ListItem _ _ => $"render_list_item" | Table _ _ _ => $"render_table"
  | TableRow _ _ => $"render_table_row" | TableCell _ _ => $"render_table_cell"
  | ThematicBreak _ => $"render_thematic_break" | HtmlBlock _ => $"render_html_block"
  | Document _ => $"render_document"
  | BlankLine => $"render_blank_line" | LinkRefDef _ => $"render_link_reference_definition"
  | LinkRefDefBlock _ => $"render_link_reference_definition_block"
  end.

(* the method is HtmlRenderer's own, or an override that returns super()'s result *)
Definition passthrough (tbl : list (str * str)) (m : str) : bool :=
  let d := assoc_str m tbl in
  str_eqb d $"HtmlRenderer" || (str_eqb d $"TocRenderer" && str_eqb m $"render_heading").

Lemma via_passthrough hl tbl m c t : passthrough tbl m = true -> via hl tbl m c t = c.
Proof.
  unfold passthrough, via. cbv zeta. destruct (str_eqb (assoc_str m tbl) $"HtmlRenderer"); [reflexivity|].
  cbn [orb]. intros H. unfold override. rewrite H. reflexivity.
Qed.

(* every node of the tree is rendered by a pass-through method; Math nodes are
   the business of the MathJax renderer only *)
Fixpoint plain_for (k : rkind) (tbl : list (str * str)) (t : tok) : bool :=
  let all := forallb (plain_for k tbl) in
  match t with
  | Math _ => match k with KMathJax => false | _ => true end
  | BlankLine | LinkRefDef _ | LinkRefDefBlock _ => true     (* no HTML-family renderer has a method for them *)
  | Strong _ ch | Emphasis _ ch | Strikethrough ch | Link _ ch | AutoLink _ _ ch | EscapeSequence ch
  | Heading _ _ ch | SetextHeading _ _ ch | Quote ch | Paragraph ch | List _ _ ch | ListItem _ ch
  | TableRow _ ch | TableCell _ ch | Document ch => passthrough tbl (method_of t) && all ch
  | Table _ h ch => passthrough tbl (method_of t) && match h with Some h' => plain_for k tbl h' | None => true end && all ch
  | _ => passthrough tbl (method_of t)
  end.

Ltac pih IH Hp :=
  match goal with
  | |- Forall _ ?ch =>
    apply Forall_forall; intros ?c ?Hc;
    rewrite Forall_forall in IH; apply IH; auto;
    try (rewrite forallb_forall in Hp; apply Hp; auto)
  end.

Lemma flat_map_ext_in {A B} (f g : A -> list B) l : Forall (fun x => f x = g x) l -> flat_map f l = flat_map g l.
Proof. induction 1; cbn; congruence. Qed.
Lemma map_ext_Forall {A B} (f g : A -> B) l : Forall (fun x => f x = g x) l -> map f l = map g l.
Proof. induction 1; cbn; congruence. Qed.

Ltac finish H Hp :=
  rewrite via_passthrough by assumption;
  repeat match goal with
  | |- context [flat_map (render_with ?hl ?k ?tbl ?o ?s ?h) ?ch] =>
      replace (flat_map (render_with hl k tbl o s h) ch) with (flat_map (render o s h) ch)
        by (symmetry; apply flat_map_ext_in; pih H Hp)
  | |- context [map (render_with ?hl ?k ?tbl ?o ?s ?h) ?ch] =>
      replace (map (render_with hl k tbl o s h) ch) with (map (render o s h) ch)
        by (symmetry; apply map_ext_Forall; pih H Hp)
  end; reflexivity.

Theorem render_with_plain hl k tbl o t :
  plain_for k tbl t = true -> forall sup hdr, render_with hl k tbl o sup hdr t = render o sup hdr t.
Proof.
  induction t using tok_ind'; intros Hp sup hdr; cbn [render_with render]; cbn [plain_for method_of] in Hp;
    repeat match goal with H : AllP _ _ |- _ => unfold AllP in H end;
    try reflexivity;
    try (rewrite via_passthrough by assumption; reflexivity);
    try (apply andb_true_iff in Hp; destruct Hp as [Hm Hp]; finish H Hp).
  - (* Math *) destruct k; try reflexivity. discriminate.
  - (* Table *)
    apply andb_true_iff in Hp. destruct Hp as [Hm Hp]. apply andb_true_iff in Hm. destruct Hm as [Hm Hh].
    destruct h as [h'|].
    + rewrite (H h' eq_refl Hh). finish H0 Hp.
    + finish H0 Hp.
Qed.

(* ---- the regenerated tables ---- *)
Definition render_methods : list str :=
  [$"render_raw_text"; $"render_strong"; $"render_emphasis"; $"render_strikethrough"; $"render_inline_code";
   $"render_image"; $"render_link"; $"render_auto_link"; $"render_escape_sequence"; $"render_line_break";
   $"render_html_span"; $"render_heading"; $"render_quote"; $"render_paragraph"; $"render_block_code";
   $"render_list"; $"render_list_item"; $"render_table"; $"render_table_row"; $"render_table_cell";
   $"render_thematic_break"; $"render_html_block"; $"render_document"].

Definition all_pass_except (tbl : list (str * str)) (ext : list str) : bool :=
  forallb (fun m => existsb (str_eqb m) ext || passthrough tbl m) render_methods.

(* structural side condition of a renderer: no node whose method is in `ext`; no Math for MathJax *)
Fixpoint avoids (k : rkind) (ext : list str) (t : tok) : bool :=
  let all := forallb (avoids k ext) in
  negb (existsb (str_eqb (method_of t)) ext) &&
  match t with
  | Math _ => match k with KMathJax => false | _ => true end
  | Strong _ ch | Emphasis _ ch | Strikethrough ch | Link _ ch | AutoLink _ _ ch | EscapeSequence ch
  | Heading _ _ ch | SetextHeading _ _ ch | Quote ch | Paragraph ch | List _ _ ch | ListItem _ ch
  | TableRow _ ch | TableCell _ ch | Document ch => all ch
  | Table _ h ch => match h with Some h' => avoids k ext h' | None => true end && all ch
  | _ => true
  end.

Lemma method_in t : (match t with Math _ | BlankLine | LinkRefDef _ | LinkRefDefBlock _ => True | _ => In (method_of t) render_methods end).
Proof. destruct t; cbn; tauto. Qed.

Lemma pass_of tbl ext m : all_pass_except tbl ext = true -> In m render_methods ->
  existsb (str_eqb m) ext = false -> passthrough tbl m = true.
Proof.
  unfold all_pass_except. rewrite forallb_forall. intros H Hin He. specialize (H m Hin). now rewrite He in H.
Qed.

Theorem avoids_plain k tbl ext t : all_pass_except tbl ext = true -> avoids k ext t = true -> plain_for k tbl t = true.
Proof.
  intros Ht. induction t using tok_ind'; intros Ha; cbn [avoids] in Ha;
    apply andb_true_iff in Ha; destruct Ha as [Hm Ha]; apply negb_true_iff in Hm; cbn [plain_for];
    repeat match goal with H : AllP _ _ |- _ => unfold AllP in H end;
    try reflexivity;
    try (apply (pass_of tbl ext _ Ht); [cbn; tauto|exact Hm]);
    try (apply andb_true_iff; split; [apply (pass_of tbl ext _ Ht); [cbn; tauto|exact Hm]|];
         apply forallb_forall; intros tt Htt; rewrite Forall_forall in H; apply H; auto;
         rewrite forallb_forall in Ha; apply Ha; auto; fail).
  - (* Math *) exact Ha.
  - (* Table *)
    apply andb_true_iff in Ha. destruct Ha as [Hh Ha].
    apply andb_true_iff; split; [apply andb_true_iff; split|].
    + apply (pass_of tbl ext _ Ht); [cbn; tauto|exact Hm].
    + destruct h as [h'|]; [apply (H h' eq_refl Hh)|reflexivity].
    + apply forallb_forall; intros tt Htt; rewrite Forall_forall in H0; apply H0; auto.
      rewrite forallb_forall in Ha; apply Ha; auto.
Qed.

Definition ext_of (k : rkind) : list str :=
  match k with
  | KHtml | KToc | KWiki => []
  | KMathJax => [$"render_document"]
  | KPygments => [$"render_block_code"]
  end.

Definition tables_ok : bool :=
  forallb (fun k => all_pass_except (table_of k) (ext_of k)) [KHtml; KToc; KWiki; KMathJax; KPygments].
Lemma tables_ok_hold : tables_ok = true.
Proof. vm_compute. reflexivity. Qed.

Lemma table_ok_k k : all_pass_except (table_of k) (ext_of k) = true.
Proof.
  pose proof tables_ok_hold as H. unfold tables_ok in H. rewrite forallb_forall in H.
  apply H. destruct k; cbn; auto 10.
Qed.

Theorem contrib_conservative hl k o t :
  avoids k (ext_of k) t = true ->
  forall sup hdr, render_with hl k (table_of k) o sup hdr t = render o sup hdr t.
Proof.
  intros Ha sup hdr. apply render_with_plain.
  apply (avoids_plain k (table_of k) (ext_of k) t (table_ok_k k) Ha).
Qed.

(* MathJax: the whole document = the HTML document followed by the script line *)
Lemma serialize_app a b : serialize (a ++ b) = serialize a ++ serialize b.
Proof. unfold serialize. apply flat_map_app. Qed.

Definition mathjax_document_ok : bool :=
  str_eqb (assoc_str $"render_document" definers_mathjax) $"MathJaxRenderer".
Lemma mathjax_document_ok_hold : mathjax_document_ok = true.
Proof. vm_compute. reflexivity. Qed.

Theorem mathjax_document hl o ch :
  forallb (avoids KMathJax (ext_of KMathJax)) ch = true ->
  render_contrib hl KMathJax o (Document ch) = render_html o (Document ch) ++ mathjax_src.
Proof.
  intros Ha. unfold render_contrib, render_html. cbn [render_with render table_of].
  assert (E : map (render_with hl KMathJax definers_mathjax o false false) ch = map (render o false false) ch).
  { apply map_ext_Forall. apply Forall_forall. intros c Hc. apply (contrib_conservative hl KMathJax).
    rewrite forallb_forall in Ha. auto. }
  rewrite E. unfold via. cbv zeta.
  pose proof mathjax_document_ok_hold as Hd. unfold mathjax_document_ok in Hd.
  apply str_eqb_eq in Hd. rewrite Hd.
  change (str_eqb $"MathJaxRenderer" $"HtmlRenderer") with false. cbv iota.
  unfold override.
  change (str_eqb $"MathJaxRenderer" $"TocRenderer") with false. cbn [andb].
  change (str_eqb $"MathJaxRenderer" $"MathJaxRenderer" && str_eqb $"render_document" $"render_document") with true.
  cbv iota. rewrite serialize_app. f_equal; try (unfold serialize; cbn; now rewrite app_nil_r).
Qed.

(* ---- the class-level facts, over the regenerated tables ---- *)
Definition ext_names (k : rkind) : list str :=
  match k with
  | KHtml => []
  | KToc => [$"__init__"; $"render_heading"]
  | KWiki => [$"__init__"]
  | KMathJax => [$"__init__"; $"render_document"]
  | KPygments => [$"__init__"; $"render_block_code"]
  end.

Definition dispatch_ok : bool :=
  forallb (fun k => forallb (fun m => existsb (str_eqb m) (ext_names k) ||
                                      str_eqb (assoc_str m (table_of k)) (assoc_str m definers_html))
                            method_names)
          [KToc; KWiki; KMathJax; KPygments].

Theorem dispatch_ok_hold : dispatch_ok = true.
Proof. vm_compute. reflexivity. Qed.

Theorem kwargs_forwarded :
  forwards_kwargs_toc && forwards_kwargs_wiki && forwards_kwargs_mathjax && forwards_kwargs_pygments = true.
Proof. vm_compute. reflexivity. Qed.

(* a token type whose find() returns nothing does not change inline tokenization:
   the candidate list is the concatenation of the types' candidates in list order *)
Theorem empty_finder_changes_nothing before ext after len :
  ext = [] -> tokenize (before ++ ext ++ after) len = tokenize (before ++ after) len.
Proof. intros ->. reflexivity. Qed.
