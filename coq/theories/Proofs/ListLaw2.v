(* The list law when more text follows: a list-indented text, a blank line and then a line that
   is neither indented far enough to continue the item nor a list marker - the list reader
   returns the same single-item list and consumes exactly the indented text. *)
From Coq Require Import ZArith List Bool Lia.
From Mistletoe Require Import Base.Sx Base.PyStr Base.PyText Gen.GenTables Gen.GenRegex Gen.GenConfig Re.ReMatch
     Model.CoreTokens Model.Block Proofs.ReFirst Proofs.ReExact Proofs.ListLaw Proofs.Independence.
Import ListNotations.
Local Open Scope Z_scope.

Lemma parse_continuation_short c body prepend :
  first_ok c = true -> mem 10 body = false -> 0 < prepend ->
  parse_continuation (line_of 0 c body) prepend = None.
Proof.
  intros Hc Hb Hp. destruct (cont_match 0 c body Hc Hb) as (res & Hm & Hbef & Hpos & G1 & G2).
  unfold parse_continuation. rewrite Hm. unfold gtxt, group_text. rewrite G1, G2.
  assert (S1 : segment res 0 (Z.of_nat 0) = []) by (unfold segment; reflexivity).
  assert (B0 : 0 <= slen body) by (unfold slen; lia).
  assert (L : slen (line_of 0 c body) = 1 + slen body + 1).
  { unfold line_of, slen. cbn [repeat app length]. rewrite app_length. cbn [length]. lia. }
  assert (S2 : segment res (Z.of_nat 0) (slen (line_of 0 c body)) = c :: body ++ [10]).
  { rewrite (segment_known res (line_of 0 c body)) by (try assumption; cbn; lia).
    cbn [Z.of_nat Z.to_nat skipn]. rewrite Z.sub_0_r. unfold slen. rewrite Nat2Z.id. apply firstn_all. }
  rewrite S1, S2.
  assert (Ne : str_eqb (c :: body ++ [10]) [10] = false).
  { cbn [str_eqb]. unfold first_ok in Hc. apply negb_true_iff in Hc. apply orb_false_iff in Hc as [_ H10]. rewrite H10. reflexivity. }
  rewrite Ne. cbn [expandtabs4 expandtabs_aux slen length Z.of_nat].
  assert (prepend <=? 0 = false) as -> by (apply Z.leb_gt; lia). reflexivity.
Qed.

(* what may follow the indented text *)
Definition tail_ok (w : nat) (tail : list str) : Prop :=
  tail = [] \/ tail = [NL] \/ exists l2 more, tail = NL :: l2 :: more /\ parse_continuation l2 (Z.of_nat w) = None /\ parse_marker l2 = None.

Section Item.
  Variable types : list block_kind.
  Variable leader : str.
  Variable w : nat.

  Lemma item_loop_embedded_tail : forall ls tail buf taken nl,
    Forall sline_ok ls -> tail_ok w tail -> fold_left next_nl ls nl = O ->
    item_loop types leader (map (embed_line w) ls ++ tail) (Z.of_nat w) buf taken nl =
    (rev (rev (map render_line ls) ++ buf), (taken + length ls)%nat, None).
  Proof.
    induction ls as [|l ls IH]; intros tail buf taken nl Hok Ht Hnl.
    - cbn [map app fold_left rev length] in *. subst nl. rewrite Nat.add_0_r.
      destruct Ht as [->|[->|(l2 & more & -> & Hc & Hm)]]; [reflexivity| |].
      { cbn [item_loop]. unfold NL. rewrite parse_continuation_blank. cbn [str_eqb Z.eqb Pos.eqb item_loop andb skipn].
        replace (S taken - 1)%nat with taken by lia. reflexivity. }
      cbn [item_loop]. unfold NL. rewrite parse_continuation_blank. cbn [str_eqb Z.eqb Pos.eqb item_loop andb]. rewrite Hc.
      replace (S taken - 1)%nat with taken by lia.
      destruct (item_interrupt types (l2 :: more)); [cbn [skipn]; reflexivity|].
      rewrite Hm. cbn [skipn]. reflexivity.
    - inversion Hok as [|? ? Hl Hls]; subst. cbn [map app item_loop].
      destruct l as [|k c body]; cbn [embed_line].
      + rewrite parse_continuation_blank. cbn [fold_left next_nl] in Hnl. rewrite (IH tail _ _ _ Hls Ht Hnl).
        cbn [str_eqb Z.eqb Pos.eqb map render_line rev length]. rewrite <- app_assoc. cbn [app]. f_equal. f_equal. lia.
      + destruct Hl as [Hc Hb].
        rewrite parse_continuation_line by (try assumption; lia).
        replace (w + k - Z.to_nat (Z.of_nat w))%nat with k by lia.
        rewrite line_not_nl by exact Hc. cbn [fold_left next_nl] in Hnl. rewrite (IH tail _ _ _ Hls Ht Hnl).
        cbn [map render_line rev length]. rewrite <- app_assoc. cbn [app]. f_equal. f_equal. lia.
  Qed.

  (* ... and when the next item of the same list follows after a blank line: the blank line is the item's, the marker is handed on *)
  Lemma item_loop_embedded_next : forall ls l2 more mk2 buf taken nl,
    Forall sline_ok ls -> fold_left next_nl ls nl = O ->
    parse_continuation l2 (Z.of_nat w) = None -> item_interrupt types (l2 :: more) = false ->
    parse_marker l2 = Some mk2 -> same_marker_type leader (match mk2 with (_, _, other, _) => other end) = true ->
    item_loop types leader (map (embed_line w) ls ++ NL :: l2 :: more) (Z.of_nat w) buf taken nl =
    (rev (NL :: rev (map render_line ls) ++ buf), S (taken + length ls), Some mk2).
  Proof.
    induction ls as [|l ls IH]; intros l2 more mk2 buf taken nl Hok Hnl Hc Hi Hm Hs.
    - cbn [map app fold_left rev length] in *. subst nl. rewrite Nat.add_0_r.
      cbn [item_loop]. unfold NL. rewrite parse_continuation_blank. cbn [str_eqb Z.eqb Pos.eqb item_loop andb]. rewrite Hc, Hi, Hm.
      destruct mk2 as [[[i p] other] ct]. rewrite Hs. reflexivity.
    - inversion Hok as [|? ? Hl Hls]; subst. cbn [map app item_loop].
      destruct l as [|k c body]; cbn [embed_line].
      + rewrite parse_continuation_blank. cbn [fold_left next_nl] in Hnl. rewrite (IH l2 more mk2 _ _ _ Hls Hnl Hc Hi Hm Hs).
        cbn [str_eqb Z.eqb Pos.eqb map render_line rev length]. rewrite <- app_assoc. cbn [app]. f_equal. f_equal. lia.
      + destruct Hl as [Hc0 Hb].
        rewrite parse_continuation_line by (try assumption; lia).
        replace (w + k - Z.to_nat (Z.of_nat w))%nat with k by lia.
        rewrite line_not_nl by exact Hc0. cbn [fold_left next_nl] in Hnl. rewrite (IH l2 more mk2 _ _ _ Hls Hnl Hc Hi Hm Hs).
        cbn [map render_line rev length]. rewrite <- app_assoc. cbn [app]. f_equal. f_equal. lia.
  Qed.

  (* ... and when the next item follows directly *)
  Lemma item_loop_embedded_tight : forall ls l2 more mk2 buf taken nl,
    Forall sline_ok ls -> fold_left next_nl ls nl = O ->
    parse_continuation l2 (Z.of_nat w) = None -> item_interrupt types (l2 :: more) = false ->
    parse_marker l2 = Some mk2 -> same_marker_type leader (match mk2 with (_, _, other, _) => other end) = true ->
    item_loop types leader (map (embed_line w) ls ++ l2 :: more) (Z.of_nat w) buf taken nl =
    (rev (rev (map render_line ls) ++ buf), (taken + length ls)%nat, Some mk2).
  Proof.
    induction ls as [|l ls IH]; intros l2 more mk2 buf taken nl Hok Hnl Hc Hi Hm Hs.
    - cbn [map app fold_left rev length] in *. rewrite Nat.add_0_r.
      cbn [item_loop]. rewrite Hc, Hi, Hm.
      destruct mk2 as [[[i p] other] ct]. rewrite Hs. reflexivity.
    - inversion Hok as [|? ? Hl Hls]; subst. cbn [map app item_loop].
      destruct l as [|k c body]; cbn [embed_line].
      + rewrite parse_continuation_blank. cbn [fold_left next_nl] in Hnl. rewrite (IH l2 more mk2 _ _ _ Hls Hnl Hc Hi Hm Hs).
        cbn [str_eqb Z.eqb Pos.eqb map render_line rev length]. rewrite <- app_assoc. cbn [app]. f_equal. f_equal. lia.
      + destruct Hl as [Hc0 Hb].
        rewrite parse_continuation_line by (try assumption; lia).
        replace (w + k - Z.to_nat (Z.of_nat w))%nat with k by lia.
        rewrite line_not_nl by exact Hc0. cbn [fold_left next_nl] in Hnl. rewrite (IH l2 more mk2 _ _ _ Hls Hnl Hc Hi Hm Hs).
        cbn [map render_line rev length]. rewrite <- app_assoc. cbn [app]. f_equal. f_equal. lia.
  Qed.
End Item.

Section Law.
  Variable types : list block_kind.
  Variable rec : list str -> Z -> pstate -> list pre * bool * pstate.

  Variables (mk : marker) (pad : nat) (c0 : Z) (body0 : str) (rest : list sline) (tail : list str).
  Hypothesis Hmk : marker_ok mk.
  Hypothesis Hpad : (1 <= pad <= 4)%nat.
  Hypothesis Hc0 : nonspace c0 = true.
  Hypothesis Hb0 : mem 10 body0 = false.
  Hypothesis Hrest : Forall sline_ok rest.
  Hypothesis Hlast : last_not_blank (SLine 0 c0 body0 :: rest).
  Hypothesis Htail : tail_ok (length (marker_str mk) + pad) tail.

  Let ms := marker_str mk.
  Let w := (length ms + pad)%nat.
  Let first_line := ms ++ repeat 32 pad ++ c0 :: body0 ++ [10].
  Let text := map render_line (SLine 0 c0 body0 :: rest).
  Let embedded := first_line :: map (embed_line w) rest.

  Hypothesis Hth : thematic_start first_line = false.

  Lemma read_item_tail ln st :
    read_item types rec (embedded ++ tail) ln None st =
    let '(es, lo, st') := rec text ln st in
    (PItem ln es lo 0 (Z.of_nat w) ms, S (length rest), None, st').
  Proof.
    unfold read_item, embedded, first_line, ms. cbn [app].
    rewrite (parse_marker_line mk pad c0 body0 Hmk Hpad Hc0).
    assert (Nb : is_blank (c0 :: body0 ++ [10]) = false).
    { apply not_blank_first. unfold nonspace in Hc0. apply negb_true_iff in Hc0. exact Hc0. }
    rewrite Nb.
    assert (Ew : slen (marker_str mk) + Z.of_nat pad = Z.of_nat w) by (unfold w, ms, slen; lia).
    assert (Fr : fold_left next_nl rest 0%nat = 0%nat) by (eapply fold_rest; eassumption).
    rewrite Ew. rewrite (item_loop_embedded_tail types (marker_str mk) w rest tail _ _ _ Hrest Htail Fr).
    rewrite rev_app_distr, rev_involutive. cbn [rev app].
    change (c0 :: body0 ++ [10]) with (render_line (SLine 0 c0 body0)).
    change (render_line (SLine 0 c0 body0) :: map render_line rest) with text.
    destruct (rec text ln st) as [[es lo] st']. reflexivity.
  Qed.

  (* the item when the next item of the list follows after a blank line *)
  Lemma read_item_next l2 more mk2 ln st :
    parse_continuation l2 (Z.of_nat w) = None -> item_interrupt types (l2 :: more) = false ->
    parse_marker l2 = Some mk2 -> same_marker_type ms (match mk2 with (_, _, other, _) => other end) = true ->
    read_item types rec (embedded ++ NL :: l2 :: more) ln None st =
    let '(es, lo, st') := rec (text ++ [NL]) ln st in
    (PItem ln es lo 0 (Z.of_nat w) ms, S (S (length rest)), Some mk2, st').
  Proof.
    intros Hc Hi Hm Hs.
    unfold read_item, embedded, first_line, ms. cbn [app].
    rewrite (parse_marker_line mk pad c0 body0 Hmk Hpad Hc0).
    assert (Nb : is_blank (c0 :: body0 ++ [10]) = false).
    { apply not_blank_first. unfold nonspace in Hc0. apply negb_true_iff in Hc0. exact Hc0. }
    rewrite Nb.
    assert (Ew : slen (marker_str mk) + Z.of_nat pad = Z.of_nat w) by (unfold w, ms, slen; lia).
    assert (Fr : fold_left next_nl rest 0%nat = 0%nat) by (eapply fold_rest; eassumption).
    rewrite Ew. rewrite (item_loop_embedded_next types (marker_str mk) w rest l2 more mk2 _ _ _ Hrest Fr Hc Hi Hm Hs).
    assert (Eb : rev (NL :: rev (map render_line rest) ++ [c0 :: body0 ++ [10]]) = text ++ [NL]).
    { cbn [rev]. rewrite rev_app_distr, rev_involutive. reflexivity. }
    match goal with |- context [rec ?x ln st] => replace x with (text ++ [NL]) by (symmetry; exact Eb) end.
    destruct (rec (text ++ [NL]) ln st) as [[es lo] st']. replace (1 + length rest)%nat with (S (length rest)) by reflexivity. reflexivity.
  Qed.

  (* the item when the next item of the list follows directly *)
  Lemma read_item_tight l2 more mk2 ln st :
    parse_continuation l2 (Z.of_nat w) = None -> item_interrupt types (l2 :: more) = false ->
    parse_marker l2 = Some mk2 -> same_marker_type ms (match mk2 with (_, _, other, _) => other end) = true ->
    read_item types rec (embedded ++ l2 :: more) ln None st =
    let '(es, lo, st') := rec text ln st in
    (PItem ln es lo 0 (Z.of_nat w) ms, S (length rest), Some mk2, st').
  Proof.
    intros Hc Hi Hm Hs.
    unfold read_item, embedded, first_line, ms. cbn [app].
    rewrite (parse_marker_line mk pad c0 body0 Hmk Hpad Hc0).
    assert (Nb : is_blank (c0 :: body0 ++ [10]) = false).
    { apply not_blank_first. unfold nonspace in Hc0. apply negb_true_iff in Hc0. exact Hc0. }
    rewrite Nb.
    assert (Ew : slen (marker_str mk) + Z.of_nat pad = Z.of_nat w) by (unfold w, ms, slen; lia).
    assert (Fr : fold_left next_nl rest 0%nat = 0%nat) by (eapply fold_rest; eassumption).
    rewrite Ew. rewrite (item_loop_embedded_tight types (marker_str mk) w rest l2 more mk2 _ _ _ Hrest Fr Hc Hi Hm Hs).
    assert (Eb : rev (rev (map render_line rest) ++ [c0 :: body0 ++ [10]]) = text).
    { rewrite rev_app_distr, rev_involutive. reflexivity. }
    match goal with |- context [rec ?x ln st] => replace x with text by (symmetry; exact Eb) end.
    destruct (rec text ln st) as [[es lo] st']. replace (1 + length rest)%nat with (S (length rest)) by reflexivity. reflexivity.
  Qed.

  Lemma start_read_list_tail ln st :
    start_read types rec BK_List (embedded ++ tail) ln st =
    let '(es, lo, st') := rec text ln st in
    Some (PList ln [PItem ln es ((1 <? nlines (length es)) && lo) 0 (Z.of_nat w) ms], S (length rest), st').
  Proof.
    unfold start_read. unfold embedded at 1. cbn [app].
    assert (Ls : list_start first_line = true) by (unfold first_line, ms; apply (list_start_line mk pad c0 body0 Hmk (proj1 Hpad) ltac:(eapply c0_first_ok; eassumption))).
    rewrite Ls. change (first_line :: map (embed_line w) rest ++ tail) with (embedded ++ tail).
    cbn [read_list]. rewrite read_item_tail.
    destruct (rec text ln st) as [[es lo] st']. cbn [negb rev app Nat.add]. reflexivity.
  Qed.

  Lemma try_types_list_tail ln st : forall ts, list_first ts = true ->
    try_types types rec ts (embedded ++ tail) ln st = start_read types rec BK_List (embedded ++ tail) ln st.
  Proof.
    destruct (marker_first mk Hmk) as (m0 & mr & Em & Hm0).
    assert (El : exists t, first_line = m0 :: t) by (unfold first_line, ms; rewrite Em; eexists; reflexivity).
    destruct El as (t & El).
    assert (SR : exists v, start_read types rec BK_List (embedded ++ tail) ln st = Some v).
    { rewrite start_read_list_tail. destruct (rec text ln st) as [[es lo] st']. eexists. reflexivity. }
    destruct SR as (v & SR).
    induction ts as [|k ts IH]; intros Hl; [discriminate|]. cbn [try_types].
    destruct (other_kind k) eqn:Ek.
    - unfold embedded at 1. cbn [app]. rewrite El. rewrite start_read_other_kind; [|exact Hm0|rewrite <- El; exact Hth|exact Ek].
      apply IH. destruct k; try discriminate; exact Hl.
    - destruct k; try discriminate. rewrite SR. reflexivity.
  Qed.
End Law.
