(* C03 / C16: ONE struck-through phrase inside a sentence.  pre ~~w~~ post - the three texts free of trigger characters,
   w not empty - tokenizes to the text, one Strikethrough holding w, the text: Strikethrough.pattern (a look-behind, the
   escaped backslashes, the lazy content closed by the first ~~) evaluated exactly, pattern.finditer finding this one match
   and no other, the scanner of the core tokens passing over the tildes, the candidate tokenizer parsing the content. *)
From Coq Require Import ZArith List Bool Lia.
From Mistletoe Require Import Base.Sx Base.PyStr Base.PyText Gen.GenTables Gen.GenRegex Gen.GenConfig Re.ReMatch
     Model.SpanTokenizer Model.Tree Model.Unescape Model.CoreTokens Model.Inline Model.Block Model.Build Model.Parser Model.HtmlRenderer
     Proofs.ReFirst Proofs.ReNeeds Proofs.ReExact Proofs.HeadingLaw Proofs.Prose Proofs.PlainProse Proofs.ListLaw Proofs.ProseLines
     Proofs.EmphSimple Proofs.EmphSentence Proofs.RefSentence Proofs.LinkSentence Proofs.CodeSpan.
Import ListNotations.
Local Open Scope Z_scope.

Definition TT : re := Seq (Lit 126) (Lit 126).
Lemma strike_shape :
  re_span_token_Strikethrough_pattern =
    Seq (Look false true 1%nat (Lit 92)) (Seq (Rep true 0%nat None (Seq (Lit 92) (Lit 92))) (Seq (Lit 126) (Seq (Lit 126) (Seq (Grp 1%nat (Rep false 1%nat None Any)) TT)))) /\
  fl_span_token_Strikethrough_pattern = mkFlags true false.
Proof. split; reflexivity. Qed.

Section StrikeMatch.
  Let fl := mkFlags true false.
  Variables (pre w post : str).
  Hypothesis Hprev : match rev pre with [] => True | x :: _ => x <> 92 end.
  Hypothesis Hne : w <> [].
  Hypothesis Hw : mem 126 w = false.

  Let a := slen pre.
  Definition ss0 : mst := mkMst (rev pre) (126 :: 126 :: w ++ 126 :: 126 :: post) a [].
  Definition ss_end : mst :=
    mkMst (126 :: 126 :: rev w ++ 126 :: 126 :: rev pre) post (a + 1 + 1 + slen w + 1 + 1) [(1%nat, (a + 1 + 1, a + 1 + 1 + slen w))].

  Lemma strike_match (k : mst -> option mst) v : k ss_end = Some v -> m fl re_span_token_Strikethrough_pattern ss0 k = Some v.
  Proof.
    intros Hk. destruct strike_shape as [-> _].
    rewrite m_seq.
    assert (L1 : forall k', m fl (Look false true 1 (Lit 92)) ss0 k' = k' ss0).
    { intros k'. cbn [m retreat]. unfold ss0 at 1 2. cbn [bef]. destruct (rev pre) as [|x r] eqn:Er; [reflexivity|].
      apply Z.eqb_neq in Hprev. cbn [aft char_ok]. rewrite Hprev. reflexivity. }
    rewrite L1. rewrite m_seq.
    assert (L2 : forall k', m fl (Rep true 0 None (Seq (Lit 92) (Lit 92))) ss0 k' = k' ss0).
    { intros k'. cbn [m repeat app]. unfold ss0 at 1. cbn [aft]. cbn [loop Nat.ltb Nat.leb under]. cbn [m]. unfold ss0 at 1. cbn [aft char_ok Z.eqb Pos.eqb orelse]. reflexivity. }
    rewrite L2. rewrite m_seq.
    rewrite (m_char fl (Lit 126) ss0 126 (126 :: w ++ 126 :: 126 :: post)) by reflexivity. cbn [char_ok Z.eqb Pos.eqb].
    rewrite m_seq.
    rewrite (m_char fl (Lit 126) (advance ss0 126 (126 :: w ++ 126 :: 126 :: post)) 126 (w ++ 126 :: 126 :: post)) by reflexivity. cbn [char_ok Z.eqb Pos.eqb].
    set (s1 := advance (advance ss0 126 (126 :: w ++ 126 :: 126 :: post)) 126 (w ++ 126 :: 126 :: post)).
    rewrite m_seq, m_grp, m_rep.
    apply (lazy_run fl Any 1 None _ v (126 :: 126 :: post) eq_refl w s1 0%nat _ tt).
    - reflexivity.
    - apply all_any.
    - intros x Hx. discriminate.
    - cbn [repeat app length]. unfold s1. cbn [aft advance]. rewrite app_length. cbn [length]. lia.
    - intros j Hj _. unfold TT. cbn [m set_grp adv_run aft].
      destruct (skipn j w) as [|c t] eqn:E.
      + apply (f_equal (@length Z)) in E. rewrite skipn_length in E. cbn [length] in E. lia.
      + cbn [app char_ok].
        assert (Hin : In c w) by (rewrite <- (firstn_skipn j w), E; apply in_or_app; right; left; reflexivity).
        destruct (c =? 126) eqn:Ec; [|reflexivity]. apply Z.eqb_eq in Ec. subst c. exfalso.
        assert (T : mem 126 w = true) by (unfold mem; apply existsb_exists; exists 126; split; [exact Hin|reflexivity]). rewrite T in Hw. discriminate.
    - destruct w; [contradiction|cbn [length]; lia].
    - unfold TT. cbn [m set_grp adv_run aft char_ok Z.eqb Pos.eqb advance bef pos grp]. exact Hk.
    - reflexivity.
  Qed.
End StrikeMatch.

Lemma strike_nomatch c : (c =? 92) = false -> (c =? 126) = false -> nomatch fl_span_token_Strikethrough_pattern re_span_token_Strikethrough_pattern c = true.
Proof.
  intros H1 H2. destruct strike_shape as [-> ->]. unfold nomatch, TT. cbn [fa fst snd char_ok]. rewrite H1, H2. reflexivity.
Qed.

Lemma finditer_from_none fl r : forall fuel adv s, search_from fl r (aft s) adv s = None -> finditer_from fl r fuel adv s = [].
Proof. intros [|x fuel] adv s H; cbn [finditer_from]; rewrite H; reflexivity. Qed.

(* search_skip for a first attempt that must advance: nothing matches at the first character either way *)
Definition triggers_s : list Z := [92; 96; 60; 10; 36; 38; 123; 124].
Definition is_strike (kd : span_kind) : bool := match kd with SK_Strikethrough => true | _ => false end.
Definition kind_quiet_s (kd : span_kind) : bool :=
  match kd with
  | SK_CoreTokens | SK_InlineCode | SK_RawText | SK_Strikethrough => true
  | _ => existsb (fun c => needs (fst (re_of kd)) c) triggers_s
  end.

Section StrikeS.
  Variables (pre w post : str) (fn : footnotes).
  Hypothesis Hpre : plain_text pre = true.
  Hypothesis Hw : plain_text w = true.
  Hypothesis Hpost : plain_text post = true.
  Hypothesis Hne : w <> [].

  Let s := pre ++ [126; 126] ++ w ++ [126; 126] ++ post.
  Let a := slen pre.
  Let e := a + 1 + 1 + slen w + 1 + 1.

  Definition t0 : mst := adv_run (start_at [] s) pre (126 :: 126 :: w ++ 126 :: 126 :: post).
  Definition t1 : mst := ss_end pre w post.

  Lemma t_len : slen s = e + slen post.
  Proof. unfold s, e, a. rewrite !slen_app. unfold slen. cbn [length]. lia. Qed.

  Lemma t_prev : match rev pre with [] => True | x :: _ => x <> 92 end.
  Proof.
    destruct (rev pre) as [|x r] eqn:Er; [exact I|].
    assert (Hin : In x pre) by (apply in_rev; rewrite Er; left; reflexivity).
    pose proof (plain_no 92 pre eq_refl Hpre) as H92. intros ->.
    assert (T : mem 92 pre = true) by (unfold mem; apply existsb_exists; exists 92; split; [exact Hin|reflexivity]). rewrite T in H92. discriminate.
  Qed.

  Lemma strike_found : finditer fl_span_token_Strikethrough_pattern re_span_token_Strikethrough_pattern s = [(t0, t1)].
  Proof.
    unfold finditer. cbn [finditer_from].
    assert (Ea : aft (start_at [] s) = s) by reflexivity. rewrite Ea.
    rewrite (search_skip _ _ pre s (start_at [] s) (126 :: 126 :: w ++ 126 :: 126 :: post)); [|reflexivity| |unfold s; rewrite app_length; lia].
    2:{ intros c Hc. apply strike_nomatch.
        - pose proof (plain_no 92 pre eq_refl Hpre) as T. destruct (c =? 92) eqn:E; [|reflexivity]. apply Z.eqb_eq in E. subst c.
          assert (T' : mem 92 pre = true) by (unfold mem; apply existsb_exists; exists 92; split; [exact Hc|reflexivity]). rewrite T' in T. discriminate.
        - pose proof (plain_no 126 pre eq_refl Hpre) as T. destruct (c =? 126) eqn:E; [|reflexivity]. apply Z.eqb_eq in E. subst c.
          assert (T' : mem 126 pre = true) by (unfold mem; apply existsb_exists; exists 126; split; [exact Hc|reflexivity]). rewrite T' in T. discriminate. }
    fold t0.
    assert (E0 : mkMst (bef t0) (aft t0) (pos t0) [] = ss0 pre w post).
    { unfold t0, ss0, adv_run, start_at. cbn [bef aft pos grp length Z.of_nat]. rewrite app_nil_r. reflexivity. }
    assert (S1 : search_from fl_span_token_Strikethrough_pattern re_span_token_Strikethrough_pattern (skipn (length pre) s) false t0 = Some (t0, t1)).
    { destruct (skipn (length pre) s) as [|x fuel]; cbn [search_from]; rewrite E0;
        destruct strike_shape as [_ ->];
        rewrite (strike_match pre w post t_prev Hne (plain_no 126 w eq_refl Hw) _ t1) by reflexivity; reflexivity. }
    rewrite S1. f_equal.
    apply finditer_from_none. apply (search_none _ _ 126); [vm_compute; reflexivity|].
    cbn [aft t1 ss_end]. apply plain_no; [reflexivity|exact Hpost].
  Qed.

  Lemma t0_pos : pos t0 = a.  Proof. reflexivity. Qed.
  Lemma t1_pos : pos t1 = e.  Proof. reflexivity. Qed.

  (* ---- the core tokens find nothing: every character is inert for the scanner ---- *)
  Lemma t_no c : mem c triggers_s = true -> mem c s = false.
  Proof.
    intros Hc.
    assert (Ht : mem c triggers = true).
    { unfold mem, triggers_s, triggers in *. cbn [existsb] in *.
      repeat (apply orb_true_iff in Hc; destruct Hc as [Hc|Hc]); try discriminate; rewrite Hc; cbn [orb]; rewrite ?orb_true_r; reflexivity. }
    assert (C126 : (c =? 126) = false) by (destruct (c =? 126) eqn:E; [apply Z.eqb_eq in E; subst c; vm_compute in Hc; discriminate|reflexivity]).
    unfold s, mem. rewrite !existsb_app. fold (mem c pre). fold (mem c w). fold (mem c post).
    rewrite (plain_no c pre Ht Hpre), (plain_no c post Ht Hpost), (plain_no c w Ht Hw). cbn [existsb orb]. rewrite C126. reflexivity.
  Qed.

  Lemma t_inert : forallb inert_char s = true.
  Proof.
    unfold s. rewrite !forallb_app. rewrite (plain_inert pre Hpre), (plain_inert w Hw), (plain_inert post Hpost). reflexivity.
  Qed.

  Theorem core_finds_nothing : find_core_tokens s fn = ([], []).
  Proof.
    unfold find_core_tokens.
    assert (Hc : code_search s 0 = None).
    { unfold code_search. apply (search_state_none _ _ 96); [vm_compute; reflexivity|]. unfold seek. cbn [aft]. apply mem_drop. apply t_no. reflexivity. }
    rewrite Hc.
    set (st0 := mkScan [] [] false None false 0 []).
    replace (S (S (length s))) with (length s + 2)%nat by lia.
    pose proof (scan_inert_any s fn s 2 [] [] st0) as T. rewrite app_nil_r in T. cbn [app] in T.
    change (slen []) with 0 in T. rewrite T; [|reflexivity|exact t_inert|repeat split].
    replace (0 + slen s) with (slen s) by lia. rewrite scan_end. cbn [st0 sc_run sc_ds sc_ms sc_code].
    unfold process_emphasis. change (next_closer 0 []) with (@None Z). destruct (3 * length s + 3)%nat; reflexivity.
  Qed.

  Lemma find_all_strike : forall ts, forallb kind_quiet_s ts = true ->
    find_all ts s fn [] = flat_map (fun kd => if is_strike kd then [CRe SK_Strikethrough t0 t1] else []) ts.
  Proof.
    induction ts as [|kd ts IH]; intros Hq; [reflexivity|].
    cbn [forallb] in Hq. apply andb_true_iff in Hq as [Hkq Hts]. cbn [find_all flat_map].
    assert (F : match kd with SK_CoreTokens | SK_InlineCode | SK_RawText | SK_Strikethrough => True | _ => finditer (snd (re_of kd)) (fst (re_of kd)) s = [] end).
    { destruct kd; try exact I; cbn [kind_quiet_s] in Hkq; apply existsb_exists in Hkq as (c & Hin & Hn);
        (apply (finditer_none _ _ c s Hn); apply t_no; unfold mem; apply existsb_exists; exists c; split; [exact Hin|apply Z.eqb_refl]). }
    destruct kd; cbn [find_kind is_strike];
      try (rewrite core_finds_nothing; cbn [map app]; apply IH; exact Hts);
      try (cbn [map app]; apply IH; exact Hts);
      try (cbn [re_of fst snd]; rewrite strike_found; cbn [map app fst snd]; f_equal; apply IH; exact Hts);
      (cbn [re_of fst snd] in F |- *; rewrite F; cbn [map app]; apply IH; exact Hts).
  Qed.

  Definition strike_tok : tok := Strikethrough [RawText w].

  Theorem tokenize_inner_strike types : forallb kind_quiet_s (removelast types) = true ->
    filter is_strike (removelast types) = [SK_Strikethrough] ->
    tokenize_inner types fn s = raw_if pre ++ [strike_tok] ++ raw_if post.
  Proof.
    intros Hq Hc. unfold tokenize_inner. rewrite (find_all_strike _ Hq).
    assert (Es : flat_map (fun kd => if is_strike kd then [CRe SK_Strikethrough t0 t1] else []) (removelast types) = [CRe SK_Strikethrough t0 t1]).
    { clear Hq. revert Hc. generalize (removelast types) as ts.
      assert (G : forall ts n, length (filter is_strike ts) = n ->
                flat_map (fun kd => if is_strike kd then [CRe SK_Strikethrough t0 t1] else []) ts = repeat (CRe SK_Strikethrough t0 t1) n).
      { induction ts as [|kd ts IH]; intros n Hn; [cbn in Hn; subst n; reflexivity|]. cbn [flat_map filter] in *.
        destruct (is_strike kd); [|cbn [app]; apply IH; exact Hn]. destruct n as [|n]; [discriminate|]. cbn [length] in Hn. cbn [repeat app]. f_equal. apply IH. lia. }
      intros ts H. rewrite (G ts 1%nat) by (rewrite H; reflexivity). reflexivity. }
    rewrite Es.
    cbn [number_from map fst snd cand_of sk_parse_group grp_span sk_precedence sk_parse_inner].
    assert (Gs : group_span t1 1 = Some (a + 1 + 1, a + 1 + 1 + slen w)) by reflexivity.
    rewrite Gs, t0_pos, t1_pos.
    pose proof t_len as Hs.
    unfold tokenize, SpanTokenizer.make_tokens, make_tokens_with.
    cbn [sort_cands fold_right insert_stable buffer_rev eval_loop last_end pc ce mk_rev cs make inner ps pe app rev].
    unfold make_tokens_with. cbn [last_end mk_rev app rev].
    assert (a + 1 + 1 =? a + 1 + 1 + slen w = false) as -> by (apply Z.eqb_neq; pose proof (proj1 (length_zero_iff_nil w)) as L0; unfold slen; destruct (length w); [exfalso; apply Hne; apply L0; reflexivity|lia]).
    assert (Gb : (if a >? 0 then [ORaw 0 a] else []) = match pre with [] => [] | _ => [ORaw 0 a] end) by (unfold a; apply gap_before).
    assert (Ga : (if e =? slen s then [] else [ORaw e (slen s)]) = match post with [] => [] | _ => [ORaw e (slen s)] end) by (rewrite Hs; apply gap_after).
    rewrite Gb, Ga. rewrite app_nil_r, rev_app_distr. cbn [rev app]. rewrite <- app_assoc. cbn [app].
    rewrite !map_app. cbn [map build_otok cid src_at Z.to_nat nth build_inner].
    assert (Ew : substr s (a + 1 + 1) (a + 1 + 1 + slen w) = w).
    { pose proof (substr_mid (pre ++ [126; 126]) w ([126; 126] ++ post)) as M.
      replace (slen (pre ++ [126; 126])) with (a + 1 + 1) in M by (unfold a; rewrite slen_app; unfold slen; cbn [length]; lia).
      rewrite <- app_assoc in M. exact M. }
    rewrite Ew, (unescape_plain w Hw). fold strike_tok. f_equal; [|f_equal].
    - rewrite ?app_nil_r. apply raw_gap. cbn [build_otok]. f_equal.
      pose proof (substr_mid [] pre ([126; 126] ++ w ++ [126; 126] ++ post)) as M. cbn [app] in M. unfold slen at 1 2 in M. cbn [length Z.of_nat] in M.
      fold a in M. replace (0 + a) with a in M by lia. unfold s. cbn [app]. rewrite M. apply unescape_plain. exact Hpre.
    - apply raw_gap. cbn [build_otok]. f_equal.
      pose proof (substr_mid (pre ++ [126; 126] ++ w ++ [126; 126]) post []) as M.
      replace (slen (pre ++ [126; 126] ++ w ++ [126; 126])) with e in M by (unfold e, a; rewrite !slen_app; unfold slen; cbn [length]; lia).
      rewrite app_nil_r in M. replace ((pre ++ [126; 126] ++ w ++ [126; 126]) ++ post) with s in M by (unfold s; rewrite <- !app_assoc; reflexivity).
      rewrite Hs. rewrite M. apply unescape_plain. exact Hpost.
  Qed.
End StrikeS.

(* ---- the statement with computable hypotheses ---- *)
Definition strike_spans (types : list span_kind) : bool :=
  forallb kind_quiet_s (removelast types) && match filter is_strike (removelast types) with [SK_Strikethrough] => true | _ => false end.

Definition strike_ok (pre w post : str) : bool :=
  plain_text pre && plain_text w && plain_text post && (match w with [] => false | _ => true end).

Theorem strike_in_sentence types fn pre w post :
  strike_spans types = true -> strike_ok pre w post = true ->
  tokenize_inner types fn (pre ++ [126; 126] ++ w ++ [126; 126] ++ post) = raw_if pre ++ [Strikethrough [RawText w]] ++ raw_if post.
Proof.
  intros Hs Ho. unfold strike_spans in Hs. apply andb_true_iff in Hs as [Hq Hc].
  unfold strike_ok in Ho. repeat rewrite andb_true_iff in Ho. destruct Ho as [[[H1 H2] H3] H4].
  apply (tokenize_inner_strike pre w post fn H1 H2 H3); [destruct w; [discriminate|discriminate]|exact Hq|].
  destruct (filter _ _) as [|[] [|? ?]]; try discriminate. reflexivity.
Qed.

Example strike_instance :
  (strike_ok ($"this is ") ($"gone, really") ($" now.") = true) /\ (strike_ok [] ($"a~b") [] = false) /\ (strike_ok [] [] [] = false).
Proof. vm_compute. repeat split; reflexivity. Qed.

Lemma strike_configs :
  map (fun c => strike_spans (cfg_span c)) [cfg_html; cfg_html_nohtml; cfg_markdown; cfg_latex; cfg_mathjax; cfg_default] = [true; true; true; true; true; true].
Proof. vm_compute. reflexivity. Qed.

