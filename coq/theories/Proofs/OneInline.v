(* One inline element - a struck-through phrase, a backslash escape or an image - inside a sentence, under one statement:
   the three sentence theorems (StrikeSentence.v, EscSentence.v, ImageSentence.v) as the inline phase of leaf FOne of the fragment. *)
From Coq Require Import ZArith List Bool Lia.
From Mistletoe Require Import Base.Sx Base.PyStr Base.PyText Gen.GenConfig Model.Tree Model.CoreTokens Model.Inline
     Proofs.PlainProse Proofs.EmphSentence Proofs.RefSentence Proofs.LinkSentence Proofs.CodeSpan Proofs.StrikeSentence Proofs.EscSentence Proofs.ImageSentence
     Proofs.LeafSpans Proofs.ListLaw Proofs.EmphSimple Proofs.EmphPhrases Proofs.NestedEmph Proofs.TitleLink Proofs.AutoLinkSentence Proofs.AngleLink Proofs.LinkEmph Spec.Fragment.
Import ListNotations.
Local Open Scope Z_scope.

Definition inl_ok (pre : str) (x : inl) (post : str) : bool :=
  match x with
  | IStrike w => strike_ok pre w post
  | IEsc c => esc_ok pre c post
  | IImg w d => ilink_ok pre w d post
  | INest ch k h ps z => nest_ok ch k pre h ps z post
  | ILinkT w d q tl => tlink_ok pre w d q tl post && (match tl with [] => false | _ => true end)
  | IAuto c0 sc r => auto_ok pre c0 sc r post
  | ILinkA w c0 d => alink_ok pre w c0 d post
  | ILinkE h ps z d => elink_ok pre h ps z d post
  end.

Definition inl_tok (x : inl) : tok :=
  match x with
  | IStrike w => Strikethrough [RawText w]
  | IEsc c => EscapeSequence [RawText [c]]
  | IImg w d => image_of w d
  | INest ch k h ps z => nest_of ch k h ps z
  | ILinkT w d q tl => tlink_of w d q tl
  | IAuto c0 sc r => auto_of (c0 :: sc ++ 58 :: r)
  | ILinkA w c0 d => alink_of w (c0 :: d)
  | ILinkE h ps z d => elink_of h ps z d
  end.

Theorem one_in_sentence types fn pre x post :
  leaf_spans types = true -> emph_spans types = true -> inl_ok pre x post = true ->
  tokenize_inner types fn (pre ++ inl_text x ++ post) = raw_if pre ++ [inl_tok x] ++ raw_if post.
Proof.
  intros Hs Hem Ho. unfold leaf_spans in Hs. repeat rewrite andb_true_iff in Hs. destruct Hs as [[[[Hr _] Hst] He] Hau].
  destruct x as [w|c|w d|ch k h ps z|w d q tl|u0 usc ur|aw a0 ad|eh eps ez ed]; cbn [inl_ok inl_text inl_tok] in *.
  - rewrite <- !app_assoc. apply strike_in_sentence; assumption.
  - change (pre ++ [92; c] ++ post) with (pre ++ [92; c] ++ post). apply escape_in_sentence; assumption.
  - rewrite <- !app_assoc. apply image_in_sentence; assumption.
  - pose proof (nested_emphasis types fn ch k pre h ps z post Hem Ho) as T. unfold nest_text in T. rewrite <- !app_assoc in T. rewrite <- !app_assoc. exact T.
  - apply andb_true_iff in Ho as [Ho _]. rewrite <- !app_assoc. change (title_closer q) with (closer q). apply titled_link_in_sentence; assumption.
  - pose proof (autolink_in_sentence types fn pre u0 usc ur post Hau Ho) as T. rewrite <- !app_assoc. exact T.
  - pose proof (angle_link_in_sentence types fn pre aw a0 ad post Hr Hau Ho) as T. rewrite <- !app_assoc. exact T.
  - pose proof (link_with_emphasis types fn pre eh eps ez ed post Hr Ho) as T. rewrite <- !app_assoc in T. cbn [inl_text]. rewrite <- !app_assoc. exact T.
Qed.

Lemma inl_plain pre x post : inl_ok pre x post = true -> plain_text pre = true /\ plain_text post = true.
Proof.
  destruct x as [w|c|w d|ch k h ps z|w d q tl|u0 usc ur|aw a0 ad|eh eps ez ed]; cbn [inl_ok]; intros H.
  - unfold strike_ok in H. repeat rewrite andb_true_iff in H. tauto.
  - unfold esc_ok in H. repeat rewrite andb_true_iff in H. tauto.
  - unfold ilink_ok in H. repeat rewrite andb_true_iff in H. tauto.
  - unfold nest_ok in H. repeat rewrite andb_true_iff in H. tauto.
  - unfold tlink_ok, ilink_ok in H. repeat rewrite andb_true_iff in H. tauto.
  - unfold auto_ok in H. repeat rewrite andb_true_iff in H. tauto.
  - unfold alink_ok in H. repeat rewrite andb_true_iff in H. tauto.
  - unfold elink_ok in H. repeat rewrite andb_true_iff in H. tauto.
Qed.

(* neither a newline nor a pipe in the sentence *)
Lemma inl_no c pre x post : c = 10 \/ c = 124 -> inl_ok pre x post = true -> mem c (pre ++ inl_text x ++ post) = false.
Proof.
  intros Hc Ho. destruct (inl_plain pre x post Ho) as [Hpre Hpost].
  assert (Ht : mem c triggers = true) by (destruct Hc as [->| ->]; reflexivity).
  assert (Hr : mem c triggers_r = true) by (destruct Hc as [->| ->]; reflexivity).
  unfold mem. rewrite !existsb_app. fold (mem c pre). fold (mem c post). fold (mem c (inl_text x)).
  rewrite (plain_no c pre Ht Hpre), (plain_no c post Ht Hpost), orb_false_r. cbn [orb].
  destruct x as [w|e|w d|ch k h ps z|w d q tl|u0 usc ur|aw a0 ad|eh eps ez ed]; cbn [inl_ok inl_text] in *.
  - unfold strike_ok in Ho. repeat rewrite andb_true_iff in Ho. destruct Ho as [[[_ Hw] _] _].
    unfold mem. rewrite !existsb_app. fold (mem c w). rewrite (plain_no c w Ht Hw). destruct Hc as [->| ->]; reflexivity.
  - unfold esc_ok in Ho. repeat rewrite andb_true_iff in Ho. destruct Ho as [_ He]. unfold esc_char in He. apply andb_true_iff in He as [_ He]. apply negb_true_iff in He.
    unfold mem. cbn [existsb]. rewrite orb_false_r.
    destruct (c =? e) eqn:E; [|destruct Hc as [->| ->]; reflexivity]. apply Z.eqb_eq in E. subst e. exfalso.
    assert (T : mem c triggers_x = true) by (destruct Hc as [->| ->]; reflexivity). rewrite T in He. discriminate.
  - unfold ilink_ok in Ho. repeat rewrite andb_true_iff in Ho. destruct Ho as [[[[[_ Hw] _] _] Hd] _].
    unfold mem. rewrite !existsb_app. fold (mem c w). fold (mem c d). rewrite (plain_no c w Ht Hw), (dest_no c d Hr Hd). destruct Hc as [->| ->]; reflexivity.
  - unfold nest_ok in Ho. repeat rewrite andb_true_iff in Ho.
    destruct Ho as [[[[[[[[[[[[[H1 _] _] _] H5] _] _] _] H9] H10] _] _] _] _].
    assert (C1 : c <> 42) by (destruct Hc as [->| ->]; discriminate). assert (C2 : c <> 95) by (destruct Hc as [->| ->]; discriminate).
    assert (Hch : ch = 42 \/ ch = 95) by (apply orb_true_iff in H1 as [E|E]; apply Z.eqb_eq in E; [left|right]; exact E).
    assert (Hps : Forall phrase_ok ps) by (apply Forall_forall; intros p Hp; rewrite forallb_forall in H9; apply phrase_okb_spec; apply H9; exact Hp).
    unfold mem. rewrite !existsb_app. fold (mem c (repeat ch (S k))). fold (mem c h). fold (mem c (body ps)). fold (mem c z).
    rewrite (mem_repeat c ch) by (destruct Hch as [->| ->]; assumption).
    rewrite (plain_no c h Ht H5), (plain_no c z Ht H10), (body_no c Ht C1 C2 ps Hps). reflexivity.
  - unfold tlink_ok, ilink_ok in Ho. repeat rewrite andb_true_iff in Ho. destruct Ho as [[[[[[[[[[_ Hw] _] _] Hd] _] Htl] Hdl] _] _] _].
    assert (Hqq : q = 34 \/ q = 39 \/ q = 40).
    { unfold delim_ok in Hdl. repeat (apply orb_true_iff in Hdl; destruct Hdl as [Hdl|Hdl]); apply Z.eqb_eq in Hdl; tauto. }
    unfold mem. rewrite !existsb_app. fold (mem c w). fold (mem c d). fold (mem c tl). rewrite (plain_no c w Ht Hw), (dest_no c d Hr Hd), (plain_no c tl Ht Htl).
    destruct Hqq as [->|[->| ->]]; destruct Hc as [->| ->]; reflexivity.
  - unfold auto_ok in Ho. repeat rewrite andb_true_iff in Ho. destruct Ho as [[[[[[[_ _] H3] H4] H5] H6] _] H8]. apply Nat.leb_le in H5, H6.
    pose proof (url_plain [] u0 usc ur H3 H4 (conj H5 H6) H8) as Hu.
    unfold mem. rewrite !existsb_app. fold (mem c (u0 :: usc ++ 58 :: ur)). rewrite (plain_no c _ Ht Hu). destruct Hc as [->| ->]; reflexivity.
  - unfold alink_ok in Ho. repeat rewrite andb_true_iff in Ho. destruct Ho as [[[[[[[_ Hw] _] _] _] _] Hd] _].
    assert (Ha : mem c triggers_a = true) by (destruct Hc as [->| ->]; reflexivity).
    unfold mem. rewrite !existsb_app. fold (mem c aw). fold (mem c (a0 :: ad)). rewrite (plain_no c aw Ht Hw), (adest_no c (a0 :: ad) (or_introl Ha) Hd). destruct Hc as [->| ->]; reflexivity.
  - unfold elink_ok in Ho. repeat rewrite andb_true_iff in Ho. destruct Ho as [[[[[[[[_ H2] _] H4] _] H6] _] H8] _].
    assert (C1 : c <> 42) by (destruct Hc as [->| ->]; discriminate). assert (C2 : c <> 95) by (destruct Hc as [->| ->]; discriminate).
    assert (Hps : Forall phrase_ok eps) by (apply Forall_forall; intros p Hp; rewrite forallb_forall in H4; apply phrase_okb_spec; apply H4; exact Hp).
    unfold mem. rewrite !existsb_app. fold (mem c eh). fold (mem c (body eps)). fold (mem c ez). fold (mem c ed).
    rewrite (plain_no c eh Ht H2), (plain_no c ez Ht H6), (body_no c Ht C1 C2 eps Hps), (dest_no c ed Hr H8). destruct Hc as [->| ->]; reflexivity.
Qed.
