(* One inline element - a struck-through phrase, a backslash escape or an image - inside a sentence, under one statement:
   the three sentence theorems (StrikeSentence.v, EscSentence.v, ImageSentence.v) as the inline phase of leaf FOne of the fragment. *)
From Coq Require Import ZArith List Bool Lia.
From Mistletoe Require Import Base.Sx Base.PyStr Base.PyText Gen.GenConfig Model.Tree Model.CoreTokens Model.Inline
     Proofs.PlainProse Proofs.EmphSentence Proofs.RefSentence Proofs.LinkSentence Proofs.CodeSpan Proofs.StrikeSentence Proofs.EscSentence Proofs.ImageSentence
     Proofs.LeafSpans Spec.Fragment.
Import ListNotations.
Local Open Scope Z_scope.

Definition inl_ok (pre : str) (x : inl) (post : str) : bool :=
  match x with
  | IStrike w => strike_ok pre w post
  | IEsc c => esc_ok pre c post
  | IImg w d => ilink_ok pre w d post
  end.

Definition inl_tok (x : inl) : tok :=
  match x with
  | IStrike w => Strikethrough [RawText w]
  | IEsc c => EscapeSequence [RawText [c]]
  | IImg w d => image_of w d
  end.

Theorem one_in_sentence types fn pre x post :
  leaf_spans types = true -> inl_ok pre x post = true ->
  tokenize_inner types fn (pre ++ inl_text x ++ post) = raw_if pre ++ [inl_tok x] ++ raw_if post.
Proof.
  intros Hs Ho. unfold leaf_spans in Hs. repeat rewrite andb_true_iff in Hs. destruct Hs as [[[Hr _] Hst] He].
  destruct x as [w|c|w d]; cbn [inl_ok inl_text inl_tok] in *.
  - rewrite <- !app_assoc. apply strike_in_sentence; assumption.
  - change (pre ++ [92; c] ++ post) with (pre ++ [92; c] ++ post). apply escape_in_sentence; assumption.
  - rewrite <- !app_assoc. apply image_in_sentence; assumption.
Qed.

Lemma inl_plain pre x post : inl_ok pre x post = true -> plain_text pre = true /\ plain_text post = true.
Proof.
  destruct x as [w|c|w d]; cbn [inl_ok]; intros H.
  - unfold strike_ok in H. repeat rewrite andb_true_iff in H. tauto.
  - unfold esc_ok in H. repeat rewrite andb_true_iff in H. tauto.
  - unfold ilink_ok in H. repeat rewrite andb_true_iff in H. tauto.
Qed.

(* neither a newline nor a pipe in the sentence *)
Lemma inl_no c pre x post : c = 10 \/ c = 124 -> inl_ok pre x post = true -> mem c (pre ++ inl_text x ++ post) = false.
Proof.
  intros Hc Ho. destruct (inl_plain pre x post Ho) as [Hpre Hpost].
  assert (Ht : mem c triggers = true) by (destruct Hc as [->| ->]; reflexivity).
  assert (Hr : mem c triggers_r = true) by (destruct Hc as [->| ->]; reflexivity).
  unfold mem. rewrite !existsb_app. fold (mem c pre). fold (mem c post). fold (mem c (inl_text x)).
  rewrite (plain_no c pre Ht Hpre), (plain_no c post Ht Hpost), orb_false_r. cbn [orb].
  destruct x as [w|e|w d]; cbn [inl_ok inl_text] in *.
  - unfold strike_ok in Ho. repeat rewrite andb_true_iff in Ho. destruct Ho as [[[_ Hw] _] _].
    unfold mem. rewrite !existsb_app. fold (mem c w). rewrite (plain_no c w Ht Hw). destruct Hc as [->| ->]; reflexivity.
  - unfold esc_ok in Ho. repeat rewrite andb_true_iff in Ho. destruct Ho as [_ He]. unfold esc_char in He. apply andb_true_iff in He as [_ He]. apply negb_true_iff in He.
    unfold mem. cbn [existsb]. rewrite orb_false_r.
    destruct (c =? e) eqn:E; [|destruct Hc as [->| ->]; reflexivity]. apply Z.eqb_eq in E. subst e. exfalso.
    assert (T : mem c triggers_x = true) by (destruct Hc as [->| ->]; reflexivity). rewrite T in He. discriminate.
  - unfold ilink_ok in Ho. repeat rewrite andb_true_iff in Ho. destruct Ho as [[[[[_ Hw] _] _] Hd] _].
    unfold mem. rewrite !existsb_app. fold (mem c w). fold (mem c d). rewrite (plain_no c w Ht Hw), (dest_no c d Hr Hd). destruct Hc as [->| ->]; reflexivity.
Qed.
