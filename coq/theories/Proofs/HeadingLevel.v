(* The level of an ATX heading - the length of what the '#' group of Heading.pattern holds -
   lies between 1 and 6, for every line, for the pattern regenerated from /repo
   (group-length analysis of Proofs/ReGroups.v, side conditions by vm_compute). *)
From Coq Require Import ZArith List Bool Lia.
From Mistletoe Require Import Base.Sx Base.PyStr Base.PyText Gen.GenRegex Re.ReMatch Model.Block Proofs.ReGroups.
Import ListNotations.
Local Open Scope Z_scope.

Lemma heading_side_conditions :
  no_lookbehind re_block_token_Heading_pattern = true /\
  grp_bounded 1 1 6 re_block_token_Heading_pattern = true /\
  sets 1 re_block_token_Heading_pattern = true.
Proof. vm_compute. repeat split; reflexivity. Qed.

Theorem heading_level line lv ct cl : heading_start line = Some (lv, ct, cl) -> 1 <= lv <= 6.
Proof.
  unfold heading_start, rmatch. destruct heading_side_conditions as (H1 & H2 & H3).
  destruct (match_here fl_block_token_Heading_pattern re_block_token_Heading_pattern (start_at [] line)) as [res|] eqn:E; [|discriminate].
  destruct (group_length _ _ 1%nat 1 6 line res H1 H2 H3 E) as (t & Et & Ht).
  intros H. injection H as <- _ _. unfold gtxt. rewrite Et. exact Ht.
Qed.
