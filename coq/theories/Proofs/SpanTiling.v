(* Proofs about Model/SpanTokenizer.v: the output of tokenize tiles the
   source, is ordered/disjoint, nests children inside parse groups, invents
   no token, and the two-candidate resolution rule. *)
From Coq Require Import ZArith List Bool Lia Sorting.Sorted Permutation.
From Mistletoe Require Import Model.SpanTokenizer.
Import ListNotations.
Local Open Scope Z_scope.

(* ------------------------------------------------------------------ *)
(* Well-formedness of candidates and slices                           *)

Definition wfc (c : cand) : Prop := cs c <= ps c /\ ps c <= pe c /\ pe c <= ce c.
Definition wf_cand (len : Z) (c : cand) : Prop := 0 <= cs c /\ wfc c /\ ce c <= len.

Definition wfc_b (c : cand) : bool := (cs c <=? ps c) && (ps c <=? pe c) && (pe c <=? ce c).
Definition wf_cand_b (len : Z) (c : cand) : bool := (0 <=? cs c) && wfc_b c && (ce c <=? len).

Lemma wfc_b_ok c : wfc_b c = true <-> wfc c.
Proof. unfold wfc_b, wfc. rewrite !andb_true_iff, !Z.leb_le. tauto. Qed.
Lemma wf_cand_b_ok len c : wf_cand_b len c = true <-> wf_cand len c.
Proof. unfold wf_cand_b, wf_cand. rewrite !andb_true_iff, !Z.leb_le, wfc_b_ok. tauto. Qed.

Section Slice.
  Context {A : Type}.
  Definition slice (s : list A) (a b : Z) : list A :=
    firstn (Z.to_nat (b - a)) (skipn (Z.to_nat a) s).

  Lemma slice_nil s a : slice s a a = [].
  Proof. unfold slice. rewrite Z.sub_diag. reflexivity. Qed.

  Lemma firstn_add (n m : nat) (l : list A) :
    firstn (n + m) l = firstn n l ++ firstn m (skipn n l).
  Proof.
    revert l; induction n as [|n IH]; intros l; [reflexivity|].
    destruct l as [|x l]; cbn [Nat.add firstn skipn].
    - destruct m; reflexivity.
    - cbn. now rewrite IH.
  Qed.

  Lemma skipn_skipn (n m : nat) (l : list A) : skipn n (skipn m l) = skipn (m + n) l.
  Proof.
    revert l; induction m as [|m IH]; intros l; [reflexivity|].
    destruct l as [|x l]; cbn [Nat.add skipn]; [now destruct n|apply IH].
  Qed.

  Lemma slice_app s a b c : 0 <= a -> a <= b -> b <= c ->
    slice s a b ++ slice s b c = slice s a c.
  Proof.
    intros Ha Hab Hbc. unfold slice.
    replace (Z.to_nat (c - a)) with (Z.to_nat (b - a) + Z.to_nat (c - b))%nat by lia.
    rewrite firstn_add, skipn_skipn.
    replace (Z.to_nat a + Z.to_nat (b - a))%nat with (Z.to_nat b) by lia.
    reflexivity.
  Qed.

  Lemma slice_full s : slice s 0 (Z.of_nat (length s)) = s.
  Proof.
    unfold slice. rewrite Z.sub_0_r, Nat2Z.id. cbn [Z.to_nat skipn]. apply firstn_all.
  Qed.
End Slice.

(* ------------------------------------------------------------------ *)
(* Induction principles for the two nested trees                      *)

Section PtokInd.
  Variable P : ptok -> Prop.
  Hypothesis H : forall c l, Forall P l -> P (PT c l).
  Fixpoint ptok_ind' (p : ptok) : P p :=
    match p with
    | PT c l => H c l ((fix go (l : list ptok) : Forall P l :=
                         match l with
                         | [] => Forall_nil _
                         | x :: xs => Forall_cons _ (ptok_ind' x) (go xs)
                         end) l)
    end.
End PtokInd.

Section OtokInd.
  Variable P : otok -> Prop.
  Hypothesis Hraw : forall a b, P (ORaw a b).
  Hypothesis Hnone : forall c, P (OTok c None).
  Hypothesis Hsome : forall c l, Forall P l -> P (OTok c (Some l)).
  Fixpoint otok_ind' (o : otok) : P o :=
    match o with
    | ORaw a b => Hraw a b
    | OTok c None => Hnone c
    | OTok c (Some l) => Hsome c l ((fix go (l : list otok) : Forall P l :=
                         match l with
                         | [] => Forall_nil _
                         | x :: xs => Forall_cons _ (otok_ind' x) (go xs)
                         end) l)
    end.
End OtokInd.

(* ------------------------------------------------------------------ *)
(* The output predicate: a list of output tokens TILES [lo,hi]         *)

Definition ostart (o : otok) : Z := match o with ORaw a _ => a | OTok c _ => cs c end.
Definition oend (o : otok) : Z := match o with ORaw _ b => b | OTok c _ => ce c end.

Definition tiles_with (P : otok -> Prop) : Z -> Z -> list otok -> Prop :=
  fix go (lo hi : Z) (l : list otok) : Prop :=
    match l with
    | [] => lo = hi
    | o :: l' => ostart o = lo /\ P o /\ go (oend o) hi l'
    end.

(* ok o: raw text is non-empty; a token's candidate is well-formed; a
   parse_inner token's children tile exactly its parse group; a
   non-parse_inner token has no children list at all. *)
Fixpoint ok (o : otok) : Prop :=
  match o with
  | ORaw a b => a < b
  | OTok c None => wfc c /\ inner c = false
  | OTok c (Some ch) => wfc c /\ inner c = true /\ tiles_with ok (ps c) (pe c) ch
  end.

Definition tiles := tiles_with ok.

Lemma tiles_app P a b c l1 l2 :
  tiles_with P a b l1 -> tiles_with P b c l2 -> tiles_with P a c (l1 ++ l2).
Proof.
  revert a; induction l1 as [|o l1 IH]; intros a H1 H2; cbn in *.
  - now subst.
  - destruct H1 as (Hs & Ho & Ht). repeat split; auto.
Qed.

Lemma ok_span o : ok o -> ostart o <= oend o.
Proof.
  destruct o as [a b|c [ch|]]; cbn; unfold wfc; intros; lia.
Qed.

Lemma tiles_le lo hi l : tiles lo hi l -> lo <= hi.
Proof.
  revert lo; induction l as [|o l IH]; intros lo H; cbn in H.
  - lia.
  - destruct H as (Hs & Ho & Ht). apply IH in Ht. apply ok_span in Ho. lia.
Qed.

(* ------------------------------------------------------------------ *)
(* Invariant of the ParseToken forest                                  *)
(* z bounds every start that occurs in the tree (candidates arrive in
   order of start); chain lo hi rl: the REVERSED list rl is a sequence of
   pairwise disjoint tokens inside [lo,hi], in order. *)

Inductive wfp (z : Z) : ptok -> Prop :=
| wfp_intro c rch :
    wfc c -> cs c <= z -> (inner c = false -> rch = []) ->
    chain z (ps c) (pe c) rch -> wfp z (PT c rch)
with chain (z : Z) : Z -> Z -> list ptok -> Prop :=
| chain_nil lo hi : lo <= hi -> chain z lo hi []
| chain_cons lo hi t rest :
    wfp z t -> ce (pc t) <= hi -> chain z lo (cs (pc t)) rest ->
    chain z lo hi (t :: rest).

Scheme wfp_mind := Induction for wfp Sort Prop
  with chain_mind := Induction for chain Sort Prop.
Combined Scheme wfp_chain_ind from wfp_mind, chain_mind.

Lemma wfp_wfc z t : wfp z t -> wfc (pc t).
Proof. now inversion 1. Qed.

Lemma chain_mono_hi z lo hi hi' l : chain z lo hi l -> hi <= hi' -> chain z lo hi' l.
Proof.
  inversion 1; subst; intros; constructor; auto; lia.
Qed.

Lemma chain_le z lo hi l : chain z lo hi l -> lo <= hi.
Proof.
  revert hi; induction l as [|t l IH]; intros hi H; inversion H; subst; auto.
  match goal with Hc : chain _ _ _ l |- _ => apply IH in Hc end.
  match goal with Hw : wfp _ t |- _ => apply wfp_wfc in Hw; unfold wfc in Hw end.
  lia.
Qed.

Lemma mono_z :
  forall z, (forall t, wfp z t -> forall z', z <= z' -> wfp z' t) /\
            (forall lo hi l, chain z lo hi l -> forall z', z <= z' -> chain z' lo hi l).
Proof.
  intro z. apply wfp_chain_ind; intros.
  - constructor; auto; lia.
  - constructor; auto.
  - constructor; auto.
Qed.

Lemma wfp_mono_z z z' t : wfp z t -> z <= z' -> wfp z' t.
Proof. intros H Hz. exact (proj1 (mono_z z) t H z' Hz). Qed.
Lemma chain_mono_z z z' lo hi l : chain z lo hi l -> z <= z' -> chain z' lo hi l.
Proof. intros H Hz. exact (proj2 (mono_z z) lo hi l H z' Hz). Qed.

Lemma wfp_leaf y : wfc y -> wfp (cs y) (PT y []).
Proof.
  intros Hy. constructor; auto; try lia. constructor. unfold wfc in Hy. lia.
Qed.

Lemma relation_R0 x y : relation x y = R0 -> ce x <= cs y.
Proof. unfold relation. destruct (Z.leb_spec (ce x) (cs y)); [auto|].
  repeat match goal with |- context [if ?b then _ else _] => destruct b end; discriminate. Qed.

Lemma relation_R2 x y : relation x y = R2 -> ps x <= cs y /\ ce y <= pe x.
Proof.
  unfold relation. destruct (Z.leb_spec (ce x) (cs y)); [discriminate|].
  destruct (ce x >=? ce y); [|discriminate].
  destruct (andb (ps x <=? cs y) (pe x >=? ce y)) eqn:E.
  - intros _. apply andb_true_iff in E. destruct E as [E1 E2].
    apply Z.leb_le in E1. apply Z.geb_le in E2. lia.
  - destruct (pe x <=? cs y); discriminate.
Qed.

(* append_child keeps the invariant and never changes the token's own span *)
Lemma append_child_pc p y : pc (append_child p y) = pc p.
Proof.
  destruct p as [c rch]; cbn. destruct (inner c); [|reflexivity].
  destruct rch as [|l rest]; [reflexivity|].
  destruct (relation (pc l) y); try reflexivity.
  destruct (prec (pc l) <? prec y); reflexivity.
Qed.

Lemma append_child_wf p :
  forall z y, wfp z p -> z <= cs y -> wfc y ->
              ps (pc p) <= cs y -> ce y <= pe (pc p) ->
              wfp (cs y) (append_child p y).
Proof.
  induction p as [c rch IH] using ptok_ind'.
  intros z y Hp Hz Hy Hlo Hhi. cbn [pc] in *.
  inversion Hp as [c' rch' Hc Hcz Hin Hch]; subst c' rch'.
  cbn [append_child]. destruct (inner c) eqn:Ei.
  2:{ apply wfp_mono_z with z; auto. }
  destruct rch as [|l rest].
  { constructor; auto; try lia; try congruence.
    constructor; [apply wfp_leaf; auto|cbn; lia|constructor; cbn; lia]. }
  inversion Hch as [|lo hi t rest' Hl Hle Hrest]; subst.
  inversion IH as [|? ? IHl _]; subst.
  assert (Hlz : cs (pc l) <= z) by (inversion Hl; cbn; lia).
  destruct (relation (pc l) y) eqn:Er.
  - (* R0: appended after l *)
    apply relation_R0 in Er.
    constructor; auto; try lia; try congruence.
    constructor; [apply wfp_leaf; auto|cbn; lia|].
    cbn [pc]. constructor; [apply wfp_mono_z with z; auto|lia|].
    apply chain_mono_z with z; auto.
  - (* R1: replace or keep *)
    destruct (prec (pc l) <? prec y).
    + constructor; auto; try lia; try congruence.
      constructor; [apply wfp_leaf; auto|cbn; lia|].
      cbn [pc]. apply chain_mono_z with z; auto.
      apply chain_mono_hi with (cs (pc l)); auto. lia.
    + apply wfp_mono_z with z; auto.
  - (* R2: descend *)
    apply relation_R2 in Er. destruct Er as [Er1 Er2].
    constructor; auto; try lia; try congruence.
    constructor.
    + apply IHl with z; auto.
    + rewrite append_child_pc. lia.
    + rewrite append_child_pc. apply chain_mono_z with z; auto.
  - apply wfp_mono_z with z; auto.
Qed.

(* one step of the top-level loop: prev :: rbuf is a chain in [0,len] *)
Lemma eval_tokens_chain z len prev rbuf y p b :
  chain z 0 len (prev :: rbuf) -> z <= cs y -> wf_cand len y ->
  eval_tokens prev y rbuf = (p, b) ->
  chain (cs y) 0 len (p :: b).
Proof.
  intros Hch Hz (Hy0 & Hy & Hylen) He.
  inversion Hch as [|lo hi t rest Hp Hle Hrest]; subst.
  assert (Hpz : cs (pc prev) <= z) by (inversion Hp; cbn; lia).
  unfold eval_tokens in He. destruct (relation (pc prev) y) eqn:Er.
  - inversion He; subst. apply relation_R0 in Er.
    constructor; [apply wfp_leaf; auto|cbn; lia|]. cbn [pc].
    constructor; [apply wfp_mono_z with z; auto|lia|apply chain_mono_z with z; auto].
  - destruct (prec (pc prev) >=? prec y); inversion He; subst.
    + apply chain_mono_z with z; auto.
    + constructor; [apply wfp_leaf; auto|cbn; lia|]. cbn [pc].
      apply chain_mono_z with z; auto. apply chain_mono_hi with (cs (pc prev)); auto. lia.
  - inversion He; subst. apply relation_R2 in Er. destruct Er.
    constructor.
    + apply append_child_wf with z; auto.
    + rewrite append_child_pc; auto.
    + rewrite append_child_pc. apply chain_mono_z with z; auto.
  - inversion He; subst. apply chain_mono_z with z; auto.
Qed.

Definition sorted_by_start := StronglySorted (fun a b : cand => cs a <= cs b).

Lemma eval_loop_chain len rest :
  forall z prev rbuf p b,
    chain z 0 len (prev :: rbuf) ->
    Forall (fun y => z <= cs y) rest -> sorted_by_start rest ->
    Forall (wf_cand len) rest ->
    eval_loop prev rbuf rest = (p, b) ->
    exists z', chain z' 0 len (p :: b).
Proof.
  induction rest as [|y rest IH]; intros z prev rbuf p b Hch Hz Hs Hwf He; cbn in He.
  - inversion He; subst. eauto.
  - destruct (eval_tokens prev y rbuf) as [p1 b1] eqn:E1.
    inversion Hz; subst. inversion Hs; subst. inversion Hwf; subst.
    eapply IH; [eapply eval_tokens_chain; eauto| | | |exact He]; auto.
Qed.

Lemma buffer_rev_chain len sorted :
  0 <= len -> sorted_by_start sorted -> Forall (wf_cand len) sorted ->
  exists z, chain z 0 len (buffer_rev sorted).
Proof.
  intros Hlen Hs Hwf. destruct sorted as [|c rest]; cbn.
  - exists 0. constructor. lia.
  - destruct (eval_loop (PT c []) [] rest) as [p b] eqn:E.
    inversion Hs; subst. inversion Hwf as [|? ? (Hc0 & Hc & Hcl) Hwf']; subst.
    eapply eval_loop_chain; [| | | |exact E]; eauto.
    constructor; [apply wfp_leaf; auto|cbn; lia|constructor; cbn; lia].
Qed.

(* ------------------------------------------------------------------ *)
(* sort_cands: sorted, a permutation                                   *)

Lemma insert_stable_perm c l : Permutation (c :: l) (insert_stable c l).
Proof.
  induction l as [|d l IH]; cbn; [auto|].
  destruct (cs c <=? cs d); [auto|].
  eapply perm_trans; [apply perm_swap|]. now constructor.
Qed.

Lemma sort_cands_perm l : Permutation l (sort_cands l).
Proof.
  induction l as [|c l IH]; cbn; [auto|].
  eapply perm_trans; [|apply insert_stable_perm]. now constructor.
Qed.

Lemma Forall_perm {A} (P : A -> Prop) l1 l2 : Permutation l1 l2 -> Forall P l1 -> Forall P l2.
Proof. intros Hp H. rewrite Forall_forall in *. intros x Hx. apply H. eapply Permutation_in; [apply Permutation_sym; eassumption|auto]. Qed.

Lemma insert_stable_sorted c l : sorted_by_start l -> sorted_by_start (insert_stable c l).
Proof.
  induction l as [|d l IH]; intros Hs; cbn.
  - repeat constructor.
  - destruct (Z.leb_spec (cs c) (cs d)).
    + constructor; auto. inversion Hs; subst. constructor; auto.
      eapply Forall_impl; [|eassumption]. cbn; intros; lia.
    + inversion Hs; subst. constructor; [apply IH; auto|].
      eapply Forall_perm; [apply insert_stable_perm|].
      constructor; auto. lia.
Qed.

Lemma sort_cands_sorted l : sorted_by_start (sort_cands l).
Proof.
  induction l as [|c l IH]; cbn; [constructor|]. now apply insert_stable_sorted.
Qed.

(* ------------------------------------------------------------------ *)
(* make / make_tokens produce a tiling                                 *)

Lemma make_span t : ostart (make t) = cs (pc t) /\ oend (make t) = ce (pc t).
Proof. destruct t as [c rch]; cbn. destruct (inner c); cbn; auto. Qed.

Lemma last_end_le z lo hi rl : chain z lo hi rl -> lo <= last_end rl lo /\ last_end rl lo <= hi.
Proof.
  intros H. pose proof (chain_le _ _ _ _ H) as Hle.
  inversion H; subst; cbn; [lia|].
  match goal with Hc : chain _ _ _ rest |- _ => apply chain_le in Hc end.
  match goal with Hw : wfp _ t |- _ => apply wfp_wfc in Hw; unfold wfc in Hw end.
  lia.
Qed.

Lemma make_tiles :
  forall z, (forall t, wfp z t -> ok (make t)) /\
            (forall lo hi rl, chain z lo hi rl ->
               tiles lo (last_end rl lo) (rev (mk_rev make rl lo))).
Proof.
  intro z. apply wfp_chain_ind.
  - (* a token *)
    intros c rch Hc Hcz Hin Hch IH. cbn [make].
    destruct (inner c) eqn:Ei.
    + cbn [ok]. split; [exact Hc|split; [exact Ei|]].
      unfold make_tokens_with. rewrite rev_app_distr.
      eapply tiles_app; [exact IH|].
      pose proof (last_end_le _ _ _ _ Hch) as [Hl1 Hl2].
      destruct (Z.eqb_spec (last_end rch (ps c)) (pe c)) as [E|E]; cbn.
      * exact E.
      * repeat split; lia.
    + cbn. auto.
  - intros lo hi Hle. cbn. reflexivity.
  - intros lo hi t rest Ht IHt Hle Hrest IHrest.
    cbn [mk_rev]. fold (mk_rev make).
    change (match rest with [] => lo | r :: _ => ce (pc r) end) with (last_end rest lo).
    cbn [rev]. rewrite rev_app_distr. rewrite <- app_assoc.
    cbn [last_end].
    eapply tiles_app; [exact IHrest|].
    pose proof (last_end_le _ _ _ _ Hrest) as [Hl1 Hl2].
    destruct (make_span t) as [Hs He].
    destruct (Z.gtb_spec (cs (pc t)) (last_end rest lo)) as [G|G]; cbn.
    + repeat split; auto; lia.
    + repeat split; auto; lia.
Qed.

Lemma make_tokens_tiles z lo hi rl :
  chain z lo hi rl -> tiles lo hi (make_tokens rl lo hi).
Proof.
  intros H. unfold make_tokens, make_tokens_with. rewrite rev_app_distr.
  eapply tiles_app; [exact (proj2 (make_tiles z) lo hi rl H)|].
  pose proof (last_end_le _ _ _ _ H) as [Hl1 Hl2].
  destruct (Z.eqb_spec (last_end rl lo) hi) as [E|E]; cbn.
  - exact E.
  - repeat split; lia.
Qed.

(* MAIN: the output of tokenize tiles [0,len] *)
Theorem tokenize_tiles cands len :
  0 <= len -> Forall (wf_cand len) cands -> tiles 0 len (tokenize cands len).
Proof.
  intros Hlen Hwf. unfold tokenize.
  destruct (buffer_rev_chain len (sort_cands cands) Hlen (sort_cands_sorted cands)) as [z Hz].
  - eapply Forall_perm; [apply sort_cands_perm|exact Hwf].
  - eapply make_tokens_tiles; eauto.
Qed.

(* ------------------------------------------------------------------ *)
(* Consequences of a tiling                                            *)

Section Flatten.
  Context {A : Type}.
  Variable s : list A.
  (* the text a token stands for: its delimiters, and between them either
     its children or (no parse_inner) its parse group verbatim *)
  Fixpoint flatten (o : otok) : list A :=
    match o with
    | ORaw a b => slice s a b
    | OTok c None => slice s (cs c) (ps c) ++ slice s (ps c) (pe c) ++ slice s (pe c) (ce c)
    | OTok c (Some ch) => slice s (cs c) (ps c) ++ flat_map flatten ch ++ slice s (pe c) (ce c)
    end.

  Lemma flatten_tiles_aux l :
    Forall (fun o => ok o -> 0 <= ostart o -> flatten o = slice s (ostart o) (oend o)) l ->
    forall lo hi, 0 <= lo -> tiles lo hi l -> flat_map flatten l = slice s lo hi.
  Proof.
    induction 1 as [|o l Ho Hl IH]; intros lo hi Hlo Ht; cbn in Ht.
    - subst. cbn. now rewrite slice_nil.
    - destruct Ht as (Hs & Hok & Ht). cbn [flat_map].
      pose proof (ok_span _ Hok). pose proof (tiles_le _ _ _ Ht).
      rewrite Ho by (auto; lia). rewrite (IH (oend o) hi) by (auto; lia).
      subst lo. apply slice_app; lia.
  Qed.

  Lemma flatten_ok o : ok o -> 0 <= ostart o -> flatten o = slice s (ostart o) (oend o).
  Proof.
    induction o as [a b|c|c l IH] using otok_ind'; cbn [ok flatten ostart oend].
    - auto.
    - intros [(H1 & H2 & H3) _] H0. rewrite !slice_app; auto; lia.
    - intros ((H1 & H2 & H3) & _ & Ht) H0.
      rewrite (flatten_tiles_aux l IH (ps c) (pe c)) by (auto; lia).
      rewrite !slice_app; auto; lia.
  Qed.

  Theorem flatten_tiles lo hi l :
    0 <= lo -> tiles lo hi l -> flat_map flatten l = slice s lo hi.
  Proof.
    intros Hlo Ht. eapply flatten_tiles_aux; eauto.
    apply Forall_forall. intros o _. apply flatten_ok.
  Qed.
End Flatten.

(* ordered and pairwise disjoint, inside [lo,hi] *)
Lemma tiles_bounds lo hi l :
  tiles lo hi l -> Forall (fun o => lo <= ostart o /\ ostart o <= oend o /\ oend o <= hi) l.
Proof.
  revert lo; induction l as [|o l IH]; intros lo Ht; cbn in Ht; constructor.
  - destruct Ht as (Hs & Hok & Ht). pose proof (ok_span _ Hok). pose proof (tiles_le _ _ _ Ht). lia.
  - destruct Ht as (Hs & Hok & Ht). pose proof (ok_span _ Hok).
    eapply Forall_impl; [|apply (IH _ Ht)]. cbn. intros; lia.
Qed.

Lemma tiles_sorted lo hi l :
  tiles lo hi l -> StronglySorted (fun a b => oend a <= ostart b) l.
Proof.
  revert lo; induction l as [|o l IH]; intros lo Ht; cbn in Ht; constructor.
  - destruct Ht as (_ & _ & Ht). eauto.
  - destruct Ht as (_ & _ & Ht). eapply Forall_impl; [|apply (tiles_bounds _ _ _ Ht)].
    cbn. intros; lia.
Qed.

(* every descendant of an ok token lies inside the parse group of its parent *)
Fixpoint children_inside (o : otok) : Prop :=
  match o with
  | ORaw _ _ => True
  | OTok c None => True
  | OTok c (Some ch) =>
    (fix all (l : list otok) : Prop :=
       match l with
       | [] => True
       | x :: l' => (ps c <= ostart x /\ oend x <= pe c /\ children_inside x) /\ all l'
       end) ch
  end.

(* ok is hereditary through a tiling, so state the recursive fact directly *)
Lemma tiles_all_ok lo hi l : tiles lo hi l -> Forall ok l.
Proof.
  revert lo; induction l as [|o l IH]; intros lo Ht; cbn in Ht; constructor.
  - tauto.
  - destruct Ht as (_ & _ & Ht). eauto.
Qed.

Lemma ok_children_inside o : ok o -> children_inside o.
Proof.
  induction o as [a b|c|c l IH] using otok_ind'; cbn [ok children_inside]; auto.
  intros (_ & _ & Ht).
  pose proof (tiles_bounds _ _ _ Ht) as Hb. pose proof (tiles_all_ok _ _ _ Ht) as Hok.
  clear Ht. induction l as [|x l IHl]; [exact I|].
  inversion IH; subst. inversion Hb; subst. inversion Hok; subst.
  split; [|apply IHl; auto]. repeat split; try lia. auto.
Qed.

(* ------------------------------------------------------------------ *)
(* Nothing is invented or duplicated: the pre-order listing of the
   candidates in the forest is a subsequence of the sorted input       *)

Inductive subseq {A} : list A -> list A -> Prop :=
| subseq_nil : subseq [] []
| subseq_skip x l1 l2 : subseq l1 l2 -> subseq l1 (x :: l2)
| subseq_take x l1 l2 : subseq l1 l2 -> subseq (x :: l1) (x :: l2).

Lemma subseq_refl {A} (l : list A) : subseq l l.
Proof. induction l; [constructor|apply subseq_take; auto]. Qed.
Lemma subseq_nil_l {A} (l : list A) : subseq [] l.
Proof. induction l; [constructor|apply subseq_skip; auto]. Qed.
Lemma subseq_trans {A} (l1 l2 l3 : list A) : subseq l1 l2 -> subseq l2 l3 -> subseq l1 l3.
Proof.
  intros H12 H23. revert l1 H12. induction H23; intros l0 H12.
  - auto.
  - apply subseq_skip; auto.
  - inversion H12; subst; [apply subseq_skip|apply subseq_take]; auto.
Qed.
Lemma subseq_app {A} (a b c d : list A) : subseq a b -> subseq c d -> subseq (a ++ c) (b ++ d).
Proof. induction 1; cbn; intros; [auto|apply subseq_skip; auto|apply subseq_take; auto]. Qed.
Lemma subseq_In {A} (l1 l2 : list A) x : subseq l1 l2 -> In x l1 -> In x l2.
Proof. induction 1; cbn; intros; auto; tauto. Qed.
Lemma subseq_app_l {A} (a b : list A) : subseq a (a ++ b).
Proof. induction a; cbn; [apply subseq_nil_l|apply subseq_take; auto]. Qed.
Lemma subseq_app_r {A} (a b : list A) : subseq b (a ++ b).
Proof. induction a; cbn; [apply subseq_refl|apply subseq_skip; auto]. Qed.

(* pre-order listing in SOURCE order of a token whose children are kept
   reversed: the token, then its children first-appended first *)
Fixpoint pre (p : ptok) : list cand :=
  match p with
  | PT c rch => c :: (fix go (rl : list ptok) : list cand :=
                        match rl with [] => [] | t :: rest => go rest ++ pre t end) rch
  end.
Definition pre_list (rl : list ptok) : list cand :=
  (fix go (rl : list ptok) : list cand :=
     match rl with [] => [] | t :: rest => go rest ++ pre t end) rl.

Lemma pre_unfold c rch : pre (PT c rch) = c :: pre_list rch.
Proof. reflexivity. Qed.
Lemma pre_list_cons t rest : pre_list (t :: rest) = pre_list rest ++ pre t.
Proof. reflexivity. Qed.

Lemma append_child_pre p : forall y, subseq (pre (append_child p y)) (pre p ++ [y]).
Proof.
  induction p as [c rch IH] using ptok_ind'. intros y.
  cbn [append_child]. destruct (inner c); [|apply subseq_app_l].
  destruct rch as [|l rest]; [apply subseq_refl|].
  inversion IH as [|? ? IHl _]; subst.
  destruct (relation (pc l) y).
  - rewrite !pre_unfold, !pre_list_cons. cbn. apply subseq_take. rewrite <- app_assoc.
    apply subseq_refl.
  - destruct (prec (pc l) <? prec y); [|apply subseq_app_l].
    rewrite !pre_unfold, !pre_list_cons. cbn. apply subseq_take. rewrite <- app_assoc.
    apply subseq_app; [apply subseq_refl|]. apply subseq_app_r.
  - rewrite !pre_unfold, !pre_list_cons. cbn. apply subseq_take. rewrite <- app_assoc.
    apply subseq_app; [apply subseq_refl|]. apply IHl.
  - apply subseq_app_l.
Qed.

Lemma eval_tokens_pre prev rbuf y p b :
  eval_tokens prev y rbuf = (p, b) ->
  subseq (pre_list (p :: b)) (pre_list (prev :: rbuf) ++ [y]).
Proof.
  unfold eval_tokens. intros He. rewrite !pre_list_cons.
  destruct (relation (pc prev) y).
  - inversion He; subst. rewrite pre_list_cons. cbn. apply subseq_refl.
  - destruct (prec (pc prev) >=? prec y); inversion He; subst.
    + apply subseq_app_l.
    + cbn. rewrite <- app_assoc. apply subseq_app; [apply subseq_refl|apply subseq_app_r].
  - inversion He; subst. rewrite <- app_assoc.
    apply subseq_app; [apply subseq_refl|apply append_child_pre].
  - inversion He; subst. apply subseq_app_l.
Qed.

Lemma eval_loop_pre rest : forall prev rbuf p b,
  eval_loop prev rbuf rest = (p, b) ->
  subseq (pre_list (p :: b)) (pre_list (prev :: rbuf) ++ rest).
Proof.
  induction rest as [|y rest IH]; intros prev rbuf p b He; cbn in He.
  - inversion He; subst. rewrite app_nil_r. apply subseq_refl.
  - destruct (eval_tokens prev y rbuf) as [p1 b1] eqn:E1.
    apply IH in He. apply eval_tokens_pre in E1.
    eapply subseq_trans; [exact He|].
    change (y :: rest) with ([y] ++ rest). rewrite app_assoc.
    apply subseq_app; [exact E1|apply subseq_refl].
Qed.

Theorem buffer_rev_subseq sorted : subseq (pre_list (buffer_rev sorted)) sorted.
Proof.
  destruct sorted as [|c rest]; cbn [buffer_rev]; [constructor|].
  destruct (eval_loop (PT c []) [] rest) as [p b] eqn:E.
  apply eval_loop_pre in E. exact E.
Qed.

(* candidates of the output forest, pre-order *)
Fixpoint ocands (o : otok) : list cand :=
  match o with
  | ORaw _ _ => []
  | OTok c None => [c]
  | OTok c (Some ch) => c :: flat_map ocands ch
  end.

(* a parse_inner=False token never has children in the forest *)
Inductive no_inner_children : ptok -> Prop :=
| nic c rch : (inner c = false -> rch = []) -> Forall no_inner_children rch ->
              no_inner_children (PT c rch).

Lemma wfp_nic z t : wfp z t -> no_inner_children t.
Proof.
  revert z. induction t as [c rch IH] using ptok_ind'. intros z H.
  inversion H as [c' rch' Hc Hcz Hin Hch]; subst. constructor; auto.
  clear Hin H. revert Hch. generalize (ps c), (pe c).
  induction rch as [|t rest IHr]; intros lo hi Hch; constructor;
    inversion IH; subst; inversion Hch; subst; eauto.
Qed.

Lemma flat_map_rev_app {A B} (f : A -> list B) l1 l2 :
  flat_map f (l1 ++ l2) = flat_map f l1 ++ flat_map f l2.
Proof. apply flat_map_app. Qed.

Lemma ocands_make_aux rl :
  Forall (fun t => no_inner_children t -> ocands (make t) = pre t) rl ->
  Forall no_inner_children rl ->
  forall lo, flat_map ocands (rev (mk_rev make rl lo)) = pre_list rl.
Proof.
  induction 1 as [|t rest Ht Hrest IH]; intros Hn lo; [reflexivity|].
  inversion Hn; subst.
  cbn [mk_rev]. fold (mk_rev make). cbn [rev]. rewrite rev_app_distr.
  rewrite !flat_map_app, IH by auto. rewrite pre_list_cons.
  cbn [flat_map]. rewrite app_nil_r, Ht by auto.
  destruct (cs (pc t) >? _); cbn; rewrite ?app_nil_r; reflexivity.
Qed.

Lemma ocands_make t : no_inner_children t -> ocands (make t) = pre t.
Proof.
  induction t as [c rch IH] using ptok_ind'. intros Hn.
  inversion Hn as [c' rch' Hin Hch]; subst.
  cbn [make]. destruct (inner c) eqn:Ei.
  - cbn [ocands]. rewrite pre_unfold. f_equal.
    unfold make_tokens_with. rewrite rev_app_distr, flat_map_app.
    rewrite ocands_make_aux by auto.
    destruct (_ =? _); cbn; rewrite ?app_nil_r; reflexivity.
  - rewrite Hin by auto. reflexivity.
Qed.

Lemma ocands_make_tokens rl lo hi :
  Forall no_inner_children rl ->
  flat_map ocands (make_tokens rl lo hi) = pre_list rl.
Proof.
  intros Hn. unfold make_tokens, make_tokens_with. rewrite rev_app_distr, flat_map_app.
  rewrite ocands_make_aux; auto.
  - destruct (_ =? _); cbn; rewrite ?app_nil_r; reflexivity.
  - apply Forall_forall. intros t _. apply ocands_make.
Qed.

Lemma chain_nic z lo hi rl : chain z lo hi rl -> Forall no_inner_children rl.
Proof.
  revert hi. induction rl as [|t rest IH]; intros hi H; constructor; inversion H; subst.
  - eapply wfp_nic; eauto.
  - eauto.
Qed.

Theorem tokenize_subseq cands len :
  0 <= len -> Forall (wf_cand len) cands ->
  subseq (flat_map ocands (tokenize cands len)) (sort_cands cands).
Proof.
  intros Hlen Hwf. unfold tokenize.
  destruct (buffer_rev_chain len (sort_cands cands) Hlen (sort_cands_sorted cands)) as [z Hz].
  - eapply Forall_perm; [apply sort_cands_perm|exact Hwf].
  - rewrite ocands_make_tokens by (eapply chain_nic; eauto).
    apply buffer_rev_subseq.
Qed.

(* ------------------------------------------------------------------ *)
(* The rule for two candidates                                         *)

(* y lies wholly in x's trailing delimiter region *)
Definition trailing_region (x y : cand) : bool := (ce y <=? ce x) && (pe x <=? cs y).
Definition inside_group (x y : cand) : bool := (ps x <=? cs y) && (ce y <=? pe x).

Theorem pair_rule x y :
  wfc x -> wfc y -> cs x <= cs y ->
  buffer_rev (sort_cands [x; y]) =
    if ce x <=? cs y then [PT y []; PT x []]                       (* disjoint: both, in order *)
    else if inside_group x y then [PT x (if inner x then [PT y []] else [])]   (* nests (or is swallowed) *)
    else if trailing_region x y then [PT x []]                      (* y ignored WHATEVER its precedence *)
    else if prec y <=? prec x then [PT x []] else [PT y []].        (* precedence, tie -> earlier *)
Proof.
  intros (Hx1 & Hx2 & Hx3) (Hy1 & Hy2 & Hy3) Hxy.
  cbn [sort_cands fold_right insert_stable].
  destruct (Z.leb_spec (cs x) (cs y)); [|lia].
  cbn [buffer_rev eval_loop]. unfold eval_tokens, relation, inside_group, trailing_region.
  cbn [pc append_child].
  destruct (Z.leb_spec (ce x) (cs y)); [reflexivity|].
  destruct (Z.geb_spec (ce x) (ce y)); destruct (Z.leb_spec (ce y) (ce x)); try lia;
  destruct (Z.leb_spec (ps x) (cs y)); cbn [andb];
  destruct (Z.geb_spec (pe x) (ce y)); destruct (Z.leb_spec (ce y) (pe x)); try lia; cbn [andb];
  try (destruct (inner x); reflexivity);
  destruct (Z.leb_spec (pe x) (cs y)); try lia; cbn [andb]; try reflexivity;
  destruct (Z.geb_spec (prec x) (prec y)); destruct (Z.leb_spec (prec y) (prec x)); try lia; reflexivity.
Qed.

(* the property's wording: inside the parse group nests, OTHERWISE the
   higher precedence wins, ties to the earlier match *)
Definition stated_rule (x y : cand) : list ptok :=
  if ce x <=? cs y then [PT y []; PT x []]
  else if inside_group x y then [PT x (if inner x then [PT y []] else [])]
  else if prec y <=? prec x then [PT x []] else [PT y []].

(* the class on which code and wording differ *)
Definition kf_trailing_region (x y : cand) : bool :=
  negb (ce x <=? cs y) && negb (inside_group x y) && trailing_region x y && negb (prec y <=? prec x).

Theorem pair_rule_as_stated x y :
  wfc x -> wfc y -> cs x <= cs y -> kf_trailing_region x y = false ->
  buffer_rev (sort_cands [x; y]) = stated_rule x y.
Proof.
  intros Hx Hy Hxy Hk. rewrite pair_rule by auto. unfold stated_rule, kf_trailing_region in *.
  destruct (ce x <=? cs y); [reflexivity|].
  destruct (inside_group x y); [reflexivity|].
  destruct (trailing_region x y); [|reflexivity].
  destruct (prec y <=? prec x); [reflexivity|discriminate].
Qed.

Definition wit_x := mkCand 0 10 1 4 3 true 0.
Definition wit_y := mkCand 6 9 7 8 7 true 1.

Theorem trailing_region_refuted :
  exists x y, wfc x /\ wfc y /\ cs x <= cs y /\ kf_trailing_region x y = true /\
              buffer_rev (sort_cands [x; y]) <> stated_rule x y.
Proof.
  exists wit_x, wit_y. unfold wfc. cbn. repeat split; try lia. discriminate.
Qed.

(* non-vacuity: a non-trivial candidate set meets the hypotheses *)
Example tiling_example :
  let cands := [mkCand 2 9 3 8 5 true 0; mkCand 4 6 5 6 5 true 1; mkCand 5 12 6 11 4 false 2] in
  Forall (wf_cand 12) cands /\
  tokenize cands 12 =
    [ORaw 0 2; OTok (mkCand 2 9 3 8 5 true 0) (Some [ORaw 3 4; OTok (mkCand 4 6 5 6 5 true 1) (Some [ORaw 5 6]); ORaw 6 8]); ORaw 9 12].
Proof.
  cbn. split; [|reflexivity]. repeat constructor; cbn; lia.
Qed.
