(* C12: every tree the parser model produces is well-shaped. *)
From Coq Require Import ZArith List Bool Lia.
From Mistletoe Require Import Proofs.SpanTiling.
From Mistletoe Require Import Base.Sx Base.PyStr Base.PyText Gen.GenConfig Model.SpanTokenizer Model.Tree Model.CoreTokens
     Model.Inline Model.Block Model.Build Model.Parser Proofs.HeadingLevel.
Import ListNotations.
Local Open Scope Z_scope.

Definition is_inline (t : tok) : bool :=
  match t with
  | RawText _ | Strong _ _ | Emphasis _ _ | Strikethrough _ | InlineCode _ | Image _ _ | Link _ _ | AutoLink _ _ _
  | EscapeSequence _ | LineBreak _ _ | HtmlSpan _ | Math _ => true
  | _ => false
  end.
Definition is_item (t : tok) : bool := match t with ListItem _ _ => true | _ => false end.
Definition is_row (t : tok) : bool := match t with TableRow _ _ => true | _ => false end.
Definition is_cell (t : tok) : bool := match t with TableCell _ _ => true | _ => false end.
Definition is_blockish (t : tok) : bool :=
  match t with
  | Heading _ _ _ | SetextHeading _ _ _ | Quote _ | Paragraph _ | BlockCode _ | CodeFence _ | List _ _ _ | Table _ _ _
  | ThematicBreak _ | HtmlBlock _ | BlankLine | LinkRefDefBlock _ => true
  | _ => false
  end.
Definition single_raw (ch : list tok) : bool := match ch with [RawText _] => true | _ => false end.

(* a list's start agrees with its first item's marker: None for a bullet, the marker's number otherwise *)
Definition start_of_leader (leader : str) : option Z :=
  if slen leader =? 1 then None else Some (int_of_digits (removelast leader)).
Definition opt_z_eqb (a b : option Z) : bool :=
  match a, b with None, None => true | Some x, Some y => x =? y | _, _ => false end.
Lemma opt_z_eqb_refl a : opt_z_eqb a a = true.
Proof. destruct a; [apply Z.eqb_refl|reflexivity]. Qed.
Definition list_start_agrees (start : option Z) (ch : list tok) : bool :=
  match ch with ListItem a _ :: _ => opt_z_eqb start (start_of_leader (i_leader a)) | _ => true end.

(* containers hold only the kinds of children their documentation states; inline
   tokens never contain block tokens *)
Fixpoint wf_shape (t : tok) : bool :=
  let all := forallb wf_shape in
  match t with
  | Strong _ ch | Emphasis _ ch | Strikethrough ch | Image _ ch | Link _ ch
  | Paragraph ch | TableCell _ ch => forallb is_inline ch && all ch
  (* attribute ranges: an ATX heading has level 1-6, a setext heading level 1 or 2 *)
  | Heading l _ ch => (1 <=? l) && (l <=? 6) && forallb is_inline ch && all ch
  | SetextHeading l _ ch => (1 <=? l) && (l <=? 2) && forallb is_inline ch && all ch
  | AutoLink _ _ ch | EscapeSequence ch => single_raw ch
  | Quote ch | ListItem _ ch | Document ch => forallb is_blockish ch && all ch
  | List start _ ch => list_start_agrees start ch && forallb is_item ch && all ch
  | Table _ h ch => match h with Some h' => is_row h' && wf_shape h' | None => true end && forallb is_row ch && all ch
  | TableRow _ ch => forallb is_cell ch && all ch
  | LinkRefDefBlock ch => forallb (fun c => match c with LinkRefDef _ => true | _ => false end) ch
  | _ => true
  end.

Lemma forallb_rev_eq {A} (f : A -> bool) l : forallb f (rev l) = forallb f l.
Proof.
  induction l as [|x l IH]; [reflexivity|]. cbn. rewrite forallb_app, IH. cbn. rewrite andb_true_r. apply andb_comm.
Qed.

(* ---- inline ---- *)
Lemma build_leaf_ok c : is_inline (build_leaf c) = true /\ wf_shape (build_leaf c) = true.
Proof. destruct c as [k s0 s1|m]; [destruct k|]; cbn; auto. Qed.

Lemma build_inner_ok c ch : forallb is_inline ch = true -> forallb wf_shape ch = true ->
  is_inline (build_inner c ch) = true /\ wf_shape (build_inner c ch) = true.
Proof.
  intros H1 H2. destruct c as [k s0 s1|m].
  - destruct k; cbn; auto. rewrite H1, H2. auto.
  - cbn. destruct (str_eqb (m_type m) _); [cbn; rewrite H1, H2; auto|].
    destruct (str_eqb (m_type m) _); [cbn; rewrite H1, H2; auto|].
    destruct (str_eqb (m_type m) _); cbn; rewrite H1, H2; auto.
Qed.

Lemma build_otok_ok s srcs o : is_inline (build_otok s srcs o) = true /\ wf_shape (build_otok s srcs o) = true.
Proof.
  induction o as [a b|c|c l IH] using otok_ind'; cbn [build_otok].
  - cbn. auto.
  - apply build_leaf_ok.
  - apply build_inner_ok.
    + apply forallb_forall. intros x Hx. apply in_map_iff in Hx. destruct Hx as (y & <- & Hy).
      rewrite Forall_forall in IH. apply (IH y Hy).
    + apply forallb_forall. intros x Hx. apply in_map_iff in Hx. destruct Hx as (y & <- & Hy).
      rewrite Forall_forall in IH. apply (IH y Hy).
Qed.

Lemma inline_ok types fn content :
  forallb is_inline (inline types fn content) = true /\ forallb wf_shape (inline types fn content) = true.
Proof.
  unfold inline, tokenize_inner. split; apply forallb_forall; intros x Hx; apply in_map_iff in Hx;
    destruct Hx as (y & <- & _); apply build_otok_ok.
Qed.

(* ---- pre-tokens: a list holds items only ---- *)
Section PreInd.
  Variable P : pre -> Prop.
  Hypothesis Hleaf : forall p, (match p with PQuote _ _ | PList _ _ | PItem _ _ _ _ _ _ => False | _ => True end) -> P p.
  Hypothesis Hquote : forall ln es, Forall P es -> P (PQuote ln es).
  Hypothesis Hlist : forall ln es, Forall P es -> P (PList ln es).
  Hypothesis Hitem : forall ln es lo i p ld, Forall P es -> P (PItem ln es lo i p ld).
  Fixpoint pre_ind' (p : pre) : P p :=
    let all := (fix all (l : list pre) : Forall P l :=
                  match l with [] => Forall_nil _ | x :: xs => Forall_cons _ (pre_ind' x) (all xs) end) in
    match p with
    | PQuote ln es => Hquote ln es (all es)
    | PList ln es => Hlist ln es (all es)
    | PItem ln es lo i pp ld => Hitem ln es lo i pp ld (all es)
    | PBlockCode ln l => Hleaf (PBlockCode ln l) I
    | PHeading ln a b c => Hleaf (PHeading ln a b c) I
    | PCodeFence ln a b c d e => Hleaf (PCodeFence ln a b c d e) I
    | PThematic ln l => Hleaf (PThematic ln l) I
    | PTable ln l => Hleaf (PTable ln l) I
    | PFootnote ln d => Hleaf (PFootnote ln d) I
    | PParagraph ln l => Hleaf (PParagraph ln l) I
    | PSetext ln l => Hleaf (PSetext ln l) I
    | PHtmlBlock ln l => Hleaf (PHtmlBlock ln l) I
    | PBlankLine ln => Hleaf (PBlankLine ln) I
    end.
End PreInd.

Definition is_pitem (p : pre) : bool := match p with PItem _ _ _ _ _ _ => true | _ => false end.

(* entries of a buffer are never bare items; the members of a list are items *)
Fixpoint wf_pre (p : pre) : bool :=
  match p with
  | PQuote _ es => forallb (fun e => negb (is_pitem e) && wf_pre e) es
  | PList _ es => forallb (fun e => is_pitem e && wf_pre e) es
  | PItem _ es _ _ _ _ => forallb (fun e => negb (is_pitem e) && wf_pre e) es
  | PHeading _ lv _ _ => (1 <=? lv) && (lv <=? 6)
  | _ => true
  end.
Definition wf_entries (es : list pre) : bool := forallb (fun e => negb (is_pitem e) && wf_pre e) es.

Section Level.
  Variable types : list block_kind.
  Variable rec : list str -> Z -> pstate -> list pre * bool * pstate.
  Hypothesis rec_wf : forall l ln st, wf_entries (fst (fst (rec l ln st))) = true.

  Lemma read_item_wf after ln prev st : let '(it, _, _, _) := read_item types rec after ln prev st in is_pitem it && wf_pre it = true.
  Proof.
    unfold read_item. destruct after as [|line r]; [reflexivity|].
    destruct (match prev with Some m => Some m | None => parse_marker line end) as [[[[ind pre_] ld] ct]|]; [|reflexivity].
    destruct (is_blank ct).
    - destruct (count_blank r); [|reflexivity].
      destruct (item_loop types _ r _ [] 1 0) as [[buf taken] nm].
      pose proof (rec_wf buf (ln + 1) st) as H. destruct (rec buf (ln + 1) st) as [[es lo] st']. cbn in *. exact H.
    - destruct (item_loop types _ r _ [ct] 1 0) as [[buf taken] nm].
      pose proof (rec_wf buf ln st) as H. destruct (rec buf ln st) as [[es lo] st']. cbn in *. exact H.
  Qed.

  Lemma read_list_wf n : forall after ln leader nm items_rev consumed st,
    forallb (fun e => is_pitem e && wf_pre e) items_rev = true ->
    forallb (fun e => is_pitem e && wf_pre e) (fst (fst (read_list types rec n after ln leader nm items_rev consumed st))) = true.
  Proof.
    induction n as [|n IH]; intros after ln leader nm items_rev consumed st Hacc; cbn [read_list].
    - cbn [fst]. rewrite forallb_rev_eq. exact Hacc.
    - pose proof (read_item_wf after ln nm st) as Hi.
      destruct (read_item types rec after ln nm st) as [[[it taken] nm'] st'].
      destruct (negb _).
      + cbn [fst]. rewrite forallb_rev_eq. exact Hacc.
      + destruct nm'.
        * apply IH. cbn [forallb]. now rewrite Hi, Hacc.
        * cbn [fst]. rewrite forallb_rev_eq. cbn [forallb]. now rewrite Hi, Hacc.
  Qed.

  Lemma start_read_wf k after ln st p c st' :
    start_read types rec k after ln st = Some (p, c, st') -> negb (is_pitem p) && wf_pre p = true.
  Proof.
    unfold start_read. destruct after as [|line rest]; [discriminate|].
    destruct k; intros H;
      repeat match type of H with
             | (if ?b then _ else _) = _ => destruct b eqn:?; try discriminate
             | match ?x with _ => _ end = _ => destruct x eqn:?; try discriminate
             | (let '(_, _) := ?x in _) = _ => destruct x eqn:?
             end;
      try (inversion H; subst; reflexivity);
      try (inversion H; subst; match goal with |- context [if ?b then _ else _] => destruct b end; reflexivity).
    - (* Heading: the level is the length of the '#' group *)
      inversion H; subst. cbn [is_pitem negb andb wf_pre].
      match goal with E : heading_start _ = Some _ |- _ => apply heading_level in E; destruct E end.
      apply andb_true_iff. split; apply Z.leb_le; assumption.
    - (* Quote *)
      inversion H; subst. cbn.
      match goal with E : rec ?b ?l ?s = _ |- _ => pose proof (rec_wf b l s) as Hw; rewrite E in Hw end. exact Hw.
    - (* List *)
      inversion H; subst. cbn [is_pitem negb andb wf_pre].
      match goal with E : read_list _ _ ?n ?a ?l ?ld ?nm ?ir ?c ?s = _ |- _ =>
        pose proof (read_list_wf n a l ld nm ir c s eq_refl) as Hw; rewrite E in Hw; cbn [fst] in Hw end.
      match goal with |- forallb _ (match rev ?items with _ => _ end) = true => destruct (rev items) as [|lastp before] eqn:Er end; [exact Hw|].
      assert (Hr : forallb (fun e => is_pitem e && wf_pre e) (lastp :: before) = true).
      { rewrite <- Er. rewrite forallb_rev_eq. exact Hw. }
      destruct lastp; try exact Hw.
      rewrite forallb_app, forallb_rev_eq. cbn [forallb is_pitem wf_pre andb] in *.
      apply andb_true_iff in Hr. destruct Hr as [Hr1 Hr2]. now rewrite Hr1, Hr2.
  Qed.

  Lemma try_types_wf ts after ln st p c st' :
    try_types types rec ts after ln st = Some (p, c, st') -> negb (is_pitem p) && wf_pre p = true.
  Proof.
    induction ts as [|k ts IH]; cbn; [discriminate|].
    destruct (start_read types rec k after ln st) as [[[p0 c0] s0]|] eqn:E; [|exact IH].
    intros H. inversion H; subst. eapply start_read_wf; eauto.
  Qed.

  Lemma dispatch_loop_wf n : forall after ln acc loose st,
    wf_entries acc = true -> wf_entries (fst (fst (dispatch_loop types rec n after ln acc loose st))) = true.
  Proof.
    unfold wf_entries.
    induction n as [|n IH]; intros after ln acc loose st Hacc; cbn [dispatch_loop].
    - cbn [fst]. rewrite forallb_rev_eq. exact Hacc.
    - destruct after as [|line rest]; [cbn [fst]; rewrite forallb_rev_eq; exact Hacc|].
      destruct (try_types types rec types (line :: rest) ln st) as [[[p c] s1]|] eqn:Et.
      + pose proof (try_types_wf _ _ _ _ _ _ _ Et) as Hp.
        destruct c; [cbn [fst]; rewrite forallb_rev_eq; cbn [forallb]; now rewrite Hp, Hacc|].
        apply IH. cbn [forallb]. now rewrite Hp, Hacc.
      + apply IH. exact Hacc.
  Qed.
End Level.

Theorem tokenize_block_wf types fuel : forall lines ln st, wf_entries (fst (fst (tokenize_block types fuel lines ln st))) = true.
Proof.
  induction fuel as [|f IH]; intros lines ln st; cbn [tokenize_block]; [reflexivity|].
  apply dispatch_loop_wf; [exact IH|reflexivity].
Qed.

(* ---- the constructors ---- *)
Section BuildShape.
  Variable span_types : list span_kind.
  Variable keep : bool.
  Variable fn : footnotes.

  Lemma table_row_ok line ra : is_row (table_row span_types fn line ra) = true /\ wf_shape (table_row span_types fn line ra) = true.
  Proof.
    unfold table_row. split; [reflexivity|]. cbn [wf_shape]. apply andb_true_iff. split.
    - apply forallb_forall. intros x Hx. apply in_map_iff in Hx. destruct Hx as (y & <- & _). reflexivity.
    - apply forallb_forall. intros x Hx. apply in_map_iff in Hx. destruct Hx as (y & <- & _). cbn [wf_shape].
      destruct (inline_ok span_types fn (match fst y with Some cell => unescape_pipes (strip cell) | None => [] end)) as [H1 H2].
      now rewrite H1, H2.
  Qed.

  Lemma rows_ok (lines : list str) ra :
    forallb is_row (map (fun l => table_row span_types fn l ra) lines) = true /\
    forallb wf_shape (map (fun l => table_row span_types fn l ra) lines) = true.
  Proof.
    split; apply forallb_forall; intros x Hx; apply in_map_iff in Hx; destruct Hx as (y & <- & _); apply table_row_ok.
  Qed.

  Lemma build_table_ok lines : wf_shape (build_table span_types fn lines) = true.
  Proof.
    unfold build_table. destruct lines as [|l0 [|l1 rows]].
    - reflexivity.
    - cbn [wf_shape]. destruct (rows_ok [l0] []) as [H1 H2]. now rewrite H1, H2.
    - destruct (mem 45 l1).
      + cbn [wf_shape].
        set (ca := map parse_align (re_findall Gen.GenRegex.re_block_token_Table_column_align_pattern Gen.GenRegex.fl_block_token_Table_column_align_pattern l1)).
        destruct (table_row_ok l0 ca) as [H1 H2]. rewrite H1, H2.
        destruct (rows_ok rows ca) as [H3 H4]. now rewrite H3, H4.
      + cbn [wf_shape]. destruct (rows_ok (l0 :: l1 :: rows) []) as [H1 H2]. now rewrite H1, H2.
  Qed.

  Definition built_ok (p : pre) : Prop :=
    wf_pre p = true ->
    match build span_types keep fn p with
    | Some t => wf_shape t = true /\ (if is_pitem p then is_item t else is_blockish t) = true
    | None => is_pitem p = false
    end.

  Definition kids (es : list pre) : list tok :=
    flat_map (fun e => match build span_types keep fn e with Some t => [t] | None => [] end) es.

  Lemma kids_blockish es : Forall built_ok es -> forallb (fun e => negb (is_pitem e) && wf_pre e) es = true ->
    forallb is_blockish (kids es) = true /\ forallb wf_shape (kids es) = true.
  Proof.
    induction 1 as [|e es He Hes IH]; intros Hw; [split; reflexivity|].
    cbn [forallb] in Hw. apply andb_true_iff in Hw. destruct Hw as [Hw1 Hw2]. apply andb_true_iff in Hw1. destruct Hw1 as [Hn Hwe].
    apply negb_true_iff in Hn. specialize (IH Hw2). destruct IH as [I1 I2]. specialize (He Hwe).
    unfold kids in *. cbn [flat_map]. destruct (build span_types keep fn e) as [t|]; [|split; assumption].
    rewrite Hn in He. destruct He as [H1 H2]. cbn [app forallb]. rewrite H1, H2, I1, I2. split; reflexivity.
  Qed.

  Lemma kids_items es : Forall built_ok es -> forallb (fun e => is_pitem e && wf_pre e) es = true ->
    forallb is_item (kids es) = true /\ forallb wf_shape (kids es) = true.
  Proof.
    induction 1 as [|e es He Hes IH]; intros Hw; [split; reflexivity|].
    cbn [forallb] in Hw. apply andb_true_iff in Hw. destruct Hw as [Hw1 Hw2]. apply andb_true_iff in Hw1. destruct Hw1 as [Hn Hwe].
    specialize (IH Hw2). destruct IH as [I1 I2]. specialize (He Hwe).
    unfold kids in *. cbn [flat_map]. destruct (build span_types keep fn e) as [t|]; [|congruence].
    rewrite Hn in He. destruct He as [H1 H2]. cbn [app forallb]. rewrite H1, H2, I1, I2. split; reflexivity.
  Qed.

  (* a well-formed entry builds a well-shaped block token (or nothing); an item builds a ListItem *)
  Lemma build_ok p : built_ok p.
  Proof.
    induction p as [p Hleaf|ln es IH|ln es IH|ln es lo i pp ld IH] using pre_ind'; intros Hw.
    - destruct p; try contradiction; cbn [build is_pitem]; try (split; reflexivity).
      + (* heading *) destruct (inline_ok span_types fn content) as [H1 H2]. cbn [wf_shape is_blockish]. cbn [wf_pre] in Hw. rewrite Hw, H1, H2. auto.
      + (* table *) split; [apply build_table_ok|]. unfold build_table.
        destruct lines as [|a [|b r]]; try reflexivity. destruct (mem 45 b); reflexivity.
      + (* footnote *) destruct keep; [|reflexivity]. split; [|reflexivity]. cbn [wf_shape].
        apply forallb_forall. intros x Hx. apply in_map_iff in Hx. destruct Hx as ([[[[a b] c] d] e] & <- & _). reflexivity.
      + (* paragraph *) destruct (inline_ok span_types fn (strip (concat (map lstrip lines)))) as [H1 H2].
        cbn [wf_shape is_blockish]. rewrite H1, H2. auto.
      + (* setext *) destruct (inline_ok span_types fn (strip (concat (map lstrip (removelast lines))))) as [H1 H2].
        cbn [wf_shape is_blockish]. rewrite H1, H2. destruct (endswith [61] _); auto.
    - cbn [build is_pitem wf_pre] in *. destruct (kids_blockish es IH Hw) as [H1 H2]. unfold kids in *.
      split; [|reflexivity]. cbn [wf_shape]. now rewrite H1, H2.
    - cbn [build is_pitem wf_pre] in *. destruct (kids_items es IH Hw) as [H1 H2]. unfold kids in *.
      split; [|reflexivity]. cbn [wf_shape]. rewrite H1, H2.
      match goal with |- list_start_agrees _ ?k && _ && _ = true => destruct k as [|[] r] end; try reflexivity.
      unfold list_start_agrees, start_of_leader. rewrite opt_z_eqb_refl. reflexivity.
    - cbn [build is_pitem wf_pre] in *. destruct (kids_blockish es IH Hw) as [H1 H2]. unfold kids in *.
      split; [|reflexivity]. cbn [wf_shape]. now rewrite H1, H2.
  Qed.
End BuildShape.

Theorem parse_well_shaped cfg lines : wf_shape (fst (fst (parse_lines cfg lines))) = true.
Proof.
  unfold parse_lines, block_phase.
  pose proof (tokenize_block_wf (cfg_block cfg) (depth_fuel lines) lines 1 (mkPs true)) as Hw.
  destruct (tokenize_block (cfg_block cfg) (depth_fuel lines) lines 1 (mkPs true)) as [[es lo] st]. cbn [fst] in *.
  cbn [wf_shape]. unfold make_tokens.
  destruct (kids_blockish (cfg_span cfg) (cfg_keep_defs cfg) (footnotes_of es) es) as [H1 H2].
  - apply Forall_forall. intros e _. apply build_ok.
  - exact Hw.
  - unfold kids in *. now rewrite H1, H2.
Qed.
