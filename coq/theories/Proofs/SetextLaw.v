(* C03: setext headings.  A paragraph of plain lines (any number) followed by an underline of `=` or of `-` is one
   setext heading of level 1 or 2 holding the lines: Paragraph.read goes over the lines, sees that no other block
   interrupts at the underline, and Paragraph.setext_pattern - evaluated exactly: a greedy repetition of a GROUP - matches it. *)
From Coq Require Import ZArith List Bool Lia.
From Mistletoe Require Import Base.Sx Base.PyStr Base.PyText Gen.GenTables Gen.GenRegex Gen.GenConfig Re.ReMatch
     Model.SpanTokenizer Model.Tree Model.Unescape Model.CoreTokens Model.Inline Model.Block Model.Build Model.Parser Model.HtmlRenderer
     Proofs.ReFirst Proofs.ReNeeds Proofs.ReExact Proofs.Prose Proofs.PlainProse Proofs.ListLaw Proofs.ProseLines.
Import ListNotations.
Local Open Scope Z_scope.

Definition EQDASH : re := Set_ false [CLit 61; CLit 45].
Lemma setext_shape :
  re_block_token_Paragraph_setext_pattern =
  Seq (Rep true 0 (Some 3%nat) (Lit 32)) (Seq (Rep true 1 None (Grp 1 EQDASH)) (Seq (Rep true 0 None (Lit 32)) Eol)) /\
  fl_block_token_Paragraph_setext_pattern = mkFlags false false.
Proof. split; reflexivity. Qed.

Section Rx.
  Let fl := mkFlags false false.
  Variable c : Z.
  Hypothesis Hc : c = 61 \/ c = 45.

  Lemma eqdash_ok : char_ok fl EQDASH c = true.
  Proof. destruct Hc as [->| ->]; reflexivity. Qed.

  (* a greedy repetition of the group over a run of the underline character that ends at the newline *)
  Lemma group_run (k : mst -> option mst) : (forall s', aft s' = [10] -> exists v, k s' = Some v) ->
    forall n s cnt fuel, aft s = repeat c (S n) ++ [10] -> (S n < length fuel)%nat ->
    exists v, loop (m fl (Grp 1 EQDASH)) true 1 None k fuel cnt s = Some v.
  Proof.
    intros Hk. induction n as [|n IH]; intros s cnt fuel Ha Hf.
    - destruct fuel as [|x fuel]; [cbn [length] in Hf; lia|]. cbn [loop]. unfold under.
      rewrite m_grp. cbn [repeat app] in Ha. rewrite (m_char fl EQDASH s c [10] _ eq_refl Ha), eqdash_ok.
      set (s1 := set_grp 1 (pos s) (pos (advance s c [10])) (advance s c [10])).
      assert (Ep : (pos s1 =? pos s) = false) by (unfold s1; cbn [set_grp advance pos]; apply Z.eqb_neq; lia).
      rewrite Ep, andb_false_r.
      assert (A1 : aft s1 = [10]) by reflexivity.
      assert (L : exists v, loop (m fl (Grp 1 EQDASH)) true 1 None k fuel (S cnt) s1 = Some v).
      { destruct (Hk s1 A1) as [v Hv]. exists v. destruct fuel as [|y fuel']; cbn [loop].
        - cbn [Nat.ltb Nat.leb]. exact Hv.
        - unfold under. rewrite m_grp. rewrite (m_char fl EQDASH s1 10 [] _ eq_refl A1).
          replace (char_ok fl EQDASH 10) with false by reflexivity. cbn [Nat.ltb Nat.leb orelse]. exact Hv. }
      destruct L as [v Hv]. exists v. rewrite Hv. destruct (Nat.ltb cnt 1); reflexivity.
    - destruct fuel as [|x fuel]; [cbn [length] in Hf; lia|]. cbn [loop]. unfold under.
      rewrite m_grp. change (repeat c (S (S n)) ++ [10]) with (c :: (repeat c (S n) ++ [10])) in Ha.
      rewrite (m_char fl EQDASH s c (repeat c (S n) ++ [10]) _ eq_refl Ha), eqdash_ok.
      set (s1 := set_grp 1 (pos s) (pos (advance s c (repeat c (S n) ++ [10]))) (advance s c (repeat c (S n) ++ [10]))).
      assert (Ep : (pos s1 =? pos s) = false) by (unfold s1; cbn [set_grp advance pos]; apply Z.eqb_neq; lia).
      rewrite Ep, andb_false_r.
      destruct (IH s1 (S cnt) fuel eq_refl ltac:(cbn [length] in Hf; lia)) as [v Hv].
      exists v. rewrite Hv. destruct (Nat.ltb cnt 1); reflexivity.
  Qed.

  Theorem setext_underline_matches n :
    exists res, rmatch re_block_token_Paragraph_setext_pattern fl_block_token_Paragraph_setext_pattern (repeat c (S n) ++ [10]) = Some res.
  Proof.
    destruct setext_shape as [Sh Fl]. unfold rmatch, match_here, start_at. rewrite Sh, Fl.
    cbn [bef aft pos length Z.of_nat]. fold fl. set (line := repeat c (S n) ++ [10]). set (s0 := mkMst [] line 0 []).
    assert (C32 : (c =? 32) = false) by (destruct Hc as [->| ->]; reflexivity).
    rewrite m_seq.
    assert (K : exists v, m fl (Seq (Rep true 1 None (Grp 1 EQDASH)) (Seq (Rep true 0 None (Lit 32)) Eol)) s0 (fun s' => Some s') = Some v).
    { rewrite m_seq.
      match goal with |- exists v, m fl (Rep true 1 None (Grp 1 EQDASH)) s0 ?K = Some v =>
        change (exists v, loop (m fl (Grp 1 EQDASH)) true 1 None K (repeat 0 1 ++ 0 :: aft s0) 0%nat s0 = Some v) end.
      apply (fun H => group_run _ H n s0 0%nat (repeat 0 1 ++ 0 :: aft s0) eq_refl).
      - intros s' A. rewrite m_seq.
        assert (E : adv_run s' [] [10] = s') by (rewrite <- A; apply adv_run_nil).
        erewrite (m_greedy fl (Lit 32) 0 None s' _ _ [] [10]); [eexists; reflexivity|reflexivity|reflexivity|exact A|reflexivity|lia|discriminate|].
        rewrite E. rewrite m_eol. unfold at_eol. rewrite A. reflexivity.
      - cbn [aft s0 repeat app length]. unfold line. rewrite app_length, repeat_length. cbn [length]. lia. }
    destruct K as [v Hv]. exists v.
    assert (E0 : adv_run s0 [] line = s0) by (change line with (aft s0); apply adv_run_nil).
    erewrite (m_greedy fl (Lit 32) 0 (Some 3%nat) s0 _ _ [] line); [reflexivity|reflexivity| |reflexivity|reflexivity|lia|intros x Hx; cbn [length]; lia|].
    - unfold line. cbn [repeat app stops char_ok]. exact C32.
    - rewrite E0. exact Hv.
  Qed.
End Rx.

(* ---- the underline as a line of the paragraph ---- *)
Definition ul (c : Z) (n : nat) : str := repeat c (S n) ++ [10].

Lemma lstrip_by_keeps p l x : p x = false -> lstrip_by p (l ++ [x]) <> [].
Proof. intros H. induction l as [|y l IH]; cbn [app lstrip_by]; [rewrite H; discriminate|]. destruct (p y); [exact IH|discriminate]. Qed.

Lemma nonblank_head c t : is_space_c c = false -> is_blank (c :: t) = false.
Proof.
  intros H. unfold is_blank, strip, strip_by. cbn [lstrip_by]. rewrite H. unfold rstrip_by. cbn [rev].
  destruct (lstrip_by is_space_c (rev t ++ [c])) as [|y ys] eqn:E; [exfalso; exact (lstrip_by_keeps _ _ _ H E)|].
  destruct (rev (y :: ys)) eqn:Er; [|reflexivity]. apply (f_equal (@length Z)) in Er. rewrite rev_length in Er. discriminate.
Qed.

Lemma ul_not_blank c n : (c = 61 \/ c = 45) -> is_blank (ul c n) = false.
Proof. intros Hc. unfold ul. cbn [repeat app]. apply nonblank_head. destruct Hc as [->| ->]; vm_compute; reflexivity. Qed.

(* "--...-" and "**...*" are no list marker lines: ListItem.pattern evaluated on them *)
Lemma bullets_no_marker c n : c = 45 \/ c = 42 -> parse_marker (ul c (S n)) = None.
Proof.
  intros Hc. unfold parse_marker.
  assert (N : rmatch re_block_token_ListItem_pattern fl_block_token_ListItem_pattern (ul c (S n)) = None); [|rewrite N; reflexivity].
  unfold rmatch, match_here, start_at. cbn [bef aft pos length Z.of_nat].
  set (fl := fl_block_token_ListItem_pattern). set (line := ul c (S n)). set (s0 := mkMst [] line 0 []).
  change re_block_token_ListItem_pattern with
    (Seq (Grp 1 (Rep true 0 (Some 3%nat) (Lit 32)))
         (Seq (Grp 2 (Alt (Seq (Rep true 1 (Some 9%nat) (Set_ false [CCat CatDigit])) (Set_ false [CLit 46; CLit 41])) (Set_ false [CLit 43; CLit 45; CLit 42])))
              (Grp 3 (Alt Eol (Rep true 1 None (Set_ false [CCat CatSpace])))))).
  assert (C32 : char_ok fl (Lit 32) c = false) by (destruct Hc as [->| ->]; reflexivity).
  assert (C10 : (c =? 10) = false) by (destruct Hc as [->| ->]; reflexivity).
  rewrite m_seq, m_grp.
  apply (m_greedy_none fl (Lit 32) 0 (Some 3%nat) s0 _ [] line); [reflexivity| |reflexivity|reflexivity|].
  { unfold line, ul. cbn [repeat app stops]. exact C32. }
  intros j Hj. assert (j = 0%nat) by (cbn [length] in Hj; lia). subst j. cbn [firstn skipn app].
  assert (E0 : adv_run s0 [] line = s0) by (change line with (aft s0); apply adv_run_nil). rewrite E0.
  rewrite m_seq, m_grp.
  rewrite (m_alt_second fl _ _ (set_grp 1 (pos s0) (pos s0) s0) _ c (repeat c (S n) ++ [10])); [|destruct Hc as [->| ->]; vm_compute; reflexivity|reflexivity].
  rewrite (m_char fl (Set_ false [CLit 43; CLit 45; CLit 42]) (set_grp 1 (pos s0) (pos s0) s0) c (repeat c (S n) ++ [10]) _ eq_refl eq_refl).
  replace (char_ok fl (Set_ false [CLit 43; CLit 45; CLit 42]) c) with true by (destruct Hc as [->| ->]; reflexivity).
  set (s2 := set_grp 2 _ _ _). assert (A2 : aft s2 = c :: (repeat c n ++ [10])) by reflexivity.
  rewrite m_grp, m_alt, m_eol. rewrite (at_eol_not_nl fl s2 c _ A2 C10). cbn [orelse].
  apply (nomatch_sound fl _ c _ _ (repeat c n ++ [10])); [destruct Hc as [->| ->]; vm_compute; reflexivity|exact A2].
Qed.

Lemma dashes_no_marker n : parse_marker (ul 45 (S n)) = None.
Proof. apply bullets_no_marker. left. reflexivity. Qed.

Section ParaSetext.
  Variable types : list block_kind.

  Lemma ul_no_interrupt c n : (c = 61 \/ c = 45) -> any_interrupt types BK_ThematicBreak [ul c n] = false.
  Proof.
    intros [->| ->].
    - unfold ul. cbn [repeat app]. apply (plain_no_interrupt types 61 (repeat 61 n ++ [10]) []); [vm_compute; reflexivity|vm_compute; reflexivity|exact I].
    - unfold any_interrupt. apply not_true_iff_false. intros E. apply existsb_exists in E as (k' & _ & E).
      apply andb_true_iff in E as [E Ei]. apply andb_true_iff in E as [Eh Ek].
      assert (A : ul 45 n = 45 :: (repeat 45 n ++ [10])) by reflexivity.
      assert (N1 : nomatch fl_block_token_Heading_pattern re_block_token_Heading_pattern 45 = true) by (vm_compute; reflexivity).
      assert (N2 : nomatch fl_block_token_CodeFence_pattern re_block_token_CodeFence_pattern 45 = true) by (vm_compute; reflexivity).
      assert (N3 : nomatch fl_block_token_HtmlBlock_multiblock re_block_token_HtmlBlock_multiblock 45 = true) by (vm_compute; reflexivity).
      assert (N4 : nomatch fl_block_token_HtmlBlock_predefined re_block_token_HtmlBlock_predefined 45 = true) by (vm_compute; reflexivity).
      assert (N5 : nomatch fl_block_token_HtmlBlock_custom_tag re_block_token_HtmlBlock_custom_tag 45 = true) by (vm_compute; reflexivity).
      destruct k'; try discriminate; cbn [interrupts] in Ei.
      all: try (unfold heading_start in Ei; rewrite A, (rmatch_plain _ _ 45 _ N1) in Ei; discriminate).
      all: try (rewrite A in Ei; unfold quote_start in Ei; cbn [lstrip_set lstrip_by mem existsb Z.eqb Pos.eqb orb] in Ei; rewrite Z.sub_diag in Ei;
                cbn [Z.ltb Z.compare startswith Z.eqb Pos.eqb andb] in Ei; discriminate).
      all: try (unfold codefence_start in Ei; rewrite A, (rmatch_plain _ _ 45 _ N2) in Ei; discriminate).
      all: try (destruct n as [|n]; [vm_compute in Ei; discriminate|]; unfold list_interrupts in Ei; rewrite dashes_no_marker in Ei; discriminate).
      all: try (unfold table_read in Ei; cbn [take_while_pipe] in Ei;
                assert (mem 124 (ul 45 n) = false) as Hp by (unfold ul, mem; rewrite existsb_app; cbn [existsb]; rewrite orb_false_r; fold (mem 124 (repeat 45 (S n))); apply mem_repeat; lia);
                rewrite Hp in Ei; discriminate).
      all: try (unfold htmlblock_start in Ei; rewrite A in Ei; cbv zeta in Ei;
                assert (L : lstrip (45 :: repeat 45 n ++ [10]) = 45 :: repeat 45 n ++ [10]) by (apply lstrip_nonspace; vm_compute; reflexivity);
                rewrite L in Ei; rewrite Z.sub_diag in Ei; cbn [Z.leb Z.compare] in Ei;
                rewrite (rmatch_plain _ _ 45 _ N3) in Ei; cbn [startswith Z.eqb Pos.eqb andb] in Ei;
                rewrite (rmatch_plain _ _ 45 _ N4), (rmatch_plain _ _ 45 _ N5) in Ei; discriminate).
  Qed.
End ParaSetext.

Section ParaLoop.
  Variable types : list block_kind.

  (* Paragraph.read over the continuation lines, then the underline: a setext heading *)
  Lemma para_loop_setext c n : (c = 61 \/ c = 45) -> forall ls buf taken, Forall cont_line ls ->
    para_loop types true (map (fun l => l ++ [10]) ls ++ [ul c n]) buf taken =
    (rev buf ++ map (fun l => l ++ [10]) ls ++ [ul c n], (taken + length ls + 1)%nat, true).
  Proof.
    intros Hc. induction ls as [|l r IH]; intros buf taken H.
    - cbn [map app para_loop length]. rewrite (ul_not_blank c n Hc), (ul_no_interrupt types c n Hc).
      destruct (setext_underline_matches c Hc n) as [res Hres]. fold (ul c n) in Hres. rewrite Hres. cbn [andb rev]. rewrite Nat.add_0_r. replace (taken + 1)%nat with (S taken) by lia. reflexivity.
    - inversion H as [|? ? [PL Hcf] Hr]; subst. pose proof PL as (Hp & Hf & Hne & Hl). destruct (strip_line l PL) as [_ Hb].
      destruct l as [|c0 t]; [contradiction|]. cbn [hd] in Hf, Hcf. unfold cont_first in Hcf. repeat rewrite andb_true_iff in Hcf. destruct Hcf as [[_ Hsx] Hli].
      change (map (fun l => l ++ [10]) ((c0 :: t) :: r) ++ [ul c n]) with (((c0 :: t) ++ [10]) :: (map (fun l => l ++ [10]) r ++ [ul c n])).
      cbn [para_loop]. rewrite Hb.
      assert (Np : match map (fun l => l ++ [10]) r ++ [ul c n] with [] => True | l2 :: _ => mem 124 l2 = false end).
      { destruct r as [|l2 r']; cbn [map app].
        - unfold ul, mem. rewrite existsb_app. cbn [existsb]. rewrite orb_false_r. fold (mem 124 (repeat c (S n))). apply mem_repeat. destruct Hc as [->| ->]; lia.
        - inversion Hr as [|? ? [(Hp2 & _) _] _]; subst. unfold mem. rewrite existsb_app. fold (mem 124 l2). rewrite (plain_no 124 l2 eq_refl Hp2). reflexivity. }
      change ((c0 :: t) ++ [10]) with (c0 :: t ++ [10]).
      rewrite (plain_no_interrupt types c0 (t ++ [10]) _ Hf Hli Np).
      rewrite (rmatch_plain _ _ c0 (t ++ [10]) Hsx). cbn [andb].
      assert (Th : thematic_start (c0 :: t ++ [10]) = false).
      { pose proof (block_starts_need_marker [] (fun _ _ _ => ([], false, mkPs true)) BK_ThematicBreak c0 (t ++ [10]) [] 0 (mkPs true) Hf eq_refl) as N.
        cbn [start_read] in N. destruct (thematic_start (c0 :: t ++ [10])); [discriminate|reflexivity]. }
      rewrite Th. rewrite (IH _ _ Hr). cbn [rev length]. rewrite <- !app_assoc. cbn [app]. f_equal. f_equal. lia.
  Qed.
End ParaLoop.

Section BlocksSetext.
  Variable types : list block_kind.
  Variable rec : list str -> Z -> pstate -> list pre * bool * pstate.

  Lemma try_types_setext l rest ln st buf cnt : plain_line l ->
    para_loop types (ps_setext st) rest [l ++ [10]] 1%nat = (buf, cnt, true) ->
    forall ts, In BK_Paragraph ts ->
    try_types types rec ts ((l ++ [10]) :: rest) ln st = Some (PSetext ln buf, cnt, st).
  Proof.
    intros PL Hpl. pose proof PL as (Hp & Hf & Hne & Hl). destruct (strip_line l PL) as [_ Hbl].
    destruct l as [|c0 t]; [contradiction|]. cbn [hd] in Hf. cbn [app] in Hpl, Hbl |- *.
    induction ts as [|k ts IH]; intros Hin; [destruct Hin|].
    cbn [try_types].
    destruct (kind_eqb k BK_Paragraph) eqn:EP.
    - assert (k = BK_Paragraph) by (destruct k; try discriminate; reflexivity). subst k.
      cbn [start_read]. unfold paragraph_start. rewrite Hbl. cbn [negb].
      match goal with |- context [para_loop ?pa ?pb ?pc ?pd ?pe] => replace (para_loop pa pb pc pd pe) with (buf, cnt, true) by (symmetry; exact Hpl) end. reflexivity.
    - assert (N : start_read types rec k ((c0 :: t ++ [10]) :: rest) ln st = None).
      { destruct (non_paragraph_non_table k) eqn:EN.
        - apply block_starts_need_marker; assumption.
        - destruct k; try discriminate. cbn [start_read]. unfold table_start.
          change (c0 :: t ++ [10]) with ((c0 :: t) ++ [10]). unfold mem. rewrite existsb_app. fold (mem 124 (c0 :: t)). rewrite (plain_no 124 (c0 :: t) eq_refl Hp). reflexivity. }
      rewrite N. apply IH. destruct Hin as [->|Hin]; [destruct BK_Paragraph; discriminate|exact Hin].
  Qed.
End BlocksSetext.

(* the lines of the document: the text lines, then the underline *)
Definition setext_lines (l : str) (ls : list str) (c : Z) (n : nat) : list str := nl_lines (l :: ls) ++ [ul c n].

Lemma dispatch_one types f (first : str) (L : list str) ln st p :
  try_types types (tokenize_block types f) types (first :: L) ln st = Some (p, S (length L), st) ->
  tokenize_block types (S f) (first :: L) ln st = ([p], false, st).
Proof.
  intros H. cbn [tokenize_block length dispatch_loop]. rewrite H. cbn [skipn]. rewrite skipn_all. destruct (length L); reflexivity.
Qed.

Theorem setext_block types f l ls c n ln st : In BK_Paragraph types -> plain_line l -> Forall cont_line ls -> (c = 61 \/ c = 45) ->
  ps_setext st = true ->
  tokenize_block types (S f) (setext_lines l ls c n) ln st = ([PSetext ln (setext_lines l ls c n)], false, st).
Proof.
  intros Hpar PL Hcl Hc Hst. unfold setext_lines, nl_lines. cbn [map app].
  pose proof (para_loop_setext types c n Hc ls [l ++ [10]] 1 Hcl) as PLoop. cbn [rev app] in PLoop.
  apply dispatch_one.
  rewrite <- Hst in PLoop at 1.
  pose proof (try_types_setext types (tokenize_block types f) l _ ln st _ _ PL PLoop types Hpar) as TT.
  match goal with |- _ = Some (_, S (length ?X), _) =>
    assert (E : (1 + length ls + 1)%nat = S (length X)) by (rewrite app_length, map_length; cbn [length]; rewrite !Nat.add_1_r; reflexivity) end.
  rewrite E in TT. exact TT.
Qed.

(* ---- the heading token and its HTML ---- *)
Lemma rev_repeat {A} (x : A) n : rev (repeat x n) = repeat x n.
Proof. induction n as [|n IH]; [reflexivity|]. cbn [repeat rev]. rewrite IH. clear IH. induction n as [|n IH]; [reflexivity|]. cbn [repeat app]. f_equal. exact IH. Qed.

Lemma last_repeat {A} (x d : A) n : last (repeat x (S n)) d = x.
Proof. induction n as [|n IH]; [reflexivity|]. change (repeat x (S (S n))) with (x :: repeat x (S n)). cbn [last]. destruct (repeat x (S n)) eqn:E; [discriminate|]. exact IH. Qed.

Lemma rstrip_ul c n : (c = 61 \/ c = 45) -> rstrip (ul c n) = repeat c (S n).
Proof.
  intros Hc. unfold ul. apply rstrip_last; [discriminate|]. rewrite last_repeat. destruct Hc as [->| ->]; vm_compute; reflexivity.
Qed.

Definition setext_level (c : Z) : Z := if c =? 61 then 1 else 2.

Lemma level_of_ul c n : (c = 61 \/ c = 45) -> (if endswith [61] (repeat c (S n)) then 1 else 2) = setext_level c.
Proof. intros Hc. unfold endswith, setext_level. rewrite rev_repeat. cbn [rev app repeat startswith]. rewrite andb_true_r. rewrite Z.eqb_sym. reflexivity. Qed.

Theorem setext_heading_parses cfg l ls c n : plain_line l -> Forall cont_line ls -> (c = 61 \/ c = 45) -> prose_config cfg = true ->
  fst (fst (parse_lines cfg (setext_lines l ls c n))) = Document [SetextHeading (setext_level c) (repeat c (S n)) (prose_toks (l :: ls))].
Proof.
  intros PL Hcl Hc Hq. unfold prose_config in Hq. repeat rewrite andb_true_iff in Hq. destruct Hq as [[Hpar Hquiet] Hlb].
  apply in_dec_paragraph in Hpar.
  assert (Hlb' : filter (fun k => match k with SK_LineBreak => true | _ => false end) (removelast (cfg_span cfg)) = [SK_LineBreak]).
  { destruct (filter _ _) as [|[] [|? ?]]; try discriminate. reflexivity. }
  unfold parse_lines, block_phase, depth_fuel. rewrite (setext_block (cfg_block cfg) _ l ls c n 1 (mkPs true) Hpar PL Hcl Hc eq_refl).
  cbn [fst]. unfold Build.make_tokens. cbn [flat_map build app]. unfold setext_lines.
  rewrite last_last, removelast_last, (rstrip_ul c n Hc), (level_of_ul c n Hc), (strip_prose l ls PL Hcl). unfold inline.
  rewrite (tokenize_inner_prose (cfg_span cfg) _ Hquiet Hlb' (l :: ls)); [reflexivity|discriminate|].
  constructor; [apply line_ok_of_plain; exact PL|]. apply Forall_forall. intros x Hx. rewrite Forall_forall in Hcl. apply line_ok_of_plain. apply (Hcl x Hx).
Qed.

Theorem setext_heading_renders cfg o l ls c n : plain_line l -> Forall cont_line ls -> (c = 61 \/ c = 45) -> prose_config cfg = true ->
  render_html o (fst (fst (parse_lines cfg (setext_lines l ls c n)))) =
  $"<h" ++ str_of_Z (setext_level c) ++ $">" ++ join [10] (map (escape_html_text o) (l :: ls)) ++ $"</h" ++ str_of_Z (setext_level c) ++ $">" ++ [10].
Proof.
  intros PL Hcl Hc Hq. rewrite (setext_heading_parses cfg l ls c n PL Hcl Hc Hq).
  unfold render_html. cbn [render map join_items]. unfold wrap, heading_tag.
  set (T := $"h" ++ str_of_Z (setext_level c)).
  assert (E : serialize (IOpen T [] :: flat_map (render o false false) (prose_toks (l :: ls)) ++ [IClose T]) =
              $"<" ++ T ++ $">" ++ join [10] (map (escape_html_text o) (l :: ls)) ++ $"</" ++ T ++ $">").
  { unfold serialize. cbn [flat_map]. rewrite flat_map_app. fold (serialize (flat_map (render o false false) (prose_toks (l :: ls)))).
    rewrite render_prose_toks by discriminate. cbn [flat_map ser_item]. cbn. rewrite ?app_nil_r, <- ?app_assoc. reflexivity. }
  unfold T in *. destruct Hc as [->| ->]; cbn [setext_level Z.eqb Pos.eqb] in *.
  - match goal with |- serialize ?X = _ => change X with ((IOpen ($"h" ++ str_of_Z 1) [] :: flat_map (render o false false) (prose_toks (l :: ls)) ++ [IClose ($"h" ++ str_of_Z 1)]) ++ [nl]) end.
    rewrite serialize_app_items, E. cbn [serialize flat_map ser_item nl app]. rewrite <- !app_assoc. reflexivity.
  - match goal with |- serialize ?X = _ => change X with ((IOpen ($"h" ++ str_of_Z 2) [] :: flat_map (render o false false) (prose_toks (l :: ls)) ++ [IClose ($"h" ++ str_of_Z 2)]) ++ [nl]) end.
    rewrite serialize_app_items, E. cbn [serialize flat_map ser_item nl app]. rewrite <- !app_assoc. reflexivity.
Qed.

Example setext_instance :
  plain_line ($"A title, (really)") /\ cont_line ($"over two lines") /\
  setext_lines ($"A title") [$"two"] 45 2 = [$"A title" ++ [10]; $"two" ++ [10]; $"---" ++ [10]] /\
  str_of_Z (setext_level 61) = $"1" /\ str_of_Z (setext_level 45) = $"2".
Proof.
  unfold cont_line, plain_line. repeat split; try (vm_compute; congruence); vm_compute; reflexivity.
Qed.
