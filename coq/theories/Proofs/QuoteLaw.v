(* C04, block quotes: putting a quote marker before every line of ANY list of tab-free
   lines makes the block tokenizer return exactly one quote whose content is the
   tokenization of the lines (with setext headings off, as Quote.read does).
   Unbounded: every list of lines, every line length, every fuel, every token
   configuration in which Quote is tried before Paragraph.  The only facts about the
   regenerated patterns that are used are `nomatch pattern '>' = true`, evaluated by
   the kernel on Gen/GenRegex.v. *)
From Coq Require Import ZArith List Bool Lia.
From Mistletoe Require Import Base.Sx Base.PyStr Base.PyText Gen.GenTables Gen.GenRegex Gen.GenConfig Re.ReMatch
     Model.CoreTokens Model.Block Proofs.ReFirst.
Import ListNotations.
Local Open Scope Z_scope.

Definition GT : Z := 62.

(* the marker: "> " (sp = true) or ">" (sp = false) *)
Definition qline (sp : bool) (l : str) : str := if sp then GT :: 32 :: l else GT :: l.
Definition ok_line (sp : bool) (l : str) : Prop := mem 9 l = false /\ (sp = false -> char_at l 0 <> 32).
Definition gt_start (l : str) : Prop := exists t, l = GT :: t.

Lemma qline_gt sp l : gt_start (qline sp l).
Proof. destruct sp; eexists; reflexivity. Qed.

(* ---- side conditions on the regenerated tables and patterns ---- *)
Lemma gt_not_space : is_space_c GT = false. Proof. vm_compute. reflexivity. Qed.
Lemma nm_heading : nomatch fl_block_token_Heading_pattern re_block_token_Heading_pattern GT = true. Proof. vm_compute. reflexivity. Qed.
Lemma nm_fence : nomatch fl_block_token_CodeFence_pattern re_block_token_CodeFence_pattern GT = true. Proof. vm_compute. reflexivity. Qed.
Lemma nm_thematic : nomatch fl_block_token_ThematicBreak_pattern re_block_token_ThematicBreak_pattern GT = true. Proof. vm_compute. reflexivity. Qed.
Lemma nm_list : nomatch fl_block_token_List_pattern re_block_token_List_pattern GT = true. Proof. vm_compute. reflexivity. Qed.
Lemma nm_item : nomatch fl_block_token_ListItem_pattern re_block_token_ListItem_pattern GT = true. Proof. vm_compute. reflexivity. Qed.
Lemma nm_delim : nomatch fl_block_token_Table_delimiter_row_pattern re_block_token_Table_delimiter_row_pattern GT = true. Proof. vm_compute. reflexivity. Qed.
Lemma nm_multi : nomatch fl_block_token_HtmlBlock_multiblock re_block_token_HtmlBlock_multiblock GT = true. Proof. vm_compute. reflexivity. Qed.
Lemma nm_predef : nomatch fl_block_token_HtmlBlock_predefined re_block_token_HtmlBlock_predefined GT = true. Proof. vm_compute. reflexivity. Qed.
Lemma nm_custom : nomatch fl_block_token_HtmlBlock_custom_tag re_block_token_HtmlBlock_custom_tag GT = true. Proof. vm_compute. reflexivity. Qed.
Lemma nm_blank : nomatch fl_markdown_renderer_BlankLine_pattern re_markdown_renderer_BlankLine_pattern GT = true. Proof. vm_compute. reflexivity. Qed.

Lemma rmatch_gt r fl t : nomatch fl r GT = true -> rmatch r fl (GT :: t) = None.
Proof. intros H. unfold rmatch. apply match_here_none. exact H. Qed.

(* ---- string facts about a line that begins with '>' ---- *)
Lemma lstrip_gt t : lstrip (GT :: t) = GT :: t.
Proof. unfold lstrip. cbn [lstrip_by]. rewrite gt_not_space. reflexivity. Qed.

Lemma lstrip_by_app_last p x c : p c = false -> lstrip_by p (x ++ [c]) <> [].
Proof.
  intros H. induction x as [|y x IH]; cbn [app lstrip_by].
  - rewrite H. discriminate.
  - destruct (p y); [exact IH|discriminate].
Qed.

Lemma not_blank_gt t : is_blank (GT :: t) = false.
Proof.
  unfold is_blank, strip, strip_by, rstrip_by. fold (lstrip (GT :: t)). rewrite lstrip_gt.
  cbn [rev]. destruct (lstrip_by is_space_c (rev t ++ [GT])) eqn:E.
  - exfalso. revert E. apply lstrip_by_app_last. exact gt_not_space.
  - destruct (rev (z :: s)) eqn:E2; [|reflexivity].
    apply (f_equal (@length Z)) in E2. rewrite rev_length in E2. discriminate.
Qed.

Lemma startswith_absent b o s : mem b s = false -> startswith (b :: o) s = false.
Proof.
  destruct s as [|d s]; [reflexivity|]. cbn [mem existsb startswith]. intros H.
  apply orb_false_iff in H as [H _]. rewrite H. reflexivity.
Qed.

Lemma replace_first_notab a b o new s : mem b s = false -> replace_first (a :: b :: o) new s = s.
Proof.
  induction s as [|c s IH]; intros Hm; [reflexivity|].
  cbn [mem existsb] in Hm. apply orb_false_iff in Hm as [Hc Hs].
  cbn [replace_first]. change (startswith (a :: b :: o) (c :: s)) with ((a =? c) && startswith (b :: o) s).
  rewrite startswith_absent by exact Hs. rewrite andb_false_r. rewrite IH by exact Hs. reflexivity.
Qed.

Lemma convert_gt t : mem 9 t = false -> convert_leading_tabs (GT :: t) = GT :: t.
Proof.
  intros H. unfold convert_leading_tabs.
  rewrite replace_first_notab by (unfold mem in *; cbn [existsb]; rewrite H; reflexivity).
  cbn [leading_ws_count]. reflexivity.
Qed.

Lemma mem_qline sp l : mem 9 l = false -> mem 9 (tl (qline sp l)) = false.
Proof. destruct sp; cbn [qline tl mem existsb]; intros H; [|exact H]. exact H. Qed.

(* ---- no other block kind starts on, or interrupts at, a '>' line ---- *)
Lemma heading_gt t : heading_start (GT :: t) = None.
Proof. unfold heading_start. rewrite rmatch_gt by exact nm_heading. reflexivity. Qed.
Lemma fence_gt t : codefence_start (GT :: t) = None.
Proof. unfold codefence_start. rewrite rmatch_gt by exact nm_fence. reflexivity. Qed.
Lemma thematic_gt t : thematic_start (GT :: t) = false.
Proof. unfold thematic_start. rewrite rmatch_gt by exact nm_thematic. reflexivity. Qed.
Lemma list_gt t : list_start (GT :: t) = false.
Proof. unfold list_start. rewrite rmatch_gt by exact nm_list. reflexivity. Qed.
Lemma marker_gt t : parse_marker (GT :: t) = None.
Proof. unfold parse_marker. rewrite rmatch_gt by exact nm_item. reflexivity. Qed.
Lemma blankline_gt t : blankline_start (GT :: t) = false.
Proof. unfold blankline_start. rewrite rmatch_gt by exact nm_blank. reflexivity. Qed.
Lemma blockcode_gt t : blockcode_start (GT :: t) = false.
Proof. reflexivity. Qed.
Lemma footnote_gt t : footnote_start (GT :: t) = false.
Proof. unfold footnote_start. rewrite lstrip_gt. reflexivity. Qed.
Lemma htmlblock_gt t : htmlblock_start (GT :: t) = None.
Proof.
  unfold htmlblock_start. rewrite lstrip_gt. rewrite Z.sub_diag. cbn [Z.leb Z.compare].
  rewrite rmatch_gt by exact nm_multi.
  replace (startswith $"<!--" (GT :: t)) with false by reflexivity.
  replace (startswith $"<?" (GT :: t)) with false by reflexivity.
  replace (startswith $"<!" (GT :: t)) with false by reflexivity.
  replace (startswith $"<![CDATA[" (GT :: t)) with false by reflexivity.
  cbn [andb]. rewrite rmatch_gt by exact nm_predef. rewrite rmatch_gt by exact nm_custom. reflexivity.
Qed.

Lemma table_read_gt first rest : Forall gt_start rest -> table_read (first :: rest) = None.
Proof.
  intros H. unfold table_read. destruct rest as [|second rest']; [reflexivity|].
  cbn [take_while_pipe]. destruct (mem 124 second); [|reflexivity].
  inversion H as [|? ? [t ->] _]; subst.
  rewrite fullmatch_here_none by exact nm_delim. reflexivity.
Qed.

Lemma interrupts_gt k t rest : Forall gt_start rest -> kind_eqb k BK_Quote = false -> interrupts k ((GT :: t) :: rest) = false.
Proof.
  intros Hr Hk. destruct k; cbn [interrupts]; unfold list_interrupts;
    rewrite ?heading_gt, ?fence_gt, ?thematic_gt, ?htmlblock_gt, ?marker_gt, ?(table_read_gt _ _ Hr);
    first [reflexivity | discriminate].
Qed.

Lemma any_interrupt_gt types t rest : Forall gt_start rest -> any_interrupt types BK_Quote ((GT :: t) :: rest) = false.
Proof.
  intros Hr. unfold any_interrupt. induction types as [|k ts IH]; [reflexivity|].
  cbn [existsb]. rewrite IH. rewrite orb_false_r.
  destruct (kind_eqb k BK_Quote) eqn:E.
  - cbn [negb]. rewrite andb_false_r. reflexivity.
  - rewrite interrupts_gt by assumption. apply andb_false_r.
Qed.

(* ---- Quote.read on quoted lines ---- *)
Lemma char_at_0 a r : char_at (a :: r) 0 = a. Proof. reflexivity. Qed.
Lemma char_at_1 a b r : char_at (a :: b :: r) 1 = b. Proof. reflexivity. Qed.
Lemma char_at_1_short a : char_at [a] 1 = -1. Proof. reflexivity. Qed.

Lemma unquote sp l : ok_line sp l ->
  let stripped := convert_leading_tabs (lstrip (qline sp l)) in
  char_at stripped 0 = GT /\ drop (if char_at stripped 1 =? 32 then 2 else 1) stripped = l.
Proof.
  intros [Ht Hs]. cbv zeta. destruct (qline_gt sp l) as [t Eq]. rewrite Eq, lstrip_gt.
  rewrite convert_gt by (rewrite <- (mem_qline sp l Ht), Eq; reflexivity).
  rewrite <- Eq. split; [destruct sp; reflexivity|].
  destruct sp; cbn [qline].
  - rewrite char_at_1. reflexivity.
  - specialize (Hs eq_refl). destruct l as [|c l]; [reflexivity|].
    rewrite char_at_1. rewrite char_at_0 in Hs.
    destruct (c =? 32) eqn:E; [apply Z.eqb_eq in E; contradiction|]. reflexivity.
Qed.

Lemma not_blank_q sp l : is_blank (qline sp l) = false.
Proof. destruct (qline_gt sp l) as [t ->]. apply not_blank_gt. Qed.

Lemma all_gt sp ls : Forall gt_start (map (qline sp) ls).
Proof. apply Forall_forall. intros x Hx. apply in_map_iff in Hx as (y & <- & _). apply qline_gt. Qed.

Lemma any_interrupt_q types sp l ls : any_interrupt types BK_Quote (qline sp l :: map (qline sp) ls) = false.
Proof. destruct (qline_gt sp l) as [t ->]. apply any_interrupt_gt. apply all_gt. Qed.

Lemma quote_loop_quoted types sp : forall ls buf_rev taken f c b,
  Forall (ok_line sp) ls ->
  quote_loop types (map (qline sp) ls) buf_rev taken f c b = (rev buf_rev ++ ls, (taken + length ls)%nat).
Proof.
  induction ls as [|l ls IH]; intros buf_rev taken f c b H; cbn [map quote_loop length].
  - rewrite app_nil_r, Nat.add_0_r. reflexivity.
  - inversion H as [|? ? Hl Hls]; subst.
    rewrite not_blank_q, any_interrupt_q.
    destruct (unquote sp l Hl) as [E0 E1]. rewrite E0. change (GT =? 62) with true. cbv iota. rewrite E1.
    rewrite IH by exact Hls. cbn [rev]. rewrite <- app_assoc. cbn [app]. f_equal. lia.
Qed.

Lemma split_once_gt t : split_once GT (GT :: t) = ([], Some t).
Proof. reflexivity. Qed.

Lemma quote_lines_quoted types sp l ls :
  Forall (ok_line sp) (l :: ls) ->
  quote_lines types (map (qline sp) (l :: ls)) = (l :: ls, S (length ls)).
Proof.
  intros H. inversion H as [|? ? Hl Hls]; subst. cbn [map quote_lines].
  destruct (qline_gt sp l) as [t Eq]. rewrite Eq, lstrip_gt.
  rewrite convert_gt by (rewrite <- (mem_qline sp l (proj1 Hl)), Eq; reflexivity).
  rewrite split_once_gt. cbn [snd].
  match goal with |- context [quote_loop _ _ [?x] _ _ _ _] => assert (E : x = l) end.
  { destruct sp; cbn [qline] in Eq; injection Eq as <-; [reflexivity|].
    destruct Hl as [_ Hs]. specialize (Hs eq_refl). destruct l as [|c l]; [reflexivity|].
    rewrite char_at_0 in Hs. destruct (Z.eq_dec c 32) as [->|Hne]; [contradiction|].
    destruct c as [|p|p]; try reflexivity.
    do 6 (destruct p as [p|p|]; try reflexivity). contradiction Hne. reflexivity. }
  rewrite E. rewrite quote_loop_quoted by exact Hls. reflexivity.
Qed.

(* Quote is tried before Paragraph (and before a second Quote entry) *)
Fixpoint quote_first (ts : list block_kind) : bool :=
  match ts with
  | [] => false
  | BK_Quote :: _ => true
  | BK_Paragraph :: _ => false
  | _ :: r => quote_first r
  end.

Lemma quote_start_gt t : quote_start (GT :: t) = true.
Proof. unfold quote_start, lstrip_set. cbn [lstrip_by mem existsb GT Z.eqb Pos.eqb orb]. rewrite Z.sub_diag. reflexivity. Qed.

Section Law.
  Variable types : list block_kind.
  Variable rec : list str -> Z -> pstate -> list pre * bool * pstate.

  Lemma start_read_quote sp l ls ln st :
    Forall (ok_line sp) (l :: ls) ->
    start_read types rec BK_Quote (map (qline sp) (l :: ls)) ln st =
    Some (PQuote ln (fst (fst (rec (l :: ls) ln (mkPs false)))), S (length ls), mkPs true).
  Proof.
    intros H. unfold start_read. rewrite (quote_lines_quoted types sp l ls H).
    cbn [map]. destruct (qline_gt sp l) as [t Eq]. rewrite Eq, quote_start_gt.
    destruct (rec (l :: ls) ln (mkPs false)) as [[es lo] st2]. reflexivity.
  Qed.

  Lemma start_read_other k t rest ln st :
    Forall gt_start rest -> kind_eqb k BK_Quote = false -> kind_eqb k BK_Paragraph = false ->
    start_read types rec k ((GT :: t) :: rest) ln st = None.
  Proof.
    intros Hr Hq Hp. destruct k; cbn [start_read];
      rewrite ?heading_gt, ?fence_gt, ?thematic_gt, ?list_gt, ?htmlblock_gt, ?footnote_gt, ?blankline_gt, ?blockcode_gt, ?(table_read_gt _ _ Hr);
      try discriminate; try reflexivity.
    destruct (table_start (GT :: t)); reflexivity.
  Qed.

  Lemma try_types_quote sp l ls ln st : forall ts,
    quote_first ts = true -> Forall (ok_line sp) (l :: ls) ->
    try_types types rec ts (map (qline sp) (l :: ls)) ln st =
    Some (PQuote ln (fst (fst (rec (l :: ls) ln (mkPs false)))), S (length ls), mkPs true).
  Proof.
    induction ts as [|k ts IH]; intros Hq H; [discriminate|].
    cbn [try_types].
    destruct (kind_eqb k BK_Quote) eqn:EQ.
    - assert (k = BK_Quote) by (destruct k; try discriminate; reflexivity). subst k.
      rewrite start_read_quote by exact H. reflexivity.
    - destruct (kind_eqb k BK_Paragraph) eqn:EP.
      + destruct k; discriminate.
      + cbn [map]. destruct (qline_gt sp l) as [t Eq]. rewrite Eq.
        rewrite start_read_other; try assumption.
        * rewrite <- Eq. apply (IH (ltac:(destruct k; try discriminate; exact Hq)) H).
        * apply Forall_forall. intros x Hx. apply in_map_iff in Hx as (y & <- & _). apply qline_gt.
  Qed.

  Lemma dispatch_quoted sp ls n ln st :
    quote_first types = true -> ls <> [] -> Forall (ok_line sp) ls ->
    dispatch_loop types rec (S n) (map (qline sp) ls) ln [] false st =
    ([PQuote ln (fst (fst (rec ls ln (mkPs false))))], false, mkPs true).
  Proof.
    intros Hq Hne H. destruct ls as [|l ls]; [contradiction|].
    cbn [dispatch_loop]. change (qline sp l :: map (qline sp) ls) with (map (qline sp) (l :: ls)).
    rewrite (try_types_quote sp l ls ln st types Hq H).
    cbn [map skipn]. replace (skipn (length ls) (map (qline sp) ls)) with (@nil str)
      by (symmetry; apply skipn_all2; rewrite map_length; lia).
    destruct n; reflexivity.
  Qed.
End Law.

Theorem quote_wraps types sp ls f ln st :
  quote_first types = true -> ls <> [] -> Forall (ok_line sp) ls ->
  tokenize_block types (S f) (map (qline sp) ls) ln st =
  ([PQuote ln (fst (fst (tokenize_block types f ls ln (mkPs false))))], false, mkPs true).
Proof. intros Hq Hne H. cbn [tokenize_block]. apply dispatch_quoted; assumption. Qed.
