(* C06, soundness of process_emphasis for EVERY delimiter list: whatever the stack holds, each emphasis
   the loop emits pairs a run that can open with a run that can close, of the same character and not
   excluded by the rule of three (closed_by on the ORIGINAL runs), and its two ends lie inside those runs.
   An invariant of emph_loop: every delimiter on the stack is what is left of an original run (same
   character, original length and open / close flags; a sub-range of its positions). *)
From Coq Require Import ZArith List Bool Lia.
From Mistletoe Require Import Base.Sx Base.PyStr Base.PyText Gen.GenTables Re.ReMatch Gen.GenRegex Model.CoreTokens Proofs.PlainProse Proofs.InertProse.
Import ListNotations.
Local Open Scope Z_scope.

(* an emphasis delimiter: a run of one character, as long as its positions say *)
Definition good (ch : Z) (d : delim) : Prop :=
  d_type d = repeat ch (Z.to_nat (d_number d)) /\ 0 < d_number d /\ d_number d = d_end d - d_start d.

(* d is what is left of the original run d0 *)
Definition der (d0 d : delim) : Prop :=
  d_emph d0 = true /\ (exists ch, good ch d /\ good ch d0) /\ d_orig d = d_orig d0 /\ d_open d = d_open d0 /\ d_close d = d_close d0 /\
  d_start d0 <= d_start d /\ d_end d <= d_end d0.

Lemma type0_good ch d : good ch d -> type0 d = ch.
Proof. intros (Ht & Hn & _). unfold type0. rewrite Ht. destruct (Z.to_nat (d_number d)) eqn:E; [lia|reflexivity]. Qed.

Lemma der_refl ch d : d_emph d = true -> good ch d -> der d d.
Proof. intros He Hg. repeat split; try assumption; try lia. exists ch. split; assumption. Qed.

Lemma closed_by_der o0 o c0 c : der o0 o -> der c0 c -> closed_by o c = closed_by o0 c0.
Proof.
  intros (_ & (ch1 & G1 & G1') & Ho1 & Hop1 & Hcl1 & _) (_ & (ch2 & G2 & G2') & Ho2 & Hop2 & Hcl2 & _).
  unfold closed_by. rewrite (type0_good _ _ G1), (type0_good _ _ G1'), (type0_good _ _ G2), (type0_good _ _ G2'), Ho1, Ho2, Hop1, Hop2, Hcl1, Hcl2. reflexivity.
Qed.

Lemma skipn_repeat {A} (x : A) n k : skipn n (repeat x k) = repeat x (k - n).
Proof. revert k. induction n as [|n IH]; intros k; [rewrite Nat.sub_0_r; reflexivity|]. destruct k as [|k]; [reflexivity|]. cbn [repeat skipn Nat.sub]. apply IH. Qed.
Lemma firstn_repeat {A} (x : A) n k : firstn n (repeat x k) = repeat x (Nat.min n k).
Proof. revert k. induction n as [|n IH]; intros k; [reflexivity|]. destruct k as [|k]; [reflexivity|]. cbn [repeat firstn Nat.min]. f_equal. apply IH. Qed.

(* Delimiter.remove keeps the run a run *)
Lemma d_remove_der d0 d n left d' : der d0 d -> (n = 1 \/ n = 2) -> n <= d_number d -> d_remove d n left = Some d' -> der d0 d'.
Proof.
  intros (He & (ch & (Ht & Hn & Hnum) & G0) & Ho & Hop & Hcl & Hs & Hen) Hn12 Hle H. unfold d_remove in H.
  destruct (d_number d - n =? 0) eqn:E0; [discriminate|]. apply Z.eqb_neq in E0.
  destruct left; injection H as <-; unfold der; cbn [d_emph d_open d_close d_orig d_start d_end d_number d_type].
  - split; [exact He|]. split; [|split; [exact Ho|split; [exact Hop|split; [exact Hcl|split; cbn [d_start d_end]; lia]]]].
    exists ch. split; [|exact G0]. unfold good. cbn [d_type d_number d_start d_end]. split; [|split; lia].
    unfold drop. rewrite Ht, skipn_repeat. f_equal. lia.
  - split; [exact He|]. split; [|split; [exact Ho|split; [exact Hop|split; [exact Hcl|split; cbn [d_start d_end]; lia]]]].
    exists ch. split; [|exact G0]. unfold good. cbn [d_type d_number d_start d_end]. split; [|split; lia].
    unfold take. rewrite Ht, firstn_repeat. f_equal. lia.
Qed.

Section Sound.
  Variable s : str.
  Variable ds0 : list delim.

  (* every emphasis delimiter on the stack derives from an original run *)
  Definition stack_ok (ds : list delim) : Prop := Forall (fun d => d_emph d = true -> exists d0, In d0 ds0 /\ der d0 d) ds.

  (* what a match is: it lies inside an original opener and an original closer that may be paired *)
  Definition match_ok (m : mobj) : Prop :=
    exists o0 c0, In o0 ds0 /\ In c0 ds0 /\ d_emph o0 = true /\ d_open o0 = true /\ d_emph c0 = true /\ d_close c0 = true /\
                  type0 o0 = type0 c0 /\ closed_by o0 c0 = true /\
                  d_start o0 <= m_start m /\ m_start m < d_end o0 /\ d_start c0 < m_end m /\ m_end m <= d_end c0.

  Lemma nthd_in ds i : d_emph (nthd ds i dummy) = true -> In (nthd ds i dummy) ds.
  Proof.
    unfold nthd. intros H. destruct (Nat.lt_ge_cases (Z.to_nat i) (length ds)) as [L|G]; [apply nth_In; exact L|].
    rewrite nth_overflow in H by exact G. discriminate.
  Qed.

  Lemma stack_ok_nthd ds i : stack_ok ds -> d_emph (nthd ds i dummy) = true -> exists d0, In d0 ds0 /\ der d0 (nthd ds i dummy).
  Proof. intros Hs He. unfold stack_ok in Hs. rewrite Forall_forall in Hs. apply (Hs _ (nthd_in ds i He) He). Qed.

  Lemma Forall_firstn' {A} (P : A -> Prop) n l : Forall P l -> Forall P (firstn n l).
  Proof. revert l. induction n as [|n IH]; intros l H; [constructor|]. destruct l as [|x l]; [constructor|]. inversion H; subst. cbn [firstn]. constructor; [assumption|apply IH; assumption]. Qed.
  Lemma Forall_skipn' {A} (P : A -> Prop) n l : Forall P l -> Forall P (skipn n l).
  Proof. revert l. induction n as [|n IH]; intros l H; [exact H|]. destruct l as [|x l]; [constructor|]. inversion H; subst. cbn [skipn]. apply IH. assumption. Qed.

  Lemma stack_ok_remove ds i : stack_ok ds -> stack_ok (remove_at ds i).
  Proof. intros H. unfold stack_ok, remove_at. apply Forall_app. split; [apply Forall_firstn'|apply Forall_skipn']; exact H. Qed.
  Lemma stack_ok_set ds i d : stack_ok ds -> (d_emph d = true -> exists d0, In d0 ds0 /\ der d0 d) -> stack_ok (set_at ds i d).
  Proof. intros H Hd. unfold stack_ok, set_at. apply Forall_app. split; [apply Forall_firstn'; exact H|]. constructor; [exact Hd|apply Forall_skipn'; exact H]. Qed.
  Lemma stack_ok_cut ds a b : stack_ok ds -> stack_ok (firstn a ds ++ skipn b ds).
  Proof. intros H. unfold stack_ok. apply Forall_app. split; [apply Forall_firstn'|apply Forall_skipn']; exact H. Qed.

  (* next_closer returns the index of a delimiter that can close *)
  Lemma next_closer_from_spec : forall l i q, next_closer_from l i = Some q ->
    exists j, q = i + Z.of_nat j /\ d_emph (nth j l dummy) = true /\ d_close (nth j l dummy) = true.
  Proof.
    induction l as [|d l IH]; intros i q H; [discriminate|]. cbn [next_closer_from] in H.
    destruct (d_emph d && d_close d) eqn:E.
    - injection H as <-. apply andb_true_iff in E as [E1 E2]. exists 0%nat. cbn [nth]. repeat split; [lia|assumption|assumption].
    - destruct (IH (i + 1) q H) as (j & -> & H1 & H2). exists (S j). cbn [nth]. repeat split; [lia|assumption|assumption].
  Qed.

  Lemma nth_skipn' {A} (d : A) : forall a l j, nth j (skipn a l) d = nth (a + j) l d.
  Proof. induction a as [|a IH]; intros l j; [reflexivity|]. destruct l as [|x l]; [destruct j; reflexivity|]. cbn [skipn Nat.add nth]. apply IH. Qed.

  Lemma next_closer_spec from ds q : 0 <= from -> next_closer from ds = Some q ->
    from <= q /\ d_emph (nthd ds q dummy) = true /\ d_close (nthd ds q dummy) = true.
  Proof.
    intros Hf H. unfold next_closer in H. destruct (next_closer_from_spec _ _ _ H) as (j & -> & H1 & H2).
    rewrite nth_skipn' in H1, H2. unfold nthd.
    replace (Z.to_nat (from + Z.of_nat j)) with (Z.to_nat from + j)%nat by lia. split; [lia|]. split; assumption.
  Qed.

  (* matching_opener returns the index of a delimiter that can open and that the closer closes *)
  Lemma matching_opener_spec ds closer bottom : forall n index q, matching_opener_down ds closer bottom n index = Some q ->
    index - Z.of_nat n < q /\ q <= index /\
    d_emph (nthd ds q dummy) = true /\ d_open (nthd ds q dummy) = true /\ closed_by (nthd ds q dummy) closer = true.
  Proof.
    induction n as [|n IH]; intros index q H; [discriminate|]. cbn [matching_opener_down] in H.
    destruct (d_start (nthd ds index dummy) <? bottom); [discriminate|].
    destruct (d_emph (nthd ds index dummy) && d_open (nthd ds index dummy) && closed_by (nthd ds index dummy) closer) eqn:E.
    - injection H as <-. apply andb_true_iff in E as [E E3]. apply andb_true_iff in E as [E1 E2]. repeat split; try assumption; lia.
    - destruct (IH _ _ H) as (A & B & C). repeat split; try apply C; lia.
  Qed.

  Lemma closed_by_same_type o c : closed_by o c = true -> type0 o = type0 c.
  Proof. unfold closed_by. destruct (type0 o =? type0 c) eqn:E; [intros _; apply Z.eqb_eq; exact E|discriminate]. Qed.

  Definition curr_ok (ds : list delim) (curr : option Z) : Prop :=
    forall p, curr = Some p -> 0 <= p /\ d_emph (nthd ds p dummy) = true /\ d_close (nthd ds p dummy) = true.

  Lemma next_closer_ok from ds : 0 <= from -> curr_ok ds (next_closer from ds).
  Proof. intros Hf p Hp. destruct (next_closer_spec from ds p Hf Hp) as (A & B & C). repeat split; [lia|assumption|assumption]. Qed.

  Theorem emph_loop_sound : forall fuel lowest ob curr ds ms, -1 <= lowest ->
    stack_ok ds -> Forall match_ok ms -> curr_ok ds curr ->
    stack_ok (fst (emph_loop fuel s lowest ob curr ds ms)) /\ Forall match_ok (snd (emph_loop fuel s lowest ob curr ds ms)).
  Proof.
    induction fuel as [|fuel IH]; intros lowest ob curr ds ms Hlow Hs Hm Hc; [split; assumption|].
    cbn [emph_loop]. destruct curr as [curr_pos|]; [|split; assumption].
    destruct (Hc curr_pos eq_refl) as (Hp0 & Hce & Hcc).
    set (closer := nthd ds curr_pos dummy) in *.
    destruct (stack_ok_nthd ds curr_pos Hs Hce) as (c0 & Hc0in & Dc). fold closer in Dc.
    destruct (matching_opener curr_pos ds lowest _) as [open_pos|] eqn:EM.
    - unfold matching_opener in EM. fold closer in EM. apply matching_opener_spec in EM. destruct EM as (Hlo & Hhi & Hoe & Hoo & Hcb).
      assert (Hop0 : 0 <= open_pos) by lia.
      set (opener := nthd ds open_pos dummy) in *.
      destruct (stack_ok_nthd ds open_pos Hs Hoe) as (o0 & Ho0in & Do). fold opener in Do.
      set (n := if (2 <=? d_number closer) && (2 <=? d_number opener) then 2 else 1).
      pose proof Do as (Heo0 & (cho & (Hto & Hno & Hnumo) & Go0) & Hoo0 & Hopo & Hclo & Hso & Heno).
      pose proof Dc as (Hec0 & (chc & (Htc & Hnc & Hnumc) & Gc0) & Hoc0 & Hopc & Hclc & Hsc & Henc).
      assert (Hn12 : n = 1 \/ n = 2) by (unfold n; destruct (_ && _); [right|left]; reflexivity).
      assert (Hno' : n <= d_number opener /\ n <= d_number closer).
      { unfold n. destruct ((2 <=? d_number closer) && (2 <=? d_number opener)) eqn:E2; [|lia].
        apply andb_true_iff in E2 as [A B]. apply Z.leb_le in A. apply Z.leb_le in B. lia. }
      destruct Hno' as [Hnleo Hnlec].
      (* the new match *)
      assert (Hmt : match_ok (mkMobj (d_end opener - n) (d_start closer + n)
                                     [(d_end opener - n + n, d_start closer + n - n, substr s (d_end opener - n + n) (d_start closer + n - n))]
                                     (if n =? 2 then $"Strong" else $"Emphasis") [char_at s (d_end opener - n)] [] None [])).
      { exists o0, c0. cbn [m_start m_end]. split; [exact Ho0in|]. split; [exact Hc0in|]. split; [exact Heo0|]. split; [rewrite <- Hopo; exact Hoo|].
        split; [exact Hec0|]. split; [rewrite <- Hclc; exact Hcc|].
        split.
        { rewrite (type0_good _ _ Go0), (type0_good _ _ Gc0).
          rewrite <- (type0_good cho opener (conj Hto (conj Hno Hnumo))), <- (type0_good chc closer (conj Htc (conj Hnc Hnumc))).
          apply closed_by_same_type. exact Hcb. }
        split; [rewrite <- (closed_by_der o0 opener c0 closer Do Dc); exact Hcb|]. lia. }
      assert (Hm' : Forall match_ok (ms ++ [mkMobj (d_end opener - n) (d_start closer + n)
                                     [(d_end opener - n + n, d_start closer + n - n, substr s (d_end opener - n + n) (d_start closer + n - n))]
                                     (if n =? 2 then $"Strong" else $"Emphasis") [char_at s (d_end opener - n)] [] None []])).
      { apply Forall_app. split; [exact Hm|constructor; [exact Hmt|constructor]]. }
      set (ds1 := firstn (Z.to_nat (open_pos + 1)) ds ++ skipn (Z.to_nat curr_pos) ds).
      assert (Hs1 : stack_ok ds1) by (apply stack_ok_cut; exact Hs).
      fold n. fold ds1.
      destruct (d_remove opener n false) as [o'|] eqn:Ero; destruct (d_remove closer n true) as [c'|] eqn:Erc.
      + apply IH; [exact Hlow| |exact Hm'|apply next_closer_ok; lia].
        apply stack_ok_set; [apply stack_ok_set; [exact Hs1|]|].
        * intros _. exists o0. split; [exact Ho0in|apply (d_remove_der o0 opener n false o' Do Hn12 Hnleo Ero)].
        * intros _. exists c0. split; [exact Hc0in|apply (d_remove_der c0 closer n true c' Dc Hn12 Hnlec Erc)].
      + apply IH; [exact Hlow| |exact Hm'|apply next_closer_ok; lia].
        apply stack_ok_remove. apply stack_ok_set; [exact Hs1|].
        intros _. exists o0. split; [exact Ho0in|apply (d_remove_der o0 opener n false o' Do Hn12 Hnleo Ero)].
      + apply IH; [exact Hlow| |exact Hm'|apply next_closer_ok; lia].
        apply stack_ok_set; [apply stack_ok_remove; exact Hs1|].
        intros _. exists c0. split; [exact Hc0in|apply (d_remove_der c0 closer n true c' Dc Hn12 Hnlec Erc)].
      + apply IH; [exact Hlow| |exact Hm'|apply next_closer_ok; lia].
        apply stack_ok_remove. apply stack_ok_remove. exact Hs1.
    - destruct (negb (d_open closer)).
      + apply IH; [exact Hlow|apply stack_ok_remove; exact Hs|exact Hm|apply next_closer_ok; lia].
      + apply IH; [exact Hlow|exact Hs|exact Hm|apply next_closer_ok; lia].
  Qed.
End Sound.

(* ================= on a text: the delimiters the scanner builds are the maximal runs ================= *)
Lemma skipn_S_tail {A} : forall n (l : list A) x r, skipn n l = x :: r -> skipn (S n) l = r.
Proof. induction n as [|n IH]; intros l x r H; [cbn [skipn] in H; subst l; reflexivity|]. destruct l as [|y l]; [discriminate|]. cbn [skipn] in H |- *. apply (IH l x r H). Qed.

Lemma substr_run s a b : run_at s a b -> substr s a b = repeat (char_at s a) (Z.to_nat (b - a)).
Proof.
  intros (H0 & Hab & Hb & _ & Hall & _). unfold substr.
  assert (G : forall k a', 0 <= a' -> a' + Z.of_nat k <= slen s -> (forall j, a' <= j < a' + Z.of_nat k -> char_at s j = char_at s a) ->
              firstn k (skipn (Z.to_nat a') s) = repeat (char_at s a) k).
  { induction k as [|k IH]; intros a' Ha' Hle Hc; [reflexivity|].
    assert (Hlt : (Z.to_nat a' < length s)%nat) by (unfold slen in Hle; lia).
    destruct (skipn (Z.to_nat a') s) as [|x r] eqn:E.
    - apply (f_equal (@length Z)) in E. rewrite skipn_length in E. cbn [length] in E. lia.
    - cbn [firstn repeat]. f_equal.
      + assert (Ex : nth 0 (skipn (Z.to_nat a') s) (-1) = x) by (rewrite E; reflexivity).
        rewrite nth_skipn' in Ex. rewrite Nat.add_0_r in Ex. rewrite <- Ex.
        specialize (Hc a' ltac:(lia)). unfold char_at in Hc. destruct (a' <? 0) eqn:En; [apply Z.ltb_lt in En; lia|]. exact Hc.
      + specialize (IH (a' + 1) ltac:(lia) ltac:(lia)). replace (Z.to_nat (a' + 1)) with (S (Z.to_nat a')) in IH by lia.
        assert (Er : skipn (S (Z.to_nat a')) s = r) by (apply (skipn_S_tail _ _ x); exact E).
        rewrite Er in IH. apply IH. intros j Hj. apply Hc. lia. }
  replace (Z.to_nat (b - a)) with (Z.to_nat (b - a)) by reflexivity.
  apply (G (Z.to_nat (b - a)) a H0); [lia|]. intros j Hj. apply Hall. lia.
Qed.

Section Text.
  Variable s : str.
  Hypothesis Hbs : mem 92 s = false.
  Hypothesis Hbt : mem 96 s = false.
  Hypothesis Hlp : forall i, 0 <= i < slen s -> char_at s i = 93 -> follows s i 40 = false.

  (* an emphasis delimiter on the scanner's stack is the delimiter of a maximal run of the text *)
  Definition is_run (d : delim) : Prop := d_emph d = true -> exists a b, run_at s a b /\ d = new_delim a b s.

  Lemma not_emph_head a b : 0 <= a -> a < b -> a < slen s -> char_at s a <> 42 -> char_at s a <> 95 -> is_run (new_delim a b s).
  Proof.
    intros Ha Hab Hs H1 H2 He. exfalso. destruct (substr_head s a b Ha Hab Hs) as [t Ht]. unfold new_delim in He. cbn [d_emph] in He. rewrite Ht in He.
    apply Z.eqb_neq in H1. apply Z.eqb_neq in H2. rewrite H1, H2 in He. discriminate.
  Qed.

  Lemma fli_down_run off : follows s off 40 = false -> forall n i ds, Forall is_run ds ->
    exists ds2, find_li_down n i s off ds [] [] = (off, ds2, []) /\ Forall is_run ds2.
  Proof.
    intros H. induction n as [|n IH]; intros i ds Hd; [exists ds; split; [reflexivity|exact Hd]|].
    cbn [find_li_down]. destruct (is_bracket (nthd ds i dummy)).
    - assert (R : Forall is_run (remove_at ds i)) by (unfold remove_at; apply Forall_app; split; [apply Forall_firstn'|apply Forall_skipn']; exact Hd).
      destruct (negb (d_active (nthd ds i dummy))).
      + eexists; split; [reflexivity|exact R].
      + rewrite (mli_none s off _ H). eexists; split; [reflexivity|exact R].
    - apply IH. exact Hd.
  Qed.

  Definition InvR (i : Z) (st : scan) : Prop :=
    0 <= i /\ i <= slen s /\ sc_ms st = [] /\ sc_code st = [] /\ sc_escaped st = false /\ Forall is_run (sc_ds st) /\
    RunInv s i (sc_run st) (sc_start st) /\
    (sc_in_image st = true -> 0 < i /\ char_at s (i - 1) <> 42 /\ char_at s (i - 1) <> 95).

  Lemma run_is_run i rc start : 0 <= i -> i <= slen s -> RunInv s i (Some rc) start -> (i = slen s \/ char_at s i <> rc) ->
    is_run (new_delim start i s).
  Proof.
    intros Hi0 Hi (Hrc & Hs0 & Hsi & Hall & Hbefore) Hend _. exists start, i. split; [|reflexivity].
    assert (Ea : char_at s start = rc) by (apply Hall; lia).
    unfold run_at. rewrite Ea. split; [lia|]. split; [lia|]. split; [lia|]. split; [exact Hrc|]. split; [exact Hall|]. split; [exact Hbefore|exact Hend].
  Qed.

  Lemma ds1_run i st : InvR i st -> i < slen s -> Forall is_run (ds1_of s st (char_at s i) i).
  Proof.
    intros (Hi0 & Hi & _ & _ & _ & Hd & HR & _) Hlt. unfold ds1_of. destruct (sc_run st) as [rc|]; [|exact Hd].
    destruct (char_at s i =? rc) eqn:Ec; [exact Hd|]. apply Z.eqb_neq in Ec.
    apply Forall_app. split; [exact Hd|]. constructor; [|constructor]. apply (run_is_run i rc (sc_start st)); [lia|lia|exact HR|right; exact Ec].
  Qed.

  Lemma scan_runs : forall fuel i st, InvR i st ->
    sc_ms (scan_loop fuel s [] i None st) = [] /\ sc_code (scan_loop fuel s [] i None st) = [] /\ Forall is_run (sc_ds (scan_loop fuel s [] i None st)).
  Proof.
    induction fuel as [|fuel IH]; intros i st HI.
    - destruct HI as (_ & _ & Hm & Hc & _ & Hd & _). cbn [scan_loop]. repeat split; assumption.
    - pose proof HI as (Hi0 & Hi & Hm & Hc & He & Hd & HR & Him).
      destruct (Z.eq_dec i (slen s)) as [Eend|Hne].
      + cbn [scan_loop]. assert (i <? slen s = false) as -> by (apply Z.ltb_ge; lia). cbn [negb].
        destruct (sc_run st) as [rc|] eqn:Er; [|repeat split; assumption].
        cbn [sc_ms sc_code sc_ds]. split; [exact Hm|]. split; [exact Hc|].
        apply Forall_app. split; [exact Hd|]. constructor; [|constructor]. apply (run_is_run i rc (sc_start st)); [lia|lia|exact HR|left; exact Eend].
      + assert (Hlt : i < slen s) by lia.
        rewrite (scan_step s Hbs fuel i st Hlt Hi0 He). cbv zeta.
        pose proof (ds1_run i st HI Hlt) as D1. pose proof (run2_inv s i _ _ Hi0 Hlt HR) as R2.
        set (c := char_at s i) in *.
        destruct (c =? 91) eqn:E91; [|destruct (c =? 33) eqn:E33; [|destruct (c =? 93) eqn:E93]].
        * apply IH. unfold InvR. cbn [sc_ms sc_code sc_escaped sc_ds sc_run sc_start sc_in_image].
          split; [lia|]. split; [lia|]. split; [exact Hm|]. split; [exact Hc|]. split; [reflexivity|]. split; [|split; [exact R2|discriminate]].
          apply Z.eqb_eq in E91.
          destruct (sc_in_image st) eqn:Ei; cbn [negb]; apply Forall_app; (split; [exact D1|]); (constructor; [|constructor]).
          -- destruct (Him eq_refl) as (Hp & H1 & H2). apply not_emph_head; try lia; assumption.
          -- apply not_emph_head; try lia; fold c; rewrite E91; discriminate.
        * apply IH. unfold InvR. cbn [sc_ms sc_code sc_escaped sc_ds sc_run sc_start sc_in_image].
          split; [lia|]. split; [lia|]. split; [exact Hm|]. split; [exact Hc|]. split; [reflexivity|]. split; [exact D1|]. split; [exact R2|].
          intros _. apply Z.eqb_eq in E33. replace (i + 1 - 1) with i by lia. fold c. rewrite E33. split; [lia|split; discriminate].
        * apply Z.eqb_eq in E93. rewrite Hm. unfold find_link_image.
          destruct (fli_down_run i (Hlp i (conj Hi0 Hlt) E93) (length (ds1_of s st c i)) (Z.of_nat (length (ds1_of s st c i)) - 1) _ D1) as (ds2 & -> & D2).
          rewrite (code_none s Hbt).
          apply IH. unfold InvR. cbn [sc_ms sc_code sc_escaped sc_ds sc_run sc_start sc_in_image].
          split; [lia|]. split; [lia|]. split; [reflexivity|]. split; [exact Hc|]. split; [reflexivity|]. split; [exact D2|]. split; [exact R2|].
          intros _. replace (i + 1 - 1) with i by lia. fold c. rewrite E93. split; [lia|split; discriminate].
        * apply IH. unfold InvR. cbn [sc_ms sc_code sc_escaped sc_ds sc_run sc_start sc_in_image].
          split; [lia|]. split; [lia|]. split; [exact Hm|]. split; [exact Hc|]. split; [reflexivity|]. split; [exact D1|]. split; [exact R2|discriminate].
  Qed.

  Lemma run_good a b : run_at s a b -> good (char_at s a) (new_delim a b s).
  Proof.
    intros HR. pose proof HR as (H0 & Hab & Hb & _). unfold good, new_delim. cbn [d_type d_number d_start d_end].
    split; [apply substr_run; exact HR|]. split; lia.
  Qed.

  (* SOUNDNESS on a text: every emphasis found pairs a maximal run that can open with one that can close *)
  Theorem emphasis_sound : forall m, In m (fst (find_core_tokens s [])) ->
    exists a b a' b', run_at s a b /\ run_at s a' b' /\ is_opener a b s = true /\ is_closer a' b' s = true /\
                      char_at s a = char_at s a' /\ closed_by (new_delim a b s) (new_delim a' b' s) = true /\
                      a <= m_start m /\ m_start m < b /\ a' < m_end m /\ m_end m <= b'.
  Proof.
    intros m Hin. unfold find_core_tokens in Hin. rewrite (code_none s Hbt) in Hin.
    assert (I0 : InvR 0 (mkScan [] [] false None false 0 [])).
    { unfold InvR. cbn [sc_ms sc_code sc_escaped sc_ds sc_run sc_start sc_in_image RunInv].
      split; [lia|]. split; [unfold slen; lia|]. split; [reflexivity|]. split; [reflexivity|]. split; [reflexivity|]. split; [constructor|]. split; [left; reflexivity|discriminate]. }
    pose proof (scan_runs (S (S (length s))) 0 _ I0) as (Hm & Hc & Hd).
    set (st := scan_loop _ _ _ _ _ _) in *. rewrite Hm in Hin. unfold process_emphasis in Hin.
    set (ds := sc_ds st) in *.
    assert (Hs : stack_ok ds ds).
    { unfold stack_ok. rewrite Forall_forall in Hd |- *. intros d Hdin He. destruct (Hd d Hdin He) as (a & b & HR & ->).
      exists (new_delim a b s). split; [exact Hdin|]. apply (der_refl (char_at s a)); [exact He|apply run_good; exact HR]. }
    pose proof (emph_loop_sound s ds (3 * length s + 3) (-1) [] (next_closer 0 ds) ds [] ltac:(lia) Hs (Forall_nil _) (next_closer_ok 0 ds ltac:(lia))) as [_ HM].
    destruct (emph_loop (3 * length s + 3) s (-1) [] (next_closer 0 ds) ds []) as [ds' ms'] eqn:EL. cbn [fst snd] in Hin, HM.
    rewrite Forall_forall in HM. destruct (HM m Hin) as (o0 & c0 & Ho & Hc0 & Eo & Oo & Ec & Cc & Ht & Hcb & P1 & P2 & P3 & P4).
    rewrite Forall_forall in Hd.
    destruct (Hd o0 Ho Eo) as (a & b & HRo & ->). destruct (Hd c0 Hc0 Ec) as (a' & b' & HRc & ->).
    exists a, b, a', b'. split; [exact HRo|]. split; [exact HRc|].
    unfold new_delim in Oo, Cc, Eo, Ec. cbn [d_open d_close d_emph] in Oo, Cc, Eo, Ec. rewrite Eo in Oo. rewrite Ec in Cc. cbn [andb] in Oo, Cc.
    split; [exact Oo|]. split; [exact Cc|].
    split; [rewrite <- (type0_good _ _ (run_good a b HRo)), <- (type0_good _ _ (run_good a' b' HRc)); exact Ht|].
    split; [exact Hcb|]. cbn [new_delim d_start d_end] in P1, P2, P3, P4. repeat split; assumption.
  Qed.
End Text.

(* non-vacuity: a text that meets the hypotheses and has nested and separate emphasis *)
Example sound_instance :
  let s := $"*a **b** c* and _d_ [x] y*" in
  mem 92 s = false /\ mem 96 s = false /\ no_link_paren s = true /\
  map (fun m => (m_start m, m_end m)) (fst (find_core_tokens s [])) = [(3, 8); (0, 11); (16, 19)].
Proof. vm_compute. repeat split; reflexivity. Qed.
