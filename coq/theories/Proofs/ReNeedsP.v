(* The `needs` analysis for a set of characters: needsP r = true -> every match of r consumes
   a character satisfying P, so on a text none of whose characters satisfies P, r does not
   match.  `within` is any sound test that a character class accepts only such characters. *)
From Coq Require Import ZArith List Bool Lia.
From Mistletoe Require Import Base.Sx Base.PyStr Base.PyText Gen.GenTables Re.ReMatch Proofs.ReFirst Proofs.ReNeeds Proofs.ReExact.
Import ListNotations.
Local Open Scope Z_scope.

Lemma suffix_existsb (P : Z -> bool) a b : is_suffix a b -> existsb P b = false -> existsb P a = false.
Proof. intros [p ->]. rewrite existsb_app. intros H. apply orb_false_iff in H. tauto. Qed.

Section NeedsP.
  Variable fl : flags.
  Variable P : Z -> bool.
  Variable within : re -> bool.
  Hypothesis within_sound : forall r d, is_char_re r = true -> within r = true -> char_ok fl r d = true -> P d = true.

  Fixpoint needsP (r : re) : bool :=
    match r with
    | Lit _ | NotLit _ | Any | Set_ _ _ => within r
    | Seq a b => needsP a || needsP b
    | Alt a b => needsP a && needsP b
    | Rep _ mn _ r' => match mn with O => false | S _ => needsP r' end
    | Grp _ r' => needsP r'
    | _ => false
    end.

  Lemma char_case r s k : is_char_re r = true -> within r = true -> existsb P (aft s) = false -> m fl r s k = None.
  Proof.
    intros Hr Hw Hc. destruct (aft s) as [|x t] eqn:E; [apply m_char_nil; assumption|].
    rewrite (m_char fl r s x t k Hr E). destruct (char_ok fl r x) eqn:Ec; [|reflexivity].
    cbn [existsb] in Hc. apply orb_false_iff in Hc as [Hx _]. rewrite (within_sound r x Hr Hw Ec) in Hx. discriminate.
  Qed.

  Theorem needsP_sound : forall r, needsP r = true -> forall s k, existsb P (aft s) = false -> m fl r s k = None.
  Proof.
    induction r as [|d|d| |neg items|a IHa b IHb|a IHa b IHb|g mn mx r IHr|n r IHr|n|ahead neg w r IHr| |];
      intros H s k Hc; cbn [needsP] in H; try discriminate.
    - apply char_case; [reflexivity|exact H|exact Hc].
    - apply char_case; [reflexivity|exact H|exact Hc].
    - apply char_case; [reflexivity|exact H|exact Hc].
    - apply char_case; [reflexivity|exact H|exact Hc].
    - cbn [m]. apply orb_true_iff in H as [H|H].
      + apply (IHa H s _ Hc).
      + rewrite (suffix_k fl a s _ (fun _ => None)).
        * apply m_none. reflexivity.
        * intros s' Hs'. apply (IHb H s' k). eapply suffix_existsb; eassumption.
    - cbn [m]. apply andb_true_iff in H as [H1 H2]. rewrite (IHa H1 s k Hc). rewrite orelse_none. apply (IHb H2 s k Hc).
    - cbn [m]. destruct mn as [|mn]; [discriminate|]. cbn [repeat app loop]. replace (Nat.ltb 0 (S mn)) with true by reflexivity.
      destruct (under mx 0); [|reflexivity]. apply (IHr H s _ Hc).
    - cbn [m]. apply (IHr H s _ Hc).
  Qed.

  Corollary match_needsP r text : needsP r = true -> existsb P text = false -> match_here fl r (start_at [] text) = None.
  Proof. intros H Hc. unfold match_here. apply needsP_sound; [exact H|exact Hc]. Qed.
End NeedsP.

(* ---- the instance used for blank lines: every match consumes a character that is not white space ---- *)
Definition not_space (c : Z) : bool := negb (is_space_c c).
Definition item_ns (i : citem) : bool :=
  match i with CLit x => not_space x | CCat CatNotSpace => true | _ => false end.
Definition within_ns (r : re) : bool :=
  match r with
  | Lit d => not_space d
  | Set_ false items => forallb item_ns items
  | _ => false
  end.

Lemma within_ns_sound fl r d : is_char_re r = true -> within_ns r = true -> char_ok fl r d = true -> not_space d = true.
Proof.
  intros _ Hw Hc. destruct r; try discriminate; cbn [within_ns] in Hw.
  - cbn [char_ok] in Hc. apply Z.eqb_eq in Hc. subst d. exact Hw.
  - destruct neg; [discriminate|]. cbn [char_ok xorb] in Hc.
    assert (E : existsb (fun i => citem_match i d) items = true) by (destruct (existsb _ items); [reflexivity|discriminate]).
    apply existsb_exists in E as (i & Hi & Hm). rewrite forallb_forall in Hw. specialize (Hw i Hi).
    destruct i as [x|a b|[ | | | | | ]]; cbn [item_ns] in Hw; try discriminate.
    + cbn [citem_match] in Hm. apply Z.eqb_eq in Hm. subst d. exact Hw.
    + cbn [citem_match cat_match] in Hm. unfold not_space, is_space_c. exact Hm.
Qed.

Definition needs_nonspace (r : re) : bool := needsP within_ns r.

Theorem blank_text_no_match fl r text : needs_nonspace r = true -> forallb is_space_c text = true -> match_here fl r (start_at [] text) = None.
Proof.
  intros H Hb. apply (match_needsP fl not_space within_ns (within_ns_sound fl) r text H).
  apply not_true_iff_false. intros E. apply existsb_exists in E as (x & Hx & Px). rewrite forallb_forall in Hb.
  unfold not_space in Px. rewrite (Hb x Hx) in Px. discriminate.
Qed.
