(* Proofs about Model/HtmlRenderer.v over ALL token trees: nesting, vocabulary,
   attribute safety, text safety, origin of raw items.  Facts about escaping
   are proved generically and instantiated on the REGENERATED data of
   Gen/GenEscapes.v by reflexivity (reflective side conditions). *)
From Coq Require Import ZArith List Bool Lia.
From Mistletoe Require Import Base.Sx Base.PyStr Model.Fillers Model.Tree Gen.GenEscapes
     Model.HtmlRenderer Spec.HtmlSpec.
Import ListNotations.
Local Open Scope Z_scope.

(* ------------------------------------------------------------------ *)
(* strings *)

Lemma str_eqb_refl s : str_eqb s s = true.
Proof. apply str_eqb_eq. reflexivity. Qed.

Lemma forallb_flat_map {A B} (p : B -> bool) (f : A -> list B) l :
  forallb p (flat_map f l) = forallb (fun x => forallb p (f x)) l.
Proof. induction l as [|x l IH]; cbn; [reflexivity|]. now rewrite forallb_app, IH. Qed.

Lemma strip_prefix_app p s b r : strip_prefix p s = Some r -> strip_prefix p (s ++ b) = Some (r ++ b).
Proof.
  revert s; induction p as [|x p IH]; intros s H; cbn in *.
  - now inversion H.
  - destruct s as [|y s]; [discriminate|]. cbn. destruct (x =? y); [auto|discriminate].
Qed.

Lemma after_amp_app r b : after_amp r = true -> after_amp (r ++ b) = true.
Proof.
  unfold after_amp. rewrite !existsb_exists. intros (e & He & H). exists e. split; auto.
  destruct (strip_prefix e r) eqn:E; [|discriminate].
  now rewrite (strip_prefix_app _ _ b _ E).
Qed.

Lemma safe_textb_app a b : safe_textb a = true -> safe_textb b = true -> safe_textb (a ++ b) = true.
Proof.
  induction a as [|c a IH]; intros Ha Hb; cbn [safe_textb app] in *; [auto|].
  destruct ((c =? 60) || (c =? 62)); [discriminate|].
  destruct (c =? 38).
  - apply andb_true_iff in Ha. destruct Ha as [H1 H2].
    rewrite after_amp_app by auto. cbn. auto.
  - auto.
Qed.

Lemma safe_textb_flat_map (g : Z -> str) s :
  (forall x, safe_textb (g x) = true) -> safe_textb (flat_map g s) = true.
Proof. intros Hg. induction s as [|x s IH]; cbn; [reflexivity|]. apply safe_textb_app; auto. Qed.

Lemma safe_valueb_app a b : safe_valueb (a ++ b) = safe_valueb a && safe_valueb b.
Proof. apply forallb_app. Qed.

(* html.escape *)
Lemma html_escape_char_spec c :
  html_escape_char c = [c] /\ c <> 38 /\ c <> 60 /\ c <> 62 /\ c <> 34 /\ c <> 39 \/
  (c = 38 \/ c = 60 \/ c = 62 \/ c = 34 \/ c = 39).
Proof.
  unfold html_escape_char.
  destruct (Z.eqb_spec c 38); [right; auto|].
  destruct (Z.eqb_spec c 60); [right; auto|].
  destruct (Z.eqb_spec c 62); [right; auto|].
  destruct (Z.eqb_spec c 34); [right; auto|].
  destruct (Z.eqb_spec c 39); [right; tauto|].
  left. repeat split; auto.
Qed.

Lemma html_escape_char_value c : safe_valueb (html_escape_char c) = true.
Proof.
  destruct (html_escape_char_spec c) as [(E & H1 & H2 & H3 & H4 & H5)|H].
  - rewrite E. cbn. unfold safe_attr_char.
    destruct (Z.eqb_spec c 34), (Z.eqb_spec c 60), (Z.eqb_spec c 62); try contradiction; reflexivity.
  - destruct H as [H|[H|[H|[H|H]]]]; subst; reflexivity.
Qed.

Lemma html_escape_char_text c : safe_textb (html_escape_char c) = true.
Proof.
  destruct (html_escape_char_spec c) as [(E & H1 & H2 & H3 & H4 & H5)|H].
  - rewrite E. cbn.
    destruct (Z.eqb_spec c 60), (Z.eqb_spec c 62), (Z.eqb_spec c 38); try contradiction; reflexivity.
  - destruct H as [H|[H|[H|[H|H]]]]; subst; reflexivity.
Qed.

Lemma html_escape_value s : safe_valueb (html_escape s) = true.
Proof.
  unfold html_escape, safe_valueb. rewrite forallb_flat_map. apply forallb_forall.
  intros x _. apply html_escape_char_value.
Qed.

Lemma html_escape_text s : safe_textb (html_escape s) = true.
Proof. apply safe_textb_flat_map. apply html_escape_char_text. Qed.

(* str(int) *)
Lemma digits_fuel_value fuel : forall n acc,
  0 <= n -> safe_valueb acc = true -> safe_valueb (digits_fuel fuel n acc) = true.
Proof.
  induction fuel as [|f IH]; intros n acc Hn Ha; cbn [digits_fuel]; [auto|].
  assert (Hd : safe_attr_char (48 + n mod 10) = true).
  { unfold safe_attr_char. pose proof (Z.mod_pos_bound n 10 ltac:(lia)).
    destruct (Z.eqb_spec (48 + n mod 10) 34), (Z.eqb_spec (48 + n mod 10) 60), (Z.eqb_spec (48 + n mod 10) 62);
      try lia; reflexivity. }
  destruct (n <? 10).
  - unfold safe_valueb in *. cbn [forallb]. now rewrite Hd.
  - apply IH; [apply Z.div_pos; lia|]. unfold safe_valueb in *. cbn [forallb]. now rewrite Hd.
Qed.

Lemma str_of_Z_value z : safe_valueb (str_of_Z z) = true.
Proof.
  unfold str_of_Z, str_of_nonneg. destruct (Z.ltb_spec z 0).
  - unfold safe_valueb. cbn [forallb]. apply digits_fuel_value; [lia|reflexivity].
  - apply digits_fuel_value; [lia|reflexivity].
Qed.

(* ------------------------------------------------------------------ *)
(* escape chains, generically *)

Definition step (o : hopts) (e : guard * Z * str) (s : str) : str :=
  match e with (g, a, r) => if guard_on o g then replace_char a r s else s end.

Lemma apply_chain_cons o e c s : apply_chain o (e :: c) s = apply_chain o c (step o e s).
Proof. unfold apply_chain. cbn. destruct e as [[g a] r]. reflexivity. Qed.

Definition cmap (o : hopts) (c : chain) (x : Z) : str := apply_chain o c [x].

Lemma flat_map_flat_map {A B C} (f : B -> list C) (g : A -> list B) l :
  flat_map f (flat_map g l) = flat_map (fun x => flat_map f (g x)) l.
Proof. induction l as [|x l IH]; cbn; [reflexivity|]. now rewrite flat_map_app, IH. Qed.

Lemma step_flat o e s : step o e s = flat_map (fun x => step o e [x]) s.
Proof.
  destruct e as [[g a] r]. cbn. destruct (guard_on o g).
  - unfold replace_char. apply flat_map_ext. intros x. cbn. now rewrite app_nil_r.
  - induction s; cbn; congruence.
Qed.

Lemma apply_chain_flat o c : forall s, apply_chain o c s = flat_map (cmap o c) s.
Proof.
  induction c as [|e c IH]; intros s.
  - unfold cmap, apply_chain. cbn. induction s; cbn; congruence.
  - rewrite apply_chain_cons, IH, step_flat, flat_map_flat_map.
    apply flat_map_ext. intros x. unfold cmap at 2. rewrite apply_chain_cons, IH. reflexivity.
Qed.

Definition sources (c : chain) : list Z := map (fun e => snd (fst e)) c.

Lemma cmap_other o c : forall x, ~ In x (sources c) -> cmap o c x = [x].
Proof.
  induction c as [|e c IH]; intros x Hx; [reflexivity|].
  unfold cmap. rewrite apply_chain_cons. destruct e as [[g a] r]. cbn in Hx.
  assert (Hs : step o (g, a, r) [x] = [x]).
  { cbn. destruct (guard_on o g); [|reflexivity]. cbn. destruct (Z.eqb_spec x a); [intuition congruence|reflexivity]. }
  rewrite Hs. apply IH. tauto.
Qed.

Definition chain_text_ok (o : hopts) (c : chain) : bool :=
  forallb (fun x => safe_textb (cmap o c x)) (sources c ++ [38; 60; 62]).

Lemma chain_text_safe o c s : chain_text_ok o c = true -> safe_textb (apply_chain o c s) = true.
Proof.
  intros H. rewrite apply_chain_flat. apply safe_textb_flat_map. intros x.
  unfold chain_text_ok in H. rewrite forallb_forall in H.
  destruct (in_dec Z.eq_dec x (sources c ++ [38; 60; 62])) as [Hi|Hn]; [auto|].
  rewrite cmap_other by (intro; apply Hn; apply in_or_app; auto).
  cbn. assert (x <> 38 /\ x <> 60 /\ x <> 62) as (H1 & H2 & H3).
  { repeat split; intro; subst; apply Hn; apply in_or_app; right; cbn; auto. }
  destruct (Z.eqb_spec x 60), (Z.eqb_spec x 62), (Z.eqb_spec x 38); try contradiction; reflexivity.
Qed.

(* ------------------------------------------------------------------ *)
(* what each filler guarantees *)

Definition is_html_escape (f : filler) : bool := match f with FHtmlEscape => true | _ => false end.

Definition attr_safe_filler (f : filler) : bool :=
  match f with
  | FHtmlEscape => true
  | FEscapeUrl => is_html_escape html_url_outer
  | _ => false
  end.

Definition text_safe_filler (o : hopts) (f : filler) : bool :=
  match f with
  | FHtmlEscape => true
  | FEscapeUrl => is_html_escape html_url_outer
  | FEscapeText => chain_text_ok o html_text_chain
  | FRaw => false
  end.

Lemma fill_attr_safe o f s : attr_safe_filler f = true -> safe_valueb (fill o f s) = true.
Proof.
  destruct f; cbn [attr_safe_filler fill]; intros H; try discriminate.
  - apply html_escape_value.
  - unfold escape_url. destruct html_url_outer; cbn [is_html_escape fill0] in *; try discriminate.
    apply html_escape_value.
Qed.

Lemma fill_text_safe o f s : text_safe_filler o f = true -> safe_textb (fill o f s) = true.
Proof.
  destruct f; cbn [text_safe_filler fill]; intros H; try discriminate.
  - apply html_escape_text.
  - unfold escape_url. destruct html_url_outer; cbn [is_html_escape fill0] in *; try discriminate.
    apply html_escape_text.
  - now apply chain_text_safe.
Qed.

(* ---- the reflective side conditions on the regenerated data ---- *)
Definition all_opts : list hopts := [mkHopts false false; mkHopts false true; mkHopts true false; mkHopts true true].

Definition html_side_conditions : bool :=
  attr_safe_filler html_image_src && attr_safe_filler html_image_title &&
  attr_safe_filler html_link_target && attr_safe_filler html_link_title &&
  attr_safe_filler html_autolink_mailto && attr_safe_filler html_autolink_target &&
  attr_safe_filler html_code_language && is_html_escape html_plain_leaf &&
  forallb (fun o => text_safe_filler o html_raw_text && text_safe_filler o html_inline_code_inner &&
                    text_safe_filler o html_code_inner) all_opts.

Lemma html_side_conditions_hold : html_side_conditions = true.
Proof. vm_compute. reflexivity. Qed.

Lemma all_opts_complete o : In o all_opts.
Proof. destruct o as [[|] [|]]; cbn; tauto. Qed.

Ltac side H :=
  pose proof html_side_conditions_hold as H; unfold html_side_conditions in H;
  repeat (apply andb_true_iff in H; let H' := fresh H in destruct H as [H H']).

Lemma sc_attr :
  attr_safe_filler html_image_src = true /\ attr_safe_filler html_image_title = true /\
  attr_safe_filler html_link_target = true /\ attr_safe_filler html_link_title = true /\
  attr_safe_filler html_autolink_mailto = true /\ attr_safe_filler html_autolink_target = true /\
  attr_safe_filler html_code_language = true /\ is_html_escape html_plain_leaf = true.
Proof.
  pose proof html_side_conditions_hold as H. unfold html_side_conditions in H.
  rewrite !andb_true_iff in H. tauto.
Qed.

Lemma sc_text o :
  text_safe_filler o html_raw_text = true /\ text_safe_filler o html_inline_code_inner = true /\
  text_safe_filler o html_code_inner = true.
Proof.
  pose proof html_side_conditions_hold as H. unfold html_side_conditions in H.
  rewrite !andb_true_iff in H. destruct H as [_ H]. rewrite forallb_forall in H.
  specialize (H o (all_opts_complete o)). rewrite !andb_true_iff in H. tauto.
Qed.

Definition escaper_side_conditions : bool :=
  is_html_escape html_url_outer && forallb (fun o => chain_text_ok o html_text_chain) all_opts.
Lemma escaper_side_conditions_hold : escaper_side_conditions = true.
Proof. vm_compute. reflexivity. Qed.

Lemma escapers_safe o s :
  safe_valueb (html_escape s) = true /\ safe_valueb (escape_url s) = true /\
  safe_textb (escape_html_text o s) = true /\ safe_textb (html_escape s) = true.
Proof.
  pose proof escaper_side_conditions_hold as H. unfold escaper_side_conditions in H.
  apply andb_true_iff in H. destruct H as [H1 H2]. rewrite forallb_forall in H2.
  specialize (H2 o (all_opts_complete o)).
  repeat split.
  - apply html_escape_value.
  - apply (fill_attr_safe o FEscapeUrl s). exact H1.
  - apply (fill_text_safe o FEscapeText s). exact H2.
  - apply html_escape_text.
Qed.

(* ------------------------------------------------------------------ *)
(* closure lemmas for predicates on item lists *)

Section Closed.
  Variable P : list item -> Prop.
  Hypothesis Pnil : P [].
  Hypothesis Papp : forall a b, P a -> P b -> P (a ++ b).

  Lemma P_flat_map {A} (f : A -> list item) l : Forall (fun x => P (f x)) l -> P (flat_map f l).
  Proof. induction 1; cbn; auto. Qed.

  Lemma P_join sep ls : P sep -> Forall P ls -> P (join_items sep ls).
  Proof.
    intros Hs. induction 1 as [|x ls Hx Hl IH]; cbn; [auto|].
    destruct ls as [|y ls]; [auto|]. apply Papp; auto.
  Qed.

  Lemma P_cons i l : P [i] -> P l -> P (i :: l).
  Proof. intros. change (i :: l) with ([i] ++ l). auto. Qed.
End Closed.

(* ---- nesting ---- *)
Inductive bal : list item -> Prop :=
| bal_nil : bal []
| bal_leaf i : (match i with IOpen _ _ | IClose _ => False | _ => True end) -> bal [i]
| bal_wrap t a l : bal l -> bal (IOpen t a :: l ++ [IClose t])
| bal_app a b : bal a -> bal b -> bal (a ++ b).

Lemma bal_sound l : bal l -> forall st r, balanced_from st (l ++ r) = balanced_from st r.
Proof.
  induction 1 as [|i Hi|t a l Hl IH|a b Ha IHa Hb IHb]; intros st r.
  - reflexivity.
  - destruct i; cbn; tauto || reflexivity.
  - cbn. rewrite <- app_assoc. rewrite IH. cbn. now rewrite str_eqb_refl.
  - rewrite <- app_assoc. now rewrite IHa, IHb.
Qed.

Lemma bal_balancedb l : bal l -> balancedb l = true.
Proof. intros H. unfold balancedb. rewrite <- (app_nil_r l). rewrite (bal_sound l H). reflexivity. Qed.

Lemma bal_wrap' t a l : bal l -> bal (wrap t a l).
Proof. apply bal_wrap. Qed.

Lemma join_cons_ne sep (x : list item) l : l <> [] -> join_items sep (x :: l) = x ++ sep ++ join_items sep l.
Proof. destruct l; [congruence|reflexivity]. Qed.

Lemma join_snoc sep ls (y : item) : join_items sep (ls ++ [[y]]) = flat_map (fun l => l ++ sep) ls ++ [y].
Proof.
  induction ls as [|l ls IH]; [reflexivity|].
  cbn [app flat_map]. rewrite join_cons_ne by (destruct ls; discriminate).
  rewrite IH. now rewrite <- !app_assoc.
Qed.

Lemma join_bracket (x y : item) sep ls :
  join_items sep ([[x]] ++ ls ++ [[y]]) = x :: (sep ++ flat_map (fun l => l ++ sep) ls) ++ [y].
Proof.
  cbn [app]. rewrite join_cons_ne by (destruct ls; discriminate).
  rewrite join_snoc. cbn [app]. now rewrite <- !app_assoc.
Qed.

(* ------------------------------------------------------------------ *)
(* well-formed attributes: the facts the renderer relies on the parser for *)

Fixpoint wf_attrs (t : tok) : bool :=
  let all := forallb wf_attrs in
  match t with
  | Heading l _ ch | SetextHeading l _ ch => (1 <=? l) && (l <=? 6) && all ch
  | Strong _ ch | Emphasis _ ch | Strikethrough ch | Image _ ch | Link _ ch
  | AutoLink _ _ ch | EscapeSequence ch | Quote ch | Paragraph ch | List _ _ ch
  | ListItem _ ch | TableRow _ ch | TableCell _ ch | Document ch => all ch
  | Table _ h ch => match h with Some h' => wf_attrs h' | None => true end && all ch
  | _ => true
  end.

Lemma wf_all ch : forallb wf_attrs ch = true -> Forall (fun c => wf_attrs c = true) ch.
Proof. rewrite forallb_forall, Forall_forall. auto. Qed.

Ltac use_ih IH Hwf :=
  match goal with
  | |- Forall _ ?ch =>
    apply Forall_forall; intros ?c ?Hc;
    rewrite Forall_forall in IH; apply IH; auto;
    try (rewrite forallb_forall in Hwf; apply Hwf; auto)
  end.

(* ---- nesting of the rendered items ---- *)
Lemma bal_flat_inner {A} (f : A -> list item) ch : Forall (fun c => bal (f c)) ch -> bal (flat_map f ch).
Proof. apply P_flat_map; [constructor|apply bal_app]. Qed.

Lemma bal_join ls : Forall bal ls -> bal (join_items [nl] ls).
Proof. apply P_join; [constructor|apply bal_app|apply bal_leaf; exact I]. Qed.

Lemma bal_cons_leaf i l : (match i with IOpen _ _ | IClose _ => False | _ => True end) -> bal l -> bal (i :: l).
Proof. intros Hi Hl. change (i :: l) with ([i] ++ l). apply bal_app; [apply bal_leaf; auto|auto]. Qed.

Lemma Forall_map_iff {A B} (P : B -> Prop) (f : A -> B) l : Forall P (map f l) <-> Forall (fun x => P (f x)) l.
Proof. apply Forall_map. Qed.

Ltac ih := (eapply Forall_impl; [|eassumption]); cbn; auto.

Theorem render_balanced o t : forall sup hdr, bal (render o sup hdr t).
Proof.
  induction t using tok_ind'; intros sup hdr; cbn [render];
    repeat match goal with H : AllP _ _ |- _ => unfold AllP in H end;
    try (apply bal_wrap'; apply bal_flat_inner; ih; fail);
    try (apply bal_leaf; exact I);
    try (repeat apply bal_wrap'; apply bal_leaf; exact I).
  - (* EscapeSequence *) apply bal_flat_inner. ih.
  - (* LineBreak *) destruct s; [apply bal_leaf; exact I|]. apply bal_cons_leaf; [exact I|apply bal_leaf; exact I].
  - (* Math *) constructor.
  - (* Quote *)
    rewrite join_bracket. apply bal_wrap.
    apply bal_app; [apply bal_leaf; exact I|].
    apply bal_flat_inner. apply Forall_map_iff.
    eapply Forall_impl; [|eassumption]. cbn. intros a Ha. apply bal_app; [apply Ha|apply bal_leaf; exact I].
  - (* Paragraph *)
    destruct sup; [|apply bal_wrap']; apply bal_flat_inner; ih.
  - (* List *)
    apply bal_wrap'. apply bal_cons_leaf; [exact I|]. apply bal_app; [|apply bal_leaf; exact I].
    apply bal_join. apply Forall_map_iff. ih.
  - (* ListItem *)
    destruct ch as [|c ch]; [apply bal_wrap'; constructor|].
    apply bal_wrap'. apply bal_app; [destruct (_ && _); [constructor|apply bal_leaf; exact I]|].
    apply bal_app; [|destruct (_ && _); [constructor|apply bal_leaf; exact I]].
    apply bal_join. apply Forall_map_iff. ih.
  - (* Table *)
    apply bal_wrap'. apply bal_cons_leaf; [exact I|]. apply bal_app.
    + destruct h as [h'|]; [|constructor].
      apply bal_app; [|apply bal_leaf; exact I]. apply bal_wrap'. apply bal_cons_leaf; [exact I|]. eauto.
    + apply bal_app; [|apply bal_leaf; exact I]. apply bal_wrap'. apply bal_cons_leaf; [exact I|].
      apply bal_flat_inner. ih.
  - (* TableRow *)
    apply bal_app; [|apply bal_leaf; exact I]. apply bal_wrap'. apply bal_cons_leaf; [exact I|].
    apply bal_flat_inner. ih.
  - (* TableCell *)
    apply bal_app; [|apply bal_leaf; exact I]. apply bal_wrap'.
    apply bal_flat_inner. ih.
  - (* Document *)
    match goal with |- bal (match ?x with _ => _ end) => destruct x end; [constructor|].
    apply bal_app; [|apply bal_leaf; exact I].
    apply bal_join. apply Forall_map_iff. ih.
  - constructor.
  - constructor.
  - constructor.
Qed.

(* ---- every item is in the vocabulary with safe attributes and safe text ---- *)
Definition all_ok (l : list item) : Prop := Forall (fun i => item_okb i = true) l.

Lemma ok_nil : all_ok []. Proof. constructor. Qed.
Lemma ok_app a b : all_ok a -> all_ok b -> all_ok (a ++ b).
Proof. apply Forall_app_intro || (intros; apply Forall_app; auto). Qed.
Lemma ok_one i : item_okb i = true -> all_ok [i].
Proof. intros; repeat constructor; auto. Qed.
Lemma ok_cons i l : item_okb i = true -> all_ok l -> all_ok (i :: l).
Proof. intros; constructor; auto. Qed.
Lemma ok_wrap t a l : tag_okb t a = true -> all_ok l -> all_ok (wrap t a l).
Proof.
  intros Ht Hl. unfold wrap. apply ok_cons; [exact Ht|]. apply ok_app; [auto|].
  apply ok_one. unfold tag_okb in Ht. cbn [item_okb]. destruct (lookup t vocab); [reflexivity|discriminate].
Qed.
Lemma ok_flat {A} (f : A -> list item) ch : Forall (fun c => all_ok (f c)) ch -> all_ok (flat_map f ch).
Proof. apply P_flat_map; [apply ok_nil|apply ok_app]. Qed.
Lemma ok_join ls : Forall all_ok ls -> all_ok (join_items [nl] ls).
Proof. apply P_join; [apply ok_nil|apply ok_app|apply ok_one; reflexivity]. Qed.
Lemma ok_nl : item_okb nl = true. Proof. reflexivity. Qed.

Lemma heading_tag_ok l : 1 <= l -> l <= 6 -> tag_okb (heading_tag l) [] = true.
Proof.
  intros H1 H6. assert (l = 1 \/ l = 2 \/ l = 3 \/ l = 4 \/ l = 5 \/ l = 6) as H by lia.
  destruct H as [H|[H|[H|[H|[H|H]]]]]; subst; reflexivity.
Qed.

Lemma to_plain_value t : safe_valueb (to_plain t) = true.
Proof.
  destruct sc_attr as (_ & _ & _ & _ & _ & _ & _ & Hleaf).
  assert (Hl : forall s, safe_valueb (fill0 html_plain_leaf s) = true).
  { intros s. destruct html_plain_leaf; try discriminate. apply html_escape_value. }
  induction t using tok_ind'; cbn [to_plain]; auto;
    repeat match goal with H : AllP _ _ |- _ => unfold AllP in H end;
    try (unfold safe_valueb; rewrite forallb_flat_map; apply forallb_forall; intros x Hx;
         match goal with H : Forall _ _ |- _ => rewrite Forall_forall in H; apply H; auto end).
Qed.

Lemma plain_children_value ch : safe_valueb (flat_map to_plain ch) = true.
Proof.
  unfold safe_valueb. rewrite forallb_flat_map. apply forallb_forall. intros x _. apply to_plain_value.
Qed.

Lemma title_attr_ok o f title allowed :
  attr_safe_filler f = true -> existsb (str_eqb $"title") allowed = true ->
  attrs_okb allowed (title_attr o f title) = true.
Proof.
  intros Hf Ha. unfold title_attr. destruct title as [|c title]; [reflexivity|].
  unfold attrs_okb. cbn [forallb fst snd]. rewrite Ha, fill_attr_safe by auto. reflexivity.
Qed.

Lemma align_name_value a : safe_valueb (align_name a) = true.
Proof. destruct a as [[|[p|p|]|p]|]; reflexivity. Qed.

Local Arguments fill : simpl never.
Local Arguments to_plain : simpl never.
Local Arguments str_of_Z : simpl never.
Local Arguments align_name : simpl never.
Local Arguments safe_valueb : simpl never.
Local Arguments safe_textb : simpl never.

Lemma lookup_img : lookup $"img" vocab = Some [$"src"; $"alt"; $"title"]. Proof. reflexivity. Qed.
Lemma lookup_a : lookup $"a" vocab = Some [$"href"; $"title"]. Proof. reflexivity. Qed.
Lemma lookup_code : lookup $"code" vocab = Some [$"class"]. Proof. reflexivity. Qed.
Lemma lookup_ol : lookup $"ol" vocab = Some [$"start"]. Proof. reflexivity. Qed.
Lemma lookup_th : lookup $"th" vocab = Some [$"align"]. Proof. reflexivity. Qed.
Lemma lookup_td : lookup $"td" vocab = Some [$"align"]. Proof. reflexivity. Qed.

Theorem render_items_ok o t : wf_attrs t = true -> forall sup hdr, all_ok (render o sup hdr t).
Proof.
  destruct sc_attr as (Hisrc & Hititle & Hltarget & Hltitle & Hamailto & Hatarget & Hclang & Hleaf).
  destruct (sc_text o) as (Hraw & Hicode & Hcode).
  induction t using tok_ind'; intros Hwf sup hdr; cbn [render]; cbn [wf_attrs] in Hwf;
    repeat match goal with H : AllP _ _ |- _ => unfold AllP in H end.
  - apply ok_one. cbn. now apply fill_text_safe.
  - apply ok_wrap; [reflexivity|]. apply ok_flat. use_ih H Hwf.
  - apply ok_wrap; [reflexivity|]. apply ok_flat. use_ih H Hwf.
  - apply ok_wrap; [reflexivity|]. apply ok_flat. use_ih H Hwf.
  - apply ok_wrap; [reflexivity|]. apply ok_one. cbn. now apply fill_text_safe.
  - (* Image *)
    apply ok_one. cbn [item_okb]. unfold tag_okb. rewrite lookup_img.
    unfold attrs_okb. rewrite forallb_app. apply andb_true_iff. split.
    + cbn [forallb fst snd]. rewrite fill_attr_safe by auto. rewrite plain_children_value. reflexivity.
    + apply (title_attr_ok o html_image_title (l_title a) [$"src"; $"alt"; $"title"]); auto.
  - (* Link *)
    apply ok_wrap.
    + unfold tag_okb. rewrite lookup_a.
      unfold attrs_okb. cbn [forallb]. apply andb_true_iff. split.
      * cbn [fst snd]. now rewrite fill_attr_safe by auto.
      * apply (title_attr_ok o html_link_title (l_title a) [$"href"; $"title"]); auto.
    + apply ok_flat. use_ih H Hwf.
  - (* AutoLink *)
    apply ok_wrap.
    + unfold tag_okb. rewrite lookup_a. unfold attrs_okb. cbn [forallb fst snd]. destruct m.
      * rewrite safe_valueb_app. rewrite fill_attr_safe by auto. reflexivity.
      * rewrite fill_attr_safe by auto. reflexivity.
    + apply ok_flat. use_ih H Hwf.
  - apply ok_flat. use_ih H Hwf.
  - destruct s; repeat constructor.
  - apply ok_one. reflexivity.
  - constructor.
  - (* Heading *)
    apply andb_true_iff in Hwf. destruct Hwf as [Hl Hwf]. apply andb_true_iff in Hl. destruct Hl as [H1 H6].
    apply Z.leb_le in H1. apply Z.leb_le in H6.
    apply ok_wrap; [now apply heading_tag_ok|]. apply ok_flat. use_ih H Hwf.
  - apply andb_true_iff in Hwf. destruct Hwf as [Hl Hwf]. apply andb_true_iff in Hl. destruct Hl as [H1 H6].
    apply Z.leb_le in H1. apply Z.leb_le in H6.
    apply ok_wrap; [now apply heading_tag_ok|]. apply ok_flat. use_ih H Hwf.
  - (* Quote *)
    apply ok_join. apply Forall_app. split; [repeat constructor|]. apply Forall_app. split; [|repeat constructor].
    apply Forall_map_iff. use_ih H Hwf.
  - destruct sup; [|apply ok_wrap; [reflexivity|]]; apply ok_flat; use_ih H Hwf.
  - apply ok_wrap; [reflexivity|]. apply ok_wrap; [reflexivity|]. apply ok_one. cbn. now apply fill_text_safe.
  - (* CodeFence *)
    apply ok_wrap; [reflexivity|]. apply ok_wrap.
    + destruct (f_language a) as [|c l]; [reflexivity|].
      unfold tag_okb. rewrite lookup_code. unfold attrs_okb. cbn [forallb fst snd].
      rewrite safe_valueb_app. rewrite fill_attr_safe by auto. reflexivity.
    + apply ok_one. cbn. now apply fill_text_safe.
  - (* List *)
    apply ok_wrap.
    + destruct s as [n|]; [|reflexivity]. destruct (n =? 1); [reflexivity|].
      unfold tag_okb. rewrite lookup_ol. unfold attrs_okb. cbn [forallb fst snd].
      now rewrite str_of_Z_value.
    + apply ok_cons; [reflexivity|]. apply ok_app; [|apply ok_one; reflexivity].
      apply ok_join. apply Forall_map_iff. use_ih H Hwf.
  - (* ListItem *)
    destruct ch as [|c ch]; [apply ok_wrap; [reflexivity|constructor]|].
    apply ok_wrap; [reflexivity|].
    apply ok_app; [destruct (_ && _); [constructor|apply ok_one; reflexivity]|].
    apply ok_app; [|destruct (_ && _); [constructor|apply ok_one; reflexivity]].
    apply ok_join. apply Forall_map_iff. use_ih H Hwf.
  - (* Table *)
    apply andb_true_iff in Hwf. destruct Hwf as [Hh Hwf].
    apply ok_wrap; [reflexivity|]. apply ok_cons; [reflexivity|]. apply ok_app.
    + destruct h as [h'|]; [|constructor].
      apply ok_app; [|apply ok_one; reflexivity]. apply ok_wrap; [reflexivity|].
      apply ok_cons; [reflexivity|]. eauto.
    + apply ok_app; [|apply ok_one; reflexivity]. apply ok_wrap; [reflexivity|].
      apply ok_cons; [reflexivity|]. apply ok_flat. use_ih H0 Hwf.
  - (* TableRow *)
    apply ok_app; [|apply ok_one; reflexivity]. apply ok_wrap; [reflexivity|].
    apply ok_cons; [reflexivity|]. apply ok_flat. use_ih H Hwf.
  - (* TableCell *)
    apply ok_app; [|apply ok_one; reflexivity]. apply ok_wrap.
    + destruct hdr; unfold tag_okb; rewrite ?lookup_th, ?lookup_td; unfold attrs_okb; cbn [forallb fst snd];
        rewrite align_name_value; reflexivity.
    + apply ok_flat. use_ih H Hwf.
  - apply ok_one. reflexivity.
  - apply ok_one. reflexivity.
  - (* Document *)
    match goal with |- all_ok (match ?x with _ => _ end) => destruct x end; [constructor|].
    apply ok_app; [|apply ok_one; reflexivity].
    apply ok_join. apply Forall_map_iff. use_ih H Hwf.
  - constructor.
  - constructor.
  - constructor.
Qed.

(* ---- raw items come only from HtmlBlock / HtmlSpan tokens ---- *)
Fixpoint no_html_tokens (t : tok) : bool :=
  let all := forallb no_html_tokens in
  match t with
  | HtmlSpan _ | HtmlBlock _ => false
  | Strong _ ch | Emphasis _ ch | Strikethrough ch | Link _ ch
  | AutoLink _ _ ch | EscapeSequence ch | Heading _ _ ch | SetextHeading _ _ ch
  | Quote ch | Paragraph ch | List _ _ ch | ListItem _ ch
  | TableRow _ ch | TableCell _ ch | Document ch => all ch
  | Image _ _ => true        (* the description is rendered to plain text *)
  | Table _ h ch => match h with Some h' => no_html_tokens h' | None => true end && all ch
  | _ => true
  end.

Definition raw_free (l : list item) : Prop := no_raw l = true.
Lemma rf_nil : raw_free []. Proof. reflexivity. Qed.
Lemma rf_app a b : raw_free a -> raw_free b -> raw_free (a ++ b).
Proof. unfold raw_free, no_raw. intros. rewrite forallb_app. now apply andb_true_iff. Qed.
Lemma rf_wrap t a l : raw_free l -> raw_free (wrap t a l).
Proof. intros H. unfold wrap. change (IOpen t a :: l ++ [IClose t]) with ([IOpen t a] ++ l ++ [IClose t]).
  apply rf_app; [reflexivity|]. apply rf_app; [auto|reflexivity]. Qed.
Lemma rf_flat {A} (f : A -> list item) ch : Forall (fun c => raw_free (f c)) ch -> raw_free (flat_map f ch).
Proof. apply P_flat_map; [apply rf_nil|apply rf_app]. Qed.
Lemma rf_join ls : Forall raw_free ls -> raw_free (join_items [nl] ls).
Proof. apply P_join; [apply rf_nil|apply rf_app|reflexivity]. Qed.
Lemma rf_cons i l : raw_free [i] -> raw_free l -> raw_free (i :: l).
Proof. intros. change (i :: l) with ([i] ++ l). now apply rf_app. Qed.

Theorem render_no_raw o t : no_html_tokens t = true -> forall sup hdr, raw_free (render o sup hdr t).
Proof.
  induction t using tok_ind'; intros Hwf sup hdr; cbn [render]; cbn [no_html_tokens] in Hwf;
    repeat match goal with H : AllP _ _ |- _ => unfold AllP in H end;
    try discriminate; try reflexivity;
    try (apply rf_wrap; apply rf_flat; use_ih H Hwf; fail).
  - apply rf_flat. use_ih H Hwf.
  - destruct s; reflexivity.
  - apply rf_join. apply Forall_app. split; [repeat constructor|]. apply Forall_app. split; [|repeat constructor].
    apply Forall_map_iff. use_ih H Hwf.
  - destruct sup; [|apply rf_wrap]; apply rf_flat; use_ih H Hwf.
  - apply rf_wrap. apply rf_cons; [reflexivity|]. apply rf_app; [|reflexivity].
    apply rf_join. apply Forall_map_iff. use_ih H Hwf.
  - destruct ch as [|c ch]; [reflexivity|].
    apply rf_wrap. apply rf_app; [destruct (_ && _); reflexivity|].
    apply rf_app; [|destruct (_ && _); reflexivity].
    apply rf_join. apply Forall_map_iff. use_ih H Hwf.
  - apply andb_true_iff in Hwf. destruct Hwf as [Hh Hwf].
    apply rf_wrap. apply rf_cons; [reflexivity|]. apply rf_app.
    + destruct h as [h'|]; [|reflexivity].
      apply rf_app; [|reflexivity]. apply rf_wrap. apply rf_cons; [reflexivity|]. eauto.
    + apply rf_app; [|reflexivity]. apply rf_wrap. apply rf_cons; [reflexivity|]. apply rf_flat. use_ih H0 Hwf.
  - apply rf_app; [|reflexivity]. apply rf_wrap. apply rf_cons; [reflexivity|]. apply rf_flat. use_ih H Hwf.
  - apply rf_app; [|reflexivity]. apply rf_wrap. apply rf_flat. use_ih H Hwf.
  - match goal with |- raw_free (match ?x with _ => _ end) => destruct x end; [reflexivity|].
    apply rf_app; [|reflexivity]. apply rf_join. apply Forall_map_iff. use_ih H Hwf.
Qed.

(* non-vacuity: a hostile tree satisfies wf_attrs and renders escaped *)
Example hostile_example :
  let t := Document [Paragraph [Image (mkLink $"x""onerror=""alert(1)" $"t""<" [] None []) [RawText $"a<b"]]] in
  wf_attrs t = true /\
  render_html (mkHopts false false) t = $"<p><img src=""x%22onerror=%22alert(1)"" alt=""a&lt;b"" title=""t&quot;&lt;"" /></p>" ++ [10].
Proof. vm_compute. split; reflexivity. Qed.
