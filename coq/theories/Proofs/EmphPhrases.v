(* C06, unbounded: sentences with ANY NUMBER of emphasised phrases.  The text  t0 R1 w1 R1 t1 R2 w2 R2 t2 ... Rn wn Rn tn
   - every Ri a run of one or two * or _, every wi free of trigger characters, beginning and ending with a character that is
   neither white space nor punctuation, every ti (i >= 1) a non-empty stretch of trigger-free text that begins and ends with
   white space or punctuation, t0 trigger-free and empty or ending so - is scanned into exactly the n pairs of delimiters, and
   process_emphasis (Proofs/EmphPairs.v) turns them into exactly the n matches, in order: the core tokens the code finds are the n
   emphasised phrases and nothing else, for every n. *)
From Coq Require Import ZArith List Bool Lia.
From Mistletoe Require Import Base.Sx Base.PyStr Base.PyText Gen.GenTables Gen.GenRegex Gen.GenConfig Re.ReMatch
     Model.SpanTokenizer Model.Tree Model.Unescape Model.CoreTokens Model.Inline
     Proofs.ReFirst Proofs.ReNeeds Proofs.Prose Proofs.PlainProse Proofs.ListLaw Proofs.ProseLines Proofs.EmphSimple Proofs.EmphSentence Proofs.EmphPairs Proofs.ChainTokens.
Import ListNotations.
Local Open Scope Z_scope.

(* ---- the two delimiters of a phrase, whatever stands before and after (only the neighbouring characters matter) ---- *)
Section Gen.
  Variables (ch : Z) (k : nat) (pre w post : str).
  Hypothesis Hch : ch = 42 \/ ch = 95.
  Hypothesis Hk : (k <= 1)%nat.
  Hypothesis Hw : plain_text w = true.
  Hypothesis Hne : w <> [].
  Hypothesis Hfirst : alnum_like (hd 0 w) = true.
  Hypothesis Hlast : alnum_like (last w 0) = true.
  Hypothesis Hpe : pre = [] \/ edge_ok (last pre 0) = true.
  Hypothesis Hpo : post = [] \/ edge_ok (hd 0 post) = true.
  Let R := repeat ch (S k).
  Let s := pre ++ R ++ w ++ R ++ post.
  Let K := Z.of_nat (S k).
  Let a := slen pre.
  Let b := a + K + slen w.
  Let e := b + K.

  Lemma g_sl_s : slen s = e + slen post.
  Proof. unfold s, e, b, a, R, K. rewrite !slen_app, !slen_repeat. lia. Qed.
  Lemma g_sl_R : slen R = K.  Proof. unfold R, K. apply slen_repeat. Qed.
  Lemma g_Kp : 0 < K.  Proof. unfold K. lia. Qed.
  Lemma g_wp : 0 < slen w.  Proof. destruct w; [contradiction|]. unfold slen. cbn [length]. lia. Qed.
  Lemma g_a0 : 0 <= a.  Proof. unfold a, slen. lia. Qed.
  Lemma g_p0 : 0 <= slen post.  Proof. unfold slen. lia. Qed.

  Definition g_E1 : delim := new_delim a (a + K) s.
  Definition g_E2 : delim := new_delim b e s.

  (* positions of the text *)
  Lemma g_at_a : char_at s a = ch.
  Proof. unfold s, a, R. cbn [repeat app]. apply char_at_mid. Qed.
  Lemma g_at_w0 : char_at s (a + K) = hd 0 w.
  Proof.
    destruct w as [|c t] eqn:Ew; [contradiction|]. cbn [hd]. unfold s. rewrite app_assoc.
    replace (a + K) with (slen (pre ++ R)) by (rewrite slen_app, g_sl_R; reflexivity). cbn [app]. apply char_at_mid.
  Qed.
  Lemma g_at_wl : char_at s (b - 1) = last w 0.
  Proof.
    destruct (exists_last Hne) as (t & c & Ew). rewrite Ew, last_last. unfold s. rewrite Ew.
    replace (b - 1) with (slen (pre ++ R ++ t)) by (unfold b, a; rewrite Ew, !slen_app, g_sl_R; unfold slen; cbn [length]; lia).
    replace (pre ++ R ++ (t ++ [c]) ++ R ++ post) with ((pre ++ R ++ t) ++ c :: R ++ post) by (rewrite <- !app_assoc; reflexivity).
    apply char_at_mid.
  Qed.
  Lemma g_at_b : char_at s b = ch.
  Proof.
    unfold s. replace b with (slen (pre ++ R ++ w)) by (unfold b, a; rewrite !slen_app, g_sl_R; lia).
    replace (pre ++ R ++ w ++ R ++ post) with ((pre ++ R ++ w) ++ ch :: repeat ch k ++ post) by (unfold R; cbn [repeat]; rewrite <- !app_assoc; reflexivity).
    apply char_at_mid.
  Qed.

  Lemma g_prev_edge : edge_ok (if 0 <? a then char_at s (a - 1) else 32) = true.
  Proof.
    destruct Hpe as [Ep|Ep].
    - unfold a. rewrite Ep. reflexivity.
    - destruct (exists_last (l := pre)) as (t & c & Et); [intros N; rewrite N in Ep; vm_compute in Ep; discriminate|].
      assert (0 <? a = true) as -> by (apply Z.ltb_lt; unfold a; rewrite Et, slen_app; unfold slen; cbn [length]; lia).
      rewrite Et, last_last in Ep. unfold s. rewrite Et. replace (a - 1) with (slen t) by (unfold a; rewrite Et, slen_app; unfold slen; cbn [length]; lia).
      rewrite <- app_assoc. cbn [app]. rewrite char_at_mid. exact Ep.
  Qed.

  Lemma g_next_edge : edge_ok (if e <? slen s then char_at s e else 32) = true.
  Proof.
    destruct Hpo as [Ep|Ep].
    - rewrite g_sl_s, Ep. unfold slen at 1. cbn [length Z.of_nat]. rewrite Z.add_0_r, Z.ltb_irrefl. reflexivity.
    - assert (Hx : exists c t, post = c :: t) by (destruct post as [|c t]; [vm_compute in Ep; discriminate|exists c, t; reflexivity]).
      destruct Hx as (c & t & Et). rewrite Et in Ep. cbn [hd] in Ep.
      assert (e <? slen s = true) as -> by (apply Z.ltb_lt; rewrite g_sl_s, Et; unfold slen; cbn [length]; lia).
      unfold s. replace e with (slen (pre ++ R ++ w ++ R)) by (unfold e, b, a; rewrite !slen_app, g_sl_R; lia).
      rewrite Et. replace (pre ++ R ++ w ++ R ++ c :: t) with ((pre ++ R ++ w ++ R) ++ c :: t) by (rewrite <- !app_assoc; reflexivity).
      rewrite char_at_mid. exact Ep.
  Qed.

  (* ---- the two delimiters ---- *)
  Lemma g_ty_R g_a0' : g_a0' = a \/ g_a0' = b -> substr s g_a0' (g_a0' + K) = R.
  Proof.
    intros [->| ->].
    - unfold substr. replace (a + K - a) with (slen R) by (rewrite g_sl_R; lia). unfold s, a.
      rewrite <- (app_nil_r R) at 2. replace (slen R) with (slen pre + slen R - slen pre) at 1 by lia.
      pose proof (substr_mid pre R (w ++ R ++ post)) as M. unfold substr in M. replace (slen pre + slen R - slen pre) with (slen R) by lia. 
      replace (slen pre + slen R - slen pre) with (slen R) in M by lia. rewrite app_nil_r. exact M.
    - pose proof (substr_mid (pre ++ R ++ w) R post) as M. replace (slen (pre ++ R ++ w)) with b in M by (unfold b, a; rewrite !slen_app, g_sl_R; lia).
      rewrite g_sl_R in M. unfold s. replace (pre ++ R ++ w ++ R ++ post) with ((pre ++ R ++ w) ++ R ++ post) by (rewrite <- !app_assoc; reflexivity). exact M.
  Qed.

  Lemma g_emph_flag : (ch =? 42) || (ch =? 95) = true.
  Proof. destruct Hch as [->| ->]; reflexivity. Qed.

  Lemma g_E1_eq : g_E1 = mkDelim (ch :: repeat ch k) K K true a (a + K) true true false.
  Proof.
    pose proof g_Kp as HK. pose proof g_wp as Hwp. pose proof g_sl_s as Hs. pose proof g_p0 as Hp0. pose proof g_a0 as Ha0.
    unfold g_E1, new_delim. rewrite (g_ty_R a (or_introl eq_refl)). change R with (ch :: repeat ch k). cbv iota. rewrite g_emph_flag. cbn [andb].
    pose proof Hfirst as HF. unfold alnum_like in HF. apply andb_true_iff in HF as [F1 F2]. apply negb_true_iff in F1, F2.
    pose proof g_prev_edge as PE. unfold edge_ok in PE.
    assert (L : is_left_delimiter a (a + K) s = true).
    { unfold is_left_delimiter, succeeded_by. assert (a + K <? slen s = true) as -> by (apply Z.ltb_lt; unfold e, b in Hs; lia). rewrite g_at_w0, F1, F2. reflexivity. }
    assert (Rt : is_right_delimiter a (a + K) s = false).
    { unfold is_right_delimiter, preceded_by, succeeded_by. assert (a + K <? slen s = true) as -> by (apply Z.ltb_lt; unfold e, b in Hs; lia). rewrite g_at_w0, F1, F2.
      destruct (is_uws (if 0 <? a then char_at s (a - 1) else 32)) eqn:U; [reflexivity|]. cbn [orb] in PE. rewrite PE. reflexivity. }
    assert (Op : is_opener a (a + K) s = true) by (unfold is_opener; rewrite g_at_a, L, Rt; destruct (ch =? 42); reflexivity).
    assert (Cl : is_closer a (a + K) s = false) by (unfold is_closer; rewrite g_at_a, L, Rt; destruct (ch =? 42); reflexivity).
    rewrite Op, Cl. f_equal; lia.
  Qed.

  Lemma g_E2_eq : g_E2 = mkDelim (ch :: repeat ch k) K K true b (b + K) true false true.
  Proof.
    pose proof g_Kp as HK. pose proof g_wp as Hwp. pose proof g_sl_s as Hs. pose proof g_p0 as Hp0. pose proof g_a0 as Ha0.
    unfold g_E2, new_delim, e. rewrite (g_ty_R b (or_intror eq_refl)). change R with (ch :: repeat ch k). cbv iota. rewrite g_emph_flag. cbn [andb].
    pose proof Hlast as HF. unfold alnum_like in HF. apply andb_true_iff in HF as [F1 F2]. apply negb_true_iff in F1, F2.
    pose proof g_next_edge as NE. unfold edge_ok, e in NE.
    assert (Rt : is_right_delimiter b (b + K) s = true).
    { unfold is_right_delimiter, preceded_by. assert (0 <? b = true) as -> by (apply Z.ltb_lt; unfold b; lia). rewrite g_at_wl, F1, F2. reflexivity. }
    assert (L : is_left_delimiter b (b + K) s = false).
    { unfold is_left_delimiter, succeeded_by, preceded_by. assert (0 <? b = true) as -> by (apply Z.ltb_lt; unfold b; lia). rewrite g_at_wl, F1, F2.
      destruct (is_uws (if b + K <? slen s then char_at s (b + K) else 32)) eqn:U; [reflexivity|]. cbn [orb] in NE. rewrite NE. reflexivity. }
    assert (Op : is_opener b (b + K) s = false) by (unfold is_opener; rewrite g_at_b, L, Rt; destruct (ch =? 42); reflexivity).
    assert (Cl : is_closer b (b + K) s = true) by (unfold is_closer; rewrite g_at_b, L, Rt; destruct (ch =? 42); reflexivity).
    rewrite Op, Cl. f_equal; lia.
  Qed.

End Gen.

(* ---- sentences with n phrases ---- *)
Definition phrase := (Z * nat * str * str)%type.       (* the run's character, its length - 1, the word group, the text after *)

Definition phrase_ok (p : phrase) : Prop :=
  match p with (ch, k, w, t) =>
    (ch = 42 \/ ch = 95) /\ (k <= 1)%nat /\ plain_text w = true /\ w <> [] /\ alnum_like (hd 0 w) = true /\ alnum_like (last w 0) = true /\
    plain_text t = true /\ t <> [] /\ edge_ok (hd 0 t) = true /\ edge_ok (last t 0) = true
  end.

Fixpoint body (ps : list phrase) : str :=
  match ps with
  | [] => []
  | (ch, k, w, t) :: r => repeat ch (S k) ++ w ++ repeat ch (S k) ++ t ++ body r
  end.

(* the delimiters the scanner must leave behind, by position *)
Fixpoint pairs_at (a : Z) (ps : list phrase) : list (delim * delim) :=
  match ps with
  | [] => []
  | (ch, k, w, t) :: r =>
    let K := Z.of_nat (S k) in
    let b := a + K + slen w in
    (mkDelim (ch :: repeat ch k) K K true a (a + K) true true false,
     mkDelim (ch :: repeat ch k) K K true b (b + K) true false true) :: pairs_at (b + K + slen t) r
  end.

Lemma hd_app_ne (t r : str) : t <> [] -> hd 0 (t ++ r) = hd 0 t.
Proof. destruct t; [contradiction|reflexivity]. Qed.

Lemma scan_phrases s fn : forall ps pre st fuel, s = pre ++ body ps -> (pre = [] \/ edge_ok (last pre 0) = true) -> clean st -> Forall phrase_ok ps ->
  exists st', scan_loop (length (body ps) + fuel) s fn (slen pre) None st = scan_loop fuel s fn (slen s) None st' /\ clean st' /\
              sc_ds st' = sc_ds st ++ flat (pairs_at (slen pre) ps) /\ sc_ms st' = sc_ms st /\ sc_code st' = sc_code st.
Proof.
  induction ps as [|[[[ch k] w] t] r IH]; intros pre st fuel Es Hpe Hc Hok.
  - cbn [body length Nat.add]. cbn [body] in Es. rewrite app_nil_r in Es. rewrite Es. exists st. cbn [pairs_at flat flat_map]. rewrite !app_nil_r. split; [reflexivity|]. split; [exact Hc|]. split; [reflexivity|split; reflexivity].
  - apply Forall_cons_iff in Hok as [Hp Hr]. destruct Hp as (Hch & Hk & Hw & Hne & Hf & Hl & Ht & Htne & Hth & Htl).
    cbn [body] in *. set (R := repeat ch (S k)) in *. set (K := Z.of_nat (S k)).
    assert (HR : slen R = K) by (unfold R, K; apply slen_repeat).
    destruct Hc as (Hrun & Hesc & Him).
    replace (length (R ++ w ++ R ++ t ++ body r) + fuel)%nat with (S k + (length w + (S k + (length t + (length (body r) + fuel)))))%nat
      by (unfold R; rewrite !app_length, !repeat_length; lia).
    (* the opening run *)
    rewrite (scan_run_seg s fn ch Hch k _ pre (w ++ R ++ t ++ body r) st Es Hesc Hrun). fold K.
    replace (slen pre + K) with (slen (pre ++ R)) by (rewrite slen_app, HR; reflexivity).
    (* the word group *)
    rewrite (scan_inert_seg s fn w _ (pre ++ R) (R ++ t ++ body r) (in_run st ch (slen pre))); [|rewrite Es, <- !app_assoc; reflexivity|exact (plain_inert w Hw)|exact Hne|reflexivity|cbn; exact Hch].
    unfold after_inert, in_run. cbn [sc_run sc_ds sc_ms sc_start sc_code].
    set (st1 := mkScan (sc_ds st ++ [new_delim (slen pre) (slen (pre ++ R)) s]) (sc_ms st) false None false (slen pre) (sc_code st)).
    replace (slen (pre ++ R) + slen w) with (slen (pre ++ R ++ w)) by (rewrite !slen_app; lia).
    (* the closing run *)
    rewrite (scan_run_seg s fn ch Hch k _ (pre ++ R ++ w) (t ++ body r) st1); [|rewrite Es, <- !app_assoc; reflexivity|reflexivity|reflexivity].
    fold K. replace (slen (pre ++ R ++ w) + K) with (slen (pre ++ R ++ w ++ R)) by (rewrite !slen_app, HR; lia).
    (* the text after it *)
    rewrite (scan_inert_seg s fn t _ (pre ++ R ++ w ++ R) (body r) (in_run st1 ch (slen (pre ++ R ++ w)))); [|rewrite Es, <- !app_assoc; reflexivity|exact (plain_inert t Ht)|exact Htne|reflexivity|cbn; exact Hch].
    unfold after_inert, in_run, st1. cbn [sc_run sc_ds sc_ms sc_start sc_code].
    replace (slen (pre ++ R ++ w ++ R) + slen t) with (slen (pre ++ R ++ w ++ R ++ t)) by (rewrite !slen_app; lia).
    (* the two delimiters *)
    assert (D1 : new_delim (slen pre) (slen (pre ++ R)) s = mkDelim (ch :: repeat ch k) K K true (slen pre) (slen pre + K) true true false).
    { pose proof (g_E1_eq ch k pre w (t ++ body r) Hch Hk Hw Hne Hf Hl Hpe) as E. unfold g_E1 in E. cbv zeta in E. fold R in E. rewrite <- Es in E.
      rewrite slen_app, HR. exact E. }
    assert (D2 : new_delim (slen (pre ++ R ++ w)) (slen (pre ++ R ++ w ++ R)) s =
                 mkDelim (ch :: repeat ch k) K K true (slen pre + K + slen w) (slen pre + K + slen w + K) true false true).
    { assert (Hpo : t ++ body r = [] \/ edge_ok (hd 0 (t ++ body r)) = true) by (right; rewrite hd_app_ne by exact Htne; exact Hth).
      pose proof (g_E2_eq ch k pre w (t ++ body r) Hch Hk Hw Hne Hf Hl Hpo) as E. unfold g_E2 in E. cbv zeta in E. fold R in E. rewrite <- Es in E.
      replace (slen (pre ++ R ++ w)) with (slen pre + K + slen w) by (rewrite !slen_app, HR; lia).
      replace (slen (pre ++ R ++ w ++ R)) with (slen pre + K + slen w + K) by (rewrite !slen_app, HR; lia). exact E. }
    rewrite D1, D2.
    (* the rest *)
    set (st2 := mkScan ((sc_ds st ++ [mkDelim (ch :: repeat ch k) K K true (slen pre) (slen pre + K) true true false]) ++
                        [mkDelim (ch :: repeat ch k) K K true (slen pre + K + slen w) (slen pre + K + slen w + K) true false true])
                       (sc_ms st) false None false (slen (pre ++ R ++ w)) (sc_code st)).
    assert (Hpe' : pre ++ R ++ w ++ R ++ t = [] \/ edge_ok (last (pre ++ R ++ w ++ R ++ t) 0) = true).
    { right. rewrite !app_assoc. rewrite last_app_ne by exact Htne. exact Htl. }
    destruct (IH (pre ++ R ++ w ++ R ++ t) st2 fuel) as (st' & E' & Hc' & Hd' & Hm' & Hco'); [rewrite Es, <- !app_assoc; reflexivity|exact Hpe'|repeat split|exact Hr|].
    exists st'. split; [exact E'|]. split; [exact Hc'|]. split; [|split; [exact Hm'|exact Hco']].
    rewrite Hd'. unfold st2. cbn [sc_ds pairs_at flat flat_map fst snd app]. fold K.
    replace (slen (pre ++ R ++ w ++ R ++ t)) with (slen pre + K + slen w + K + slen t) by (rewrite !slen_app, HR; lia).
    rewrite <- !app_assoc. reflexivity.
Qed.

Lemma pairs_ok : forall ps a, 0 <= a -> Forall phrase_ok ps -> Forall pair_ok (pairs_at a ps).
Proof.
  induction ps as [|[[[ch k] w] t] r IH]; intros a Ha Hok; [constructor|].
  apply Forall_cons_iff in Hok as [Hp Hr]. destruct Hp as (Hch & Hk & _). cbn [pairs_at]. constructor.
  - cbn [pair_ok d_emph d_open d_close d_number d_start type0 d_type].
    assert (HK : Z.of_nat (S k) = 1 \/ Z.of_nat (S k) = 2) by (destruct k as [|[|k']]; [left; reflexivity|right; reflexivity|lia]).
    repeat split; try reflexivity; try lia; exact HK.
  - apply IH; [unfold slen; lia|exact Hr].
Qed.

Lemma pairs_length : forall ps a, length (pairs_at a ps) = length ps.
Proof. induction ps as [|[[[ch k] w] t] r IH]; intros a; [reflexivity|]. cbn [pairs_at length]. rewrite IH. reflexivity. Qed.

Lemma body_length ps : (length ps <= length (body ps))%nat.
Proof.
  induction ps as [|[[[ch k] w] t] r IH]; [cbn; lia|]. cbn [body length]. rewrite !app_length, repeat_length. lia.
Qed.

(* the characters the other finders need do not occur *)
Lemma body_no c : mem c triggers = true -> c <> 42 -> c <> 95 -> forall ps, Forall phrase_ok ps -> mem c (body ps) = false.
Proof.
  intros Hc C1 C2. induction ps as [|[[[ch k] w] t] r IH]; intros Hok; [reflexivity|].
  apply Forall_cons_iff in Hok as [Hp Hr]. destruct Hp as (Hch & _ & Hw & _ & _ & _ & Ht & _).
  cbn [body]. unfold mem. rewrite !existsb_app. fold (mem c (repeat ch (S k))). fold (mem c w). fold (mem c t). fold (mem c (body r)).
  rewrite (plain_no c w Hc Hw), (plain_no c t Hc Ht), (IH Hr).
  rewrite (mem_repeat c ch) by (destruct Hch as [->| ->]; assumption). reflexivity.
Qed.

Section Sentence.
  Variables (t0 : str) (ps : list phrase) (fn : footnotes).
  Hypothesis Ht0 : plain_text t0 = true.
  Hypothesis He0 : t0 = [] \/ edge_ok (last t0 0) = true.
  Hypothesis Hps : Forall phrase_ok ps.
  Let s := t0 ++ body ps.

  Lemma ph_no c : mem c triggers = true -> c <> 42 -> c <> 95 -> mem c s = false.
  Proof.
    intros Hc C1 C2. unfold s, mem. rewrite existsb_app. fold (mem c t0). fold (mem c (body ps)).
    rewrite (plain_no c t0 Hc Ht0), (body_no c Hc C1 C2 ps Hps). reflexivity.
  Qed.

  Lemma ph_no_code : code_search s 0 = None.
  Proof.
    unfold code_search. apply (search_state_none _ _ 96); [vm_compute; reflexivity|]. unfold seek. cbn [aft]. unfold drop. cbn [Z.to_nat skipn].
    apply ph_no; [reflexivity|discriminate|discriminate].
  Qed.

  Definition the_pairs : list (delim * delim) := pairs_at (slen t0) ps.

  Theorem core_finds_phrases : find_core_tokens s fn = (map (match_of s) the_pairs, []).
  Proof.
    unfold find_core_tokens. rewrite ph_no_code.
    set (st0 := mkScan [] [] false None false 0 []).
    assert (El : (S (S (length s)) = length t0 + (length (body ps) + 2))%nat) by (unfold s; rewrite app_length; lia).
    rewrite El.
    rewrite (scan_inert_any s fn t0 _ [] (body ps) st0 eq_refl (plain_inert t0 Ht0)) by (repeat split).
    change (slen [] + slen t0) with (slen t0).
    destruct (scan_phrases s fn ps t0 st0 2 eq_refl He0 ltac:(repeat split) Hps) as (st' & E & (Hr & He & Hi) & Hd & Hm & Hc).
    rewrite E. rewrite scan_end. rewrite Hr. rewrite Hd, Hm, Hc. cbn [st0 sc_ds sc_ms sc_code app].
    fold the_pairs.
    rewrite (sequential_pairs s the_pairs []).
    - reflexivity.
    - apply pairs_ok; [unfold slen; lia|exact Hps].
    - unfold the_pairs. rewrite pairs_length. pose proof (body_length ps). unfold s. rewrite app_length. lia.
  Qed.
End Sentence.

(* ---- the tokens ---- *)
Definition phrase_toks (ps : list phrase) : list tok :=
  flat_map (fun p => match p with (ch, k, w, t) => [(if Z.of_nat (S k) =? 2 then Strong [ch] [RawText w] else Emphasis [ch] [RawText w]); RawText t] end) ps.

Definition out_g (start : Z) (l : list cand) (len : Z) : list otok :=
  body_g start l ++ (if end_of start l =? len then [] else [ORaw (end_of start l) len]).
Lemma out_g_cons start c r len : out_g start (c :: r) len = gap start (cs c) ++ leaf_otok c :: out_g (ce c) r len.
Proof. unfold out_g. cbn [body_g]. rewrite end_of_cons, <- app_assoc. reflexivity. Qed.

Definition cands_from (i : Z) (ms : list mobj) : list cand := map (fun p => cand_of (fst p) (snd p)) (number_from i (map CCore ms)).

Lemma src_at_app (done : list csrc) x rest : src_at (done ++ x :: rest) (Z.of_nat (length done)) = x.
Proof. unfold src_at. rewrite Nat2Z.id. rewrite app_nth2 by lia. rewrite Nat.sub_diag. reflexivity. Qed.

Lemma gap_raw (g : str) (a0 : Z) (X : list otok) : (if a0 + slen g >? a0 then X else []) = match g with [] => [] | _ => X end.
Proof.
  destruct g as [|c r]; [unfold slen; cbn [length Z.of_nat]; rewrite Z.add_0_r, Z.gtb_ltb, Z.ltb_irrefl; reflexivity|].
  assert (a0 + slen (c :: r) >? a0 = true) as -> by (apply Z.gtb_lt; unfold slen; cbn [length]; lia). reflexivity.
Qed.

Lemma raw_gap_tok s srcs p0 (g rest : str) : s = p0 ++ g ++ rest -> plain_text g = true ->
  map (build_otok s srcs) (match g with [] => [] | _ => [ORaw (slen p0) (slen p0 + slen g)] end) = raw_if g.
Proof.
  intros Es Hg. destruct g as [|c g']; [reflexivity|]. cbn [map build_otok raw_if]. f_equal. f_equal.
  pose proof (substr_mid p0 (c :: g') rest) as M. rewrite <- Es in M. rewrite M. apply unescape_plain. exact Hg.
Qed.

Lemma phrases_tokens s srcs : forall ps p0 gtxt done,
  s = p0 ++ gtxt ++ body ps -> plain_text gtxt = true -> Forall phrase_ok ps ->
  srcs = done ++ map CCore (map (match_of s) (pairs_at (slen (p0 ++ gtxt)) ps)) ->
  map (build_otok s srcs) (out_g (slen p0) (cands_from (Z.of_nat (length done)) (map (match_of s) (pairs_at (slen (p0 ++ gtxt)) ps))) (slen s)) =
  raw_if gtxt ++ phrase_toks ps.
Proof.
  induction ps as [|[[[ch k] w] t] r IH]; intros p0 gtxt done Es Hg Hok Hsrc.
  - cbn [pairs_at map cands_from number_from phrase_toks flat_map]. rewrite app_nil_r. unfold cands_from. cbn [map number_from]. unfold out_g. cbn [body_g app]. unfold end_of. cbn [rev].
    cbn [body] in Es. rewrite app_nil_r in Es.
    assert (El : slen s = slen p0 + slen gtxt) by (rewrite Es, slen_app; reflexivity). rewrite El.
    assert (Eg : (if slen p0 =? slen p0 + slen gtxt then [] else [ORaw (slen p0) (slen p0 + slen gtxt)]) = match gtxt with [] => [] | _ => [ORaw (slen p0) (slen p0 + slen gtxt)] end).
    { destruct gtxt as [|c g']; [unfold slen at 2; cbn [length Z.of_nat]; rewrite Z.add_0_r, Z.eqb_refl; reflexivity|].
      assert (slen p0 =? slen p0 + slen (c :: g') = false) as -> by (apply Z.eqb_neq; unfold slen; cbn [length]; lia). reflexivity. }
    rewrite Eg. apply (raw_gap_tok s srcs p0 gtxt []); [rewrite app_nil_r; exact Es|exact Hg].
  - apply Forall_cons_iff in Hok as [Hp Hr]. destruct Hp as (Hch & Hk & Hw & Hne & Hf & Hl & Ht & Htne & Hth & Htl).
    set (K := Z.of_nat (S k)). set (R := repeat ch (S k)).
    assert (HR : slen R = K) by (unfold R, K; apply slen_repeat).
    assert (HK : 0 < K) by (unfold K; lia).
    assert (Hwp : 0 < slen w) by (unfold slen; destruct (length w) eqn:Elw; [apply length_zero_iff_nil in Elw; contradiction|lia]).
    set (a := slen (p0 ++ gtxt)) in *.
    set (b := a + K + slen w).
    cbn [pairs_at map] in *. fold K in Hsrc |- *. fold b in Hsrc |- *.
    set (o := mkDelim (ch :: repeat ch k) K K true a (a + K) true true false) in *.
    set (c := mkDelim (ch :: repeat ch k) K K true b (b + K) true false true) in *.
    set (m1 := match_of s (o, c)) in *.
    assert (Em1 : m1 = mkMobj a (b + K) [(a + K, b, substr s (a + K) b)] (if K =? 2 then $"Strong" else $"Emphasis") [char_at s a] [] None []).
    { unfold m1, match_of, o, c. cbn [d_number d_end d_start]. replace (a + K - K) with a by lia. replace (b + K - K) with b by lia. reflexivity. }
    unfold cands_from. cbn [map number_from fst snd]. fold (cands_from (Z.of_nat (length done) + 1) (map (match_of s) (pairs_at (b + K + slen t) r))).
    rewrite out_g_cons.
    (* the candidate of the first phrase *)
    assert (Ec : cand_of (Z.of_nat (length done)) (CCore m1) = mkCand a (b + K) (a + K) b 3 true (Z.of_nat (length done))).
    { rewrite Em1. reflexivity. }
    rewrite Ec. cbn [cs ce]. rewrite leaf_otok_inner by reflexivity. cbn [ps pe].
    assert (a + K =? b = false) as -> by (apply Z.eqb_neq; unfold b; lia).
    (* the text: where the pieces are *)
    assert (Es' : s = (p0 ++ gtxt ++ R ++ w ++ R) ++ t ++ body r) by (rewrite Es; cbn [body]; fold R; rewrite <- !app_assoc; reflexivity).
    assert (Ea : slen (p0 ++ gtxt ++ R ++ w ++ R) = b + K) by (unfold b, a; rewrite !slen_app, HR; lia).
    assert (Einner : substr s (a + K) b = w).
    { pose proof (substr_mid (p0 ++ gtxt ++ R) w (R ++ t ++ body r)) as M.
      replace (slen (p0 ++ gtxt ++ R)) with (a + K) in M by (unfold a; rewrite !slen_app, HR; lia).
      replace (a + K + slen w) with b in M by reflexivity.
      replace ((p0 ++ gtxt ++ R) ++ w ++ R ++ t ++ body r) with s in M by (rewrite Es; cbn [body]; fold R; rewrite <- !app_assoc; reflexivity). exact M. }
    assert (Echar : char_at s a = ch).
    { rewrite Es. cbn [body]. fold R. unfold R. cbn [repeat]. rewrite app_assoc. unfold a. cbn [app]. apply char_at_mid. }
    (* the rest of the list, by induction *)
    assert (Eat : slen ((p0 ++ gtxt ++ R ++ w ++ R) ++ t) = b + K + slen t) by (rewrite slen_app, Ea; reflexivity).
    assert (H4 : srcs = (done ++ [CCore m1]) ++ map CCore (map (match_of s) (pairs_at (slen ((p0 ++ gtxt ++ R ++ w ++ R) ++ t)) r)))
      by (rewrite Eat, Hsrc, <- app_assoc; reflexivity).
    pose proof (IH (p0 ++ gtxt ++ R ++ w ++ R) t (done ++ [CCore m1]) Es' Ht Hr H4) as IH'.
    rewrite Eat, Ea in IH'. rewrite app_length in IH'. cbn [length] in IH'. replace (Z.of_nat (length done + 1)) with (Z.of_nat (length done) + 1) in IH' by lia.
    rewrite map_app. cbn [map]. rewrite IH'.
    (* the gap before, the phrase, the text after *)
    cbn [phrase_toks flat_map app]. fold (phrase_toks r).
    assert (Eraw : map (build_otok s srcs) (gap (slen p0) a) = raw_if gtxt).
    { unfold gap, a. rewrite slen_app, gap_raw. apply (raw_gap_tok s srcs p0 gtxt (body ((ch, k, w, t) :: r)) Es Hg). }
    rewrite Eraw. f_equal. cbn [map build_otok cid]. rewrite Hsrc, src_at_app.
    rewrite Einner, (unescape_plain w Hw). cbn [map build_otok].
    assert (Tk : build_inner (CCore m1) [RawText w] = (if K =? 2 then Strong [ch] [RawText w] else Emphasis [ch] [RawText w])).
    { rewrite Em1, Echar. cbn [build_inner m_type m_delimiter]. destruct (K =? 2); reflexivity. }
    rewrite Tk. unfold raw_if. destruct t as [|c0 t']; [contradiction|]. reflexivity.
Qed.

Lemma cands_chain s : forall ps a i, Forall phrase_ok ps -> 0 <= a -> chain (cands_from i (map (match_of s) (pairs_at a ps))).
Proof.
  induction ps as [|[[[ch k] w] t] r IH]; intros a i Hok Ha; [exact I|].
  apply Forall_cons_iff in Hok as [Hp Hr]. cbn [pairs_at map]. unfold cands_from. cbn [map number_from fst snd].
  fold (cands_from (i + 1) (map (match_of s) (pairs_at (a + Z.of_nat (S k) + slen w + Z.of_nat (S k) + slen t) r))).
  specialize (IH (a + Z.of_nat (S k) + slen w + Z.of_nat (S k) + slen t) (i + 1) Hr ltac:(unfold slen; lia)).
  destruct r as [|[[[ch2 k2] w2] t2] r']; [exact I|].
  cbn [pairs_at map] in *. unfold cands_from in *. cbn [map number_from fst snd] in *. cbn [chain] in *.
  split; [|split; [|exact IH]]; cbn [cand_of match_of field_span sk_parse_group nth_error m_fields m_start m_end cs ce d_number d_end d_start]; unfold slen; lia.
Qed.

Section Tokens.
  Variables (t0 : str) (ps : list phrase) (fn : footnotes) (types : list span_kind).
  Hypothesis Ht0 : plain_text t0 = true.
  Hypothesis He0 : t0 = [] \/ edge_ok (last t0 0) = true.
  Hypothesis Hps : Forall phrase_ok ps.
  Hypothesis Hq : forallb kind_quiet_e (removelast types) = true.
  Hypothesis Hc : filter (fun kd => match kd with SK_CoreTokens => true | _ => false end) (removelast types) = [SK_CoreTokens].
  Let s := t0 ++ body ps.
  Let ms := map (match_of s) (pairs_at (slen t0) ps).

  Lemma ph_no_e c : mem c triggers_e = true -> mem c s = false.
  Proof.
    intros H. apply (ph_no t0 ps Ht0 Hps).
    - unfold mem, triggers_e, triggers in *. cbn [existsb] in *.
      repeat (apply orb_true_iff in H; destruct H as [H|H]); try discriminate; rewrite H; cbn [orb]; rewrite ?orb_true_r; reflexivity.
    - intros ->. vm_compute in H. discriminate.
    - intros ->. vm_compute in H. discriminate.
  Qed.

  Lemma find_all_phrases : forall ts, forallb kind_quiet_e ts = true ->
    find_all ts s fn [] = flat_map (fun kd => match kd with SK_CoreTokens => map CCore ms | _ => [] end) ts.
  Proof.
    induction ts as [|kd ts IH]; intros Hq'; [reflexivity|].
    cbn [forallb] in Hq'. apply andb_true_iff in Hq' as [Hkq Hts]. cbn [find_all flat_map].
    assert (F : match kd with SK_CoreTokens | SK_InlineCode | SK_RawText => True | _ => finditer (snd (re_of kd)) (fst (re_of kd)) s = [] end).
    { destruct kd; try exact I; cbn [kind_quiet_e] in Hkq; apply existsb_exists in Hkq as (c & Hin & Hn);
        (apply (finditer_none _ _ c s Hn); apply ph_no_e; unfold mem; apply existsb_exists; exists c; split; [exact Hin|apply Z.eqb_refl]). }
    destruct kd; cbn [find_kind];
      try (unfold s; rewrite (core_finds_phrases t0 ps fn Ht0 He0 Hps); cbn [map app fst snd]; fold s; fold ms; f_equal; apply IH; exact Hts);
      try (cbn [map app]; apply IH; exact Hts);
      (cbn [re_of fst snd] in F |- *; rewrite F; cbn [map app]; apply IH; exact Hts).
  Qed.

  Theorem tokenize_inner_phrases : tokenize_inner types fn s = raw_if t0 ++ phrase_toks ps.
  Proof.
    unfold tokenize_inner. rewrite (find_all_phrases _ Hq).
    assert (Es : flat_map (fun kd => match kd with SK_CoreTokens => map CCore ms | _ => [] end) (removelast types) = map CCore ms).
    { clear Hq. revert Hc. generalize (removelast types) as ts.
      assert (G : forall ts n, length (filter (fun kd => match kd with SK_CoreTokens => true | _ => false end) ts) = n ->
                flat_map (fun kd => match kd with SK_CoreTokens => map CCore ms | _ => [] end) ts = concat (repeat (map CCore ms) n)).
      { induction ts as [|kd ts IH]; intros n Hn; [cbn in Hn; subst n; reflexivity|]. cbn [flat_map filter] in *.
        destruct kd; try (cbn [app]; apply IH; exact Hn). destruct n as [|n]; [discriminate|]. cbn [length] in Hn. cbn [repeat concat]. f_equal. apply IH. lia. }
      intros ts H. rewrite (G ts 1%nat) by (rewrite H; reflexivity). cbn [repeat concat]. apply app_nil_r. }
    rewrite Es. fold (cands_from 0 ms).
    rewrite (tokenize_chain_g (cands_from 0 ms) (slen s)) by (apply cands_chain; [exact Hps|unfold slen; lia]).
    fold (out_g 0 (cands_from 0 ms) (slen s)).
    pose proof (phrases_tokens s (map CCore ms) ps [] t0 [] eq_refl Ht0 Hps eq_refl) as T.
    cbn [app length Z.of_nat] in T. unfold slen at 1 in T. cbn [length Z.of_nat] in T. exact T.
  Qed.
End Tokens.

(* ---- the statement with computable hypotheses ---- *)
Definition phrase_okb (p : phrase) : bool :=
  match p with (ch, k, w, t) =>
    ((ch =? 42) || (ch =? 95)) && Nat.leb k 1 && plain_text w && (match w with [] => false | _ => true end) && alnum_like (hd 0 w) && alnum_like (last w 0) &&
    plain_text t && (match t with [] => false | _ => true end) && edge_ok (hd 0 t) && edge_ok (last t 0)
  end.
Lemma phrase_okb_spec p : phrase_okb p = true -> phrase_ok p.
Proof.
  destruct p as [[[ch k] w] t]. unfold phrase_okb, phrase_ok. intros H. repeat rewrite andb_true_iff in H.
  destruct H as [[[[[[[[[H1 H2] H3] H4] H5] H6] H7] H8] H9] H10].
  repeat split; try assumption.
  - apply orb_true_iff in H1 as [H1|H1]; apply Z.eqb_eq in H1; auto.
  - apply Nat.leb_le. exact H2.
  - destruct w; [discriminate|discriminate].
  - destruct t; [discriminate|discriminate].
Qed.

Definition sentence_ok (t0 : str) (ps : list phrase) : bool :=
  plain_text t0 && (match t0 with [] => true | _ => edge_ok (last t0 0) end) && forallb phrase_okb ps.

Theorem emphasis_phrases types fn t0 ps :
  emph_spans types = true -> sentence_ok t0 ps = true ->
  tokenize_inner types fn (t0 ++ body ps) = raw_if t0 ++ phrase_toks ps.
Proof.
  intros Hs Ho. unfold emph_spans in Hs. apply andb_true_iff in Hs as [Hq Hc].
  unfold sentence_ok in Ho. repeat rewrite andb_true_iff in Ho. destruct Ho as [[H1 H2] H3].
  apply tokenize_inner_phrases; try assumption.
  - destruct t0; [left; reflexivity|right; exact H2].
  - apply Forall_forall. intros p Hp. rewrite forallb_forall in H3. apply phrase_okb_spec. apply H3. exact Hp.
  - destruct (filter _ _) as [|[] [|? ?]]; try discriminate. reflexivity.
Qed.

Example phrases_instance :
  let ps := [(42, 0%nat, $"one", $" and "); (95, 1%nat, $"two words", $", then "); (42, 1%nat, $"3", $".")] in
  sentence_ok ($"Say ") ps = true /\ body ps = $"*one* and __two words__, then **3**." /\
  sentence_ok ($"Say ") [(42, 0%nat, $"one", $"and")] = false.
Proof. vm_compute. repeat split; reflexivity. Qed.
