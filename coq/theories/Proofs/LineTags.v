(* C13: line numbers.  The dispatch loop is at line (start_line + k) exactly when
   it has passed k lines of its buffer, every entry is what the readers produce
   when started on the suffix that begins at its recorded line, and the two
   container readers hand their children a buffer that is line-aligned with the
   lines they consumed, numbered from the container's own line. *)
From Coq Require Import ZArith List Bool Lia.
From Mistletoe Require Import Base.Sx Base.PyStr Base.PyText Gen.GenConfig Model.CoreTokens Model.Block.
Import ListNotations.
Local Open Scope Z_scope.

Definition pre_ln (p : pre) : Z :=
  match p with
  | PBlockCode ln _ | PHeading ln _ _ _ | PQuote ln _ | PCodeFence ln _ _ _ _ _ | PThematic ln _ | PList ln _
  | PItem ln _ _ _ _ _ | PTable ln _ | PFootnote ln _ | PParagraph ln _ | PSetext ln _ | PHtmlBlock ln _ | PBlankLine ln => ln
  end.

Lemma skipn_skipn {A} (n m : nat) (l : list A) : skipn n (skipn m l) = skipn (m + n) l.
Proof.
  revert l; induction m as [|m IH]; intros l; [reflexivity|].
  destruct l as [|x l]; cbn [Nat.add skipn]; [now destruct n|apply IH].
Qed.

Section Level.
  Variable types : list block_kind.
  Variable rec : list str -> Z -> pstate -> list pre * bool * pstate.

  Lemma start_read_ln k after ln st p c st' : start_read types rec k after ln st = Some (p, c, st') -> pre_ln p = ln.
  Proof.
    unfold start_read. destruct after as [|line rest]; [discriminate|].
    destruct k; intros H;
      repeat match type of H with
             | (if ?b then _ else _) = _ => destruct b; try discriminate
             | match ?x with _ => _ end = _ => destruct x eqn:?; try discriminate
             | (let '(_, _) := ?x in _) = _ => destruct x eqn:?
             end;
      try (inversion H; subst; reflexivity);
      try (inversion H; subst; match goal with |- context [if ?b then _ else _] => destruct b end; reflexivity).
  Qed.

  Lemma try_types_ln ts after ln st p c st' : try_types types rec ts after ln st = Some (p, c, st') -> pre_ln p = ln.
  Proof.
    induction ts as [|k ts IH]; cbn; [discriminate|].
    destruct (start_read types rec k after ln st) as [[[p0 c0] s0]|] eqn:E; [|exact IH].
    intros H. inversion H; subst. eapply start_read_ln; eauto.
  Qed.

  (* every entry is produced by the readers started at the suffix that begins at its line *)
  Definition produced_at (lines : list str) (ln0 : Z) (e : pre) : Prop :=
    exists (k : nat) st c st', pre_ln e = ln0 + Z.of_nat k /\
                               try_types types rec types (skipn k lines) (ln0 + Z.of_nat k) st = Some (e, c, st').

  Lemma dispatch_suffix n : forall lines0 ln0 k after ln acc loose st es lo st',
    after = skipn k lines0 -> ln = ln0 + Z.of_nat k ->
    Forall (produced_at lines0 ln0) acc ->
    dispatch_loop types rec n after ln acc loose st = (es, lo, st') ->
    Forall (produced_at lines0 ln0) es.
  Proof.
    induction n as [|n IH]; intros lines0 ln0 k after ln acc loose st es lo st' Ha Hl Hacc H; cbn [dispatch_loop] in H.
    - inversion H; subst. apply Forall_rev. exact Hacc.
    - destruct after as [|line rest].
      + inversion H; subst. apply Forall_rev. exact Hacc.
      + destruct (try_types types rec types (line :: rest) ln st) as [[[p c] s1]|] eqn:Et.
        * assert (Hp : produced_at lines0 ln0 p).
          { exists k, st, c, s1. split.
            - rewrite <- Hl. eapply try_types_ln; eauto.
            - rewrite <- Ha, <- Hl. exact Et. }
          destruct c as [|c'].
          -- inversion H; subst es. change (rev acc ++ [p]) with (rev (p :: acc)). apply Forall_rev. constructor; auto.
          -- eapply (IH lines0 ln0 (k + S c')%nat); [| | |exact H].
             ++ rewrite Ha. rewrite skipn_skipn. reflexivity.
             ++ unfold nlines. lia.
             ++ constructor; auto.
        * eapply (IH lines0 ln0 (S k)); [| | exact Hacc|exact H].
          -- change rest with (skipn 1 (line :: rest)). rewrite Ha. rewrite skipn_skipn. f_equal. lia || reflexivity.
          -- lia.
  Qed.

  Theorem entries_start_at_their_line n lines ln0 st es lo st' :
    dispatch_loop types rec n lines ln0 [] false st = (es, lo, st') -> Forall (produced_at lines ln0) es.
  Proof. intros H. apply (dispatch_suffix n lines ln0 O lines ln0 [] false st es lo st'); [reflexivity|cbn; lia|constructor|exact H]. Qed.

  (* line numbers strictly increase along a buffer *)
  Fixpoint increasing (lo : Z) (l : list Z) : Prop :=
    match l with [] => True | x :: r => lo <= x /\ increasing (x + 1) r end.

  Lemma increasing_weaken lo lo' l : lo' <= lo -> increasing lo l -> increasing lo' l.
  Proof. destruct l; cbn; intros; [auto|]. destruct H0. split; [lia|auto]. Qed.

  Lemma increasing_snoc l : forall lo x, increasing lo l -> (forall y, In y l -> y < x) -> lo <= x -> increasing lo (l ++ [x]).
  Proof.
    induction l as [|a l IH]; intros lo x Hi Hall Hlo; cbn in *.
    - split; [lia|exact I].
    - destruct Hi as [H1 H2]. split; [exact H1|]. apply IH; auto. specialize (Hall a (or_introl eq_refl)). lia.
  Qed.

  Lemma dispatch_increasing n : forall after ln acc loose st es lo st' lo0,
    increasing lo0 (map pre_ln (rev acc)) -> (forall y, In y (map pre_ln acc) -> y < ln) -> lo0 <= ln ->
    dispatch_loop types rec n after ln acc loose st = (es, lo, st') ->
    increasing lo0 (map pre_ln es).
  Proof.
    induction n as [|n IH]; intros after ln acc loose st es lo st' lo0 Hi Hlt Hlo H; cbn [dispatch_loop] in H.
    - inversion H; subst. exact Hi.
    - destruct after as [|line rest].
      + inversion H; subst. exact Hi.
      + destruct (try_types types rec types (line :: rest) ln st) as [[[p c] s1]|] eqn:Et.
        * pose proof (try_types_ln _ _ _ _ _ _ _ Et) as Hp.
          assert (Hi' : increasing lo0 (map pre_ln (rev (p :: acc)))).
          { cbn [rev]. rewrite map_app. cbn [map]. apply increasing_snoc; auto.
            - intros y Hy. rewrite map_rev in Hy. rewrite <- in_rev in Hy. rewrite Hp. apply Hlt. exact Hy.
            - lia. }
          destruct c as [|c'].
          -- inversion H; subst es. exact Hi'.
          -- eapply IH; [exact Hi'| | |exact H].
             ++ intros y [Hy|Hy]; [unfold nlines; lia|specialize (Hlt y Hy); unfold nlines; lia].
             ++ unfold nlines. lia.
        * eapply IH; [exact Hi| | |exact H]; [intros y Hy; specialize (Hlt y Hy); lia|lia].
  Qed.

  Theorem line_numbers_increase n lines ln0 st es lo st' :
    dispatch_loop types rec n lines ln0 [] false st = (es, lo, st') -> increasing ln0 (map pre_ln es).
  Proof. intros H. eapply dispatch_increasing; [| | |exact H]; cbn; auto; [intros y []|lia]. Qed.
End Level.

(* ---- containers: the content buffer is line-aligned with the consumed lines ---- *)
Lemma quote_loop_aligned types : forall after buf_rev taken f c b buf n,
  quote_loop types after buf_rev taken f c b = (buf, n) -> (length buf + taken = n + length buf_rev)%nat.
Proof.
  induction after as [|line r IH]; intros buf_rev taken f c b buf n H; cbn [quote_loop] in H.
  - inversion H; subst. rewrite rev_length. lia.
  - repeat match type of H with (if ?x then _ else _) = _ => destruct x end;
      try (inversion H; subst; rewrite rev_length; lia);
      apply IH in H; cbn [length] in H; lia.
Qed.

(* Quote.read: one buffer line per consumed line; the nested tokenize_block is started at the quote's own line *)
Theorem quote_aligned types after buf n : quote_lines types after = (buf, n) -> length buf = n.
Proof.
  unfold quote_lines. destruct after as [|first r]; [intros H; inversion H; reflexivity|].
  intros H. apply quote_loop_aligned in H. cbn [length] in H. lia.
Qed.

Lemma item_loop_aligned types leader : forall after prepend buf_rev taken newlines buf n nm,
  (newlines <= length buf_rev)%nat -> (1 <= taken)%nat ->
  item_loop types leader after prepend buf_rev taken newlines = (buf, n, nm) ->
  (length buf + taken <= n + length buf_rev)%nat /\ (n <= taken + length after)%nat.
Proof.
  induction after as [|line r IH]; intros prepend buf_rev taken newlines buf n nm Hn Ht H;
    cbn [item_loop] in H; cbv zeta in H.
  - inversion H; subst. rewrite rev_length, skipn_length. cbn [length]. destruct newlines; lia.
  - destruct (parse_continuation line prepend) as [cont|].
    + apply IH in H; [cbn [length] in *; lia| |lia]. cbn [length]. destruct (str_eqb cont [10]); lia.
    + destruct (item_interrupt types (line :: r)).
      * inversion H; subst. rewrite rev_length, skipn_length. cbn [length]. destruct newlines; lia.
      * destruct (parse_marker line) as [[[[? ?] other] ?]|].
        -- destruct (same_marker_type leader other).
           ++ inversion H; subst. rewrite rev_length. cbn [length]. lia.
           ++ inversion H; subst. rewrite rev_length, skipn_length. cbn [length]. destruct newlines; lia.
        -- destruct newlines.
           ++ apply IH in H; [cbn [length] in *; lia| |lia]. cbn [length]. destruct (str_eqb line [10]); lia.
           ++ injection H as <- <- _. destruct buf_rev as [|x br]; [cbn in Hn; lia|].
              rewrite rev_length, skipn_length. cbn [length] in *. lia.
Qed.
