(* C05: a top-level list whose reading ran off the end of the lines is the last block - what is left
   after it is blank lines only.  With it the flag kept for lists in closed_last_independent follows
   from "the last block of A is closed", for lines as Document prepares them (each ends with its only
   newline).  The one regex fact needed: ListItem.parse_continuation answers "\n" only for a line of
   white space (continuation_pattern evaluated exactly on a line with any mix of leading spaces and tabs). *)
From Coq Require Import ZArith List Bool Lia.
From Mistletoe Require Import Base.Sx Base.PyStr Base.PyText Gen.GenTables Gen.GenRegex Gen.GenConfig Re.ReMatch Model.Tree Model.CoreTokens Model.Block
     Proofs.ReFirst Proofs.ReExact Proofs.ListLaw Proofs.BlockProgress Proofs.Independence Proofs.Independence2 Proofs.BlankLines.
Import ListNotations.
Local Open Scope Z_scope.

(* a line as Document prepares it: it ends with a newline and holds no other *)
Definition proper (l : str) : Prop := exists t, l = t ++ [10] /\ mem 10 t = false.

Definition is_sptab (c : Z) : bool := (c =? 32) || (c =? 9).

(* ---- continuation_pattern on  ws ++ c :: body ++ "\n"  (ws any spaces and tabs, c none of space, tab, newline) ---- *)
Lemma cont_match_ws ws c body :
  forallb is_sptab ws = true -> first_ok c = true -> mem 10 body = false ->
  let line := ws ++ c :: body ++ [10] in
  exists res,
    rmatch re_block_token_ListItem_continuation_pattern fl_block_token_ListItem_continuation_pattern line = Some res /\
    bef res = rev line /\ pos res = slen line /\
    lookup_grp 1 (grp res) = Some (0, slen ws) /\ lookup_grp 2 (grp res) = Some (slen ws, slen line).
Proof.
  intros Hw Hc Hb line. destruct cont_shape as [Sh Fl]. unfold rmatch, match_here, start_at. rewrite Sh, Fl.
  cbn [bef aft pos length Z.of_nat]. set (fl := mkFlags false false). set (s0 := mkMst [] line 0 []).
  assert (E32 : (c =? 32) = false /\ (c =? 9) = false /\ (c =? 10) = false).
  { unfold first_ok in Hc. apply negb_true_iff in Hc. apply orb_false_iff in Hc as [Hc H10]. apply orb_false_iff in Hc as [H32 H9]. auto. }
  destruct E32 as (H32 & H9 & H10).
  eexists. split.
  - rewrite m_seq, m_grp.
    eapply (m_greedy fl SPTAB 0 None s0 _ _ ws (c :: body ++ [10])).
    + reflexivity.
    + cbn [stops char_ok SPTAB existsb citem_match xorb]. rewrite H32, H9. reflexivity.
    + reflexivity.
    + apply forallb_forall. intros x Hx. rewrite forallb_forall in Hw. specialize (Hw x Hx). unfold is_sptab in Hw.
      cbn [char_ok SPTAB existsb citem_match xorb]. rewrite orb_false_r, Hw. reflexivity.
    + lia.
    + discriminate.
    + set (s1 := set_grp 1 (pos s0) (pos (adv_run s0 ws (c :: body ++ [10]))) (adv_run s0 ws (c :: body ++ [10]))).
      rewrite m_grp, m_alt, m_seq.
      rewrite (m_char fl (Set_ true [CLit 32; CLit 9; CLit 10]) s1 c (body ++ [10]) _ eq_refl eq_refl).
      assert (Ec : char_ok fl (Set_ true [CLit 32; CLit 9; CLit 10]) c = true).
      { cbn [char_ok existsb citem_match]. rewrite H32, H9, H10. reflexivity. }
      rewrite Ec. rewrite m_seq.
      set (s2 := advance s1 c (body ++ [10])).
      erewrite (m_greedy fl Any 0 None s2 _ _ body [10]); [reflexivity|reflexivity|reflexivity|reflexivity| |lia|discriminate|].
      * apply forallb_forall. intros x Hx. cbn [char_ok]. cbn [dotall fl orb].
        destruct (x =? 10) eqn:E; [|reflexivity]. apply Z.eqb_eq in E. subst x.
        assert (mem 10 body = true) by (unfold mem; apply existsb_exists; exists 10; split; [exact Hx|reflexivity]). congruence.
      * set (s3 := adv_run s2 body [10]).
        rewrite (m_char fl (Lit 10) s3 10 [] _ eq_refl eq_refl). cbn [char_ok Z.eqb Pos.eqb orelse]. reflexivity.
  - cbn [set_grp advance adv_run bef aft pos grp lookup_grp Nat.eqb]. subst s0. cbn [bef pos].
    unfold line.
    assert (L : slen (ws ++ c :: body ++ [10]) = slen ws + 1 + slen body + 1).
    { unfold slen. rewrite app_length. cbn [length]. rewrite app_length. cbn [length]. lia. }
    rewrite L. repeat split.
    rewrite rev_app_distr. cbn [rev]. rewrite rev_app_distr. cbn [rev app]. rewrite <- !app_assoc. cbn [app]. rewrite app_nil_r. reflexivity.
Qed.

(* ---- a line of white space ---- *)
Lemma lstrip_by_all p s : forallb p s = true -> lstrip_by p s = [].
Proof. induction s as [|c s IH]; intros H; [reflexivity|]. cbn [forallb] in H. apply andb_true_iff in H as [Hc Hs]. cbn [lstrip_by]. rewrite Hc. apply IH. exact Hs. Qed.

Lemma all_space_blank l : forallb is_space_c l = true -> is_blank l = true.
Proof. intros H. unfold is_blank, strip, strip_by. rewrite (lstrip_by_all _ _ H). reflexivity. Qed.

Fixpoint span_sptab (t : str) : str * str :=
  match t with
  | c :: r => if is_sptab c then (c :: fst (span_sptab r), snd (span_sptab r)) else ([], t)
  | [] => ([], [])
  end.

Lemma span_sptab_spec t : t = fst (span_sptab t) ++ snd (span_sptab t) /\ forallb is_sptab (fst (span_sptab t)) = true /\
  match snd (span_sptab t) with c :: _ => is_sptab c = false | [] => True end.
Proof.
  induction t as [|c r (E & A & B)]; [repeat split|]. cbn [span_sptab]. destruct (is_sptab c) eqn:Ec; cbn [fst snd].
  - split; [cbn [app]; f_equal; exact E|]. split; [cbn [forallb]; rewrite Ec; exact A|exact B].
  - repeat split. exact Ec.
Qed.

Lemma sptab_space c : is_sptab c = true -> is_space_c c = true.
Proof. unfold is_sptab. intros H. apply orb_true_iff in H as [H|H]; apply Z.eqb_eq in H; subst c; vm_compute; reflexivity. Qed.

(* ---- ListItem.parse_continuation answers "\n" only for a blank line ---- *)
Lemma cont_nl_blank l p cont : proper l -> parse_continuation l p = Some cont -> str_eqb cont [10] = true -> is_blank l = true.
Proof.
  intros (t & -> & H10) Hp Hc.
  destruct (span_sptab_spec t) as (E & A & B). set (ws := fst (span_sptab t)) in *. set (rest := snd (span_sptab t)) in *.
  destruct rest as [|c body] eqn:Er.
  - (* only spaces and tabs before the newline *)
    apply all_space_blank. rewrite E, app_nil_r, forallb_app. cbn [forallb]. replace (is_space_c 10) with true by (vm_compute; reflexivity).
    rewrite andb_true_r. apply forallb_forall. intros x Hx. rewrite forallb_forall in A. apply sptab_space. apply A. exact Hx.
  - (* a first character that is none of space, tab, newline: the answer holds that character *)
    exfalso.
    assert (Hc10 : mem 10 (c :: body) = false).
    { rewrite E in H10. unfold mem in *. rewrite existsb_app in H10. apply orb_false_iff in H10 as [_ H]. exact H. }
    assert (Hfo : first_ok c = true).
    { unfold first_ok. unfold is_sptab in B. rewrite B. cbn [orb negb]. unfold mem in Hc10. cbn [existsb] in Hc10. apply orb_false_iff in Hc10 as [H _].
      rewrite Z.eqb_sym, H. reflexivity. }
    assert (Hb10 : mem 10 body = false) by (unfold mem in *; cbn [existsb] in Hc10; apply orb_false_iff in Hc10 as [_ H]; exact H).
    destruct (cont_match_ws ws c body A Hfo Hb10) as (res & Hm & Hbef & Hpos & G1 & G2).
    assert (El : t ++ [10] = ws ++ c :: body ++ [10]) by (rewrite E, <- app_assoc; reflexivity).
    rewrite El in Hp. unfold parse_continuation in Hp. rewrite Hm in Hp. unfold gtxt, group_text in Hp. rewrite G1, G2 in Hp.
    set (line := ws ++ c :: body ++ [10]) in *.
    assert (L : slen line = slen ws + (1 + slen body + 1)).
    { unfold line, slen. rewrite app_length. cbn [length]. rewrite app_length. cbn [length]. lia. }
    assert (B0 : 0 <= slen body) by (unfold slen; lia). assert (W0 : 0 <= slen ws) by (unfold slen; lia).
    assert (S2 : segment res (slen ws) (slen line) = c :: body ++ [10]).
    { rewrite (segment_known res line) by (try assumption; lia).
      rewrite L. replace (slen ws + (1 + slen body + 1) - slen ws) with (slen (c :: body ++ [10])) by (unfold slen; cbn [length]; rewrite app_length; cbn [length]; lia).
      unfold line, slen. rewrite !Nat2Z.id. rewrite skipn_app, skipn_all, Nat.sub_diag. cbn [skipn app]. apply firstn_all. }
    rewrite S2 in Hp.
    assert (Ne : str_eqb (c :: body ++ [10]) [10] = false).
    { cbn [str_eqb]. unfold first_ok in Hfo. apply negb_true_iff in Hfo. apply orb_false_iff in Hfo as [_ Hx]. rewrite Hx. reflexivity. }
    rewrite Ne in Hp. destruct (p <=? _); [|discriminate]. injection Hp as <-.
    (* the answer ends with c :: body ++ "\n": two characters or more *)
    set (X := drop p (expandtabs4 (segment res 0 (slen ws))) ++ c :: body ++ [10]) in *.
    assert (Hlen : (2 <= length X)%nat).
    { unfold X. rewrite app_length. cbn [length]. rewrite app_length. cbn [length]. lia. }
    clearbody X. destruct X as [|a [|b r]]; cbn [length] in Hlen; try lia.
    cbn [str_eqb] in Hc. rewrite andb_false_r in Hc. discriminate.
Qed.

(* ---- ListItem.read: the loop that ran off the end of the lines gives back at most one line, a blank one ---- *)
Section Item.
  Variable types : list block_kind.
  Variable leader : str.

  Lemma nl_is_blank l : str_eqb l [10] = true -> is_blank l = true.
  Proof.
    intros H. destruct l as [|a [|b r]]; cbn [str_eqb] in H; try discriminate.
    - rewrite andb_true_r in H. apply Z.eqb_eq in H. subst a. vm_compute. reflexivity.
    - rewrite andb_false_r in H. discriminate.
  Qed.

  Lemma item_loop_runs_off : forall after prepend buf tk nl,
    Forall proper after -> item_runs_off types leader after prepend nl = true -> ((0 < nl)%nat -> (1 <= tk)%nat) ->
    exists b tk' (given : bool),
      item_loop types leader after prepend buf tk nl = (b, tk', None) /\
      (tk' + (if given then 1 else 0) = tk + length after)%nat /\
      (given = true -> (after = [] /\ (0 < nl)%nat) \/ (exists pre lastl, after = pre ++ [lastl] /\ is_blank lastl = true)).
  Proof.
    induction after as [|l r IH]; intros prepend buf tk nl Hp Hr Hinv.
    - cbn [item_loop]. destruct nl as [|nl].
      + exists (rev (skipn 0 buf)), tk, false. split; [reflexivity|]. split; [cbn [length]; lia|discriminate].
      + exists (rev (skipn (S nl) buf)), (tk - 1)%nat, true. split; [reflexivity|]. split; [cbn [length]; specialize (Hinv ltac:(lia)); lia|].
        intros _. left. split; [reflexivity|lia].
    - inversion Hp as [|? ? Hl Hrest]; subst. cbn [item_runs_off] in Hr. cbn [item_loop].
      destruct (parse_continuation l prepend) as [cont|] eqn:Ec.
      + destruct (IH prepend (cont :: buf) (S tk) (if str_eqb cont [10] then S nl else 0%nat) Hrest Hr ltac:(lia)) as (b & tk' & given & E & Hc & Hg).
        exists b, tk', given. split; [exact E|]. split; [cbn [length]; lia|].
        intros G. right. destruct (Hg G) as [[-> Hn]|(pre & lastl & -> & Hb)].
        * exists [], l. split; [reflexivity|]. destruct (str_eqb cont [10]) eqn:E10; [|lia]. apply (cont_nl_blank l prepend cont Hl Ec E10).
        * exists (l :: pre), lastl. split; [reflexivity|exact Hb].
      + destruct (item_interrupt types (l :: r)); [discriminate|].
        destruct (parse_marker l) as [[[[? ?] ?] ?]|]; [discriminate|].
        destruct nl as [|nl]; [|discriminate].
        destruct (IH prepend (l :: buf) (S tk) (if str_eqb l [10] then 1%nat else 0%nat) Hrest Hr ltac:(lia)) as (b & tk' & given & E & Hc & Hg).
        exists b, tk', given. split; [exact E|]. split; [cbn [length]; lia|].
        intros G. right. destruct (Hg G) as [[-> Hn]|(pre & lastl & -> & Hb)].
        * exists [], l. split; [reflexivity|]. destruct (str_eqb l [10]) eqn:E10; [|lia]. apply nl_is_blank. exact E10.
        * exists (l :: pre), lastl. split; [reflexivity|exact Hb].
  Qed.

  (* in the form the callers use: started with no pending blank line, one line already counted *)
  Corollary item_loop_remainder after prepend buf :
    Forall proper after -> item_runs_off types leader after prepend 0 = true ->
    exists b tk', item_loop types leader after prepend buf 1%nat 0%nat = (b, tk', None) /\ (1 <= tk')%nat /\
                  has_nonblank (skipn (tk' - 1) after) = false.
  Proof.
    intros Hp Hr. destruct (item_loop_runs_off after prepend buf 1%nat 0%nat Hp Hr ltac:(lia)) as (b & tk' & given & E & Hc & Hg).
    exists b, tk'. split; [exact E|]. destruct given.
    - destruct (Hg eq_refl) as [[_ Hn]|(pre & lastl & -> & Hb)]; [lia|].
      rewrite app_length in Hc. cbn [length] in Hc. split; [lia|].
      replace (tk' - 1)%nat with (length pre) by lia. rewrite skipn_app, skipn_all, Nat.sub_diag. cbn [skipn app has_nonblank existsb]. rewrite Hb. reflexivity.
    - split; [lia|]. replace (tk' - 1)%nat with (length after) by lia. rewrite skipn_all. reflexivity.
  Qed.
End Item.

(* ---- ListItem.read and List.read ---- *)
Section Lists.
  Variable types : list block_kind.
  Variable rec : list str -> Z -> pstate -> list pre * bool * pstate.

  Lemma all_blank_count r : has_nonblank r = false -> count_blank r = length r.
  Proof.
    induction r as [|x r IH]; intros H; [reflexivity|]. cbn [has_nonblank existsb] in H. apply orb_false_iff in H as [Hx Hr].
    apply negb_false_iff in Hx. cbn [count_blank length]. rewrite Hx. f_equal. apply IH. exact Hr.
  Qed.

  Lemma read_item_ran_off x X ln prev st :
    Forall proper X -> read_item_runs_off types (x :: X) prev = true ->
    exists item taken st', read_item types rec (x :: X) ln prev st = (item, taken, None, st') /\ (1 <= taken)%nat /\
                           has_nonblank (skipn taken (x :: X)) = false.
  Proof.
    intros Hp Hr. unfold read_item_runs_off in Hr. unfold read_item.
    destruct (match prev with Some m => Some m | None => parse_marker x end) as [[[[ind pp] ld] ct]|]; [|discriminate].
    destruct (is_blank ct).
    - destruct (count_blank X) as [|nb] eqn:Ec.
      + destruct (item_loop_remainder types ld X (ind + slen ld + 1) [] Hp Hr) as (b & tk' & E & H1 & Hb). rewrite E.
        destruct (rec b (ln + 1) st) as [[es lo] s2]. eexists _, tk', _. split; [reflexivity|]. split; [exact H1|].
        destruct tk' as [|k]; [lia|]. cbn [skipn]. replace (S k - 1)%nat with k in Hb by lia. exact Hb.
      + apply negb_true_iff in Hr. pose proof (all_blank_count X Hr) as Hc. rewrite Ec in Hc.
        cbv zeta. rewrite Hc, skipn_all. eexists _, _, _. split; [reflexivity|]. split; [lia|]. cbn [skipn]. rewrite skipn_all. reflexivity.
    - destruct (item_loop_remainder types ld X pp [ct] Hp Hr) as (b & tk' & E & H1 & Hb). rewrite E.
      destruct (rec b ln st) as [[es lo] s2]. eexists _, tk', _. split; [reflexivity|]. split; [exact H1|].
      destruct tk' as [|k]; [lia|]. cbn [skipn]. replace (S k - 1)%nat with k in Hb by lia. exact Hb.
  Qed.

  Lemma read_list_consumed : forall n after ln leader nm items consumed st its c st',
    read_list types rec n after ln leader nm items consumed st = (its, c, st') -> (consumed <= c)%nat.
  Proof.
    induction n as [|n IH]; intros after ln leader nm items consumed st its c st' H; cbn [read_list] in H.
    - injection H as _ <- _. lia.
    - destruct (read_item types rec after ln nm st) as [[[item taken] nm'] s1].
      destruct (negb _); [injection H as _ <- _; lia|]. destruct nm' as [mk|]; [|injection H as _ <- _; lia].
      apply IH in H. lia.
  Qed.

  Lemma Forall_skipn {A} (P : A -> Prop) n l : Forall P l -> Forall P (skipn n l).
  Proof. revert l. induction n as [|n IH]; intros l H; [exact H|]. destruct l as [|x l]; [constructor|]. inversion H; subst. cbn [skipn]. apply IH. assumption. Qed.

  Lemma skipn_add {A} (a b : nat) (l : list A) : skipn a (skipn b l) = skipn (a + b) l.
  Proof. revert l. induction b as [|b IH]; intros l; [rewrite Nat.add_0_r; reflexivity|]. destruct l as [|x l]; [rewrite !skipn_nil; reflexivity|]. rewrite Nat.add_succ_r. cbn [skipn]. apply IH. Qed.

  Lemma read_list_ran_off : forall n after ln leader nm items consumed st its c st',
    Forall proper after -> list_runs_off types rec n after ln leader nm st = true ->
    read_list types rec n after ln leader nm items consumed st = (its, c, st') ->
    has_nonblank (skipn (c - consumed) after) = false.
  Proof.
    induction n as [|n IH]; intros after ln leader nm items consumed st its c st' Hp Hr H; [discriminate|].
    cbn [list_runs_off] in Hr. destruct after as [|x X]; [destruct (c - consumed)%nat; reflexivity|].
    cbn [read_list] in H. inversion Hp as [|? ? _ HpX]; subst.
    destruct (read_item types rec (x :: X) ln nm st) as [[[item taken] nm'] s1] eqn:Ei.
    destruct (negb _); [discriminate|].
    destruct (read_item_runs_off types (x :: X) nm) eqn:Ero.
    - destruct (read_item_ran_off x X ln nm st HpX Ero) as (item0 & taken0 & st0 & E & H1 & Hb). rewrite Ei in E. injection E as -> -> -> ->.
      injection H as _ <- _. replace (consumed + taken0 - consumed)%nat with taken0 by lia. exact Hb.
    - destruct nm' as [mk|]; [|discriminate].
      pose proof (read_list_consumed _ _ _ _ _ _ _ _ _ _ _ H) as Hc.
      specialize (IH _ _ _ _ _ _ _ _ _ _ (Forall_skipn proper taken (x :: X) Hp) Hr H).
      rewrite skipn_add in IH. replace (c - (consumed + taken) + taken)%nat with (c - consumed)%nat in IH by lia. exact IH.
  Qed.

  (* List.start / List.read from the dispatch loop *)
  Theorem list_ran_off_is_last x X ln st p c st' :
    Forall proper (x :: X) -> list_runs_off types rec (S (length (x :: X))) (x :: X) ln None None st = true ->
    start_read types rec BK_List (x :: X) ln st = Some (p, c, st') ->
    has_nonblank (skipn c (x :: X)) = false.
  Proof.
    intros Hp Hr H. cbn [start_read] in H. destruct (list_start x); [|discriminate].
    destruct (read_list types rec (S (length (x :: X))) (x :: X) ln None None [] 0%nat st) as [[items c0] s0] eqn:E.
    injection H as _ <- _. pose proof (read_list_ran_off _ _ _ _ _ _ _ _ _ _ _ Hp Hr E) as Hb. rewrite Nat.sub_0_r in Hb. exact Hb.
  Qed.
End Lists.
