(* A second analysis of the regex engine, sound for every pattern:
     needs r c = true  ->  every match of r consumes an occurrence of the character c,
   so on a text that does not contain c, r matches nowhere (search and finditer return
   nothing).  It rests on the fact that a pattern consults its continuation only on
   states whose remaining text is a suffix of the remaining text it started from. *)
From Coq Require Import ZArith List Bool Lia.
From Mistletoe Require Import Base.Sx Base.PyStr Gen.GenTables Re.ReMatch Proofs.ReFirst.
Import ListNotations.
Local Open Scope Z_scope.

Definition is_suffix (a b : str) : Prop := exists p, b = p ++ a.

Lemma suffix_refl a : is_suffix a a.
Proof. exists []. reflexivity. Qed.
Lemma suffix_trans a b c : is_suffix a b -> is_suffix b c -> is_suffix a c.
Proof. intros [p ->] [q ->]. exists (q ++ p). rewrite app_assoc. reflexivity. Qed.
Lemma suffix_cons x t : is_suffix t (x :: t).
Proof. exists [x]. reflexivity. Qed.
Lemma suffix_mem c a b : is_suffix a b -> mem c b = false -> mem c a = false.
Proof.
  intros [p ->]. unfold mem. rewrite existsb_app. intros H. apply orb_false_iff in H. tauto.
Qed.

Lemma eat_suffix : forall seg s s', eat seg s = Some s' -> is_suffix (aft s') (aft s).
Proof.
  induction seg as [|c seg IH]; intros s s' H; cbn [eat] in H.
  - injection H as <-. apply suffix_refl.
  - destruct (aft s) as [|d t] eqn:E; [discriminate|].
    destruct (c =? d); [|discriminate]. apply IH in H. cbn [advance aft] in H.
    eapply suffix_trans; [exact H|apply suffix_cons].
Qed.

Section Needs.
  Variable fl : flags.

  Lemma loop_suffix body g mn mx k k' (a0 : str) :
    (forall s k1 k2, is_suffix (aft s) a0 -> (forall s', is_suffix (aft s') a0 -> k1 s' = k2 s') -> body s k1 = body s k2) ->
    (forall s', is_suffix (aft s') a0 -> k s' = k' s') ->
    forall fuel cnt s, is_suffix (aft s) a0 -> loop body g mn mx k fuel cnt s = loop body g mn mx k' fuel cnt s.
  Proof.
    intros Hb Hk. induction fuel as [|x fuel IH]; intros cnt s Hs; cbn [loop].
    - destruct (Nat.ltb cnt mn); [reflexivity|apply Hk; exact Hs].
    - assert (More : (if under mx cnt
                      then body s (fun s' => if Nat.leb mn cnt && (pos s' =? pos s) then None else loop body g mn mx k fuel (S cnt) s')
                      else None) =
                     (if under mx cnt
                      then body s (fun s' => if Nat.leb mn cnt && (pos s' =? pos s) then None else loop body g mn mx k' fuel (S cnt) s')
                      else None)).
      { destruct (under mx cnt); [|reflexivity]. apply Hb; [exact Hs|]. intros s' Hs'.
        destruct (Nat.leb mn cnt && (pos s' =? pos s)); [reflexivity|apply IH; exact Hs']. }
      destruct (Nat.ltb cnt mn); [exact More|].
      destruct g; rewrite More, (Hk s Hs); reflexivity.
  Qed.

  (* r consults its continuation only on states whose remaining text is a suffix of the one it started from *)
  Theorem suffix_k : forall r s k k',
    (forall s', is_suffix (aft s') (aft s) -> k s' = k' s') -> m fl r s k = m fl r s k'.
  Proof.
    induction r as [|c|c| |neg items|a IHa b IHb|a IHa b IHb|g mn mx r IHr|n r IHr|n|ahead neg w r IHr| |]; intros s k k' Hk; cbn [m].
    - apply Hk. apply suffix_refl.
    - destruct (aft s) as [|d t] eqn:E; [reflexivity|]. destruct (char_ok fl (Lit c) d); [|reflexivity]. apply Hk. cbn [advance aft]. apply suffix_cons.
    - destruct (aft s) as [|d t] eqn:E; [reflexivity|]. destruct (char_ok fl (NotLit c) d); [|reflexivity]. apply Hk. cbn [advance aft]. apply suffix_cons.
    - destruct (aft s) as [|d t] eqn:E; [reflexivity|]. destruct (char_ok fl Any d); [|reflexivity]. apply Hk. cbn [advance aft]. apply suffix_cons.
    - destruct (aft s) as [|d t] eqn:E; [reflexivity|]. destruct (char_ok fl (Set_ neg items) d); [|reflexivity]. apply Hk. cbn [advance aft]. apply suffix_cons.
    - apply IHa. intros s' Hs'. apply IHb. intros s'' Hs''. apply Hk. eapply suffix_trans; eassumption.
    - rewrite (IHa s k k' Hk), (IHb s k k' Hk). reflexivity.
    - apply (loop_suffix (m fl r) g mn mx k k' (aft s)); [|exact Hk|apply suffix_refl].
      intros s0 k1 k2 Hs0 Hk12. apply IHr. intros s' Hs'. apply Hk12. eapply suffix_trans; eassumption.
    - apply IHr. intros s' Hs'. apply Hk. exact Hs'.
    - destruct (lookup_grp n (grp s)) as [[a b]|]; [|reflexivity].
      destruct (eat (segment s a b) s) as [s'|] eqn:E; [|reflexivity]. apply Hk. eapply eat_suffix. exact E.
    - destruct (if ahead then _ else _); destruct neg; try reflexivity; apply Hk; apply suffix_refl.
    - destruct (at_bol fl s); [apply Hk; apply suffix_refl|reflexivity].
    - destruct (at_eol fl s); [apply Hk; apply suffix_refl|reflexivity].
  Qed.

  Fixpoint needs (r : re) (c : Z) : bool :=
    match r with
    | Lit d => d =? c
    | Seq a b => needs a c || needs b c
    | Alt a b => needs a c && needs b c
    | Rep _ mn _ r' => match mn with O => false | S _ => needs r' c end
    | Grp _ r' => needs r' c
    | _ => false
    end.

  Theorem needs_sound : forall r c, needs r c = true -> forall s k, mem c (aft s) = false -> m fl r s k = None.
  Proof.
    induction r as [|d|d| |neg items|a IHa b IHb|a IHa b IHb|g mn mx r IHr|n r IHr|n|ahead neg w r IHr| |];
      intros c H s k Hc; cbn [needs] in H; try discriminate; cbn [m].
    - destruct (aft s) as [|x t] eqn:E; [reflexivity|]. cbn [char_ok].
      apply Z.eqb_eq in H. subst d. unfold mem in Hc. cbn [existsb] in Hc. apply orb_false_iff in Hc as [Hx _].
      rewrite Z.eqb_sym, Hx. reflexivity.
    - apply orb_true_iff in H as [H|H].
      + apply (IHa c H s _ Hc).
      + rewrite (suffix_k a s _ (fun _ => None)).
        * apply m_none. reflexivity.
        * intros s' Hs'. apply (IHb c H s' k). eapply suffix_mem; eassumption.
    - apply andb_true_iff in H as [H1 H2]. rewrite (IHa c H1 s k Hc). rewrite orelse_none. apply (IHb c H2 s k Hc).
    - destruct mn as [|mn]; [discriminate|]. cbn [repeat app loop]. replace (Nat.ltb 0 (S mn)) with true by reflexivity.
      destruct (under mx 0); [|reflexivity]. apply (IHr c H s _ Hc).
    - apply (IHr c H s _ Hc).
  Qed.

  Lemma search_none r c : needs r c = true -> forall fuel adv s, mem c (aft s) = false -> search_from fl r fuel adv s = None.
  Proof.
    intros H. induction fuel as [|x fuel IH]; intros adv s Hc; cbn [search_from].
    - rewrite (needs_sound r c H (mkMst (bef s) (aft s) (pos s) []) _ Hc). destruct (aft s); reflexivity.
    - rewrite (needs_sound r c H (mkMst (bef s) (aft s) (pos s) []) _ Hc).
      destruct (aft s) as [|d t] eqn:E; [reflexivity|]. apply IH. cbn [advance aft].
      unfold mem in *. cbn [existsb] in Hc. apply orb_false_iff in Hc. tauto.
  Qed.

  Corollary finditer_none r c text : needs r c = true -> mem c text = false -> finditer fl r text = [].
  Proof.
    intros H Hc. unfold finditer. cbn [finditer_from].
    assert (E : search_from fl r (aft (start_at [] text)) false (start_at [] text) = None) by (apply (search_none r c H); exact Hc).
    rewrite E. reflexivity.
  Qed.

  Corollary search_state_none r c s : needs r c = true -> mem c (aft s) = false -> search fl r s = None.
  Proof. intros H Hc. unfold search. apply (search_none r c H); exact Hc. Qed.
End Needs.
