(* C09 on the fragment of Spec/Fragment.v: for every tree (any size, any depth) the Markdown
   renderer, applied to the token tree the parser produces under the Markdown renderer's own
   token set, writes back exactly the text the tree was spelled as - the round trip is the
   identity on these documents, with no side condition (two earlier ones - a fenced block
   is not empty, code lines do not begin with white space - were defects of the renderer,
   repaired by the fix: commits 50fc060 and 1070095). *)
From Coq Require Import ZArith List Bool Lia.
From Mistletoe Require Import Base.Sx Base.PyStr Base.PyText Gen.GenTables Gen.GenConfig Model.Tree Model.CoreTokens Model.Block Model.Build
     Model.MarkdownRenderer Model.Parser Proofs.PlainProse Proofs.Prose Proofs.ProseLines Proofs.ListLaw Proofs.FenceLaw Spec.Fragment Proofs.InertProse Proofs.RefSentence Proofs.LinkSentence Proofs.EmphPhrases Proofs.LinkPhrases Proofs.MixPhrases Proofs.CodeSpan Proofs.HardBreaks Proofs.BreakBlocks Proofs.StrikeSentence Proofs.EscSentence Proofs.ImageSentence Proofs.LeafSpans Proofs.OneInline Proofs.EmphSimple Proofs.NestedEmph Proofs.TitleLink Proofs.AutoLinkSentence Proofs.AngleLink Proofs.LinkEmph Proofs.FragmentP Proofs.FragmentDoc Proofs.FragmentHtml.
Import ListNotations.
Local Open Scope Z_scope.

Lemma is_space_same c : is_space c = is_space_c c.
Proof. reflexivity. Qed.

Lemma isspace_false_with s c : In c s -> is_space_c c = false -> isspace s = false.
Proof.
  intros Hin Hc. unfold isspace. destruct s as [|x r]; [destruct Hin|].
  destruct (forallb is_space (x :: r)) eqn:E; [|reflexivity].
  rewrite forallb_forall in E. specialize (E c Hin). rewrite is_space_same in E. congruence.
Qed.

(* ---- prefix_lines: a non-empty line keeps its prefix and its own characters; an empty line keeps a prefix that
        is not white space only ---- *)
Lemma isspace_spaces n : (0 < n)%nat -> isspace (repeat 32 n) = true.
Proof. intros H. destruct n; [lia|]. unfold isspace. cbn [repeat]. apply forallb_forall. intros x Hx. apply (repeat_spec (S n) 32 x) in Hx. subst x. reflexivity. Qed.

Lemma bare_nonempty l : l <> SBlank -> nonempty (bare l) = true.
Proof. destruct l as [|k c body]; [contradiction|]. intros _. cbn [bare]. destruct (repeat 32 k); reflexivity. Qed.

Lemma prefix_from_quote b ls : prefix_from b ($"> ") ($"> ") (map bare ls) = map bare (map quote_s ls).
Proof.
  revert b. induction ls as [|l r IH]; intros b; [reflexivity|].
  assert (Sp : isspace ($"> " ++ bare l) = false) by (apply (isspace_false_with _ 62); [left; reflexivity|vm_compute; reflexivity]).
  destruct b; cbn [map prefix_from]; rewrite (IH false), Sp, orb_true_r; f_equal; destruct l as [|k c body]; reflexivity.
Qed.

Lemma prefix_quote ls : prefix_lines (map bare ls) $"> " None = map bare (map quote_s ls).
Proof. apply prefix_from_quote. Qed.

Lemma prefix_from_false_embed p w ls : (0 < w)%nat ->
  prefix_from false p (repeat 32 w) (map bare ls) = map bare (map (embed_s w) ls).
Proof.
  intros Hw. induction ls as [|l r IH]; [reflexivity|]. cbn [map prefix_from]. rewrite IH. f_equal.
  destruct l as [|k c body].
  - cbn [bare embed_s nonempty orb]. rewrite app_nil_r, isspace_spaces by exact Hw. reflexivity.
  - rewrite bare_nonempty by discriminate. cbn [orb bare embed_s]. rewrite repeat_app, <- app_assoc. reflexivity.
Qed.

Lemma prefix_from_none b ls : prefix_from b [] [] ls = ls.
Proof.
  revert b. induction ls as [|l r IH]; intros b; [reflexivity|].
  destruct b; cbn [prefix_from app]; rewrite (IH false); destruct l; reflexivity.
Qed.

Lemma prefix_none ls : prefix_lines ls [] None = ls.
Proof. apply prefix_from_none. Qed.

(* ---- content of a fence ---- *)
Lemma split_nl_aux_line cur l rest : mem 10 l = false ->
  split_nl_aux cur (l ++ 10 :: rest) = (rev cur ++ l) :: split_nl_aux [] rest.
Proof.
  revert cur. induction l as [|c l IH]; intros cur H.
  - cbn [app split_nl_aux Z.eqb Pos.eqb]. rewrite app_nil_r. reflexivity.
  - unfold mem in H. cbn [existsb] in H. apply orb_false_iff in H as [Hc Hl]. cbn [app split_nl_aux].
    rewrite Z.eqb_sym, Hc. rewrite IH by exact Hl. cbn [rev]. rewrite <- app_assoc. reflexivity.
Qed.

Lemma split_nl_aux_last cur l : mem 10 l = false -> split_nl_aux cur l = [rev cur ++ l].
Proof.
  revert cur. induction l as [|c l IH]; intros cur H; [cbn; rewrite app_nil_r; reflexivity|].
  unfold mem in H. cbn [existsb] in H. apply orb_false_iff in H as [Hc Hl]. cbn [split_nl_aux].
  rewrite Z.eqb_sym, Hc. rewrite IH by exact Hl. cbn [rev]. rewrite <- app_assoc. reflexivity.
Qed.

Lemma bare_no_nl l : sline_ok l -> mem 10 (bare l) = false.
Proof.
  destruct l as [|k c body]; [reflexivity|]. intros [Hc Hb]. cbn [bare]. unfold mem. rewrite existsb_app. cbn [existsb].
  fold (mem 10 (repeat 32 k)). rewrite (mem_repeat 10 32 k) by lia. fold (mem 10 body). rewrite Hb.
  unfold first_ok in Hc. apply negb_true_iff in Hc. apply orb_false_iff in Hc as [_ H10]. rewrite Z.eqb_sym, H10. reflexivity.
Qed.

Lemma content_lines_of ls : ls <> [] -> Forall sline_ok ls ->
  content_lines (concat (map render_line ls)) = map bare ls.
Proof.
  intros Hne Hok. unfold content_lines, split_nl.
  assert (G : forall ls, ls <> [] -> Forall sline_ok ls -> split_nl_aux [] (removelast (concat (map render_line ls))) = map bare ls).
  { clear. induction ls as [|l r IH]; intros Hne Hok; [contradiction|]. inversion Hok; subst.
    cbn [map concat]. rewrite render_bare. destruct r as [|l2 r'].
    - cbn [map concat]. rewrite app_nil_r, removelast_last. rewrite split_nl_aux_last by (apply bare_no_nl; assumption). reflexivity.
    - rewrite <- app_assoc. cbn [app].
      assert (Hn : concat (map render_line (l2 :: r')) <> []) by (cbn [map concat]; rewrite render_bare; destruct (bare l2); discriminate).
      replace (removelast (bare l ++ 10 :: concat (map render_line (l2 :: r')))) with (bare l ++ 10 :: removelast (concat (map render_line (l2 :: r')))).
      + rewrite split_nl_aux_line by (apply bare_no_nl; assumption). cbn [rev app]. f_equal. apply IH; [discriminate|assumption].
      + rewrite (removelast_app (bare l)) by discriminate. f_equal.
        destruct (concat (map render_line (l2 :: r'))) eqn:E; [contradiction|]. reflexivity. }
  apply G; assumption.
Qed.


Definition md_lines (t : ftree) : list str := block_lines (mkMopts false) None (tok_of true t).

Lemma flat_map_tok_seq ts :
  flat_map (block_lines (mkMopts false) None) (tok_seq true ts) =
  match ts with [] => [] | t :: r => md_lines t ++ flat_map (fun y => [] :: md_lines y) r end.
Proof.
  induction ts as [|t r IH]; [reflexivity|]. cbn [tok_seq flat_map]. destruct r as [|t2 r']; [reflexivity|].
  rewrite flat_map_app. cbn [blank_tok flat_map block_lines app]. rewrite IH. reflexivity.
Qed.

Lemma bare_join (ls : list (list sline)) :
  map bare (join_blank ls) = match ls with [] => [] | x :: r => map bare x ++ flat_map (fun y => [] :: map bare y) r end.
Proof.
  destruct ls as [|x r]; [reflexivity|]. unfold join_blank. rewrite map_app. f_equal.
  induction r as [|y r IH]; [reflexivity|]. cbn [flat_map map]. rewrite map_app, IH. reflexivity.
Qed.


Section RT.
  Let o := mkMopts false.

  Definition RT (t : ftree) : Prop := md_lines t = map bare (spell t).

  Lemma rt_seq ts : Forall RT ts -> ts <> [] ->
    flat_map (block_lines o None) (tok_seq true ts) = map bare (join_blank (map spell ts)).
  Proof.
    intros H Hne. rewrite flat_map_tok_seq, bare_join. destruct ts as [|t r]; [contradiction|]. inversion H as [|? ? E1 Hr]; subst.
    cbn [map]. rewrite E1. f_equal. clear -Hr. induction Hr as [|y r Ey _ IH]; [reflexivity|]. cbn [flat_map map]. rewrite Ey, IH. reflexivity.
  Qed.

  Lemma plain_from_prose : forall ls cur, Forall (fun l => mem 10 l = false /\ l <> []) ls -> ls <> [] ->
    plain_from cur (flat_map frags (prose_toks ls)) = (cur ++ hd [] ls) :: tl ls.
  Proof.
    induction ls as [|l r IH]; intros cur H Hne; [contradiction|]. inversion H as [|? ? [H10 Hl] Hr]; subst.
    destruct r as [|l2 r'].
    - cbn [prose_toks flat_map frags app plain_from ftext Fw hd tl]. rewrite H10. cbn [plain_from].
      destruct (cur ++ l) eqn:E; [destruct cur; [destruct l; [contradiction|discriminate]|discriminate]|reflexivity].
    - change (prose_toks (l :: l2 :: r')) with (RawText l :: LineBreak [] true :: prose_toks (l2 :: r')).
      cbn [flat_map frags app plain_from ftext Fw hd tl]. rewrite H10. cbn [plain_from ftext mem existsb app Z.eqb Pos.eqb orb].
      change (mem 10 ([] ++ NL)) with true. cbv iota. cbn [split_nl split_nl_aux app NL Z.eqb Pos.eqb rev removelast last]. rewrite app_nil_r.
      rewrite (IH [] Hr ltac:(discriminate)). reflexivity.
  Qed.


  Lemma rt_para c body more : wf_b (FPara c body more) = true -> RT (FPara c body more).
  Proof.
    intros Hw. destruct (wf_para c body more Hw) as (PL & _ & Hc).
    assert (Hall : Forall block_line ((c :: body) :: more)) by (constructor; [exact PL|apply Forall_forall; intros x Hx; rewrite Forall_forall in Hc; apply (Hc x Hx)]).
    destruct (inert_para_core _ (wf_para_inert c body more Hw)) as (_ & _ & _ & H10).
    assert (Eb : map bare (spell (FPara c body more)) = (c :: body) :: more).
    { cbn [spell map bare repeat app]. f_equal. rewrite map_map. rewrite <- (map_id more) at 2. apply map_ext_in. intros l Hl.
      rewrite Forall_forall in Hc. destruct (Hc l Hl) as [(_ & _ & Hne & _) _]. destruct l; [contradiction|reflexivity]. }
    unfold RT, md_lines. rewrite Eb. cbn [tok_of block_lines]. unfold span_to_lines. cbn [fragments_to_lines].
    rewrite plain_from_prose; [reflexivity| |discriminate].
    apply Forall_forall. intros l Hl. rewrite Forall_forall in Hall. destruct (Hall l Hl) as (_ & _ & Hne & _). rewrite Forall_forall in H10. split; [apply H10; exact Hl|exact Hne].
  Qed.

  Lemma rt_head lv c body : wf_b (FHead lv c body) = true -> RT (FHead lv c body).
  Proof.
    intros Hw. destruct (head_wf lv c body Hw) as [((H1 & _) & H10 & _) Hp].
    unfold RT, md_lines. cbn [tok_of block_lines spell map bare repeat app]. unfold span_to_lines. cbn [flat_map frags app fragments_to_lines plain_from ftext Fw].
    rewrite H10. cbn [plain_from app nonempty first_or_empty]. rewrite Nat2Z.id. destruct lv as [|k]; [lia|]. cbn [repeat app nonempty]. replace (S k - 1)%nat with k by lia.
    rewrite app_nil_r. reflexivity.
  Qed.

  Lemma rt_rule c n : RT (FRule c n).
  Proof. unfold RT, md_lines. cbn [tok_of block_lines spell map bare repeat app]. reflexivity. Qed.

  Lemma rt_em c0 pre ch double w post : wf_b (FEm c0 pre ch double w post) = true -> RT (FEm c0 pre ch double w post).
  Proof.
    intros Hw. destruct (em_wf _ _ _ _ _ _ Hw) as (Hch & Hew & Hpre & Hpost & _).
    unfold EmphSimple.emph_word in Hew. repeat rewrite andb_true_iff in Hew. destruct Hew as [[[Hpw _] _] _].
    assert (R10 : mem 10 (em_run ch double) = false) by (unfold em_run; destruct double, Hch as [->| ->]; reflexivity).
    unfold RT, md_lines. cbn [tok_of block_lines spell map bare repeat app]. unfold span_to_lines. cbn [fragments_to_lines].
    assert (EF : flat_map frags (RawText (c0 :: pre) :: (if double then Strong [ch] [RawText w] else Emphasis [ch] [RawText w]) :: EmphSentence.raw_if post) =
                [Fw (c0 :: pre); F (em_run ch double); Fw w; F (em_run ch double)] ++ match post with [] => [] | _ => [Fw post] end).
    { unfold em_run. destruct double, post; reflexivity. }
    rewrite EF. cbn [app plain_from ftext Fw F].
    rewrite (plain_no 10 _ eq_refl Hpre), R10, (plain_no 10 _ eq_refl Hpw). cbn [app].
    destruct post as [|z p] eqn:Ep.
    - cbn [plain_from nonempty]. unfold em_body. rewrite !app_nil_r. cbn [app]. rewrite <- !app_assoc. reflexivity.
    - rewrite <- Ep in *. cbn [plain_from ftext Fw]. rewrite (plain_no 10 _ eq_refl Hpost). cbn [plain_from]. unfold em_body. cbn [app]. rewrite <- !app_assoc.
      destruct (nonempty _) eqn:En; [reflexivity|]. exfalso. unfold nonempty in En. cbn in En. discriminate.
  Qed.

  Lemma rt_link c0 pre w dest post : wf_b (FLink c0 pre w dest post) = true -> RT (FLink c0 pre w dest post).
  Proof.
    intros Hw. destruct (link_wf _ _ _ _ _ Hw) as (Hok & _). destruct (link_parts _ _ _ _ _ Hok) as (Hpre & Hpw & Hpost & Hd).
    assert (D10 : mem 10 dest = false) by (apply (LinkSentence.dest_no 10 dest eq_refl Hd)).
    unfold RT, md_lines. cbn [tok_of block_lines spell map bare repeat app]. unfold span_to_lines. cbn [fragments_to_lines].
    assert (EF : flat_map frags (RawText (c0 :: pre) :: LinkSentence.ilink_of w dest :: EmphSentence.raw_if post) =
                [Fw (c0 :: pre); F [91]; Fw w; F [93]; F [40]; F dest; F [41]] ++ match post with [] => [] | _ => [Fw post] end).
    { destruct post; reflexivity. }
    rewrite EF. cbn [app plain_from ftext Fw F].
    rewrite (plain_no 10 _ eq_refl Hpre), (plain_no 10 _ eq_refl Hpw), D10. cbn [mem existsb Z.eqb Pos.eqb orb app].
    destruct post as [|z p] eqn:Ep.
    - cbn [plain_from nonempty]. unfold link_body. rewrite !app_nil_r. cbn [app]. rewrite <- !app_assoc. reflexivity.
    - rewrite <- Ep in *. cbn [plain_from ftext Fw]. rewrite (plain_no 10 _ eq_refl Hpost). cbn [plain_from]. unfold link_body. cbn [app]. rewrite <- !app_assoc.
      destruct (nonempty _) eqn:En; [reflexivity|]. exfalso. unfold nonempty in En. cbn in En. discriminate.
  Qed.

  (* fragments without a newline are written on the current line *)
  Lemma plain_from_flat : forall frs cur, Forall (fun f => mem 10 (ftext f) = false) frs ->
    plain_from cur frs = (if nonempty (cur ++ concat (map ftext frs)) then [cur ++ concat (map ftext frs)] else []).
  Proof.
    induction frs as [|f r IH]; intros cur H; [cbn [plain_from map concat]; rewrite app_nil_r; reflexivity|].
    inversion H as [|? ? Hf Hr]; subst. cbn [plain_from map concat]. rewrite Hf. rewrite (IH _ Hr). rewrite <- app_assoc. reflexivity.
  Qed.

  Lemma seg_frags : forall gs, Forall mseg_ok gs ->
    Forall (fun f => mem 10 (ftext f) = false) (flat_map frags (mix_toks gs)) /\ concat (map ftext (flat_map frags (mix_toks gs))) = mbody gs.
  Proof.
    induction gs as [|[ch k w t|w d t] r IH]; intros Hok; [split; [constructor|reflexivity]|apply Forall_cons_iff in Hok as [Hp Hr]; destruct (IH Hr) as [HF E]..].
    - destruct Hp as (Hch & Hk & Hw & _ & _ & _ & Ht & _).
      assert (R10 : mem 10 (repeat ch (S k)) = false) by (apply mem_repeat; destruct Hch as [->| ->]; discriminate).
      assert (K2 : k = 0%nat \/ k = 1%nat) by lia.
      cbn [mix_toks flat_map]. fold (mix_toks r). rewrite flat_map_app. split.
      + apply Forall_app. split; [|exact HF].
        destruct K2 as [->| ->]; [change (Z.of_nat 1 =? 2) with false|change (Z.of_nat 2 =? 2) with true]; cbv iota; cbn [flat_map frags app ftext F Fw]; repeat constructor; cbn [ftext F Fw];
          try (apply (plain_no 10 _ eq_refl); assumption); try exact R10; destruct Hch as [->| ->]; reflexivity.
      + rewrite map_app, concat_app, E. cbn [mbody mtext].
        destruct K2 as [->| ->]; [change (Z.of_nat 1 =? 2) with false|change (Z.of_nat 2 =? 2) with true]; cbv iota; cbn [flat_map frags app map concat ftext F Fw repeat]; rewrite ?app_nil_r, <- ?app_assoc; reflexivity.
    - destruct Hp as [(Hw & _ & Hd & _ & Ht) _].
      cbn [mix_toks flat_map]. fold (mix_toks r). rewrite flat_map_app.
      assert (Ef : flat_map frags (LinkSentence.ilink_of w d :: EmphSentence.raw_if t) = [F [91]; Fw w; F [93]; F [40]; F d; F [41]] ++ match t with [] => [] | _ => [Fw t] end)
        by (destruct t; reflexivity).
      rewrite Ef. split.
      + apply Forall_app. split; [|exact HF]. apply Forall_app. split.
        * repeat constructor; cbn [ftext F Fw]; try reflexivity; [apply (plain_no 10 _ eq_refl Hw)|apply (LinkSentence.dest_no 10 d eq_refl Hd)].
        * destruct t; [constructor|]. repeat constructor. cbn [ftext Fw]. apply (plain_no 10 _ eq_refl Ht).
      + rewrite map_app, concat_app, E. cbn [mbody mtext]. rewrite map_app, concat_app. cbn [map concat ftext F Fw app].
        destruct t; cbn [map concat ftext Fw app]; rewrite ?app_nil_r; repeat (rewrite <- ?app_assoc; cbn [app]); reflexivity.
  Qed.

  Lemma rt_sent c0 t0 gs : wf_b (FSent c0 t0 gs) = true -> RT (FSent c0 t0 gs).
  Proof.
    intros Hw. destruct (sent_wf _ _ _ Hw) as (Hok & _). destruct (sent_parts _ _ _ Hok) as (Hpre & Hgs).
    destruct (seg_frags gs Hgs) as [Fs Es].
    unfold RT, md_lines. cbn [tok_of block_lines spell map bare repeat app]. unfold span_to_lines. cbn [fragments_to_lines].
    cbn [flat_map frags]. rewrite plain_from_flat.
    - cbn [app map concat ftext Fw]. rewrite Es. cbn [nonempty]. reflexivity.
    - constructor; [cbn [ftext Fw]; apply (plain_no 10 _ eq_refl Hpre)|exact Fs].
  Qed.

  Lemma rt_tick c0 pre n code post : wf_b (FTick c0 pre n code post) = true -> RT (FTick c0 pre n code post).
  Proof.
    intros Hw. destruct (tick_wf _ _ _ _ _ Hw) as (Hok & _). destruct (tick_parts _ _ _ _ Hok) as (Hpre & Hpost & Hcode).
    assert (C10 : mem 10 code = false) by (apply code_text_no; [reflexivity|exact Hcode]).
    unfold RT, md_lines. cbn [tok_of block_lines spell map bare repeat app]. unfold span_to_lines. cbn [fragments_to_lines].
    rewrite code_of_eq.
    pose proof (code_pad_ok code) as PK. pose proof (code_content_no 10 code C10) as CN.
    set (cc := code_content code) in *. clearbody cc.
    assert (G : forall pad : str, mem 10 pad = false -> pad ++ cc ++ pad = code ->
                plain_from [] (flat_map frags (RawText (c0 :: pre) :: InlineCode (mkCode (ticks n) pad cc) :: EmphSentence.raw_if post)) = [c0 :: tick_body pre n code post]).
    { intros pad P10 PE.
      assert (EF : flat_map frags (RawText (c0 :: pre) :: InlineCode (mkCode (ticks n) pad cc) :: EmphSentence.raw_if post) =
                  [Fw (c0 :: pre); F (ticks n ++ pad); Fw cc; F (pad ++ ticks n)] ++ match post with [] => [] | _ => [Fw post] end).
      { destruct post; reflexivity. }
      rewrite EF. rewrite plain_from_flat.
      - assert (Ec : concat (map ftext ([Fw (c0 :: pre); F (ticks n ++ pad); Fw cc; F (pad ++ ticks n)] ++ match post with [] => [] | _ => [Fw post] end)) =
                     c0 :: tick_body pre n code post).
        { rewrite map_app, concat_app. cbn [map concat ftext Fw F]. unfold tick_body, ticks. rewrite <- PE.
          destruct post; cbn [map concat ftext Fw]; rewrite ?app_nil_r; repeat (rewrite <- ?app_assoc; cbn [app]); reflexivity. }
        cbn [app] in Ec |- *. rewrite Ec. reflexivity.
      - apply Forall_app. split.
        + repeat constructor; cbn [ftext Fw F].
          * apply (plain_no 10 _ eq_refl Hpre).
          * unfold mem in *. rewrite existsb_app, P10, orb_false_r. apply (mem_repeat 10 96 (S n)). lia.
          * exact CN.
          * unfold mem in *. rewrite existsb_app, P10. cbn [orb]. apply (mem_repeat 10 96 (S n)). lia.
        + destruct post; [constructor|]. repeat constructor. cbn [ftext Fw]. apply (plain_no 10 _ eq_refl Hpost). }
    destruct (code_padded code); apply G; try reflexivity; exact PK.
  Qed.

  (* the fragments of a paragraph whose lines end in spaces: every LineBreak writes its spaces and ends the line *)
  Lemma plain_from_brk : forall ls cur, Forall (fun b : str * nat => mem 10 (fst b) = false /\ fst b <> []) ls -> ls <> [] ->
    plain_from cur (flat_map frags (brk_toks ls)) = match brk_lines ls with x :: r => (cur ++ x) :: r | [] => [] end.
  Proof.
    induction ls as [|[l k] r IH]; intros cur H Hne; [contradiction|]. inversion H as [|? ? [H10 Hl] Hr]; subst. cbn [fst] in H10, Hl.
    destruct r as [|b r'].
    - cbn [brk_toks flat_map frags app plain_from ftext Fw brk_lines]. rewrite H10. cbn [plain_from].
      destruct (cur ++ l) eqn:E; [destruct cur; [destruct l; [contradiction|discriminate]|discriminate]|reflexivity].
    - change (brk_toks ((l, k) :: b :: r')) with (RawText l :: LineBreak (repeat 32 k) (Nat.ltb k 2) :: brk_toks (b :: r')).
      rewrite brk_lines_cons.
      cbn [flat_map frags app plain_from ftext Fw]. rewrite H10. cbn [plain_from ftext].
      assert (M : mem 10 (repeat 32 k ++ NL) = true) by (unfold mem, NL; rewrite existsb_app; cbn [existsb Z.eqb Pos.eqb orb]; apply orb_true_r).
      rewrite M. unfold split_nl, NL. rewrite (split_nl_aux_line [] (repeat 32 k) []) by (apply mem_repeat; lia).
      cbn [split_nl_aux rev app removelast last]. rewrite <- app_assoc.
      rewrite (IH [] Hr ltac:(discriminate)). destruct (brk_lines (b :: r')) as [|x rr] eqn:E; [|reflexivity].
      destruct b as [l2 k2]. destruct r'; discriminate.
  Qed.

  Lemma rt_brk c body k more : wf_b (FBrk c body k more) = true -> RT (FBrk c body k more).
  Proof.
    cbn [wf_b]. intros Hw. pose proof (brk_lines_wline _ Hw) as Hall. destruct (brk_para_okb _ Hw) as [Hne Hok].
    assert (Eb : map bare (spell (FBrk c body k more)) = brk_lines ((c :: body, k) :: more)).
    { cbn [spell]. rewrite map_map. rewrite <- (map_id (brk_lines _)) at 2. apply map_ext_in. intros l0 Hl0.
      rewrite Forall_forall in Hall. destruct (Hall l0 Hl0) as (_ & _ & Hn). destruct l0; [contradiction|reflexivity]. }
    unfold RT, md_lines. rewrite Eb. cbn [tok_of block_lines]. unfold span_to_lines. cbn [fragments_to_lines].
    rewrite plain_from_brk; [|apply Forall_forall; intros b Hb; rewrite forallb_forall in Hok; destruct (bline_okb_spec b (Hok b Hb)) as (Hp & Hn & _); split; [apply (plain_no 10 _ eq_refl Hp)|exact Hn]|exact Hne].
    destruct (brk_lines ((c :: body, k) :: more)) as [|x r] eqn:E; [|reflexivity].
    destruct more; discriminate.
  Qed.

  (* the fragments of the tokens inside a nested emphasis spell the text between the outer runs *)
  Lemma nest_frags : forall ps g zz, plain_text g = true -> plain_text zz = true -> Forall phrase_ok ps ->
    Forall (fun f => mem 10 (ftext f) = false) (flat_map frags (nest_toks g ps zz)) /\
    concat (map ftext (flat_map frags (nest_toks g ps zz))) = g ++ body ps ++ zz.
  Proof.
    induction ps as [|[[[ch k] w] t] r IH]; intros g zz Hg Hzz Hok.
    - cbn [nest_toks body app]. assert (Hp : plain_text (g ++ zz) = true) by (apply plain_app2; assumption).
      destruct (g ++ zz) as [|c0 l0] eqn:E; cbn [EmphSentence.raw_if flat_map frags app map concat ftext Fw]; [split; [constructor|reflexivity]|].
      split; [repeat constructor; cbn [ftext Fw]; apply (plain_no 10 _ eq_refl Hp)|rewrite app_nil_r; reflexivity].
    - apply Forall_cons_iff in Hok as [Hp Hr]. destruct Hp as (Hch & Hk & Hw & _ & _ & _ & Ht & _).
      destruct (IH t zz Ht Hzz Hr) as [HF E].
      assert (R10 : mem 10 (repeat ch (S k)) = false) by (apply mem_repeat; destruct Hch as [->| ->]; discriminate).
      assert (K2 : k = 0%nat \/ k = 1%nat) by lia.
      cbn [nest_toks body]. rewrite flat_map_app.
      assert (Eg : flat_map frags (EmphSentence.raw_if g) = match g with [] => [] | _ => [Fw g] end) by (destruct g; reflexivity).
      rewrite Eg. split.
      + apply Forall_app. split; [destruct g; [constructor|repeat constructor; cbn [ftext Fw]; apply (plain_no 10 _ eq_refl Hg)]|].
        cbn [flat_map]. apply Forall_app. split; [|exact HF].
        destruct K2 as [->| ->]; [change (Z.of_nat 1 =? 2) with false|change (Z.of_nat 2 =? 2) with true]; cbv iota; cbn [frags flat_map app ftext F Fw]; repeat constructor; cbn [ftext F Fw];
          try (apply (plain_no 10 _ eq_refl); assumption); try exact R10; destruct Hch as [->| ->]; reflexivity.
      + rewrite map_app, concat_app. cbn [flat_map]. rewrite map_app, concat_app, E.
        assert (Egt : concat (map ftext match g with [] => [] | _ => [Fw g] end) = g) by (destruct g; [reflexivity|cbn [map concat ftext Fw]; apply app_nil_r]).
        rewrite Egt. f_equal.
        destruct K2 as [->| ->]; [change (Z.of_nat 1 =? 2) with false|change (Z.of_nat 2 =? 2) with true]; cbv iota; cbn [frags flat_map app map concat ftext F Fw repeat]; rewrite ?app_nil_r; repeat (rewrite <- ?app_assoc; cbn [app]); reflexivity.
  Qed.

  Lemma rt_one c0 pre x post : wf_b (FOne c0 pre x post) = true -> RT (FOne c0 pre x post).
  Proof.
    intros Hw. destruct (one_wf _ _ _ _ Hw) as (Hok & _). destruct (inl_plain _ _ _ Hok) as [Hpre Hpost].
    pose proof (inl_no 10 (c0 :: pre) x post (or_introl eq_refl) Hok) as N10.
    unfold mem in N10. rewrite !existsb_app in N10. apply orb_false_iff in N10 as [_ N10]. apply orb_false_iff in N10 as [N10 _]. fold (mem 10 (inl_text x)) in N10.
    unfold RT, md_lines. cbn [tok_of block_lines spell map bare repeat app]. unfold span_to_lines. cbn [fragments_to_lines].
    assert (EF : exists frs, flat_map frags (RawText (c0 :: pre) :: inl_tok x :: EmphSentence.raw_if post) =
                 Fw (c0 :: pre) :: frs ++ match post with [] => [] | _ => [Fw post] end /\
                 Forall (fun f => mem 10 (ftext f) = false) frs /\ concat (map ftext frs) = inl_text x).
    { destruct x as [w|c|w d|ch k h ps z|w d q tl|u0 usc ur|aw a0 ad|eh eps ez ed]; cbn [inl_tok inl_text] in *.
      - exists [F $"~~"; Fw w; F $"~~"]. split; [destruct post; reflexivity|]. split; [|reflexivity].
        unfold mem in N10. rewrite !existsb_app in N10. apply orb_false_iff in N10 as [_ N10]. apply orb_false_iff in N10 as [N10 _].
        repeat constructor; cbn [ftext F Fw]; try reflexivity. exact N10.
      - exists [F ($"\" ++ [c])]. split; [destruct post; reflexivity|]. split; [|reflexivity]. repeat constructor. cbn [ftext F]. exact N10.
      - exists [F $"!"; F $"["; Fw w; F $"]"; F $"("; F d; F $")"]. split; [destruct post; reflexivity|]. split; [|cbn [map concat ftext F Fw app]; rewrite ?app_nil_r; reflexivity].
        unfold mem in N10. cbn [app existsb] in N10. rewrite !existsb_app in N10. cbn [existsb] in N10. rewrite !existsb_app in N10.
        repeat (apply orb_false_iff in N10; destruct N10 as [? N10]).
        repeat constructor; cbn [ftext F Fw]; try reflexivity; assumption.
      - cbn [inl_ok] in Hok. unfold nest_ok in Hok. repeat rewrite andb_true_iff in Hok.
        destruct Hok as [[[[[[[[[[[[[H1 H2] _] _] H5] _] _] _] H9] H10] _] _] _] _].
        assert (Hch : ch = 42 \/ ch = 95) by (apply orb_true_iff in H1 as [E|E]; apply Z.eqb_eq in E; [left|right]; exact E).
        assert (Hps : Forall phrase_ok ps) by (apply Forall_forall; intros p Hp; rewrite forallb_forall in H9; apply EmphPhrases.phrase_okb_spec; apply H9; exact Hp).
        apply Nat.leb_le in H2. assert (K2 : k = 0%nat \/ k = 1%nat) by lia.
        destruct (nest_frags ps h z H5 H10 Hps) as [HF E].
        assert (R10 : mem 10 (repeat ch (S k)) = false) by (apply mem_repeat; destruct Hch as [->| ->]; discriminate).
        exists ([F (repeat ch (S k))] ++ flat_map frags (nest_toks h ps z) ++ [F (repeat ch (S k))]). split; [|split].
        + unfold nest_of. destruct K2 as [->| ->]; [change (Z.of_nat 1 =? 2) with false|change (Z.of_nat 2 =? 2) with true]; cbv iota; destruct post; cbn [flat_map frags app repeat EmphSentence.raw_if]; rewrite ?app_nil_r, <- ?app_assoc; reflexivity.
        + apply Forall_app. split; [repeat constructor; exact R10|]. apply Forall_app. split; [exact HF|repeat constructor; exact R10].
        + rewrite !map_app, !concat_app, E. cbn [map concat ftext F]. rewrite !app_nil_r. reflexivity.
      - cbn [inl_ok] in Hok. apply andb_true_iff in Hok as [Hok' Hne]. destruct tl as [|t0 tl']; [discriminate|].
        assert (Hqq : q = 34 \/ q = 39 \/ q = 40).
        { unfold tlink_ok in Hok'. repeat rewrite andb_true_iff in Hok'. destruct Hok' as [[[[_ _] Hdl] _] _].
          unfold delim_ok in Hdl. repeat (apply orb_true_iff in Hdl; destruct Hdl as [Hdl|Hdl]); apply Z.eqb_eq in Hdl; tauto. }
        exists [F $"["; Fw w; F $"]"; F $"("; F d; Fw [32]; F [q]; Fw (t0 :: tl'); F [title_closer q]; F $")"]. split; [destruct Hqq as [->|[->| ->]]; destruct post; reflexivity|]. split; [|cbn [map concat ftext F Fw app]; rewrite ?app_nil_r; repeat (rewrite <- ?app_assoc; cbn [app]); reflexivity].
        unfold mem in N10. cbn [app existsb] in N10. rewrite !existsb_app in N10. cbn [existsb] in N10. rewrite !existsb_app in N10. cbn [existsb] in N10.
        repeat (apply orb_false_iff in N10; destruct N10 as [? N10]).
        repeat constructor; cbn [ftext F Fw]; try reflexivity; try assumption.
        + unfold mem. cbn [existsb]. rewrite orb_false_r. assumption.
        + unfold mem. cbn [existsb]. rewrite existsb_app in N10. apply orb_false_iff in N10 as [N10 _]. rewrite N10, orb_false_r. assumption.
        + destruct Hqq as [->|[->| ->]]; reflexivity.
      - exists [F ($"<" ++ (u0 :: usc ++ 58 :: ur) ++ $">")]. split; [destruct post; reflexivity|]. split; [|cbn [map concat ftext F app]; rewrite ?app_nil_r; reflexivity].
        repeat constructor. cbn [ftext F]. exact N10.
      - exists [F $"["; Fw aw; F $"]"; F $"("; F ($"<" ++ (a0 :: ad) ++ $">"); F $")"]. split; [destruct post; reflexivity|]. split; [|cbn [map concat ftext F Fw app]; rewrite ?app_nil_r; repeat (rewrite <- ?app_assoc; cbn [app]); reflexivity].
        unfold mem in N10. cbn [app existsb] in N10. rewrite !existsb_app in N10. cbn [existsb] in N10. rewrite !existsb_app in N10. cbn [existsb] in N10.
        repeat (apply orb_false_iff in N10; destruct N10 as [? N10]).
        repeat constructor; cbn [ftext F Fw]; try reflexivity; try assumption.
        cbn [inl_ok] in Hok. unfold alink_ok in Hok. repeat rewrite andb_true_iff in Hok. destruct Hok as [[_ Hd'] _].
        pose proof (adest_no 10 (a0 :: ad) (or_introl eq_refl) Hd') as X.
        unfold mem. rewrite !existsb_app. fold (mem 10 (a0 :: ad)). rewrite X. reflexivity.
      - cbn [inl_ok] in Hok. unfold elink_ok in Hok. repeat rewrite andb_true_iff in Hok. destruct Hok as [[[[[[[[_ H2] _] H4] _] H6] _] H8] _].
        assert (Hps : Forall phrase_ok eps) by (apply Forall_forall; intros p Hp; rewrite forallb_forall in H4; apply EmphPhrases.phrase_okb_spec; apply H4; exact Hp).
        destruct (nest_frags eps eh ez H2 H6 Hps) as [HF E].
        exists ([F $"["] ++ flat_map frags (nest_toks eh eps ez) ++ [F $"]"; F $"("; F ed; F $")"]). split; [|split].
        + unfold elink_of. destruct post; cbn [flat_map frags app EmphSentence.raw_if l_dest_type l_target l_title title_frags str_eqb]; rewrite ?app_nil_r, <- ?app_assoc; reflexivity.
        + apply Forall_app. split; [repeat constructor|]. apply Forall_app. split; [exact HF|]. repeat constructor; cbn [ftext F]; try reflexivity.
          apply dest_no; [reflexivity|exact H8].
        + rewrite !map_app, !concat_app, E. cbn [map concat ftext F app]. rewrite ?app_nil_r. repeat (rewrite <- ?app_assoc; cbn [app]). reflexivity. }
    destruct EF as (frs & -> & Hf & Ec).
    rewrite plain_from_flat.
    - assert (E : concat (map ftext (Fw (c0 :: pre) :: frs ++ match post with [] => [] | _ => [Fw post] end)) = c0 :: one_body pre x post).
      { cbn [map concat ftext Fw]. rewrite map_app, concat_app, Ec. unfold one_body. destruct post; cbn [map concat ftext Fw app]; rewrite ?app_nil_r; reflexivity. }
      cbn [app] in E |- *. rewrite E. reflexivity.
    - constructor; [cbn [ftext Fw]; apply (plain_no 10 _ eq_refl Hpre)|]. apply Forall_app. split; [exact Hf|].
      destruct post; [constructor|]. repeat constructor. cbn [ftext Fw]. apply (plain_no 10 _ eq_refl Hpost).
  Qed.

  Lemma rt_fence ch n content : wf_b (FFence ch n content) = true -> RT (FFence ch n content).
  Proof.
    intros Hw. destruct (fence_wf ch n content Hw) as ((Hch & Hn) & Hok & _).
    assert (Fe : ch :: repeat ch (n - 1) = repeat ch n) by (destruct n; [lia|]; cbn [repeat]; replace (S n - 1)%nat with n by lia; reflexivity).
    unfold RT, md_lines. cbn [tok_of block_lines f_indentation f_delimiter f_info f_content spaces Z.to_nat repeat app spell map bare].
    destruct content as [|l0 lr].
    - cbn [map concat nonempty app bare repeat]. rewrite Fe, app_nil_r. reflexivity.
    - assert (Ne : nonempty (concat (map render_line (l0 :: lr))) = true).
      { cbn [map concat]. rewrite render_bare. destruct (bare l0); reflexivity. }
      rewrite Ne. rewrite content_lines_of by (try discriminate; exact Hok). rewrite prefix_none.
      rewrite map_app. cbn [map bare repeat app]. rewrite Fe, app_nil_r. reflexivity.
  Qed.

  (* a list item written back: its blocks behind the marker and the indentation; with the blank line that is its last child when another item follows *)
  Lemma rt_item mk pad ts lo (blank : bool) :
    marker_okb mk && Nat.leb 1 pad && Nat.leb pad 4 && seq_ok_b ts && forallb wf_b ts && good_b (join_blank (map spell ts)) &&
      negb (thematic_start (item_first_line mk pad (join_blank (map spell ts)))) = true ->
    Forall RT ts ->
    block_lines o None (ListItem (mkItem (marker_str mk) 0 (Z.of_nat (length (marker_str mk) + pad)) lo) (tok_seq true ts ++ (if blank then [BlankLine] else []))) =
    map bare (item_lines mk pad (join_blank (map spell ts))) ++ (if blank then [[]] else []).
  Proof.
    intros Hw Hch. repeat rewrite andb_true_iff in Hw. destruct Hw as [[[[[[Hmk Hp1] Hp4] Hs] Hall] Hg] Hth].
    apply marker_ok_reflect in Hmk. apply Nat.leb_le in Hp1, Hp4.
    assert (Hne : ts <> []) by (destruct ts; [discriminate|discriminate]).
    pose proof (rt_seq ts Hch Hne) as E. unfold o in E.
    destruct (good_lines _ Hg) as (c0 & body0 & rest & El & Hc0 & _ & _ & _ & _ & _).
    destruct (marker_first mk Hmk) as (m0 & mr & Em & Hm0).
    assert (Sm0 : is_space_c m0 = false).
    { unfold mfirst_ok in Hm0. repeat rewrite andb_true_iff in Hm0. destruct Hm0 as [[[[_ H3] _] _] _]. apply negb_true_iff in H3. exact H3. }
    cbn [block_lines sub_opt normalize_ws i_prepend i_indentation i_leader]. unfold o. cbn [normalize_ws].
    rewrite flat_map_app, E, El.
    assert (Eb : flat_map (block_lines (mkMopts false) None) (if blank then [BlankLine] else []) = map bare (if blank then [SBlank] else [])) by (destruct blank; reflexivity).
    rewrite Eb, <- map_app. cbn [map or_blank bare repeat app].
    unfold item_lines. rewrite Em.
    set (w := (length (m0 :: mr) + pad)%nat).
    assert (Ew : spaces (Z.of_nat w) = repeat 32 w) by (unfold spaces; rewrite Nat2Z.id; reflexivity).
    assert (Ep : spaces (Z.of_nat w - len (m0 :: mr) - 0) = repeat 32 pad).
    { unfold spaces, len, w. f_equal. lia. }
    unfold prefix_lines. rewrite Ew. destruct w as [|w'] eqn:Ew0; [unfold w in Ew0; cbn [length] in Ew0; lia|].
    cbn [repeat prefix_from]. change (32 :: repeat 32 w') with (repeat 32 (S w')).
    rewrite (prefix_from_false_embed _ (S w') (rest ++ if blank then [SBlank] else []) (Nat.lt_0_succ _)).
    rewrite Ep. cbn [spaces Z.to_nat repeat app map bare nonempty orb].
    rewrite !map_app. destruct blank; cbn [map embed_s bare]; rewrite <- ?app_assoc; cbn [app]; rewrite ?app_nil_r; reflexivity.
  Qed.

  Lemma rt_all : forall f t, (depth t <= f)%nat -> wf_b t = true -> RT t.
  Proof.
    induction f as [|f IH].
    - intros t Hd Hw.
      destruct t as [c body more|ch n content|ts|mk pad ts|mk pad ts bl next|lv hc hb|rc rn|e0 epre ech edbl ew epost|l0 lpre lw ldest lpost|s0 st0' sgs|k0 kpre kn kcode kpost|b0 bbody bk bmore|o0 opre ox opost]; [apply rt_para; exact Hw|apply rt_fence; assumption|cbn [depth] in Hd; lia|cbn [depth] in Hd; lia|cbn [depth] in Hd; lia|apply rt_head; exact Hw|apply rt_rule|apply rt_em; exact Hw|apply rt_link; exact Hw|apply rt_sent; exact Hw|apply rt_tick; exact Hw|apply rt_brk; exact Hw|apply rt_one; exact Hw].
    - intros t. induction t as [c body more|ch n content|ts|mk pad ts|mk pad ts bl next IHn|lv hc hb|rc rn|e0 epre ech edbl ew epost|l0 lpre lw ldest lpost|s0 st0' sgs|k0 kpre kn kcode kpost|b0 bbody bk bmore|o0 opre ox opost]; intros Hd Hw;
        [apply rt_para; exact Hw|apply rt_fence; assumption| | | |apply rt_head; exact Hw|apply rt_rule|apply rt_em; exact Hw|apply rt_link; exact Hw|apply rt_sent; exact Hw|apply rt_tick; exact Hw|apply rt_brk; exact Hw|apply rt_one; exact Hw].
      + (* quote *)
        cbn [wf_b] in Hw. repeat rewrite andb_true_iff in Hw. destruct Hw as [[Hs Hall] Hg].
        assert (Hch : Forall RT ts).
        { apply Forall_forall. intros x Hx. rewrite forallb_forall in Hall. apply IH; [eapply depth_children; eassumption|apply Hall; exact Hx]. }
        assert (Hne : ts <> []) by (destruct ts; [discriminate|discriminate]).
        pose proof (rt_seq ts Hch Hne) as E. unfold o in E.
        unfold RT, md_lines. cbn [tok_of block_lines sub_opt spell]. change ((fix seq (ts0 : list ftree) : list tok := match ts0 with [] => [] | t :: r => tok_of true t :: match r with [] => [] | _ :: _ => blank_tok true ++ seq r end end) ts) with (tok_seq true ts).
        rewrite E. apply prefix_quote.
      + (* a list of one item *)
        cbn [wf_b] in Hw. pose proof Hw as Hw0. repeat rewrite andb_true_iff in Hw. destruct Hw as [[[[[[Hmk Hp1] Hp4] Hs] Hall] Hg] Hth].
        assert (Hch : Forall RT ts).
        { apply Forall_forall. intros x Hx. rewrite forallb_forall in Hall. apply IH; [eapply depth_children; eassumption|apply Hall; exact Hx]. }
        unfold RT, md_lines. cbn [tok_of spell].
        change ((fix seq (ts0 : list ftree) : list tok := match ts0 with [] => [] | t :: r => tok_of true t :: match r with [] => [] | _ :: _ => blank_tok true ++ seq r end end) ts) with (tok_seq true ts).
        pose proof (rt_item mk pad ts (negb true && (1 <? Z.of_nat (length ts))) false Hw0 Hch) as RI. rewrite !app_nil_r in RI.
        cbn [block_lines flat_map]. rewrite app_nil_r. exact RI.
      + (* an item and the rest of the list *)
        cbn [wf_b] in Hw. repeat rewrite andb_true_iff in Hw. destruct Hw as [[[Hw Hin] Hk] Hwn].
        assert (Hw' : marker_okb mk && Nat.leb 1 pad && Nat.leb pad 4 && seq_ok_b ts && forallb wf_b ts && good_b (join_blank (map spell ts)) &&
                      negb (thematic_start (item_first_line mk pad (join_blank (map spell ts)))) = true) by (repeat rewrite andb_true_iff; exact Hw).
        destruct Hw as [[[[[[Hmk Hp1] Hp4] Hs] Hall] Hg] Hth].
        cbn [depth] in Hd.
        assert (Hch : Forall RT ts).
        { apply Forall_forall. intros x Hx. rewrite forallb_forall in Hall. apply IH; [eapply depth_children; [exact Hx|lia]|apply Hall; exact Hx]. }
        specialize (IHn ltac:(lia) Hwn). unfold RT, md_lines in IHn |- *.
        destruct (tok_of_chain_is_list true next Hin Hwn) as (s2 & lo2 & items & E2).
        cbn [tok_of spell]. rewrite E2 in *.
        change ((fix seq (ts0 : list ftree) : list tok := match ts0 with [] => [] | t :: r => tok_of true t :: match r with [] => [] | _ :: _ => blank_tok true ++ seq r end end) ts) with (tok_seq true ts).
        pose proof (rt_item mk pad ts (if bl then negb true else negb true && (1 <? Z.of_nat (length ts))) bl Hw' Hch) as RI. cbn [blank_tok].
        match goal with |- block_lines ?oo None (List ?s ?l (?x :: items)) = _ =>
          change (block_lines oo None (List s l (x :: items))) with (block_lines o None x ++ block_lines o None (List s2 lo2 items)) end.
        rewrite RI. unfold o. rewrite IHn. rewrite !map_app. destruct bl; cbn [map bare app]; rewrite <- ?app_assoc; reflexivity.
  Qed.
End RT.

(* ---- parse, then render as Markdown: the identity on the fragment ---- *)
Lemma render_lines_bare ls : flat_map (fun l => l ++ NL) (map bare ls) = concat (text_of ls).
Proof.
  induction ls as [|l r IH]; [reflexivity|]. cbn [map flat_map text_of concat]. rewrite IH, render_bare. reflexivity.
Qed.

Theorem fragment_round_trip t :
  wf_b t = true ->
  render_md (mkMopts false) None (fst (fst (parse_lines cfg_markdown (text_of (spell t))))) = concat (text_of (spell t)).
Proof.
  intros Hw. rewrite fragment_document_markdown by exact Hw.
  unfold render_md. cbn [is_block block_lines flat_map]. rewrite app_nil_r.
  pose proof (rt_all (depth t) t (le_n _) Hw) as E. unfold RT, md_lines in E. rewrite E. apply render_lines_bare.
Qed.

(* a whole document of several blocks *)
Theorem fragment_seq_round_trip ts :
  seq_ok_b ts = true -> forallb wf_b ts = true ->
  render_md (mkMopts false) None (fst (fst (parse_lines cfg_markdown (text_of (join_blank (map spell ts)))))) = concat (text_of (join_blank (map spell ts))).
Proof.
  intros Hs Hw. rewrite fragment_seq_document_markdown by assumption.
  unfold render_md. cbn [is_block block_lines].
  assert (Hne : ts <> []) by (destruct ts; [discriminate|discriminate]).
  assert (Hch : Forall RT ts).
  { apply Forall_forall. intros x Hx. rewrite forallb_forall in Hw. apply (rt_all (depth x) x (le_n _) (Hw x Hx)). }
  rewrite (rt_seq ts Hch Hne). apply render_lines_bare.
Qed.

(* ... and from ONE string, as MarkdownRenderer().render(Document(text)) *)
Theorem fragment_round_trip_text t :
  wf_b t = true -> one_string_ok t = true ->
  render_md (mkMopts false) None (fst (fst (parse_document cfg_markdown (concat (text_of (spell t)))))) = concat (text_of (spell t)).
Proof. intros Hw H1. unfold parse_document. rewrite (doc_lines_spelled t H1). apply fragment_round_trip; assumption. Qed.

(* non-vacuity; and the two inputs that used to come back changed (an empty fence gained a line, a code line of white
   space lost its spaces) now come back exactly *)
Example round_trip_instance :
  let fence := FFence 96 3 [SLine 2 120 $" = 1"; SBlank; SLine 0 35 $" not a heading"] in
  let t1 := FItem (MBullet 45) 2 [FPara 97 $"b" [ $"second line" ]; FQuote [FHead 3 99 $"d"; FItem (MOrdered $"12" 41) 1 [FPara 101 [] []; fence]; FPara 103 [] []]; FPara 102 [] []] in
  let t2 := FQuote [FQuote [FPara 97 [] []]; fence; FPara 98 [] []; t1] in
  wf_b t2 = true /\ depth t2 = 4%nat.
Proof. vm_compute. split; reflexivity. Qed.

Example round_trip_former_findings :
  let empty := FFence 126 3 [] in
  let ws := FFence 96 3 [SLine 1 12288 []] in
  (wf_b empty = true /\ concat (text_of (spell empty)) = $"~~~" ++ [10] ++ $"~~~" ++ [10] /\
   render_md (mkMopts false) None (fst (fst (parse_lines cfg_markdown (text_of (spell empty))))) = $"~~~" ++ [10] ++ $"~~~" ++ [10]) /\
  (wf_b ws = true /\ concat (text_of (spell ws)) = $"```" ++ [10; 32; 12288; 10] ++ $"```" ++ [10] /\
   render_md (mkMopts false) None (fst (fst (parse_lines cfg_markdown (text_of (spell ws))))) = $"```" ++ [10; 32; 12288; 10] ++ $"```" ++ [10]).
Proof. vm_compute. repeat split; reflexivity. Qed.
