(* A fenced code block written as  fence / content lines / the same fence  is read as one
   PCodeFence holding exactly the content lines, whatever follows the closing fence.
   Unbounded: fence character ` or ~, any length >= 3, any content lines that do not start
   (after spaces) with the fence character.  The opening pattern enters by its exact
   regenerated shape (fence_shape) and is evaluated with Proofs/ReExact.v. *)
From Coq Require Import ZArith List Bool Lia.
From Mistletoe Require Import Base.Sx Base.PyStr Base.PyText Gen.GenTables Gen.GenRegex Gen.GenConfig Re.ReMatch
     Model.CoreTokens Model.Block Proofs.ReFirst Proofs.ReExact Proofs.ListLaw.
Import ListNotations.
Local Open Scope Z_scope.

Definition SP : re := Lit 32.
Definition NOTSPACE : re := Set_ false [CCat CatNotSpace].
Definition NOTNL : re := NotLit 10.

Lemma fence_shape :
  re_block_token_CodeFence_pattern =
  Seq (Grp 1 (Rep true 0 (Some 3%nat) SP))
      (Seq (Grp 2 (Alt (Rep true 3 None (Lit 96)) (Rep true 3 None (Lit 126))))
           (Grp 3 (Seq (Rep true 0 None SP) (Seq (Grp 4 (Rep true 0 None NOTSPACE)) (Rep true 0 None NOTNL))))) /\
  fl_block_token_CodeFence_pattern = mkFlags false false.
Proof. split; reflexivity. Qed.

Definition fence_ok (ch : Z) (n : nat) : Prop := (ch = 96 \/ ch = 126) /\ (3 <= n)%nat.
Definition fence_line (ch : Z) (n : nat) : str := repeat ch n ++ [10].

Lemma codefence_start_fence ch n : fence_ok ch n -> codefence_start (fence_line ch n) = Some (0, repeat ch n, [], []).
Proof.
  intros [Hch Hn]. destruct fence_shape as [Sh Fl]. unfold codefence_start, rmatch, match_here, start_at, fence_line.
  rewrite Sh, Fl. cbn [bef aft pos length Z.of_nat]. set (fl := mkFlags false false). set (line := repeat ch n ++ [10]).
  set (s0 := mkMst [] line 0 []).
  assert (C32 : (ch =? 32) = false) by (destruct Hch as [->| ->]; reflexivity).
  assert (M : exists res, m fl (Seq (Grp 1 (Rep true 0 (Some 3%nat) SP))
      (Seq (Grp 2 (Alt (Rep true 3 None (Lit 96)) (Rep true 3 None (Lit 126))))
           (Grp 3 (Seq (Rep true 0 None SP) (Seq (Grp 4 (Rep true 0 None NOTSPACE)) (Rep true 0 None NOTNL)))))) s0 (fun s' => Some s') = Some res /\
      bef res = rev (repeat ch n) /\ pos res = Z.of_nat n /\
      lookup_grp 1 (grp res) = Some (0, 0) /\ lookup_grp 2 (grp res) = Some (0, Z.of_nat n) /\
      lookup_grp 3 (grp res) = Some (Z.of_nat n, Z.of_nat n) /\ lookup_grp 4 (grp res) = Some (Z.of_nat n, Z.of_nat n)).
  { eexists. split.
    - rewrite m_seq, m_grp.
      eapply (m_greedy fl SP 0 (Some 3%nat) s0 _ _ [] line); [reflexivity| |reflexivity|reflexivity|cbn [length]; lia|intros x Hx; cbn [length]; lia|].
      + unfold line. destruct n as [|n']; [lia|]. cbn [repeat app stops char_ok SP]. exact C32.
      + change (adv_run s0 [] line) with s0. rewrite m_seq, m_grp.
        set (s1 := set_grp 1 (pos s0) (pos s0) s0).
        (* the fence itself *)
        assert (G2 : forall k v, k (adv_run s1 (repeat ch n) [10]) = Some v ->
                                  m fl (Alt (Rep true 3 None (Lit 96)) (Rep true 3 None (Lit 126))) s1 k = Some v).
        { intros k v Hk. destruct Hch as [->| ->].
          - rewrite m_alt. erewrite (m_greedy fl (Lit 96) 3 None s1 k v (repeat 96 n) [10]); [reflexivity|reflexivity|reflexivity|reflexivity| | |discriminate|exact Hk].
            + apply forallb_repeat. reflexivity.
            + rewrite repeat_length. exact Hn.
          - destruct n as [|n']; [lia|].
            rewrite (m_alt_second fl _ _ s1 k 126 (repeat 126 n' ++ [10])); [|reflexivity|reflexivity].
            apply (m_greedy fl (Lit 126) 3 None s1 k v (repeat 126 (S n')) [10]); [reflexivity|reflexivity|reflexivity| | |discriminate|exact Hk].
            + apply forallb_repeat. reflexivity.
            + rewrite repeat_length. exact Hn. }
        apply G2.
        set (s2 := set_grp 2 _ _ _). rewrite m_grp, m_seq.
        eapply (m_greedy fl SP 0 None s2 _ _ [] [10]); [reflexivity|reflexivity|reflexivity|reflexivity|cbn [length]; lia|discriminate|].
        rewrite m_seq, m_grp.
        eapply (m_greedy fl NOTSPACE 0 None _ _ _ [] [10]); [reflexivity| |reflexivity|reflexivity|cbn [length]; lia|discriminate|].
        * cbn [stops]. vm_compute. reflexivity.
        * eapply (m_greedy fl NOTNL 0 None _ _ _ [] [10]); [reflexivity|reflexivity|reflexivity|reflexivity|cbn [length]; lia|discriminate|]. reflexivity.
    - cbn [set_grp adv_run bef aft pos grp lookup_grp Nat.eqb rev app]. subst s0. cbn [bef pos].
      unfold slen. cbn [length]. rewrite repeat_length, ?app_nil_r, ?Z.add_0_r, ?Z.add_0_l. repeat split. }
  destruct M as (res & Hm & Hbef & Hpos & G1 & G2 & G3 & G4). rewrite Hm.
  unfold gtxt, group_text. rewrite G1, G2, G3, G4.
  assert (S0 : forall a, segment res a a = []) by (intros; unfold segment; rewrite Z.sub_diag; reflexivity).
  rewrite !S0.
  assert (S2 : segment res 0 (Z.of_nat n) = repeat ch n).
  { rewrite (segment_known res (repeat ch n)); [|exact Hbef|rewrite Hpos; unfold slen; rewrite repeat_length; reflexivity|lia|lia|unfold slen; rewrite repeat_length; lia].
    rewrite Z.sub_0_r, Nat2Z.id. cbn [Z.to_nat skipn]. rewrite <- (repeat_length ch n) at 1. apply firstn_all. }
  rewrite S2. cbn [mem existsb]. rewrite andb_false_r. reflexivity.
Qed.

(* ---- the body and the closing fence ---- *)
Lemma lstrip_len (l : str) : (length (lstrip_set [32%Z] l) <= length l)%nat.
Proof. unfold lstrip_set. induction l as [|x l IH]; [cbn; lia|]. cbn [lstrip_by]. destruct (mem x [32]); cbn [length]; lia. Qed.

Lemma lstrip_spaces_split line : line = repeat 32 (length line - length (lstrip_set [32] line)) ++ lstrip_set [32] line.
Proof.
  induction line as [|c l IH]; [reflexivity|]. unfold lstrip_set in *. cbn [lstrip_by mem existsb].
  destruct (c =? 32) eqn:E.
  - apply Z.eqb_eq in E. subst c. cbn [orb]. pose proof (lstrip_len l) as L. unfold lstrip_set in L.
    cbn [length]. rewrite Nat.sub_succ_l by exact L. cbn [repeat app]. f_equal. exact IH.
  - cbn [orb]. rewrite Nat.sub_diag. reflexivity.
Qed.

Definition not_fence_start (ch : Z) (l : sline) : Prop :=
  match l with SBlank => True | SLine _ c _ => c <> ch end.

Lemma lstrip_line_of k c body : first_ok c = true -> lstrip_set [32] (line_of k c body) = c :: body ++ [10].
Proof.
  intros Hc. unfold line_of, lstrip_set. induction k as [|k IH]; cbn [repeat app lstrip_by mem existsb].
  - unfold first_ok in Hc. apply negb_true_iff in Hc. apply orb_false_iff in Hc as [Hc _]. apply orb_false_iff in Hc as [H32 _]. rewrite H32. reflexivity.
  - exact IH.
Qed.

Section Body.
  Variables (ch : Z) (n : nat).
  Hypothesis Hf : fence_ok ch n.

  Lemma body_line_kept l indent_buf tk rest :
    sline_ok l -> not_fence_start ch l ->
    fence_loop (render_line l :: rest) 0 (repeat ch n) indent_buf tk = fence_loop rest 0 (repeat ch n) (render_line l :: indent_buf) (S tk).
  Proof.
    intros Hok Hnf. cbn [fence_loop].
    destruct Hf as [Hch Hn]. destruct n as [|n']; [lia|].
    assert (Sw : startswith (repeat ch (S n')) (lstrip_set [32] (render_line l)) = false).
    { destruct l as [|k c body]; cbn [render_line].
      - cbn [repeat startswith]. destruct Hch as [->| ->]; reflexivity.
      - destruct Hok as [Hc _]. rewrite lstrip_line_of by exact Hc. cbn [repeat startswith not_fence_start] in *.
        assert ((ch =? c) = false) as -> by (apply Z.eqb_neq; congruence). reflexivity. }
    rewrite Sw. cbn [andb].
    assert (Out : (if 0 <? slen (render_line l) - slen (lstrip_set [32] (render_line l))
                   then repeat 32 (Z.to_nat (slen (render_line l) - slen (lstrip_set [32] (render_line l)) - 0)) ++ lstrip_set [32] (render_line l)
                   else lstrip_set [32] (render_line l)) = render_line l).
    { set (line := render_line l). pose proof (lstrip_spaces_split line) as Sp.
      pose proof (lstrip_len line) as L.
      destruct (0 <? slen line - slen (lstrip_set [32] line)) eqn:E.
      - rewrite Z.sub_0_r. unfold slen. replace (Z.to_nat (Z.of_nat (length line) - Z.of_nat (length (lstrip_set [32] line)))) with (length line - length (lstrip_set [32%Z] line))%nat by lia.
        symmetry. exact Sp.
      - apply Z.ltb_ge in E. unfold slen in E. assert (length line = length (lstrip_set [32] line)) by lia.
        rewrite Sp at 2. replace (length line - length (lstrip_set [32%Z] line))%nat with 0%nat by lia. reflexivity. }
    rewrite Out. reflexivity.
  Qed.

  Lemma split_ws_fence : single_word (fence_line ch n) = true.
  Proof.
    unfold single_word, split_ws, fence_line. destruct Hf as [Hch Hn].
    assert (G : forall k acc, acc <> [] \/ (0 < k)%nat -> split_ws_aux acc (repeat ch k ++ [10]) = [rev acc ++ repeat ch k]).
    { induction k as [|k IH]; intros acc Ha.
      - cbn [repeat app split_ws_aux]. replace (is_space_c 10) with true by (vm_compute; reflexivity).
        destruct acc; [destruct Ha; [contradiction|lia]|]. cbn [split_ws_aux app]. rewrite app_nil_r. reflexivity.
      - cbn [repeat app split_ws_aux]. assert (is_space_c ch = false) as -> by (destruct Hch as [->| ->]; vm_compute; reflexivity).
        rewrite IH by (left; discriminate). cbn [rev]. rewrite <- app_assoc. reflexivity. }
    rewrite G by (right; lia). reflexivity.
  Qed.

  Lemma fence_body content rest : Forall sline_ok content -> Forall (not_fence_start ch) content -> forall buf tk,
    fence_loop (map render_line content ++ fence_line ch n :: rest) 0 (repeat ch n) buf tk =
    (rev buf ++ map render_line content, S (tk + length content)).
  Proof.
    induction content as [|l content IH]; intros Hok Hnf buf tk.
    - cbn [map app fence_loop length]. rewrite Nat.add_0_r, app_nil_r.
      assert (Ls : lstrip_set [32] (fence_line ch n) = fence_line ch n).
      { unfold fence_line, lstrip_set. destruct Hf as [Hch Hn]. destruct n; [lia|]. cbn [repeat app lstrip_by mem existsb].
        assert ((ch =? 32) = false) as -> by (destruct Hch as [->| ->]; reflexivity). reflexivity. }
      rewrite Ls, Z.sub_diag, split_ws_fence.
      assert (Sw : startswith (repeat ch n) (fence_line ch n) = true).
      { unfold fence_line. clear. induction n as [|k IH]; [reflexivity|]. cbn [repeat app startswith]. rewrite Z.eqb_refl. exact IH. }
      rewrite Sw. reflexivity.
    - inversion Hok; subst. inversion Hnf; subst. cbn [map app].
      rewrite body_line_kept by assumption. rewrite IH by assumption. cbn [rev length]. rewrite <- app_assoc. cbn [app].
      f_equal. lia.
  Qed.
End Body.

(* ---- the reader ---- *)
Definition fence_block (ch : Z) (n : nat) (content : list sline) : list str :=
  fence_line ch n :: map render_line content ++ [fence_line ch n].

Lemma start_read_fence types rec ch n content rest ln st :
  fence_ok ch n -> Forall sline_ok content -> Forall (not_fence_start ch) content ->
  start_read types rec BK_CodeFence (fence_block ch n content ++ rest) ln st =
  Some (PCodeFence ln (map render_line content) 0 (repeat ch n) [] [], length (fence_block ch n content), st).
Proof.
  intros Hf Hok Hnf. unfold fence_block. cbn [app start_read]. rewrite codefence_start_fence by exact Hf.
  rewrite <- app_assoc. cbn [app]. rewrite (fence_body ch n Hf content rest Hok Hnf [] 1%nat).
  cbn [rev app length]. rewrite app_length, map_length. cbn [length]. do 3 f_equal. lia.
Qed.

(* ---- the opening fence opens no other kind of block that is tried before CodeFence ---- *)
Definition ffirst_ok (c : Z) : bool :=
  nomatch fl_block_token_Heading_pattern re_block_token_Heading_pattern c &&
  nomatch fl_markdown_renderer_BlankLine_pattern re_markdown_renderer_BlankLine_pattern c &&
  nomatch fl_block_token_HtmlBlock_multiblock re_block_token_HtmlBlock_multiblock c &&
  nomatch fl_block_token_HtmlBlock_predefined re_block_token_HtmlBlock_predefined c &&
  nomatch fl_block_token_HtmlBlock_custom_tag re_block_token_HtmlBlock_custom_tag c &&
  negb (is_space_c c) && negb (c =? 62) && negb (c =? 91) && negb (c =? 60).
Lemma fence_chars_ok : ffirst_ok 96 = true /\ ffirst_ok 126 = true.
Proof. split; vm_compute; reflexivity. Qed.

Definition before_fence_kind (k : block_kind) : bool :=
  match k with BK_BlockCode | BK_Heading | BK_Quote | BK_Footnote | BK_HtmlBlock | BK_BlankLine | BK_LinkReferenceDefinitionBlock => true | _ => false end.

Lemma start_read_before_fence types rec k m0 t rest ln st :
  ffirst_ok m0 = true -> before_fence_kind k = true -> start_read types rec k ((m0 :: t) :: rest) ln st = None.
Proof.
  unfold ffirst_ok. intros H Hk. repeat rewrite andb_true_iff in H.
  destruct H as [[[[[[[[N1 N3] N4] N5] N6] H3] H62] H91] H60].
  apply negb_true_iff in H3, H62, H91, H60.
  assert (E9 : 9 =? m0 = false) by (apply Z.eqb_neq; intros <-; vm_compute in H3; discriminate).
  assert (E32 : 32 =? m0 = false) by (apply Z.eqb_neq; intros <-; vm_compute in H3; discriminate).
  assert (L : lstrip (m0 :: t) = m0 :: t) by (unfold lstrip; cbn [lstrip_by]; rewrite H3; reflexivity).
  destruct k; try discriminate; cbn [start_read].
  - unfold blockcode_start, tabs_to_spaces_once. cbn [replace_first startswith]. rewrite E9. cbn [andb].
    replace ($"    ") with [32; 32; 32; 32] by reflexivity. cbn [startswith]. rewrite E32. reflexivity.
  - unfold heading_start. rewrite rmatch_first by assumption. reflexivity.
  - unfold quote_start, lstrip_set. cbn [lstrip_by mem existsb]. rewrite (Z.eqb_sym m0 32), E32. cbn [orb]. rewrite Z.sub_diag. cbn [Z.ltb Z.compare startswith].
    rewrite Z.eqb_sym, H62. reflexivity.
  - unfold footnote_start. rewrite L. cbn [startswith]. rewrite Z.eqb_sym, H91. reflexivity.
  - unfold htmlblock_start. rewrite L. rewrite Z.sub_diag. cbn [Z.leb Z.compare].
    rewrite rmatch_first by assumption.
    assert (LL : forall p, startswith (60 :: p) (m0 :: t) = false) by (intros; cbn [startswith]; rewrite Z.eqb_sym, H60; reflexivity).
    cbn [s2l]. rewrite !LL. cbn [andb]. rewrite !rmatch_first by assumption. reflexivity.
  - unfold blankline_start. rewrite rmatch_first by assumption. reflexivity.
  - unfold footnote_start. rewrite L. cbn [startswith]. rewrite Z.eqb_sym, H91. reflexivity.
Qed.

Fixpoint fence_first (ts : list block_kind) : bool :=
  match ts with
  | [] => false
  | BK_CodeFence :: _ => true
  | k :: r => before_fence_kind k && fence_first r
  end.

Lemma try_types_fence types rec ch n content rest ln st :
  fence_ok ch n -> Forall sline_ok content -> Forall (not_fence_start ch) content ->
  forall ts, fence_first ts = true ->
  try_types types rec ts (fence_block ch n content ++ rest) ln st =
  Some (PCodeFence ln (map render_line content) 0 (repeat ch n) [] [], length (fence_block ch n content), st).
Proof.
  intros Hf Hok Hnf. induction ts as [|k ts IH]; intros Hl; [discriminate|]. cbn [try_types].
  destruct k; cbn [fence_first before_fence_kind andb] in Hl; try discriminate;
    try (rewrite (start_read_fence types rec ch n content rest ln st Hf Hok Hnf); reflexivity);
    (unfold fence_block at 1; unfold fence_line at 1; destruct Hf as [Hch Hn]; destruct n as [|n']; [lia|];
     cbn [repeat app]; rewrite start_read_before_fence; [|destruct Hch as [->| ->]; apply fence_chars_ok|reflexivity];
     change (ch :: repeat ch n' ++ [10]) with (fence_line ch (S n'));
     change (fence_line ch (S n') :: (map render_line content ++ [fence_line ch (S n')]) ++ rest) with (fence_block ch (S n') content ++ rest);
     apply IH; exact Hl).
Qed.

Lemma fence_configs :
  forallb (fun ts => fence_first ts) [block_types_html; block_types_html_nohtml; block_types_latex; block_types_mathjax; block_types_default; block_types_markdown] = true.
Proof. vm_compute. reflexivity. Qed.
