(* C07, unbounded: ONE shortcut reference inside a sentence.  The text  pre [ w ] post  - pre, w, post free
   of trigger characters, w not blank, post not beginning with "(" - under ANY footnote map fn that holds
   the normalised label of w tokenizes to the raw text pre, one Link holding w whose target and title
   are what the map returns for normalize_label w, the raw text post.  With the theorems about the map
   (the whole document's definitions, first definition wins, labels compared after normalize_label) this
   is the property's three clauses on the resolved link itself: scanner, bracket matching, label lookup,
   all span finders, candidate tokenizer. *)
From Coq Require Import ZArith List Bool Lia.
From Mistletoe Require Import Base.Sx Base.PyStr Base.PyText Gen.GenTables Gen.GenRegex Gen.GenConfig Re.ReMatch
     Model.SpanTokenizer Model.Tree Model.Unescape Model.CoreTokens Model.Inline Model.Block Model.Build Model.Parser Model.HtmlRenderer
     Proofs.ReFirst Proofs.ReNeeds Proofs.Prose Proofs.PlainProse Proofs.ListLaw Proofs.ProseLines Proofs.EmphSimple Proofs.EmphSentence.
Import ListNotations.
Local Open Scope Z_scope.

(* one step of the scanner at an opening bracket *)
Lemma scan_bracket_step fuel s fn pre post st : s = pre ++ 91 :: post -> clean st ->
  scan_loop (S fuel) s fn (slen pre) None st =
  scan_loop fuel s fn (slen pre + 1) None
            (mkScan (sc_ds st ++ [new_delim (slen pre) (slen pre + 1) s]) (sc_ms st) false None false (sc_start st) (sc_code st)).
Proof.
  intros Es (Hr & He & Hi). cbn [scan_loop].
  assert (Hlt : slen pre <? slen s = true) by (apply Z.ltb_lt; rewrite Es, slen_app; unfold slen; cbn [length]; lia).
  assert (Ec : char_at s (slen pre) = 91) by (rewrite Es; apply char_at_mid).
  rewrite Hlt. cbn [negb]. rewrite Ec, He, Hr, Hi. reflexivity.
Qed.

Lemma mem_drop c i (s : str) : mem c s = false -> mem c (drop i s) = false.
Proof.
  unfold drop, mem. intros H. destruct (existsb (Z.eqb c) (skipn (Z.to_nat i) s)) eqn:E; [|reflexivity].
  apply existsb_exists in E as (x & Hx & Ex). assert (Hin : In x s) by (rewrite <- (firstn_skipn (Z.to_nat i) s); apply in_or_app; right; exact Hx).
  assert (T : existsb (Z.eqb c) s = true) by (apply existsb_exists; exists x; split; assumption). rewrite T in H. discriminate.
Qed.

Definition triggers_r : list Z := [92; 96; 126; 60; 10; 36; 38; 123; 124].
Definition kind_quiet_r (kd : span_kind) : bool :=
  match kd with
  | SK_CoreTokens | SK_InlineCode | SK_RawText => true
  | _ => existsb (fun c => needs (fst (re_of kd)) c) triggers_r
  end.

Section Ref.
  Variables (pre w post : str) (fn : footnotes) (dest title : str).
  Hypothesis Hpre : plain_text pre = true.
  Hypothesis Hw : plain_text w = true.
  Hypothesis Hpost : plain_text post = true.
  Hypothesis Hwb : is_blank w = false.
  Hypothesis Hpo : hd 0 post <> 40.
  Hypothesis Hfn : fn_get (normalize_label w) fn = Some (dest, title).

  Let s := pre ++ [91] ++ w ++ [93] ++ post.
  Let a := slen pre.
  Let b := a + 1 + slen w.

  Lemma r_len : slen s = b + 1 + slen post.
  Proof. unfold s, b, a. rewrite !slen_app. unfold slen. cbn [length]. lia. Qed.
  Lemma r_a0 : 0 <= a.  Proof. unfold a, slen. lia. Qed.
  Lemma r_w0 : 0 <= slen w.  Proof. unfold slen. lia. Qed.
  Lemma r_p0 : 0 <= slen post.  Proof. unfold slen. lia. Qed.

  Lemma r_at_b : char_at s b = 93.
  Proof.
    unfold s. replace (pre ++ [91] ++ w ++ [93] ++ post) with ((pre ++ [91] ++ w) ++ 93 :: post) by (rewrite <- !app_assoc; reflexivity).
    replace b with (slen (pre ++ [91] ++ w)) by (unfold b, a; rewrite !slen_app; unfold slen; cbn [length]; lia). apply char_at_mid.
  Qed.

  Lemma next_char : b + 1 <? slen s = true -> char_at s (b + 1) = hd 0 post.
  Proof.
    intros H. assert (Hcase : post = [] \/ exists c r, post = c :: r) by (destruct post as [|c r]; [left; reflexivity|right; exists c, r; reflexivity]).
    destruct Hcase as [Ep|(c & r & Ep)].
    - apply Z.ltb_lt in H. rewrite r_len, Ep in H. unfold slen in H. cbn [length] in H. lia.
    - rewrite Ep. cbn [hd]. unfold s. rewrite Ep.
      replace (pre ++ [91] ++ w ++ [93] ++ c :: r) with ((pre ++ [91] ++ w ++ [93]) ++ c :: r) by (rewrite <- !app_assoc; reflexivity).
      replace (b + 1) with (slen (pre ++ [91] ++ w ++ [93])) by (unfold b, a; rewrite !slen_app; unfold slen; cbn [length]; lia).
      apply char_at_mid.
  Qed.

  Lemma no_paren : follows s b 40 = false.
  Proof.
    unfold follows. destruct (b + 1 <? slen s) eqn:E; [|reflexivity]. rewrite (next_char E). cbn [andb]. apply Z.eqb_neq. exact Hpo.
  Qed.

  Lemma no_bracket : follows s b 91 = false.
  Proof.
    unfold follows. destruct (b + 1 <? slen s) eqn:E; [|reflexivity]. rewrite (next_char E). cbn [andb].
    assert (Hcase : post = [] \/ exists c r, post = c :: r) by (destruct post as [|c r]; [left; reflexivity|right; exists c, r; reflexivity]).
    destruct Hcase as [Ep|(c & r & Ep)]; [rewrite Ep; reflexivity|].
    pose proof (plain_no 91 post eq_refl Hpost) as M. rewrite Ep in *. cbn [hd].
    unfold mem in M. cbn [existsb] in M. apply orb_false_iff in M as [M _]. rewrite Z.eqb_sym. exact M.
  Qed.

  Lemma r_inner_w : substr s (a + 1) b = w.
  Proof.
    pose proof (substr_mid (pre ++ [91]) w ([93] ++ post)) as M.
    replace (slen (pre ++ [91])) with (a + 1) in M by (rewrite slen_app; reflexivity).
    replace (a + 1 + slen w) with b in M by (unfold b; lia).
    unfold s. replace (pre ++ [91] ++ w ++ [93] ++ post) with ((pre ++ [91]) ++ w ++ [93] ++ post) by (rewrite <- !app_assoc; reflexivity). exact M.
  Qed.

  Lemma bracket_text : substr s a (a + 1) = [91].
  Proof.
    pose proof (substr_mid pre [91] (w ++ [93] ++ post)) as M. fold a in M. exact M.
  Qed.

  Definition D : delim := mkDelim [91] 1 1 true a (a + 1) false false false.
  Lemma D_eq : new_delim a (a + 1) s = D.
  Proof. unfold new_delim. rewrite bracket_text. cbn [andb]. unfold D. f_equal; lia. Qed.

  Definition the_link : mobj :=
    link_mobj false a (b + 1) (a + 1, b, w) (-1, -1, dest) (-1, -1, title) $"shortcut" None [].

  Lemma label_ok : get_link_label w fn = Some (dest, title).
  Proof.
    unfold get_link_label. rewrite Hwb. cbn [negb].
    assert (N : forall t esc, plain_text t = true -> no_unescaped_bracket t esc = true).
    { induction t as [|c r IH]; intros esc Ht; [reflexivity|]. cbn [plain_text forallb] in Ht. apply andb_true_iff in Ht as [Hc Hr].
      apply negb_true_iff in Hc. unfold mem, triggers in Hc. cbn [existsb] in Hc. repeat (apply orb_false_iff in Hc; destruct Hc as [? Hc]).
      cbn [no_unescaped_bracket].
      repeat match goal with X : (_ =? c) = false |- _ => rewrite Z.eqb_sym in X end.
      repeat match goal with X : (c =? _) = false |- _ => rewrite X end. cbn [andb orb negb]. destruct esc; apply IH; exact Hr. }
    rewrite (N w false Hw). cbn [andb]. exact Hfn.
  Qed.

  Lemma link_found : match_link_image s b D fn = Some the_link.
  Proof.
    unfold match_link_image. cbn [D d_type d_start d_number]. replace (a + 1) with (a + 1) by reflexivity.
    rewrite no_paren, no_bracket, r_inner_w, label_ok. reflexivity.
  Qed.

  Lemma find_link : find_link_image s b [D] [] fn = (b, [], [the_link]).
  Proof.
    unfold find_link_image. change (Z.of_nat (length [D]) - 1) with 0. change (length [D]) with 1%nat.
    cbn [find_li_down]. change (nthd [D] 0 dummy) with D.
    change (is_bracket D) with true. cbn [d_active D negb]. cbv iota. rewrite link_found.
    assert (PE : process_emphasis s (Some 0) [D] [] = ([], [])).
    { unfold process_emphasis. change (next_closer 0 [D]) with (@None Z). destruct (3 * length s + 3)%nat; reflexivity. }
    rewrite PE. change (str_eqb (d_type D) ($"[")) with true. cbv iota. unfold deactivate. cbn [Z.to_nat firstn skipn map app].
    unfold the_link, link_mobj. cbn [m_end]. replace (b + 1 - 1) with b by lia. reflexivity.
  Qed.

  Lemma r_no c : mem c triggers_r = true -> mem c s = false.
  Proof.
    intros Hc.
    assert (P : forall t, plain_text t = true -> mem c t = false).
    { intros t Ht. apply plain_no; [|exact Ht]. unfold mem, triggers_r, triggers in *. cbn [existsb] in *.
      repeat (apply orb_true_iff in Hc; destruct Hc as [Hc|Hc]); try discriminate; rewrite Hc; cbn [orb]; rewrite ?orb_true_r; reflexivity. }
    assert (C91 : c <> 91 /\ c <> 93).
    { split; intros ->; vm_compute in Hc; discriminate. }
    unfold s, mem. rewrite !existsb_app. fold (mem c pre). fold (mem c w). fold (mem c post).
    rewrite (P pre Hpre), (P w Hw), (P post Hpost). cbn [existsb orb].
    destruct C91 as [C1 C2]. apply Z.eqb_neq in C1, C2. rewrite C1, C2. reflexivity.
  Qed.

  Lemma r_no_code i : code_search s i = None.
  Proof.
    unfold code_search. apply (search_state_none _ _ 96); [vm_compute; reflexivity|]. unfold seek. cbn [aft].
    apply mem_drop. apply r_no. reflexivity.
  Qed.

  (* ---- the scanner ---- *)
  Lemma scan_ref : exists st, scan_loop (S (S (length s))) s fn 0 None (mkScan [] [] false None false 0 []) = st /\
                              sc_ds st = [] /\ sc_ms st = [the_link] /\ sc_code st = [].
  Proof.
    assert (El : (S (S (length s)) = length pre + S (length w + S (length post + 2)))%nat).
    { unfold s. rewrite !app_length. cbn [length]. lia. }
    rewrite El.
    set (st0 := mkScan [] [] false None false 0 []).
    rewrite (scan_inert_any s fn pre _ [] ([91] ++ w ++ [93] ++ post) st0 eq_refl (plain_inert pre Hpre)) by (repeat split).
    change (slen [] + slen pre) with (slen pre).
    rewrite (scan_bracket_step _ s fn pre (w ++ [93] ++ post) st0 eq_refl) by (repeat split).
    fold a. rewrite D_eq. cbn [st0 sc_ds sc_ms sc_start sc_code app].
    set (st1 := mkScan [D] [] false None false 0 []).
    replace (a + 1) with (slen (pre ++ [91])) by (rewrite slen_app; reflexivity).
    rewrite (scan_inert_any s fn w _ (pre ++ [91]) ([93] ++ post) st1); [|unfold s; rewrite <- !app_assoc; reflexivity|exact (plain_inert w Hw)|repeat split].
    replace (slen (pre ++ [91]) + slen w) with b by (unfold b, a; rewrite slen_app; unfold slen; cbn [length]; lia).
    (* the closing bracket *)
    cbn [scan_loop].
    assert (Hlt : b <? slen s = true) by (apply Z.ltb_lt; rewrite r_len; pose proof r_p0; lia).
    rewrite Hlt. cbn [negb]. rewrite r_at_b. cbn [st1 sc_escaped sc_run sc_ds sc_ms sc_in_image sc_start sc_code andb negb orb Z.eqb Pos.eqb].
    rewrite find_link. rewrite r_no_code.
    set (st2 := mkScan [] [the_link] false None false 0 []).
    assert (Hcase : post = [] \/ post <> []) by (destruct post; [left; reflexivity|right; discriminate]).
    destruct Hcase as [Ep|Ep].
    - assert (Lp : length post = 0%nat) by (rewrite Ep; reflexivity). rewrite Lp. cbn [Nat.add].
      assert (Ee : b + 1 = slen s) by (rewrite r_len, Ep; unfold slen; cbn [length]; lia).
      rewrite Ee. rewrite scan_end. cbn [st2 sc_run]. eexists. split; [reflexivity|]. repeat split.
    - replace (b + 1) with (slen (pre ++ [91] ++ w ++ [93])) by (unfold b, a; rewrite !slen_app; unfold slen; cbn [length]; lia).
      rewrite (scan_inert_any s fn post 2 (pre ++ [91] ++ w ++ [93]) [] st2); [|unfold s; rewrite app_nil_r, <- !app_assoc; reflexivity|exact (plain_inert post Hpost)|repeat split].
      replace (slen (pre ++ [91] ++ w ++ [93]) + slen post) with (slen s) by (rewrite r_len; unfold b, a; rewrite !slen_app; unfold slen; cbn [length]; lia).
      rewrite scan_end. cbn [st2 sc_run]. eexists. split; [reflexivity|]. repeat split.
  Qed.

  Theorem core_finds_ref : find_core_tokens s fn = ([the_link], []).
  Proof.
    unfold find_core_tokens. rewrite r_no_code. destruct scan_ref as (st & -> & Hd & Hm & Hc). rewrite Hd, Hm, Hc.
    unfold process_emphasis. change (next_closer 0 []) with (@None Z). destruct (3 * length s + 3)%nat; reflexivity.
  Qed.

  Lemma find_all_ref : forall types, forallb kind_quiet_r types = true ->
    find_all types s fn [] = flat_map (fun kd => match kd with SK_CoreTokens => [CCore the_link] | _ => [] end) types.
  Proof.
    induction types as [|kd ts IH]; intros Hq; [reflexivity|].
    cbn [forallb] in Hq. apply andb_true_iff in Hq as [Hkq Hts]. cbn [find_all flat_map].
    assert (F : match kd with SK_CoreTokens | SK_InlineCode | SK_RawText => True | _ => finditer (snd (re_of kd)) (fst (re_of kd)) s = [] end).
    { destruct kd; try exact I; cbn [kind_quiet_r] in Hkq; apply existsb_exists in Hkq as (c & Hin & Hn);
        (apply (finditer_none _ _ c s Hn); apply r_no; unfold mem; apply existsb_exists; exists c; split; [exact Hin|apply Z.eqb_refl]). }
    destruct kd; cbn [find_kind];
      try (rewrite core_finds_ref; cbn [map app]; f_equal; apply IH; exact Hts);
      try (cbn [map app]; apply IH; exact Hts);
      (cbn [re_of fst snd] in F |- *; rewrite F; cbn [map app]; apply IH; exact Hts).
  Qed.

  Definition ref_tok : tok :=
    Link (mkLink (escape_strip (strip dest)) (escape_strip title) $"shortcut" None []) [RawText w].

  Theorem tokenize_inner_ref types : forallb kind_quiet_r (removelast types) = true ->
    filter (fun kd => match kd with SK_CoreTokens => true | _ => false end) (removelast types) = [SK_CoreTokens] ->
    tokenize_inner types fn s = raw_if pre ++ [ref_tok] ++ raw_if post.
  Proof.
    intros Hq Hc. unfold tokenize_inner. rewrite (find_all_ref _ Hq).
    assert (Es : flat_map (fun kd => match kd with SK_CoreTokens => [CCore the_link] | _ => [] end) (removelast types) = [CCore the_link]).
    { clear Hq. revert Hc. generalize (removelast types) as ts.
      assert (G : forall ts n, length (filter (fun kd => match kd with SK_CoreTokens => true | _ => false end) ts) = n ->
                flat_map (fun kd => match kd with SK_CoreTokens => [CCore the_link] | _ => [] end) ts = repeat (CCore the_link) n).
      { induction ts as [|kd ts IH]; intros n Hn; [cbn in Hn; subst n; reflexivity|]. cbn [flat_map filter] in *.
        destruct kd; try (cbn [app]; apply IH; exact Hn). destruct n as [|n]; [discriminate|]. cbn [length] in Hn. cbn [repeat app]. f_equal. apply IH. lia. }
      intros ts H. rewrite (G ts 1%nat) by (rewrite H; reflexivity). reflexivity. }
    rewrite Es.
    cbn [number_from map fst snd cand_of sk_parse_group field_span the_link link_mobj m_fields nth_error m_start m_end sk_precedence sk_parse_inner].
    pose proof r_len as Hs. pose proof r_a0 as Ha0. pose proof r_p0 as Hp0. pose proof r_w0 as Hw0.
    unfold tokenize, SpanTokenizer.make_tokens, make_tokens_with.
    cbn [sort_cands fold_right insert_stable buffer_rev eval_loop last_end pc ce mk_rev cs make inner ps pe app rev].
    unfold make_tokens_with. cbn [last_end mk_rev app rev].
    assert (Hwne : w <> []) by (intros E; rewrite E in Hwb; vm_compute in Hwb; discriminate).
    assert (Hwp : 0 < slen w) by (unfold slen; destruct (length w) eqn:El; [apply length_zero_iff_nil in El; contradiction|lia]).
    assert (a + 1 =? b = false) as -> by (apply Z.eqb_neq; unfold b; lia).
    assert (Gb : (if a >? 0 then [ORaw 0 a] else []) = match pre with [] => [] | _ => [ORaw 0 a] end) by (unfold a; apply gap_before).
    assert (Ga : (if b + 1 =? slen s then [] else [ORaw (b + 1) (slen s)]) = match post with [] => [] | _ => [ORaw (b + 1) (slen s)] end) by (rewrite Hs; apply gap_after).
    rewrite Gb, Ga. rewrite rev_app_distr. cbn [rev app]. rewrite rev_app_distr. cbn [rev app].
    rewrite !map_app. cbn [map build_otok cid src_at Z.to_nat nth].
    rewrite r_inner_w, (unescape_plain w Hw).
    assert (Tk : build_inner (CCore the_link) [RawText w] = ref_tok) by reflexivity.
    rewrite Tk. rewrite <- app_assoc. cbn [app]. f_equal; [|f_equal].
    - apply raw_gap. cbn [build_otok]. f_equal.
      pose proof (substr_mid [] pre ([91] ++ w ++ [93] ++ post)) as M. cbn [app] in M. unfold slen at 1 2 in M. cbn [length Z.of_nat] in M.
      fold a in M. replace (0 + a) with a in M by lia. unfold s. cbn [app]. rewrite M. apply unescape_plain. exact Hpre.
    - apply raw_gap. cbn [build_otok]. f_equal.
      pose proof (substr_mid (pre ++ [91] ++ w ++ [93]) post []) as M.
      replace (slen (pre ++ [91] ++ w ++ [93])) with (b + 1) in M by (unfold b, a; rewrite !slen_app; unfold slen; cbn [length]; lia).
      rewrite app_nil_r in M. replace ((pre ++ [91] ++ w ++ [93]) ++ post) with s in M by (unfold s; rewrite <- !app_assoc; reflexivity).
      rewrite Hs. rewrite M. apply unescape_plain. exact Hpost.
  Qed.
End Ref.


Definition ref_spans_q (types : list span_kind) : bool := forallb kind_quiet_r (removelast types).

(* ---- the other half: no definition for the label - the brackets and the text between them stay literal text ---- *)
Section RefNone.
  Variables (pre w post : str) (fn : footnotes).
  Hypothesis Hpre : plain_text pre = true.
  Hypothesis Hw : plain_text w = true.
  Hypothesis Hpost : plain_text post = true.
  Hypothesis Hpo : hd 0 post <> 40.
  Hypothesis Hfn : fn_get (normalize_label w) fn = None.

  Let s := pre ++ [91] ++ w ++ [93] ++ post.
  Let a := slen pre.
  Let b := a + 1 + slen w.

  Lemma nolabel : get_link_label w fn = None.
  Proof. unfold get_link_label. destruct (no_unescaped_bracket w false && negb (is_blank w)); [exact Hfn|reflexivity]. Qed.

  Lemma nolink_found : match_link_image s b (D pre) fn = None.
  Proof.
    unfold match_link_image. cbn [D d_type d_start d_number].
    fold a. fold b. unfold s, b, a. rewrite (no_paren pre w post), (no_bracket pre w post), (r_inner_w pre w post), nolabel by assumption. reflexivity.
  Qed.

  Lemma find_nolink : find_link_image s b [D pre] [] fn = (b, [], []).
  Proof.
    unfold find_link_image. change (Z.of_nat (length [D pre]) - 1) with 0. change (length [D pre]) with 1%nat.
    cbn [find_li_down]. change (nthd [D pre] 0 dummy) with (D pre).
    change (is_bracket (D pre)) with true. cbn [d_active D negb]. cbv iota. rewrite nolink_found. reflexivity.
  Qed.

  Lemma scan_noref : scan_loop (S (S (length s))) s fn 0 None (mkScan [] [] false None false 0 []) = mkScan [] [] false None false 0 [].
  Proof.
    assert (El : (S (S (length s)) = length pre + S (length w + S (length post + 2)))%nat).
    { unfold s. rewrite !app_length. cbn [length]. lia. }
    rewrite El.
    set (st0 := mkScan [] [] false None false 0 []).
    rewrite (scan_inert_any s fn pre _ [] ([91] ++ w ++ [93] ++ post) st0 eq_refl (plain_inert pre Hpre)) by (repeat split).
    change (slen [] + slen pre) with (slen pre).
    rewrite (scan_bracket_step _ s fn pre (w ++ [93] ++ post) st0 eq_refl) by (repeat split).
    pose proof (D_eq pre w post) as HD. fold s in HD. rewrite HD. clear HD. cbn [st0 sc_ds sc_ms sc_start sc_code app].
    set (st1 := mkScan [D pre] [] false None false 0 []).
    replace (slen pre + 1) with (slen (pre ++ [91])) by (rewrite slen_app; reflexivity).
    rewrite (scan_inert_any s fn w _ (pre ++ [91]) ([93] ++ post) st1); [|unfold s; rewrite <- !app_assoc; reflexivity|exact (plain_inert w Hw)|repeat split].
    replace (slen (pre ++ [91]) + slen w) with b by (unfold b, a; rewrite slen_app; unfold slen; cbn [length]; lia).
    cbn [scan_loop].
    assert (Hlt : b <? slen s = true) by (apply Z.ltb_lt; unfold s, b, a; rewrite (r_len pre w post); unfold slen; lia).
    rewrite Hlt. cbn [negb].
    pose proof (r_at_b pre w post) as HB. fold s in HB. fold a in HB. fold b in HB. rewrite HB. clear HB.
    cbn [st1 sc_escaped sc_run sc_ds sc_ms sc_in_image sc_start sc_code andb negb orb Z.eqb Pos.eqb].
    rewrite find_nolink.
    pose proof (r_no_code pre w post Hpre Hw Hpost b) as HC. fold s in HC. rewrite HC. clear HC.
    assert (Hcase : post = [] \/ post <> []) by (destruct post; [left; reflexivity|right; discriminate]).
    destruct Hcase as [Ep|Ep].
    - assert (Lp : length post = 0%nat) by (rewrite Ep; reflexivity). rewrite Lp. cbn [Nat.add].
      assert (Ee : b + 1 = slen s) by (unfold s, b, a; rewrite (r_len pre w post), Ep; unfold slen; cbn [length]; lia).
      rewrite Ee. rewrite scan_end. reflexivity.
    - replace (b + 1) with (slen (pre ++ [91] ++ w ++ [93])) by (unfold b, a; rewrite !slen_app; unfold slen; cbn [length]; lia).
      rewrite (scan_inert_any s fn post 2 (pre ++ [91] ++ w ++ [93]) [] (mkScan [] [] false None false 0 [])); [|unfold s; rewrite app_nil_r, <- !app_assoc; reflexivity|exact (plain_inert post Hpost)|repeat split].
      replace (slen (pre ++ [91] ++ w ++ [93]) + slen post) with (slen s) by (unfold s; rewrite !slen_app; unfold slen; cbn [length]; lia).
      rewrite scan_end. reflexivity.
  Qed.

  Theorem core_finds_noref : find_core_tokens s fn = ([], []).
  Proof.
    unfold find_core_tokens. pose proof (r_no_code pre w post Hpre Hw Hpost 0) as HC. fold s in HC. rewrite HC. clear HC. rewrite scan_noref. cbn [sc_ds sc_ms sc_code].
    unfold process_emphasis. change (next_closer 0 []) with (@None Z). destruct (3 * length s + 3)%nat; reflexivity.
  Qed.

  Lemma find_all_noref : forall types, forallb kind_quiet_r types = true -> find_all types s fn [] = [].
  Proof.
    induction types as [|kd ts IH]; intros Hq; [reflexivity|].
    cbn [forallb] in Hq. apply andb_true_iff in Hq as [Hkq Hts]. cbn [find_all].
    assert (F : match kd with SK_CoreTokens | SK_InlineCode | SK_RawText => True | _ => finditer (snd (re_of kd)) (fst (re_of kd)) s = [] end).
    { destruct kd; try exact I; cbn [kind_quiet_r] in Hkq; apply existsb_exists in Hkq as (c & Hin & Hn);
        (apply (finditer_none _ _ c s Hn); apply (r_no pre w post Hpre Hw Hpost c); unfold mem; apply existsb_exists; exists c; split; [exact Hin|apply Z.eqb_refl]). }
    destruct kd; cbn [find_kind];
      try (rewrite core_finds_noref; cbn [map app]; apply IH; exact Hts);
      try (cbn [map app]; apply IH; exact Hts);
      (cbn [re_of fst snd] in F |- *; rewrite F; cbn [map app]; apply IH; exact Hts).
  Qed.

  Theorem tokenize_inner_noref types : forallb kind_quiet_r (removelast types) = true ->
    tokenize_inner types fn s = [RawText s].
  Proof.
    intros Hq. unfold tokenize_inner. rewrite (find_all_noref _ Hq). cbn [number_from map].
    unfold tokenize, SpanTokenizer.make_tokens, make_tokens_with. cbn [sort_cands fold_right buffer_rev mk_rev rev app last_end].
    assert (Hs : 0 < slen s) by (unfold s; rewrite !slen_app; unfold slen; cbn [length]; lia).
    assert (0 =? slen s = false) as -> by (apply Z.eqb_neq; lia).
    cbn [app rev map build_otok].
    assert (Esub : substr s 0 (slen s) = s).
    { pose proof (substr_mid [] s []) as M. rewrite app_nil_r in M. cbn [app] in M. unfold slen at 1 2 in M. cbn [length Z.of_nat] in M. rewrite Z.add_0_l in M. exact M. }
    rewrite Esub. f_equal. f_equal. unfold unescape, unescape_with.
    pose proof (r_no pre w post Hpre Hw Hpost 38 eq_refl) as H38. fold s in H38. rewrite H38. reflexivity.
  Qed.
End RefNone.

Theorem reference_without_definition types fn pre w post :
  ref_spans_q types = true -> plain_text pre && plain_text w && plain_text post && negb (hd 0 post =? 40) = true ->
  fn_get (normalize_label w) fn = None ->
  tokenize_inner types fn (pre ++ [91] ++ w ++ [93] ++ post) = [RawText (pre ++ [91] ++ w ++ [93] ++ post)].
Proof.
  intros Hq Ho Hf. repeat rewrite andb_true_iff in Ho. destruct Ho as [[[H1 H2] H3] H5]. apply negb_true_iff in H5. apply Z.eqb_neq in H5.
  apply (tokenize_inner_noref pre w post fn H1 H2 H3 H5 Hf types Hq).
Qed.



(* ---- the full form [t][lab] and the collapsed form [w][] ---- *)
Lemma label_scan_run : forall lab i st rest, plain_text lab = true ->
  label_scan (lab ++ 93 :: rest) i st false = Some (st, i + slen lab).
Proof.
  induction lab as [|c r IH]; intros i st rest H.
  - cbn [app label_scan]. change (93 =? 92) with false. change (93 =? 91) with false. change (93 =? 93) with true. cbn [andb negb].
    unfold slen. cbn [length Z.of_nat]. f_equal. f_equal. lia.
  - cbn [plain_text forallb] in H. apply andb_true_iff in H as [Hc Hr].
    apply negb_true_iff in Hc. unfold mem, triggers in Hc. cbn [existsb] in Hc. repeat (apply orb_false_iff in Hc; destruct Hc as [? Hc]).
    cbn [app label_scan].
    repeat match goal with X : (_ =? c) = false |- _ => rewrite Z.eqb_sym in X end.
    repeat match goal with X : (c =? _) = false |- _ => rewrite X end. cbn [andb orb negb].
    rewrite (IH (i + 1) st rest Hr). f_equal. f_equal. unfold slen. cbn [length]. lia.
Qed.

Section RefFull.
  Variables (pre t lab post : str) (fn : footnotes) (dest title : str).
  Hypothesis Hpre : plain_text pre = true.
  Hypothesis Ht : plain_text t = true.
  Hypothesis Hlab : plain_text lab = true.
  Hypothesis Hpost : plain_text post = true.
  Hypothesis Htne : t <> [].
  Hypothesis Hlb : is_blank lab = false.
  Hypothesis Hfn : fn_get (normalize_label lab) fn = Some (dest, title).

  Let s := pre ++ [91] ++ t ++ [93; 91] ++ lab ++ [93] ++ post.
  Let a := slen pre.
  Let b := a + 1 + slen t.
  Let e := b + 2 + slen lab.          (* the index of the second "]" *)

  Lemma f_len : slen s = e + 1 + slen post.
  Proof. unfold s, e, b, a. rewrite !slen_app. unfold slen. cbn [length]. lia. Qed.
  Lemma f_p0 : 0 <= slen post.  Proof. unfold slen. lia. Qed.
  Lemma f_l0 : 0 <= slen lab.  Proof. unfold slen. lia. Qed.
  Lemma f_t0 : 0 < slen t.
  Proof. unfold slen. destruct (length t) eqn:El; [apply length_zero_iff_nil in El; contradiction|lia]. Qed.

  Lemma f_at_b : char_at s b = 93.
  Proof.
    unfold s. replace (pre ++ [91] ++ t ++ [93; 91] ++ lab ++ [93] ++ post) with ((pre ++ [91] ++ t) ++ 93 :: ([91] ++ lab ++ [93] ++ post)) by (rewrite <- !app_assoc; reflexivity).
    replace b with (slen (pre ++ [91] ++ t)) by (unfold b, a; rewrite !slen_app; unfold slen; cbn [length]; lia). apply char_at_mid.
  Qed.
  Lemma f_at_b1 : char_at s (b + 1) = 91.
  Proof.
    unfold s. replace (pre ++ [91] ++ t ++ [93; 91] ++ lab ++ [93] ++ post) with ((pre ++ [91] ++ t ++ [93]) ++ 91 :: (lab ++ [93] ++ post)) by (rewrite <- !app_assoc; reflexivity).
    replace (b + 1) with (slen (pre ++ [91] ++ t ++ [93])) by (unfold b, a; rewrite !slen_app; unfold slen; cbn [length]; lia). apply char_at_mid.
  Qed.
  Lemma f_b1_lt : b + 1 <? slen s = true.
  Proof. apply Z.ltb_lt. rewrite f_len. unfold e. pose proof f_p0. pose proof f_l0. lia. Qed.

  Lemma f_inner : substr s (a + 1) b = t.
  Proof.
    pose proof (substr_mid (pre ++ [91]) t ([93; 91] ++ lab ++ [93] ++ post)) as M.
    replace (slen (pre ++ [91])) with (a + 1) in M by (rewrite slen_app; reflexivity).
    replace (a + 1 + slen t) with b in M by (unfold b; lia).
    unfold s. replace (pre ++ [91] ++ t ++ [93; 91] ++ lab ++ [93] ++ post) with ((pre ++ [91]) ++ t ++ [93; 91] ++ lab ++ [93] ++ post) by (rewrite <- !app_assoc; reflexivity). exact M.
  Qed.
  Lemma f_bracket : substr s a (a + 1) = [91].
  Proof. pose proof (substr_mid pre [91] (t ++ [93; 91] ++ lab ++ [93] ++ post)) as M. fold a in M. exact M. Qed.
  Lemma f_label : substr s (b + 2) e = lab.
  Proof.
    pose proof (substr_mid (pre ++ [91] ++ t ++ [93; 91]) lab ([93] ++ post)) as M.
    replace (slen (pre ++ [91] ++ t ++ [93; 91])) with (b + 2) in M by (unfold b, a; rewrite !slen_app; unfold slen; cbn [length]; lia).
    replace (b + 2 + slen lab) with e in M by reflexivity.
    unfold s. replace (pre ++ [91] ++ t ++ [93; 91] ++ lab ++ [93] ++ post) with ((pre ++ [91] ++ t ++ [93; 91]) ++ lab ++ [93] ++ post) by (rewrite <- !app_assoc; reflexivity). exact M.
  Qed.

  Definition FD : delim := mkDelim [91] 1 1 true a (a + 1) false false false.
  Lemma FD_eq : new_delim a (a + 1) s = FD.
  Proof. unfold new_delim. rewrite f_bracket. cbn [andb]. unfold FD. f_equal; lia. Qed.

  Definition the_full : mobj :=
    link_mobj false a (e + 1) (a + 1, b, t) (-1, -1, dest) (-1, -1, title) $"full" (Some lab) [].

  Lemma full_label : match_link_label s (b + 1) fn = Some ((b + 1, e + 1, lab), (dest, title)).
  Proof.
    unfold match_link_label.
    assert (Ed : drop (b + 1) s = 91 :: lab ++ 93 :: post).
    { unfold s. replace (pre ++ [91] ++ t ++ [93; 91] ++ lab ++ [93] ++ post) with ((pre ++ [91] ++ t ++ [93]) ++ 91 :: lab ++ 93 :: post) by (rewrite <- !app_assoc; reflexivity).
      replace (b + 1) with (slen (pre ++ [91] ++ t ++ [93])) by (unfold b, a; rewrite !slen_app; unfold slen; cbn [length]; lia).
      unfold drop, slen. rewrite Nat2Z.id, skipn_app, skipn_all, Nat.sub_diag. reflexivity. }
    rewrite Ed. cbn [label_scan]. change (91 =? 92) with false. change (91 =? 91) with true. cbn [andb negb]. change (-1 =? -1) with true. cbv iota.
    rewrite (label_scan_run lab (b + 1 + 1) (b + 1) post Hlab).
    replace (b + 1 + 1 + slen lab) with e by (unfold e; lia). replace (b + 1 + 1) with (b + 2) by lia.
    rewrite f_label, Hlb. cbn [negb]. rewrite Hfn. reflexivity.
  Qed.

  Lemma full_found : match_link_image s b FD fn = Some the_full.
  Proof.
    unfold match_link_image. cbn [FD d_type d_start d_number].
    assert (N40 : follows s b 40 = false) by (unfold follows; rewrite f_b1_lt, f_at_b1; reflexivity).
    assert (Y91 : follows s b 91 = true) by (unfold follows; rewrite f_b1_lt, f_at_b1; reflexivity).
    rewrite N40, Y91, f_inner, full_label. reflexivity.
  Qed.

  Lemma find_full : find_link_image s b [FD] [] fn = (e, [], [the_full]).
  Proof.
    unfold find_link_image. change (Z.of_nat (length [FD]) - 1) with 0. change (length [FD]) with 1%nat.
    cbn [find_li_down]. change (nthd [FD] 0 dummy) with FD.
    change (is_bracket FD) with true. cbn [d_active FD negb]. cbv iota. rewrite full_found.
    assert (PE : process_emphasis s (Some 0) [FD] [] = ([], [])).
    { unfold process_emphasis. change (next_closer 0 [FD]) with (@None Z). destruct (3 * length s + 3)%nat; reflexivity. }
    rewrite PE. change (str_eqb (d_type FD) ($"[")) with true. cbv iota. unfold deactivate. cbn [Z.to_nat firstn skipn map app].
    unfold the_full, link_mobj. cbn [m_end]. replace (e + 1 - 1) with e by lia. reflexivity.
  Qed.

  Lemma f_no c : mem c triggers_r = true -> mem c s = false.
  Proof.
    intros Hc.
    assert (P : forall x, plain_text x = true -> mem c x = false).
    { intros x Hx. apply plain_no; [|exact Hx]. unfold mem, triggers_r, triggers in *. cbn [existsb] in *.
      repeat (apply orb_true_iff in Hc; destruct Hc as [Hc|Hc]); try discriminate; rewrite Hc; cbn [orb]; rewrite ?orb_true_r; reflexivity. }
    assert (C91 : c <> 91 /\ c <> 93) by (split; intros ->; vm_compute in Hc; discriminate).
    unfold s, mem. rewrite !existsb_app. fold (mem c pre). fold (mem c t). fold (mem c lab). fold (mem c post).
    rewrite (P pre Hpre), (P t Ht), (P lab Hlab), (P post Hpost). cbn [existsb orb].
    destruct C91 as [C1 C2]. apply Z.eqb_neq in C1, C2. rewrite C1, C2. reflexivity.
  Qed.

  Lemma f_no_code i : code_search s i = None.
  Proof.
    unfold code_search. apply (search_state_none _ _ 96); [vm_compute; reflexivity|]. unfold seek. cbn [aft].
    apply mem_drop. apply f_no. reflexivity.
  Qed.

  Lemma scan_full : exists st, scan_loop (S (S (length s))) s fn 0 None (mkScan [] [] false None false 0 []) = st /\
                               sc_ds st = [] /\ sc_ms st = [the_full] /\ sc_code st = [].
  Proof.
    assert (El : (S (S (length s)) = length pre + S (length t + S (length lab + 2 + (length post + 2))))%nat).
    { unfold s. rewrite !app_length. cbn [length]. lia. }
    rewrite El.
    set (st0 := mkScan [] [] false None false 0 []).
    rewrite (scan_inert_any s fn pre _ [] ([91] ++ t ++ [93; 91] ++ lab ++ [93] ++ post) st0 eq_refl (plain_inert pre Hpre)) by (repeat split).
    change (slen [] + slen pre) with (slen pre).
    rewrite (scan_bracket_step _ s fn pre (t ++ [93; 91] ++ lab ++ [93] ++ post) st0 eq_refl) by (repeat split).
    fold a. rewrite FD_eq. cbn [st0 sc_ds sc_ms sc_start sc_code app].
    set (st1 := mkScan [FD] [] false None false 0 []).
    replace (a + 1) with (slen (pre ++ [91])) by (rewrite slen_app; reflexivity).
    rewrite (scan_inert_any s fn t _ (pre ++ [91]) ([93; 91] ++ lab ++ [93] ++ post) st1); [|unfold s; rewrite <- !app_assoc; reflexivity|exact (plain_inert t Ht)|repeat split].
    replace (slen (pre ++ [91]) + slen t) with b by (unfold b, a; rewrite slen_app; unfold slen; cbn [length]; lia).
    cbn [scan_loop].
    assert (Hlt : b <? slen s = true) by (apply Z.ltb_lt; rewrite f_len; unfold e; pose proof f_p0; pose proof f_l0; lia).
    rewrite Hlt. cbn [negb]. rewrite f_at_b. cbn [st1 sc_escaped sc_run sc_ds sc_ms sc_in_image sc_start sc_code andb negb orb Z.eqb Pos.eqb].
    rewrite find_full. rewrite f_no_code.
    set (st2 := mkScan [] [the_full] false None false 0 []).
    assert (Hcase : post = [] \/ post <> []) by (destruct post; [left; reflexivity|right; discriminate]).
    destruct Hcase as [Ep|Ep].
    - assert (Lp : length post = 0%nat) by (rewrite Ep; reflexivity). rewrite Lp.
      assert (Ee : e + 1 = slen s) by (rewrite f_len, Ep; unfold slen; cbn [length]; lia).
      rewrite Ee. replace (length lab + 2 + (0 + 2))%nat with (S (length lab + 3)) by lia. rewrite scan_end. cbn [st2 sc_run]. eexists. split; [reflexivity|]. repeat split.
    - replace (e + 1) with (slen (pre ++ [91] ++ t ++ [93; 91] ++ lab ++ [93])) by (unfold e, b, a; rewrite !slen_app; unfold slen; cbn [length]; lia).
      replace (length lab + 2 + (length post + 2))%nat with (length post + (length lab + 4))%nat by lia.
      rewrite (scan_inert_any s fn post _ (pre ++ [91] ++ t ++ [93; 91] ++ lab ++ [93]) [] st2); [|unfold s; rewrite app_nil_r, <- !app_assoc; reflexivity|exact (plain_inert post Hpost)|repeat split].
      replace (slen (pre ++ [91] ++ t ++ [93; 91] ++ lab ++ [93]) + slen post) with (slen s) by (rewrite f_len; unfold e, b, a; rewrite !slen_app; unfold slen; cbn [length]; lia).
      replace (length lab + 4)%nat with (S (length lab + 3)) by lia.
      rewrite scan_end. cbn [st2 sc_run]. eexists. split; [reflexivity|]. repeat split.
  Qed.

  Theorem core_finds_full : find_core_tokens s fn = ([the_full], []).
  Proof.
    unfold find_core_tokens. rewrite f_no_code. destruct scan_full as (st & -> & Hd & Hm & Hc). rewrite Hd, Hm, Hc.
    unfold process_emphasis. change (next_closer 0 []) with (@None Z). destruct (3 * length s + 3)%nat; reflexivity.
  Qed.

  Lemma find_all_full : forall types, forallb kind_quiet_r types = true ->
    find_all types s fn [] = flat_map (fun kd => match kd with SK_CoreTokens => [CCore the_full] | _ => [] end) types.
  Proof.
    induction types as [|kd ts IH]; intros Hq; [reflexivity|].
    cbn [forallb] in Hq. apply andb_true_iff in Hq as [Hkq Hts]. cbn [find_all flat_map].
    assert (F : match kd with SK_CoreTokens | SK_InlineCode | SK_RawText => True | _ => finditer (snd (re_of kd)) (fst (re_of kd)) s = [] end).
    { destruct kd; try exact I; cbn [kind_quiet_r] in Hkq; apply existsb_exists in Hkq as (c & Hin & Hn);
        (apply (finditer_none _ _ c s Hn); apply f_no; unfold mem; apply existsb_exists; exists c; split; [exact Hin|apply Z.eqb_refl]). }
    destruct kd; cbn [find_kind];
      try (rewrite core_finds_full; cbn [map app]; f_equal; apply IH; exact Hts);
      try (cbn [map app]; apply IH; exact Hts);
      (cbn [re_of fst snd] in F |- *; rewrite F; cbn [map app]; apply IH; exact Hts).
  Qed.

  Definition full_tok : tok :=
    Link (mkLink (escape_strip (strip dest)) (escape_strip title) $"full" (Some lab) []) [RawText t].

  Theorem tokenize_inner_full types : forallb kind_quiet_r (removelast types) = true ->
    filter (fun kd => match kd with SK_CoreTokens => true | _ => false end) (removelast types) = [SK_CoreTokens] ->
    tokenize_inner types fn s = raw_if pre ++ [full_tok] ++ raw_if post.
  Proof.
    intros Hq Hc. unfold tokenize_inner. rewrite (find_all_full _ Hq).
    assert (Es : flat_map (fun kd => match kd with SK_CoreTokens => [CCore the_full] | _ => [] end) (removelast types) = [CCore the_full]).
    { clear Hq. revert Hc. generalize (removelast types) as ts.
      assert (G : forall ts n, length (filter (fun kd => match kd with SK_CoreTokens => true | _ => false end) ts) = n ->
                flat_map (fun kd => match kd with SK_CoreTokens => [CCore the_full] | _ => [] end) ts = repeat (CCore the_full) n).
      { induction ts as [|kd ts IH]; intros n Hn; [cbn in Hn; subst n; reflexivity|]. cbn [flat_map filter] in *.
        destruct kd; try (cbn [app]; apply IH; exact Hn). destruct n as [|n]; [discriminate|]. cbn [length] in Hn. cbn [repeat app]. f_equal. apply IH. lia. }
      intros ts H. rewrite (G ts 1%nat) by (rewrite H; reflexivity). reflexivity. }
    rewrite Es.
    cbn [number_from map fst snd cand_of sk_parse_group field_span the_full link_mobj m_fields nth_error m_start m_end sk_precedence sk_parse_inner].
    pose proof f_len as Hs. pose proof f_p0 as Hp0. pose proof f_t0 as Ht0. pose proof f_l0 as Hl0.
    assert (Ha0 : 0 <= a) by (unfold a, slen; lia).
    unfold tokenize, SpanTokenizer.make_tokens, make_tokens_with.
    cbn [sort_cands fold_right insert_stable buffer_rev eval_loop last_end pc ce mk_rev cs make inner ps pe app rev].
    unfold make_tokens_with. cbn [last_end mk_rev app rev].
    assert (a + 1 =? b = false) as -> by (apply Z.eqb_neq; unfold b; lia).
    assert (Gb : (if a >? 0 then [ORaw 0 a] else []) = match pre with [] => [] | _ => [ORaw 0 a] end) by (unfold a; apply gap_before).
    assert (Ga : (if e + 1 =? slen s then [] else [ORaw (e + 1) (slen s)]) = match post with [] => [] | _ => [ORaw (e + 1) (slen s)] end) by (rewrite Hs; apply gap_after).
    rewrite Gb, Ga. rewrite rev_app_distr. cbn [rev app]. rewrite rev_app_distr. cbn [rev app].
    rewrite !map_app. cbn [map build_otok cid src_at Z.to_nat nth].
    rewrite f_inner, (unescape_plain t Ht).
    assert (Tk : build_inner (CCore the_full) [RawText t] = full_tok) by reflexivity.
    rewrite Tk. rewrite <- app_assoc. cbn [app]. f_equal; [|f_equal].
    - apply raw_gap. cbn [build_otok]. f_equal.
      pose proof (substr_mid [] pre ([91] ++ t ++ [93; 91] ++ lab ++ [93] ++ post)) as M. cbn [app] in M. unfold slen at 1 2 in M. cbn [length Z.of_nat] in M.
      fold a in M. replace (0 + a) with a in M by lia. unfold s. cbn [app]. rewrite M. apply unescape_plain. exact Hpre.
    - apply raw_gap. cbn [build_otok]. f_equal.
      pose proof (substr_mid (pre ++ [91] ++ t ++ [93; 91] ++ lab ++ [93]) post []) as M.
      replace (slen (pre ++ [91] ++ t ++ [93; 91] ++ lab ++ [93])) with (e + 1) in M by (unfold e, b, a; rewrite !slen_app; unfold slen; cbn [length]; lia).
      rewrite app_nil_r in M. replace ((pre ++ [91] ++ t ++ [93; 91] ++ lab ++ [93]) ++ post) with s in M by (unfold s; rewrite <- !app_assoc; reflexivity).
      rewrite Hs. rewrite M. apply unescape_plain. exact Hpost.
  Qed.
End RefFull.

Section RefColl.
  Variables (pre t post : str) (fn : footnotes) (dest title : str).
  Let lab : str := [].
  Hypothesis Hpre : plain_text pre = true.
  Hypothesis Ht : plain_text t = true.
  Hypothesis Hpost : plain_text post = true.
  Hypothesis Htne : t <> [].
  Hypothesis Htb : is_blank t = false.
  Hypothesis Hfn : fn_get (normalize_label t) fn = Some (dest, title).
  Let Hlab : plain_text lab = true := eq_refl.

  Let s := pre ++ [91] ++ t ++ [93; 91] ++ lab ++ [93] ++ post.
  Let a := slen pre.
  Let b := a + 1 + slen t.
  Let e := b + 2 + slen lab.          (* the index of the second "]" *)

  Lemma c_len : slen s = e + 1 + slen post.
  Proof. unfold s, e, b, a. rewrite !slen_app. unfold slen. cbn [length]. lia. Qed.
  Lemma c_p0 : 0 <= slen post.  Proof. unfold slen. lia. Qed.
  Lemma c_l0 : 0 <= slen lab.  Proof. unfold slen. lia. Qed.
  Lemma c_t0 : 0 < slen t.
  Proof. unfold slen. destruct (length t) eqn:El; [apply length_zero_iff_nil in El; contradiction|lia]. Qed.

  Lemma c_at_b : char_at s b = 93.
  Proof.
    unfold s. replace (pre ++ [91] ++ t ++ [93; 91] ++ lab ++ [93] ++ post) with ((pre ++ [91] ++ t) ++ 93 :: ([91] ++ lab ++ [93] ++ post)) by (rewrite <- !app_assoc; reflexivity).
    replace b with (slen (pre ++ [91] ++ t)) by (unfold b, a; rewrite !slen_app; unfold slen; cbn [length]; lia). apply char_at_mid.
  Qed.
  Lemma c_at_b1 : char_at s (b + 1) = 91.
  Proof.
    unfold s. replace (pre ++ [91] ++ t ++ [93; 91] ++ lab ++ [93] ++ post) with ((pre ++ [91] ++ t ++ [93]) ++ 91 :: (lab ++ [93] ++ post)) by (rewrite <- !app_assoc; reflexivity).
    replace (b + 1) with (slen (pre ++ [91] ++ t ++ [93])) by (unfold b, a; rewrite !slen_app; unfold slen; cbn [length]; lia). apply char_at_mid.
  Qed.
  Lemma c_b1_lt : b + 1 <? slen s = true.
  Proof. apply Z.ltb_lt. rewrite c_len. unfold e. pose proof c_p0. pose proof c_l0. lia. Qed.

  Lemma c_inner : substr s (a + 1) b = t.
  Proof.
    pose proof (substr_mid (pre ++ [91]) t ([93; 91] ++ lab ++ [93] ++ post)) as M.
    replace (slen (pre ++ [91])) with (a + 1) in M by (rewrite slen_app; reflexivity).
    replace (a + 1 + slen t) with b in M by (unfold b; lia).
    unfold s. replace (pre ++ [91] ++ t ++ [93; 91] ++ lab ++ [93] ++ post) with ((pre ++ [91]) ++ t ++ [93; 91] ++ lab ++ [93] ++ post) by (rewrite <- !app_assoc; reflexivity). exact M.
  Qed.
  Lemma c_bracket : substr s a (a + 1) = [91].
  Proof. pose proof (substr_mid pre [91] (t ++ [93; 91] ++ lab ++ [93] ++ post)) as M. fold a in M. exact M. Qed.
  Lemma c_label : substr s (b + 2) e = lab.
  Proof.
    pose proof (substr_mid (pre ++ [91] ++ t ++ [93; 91]) lab ([93] ++ post)) as M.
    replace (slen (pre ++ [91] ++ t ++ [93; 91])) with (b + 2) in M by (unfold b, a; rewrite !slen_app; unfold slen; cbn [length]; lia).
    replace (b + 2 + slen lab) with e in M by reflexivity.
    unfold s. replace (pre ++ [91] ++ t ++ [93; 91] ++ lab ++ [93] ++ post) with ((pre ++ [91] ++ t ++ [93; 91]) ++ lab ++ [93] ++ post) by (rewrite <- !app_assoc; reflexivity). exact M.
  Qed.

  Definition CD : delim := mkDelim [91] 1 1 true a (a + 1) false false false.
  Lemma CD_eq : new_delim a (a + 1) s = CD.
  Proof. unfold new_delim. rewrite c_bracket. cbn [andb]. unfold CD. f_equal; lia. Qed.

  Definition the_coll : mobj :=
    link_mobj false a (e + 1) (a + 1, b, t) (-1, -1, dest) (-1, -1, title) $"collapsed" None [].

  Lemma coll_label : match_link_label s (b + 1) fn = None.
  Proof.
    unfold match_link_label.
    assert (Ed : drop (b + 1) s = 91 :: lab ++ 93 :: post).
    { unfold s. replace (pre ++ [91] ++ t ++ [93; 91] ++ lab ++ [93] ++ post) with ((pre ++ [91] ++ t ++ [93]) ++ 91 :: lab ++ 93 :: post) by (rewrite <- !app_assoc; reflexivity).
      replace (b + 1) with (slen (pre ++ [91] ++ t ++ [93])) by (unfold b, a; rewrite !slen_app; unfold slen; cbn [length]; lia).
      unfold drop, slen. rewrite Nat2Z.id, skipn_app, skipn_all, Nat.sub_diag. reflexivity. }
    rewrite Ed. cbn [label_scan]. change (91 =? 92) with false. change (91 =? 91) with true. cbn [andb negb]. change (-1 =? -1) with true. cbv iota.
    rewrite (label_scan_run lab (b + 1 + 1) (b + 1) post Hlab).
    replace (b + 1 + 1 + slen lab) with e by (unfold e; lia). replace (b + 1 + 1) with (b + 2) by lia.
    rewrite c_label. reflexivity.
  Qed.

  Lemma coll_text : get_link_label t fn = Some (dest, title).
  Proof.
    unfold get_link_label. rewrite Htb. cbn [negb].
    assert (N : forall x esc, plain_text x = true -> no_unescaped_bracket x esc = true).
    { induction x as [|c r IH]; intros esc Hx; [reflexivity|]. cbn [plain_text forallb] in Hx. apply andb_true_iff in Hx as [Hc Hr].
      apply negb_true_iff in Hc. unfold mem, triggers in Hc. cbn [existsb] in Hc. repeat (apply orb_false_iff in Hc; destruct Hc as [? Hc]).
      cbn [no_unescaped_bracket].
      repeat match goal with X : (_ =? c) = false |- _ => rewrite Z.eqb_sym in X end.
      repeat match goal with X : (c =? _) = false |- _ => rewrite X end. cbn [andb orb negb]. destruct esc; apply IH; exact Hr. }
    rewrite (N t false Ht). cbn [andb]. exact Hfn.
  Qed.

  Lemma c_at_e : char_at s e = 93.
  Proof.
    unfold s. replace (pre ++ [91] ++ t ++ [93; 91] ++ lab ++ [93] ++ post) with ((pre ++ [91] ++ t ++ [93; 91] ++ lab) ++ 93 :: post) by (rewrite <- !app_assoc; reflexivity).
    replace e with (slen (pre ++ [91] ++ t ++ [93; 91] ++ lab)) by (unfold e, b, a; rewrite !slen_app; unfold slen; cbn [length]; lia). apply char_at_mid.
  Qed.

  Lemma coll_found : match_link_image s b CD fn = Some the_coll.
  Proof.
    unfold match_link_image. cbn [CD d_type d_start d_number].
    assert (N40 : follows s b 40 = false) by (unfold follows; rewrite c_b1_lt, c_at_b1; reflexivity).
    assert (Y91 : follows s b 91 = true) by (unfold follows; rewrite c_b1_lt, c_at_b1; reflexivity).
    assert (Y93 : follows s (b + 1) 93 = true).
    { unfold follows. replace (b + 1 + 1) with e by (unfold e, lab, slen; cbn [length]; lia). rewrite c_at_e.
      assert (e <? slen s = true) as -> by (apply Z.ltb_lt; rewrite c_len; pose proof c_p0; lia). reflexivity. }
    rewrite N40, Y91, c_inner, coll_label, coll_text, Y93. unfold the_coll. f_equal. unfold link_mobj. f_equal. unfold e, lab, slen. cbn [length]. lia.
  Qed.

  Lemma find_coll : find_link_image s b [CD] [] fn = (e, [], [the_coll]).
  Proof.
    unfold find_link_image. change (Z.of_nat (length [CD]) - 1) with 0. change (length [CD]) with 1%nat.
    cbn [find_li_down]. change (nthd [CD] 0 dummy) with CD.
    change (is_bracket CD) with true. cbn [d_active CD negb]. cbv iota. rewrite coll_found.
    assert (PE : process_emphasis s (Some 0) [CD] [] = ([], [])).
    { unfold process_emphasis. change (next_closer 0 [CD]) with (@None Z). destruct (3 * length s + 3)%nat; reflexivity. }
    rewrite PE. change (str_eqb (d_type CD) ($"[")) with true. cbv iota. unfold deactivate. cbn [Z.to_nat firstn skipn map app].
    unfold the_coll, link_mobj. cbn [m_end]. replace (e + 1 - 1) with e by lia. reflexivity.
  Qed.

  Lemma c_no c : mem c triggers_r = true -> mem c s = false.
  Proof.
    intros Hc.
    assert (P : forall x, plain_text x = true -> mem c x = false).
    { intros x Hx. apply plain_no; [|exact Hx]. unfold mem, triggers_r, triggers in *. cbn [existsb] in *.
      repeat (apply orb_true_iff in Hc; destruct Hc as [Hc|Hc]); try discriminate; rewrite Hc; cbn [orb]; rewrite ?orb_true_r; reflexivity. }
    assert (C91 : c <> 91 /\ c <> 93) by (split; intros ->; vm_compute in Hc; discriminate).
    unfold s, mem. rewrite !existsb_app. fold (mem c pre). fold (mem c t). fold (mem c lab). fold (mem c post).
    rewrite (P pre Hpre), (P t Ht), (P lab Hlab), (P post Hpost). cbn [existsb orb].
    destruct C91 as [C1 C2]. apply Z.eqb_neq in C1, C2. rewrite C1, C2. reflexivity.
  Qed.

  Lemma c_no_code i : code_search s i = None.
  Proof.
    unfold code_search. apply (search_state_none _ _ 96); [vm_compute; reflexivity|]. unfold seek. cbn [aft].
    apply mem_drop. apply c_no. reflexivity.
  Qed.

  Lemma scan_coll : exists st, scan_loop (S (S (length s))) s fn 0 None (mkScan [] [] false None false 0 []) = st /\
                               sc_ds st = [] /\ sc_ms st = [the_coll] /\ sc_code st = [].
  Proof.
    assert (El : (S (S (length s)) = length pre + S (length t + S (length lab + 2 + (length post + 2))))%nat).
    { unfold s. rewrite !app_length. cbn [length]. lia. }
    rewrite El.
    set (st0 := mkScan [] [] false None false 0 []).
    rewrite (scan_inert_any s fn pre _ [] ([91] ++ t ++ [93; 91] ++ lab ++ [93] ++ post) st0 eq_refl (plain_inert pre Hpre)) by (repeat split).
    change (slen [] + slen pre) with (slen pre).
    rewrite (scan_bracket_step _ s fn pre (t ++ [93; 91] ++ lab ++ [93] ++ post) st0 eq_refl) by (repeat split).
    fold a. rewrite CD_eq. cbn [st0 sc_ds sc_ms sc_start sc_code app].
    set (st1 := mkScan [CD] [] false None false 0 []).
    replace (a + 1) with (slen (pre ++ [91])) by (rewrite slen_app; reflexivity).
    rewrite (scan_inert_any s fn t _ (pre ++ [91]) ([93; 91] ++ lab ++ [93] ++ post) st1); [|unfold s; rewrite <- !app_assoc; reflexivity|exact (plain_inert t Ht)|repeat split].
    replace (slen (pre ++ [91]) + slen t) with b by (unfold b, a; rewrite slen_app; unfold slen; cbn [length]; lia).
    cbn [scan_loop].
    assert (Hlt : b <? slen s = true) by (apply Z.ltb_lt; rewrite c_len; unfold e; pose proof c_p0; pose proof c_l0; lia).
    rewrite Hlt. cbn [negb]. rewrite c_at_b. cbn [st1 sc_escaped sc_run sc_ds sc_ms sc_in_image sc_start sc_code andb negb orb Z.eqb Pos.eqb].
    rewrite find_coll. rewrite c_no_code.
    set (st2 := mkScan [] [the_coll] false None false 0 []).
    assert (Hcase : post = [] \/ post <> []) by (destruct post; [left; reflexivity|right; discriminate]).
    destruct Hcase as [Ep|Ep].
    - assert (Lp : length post = 0%nat) by (rewrite Ep; reflexivity). rewrite Lp.
      assert (Ee : e + 1 = slen s) by (rewrite c_len, Ep; unfold slen; cbn [length]; lia).
      rewrite Ee. replace (length lab + 2 + (0 + 2))%nat with (S (length lab + 3)) by lia. rewrite scan_end. cbn [st2 sc_run]. eexists. split; [reflexivity|]. repeat split.
    - replace (e + 1) with (slen (pre ++ [91] ++ t ++ [93; 91] ++ lab ++ [93])) by (unfold e, b, a; rewrite !slen_app; unfold slen; cbn [length]; lia).
      replace (length lab + 2 + (length post + 2))%nat with (length post + (length lab + 4))%nat by lia.
      rewrite (scan_inert_any s fn post _ (pre ++ [91] ++ t ++ [93; 91] ++ lab ++ [93]) [] st2); [|unfold s; rewrite app_nil_r, <- !app_assoc; reflexivity|exact (plain_inert post Hpost)|repeat split].
      replace (slen (pre ++ [91] ++ t ++ [93; 91] ++ lab ++ [93]) + slen post) with (slen s) by (rewrite c_len; unfold e, b, a; rewrite !slen_app; unfold slen; cbn [length]; lia).
      replace (length lab + 4)%nat with (S (length lab + 3)) by lia.
      rewrite scan_end. cbn [st2 sc_run]. eexists. split; [reflexivity|]. repeat split.
  Qed.

  Theorem core_finds_coll : find_core_tokens s fn = ([the_coll], []).
  Proof.
    unfold find_core_tokens. rewrite c_no_code. destruct scan_coll as (st & -> & Hd & Hm & Hc). rewrite Hd, Hm, Hc.
    unfold process_emphasis. change (next_closer 0 []) with (@None Z). destruct (3 * length s + 3)%nat; reflexivity.
  Qed.

  Lemma find_all_coll : forall types, forallb kind_quiet_r types = true ->
    find_all types s fn [] = flat_map (fun kd => match kd with SK_CoreTokens => [CCore the_coll] | _ => [] end) types.
  Proof.
    induction types as [|kd ts IH]; intros Hq; [reflexivity|].
    cbn [forallb] in Hq. apply andb_true_iff in Hq as [Hkq Hts]. cbn [find_all flat_map].
    assert (F : match kd with SK_CoreTokens | SK_InlineCode | SK_RawText => True | _ => finditer (snd (re_of kd)) (fst (re_of kd)) s = [] end).
    { destruct kd; try exact I; cbn [kind_quiet_r] in Hkq; apply existsb_exists in Hkq as (c & Hin & Hn);
        (apply (finditer_none _ _ c s Hn); apply c_no; unfold mem; apply existsb_exists; exists c; split; [exact Hin|apply Z.eqb_refl]). }
    destruct kd; cbn [find_kind];
      try (rewrite core_finds_coll; cbn [map app]; f_equal; apply IH; exact Hts);
      try (cbn [map app]; apply IH; exact Hts);
      (cbn [re_of fst snd] in F |- *; rewrite F; cbn [map app]; apply IH; exact Hts).
  Qed.

  Definition coll_tok : tok :=
    Link (mkLink (escape_strip (strip dest)) (escape_strip title) $"collapsed" None []) [RawText t].

  Theorem tokenize_inner_coll types : forallb kind_quiet_r (removelast types) = true ->
    filter (fun kd => match kd with SK_CoreTokens => true | _ => false end) (removelast types) = [SK_CoreTokens] ->
    tokenize_inner types fn s = raw_if pre ++ [coll_tok] ++ raw_if post.
  Proof.
    intros Hq Hc. unfold tokenize_inner. rewrite (find_all_coll _ Hq).
    assert (Es : flat_map (fun kd => match kd with SK_CoreTokens => [CCore the_coll] | _ => [] end) (removelast types) = [CCore the_coll]).
    { clear Hq. revert Hc. generalize (removelast types) as ts.
      assert (G : forall ts n, length (filter (fun kd => match kd with SK_CoreTokens => true | _ => false end) ts) = n ->
                flat_map (fun kd => match kd with SK_CoreTokens => [CCore the_coll] | _ => [] end) ts = repeat (CCore the_coll) n).
      { induction ts as [|kd ts IH]; intros n Hn; [cbn in Hn; subst n; reflexivity|]. cbn [flat_map filter] in *.
        destruct kd; try (cbn [app]; apply IH; exact Hn). destruct n as [|n]; [discriminate|]. cbn [length] in Hn. cbn [repeat app]. f_equal. apply IH. lia. }
      intros ts H. rewrite (G ts 1%nat) by (rewrite H; reflexivity). reflexivity. }
    rewrite Es.
    cbn [number_from map fst snd cand_of sk_parse_group field_span the_coll link_mobj m_fields nth_error m_start m_end sk_precedence sk_parse_inner].
    pose proof c_len as Hs. pose proof c_p0 as Hp0. pose proof c_t0 as Ht0. pose proof c_l0 as Hl0.
    assert (Ha0 : 0 <= a) by (unfold a, slen; lia).
    unfold tokenize, SpanTokenizer.make_tokens, make_tokens_with.
    cbn [sort_cands fold_right insert_stable buffer_rev eval_loop last_end pc ce mk_rev cs make inner ps pe app rev].
    unfold make_tokens_with. cbn [last_end mk_rev app rev].
    assert (a + 1 =? b = false) as -> by (apply Z.eqb_neq; unfold b; lia).
    assert (Gb : (if a >? 0 then [ORaw 0 a] else []) = match pre with [] => [] | _ => [ORaw 0 a] end) by (unfold a; apply gap_before).
    assert (Ga : (if e + 1 =? slen s then [] else [ORaw (e + 1) (slen s)]) = match post with [] => [] | _ => [ORaw (e + 1) (slen s)] end) by (rewrite Hs; apply gap_after).
    rewrite Gb, Ga. rewrite rev_app_distr. cbn [rev app]. rewrite rev_app_distr. cbn [rev app].
    rewrite !map_app. cbn [map build_otok cid src_at Z.to_nat nth].
    rewrite c_inner, (unescape_plain t Ht).
    assert (Tk : build_inner (CCore the_coll) [RawText t] = coll_tok) by reflexivity.
    rewrite Tk. rewrite <- app_assoc. cbn [app]. f_equal; [|f_equal].
    - apply raw_gap. cbn [build_otok]. f_equal.
      pose proof (substr_mid [] pre ([91] ++ t ++ [93; 91] ++ lab ++ [93] ++ post)) as M. cbn [app] in M. unfold slen at 1 2 in M. cbn [length Z.of_nat] in M.
      fold a in M. replace (0 + a) with a in M by lia. unfold s. cbn [app]. rewrite M. apply unescape_plain. exact Hpre.
    - apply raw_gap. cbn [build_otok]. f_equal.
      pose proof (substr_mid (pre ++ [91] ++ t ++ [93; 91] ++ lab ++ [93]) post []) as M.
      replace (slen (pre ++ [91] ++ t ++ [93; 91] ++ lab ++ [93])) with (e + 1) in M by (unfold e, b, a; rewrite !slen_app; unfold slen; cbn [length]; lia).
      rewrite app_nil_r in M. replace ((pre ++ [91] ++ t ++ [93; 91] ++ lab ++ [93]) ++ post) with s in M by (unfold s; rewrite <- !app_assoc; reflexivity).
      rewrite Hs. rewrite M. apply unescape_plain. exact Hpost.
  Qed.
End RefColl.

(* ---- the statement with computable hypotheses ---- *)
Definition ref_spans (types : list span_kind) : bool :=
  forallb kind_quiet_r (removelast types) &&
  match filter (fun kd => match kd with SK_CoreTokens => true | _ => false end) (removelast types) with [SK_CoreTokens] => true | _ => false end.

Definition ref_ok (pre w post : str) : bool :=
  plain_text pre && plain_text w && plain_text post && negb (is_blank w) && negb (hd 0 post =? 40).

Definition link_of (w dest title : str) : tok :=
  Link (mkLink (escape_strip (strip dest)) (escape_strip title) $"shortcut" None []) [RawText w].

Theorem reference_in_sentence types fn pre w post dest title :
  ref_spans types = true -> ref_ok pre w post = true -> fn_get (normalize_label w) fn = Some (dest, title) ->
  tokenize_inner types fn (pre ++ [91] ++ w ++ [93] ++ post) = raw_if pre ++ [link_of w dest title] ++ raw_if post.
Proof.
  intros Hs Ho Hf. unfold ref_spans in Hs. apply andb_true_iff in Hs as [Hq Hc].
  unfold ref_ok in Ho. repeat rewrite andb_true_iff in Ho. destruct Ho as [[[[H1 H2] H3] H4] H5]. apply negb_true_iff in H4, H5. apply Z.eqb_neq in H5.
  apply (tokenize_inner_ref pre w post fn dest title H1 H2 H3 H4 H5 Hf types Hq).
  destruct (filter _ _) as [|[] [|? ?]]; try discriminate. reflexivity.
Qed.

Lemma ref_configs :
  forallb (fun c => ref_spans (cfg_span c)) [cfg_html; cfg_html_nohtml; cfg_markdown; cfg_latex; cfg_mathjax; cfg_default] = true.
Proof. vm_compute. reflexivity. Qed.

(* ... against the document's own definitions: the reference resolves to the FIRST definition, in document order and wherever
   it stands (before or after the reference, inside a quote or a list item), whose label normalises to the same key *)
From Mistletoe Require Import Proofs.Footnotes.
Theorem reference_resolves cfg lines pre w post d :
  ref_spans (cfg_span cfg) = true -> ref_ok pre w post = true ->
  find (fun d => str_eqb (normalize_label (def_label d)) (normalize_label w)) (flat_map defs_of (fst (block_phase cfg lines))) = Some d ->
  tokenize_inner (cfg_span cfg) (snd (block_phase cfg lines)) (pre ++ [91] ++ w ++ [93] ++ post) =
  raw_if pre ++ [link_of w (fst (def_value d)) (snd (def_value d))] ++ raw_if post.
Proof.
  intros Hs Ho Hf. apply reference_in_sentence; [exact Hs|exact Ho|].
  rewrite document_lookup, Hf. cbn [option_map]. destruct (def_value d). reflexivity.
Qed.

Example reference_instance :
  ref_ok ($"see ") ($"The  Label") ($", ok") = true /\ ref_ok ($"see ") ($"x") ($"(y)") = false /\ ref_ok [] ($"a*b") [] = false /\
  normalize_label ($"The  Label") = normalize_label ($"the label").
Proof. vm_compute. repeat split; reflexivity. Qed.

(* ---- the other reference forms, and the reference whose label is not defined ---- *)
Definition full_ok (pre t lab post : str) : bool :=
  plain_text pre && plain_text t && plain_text lab && plain_text post && (match t with [] => false | _ => true end) && negb (is_blank lab).

Theorem full_reference_in_sentence types fn pre t lab post dest title :
  ref_spans types = true -> full_ok pre t lab post = true -> fn_get (normalize_label lab) fn = Some (dest, title) ->
  tokenize_inner types fn (pre ++ [91] ++ t ++ [93; 91] ++ lab ++ [93] ++ post) =
  raw_if pre ++ [Link (mkLink (escape_strip (strip dest)) (escape_strip title) $"full" (Some lab) []) [RawText t]] ++ raw_if post.
Proof.
  intros Hs Ho Hf. unfold ref_spans in Hs. apply andb_true_iff in Hs as [Hq Hc].
  unfold full_ok in Ho. repeat rewrite andb_true_iff in Ho. destruct Ho as [[[[[H1 H2] H3] H4] H5] H6]. apply negb_true_iff in H6.
  apply (tokenize_inner_full pre t lab post fn dest title H1 H2 H3 H4); [destruct t; [discriminate|discriminate]|exact H6|exact Hf|exact Hq|].
  destruct (filter _ _) as [|[] [|? ?]]; try discriminate. reflexivity.
Qed.

Theorem collapsed_reference_in_sentence types fn pre t post dest title :
  ref_spans types = true -> full_ok pre t t post = true -> fn_get (normalize_label t) fn = Some (dest, title) ->
  tokenize_inner types fn (pre ++ [91] ++ t ++ [93; 91; 93] ++ post) =
  raw_if pre ++ [Link (mkLink (escape_strip (strip dest)) (escape_strip title) $"collapsed" None []) [RawText t]] ++ raw_if post.
Proof.
  intros Hs Ho Hf. unfold ref_spans in Hs. apply andb_true_iff in Hs as [Hq Hc].
  unfold full_ok in Ho. repeat rewrite andb_true_iff in Ho. destruct Ho as [[[[[H1 H2] _] H4] H5] H6]. apply negb_true_iff in H6.
  apply (tokenize_inner_coll pre t post fn dest title H1 H2 H4); [destruct t; [discriminate|discriminate]|exact H6|exact Hf|exact Hq|].
  destruct (filter _ _) as [|[] [|? ?]]; try discriminate. reflexivity.
Qed.
