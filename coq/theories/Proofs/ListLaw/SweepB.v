(* kernel evaluation of the list-embedding law (C04) on every text over law_alpha up to length 4 *)
From Coq Require Import ZArith List Bool.
From Mistletoe Require Import Base.Sx Base.PyStr Model.Parser Proofs.Laws.
Import ListNotations.
Local Open Scope Z_scope.
Lemma sweep : forallb (list_law_guarded cfg_html [45] 3%nat) (strings_up_to law_alpha 4) = true.
Proof. vm_compute. reflexivity. Qed.
