(* C05 in the property's own terms: the flags of any_blocks_independent follow from "A's last
   block is closed", except for top-level lists (which keep their computable flag) and given
   that no top-level block of A is a link-definition block.  A code / fence / HTML block
   after which only blank lines remain would itself be the last block. *)
From Coq Require Import ZArith List Bool Lia.
From Mistletoe Require Import Base.Sx Base.PyStr Base.PyText Gen.GenConfig Model.Tree Model.CoreTokens Model.Block
     Proofs.BlockProgress Proofs.Independence Proofs.Independence2 Proofs.BlankLines Proofs.ListEnds.
Import ListNotations.
Local Open Scope Z_scope.

Definition is_pfootnote (p : pre) : bool := match p with PFootnote _ _ => true | _ => false end.
Definition is_pblank (p : pre) : bool := match p with PBlankLine _ => true | _ => false end.

Definition closed_last (es : list pre) : bool := match rev es with p :: _ => closed_pre p | [] => true end.

Section Level.
  Variable types : list block_kind.
  Variable rec : list str -> Z -> pstate -> list pre * bool * pstate.
  Hypothesis Hnb : no_blankline_kind types = true.

  (* what the readers can return *)
  Lemma start_read_cases k after ln st p c st' :
    start_read types rec k after ln st = Some (p, c, st') ->
    closed_pre p || leafy_pre p || is_plist p || is_pfootnote p || (is_pblank p && kind_eqb k BK_BlankLine) = true.
  Proof.
    destruct after as [|x X]; [discriminate|]. intros H.
    destruct k; cbn [start_read] in H.
    - destruct (blockcode_start x); [|discriminate]. destruct (blockcode_read (x :: X)). injection H as <- _ _. reflexivity.
    - destruct (heading_start x) as [[[? ?] ?]|]; [|discriminate]. injection H as <- _ _. reflexivity.
    - destruct (quote_start x); [|discriminate]. destruct (quote_lines types (x :: X)).
      destruct (rec _ _ _) as [[? ?] ?]. injection H as <- _ _. reflexivity.
    - destruct (codefence_start x) as [[[[i l] f] g]|]; [|discriminate]. destruct (fence_loop X i l [] 1%nat). injection H as <- _ _. reflexivity.
    - destruct (thematic_start x); [|discriminate]. injection H as <- _ _. reflexivity.
    - destruct (list_start x); [|discriminate]. destruct (read_list _ _ _ _ _ _ _ _ _ _) as [[items c0] s0].
      injection H as <- _ _. reflexivity.
    - destruct (table_start x); [|discriminate]. destruct (table_read (x :: X)); [|discriminate]. injection H as <- _ _. reflexivity.
    - destruct (footnote_start x); [|discriminate]. destruct (footnote_read (x :: X)) as [[? ?]|]; [|discriminate]. injection H as <- _ _. reflexivity.
    - destruct (paragraph_start x); [|discriminate]. destruct (para_loop _ _ _ _ _) as [[? ?] []]; injection H as <- _ _; reflexivity.
    - destruct (htmlblock_start x) as [[? e]|]; [|discriminate]. destruct (html_loop (x :: X) e [] 0%nat). injection H as <- _ _. reflexivity.
    - destruct (blankline_start x); [|discriminate]. injection H as <- _ _. reflexivity.
    - destruct (footnote_start x); [|discriminate]. destruct (footnote_read (x :: X)) as [[? ?]|]; [|discriminate]. injection H as <- _ _. reflexivity.
  Qed.

  Lemma try_types_cases after ln st p c st' : forall ts, no_blankline_kind ts = true ->
    try_types types rec ts after ln st = Some (p, c, st') ->
    closed_pre p || leafy_pre p || is_plist p || is_pfootnote p = true.
  Proof.
    induction ts as [|k ts IH]; intros Hn H; [discriminate|]. cbn [no_blankline_kind forallb] in Hn. apply andb_true_iff in Hn as [Hk Hr].
    cbn [try_types] in H. destruct (start_read types rec k after ln st) as [[[p0 c0] s0]|] eqn:E; [|apply IH; assumption].
    injection H as -> -> ->. pose proof (start_read_cases _ _ _ _ _ _ _ E) as C. apply negb_true_iff in Hk. rewrite Hk, andb_false_r, orb_false_r in C. exact C.
  Qed.

  (* the flags the theorem keeps: no top-level link-definition block, no reader that consumed nothing, lists ended by a line of A *)
  Definition step_ok4 (p : pre) (X : list str) (ln : Z) (st : pstate) : bool :=
    negb (is_pfootnote p) && (negb (is_plist p) || negb (list_runs_off types rec (S (length X)) X ln None None st)).

  Fixpoint stable_run4 (n : nat) (A : list str) (ln : Z) (st : pstate) : bool :=
    match n with
    | O => true
    | S n' =>
      match A with
      | [] => true
      | _ :: rest =>
        match try_types types rec types A ln st with
        | Some (p, c, st') =>
          step_ok4 p A ln st && (match c with O => false | _ => stable_run4 n' (skipn c A) (ln + nlines c) st' end)
        | None => stable_run4 n' rest (ln + 1) st
        end
      end
    end.

  Lemma last_app_cons {A} (l : list A) x : rev (l ++ [x]) = x :: rev l.
  Proof. rewrite rev_app_distr. reflexivity. Qed.

  Lemma flags_or_open_end : forall n A ln acc lo st,
    (length A < n)%nat -> stable_run4 n A ln st = true ->
    stable_run3 types rec n A ln st = true \/
    exists new p, fst (fst (dispatch_loop types rec n A ln acc lo st)) = rev acc ++ new ++ [p] /\ closed_pre p = false.
  Proof.
    induction n as [|n IH]; intros A ln acc lo st Hl H4; [lia|].
    destruct A as [|x X]; [left; reflexivity|].
    cbn [stable_run4] in H4. cbn [stable_run3 dispatch_loop].
    destruct (try_types types rec types (x :: X) ln st) as [[[p c] st']|] eqn:E.
    - apply andb_true_iff in H4 as [H4 Hrest]. destruct c as [|c]; [discriminate|].
      destruct (step_ok3 types rec p (S c) (x :: X) ln st) eqn:E3.
      + assert (Hlen : (length (skipn (S c) (x :: X)) < n)%nat) by (rewrite skipn_length; cbn [length] in *; lia).
        destruct (IH (skipn (S c) (x :: X)) (ln + nlines (S c)) (p :: acc) lo st' Hlen Hrest) as [L|(new & q & En & Hq)].
        * left. rewrite L. reflexivity.
        * right. exists (p :: new), q. split; [|exact Hq]. rewrite En. cbn [rev]. rewrite <- !app_assoc. reflexivity.
      + right. unfold step_ok3 in E3. apply orb_false_iff in E3 as [E3 El]. apply orb_false_iff in E3 as [Ec Ef].
        unfold step_ok4 in H4. apply andb_true_iff in H4 as [Hf Hli]. apply negb_true_iff in Hf.
        assert (Np : is_plist p = false).
        { destruct (is_plist p) eqn:Ep; [|reflexivity]. cbn [negb orb andb] in Hli, El. rewrite Hli in El. discriminate. }
        pose proof (try_types_cases _ _ _ _ _ _ types Hnb E) as C. rewrite Ec, Np, Hf in C. cbn [orb] in C. rewrite !orb_false_r in C.
        rewrite C in Ef. cbn [andb] in Ef.
        assert (Hlen : (length (skipn (S c) (x :: X)) < n)%nat) by (rewrite skipn_length; cbn [length] in *; lia).
        destruct (dispatch_blanks types rec Hnb (skipn (S c) (x :: X)) n (ln + nlines (S c)) (p :: acc) lo st' Ef Hlen) as [D _].
        exists [], p. split; [|exact Ec]. rewrite D. cbn [rev app]. reflexivity.
    - assert (Hlen : (length X < n)%nat) by (cbn [length] in Hl; lia).
      destruct (IH X (ln + 1) acc true st Hlen H4) as [L|R]; [left; exact L|right; exact R].
  Qed.

  Theorem closed_last_gives_flags n A ln st :
    (length A < n)%nat -> stable_run4 n A ln st = true ->
    closed_last (fst (fst (dispatch_loop types rec n A ln [] false st))) = true ->
    stable_run3 types rec n A ln st = true.
  Proof.
    intros Hl H4 Hc. destruct (flags_or_open_end n A ln [] false st Hl H4) as [L|(new & p & E & Hp)]; [exact L|].
    rewrite E in Hc. cbn [rev app] in Hc. unfold closed_last in Hc. rewrite last_app_cons in Hc. rewrite Hp in Hc. discriminate.
  Qed.
End Level.

(* C05 with the property's hypothesis: A's last block is closed; no top-level block of A is a link-definition block;
   every top-level list of A is ended by a line of A (computable) *)
Theorem closed_last_independent types f A B st :
  no_blankline_kind types = true ->
  stable_run4 types (tokenize_block types f) (S (length A)) A 1 st = true ->
  closed_last (entries (tokenize_block types (S f) A 1 st)) = true ->
  let '(esA, _, stA) := tokenize_block types (S f) A 1 st in
  entries (tokenize_block types (S f) (A ++ NL :: B) 1 st) =
  esA ++ map (shift_pre (Z.of_nat (length A) + 1)) (entries (tokenize_block types (S f) B 1 stA)).
Proof.
  intros Hnb H4 Hc. apply any_blocks_independent; [exact Hnb|].
  apply (closed_last_gives_flags types (tokenize_block types f) Hnb); [lia|exact H4|exact Hc].
Qed.

(* non-vacuity: code blocks and an HTML block before the closing paragraph; no list *)
Example closed_last_somewhere :
  let A := [ $"    code" ++ [10]; [10]; $"```" ++ [10]; $"x" ++ [10]; $"```" ++ [10]; $"<div>" ++ [10]; [10]; $"# h" ++ [10]; $"para" ++ [10] ] in
  stable_run4 block_types_html (tokenize_block block_types_html 5) (S (length A)) A 1 (mkPs true) = true /\
  closed_last (entries (tokenize_block block_types_html 6 A 1 (mkPs true))) = true /\
  length (entries (tokenize_block block_types_html 6 A 1 (mkPs true))) = 5%nat.
Proof. vm_compute. repeat split; reflexivity. Qed.

(* ================= the list flag derived too ================= *)
(* For lines as Document prepares them (Proofs/ListEnds.v: proper) a top-level list whose reading ran off the
   end of A is followed by blank lines only, so it would be A's last block: with a closed last block every
   list of A was ended by a line of A.  What remains is the property's own hypothesis and "no link definitions". *)
Section Level5.
  Variable types : list block_kind.
  Variable rec : list str -> Z -> pstate -> list pre * bool * pstate.
  Hypothesis Hnb : no_blankline_kind types = true.

  Lemma start_read_list_only k after ln st p c st' :
    start_read types rec k after ln st = Some (p, c, st') -> is_plist p = true -> k = BK_List.
  Proof.
    destruct after as [|x X]; [discriminate|]. intros H Hl.
    destruct k; cbn [start_read] in H; try reflexivity.
    - destruct (blockcode_start x); [|discriminate]. destruct (blockcode_read (x :: X)). injection H as <- _ _. discriminate.
    - destruct (heading_start x) as [[[? ?] ?]|]; [|discriminate]. injection H as <- _ _. discriminate.
    - destruct (quote_start x); [|discriminate]. destruct (quote_lines types (x :: X)).
      destruct (rec _ _ _) as [[? ?] ?]. injection H as <- _ _. discriminate.
    - destruct (codefence_start x) as [[[[i l] f] g]|]; [|discriminate]. destruct (fence_loop X i l [] 1%nat). injection H as <- _ _. discriminate.
    - destruct (thematic_start x); [|discriminate]. injection H as <- _ _. discriminate.
    - destruct (table_start x); [|discriminate]. destruct (table_read (x :: X)); [|discriminate]. injection H as <- _ _. discriminate.
    - destruct (footnote_start x); [|discriminate]. destruct (footnote_read (x :: X)) as [[? ?]|]; [|discriminate]. injection H as <- _ _. discriminate.
    - destruct (paragraph_start x); [|discriminate]. destruct (para_loop _ _ _ _ _) as [[? ?] []]; injection H as <- _ _; discriminate.
    - destruct (htmlblock_start x) as [[? e]|]; [|discriminate]. destruct (html_loop (x :: X) e [] 0%nat). injection H as <- _ _. discriminate.
    - destruct (blankline_start x); [|discriminate]. injection H as <- _ _. discriminate.
    - destruct (footnote_start x); [|discriminate]. destruct (footnote_read (x :: X)) as [[? ?]|]; [|discriminate]. injection H as <- _ _. discriminate.
  Qed.

  Lemma try_types_list after ln st p c st' : forall ts,
    try_types types rec ts after ln st = Some (p, c, st') -> is_plist p = true ->
    start_read types rec BK_List after ln st = Some (p, c, st').
  Proof.
    induction ts as [|k ts IH]; intros H Hl; [discriminate|]. cbn [try_types] in H.
    destruct (start_read types rec k after ln st) as [[[p0 c0] s0]|] eqn:E; [|apply IH; assumption].
    injection H as -> -> ->. rewrite <- (start_read_list_only _ _ _ _ _ _ _ E Hl). exact E.
  Qed.

  Definition step_ok5 (p : pre) : bool := negb (is_pfootnote p).

  Fixpoint stable_run5 (n : nat) (A : list str) (ln : Z) (st : pstate) : bool :=
    match n with
    | O => true
    | S n' =>
      match A with
      | [] => true
      | _ :: rest =>
        match try_types types rec types A ln st with
        | Some (p, c, st') =>
          step_ok5 p && (match c with O => false | _ => stable_run5 n' (skipn c A) (ln + nlines c) st' end)
        | None => stable_run5 n' rest (ln + 1) st
        end
      end
    end.

  Lemma flags_or_open_end5 : forall n A ln acc lo st,
    Forall proper A -> (length A < n)%nat -> stable_run5 n A ln st = true ->
    stable_run3 types rec n A ln st = true \/
    exists new p, fst (fst (dispatch_loop types rec n A ln acc lo st)) = rev acc ++ new ++ [p] /\ closed_pre p = false.
  Proof.
    induction n as [|n IH]; intros A ln acc lo st Hp Hl H5; [lia|].
    destruct A as [|x X]; [left; reflexivity|].
    cbn [stable_run5] in H5. cbn [stable_run3 dispatch_loop].
    destruct (try_types types rec types (x :: X) ln st) as [[[p c] st']|] eqn:E.
    - apply andb_true_iff in H5 as [H5 Hrest]. destruct c as [|c]; [discriminate|].
      assert (Hlen : (length (skipn (S c) (x :: X)) < n)%nat) by (rewrite skipn_length; cbn [length] in *; lia).
      assert (Hps : Forall proper (skipn (S c) (x :: X))) by (apply Forall_skipn; exact Hp).
      destruct (step_ok3 types rec p (S c) (x :: X) ln st) eqn:E3.
      + destruct (IH (skipn (S c) (x :: X)) (ln + nlines (S c)) (p :: acc) lo st' Hps Hlen Hrest) as [L|(new & q & En & Hq)].
        * left. rewrite L. reflexivity.
        * right. exists (p :: new), q. split; [|exact Hq]. rewrite En. cbn [rev]. rewrite <- !app_assoc. reflexivity.
      + right. unfold step_ok3 in E3. apply orb_false_iff in E3 as [E3 El]. apply orb_false_iff in E3 as [Ec Ef].
        unfold step_ok5 in H5. apply negb_true_iff in H5.
        assert (Hblank : has_nonblank (skipn (S c) (x :: X)) = false).
        { destruct (is_plist p) eqn:Ep.
          - cbn [andb] in El. apply negb_false_iff in El.
            apply (list_ran_off_is_last types rec x X ln st p (S c) st' Hp El). apply (try_types_list _ _ _ _ _ _ types E Ep).
          - pose proof (try_types_cases types rec _ _ _ _ _ _ types Hnb E) as C. rewrite Ec, Ep, H5 in C. cbn [orb] in C. rewrite !orb_false_r in C.
            rewrite C in Ef. cbn [andb] in Ef. exact Ef. }
        destruct (dispatch_blanks types rec Hnb (skipn (S c) (x :: X)) n (ln + nlines (S c)) (p :: acc) lo st' Hblank Hlen) as [D _].
        exists [], p. split; [|exact Ec]. rewrite D. cbn [rev app]. reflexivity.
    - assert (Hlen : (length X < n)%nat) by (cbn [length] in Hl; lia).
      inversion Hp as [|? ? _ HpX]; subst.
      destruct (IH X (ln + 1) acc true st HpX Hlen H5) as [L|R]; [left; exact L|right; exact R].
  Qed.

  Theorem closed_last_gives_flags5 n A ln st :
    Forall proper A -> (length A < n)%nat -> stable_run5 n A ln st = true ->
    closed_last (fst (fst (dispatch_loop types rec n A ln [] false st))) = true ->
    stable_run3 types rec n A ln st = true.
  Proof.
    intros Hp Hl H5 Hc. destruct (flags_or_open_end5 n A ln [] false st Hp Hl H5) as [L|(new & p & E & Hq)]; [exact L|].
    rewrite E in Hc. cbn [rev app] in Hc. unfold closed_last in Hc. rewrite last_app_cons in Hc. rewrite Hq in Hc. discriminate.
  Qed.
End Level5.

(* C05 with the property's hypotheses and nothing else: the lines are Document's (each ends with its only newline), A's last
   block is closed, no top-level block of A is a link-definition block *)
Theorem last_block_closed_independent types f A B st :
  no_blankline_kind types = true -> Forall proper A ->
  stable_run5 types (tokenize_block types f) (S (length A)) A 1 st = true ->
  closed_last (entries (tokenize_block types (S f) A 1 st)) = true ->
  let '(esA, _, stA) := tokenize_block types (S f) A 1 st in
  entries (tokenize_block types (S f) (A ++ NL :: B) 1 st) =
  esA ++ map (shift_pre (Z.of_nat (length A) + 1)) (entries (tokenize_block types (S f) B 1 stA)).
Proof.
  intros Hnb Hp H5 Hc. apply any_blocks_independent; [exact Hnb|].
  apply (closed_last_gives_flags5 types (tokenize_block types f) Hnb); [exact Hp|lia|exact H5|exact Hc].
Qed.

(* non-vacuity: lists (one of them nested, one with an item of blank content) before the closing paragraph *)
Example last_block_closed_somewhere :
  let A := [ $"- a" ++ [10]; $"- b" ++ [10]; [10]; $"  c" ++ [10]; $"1. x" ++ [10]; $"   - y" ++ [10]; [10]; $"+" ++ [10]; [10]; $"```" ++ [10]; $"z" ++ [10]; $"```" ++ [10]; $"para" ++ [10] ] in
  stable_run5 block_types_html (tokenize_block block_types_html 5) (S (length A)) A 1 (mkPs true) = true /\
  closed_last (entries (tokenize_block block_types_html 6 A 1 (mkPs true))) = true /\
  length (entries (tokenize_block block_types_html 6 A 1 (mkPs true))) = 5%nat.
Proof. vm_compute. repeat split; reflexivity. Qed.
