(* span_tokenizer.relation of the hand-written model (Model/SpanTokenizer.v) IS the function
   regenerated from mistletoe/span_tokenizer.py on this run (Gen/GenSpan.v): the same answer,
   coded 0..3 as the source does, for every pair of candidates. *)
From Coq Require Import ZArith List Bool.
From Mistletoe Require Import Model.SpanTokenizer Gen.GenSpan.
Local Open Scope Z_scope.

Definition rel_code (r : rel) : Z := match r with R0 => 0 | R1 => 1 | R2 => 2 | R3 => 3 end.

Theorem relation_regenerated x y : g_relation x y = rel_code (relation x y).
Proof.
  unfold g_relation, relation. rewrite !Z.geb_leb.
  destruct (ce x <=? cs y); [reflexivity|]. destruct (ce y <=? ce x); [|reflexivity].
  destruct ((ps x <=? cs y) && (ce y <=? pe x)); [reflexivity|]. destruct (pe x <=? cs y); reflexivity.
Qed.
