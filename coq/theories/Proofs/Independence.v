(* C05: what follows a blank line cannot influence the blocks before it, when those blocks
   are of a closed kind (paragraph, setext/ATX heading, thematic break, block quote, table);
   and the line numbers of a buffer are equivariant under a shift of its start line.
   Unbounded: every list of lines, every suffix, every fuel, every token configuration. *)
From Coq Require Import ZArith List Bool Lia.
From Mistletoe Require Import Base.Sx Base.PyStr Base.PyText Gen.GenTables Gen.GenRegex Gen.GenConfig Re.ReMatch
     Model.CoreTokens Model.Block Proofs.BlockProgress Proofs.LineTags.
Import ListNotations.
Local Open Scope Z_scope.

Definition NL : str := [10].

Lemma nl_blank : is_blank NL = true. Proof. vm_compute. reflexivity. Qed.
Lemma nl_no_pipe : mem 124 NL = false. Proof. reflexivity. Qed.

Definition closed_pre (p : pre) : bool :=
  match p with
  | PParagraph _ _ | PSetext _ _ | PHeading _ _ _ _ | PThematic _ _ | PQuote _ _ | PTable _ _ => true
  | _ => false
  end.
Definition closed_kind (k : block_kind) : bool :=
  match k with
  | BK_Paragraph | BK_Heading | BK_ThematicBreak | BK_Quote | BK_Table => true
  | _ => false
  end.

(* ---- look-ahead stops at the blank line ---- *)
Lemma take_while_pipe_app X B : take_while_pipe (X ++ NL :: B) = take_while_pipe X.
Proof.
  induction X as [|x X IH]; cbn [app take_while_pipe].
  - rewrite nl_no_pipe. reflexivity.
  - rewrite IH. reflexivity.
Qed.

Lemma table_read_app x X B : table_read (x :: X ++ NL :: B) = table_read (x :: X).
Proof. unfold table_read. rewrite take_while_pipe_app. reflexivity. Qed.

Lemma take_nonblank_app X B : take_nonblank (X ++ NL :: B) = take_nonblank X.
Proof.
  induction X as [|x X IH]; cbn [app take_nonblank].
  - rewrite nl_blank. reflexivity.
  - rewrite IH. reflexivity.
Qed.

Lemma footnote_read_app X B : footnote_read (X ++ NL :: B) = footnote_read X.
Proof. unfold footnote_read. rewrite take_nonblank_app. reflexivity. Qed.

Lemma interrupts_app k x X B : interrupts k (x :: X ++ NL :: B) = interrupts k (x :: X).
Proof. destruct k; cbn [interrupts]; try reflexivity. rewrite table_read_app. reflexivity. Qed.

Lemma any_interrupt_app types e x X B : any_interrupt types e (x :: X ++ NL :: B) = any_interrupt types e (x :: X).
Proof.
  unfold any_interrupt. induction types as [|k ts IH]; [reflexivity|].
  cbn [existsb]. rewrite IH, interrupts_app. reflexivity.
Qed.

Lemma para_loop_app types se B : forall X buf taken,
  para_loop types se (X ++ NL :: B) buf taken = para_loop types se X buf taken.
Proof.
  induction X as [|x X IH]; intros buf taken; cbn [app para_loop].
  - rewrite nl_blank. reflexivity.
  - rewrite any_interrupt_app, IH. reflexivity.
Qed.

Lemma quote_loop_app types B : forall X buf taken f c b,
  quote_loop types (X ++ NL :: B) buf taken f c b = quote_loop types X buf taken f c b.
Proof.
  induction X as [|x X IH]; intros buf taken f c b; cbn [app quote_loop].
  - rewrite nl_blank. reflexivity.
  - rewrite any_interrupt_app. rewrite !IH. reflexivity.
Qed.

Lemma quote_lines_app types x X B : quote_lines types (x :: X ++ NL :: B) = quote_lines types (x :: X).
Proof. unfold quote_lines. rewrite quote_loop_app. reflexivity. Qed.

(* ---- how many lines the closed readers consume ---- *)
Lemma take_while_pipe_length X : (length (take_while_pipe X) <= length X)%nat.
Proof. induction X as [|x X IH]; cbn [take_while_pipe length]; [lia|]. destruct (mem 124 x); cbn [length]; lia. Qed.

Lemma para_loop_bound types se : forall X buf taken b c s,
  para_loop types se X buf taken = (b, c, s) -> (c <= taken + length X)%nat.
Proof.
  induction X as [|x X IH]; intros buf taken b c s H; cbn [para_loop length] in *.
  - injection H as _ <- _. lia.
  - destruct (is_blank x); [injection H as _ <- _; lia|].
    destruct (any_interrupt types BK_ThematicBreak (x :: X)); [injection H as _ <- _; lia|].
    destruct (se && _); [injection H as _ <- _; lia|].
    destruct (thematic_start x); [injection H as _ <- _; lia|].
    apply IH in H. lia.
Qed.

Lemma quote_loop_bound types : forall X buf taken f c b r n,
  quote_loop types X buf taken f c b = (r, n) -> (n <= taken + length X)%nat.
Proof.
  induction X as [|x X IH]; intros buf taken f c b r n H; cbn [quote_loop length] in *.
  - injection H as _ <-. lia.
  - destruct (is_blank x); [injection H as _ <-; lia|].
    destruct (any_interrupt types BK_Quote (x :: X)); [injection H as _ <-; lia|].
    destruct (char_at _ 0 =? 62).
    + apply IH in H. lia.
    + destruct (f || c || b); [injection H as _ <-; lia|]. apply IH in H. lia.
Qed.

Section Level.
  Variable types : list block_kind.
  Variable rec : list str -> Z -> pstate -> list pre * bool * pstate.
  Variable B : list str.

  Lemma start_read_app k x X ln st : closed_kind k = true ->
    start_read types rec k (x :: X ++ NL :: B) ln st = start_read types rec k (x :: X) ln st.
  Proof.
    intros Hk. destruct k; try discriminate; cbn [start_read].
    - reflexivity.
    - rewrite quote_lines_app. reflexivity.
    - reflexivity.
    - rewrite table_read_app. destruct (table_read (x :: X)); reflexivity.
    - rewrite para_loop_app. reflexivity.
  Qed.

  Lemma start_read_none_app k x X ln st :
    start_read types rec k (x :: X) ln st = None -> start_read types rec k (x :: X ++ NL :: B) ln st = None.
  Proof.
    destruct (closed_kind k) eqn:Hk; [rewrite start_read_app by exact Hk; trivial|].
    destruct k; try discriminate; cbn [start_read].
    - destruct (blockcode_start x); [|reflexivity]. destruct (blockcode_read (x :: X)). discriminate.
    - destruct (codefence_start x) as [[[[i l] f] g]|]; [|reflexivity]. destruct (fence_loop X i l [] 1%nat). discriminate.
    - destruct (list_start x); [|reflexivity]. destruct (read_list _ _ _ (x :: X) _ _ _ _ _ _) as [[? ?] ?]. discriminate.
    - destruct (footnote_start x); [|reflexivity].
      change (x :: X ++ NL :: B) with ((x :: X) ++ NL :: B). rewrite footnote_read_app. trivial.
    - destruct (htmlblock_start x) as [[? e]|]; [|reflexivity]. destruct (html_loop (x :: X) e [] 0%nat). discriminate.
    - destruct (blankline_start x); [discriminate|reflexivity].
    - destruct (footnote_start x); [|reflexivity].
      change (x :: X ++ NL :: B) with ((x :: X) ++ NL :: B). rewrite footnote_read_app. trivial.
  Qed.

  Lemma start_read_closed k after ln st p c st' :
    start_read types rec k after ln st = Some (p, c, st') -> closed_pre p = true -> closed_kind k = true.
  Proof.
    destruct after as [|x X]; [discriminate|]. intros H Hp.
    destruct k; try reflexivity; cbn [start_read] in H; exfalso.
    - destruct (blockcode_start x); [|discriminate]. destruct (blockcode_read (x :: X)). injection H as <- _ _. discriminate.
    - destruct (codefence_start x) as [[[[i l] f] g]|]; [|discriminate]. destruct (fence_loop X i l [] 1%nat). injection H as <- _ _. discriminate.
    - destruct (list_start x); [|discriminate]. destruct (read_list _ _ _ (x :: X) _ _ _ _ _ _) as [[? ?] ?]. injection H as <- _ _. discriminate.
    - destruct (footnote_start x); [|discriminate]. destruct (footnote_read (x :: X)) as [[? ?]|]; [|discriminate]. injection H as <- _ _. discriminate.
    - destruct (htmlblock_start x) as [[? e]|]; [|discriminate]. destruct (html_loop (x :: X) e [] 0%nat). injection H as <- _ _. discriminate.
    - destruct (blankline_start x); [|discriminate]. injection H as <- _ _. discriminate.
    - destruct (footnote_start x); [|discriminate]. destruct (footnote_read (x :: X)) as [[? ?]|]; [|discriminate]. injection H as <- _ _. discriminate.
  Qed.

  Lemma start_read_bound k after ln st p c st' :
    start_read types rec k after ln st = Some (p, c, st') -> closed_kind k = true ->
    (c <= length after)%nat /\ (st = mkPs true -> st' = mkPs true).
  Proof.
    destruct after as [|x X]; [discriminate|]. intros H Hk.
    destruct k; try discriminate; cbn [start_read] in H.
    - destruct (heading_start x) as [[[? ?] ?]|]; [|discriminate]. injection H as _ <- <-. cbn [length]. split; [lia|trivial].
    - destruct (quote_start x); [|discriminate]. destruct (quote_lines types (x :: X)) as [buf n] eqn:E.
      destruct (rec buf ln (mkPs false)) as [[? ?] ?]. injection H as _ <- <-. split; [|trivial].
      unfold quote_lines in E. apply quote_loop_bound in E. cbn [length]. lia.
    - destruct (thematic_start x); [|discriminate]. injection H as _ <- <-. cbn [length]. split; [lia|trivial].
    - destruct (table_start x); [|discriminate]. destruct (table_read (x :: X)) as [buf|] eqn:E; [|discriminate].
      injection H as _ <- <-. split; [|trivial]. unfold table_read in E.
      destruct (take_while_pipe X) as [|s r] eqn:Et; [discriminate|].
      destruct (fullmatch_here _ _ _); [|discriminate]. injection E as <-.
      pose proof (take_while_pipe_length X) as L. rewrite Et in L. cbn [length] in *. lia.
    - destruct (paragraph_start x); [|discriminate].
      destruct (para_loop types (ps_setext st) X [x] 1%nat) as [[buf n] s] eqn:E.
      injection H as _ <- <-. split; [|trivial]. apply para_loop_bound in E. cbn [length]. lia.
  Qed.

  Lemma try_types_app x X ln st : forall ts,
    (forall p c st', try_types types rec ts (x :: X) ln st = Some (p, c, st') -> closed_pre p = true ->
       try_types types rec ts (x :: X ++ NL :: B) ln st = Some (p, c, st') /\ (c <= length (x :: X))%nat /\ (st = mkPs true -> st' = mkPs true)) /\
    (try_types types rec ts (x :: X) ln st = None -> try_types types rec ts (x :: X ++ NL :: B) ln st = None).
  Proof.
    induction ts as [|k ts [IH1 IH2]]; cbn [try_types]; [split; [discriminate|trivial]|].
    destruct (start_read types rec k (x :: X) ln st) as [[[p0 c0] st0]|] eqn:E.
    - split; [|discriminate]. intros p c st' H Hp. injection H as -> -> ->.
      pose proof (start_read_closed _ _ _ _ _ _ _ E Hp) as Hk.
      rewrite start_read_app by exact Hk. rewrite E.
      destruct (start_read_bound _ _ _ _ _ _ _ E Hk) as [Hb Hs]. auto.
    - rewrite (start_read_none_app _ _ _ _ _ E). split; assumption.
  Qed.

  (* every block the dispatch loop finds in A is of a closed kind *)
  Fixpoint closed_run (n : nat) (A : list str) (ln : Z) (st : pstate) : bool :=
    match n with
    | O => true
    | S n' =>
      match A with
      | [] => true
      | _ :: rest =>
        match try_types types rec types A ln st with
        | Some (p, c, st') =>
          closed_pre p && (match c with O => false | _ => closed_run n' (skipn c A) (ln + nlines c) st' end)
        | None => closed_run n' rest (ln + 1) st
        end
      end
    end.

  Lemma dispatch_nil n ln acc lo st : dispatch_loop types rec n [] ln acc lo st = (rev acc, lo, st).
  Proof. destruct n; reflexivity. Qed.

  Lemma dispatch_app : forall n A ln acc lo st m,
    (length A < n)%nat -> (length (A ++ NL :: B) < m)%nat -> closed_run n A ln st = true ->
    let R := dispatch_loop types rec n A ln acc lo st in
    dispatch_loop types rec m (A ++ NL :: B) ln acc lo st =
    dispatch_loop types rec m (NL :: B) (ln + nlines (length A)) (rev (fst (fst R))) (snd (fst R)) (snd R) /\
    (st = mkPs true -> snd R = mkPs true).
  Proof.
    induction n as [|n IH]; intros A ln acc lo st m Hn Hm Hc; [lia|].
    destruct A as [|x X].
    - cbv zeta. cbn [app length nlines Z.of_nat]. rewrite dispatch_nil. cbn [fst snd]. rewrite rev_involutive, Z.add_0_r. split; [reflexivity|trivial].
    - destruct m as [|m]; [cbn [length] in Hm; lia|].
      cbn [closed_run] in Hc. cbv zeta. set (K := dispatch_loop types rec (S m) (NL :: B)). cbn [dispatch_loop app].
      destruct (try_types_app x X ln st types) as [T1 T2].
      destruct (try_types types rec types (x :: X) ln st) as [[[p c] st']|] eqn:E.
      + apply andb_true_iff in Hc as [Hp Hc]. destruct c as [|c]; [discriminate|].
        destruct (T1 _ _ _ eq_refl Hp) as (E' & Hb & Hs). rewrite E'.
        assert (Esk : skipn (S c) (x :: X ++ NL :: B) = skipn (S c) (x :: X) ++ NL :: B).
        { change (x :: X ++ NL :: B) with ((x :: X) ++ NL :: B). rewrite skipn_app.
          replace (S c - length (x :: X))%nat with 0%nat by lia. reflexivity. }
        rewrite Esk.
        assert (Hl : (length (skipn (S c) (x :: X)) = length (x :: X) - S c)%nat) by apply skipn_length.
        assert (P1 : (length (skipn (S c) (x :: X)) < n)%nat) by (cbn [length] in *; lia).
        assert (P2 : (length (skipn (S c) (x :: X) ++ NL :: B) < m)%nat) by (rewrite app_length in *; cbn [length] in *; lia).
        destruct (IH (skipn (S c) (x :: X)) (ln + nlines (S c)) (p :: acc) lo st' m P1 P2 Hc) as [IHa IHb].
        cbv zeta in IHa, IHb. rewrite IHa. split.
        * rewrite (fuel_suffices types rec m (S m)) by (rewrite app_length in P2; cbn [length] in *; lia).
          subst K. f_equal. unfold nlines. rewrite Hl. cbn [length] in *. lia.
        * intros Hst. apply IHb. apply Hs. exact Hst.
      + rewrite (T2 eq_refl).
        assert (P1 : (length X < n)%nat) by (cbn [length] in *; lia).
        assert (P2 : (length (X ++ NL :: B) < m)%nat) by (rewrite app_length in *; cbn [length] in *; lia).
        destruct (IH X (ln + 1) acc true st m P1 P2 Hc) as [IHa IHb].
        cbv zeta in IHa, IHb. rewrite IHa. split; [|exact IHb].
        rewrite (fuel_suffices types rec m (S m)) by (rewrite app_length in P2; cbn [length] in *; lia).
        subst K. f_equal. unfold nlines. cbn [length]. lia.
  Qed.
End Level.

(* ---- a blank line is skipped by every configuration without a BlankLine token ---- *)
Definition no_blankline_kind (types : list block_kind) : bool :=
  forallb (fun k => negb (kind_eqb k BK_BlankLine)) types.

Lemma start_read_nl types rec k B ln st : kind_eqb k BK_BlankLine = false -> start_read types rec k (NL :: B) ln st = None.
Proof. destruct k; intros H; try discriminate; reflexivity. Qed.

Lemma try_types_nl types rec B ln st : forall ts, no_blankline_kind ts = true -> try_types types rec ts (NL :: B) ln st = None.
Proof.
  induction ts as [|k ts IH]; intros H; [reflexivity|]. cbn [no_blankline_kind forallb] in H.
  apply andb_true_iff in H as [Hk H]. apply negb_true_iff in Hk.
  cbn [try_types]. rewrite start_read_nl by exact Hk. apply IH. exact H.
Qed.

Lemma dispatch_nl types rec m B ln acc lo st : no_blankline_kind types = true ->
  dispatch_loop types rec (S m) (NL :: B) ln acc lo st = dispatch_loop types rec m B (ln + 1) acc true st.
Proof. intros H. cbn [dispatch_loop]. rewrite try_types_nl by exact H. reflexivity. Qed.

(* ---- line numbers are equivariant under a shift of the start line ---- *)
Fixpoint shift_pre (d : Z) (p : pre) : pre :=
  match p with
  | PBlockCode ln l => PBlockCode (ln + d) l
  | PHeading ln a b c => PHeading (ln + d) a b c
  | PQuote ln es => PQuote (ln + d) (map (shift_pre d) es)
  | PCodeFence ln a b c e f => PCodeFence (ln + d) a b c e f
  | PThematic ln l => PThematic (ln + d) l
  | PList ln items => PList (ln + d) (map (shift_pre d) items)
  | PItem ln es lo i pr ld => PItem (ln + d) (map (shift_pre d) es) lo i pr ld
  | PTable ln l => PTable (ln + d) l
  | PFootnote ln defs => PFootnote (ln + d) defs
  | PParagraph ln l => PParagraph (ln + d) l
  | PSetext ln l => PSetext (ln + d) l
  | PHtmlBlock ln l => PHtmlBlock (ln + d) l
  | PBlankLine ln => PBlankLine (ln + d)
  end.

Definition shift_res (d : Z) (r : list pre * bool * pstate) : list pre * bool * pstate :=
  let '(es, lo, st) := r in (map (shift_pre d) es, lo, st).

Section Shift.
  Variable types : list block_kind.
  Variable d : Z.
  Variable rec : list str -> Z -> pstate -> list pre * bool * pstate.
  Hypothesis rec_shift : forall buf ln st, rec buf (ln + d) st = shift_res d (rec buf ln st).

  Lemma read_item_shift after ln prev st :
    read_item types rec after (ln + d) prev st =
    let '(it, taken, nm, st') := read_item types rec after ln prev st in (shift_pre d it, taken, nm, st').
  Proof.
    unfold read_item. destruct after as [|line r]; [reflexivity|].
    destruct (match prev with Some m => Some m | None => parse_marker line end) as [[[[ind pre_] leader] content]|]; [|reflexivity].
    destruct (is_blank content).
    - destruct (count_blank r); [|reflexivity].
      destruct (item_loop types _ r _ [] 1%nat 0%nat) as [[buf taken] nm].
      replace (ln + d + 1) with (ln + 1 + d) by lia. rewrite rec_shift.
      destruct (rec buf (ln + 1) st) as [[es lo] st']. reflexivity.
    - destruct (item_loop types _ r _ [content] 1%nat 0%nat) as [[buf taken] nm].
      rewrite rec_shift. destruct (rec buf ln st) as [[es lo] st']. reflexivity.
  Qed.

  Lemma item_leader_shift it : match shift_pre d it with PItem _ _ _ _ _ l => l | _ => [] end = match it with PItem _ _ _ _ _ l => l | _ => [] end.
  Proof. destruct it; reflexivity. Qed.

  Lemma read_list_shift : forall n after ln leader nm items consumed st,
    read_list types rec n after (ln + d) leader nm (map (shift_pre d) items) consumed st =
    let '(its, c, st') := read_list types rec n after ln leader nm items consumed st in (map (shift_pre d) its, c, st').
  Proof.
    induction n as [|n IH]; intros after ln leader nm items consumed st; cbn [read_list].
    - rewrite <- List.map_rev. reflexivity.
    - rewrite read_item_shift. destruct (read_item types rec after ln nm st) as [[[it taken] nm'] st'].
      rewrite item_leader_shift.
      destruct (negb _).
      + rewrite <- List.map_rev. reflexivity.
      + destruct nm'.
        * replace (ln + d + nlines taken) with (ln + nlines taken + d) by lia.
          change (shift_pre d it :: map (shift_pre d) items) with (map (shift_pre d) (it :: items)). apply IH.
        * change (shift_pre d it :: map (shift_pre d) items) with (map (shift_pre d) (it :: items)). rewrite <- List.map_rev. reflexivity.
  Qed.

  Definition shift_opt (r : option (pre * nat * pstate)) : option (pre * nat * pstate) :=
    match r with Some (p, c, st) => Some (shift_pre d p, c, st) | None => None end.

  Lemma start_read_shift k after ln st :
    start_read types rec k after (ln + d) st = shift_opt (start_read types rec k after ln st).
  Proof.
    destruct after as [|line rest]; [reflexivity|].
    destruct k; cbn [start_read].
    - destruct (blockcode_start line); [|reflexivity]. destruct (blockcode_read (line :: rest)). reflexivity.
    - destruct (heading_start line) as [[[? ?] ?]|]; reflexivity.
    - destruct (quote_start line); [|reflexivity]. destruct (quote_lines types (line :: rest)) as [buf c].
      rewrite rec_shift. destruct (rec buf ln (mkPs false)) as [[es lo] st']. reflexivity.
    - destruct (codefence_start line) as [[[[? ?] ?] ?]|]; [|reflexivity]. destruct (fence_loop rest _ _ [] 1%nat). reflexivity.
    - destruct (thematic_start line); reflexivity.
    - destruct (list_start line); [|reflexivity].
      pose proof (read_list_shift (S (length (line :: rest))) (line :: rest) ln None None [] 0%nat st) as RL.
      cbn [map] in RL. rewrite RL.
      destruct (read_list types rec (S (length (line :: rest))) (line :: rest) ln None None [] 0%nat st) as [[its c] st'].
      cbn [shift_opt shift_pre]. do 3 f_equal.
      rewrite <- List.map_rev. destruct (rev its) as [|[] before]; cbn [map shift_pre]; try reflexivity.
      rewrite map_length. rewrite List.map_rev. reflexivity.
    - destruct (table_start line); [|reflexivity]. destruct (table_read (line :: rest)); reflexivity.
    - destruct (footnote_start line); [|reflexivity]. destruct (footnote_read (line :: rest)) as [[? ?]|]; reflexivity.
    - destruct (paragraph_start line); [|reflexivity]. destruct (para_loop types (ps_setext st) rest [line] 1%nat) as [[? ?] []]; reflexivity.
    - destruct (htmlblock_start line) as [[? e]|]; [|reflexivity]. destruct (html_loop (line :: rest) e [] 0%nat). reflexivity.
    - destruct (blankline_start line); reflexivity.
    - destruct (footnote_start line); [|reflexivity]. destruct (footnote_read (line :: rest)) as [[? ?]|]; reflexivity.
  Qed.

  Lemma try_types_shift after ln st : forall ts,
    try_types types rec ts after (ln + d) st = shift_opt (try_types types rec ts after ln st).
  Proof.
    induction ts as [|k ts IH]; cbn [try_types]; [reflexivity|].
    rewrite start_read_shift. destruct (start_read types rec k after ln st) as [[[? ?] ?]|]; [reflexivity|exact IH].
  Qed.

  Lemma dispatch_shift : forall n after ln acc lo st,
    dispatch_loop types rec n after (ln + d) (map (shift_pre d) acc) lo st = shift_res d (dispatch_loop types rec n after ln acc lo st).
  Proof.
    induction n as [|n IH]; intros after ln acc lo st; cbn [dispatch_loop].
    - cbn [shift_res]. rewrite <- List.map_rev. reflexivity.
    - destruct after as [|x rest]; [cbn [shift_res]; rewrite <- List.map_rev; reflexivity|].
      rewrite try_types_shift. destruct (try_types types rec types (x :: rest) ln st) as [[[p c] st']|]; cbn [shift_opt].
      + destruct c.
        * cbn [shift_res]. change (shift_pre d p :: map (shift_pre d) acc) with (map (shift_pre d) (p :: acc)). rewrite <- List.map_rev. reflexivity.
        * replace (ln + d + nlines (S c)) with (ln + nlines (S c) + d) by lia.
          change (shift_pre d p :: map (shift_pre d) acc) with (map (shift_pre d) (p :: acc)). apply IH.
      + replace (ln + d + 1) with (ln + 1 + d) by lia. apply IH.
  Qed.
End Shift.

Theorem tokenize_shift types d : forall f lines ln st,
  tokenize_block types f lines (ln + d) st = shift_res d (tokenize_block types f lines ln st).
Proof.
  induction f as [|f IH]; intros lines ln st; cbn [tokenize_block]; [reflexivity|].
  apply (dispatch_shift types d (tokenize_block types f) IH _ lines ln [] false st).
Qed.

(* ---- the block-phase theorem ---- *)
Definition entries (r : list pre * bool * pstate) : list pre := fst (fst r).

Lemma dispatch_acc types rec : forall n after ln acc lo st,
  entries (dispatch_loop types rec n after ln acc lo st) = rev acc ++ entries (dispatch_loop types rec n after ln [] lo st) /\
  snd (dispatch_loop types rec n after ln acc lo st) = snd (dispatch_loop types rec n after ln [] lo st).
Proof.
  induction n as [|n IH]; intros after ln acc lo st; cbn [dispatch_loop].
  - cbn. rewrite app_nil_r. auto.
  - destruct after as [|x rest]; [cbn; rewrite app_nil_r; auto|].
    destruct (try_types types rec types (x :: rest) ln st) as [[[p c] st']|].
    + destruct c.
      * cbn. auto.
      * destruct (IH (skipn (S c) (x :: rest)) (ln + nlines (S c)) (p :: acc) lo st') as [E1 E2].
        destruct (IH (skipn (S c) (x :: rest)) (ln + nlines (S c)) [p] lo st') as [E3 E4].
        rewrite E1, E2, E3, E4. cbn [rev app]. rewrite <- app_assoc. auto.
    + apply IH.
Qed.

Lemma dispatch_loose_irrelevant types rec : forall n after ln acc lo lo' st,
  entries (dispatch_loop types rec n after ln acc lo st) = entries (dispatch_loop types rec n after ln acc lo' st) /\
  snd (dispatch_loop types rec n after ln acc lo st) = snd (dispatch_loop types rec n after ln acc lo' st).
Proof.
  induction n as [|n IH]; intros after ln acc lo lo' st; cbn [dispatch_loop]; [auto|].
  destruct after as [|x rest]; [auto|].
  destruct (try_types types rec types (x :: rest) ln st) as [[[p c] st']|].
  - destruct c; [auto|apply IH].
  - apply IH.
Qed.

Theorem closed_blocks_independent types f A B :
  no_blankline_kind types = true ->
  closed_run types (tokenize_block types f) (S (length A)) A 1 (mkPs true) = true ->
  entries (tokenize_block types (S f) (A ++ NL :: B) 1 (mkPs true)) =
  entries (tokenize_block types (S f) A 1 (mkPs true)) ++
  map (shift_pre (Z.of_nat (length A) + 1)) (entries (tokenize_block types (S f) B 1 (mkPs true))).
Proof.
  intros Hnb Hc. cbn [tokenize_block].
  set (rec := tokenize_block types f).
  destruct (dispatch_app types rec B (S (length A)) A 1 [] false (mkPs true) (S (length (A ++ NL :: B)))) as [E Est];
    [lia|lia|exact Hc|].
  cbv zeta in E, Est. rewrite E. specialize (Est eq_refl).
  destruct (dispatch_loop types rec (S (length A)) A 1 [] false (mkPs true)) as [[esA loA] stA] eqn:EA.
  cbn [fst snd] in *. subst stA.
  (* the blank line *)
  rewrite dispatch_nl by exact Hnb.
  destruct (dispatch_acc types rec (length (A ++ NL :: B)) B (1 + nlines (length A) + 1) (rev esA) true (mkPs true)) as [Eacc _].
  rewrite Eacc, rev_involutive. unfold entries at 2. cbn [fst]. f_equal.
  (* B on its own: same fuel by fuel_suffices, loose flag irrelevant, start line shifted *)
  destruct (dispatch_loose_irrelevant types rec (length (A ++ NL :: B)) B (1 + nlines (length A) + 1) [] true false (mkPs true)) as [El _].
  rewrite El.
  rewrite <- (fuel_suffices types rec (S (length B)) (length (A ++ NL :: B)) B) by (rewrite ?app_length; cbn [length]; lia).
  replace (1 + nlines (length A) + 1) with (1 + (Z.of_nat (length A) + 1)) by (unfold nlines; lia).
  pose proof (dispatch_shift types (Z.of_nat (length A) + 1) rec) as DS.
  assert (RS : forall buf ln st, rec buf (ln + (Z.of_nat (length A) + 1)) st = shift_res (Z.of_nat (length A) + 1) (rec buf ln st)).
  { intros. apply tokenize_shift. }
  specialize (DS RS (S (length B)) B 1 [] false (mkPs true)). cbn [map] in DS. rewrite DS.
  destruct (dispatch_loop types rec (S (length B)) B 1 [] false (mkPs true)) as [[esB loB] stB]. reflexivity.
Qed.
