(* C03: the sweep assembled; non-vacuity *)
From Coq Require Import ZArith List Bool Lia.
From Mistletoe Require Import Base.Sx Base.PyStr Model.HtmlRenderer Model.Parser Proofs.Laws Proofs.IndepP Spec.Spell Proofs.SpellLaw.
From Mistletoe Require Proofs.SpellSweep.One0 Proofs.SpellSweep.One1 Proofs.SpellSweep.One2 Proofs.SpellSweep.One3
     Proofs.SpellSweep.Two0 Proofs.SpellSweep.Two1 Proofs.SpellSweep.Two2 Proofs.SpellSweep.Two3.
Import ListNotations.

Lemma bounded_trees c d :
  (In d docs1 /\ In c all_choices) \/ (In d docs2 /\ In c few_choices) -> in_family d = true ->
  markdown_html (mkHopts false false) true (spell_doc c d) = html_doc d.
Proof.
  intros F Hf.
  assert (G : spell_law c d = true).
  { destruct F as [[Hd Hc]|[Hd Hc]].
    - destruct (every4_cover docs1 d Hd) as [H|[H|[H|H]]];
        [pose proof One0.sweep as S|pose proof One1.sweep as S|pose proof One2.sweep as S|pose proof One3.sweep as S];
        rewrite forallb_forall in S; specialize (S d H); rewrite forallb_forall in S; exact (S c Hc).
    - destruct (every4_cover docs2 d Hd) as [H|[H|[H|H]]];
        [pose proof Two0.sweep as S|pose proof Two1.sweep as S|pose proof Two2.sweep as S|pose proof Two3.sweep as S];
        rewrite forallb_forall in S; specialize (S d H); rewrite forallb_forall in S; exact (S c Hc). }
  unfold spell_law in G. rewrite Hf in G. apply str_eqb_eq. exact G.
Qed.

(* what one of the trees looks like: a fence inside a list inside a quote *)
Local Open Scope Z_scope.
Example a_composition :
  let d := [SQuote [SPara $"e"; SBullet [(SPara $"a", Some (SFence [ $"d" ])); (SFence [ $"c" ], None)]]] in
  in_family d = true /\
  spell_doc (mkCh 42 3 false true 126 true) d =
    $">e" ++ [10] ++ $">" ++ [10] ++ $">*   a" ++ [10] ++ $">     ~~~" ++ [10] ++ $">     d" ++ [10] ++ $">     ~~~" ++ [10] ++
    $">*   ~~~" ++ [10] ++ $">     c" ++ [10] ++ $">     ~~~" ++ [10] /\
  length (filter in_family (docs1 ++ docs2)) = 2906%nat.
Proof. vm_compute. repeat split; reflexivity. Qed.
