(* C03 / C10: the HARD LINE BREAK written with a backslash.  l1 \ newline l2 - both lines free of trigger characters, not empty,
   not ending in a space - tokenizes to the first line, one hard LineBreak holding the backslash, the second line:
   LineBreak.pattern's second alternative evaluated exactly (the run of spaces is empty, the backslash is taken, then the
   newline), EscapeSequence.pattern finding nothing (a newline cannot be escaped), the scanner of the core tokens taking the
   backslash as an escape of the newline, every other finder quiet, the candidate tokenizer. *)
From Coq Require Import ZArith List Bool Lia.
From Mistletoe Require Import Base.Sx Base.PyStr Base.PyText Gen.GenTables Gen.GenRegex Gen.GenConfig Re.ReMatch
     Model.SpanTokenizer Model.Tree Model.Unescape Model.CoreTokens Model.Inline Model.Block Model.Build Model.Parser Model.HtmlRenderer
     Proofs.ReFirst Proofs.ReNeeds Proofs.ReExact Proofs.Prose Proofs.PlainProse Proofs.ListLaw Proofs.ProseLines
     Proofs.EmphSimple Proofs.EmphSentence Proofs.RefSentence Proofs.LinkSentence Proofs.CodeSpan Proofs.StrikeSentence Proofs.EscSentence Proofs.HardBreaks.
Import ListNotations.
Local Open Scope Z_scope.

Section BSmatch.
  Let fl := mkFlags false false.

  (* at the backslash: no spaces, the backslash, the newline *)
  Lemma lb_at_backslash rest s K v : aft s = 92 :: 10 :: rest ->
    K (advance (set_grp 1 (pos s) (pos s + 1) (advance s 92 (10 :: rest))) 10 rest) = Some v ->
    m fl LB s K = Some v.
  Proof.
    intros Ha HK. unfold LB. rewrite m_seq, m_grp, m_alt.
    assert (A1 : m fl (Rep true 0 None (Lit 32)) s (fun s' => m fl (Lit 10) (set_grp 1 (pos s) (pos s') s') K) = None).
    { apply (m_greedy_none fl (Lit 32) 0 None s _ [] (92 :: 10 :: rest)); [reflexivity|reflexivity|exact Ha|reflexivity|].
      intros j Hj. assert (j = 0%nat) by (cbn [length] in Hj; lia). subst j. cbn [firstn skipn app].
      erewrite (m_char fl (Lit 10) _ 92 _ _ eq_refl); [reflexivity|reflexivity]. }
    rewrite A1. cbn [orelse].
    rewrite (m_char fl (Lit 92) s 92 (10 :: rest) _ eq_refl Ha). cbn [char_ok Z.eqb Pos.eqb].
    rewrite (m_char fl (Lit 10) _ 10 rest _ eq_refl) by reflexivity. cbn [char_ok Z.eqb Pos.eqb]. exact HK.
  Qed.

  Definition bs_end (s : mst) (rest : str) : mst :=
    advance (set_grp 1 (pos s) (pos s + 1) (advance (mkMst (bef s) (aft s) (pos s) []) 92 (10 :: rest))) 10 rest.

  Lemma search_bs : forall l s fuel ma rest, aft s = l ++ 92 :: 10 :: rest -> ok_tail l -> (length l <= length fuel)%nat ->
    search_from fl LB fuel ma s = Some (adv_run s l (92 :: 10 :: rest), bs_end (adv_run s l (92 :: 10 :: rest)) rest).
  Proof.
    induction l as [|c t IH]; intros s fuel ma rest Ha Hok Hf.
    - cbn [app] in Ha. assert (Es : adv_run s [] (92 :: 10 :: rest) = s) by (rewrite <- Ha; apply adv_run_nil). rewrite Es.
      assert (M : m fl LB (mkMst (bef s) (aft s) (pos s) []) (fun s' => if ma && (pos s' =? pos s) then None else Some s') = Some (bs_end s rest)).
      { apply (lb_at_backslash rest); [exact Ha|]. unfold bs_end. cbn [pos bef aft grp advance set_grp].
        replace (pos s + 1 + 1 =? pos s) with false by (symmetry; apply Z.eqb_neq; lia). rewrite andb_false_r. reflexivity. }
      destruct fuel as [|x fuel']; cbn [search_from]; rewrite M; reflexivity.
    - destruct fuel as [|x fuel']; [cbn [length] in Hf; lia|]. cbn [search_from].
      rewrite (lb_none_inside c t (92 :: 10 :: rest) (mkMst (bef s) (aft s) (pos s) []) _ Ha Hok).
      rewrite Ha. cbn [app]. rewrite (IH (advance s c (t ++ 92 :: 10 :: rest)) fuel' false rest eq_refl (ok_tail_tl c t Hok)) by (cbn [length] in Hf; lia).
      rewrite adv_run_cons. reflexivity.
  Qed.
End BSmatch.

Definition triggers_b : list Z := [42; 95; 91; 93; 33; 96; 126; 60; 36; 38; 123; 124].
Definition kind_quiet_b (kd : span_kind) : bool :=
  match kd with
  | SK_CoreTokens | SK_InlineCode | SK_RawText | SK_LineBreak | SK_EscapeSequence => true
  | _ => existsb (fun c => needs (fst (re_of kd)) c) triggers_b
  end.
Definition is_lb (kd : span_kind) : bool := match kd with SK_LineBreak => true | _ => false end.

Section BS.
  Variables (l1 l2 : str) (fn : footnotes).
  Hypothesis H1 : line_ok l1.
  Hypothesis H2 : line_ok l2.

  Let s := l1 ++ [92; 10] ++ l2.
  Let a := slen l1.

  Definition b0 : mst := adv_run (start_at [] s) l1 (92 :: 10 :: l2).
  Definition b1 : mst := bs_end b0 l2.

  Lemma b_len : slen s = a + 1 + 1 + slen l2.
  Proof. unfold s, a. rewrite !slen_app. unfold slen. cbn [length]. lia. Qed.
  Lemma b0_pos : pos b0 = a.  Proof. reflexivity. Qed.
  Lemma b1_pos : pos b1 = a + 1 + 1.  Proof. reflexivity. Qed.

  Lemma p1 : plain_text l1 = true.  Proof. apply H1. Qed.
  Lemma p2 : plain_text l2 = true.  Proof. apply H2. Qed.

  Lemma lb_found : finditer fl_span_token_LineBreak_pattern re_span_token_LineBreak_pattern s = [(b0, b1)].
  Proof.
    destruct lb_shape as [-> ->]. unfold finditer. cbn [finditer_from].
    assert (Ea : aft (start_at [] s) = s) by reflexivity. rewrite Ea.
    rewrite (search_bs l1 (start_at [] s) s false l2 eq_refl (line_ok_tail l1 H1)) by (unfold s; rewrite app_length; lia).
    fold b0. fold b1. f_equal.
    apply finditer_from_none. apply (search_none _ LB 10 lb_needs_newline).
    cbn [aft b1 bs_end advance]. apply plain_no; [reflexivity|exact p2].
  Qed.

  (* EscapeSequence.pattern finds nothing: the only backslash is followed by the newline *)
  Lemma esc_nothing : finditer fl_span_token_EscapeSequence_pattern re_span_token_EscapeSequence_pattern s = [].
  Proof.
    unfold finditer. apply finditer_from_none.
    assert (Ea : aft (start_at [] s) = s) by reflexivity. rewrite Ea.
    rewrite (search_skip _ _ l1 s (start_at [] s) (92 :: 10 :: l2)); [|reflexivity| |unfold s; rewrite app_length; lia].
    2:{ intros d Hd. apply esc_nomatch.
        pose proof (plain_no 92 l1 eq_refl p1) as T. destruct (d =? 92) eqn:E; [|reflexivity]. apply Z.eqb_eq in E. subst d.
        assert (T' : mem 92 l1 = true) by (unfold mem; apply existsb_exists; exists 92; split; [exact Hd|reflexivity]). rewrite T' in T. discriminate. }
    fold b0. destruct esc_shape as (Sh & Hcr & Fl).
    assert (M : forall K, m fl_span_token_EscapeSequence_pattern re_span_token_EscapeSequence_pattern (mkMst (bef b0) (aft b0) (pos b0) []) K = None).
    { intros K. rewrite Sh, Fl. rewrite m_seq. rewrite (m_char _ (Lit 92) _ 92 (10 :: l2)) by reflexivity. cbn [char_ok Z.eqb Pos.eqb].
      rewrite m_grp. rewrite (m_char _ ESC_SET _ 10 l2 _ Hcr) by reflexivity. reflexivity. }
    assert (N : forall fuel, search_from fl_span_token_EscapeSequence_pattern re_span_token_EscapeSequence_pattern fuel false (advance b0 92 (10 :: l2)) = None).
    { intros fuel. apply (search_none _ _ 92); [vm_compute; reflexivity|]. cbn [aft advance].
      unfold mem. cbn [existsb Z.eqb Pos.eqb orb]. fold (mem 92 l2). apply plain_no; [reflexivity|exact p2]. }
    destruct (skipn (length l1) s) as [|x fuel]; cbn [search_from]; rewrite M; [reflexivity|].
    assert (Eb : aft b0 = 92 :: 10 :: l2) by reflexivity. rewrite Eb. apply N.
  Qed.

  Lemma b_no c : mem c triggers_b = true -> mem c s = false.
  Proof.
    intros Hc.
    assert (Ht : mem c triggers = true).
    { unfold mem, triggers_b, triggers in *. cbn [existsb] in *.
      repeat (apply orb_true_iff in Hc; destruct Hc as [Hc|Hc]); try discriminate; rewrite Hc; cbn [orb]; rewrite ?orb_true_r; reflexivity. }
    assert (C92 : (c =? 92) = false) by (destruct (c =? 92) eqn:E; [apply Z.eqb_eq in E; subst c; vm_compute in Hc; discriminate|reflexivity]).
    assert (C10 : (c =? 10) = false) by (destruct (c =? 10) eqn:E; [apply Z.eqb_eq in E; subst c; vm_compute in Hc; discriminate|reflexivity]).
    unfold s, mem. rewrite !existsb_app. fold (mem c l1). fold (mem c l2).
    rewrite (plain_no c l1 Ht p1), (plain_no c l2 Ht p2). cbn [existsb orb]. rewrite C92, C10. reflexivity.
  Qed.

  Theorem core_nothing_b : find_core_tokens s fn = ([], []).
  Proof.
    unfold find_core_tokens.
    assert (Hcs : code_search s 0 = None).
    { unfold code_search. apply (search_state_none _ _ 96); [vm_compute; reflexivity|]. unfold seek. cbn [aft]. apply mem_drop. apply b_no. reflexivity. }
    rewrite Hcs.
    set (st0 := mkScan [] [] false None false 0 []).
    replace (S (S (length s))) with (length l1 + S (S (length l2 + 2)))%nat by (unfold s; rewrite !app_length; cbn [length]; lia).
    rewrite (scan_inert_any s fn l1 _ [] ([92; 10] ++ l2) st0 eq_refl (plain_inert l1 p1)) by (repeat split).
    change (slen [] + slen l1) with a.
    rewrite (scan_escape l1 l2 10 fn) by (repeat split).
    replace (slen l1 + 1 + 1) with (slen (l1 ++ [92; 10])) by (rewrite slen_app; unfold slen; cbn [length]; lia).
    rewrite (scan_inert_any s fn l2 _ (l1 ++ [92; 10]) [] st0); [|unfold s; rewrite app_nil_r, <- app_assoc; reflexivity|exact (plain_inert l2 p2)|repeat split].
    replace (slen (l1 ++ [92; 10]) + slen l2) with (slen s) by (rewrite b_len; unfold a; rewrite slen_app; unfold slen; cbn [length]; lia).
    rewrite scan_end. cbn [st0 sc_run sc_ds sc_ms sc_code].
    unfold process_emphasis. change (next_closer 0 []) with (@None Z). destruct (3 * length s + 3)%nat; reflexivity.
  Qed.

  Lemma find_all_bs : forall ts, forallb kind_quiet_b ts = true ->
    find_all ts s fn [] = flat_map (fun kd => if is_lb kd then [CRe SK_LineBreak b0 b1] else []) ts.
  Proof.
    induction ts as [|kd ts IH]; intros Hq; [reflexivity|].
    cbn [forallb] in Hq. apply andb_true_iff in Hq as [Hkq Hts]. cbn [find_all flat_map].
    assert (F : match kd with SK_CoreTokens | SK_InlineCode | SK_RawText | SK_LineBreak | SK_EscapeSequence => True | _ => finditer (snd (re_of kd)) (fst (re_of kd)) s = [] end).
    { destruct kd; try exact I; cbn [kind_quiet_b] in Hkq; apply existsb_exists in Hkq as (d & Hin & Hn);
        (apply (finditer_none _ _ d s Hn); apply b_no; unfold mem; apply existsb_exists; exists d; split; [exact Hin|apply Z.eqb_refl]). }
    destruct kd; cbn [find_kind is_lb];
      try (rewrite core_nothing_b; cbn [map app]; apply IH; exact Hts);
      try (cbn [map app]; apply IH; exact Hts);
      try (cbn [re_of fst snd]; rewrite lb_found; cbn [map app fst snd]; f_equal; apply IH; exact Hts);
      try (cbn [re_of fst snd]; rewrite esc_nothing; cbn [map app]; apply IH; exact Hts);
      (cbn [re_of fst snd] in F |- *; rewrite F; cbn [map app]; apply IH; exact Hts).
  Qed.

  Theorem tokenize_inner_bs types : forallb kind_quiet_b (removelast types) = true ->
    filter is_lb (removelast types) = [SK_LineBreak] ->
    tokenize_inner types fn s = [RawText l1; LineBreak [92] false; RawText l2].
  Proof.
    intros Hq Hf. unfold tokenize_inner. rewrite (find_all_bs _ Hq).
    assert (Es : flat_map (fun kd => if is_lb kd then [CRe SK_LineBreak b0 b1] else []) (removelast types) = [CRe SK_LineBreak b0 b1]).
    { clear Hq. revert Hf. generalize (removelast types) as ts.
      assert (G : forall ts n, length (filter is_lb ts) = n ->
                flat_map (fun kd => if is_lb kd then [CRe SK_LineBreak b0 b1] else []) ts = repeat (CRe SK_LineBreak b0 b1) n).
      { induction ts as [|kd ts IH]; intros n Hn; [cbn in Hn; subst n; reflexivity|]. cbn [flat_map filter] in *.
        destruct (is_lb kd); [|cbn [app]; apply IH; exact Hn]. destruct n as [|n]; [discriminate|]. cbn [length] in Hn. cbn [repeat app]. f_equal. apply IH. lia. }
      intros ts H. rewrite (G ts 1%nat) by (rewrite H; reflexivity). reflexivity. }
    rewrite Es.
    cbn [number_from map fst snd cand_of sk_parse_group grp_span sk_precedence sk_parse_inner].
    rewrite b0_pos, b1_pos.
    pose proof b_len as Hs.
    destruct H1 as (_ & Hn1 & _). destruct H2 as (_ & Hn2 & _).
    assert (La : 0 < a) by (unfold a, slen; destruct (length l1) eqn:E; [apply length_zero_iff_nil in E; contradiction|lia]).
    assert (Lb : 0 < slen l2) by (unfold slen; destruct (length l2) eqn:E; [apply length_zero_iff_nil in E; contradiction|lia]).
    unfold tokenize, SpanTokenizer.make_tokens, make_tokens_with.
    cbn [sort_cands fold_right insert_stable buffer_rev eval_loop last_end pc ce mk_rev cs make inner ps pe app rev].
    replace (a >? 0) with true by (symmetry; apply Z.gtb_lt; exact La).
    replace (a + 1 + 1 =? slen s) with false by (symmetry; apply Z.eqb_neq; lia).
    cbn [app rev map build_otok cid src_at Z.to_nat nth build_leaf].
    assert (G1 : gtext b1 1 = [92]).
    { unfold gtext, group_text, b1, bs_end. cbn [grp lookup_grp Nat.eqb advance set_grp]. unfold segment. cbn [pos bef advance set_grp].
      replace (pos b0 + 1 + 1 - pos b0) with 2 by lia. replace (pos b0 + 1 - pos b0) with 1 by lia.
      cbn [Z.to_nat Pos.to_nat Pos.iter_op Nat.add firstn rev app]. reflexivity. }
    rewrite G1. cbn [startswith Z.eqb Pos.eqb andb orb negb].
    f_equal; [|f_equal; f_equal].
    - f_equal. pose proof (substr_mid [] l1 ([92; 10] ++ l2)) as M. cbn [app] in M. unfold slen at 1 2 in M. cbn [length Z.of_nat] in M.
      fold a in M. replace (0 + a) with a in M by lia. unfold s. cbn [app]. rewrite M. apply unescape_plain. exact p1.
    - f_equal. pose proof (substr_mid (l1 ++ [92; 10]) l2 []) as M.
      replace (slen (l1 ++ [92; 10])) with (a + 1 + 1) in M by (unfold a; rewrite slen_app; unfold slen; cbn [length]; lia).
      rewrite app_nil_r in M. replace ((l1 ++ [92; 10]) ++ l2) with s in M by (unfold s; rewrite <- app_assoc; reflexivity).
      rewrite Hs. rewrite M. apply unescape_plain. exact p2.
  Qed.
End BS.

(* ---- the statement with computable hypotheses ---- *)
Definition bs_spans (types : list span_kind) : bool :=
  forallb kind_quiet_b (removelast types) && match filter is_lb (removelast types) with [SK_LineBreak] => true | _ => false end.

Theorem backslash_break types fn l1 l2 :
  bs_spans types = true -> bline_okb (l1, 0%nat) = true -> bline_okb (l2, 0%nat) = true ->
  tokenize_inner types fn (l1 ++ [92; 10] ++ l2) = [RawText l1; LineBreak [92] false; RawText l2].
Proof.
  intros Hs O1 O2. unfold bs_spans in Hs. apply andb_true_iff in Hs as [Hq Hc].
  assert (L : forall l, bline_okb (l, 0%nat) = true -> line_ok l).
  { intros l H. unfold bline_okb in H. cbn [fst] in H. repeat rewrite andb_true_iff in H. destruct H as [[A B] C].
    split; [exact A|]. split; [destruct l; discriminate|]. apply negb_true_iff in C. apply Z.eqb_neq in C. exact C. }
  apply (tokenize_inner_bs l1 l2 fn (L l1 O1) (L l2 O2)); [exact Hq|].
  destruct (filter _ _) as [|[] [|? ?]]; try discriminate. reflexivity.
Qed.

Lemma bs_configs :
  map (fun c => bs_spans (cfg_span c)) [cfg_html; cfg_html_nohtml; cfg_markdown; cfg_latex; cfg_mathjax; cfg_default] = [true; true; true; true; true; true].
Proof. vm_compute. reflexivity. Qed.
