(* The block phase on paragraph lines that END IN SPACES (Proofs/HardBreaks.v gives their inline phase): the paragraph
   reader goes on over lines that begin with a character starting no other block and hold no "|", whatever they end
   in; the lines of such a paragraph, stripped and joined as Paragraph does, are the text brk_join speaks about. *)
From Coq Require Import ZArith List Bool Lia.
From Mistletoe Require Import Base.Sx Base.PyStr Base.PyText Gen.GenTables Gen.GenRegex Gen.GenConfig Re.ReMatch
     Model.SpanTokenizer Model.Tree Model.Unescape Model.CoreTokens Model.Inline Model.Block Model.Build Model.Parser Model.HtmlRenderer
     Proofs.ReFirst Proofs.ReNeeds Proofs.Prose Proofs.PlainProse Proofs.ListLaw Proofs.ProseLines Proofs.InertProse Proofs.HardBreaks Proofs.Independence.
Import ListNotations.
Local Open Scope Z_scope.

(* a line that starts no block other than a paragraph - nothing is asked of its end *)
Definition wline (l : str) : Prop := plain_first (hd 0 l) = true /\ mem 124 l = false /\ l <> [].
Definition wcont (l : str) : Prop := wline l /\ cont_first (hd 0 l) = true.

Lemma lstrip_by_keep f : forall (l : str) c, f c = false -> exists p, lstrip_by f (l ++ [c]) = p ++ [c].
Proof.
  induction l as [|x l IH]; intros c Hc.
  - exists []. cbn [app lstrip_by]. rewrite Hc. reflexivity.
  - cbn [app lstrip_by]. destruct (f x); [apply IH; exact Hc|]. exists (x :: l). reflexivity.
Qed.

Lemma wline_not_blank l : wline l -> is_blank (l ++ [10]) = false.
Proof.
  intros (Hf & _ & Hne). destruct l as [|c t]; [contradiction|]. cbn [hd] in Hf.
  pose proof (plain_first_not_space c Hf) as Hc.
  unfold is_blank, strip, strip_by. fold (lstrip ((c :: t) ++ [10])). cbn [app]. rewrite lstrip_nonspace by exact Hc.
  unfold rstrip_by. cbn [rev]. destruct (lstrip_by_keep is_space_c (rev (t ++ [10])) c Hc) as [p Ep]. rewrite Ep.
  rewrite rev_app_distr. reflexivity.
Qed.

Section ParaW.
  Variable types : list block_kind.

  Lemma para_loop_w setext rest : (rest = [] \/ exists B, rest = NL :: B) -> forall ls buf taken, Forall wcont ls ->
    para_loop types setext (map (fun l => l ++ [10]) ls ++ rest) buf taken = (rev buf ++ map (fun l => l ++ [10]) ls, (taken + length ls)%nat, false).
  Proof.
    intros Hrest. induction ls as [|l r IH]; intros buf taken H.
    - cbn [map app length]. rewrite app_nil_r, Nat.add_0_r. destruct Hrest as [->|[B ->]]; [reflexivity|]. cbn [para_loop]. rewrite nl_blank. reflexivity.
    - inversion H as [|? ? [PL Hc] Hr]; subst. pose proof PL as (Hf & Hp & Hne). pose proof (wline_not_blank l PL) as Hb.
      destruct l as [|c t]; [contradiction|]. cbn [hd] in Hf, Hc. unfold cont_first in Hc. repeat rewrite andb_true_iff in Hc. destruct Hc as [[_ Hsx] Hli].
      cbn [map]. rewrite <- app_comm_cons. cbn [para_loop]. rewrite Hb.
      assert (Np : match map (fun l => l ++ [10]) r ++ rest with [] => True | l2 :: _ => mem 124 l2 = false end).
      { destruct r as [|l2 r'].
        - cbn [map app]. destruct Hrest as [->|[B ->]]; [exact I|reflexivity].
        - cbn [map app]. inversion Hr as [|? ? [(_ & Hp2 & _) _] _]; subst.
          unfold mem. rewrite existsb_app. fold (mem 124 l2). rewrite Hp2. reflexivity. }
      change ((c :: t) ++ [10]) with (c :: t ++ [10]).
      rewrite (plain_no_interrupt types c (t ++ [10]) _ Hf Hli Np).
      rewrite (rmatch_plain _ _ c (t ++ [10]) Hsx). rewrite andb_false_r.
      assert (Th : thematic_start (c :: t ++ [10]) = false).
      { pose proof (block_starts_need_marker [] (fun _ _ _ => ([], false, mkPs true)) BK_ThematicBreak c (t ++ [10]) [] 0 (mkPs true) Hf eq_refl) as N.
        cbn [start_read] in N. destruct (thematic_start (c :: t ++ [10])); [discriminate|reflexivity]. }
      rewrite Th. rewrite (IH _ _ Hr). cbn [rev length]. rewrite <- app_assoc. cbn [app]. f_equal. f_equal. lia.
  Qed.
End ParaW.

Section BlocksW.
  Variable types : list block_kind.
  Variable rec : list str -> Z -> pstate -> list pre * bool * pstate.

  Lemma try_types_para_w l rest ln st buf c : wline l ->
    para_loop types (ps_setext st) rest [l ++ [10]] 1%nat = (buf, c, false) ->
    forall ts, In BK_Paragraph ts ->
    try_types types rec ts ((l ++ [10]) :: rest) ln st = Some (PParagraph ln buf, c, st).
  Proof.
    intros PL Hpl. pose proof PL as (Hf & Hp & Hne). pose proof (wline_not_blank l PL) as Hbl.
    destruct l as [|c0 t]; [contradiction|]. cbn [hd] in Hf. cbn [app] in Hpl, Hbl |- *.
    induction ts as [|k ts IH]; intros Hin; [destruct Hin|].
    cbn [try_types].
    destruct (kind_eqb k BK_Paragraph) eqn:EP.
    - assert (k = BK_Paragraph) by (destruct k; try discriminate; reflexivity). subst k.
      cbn [start_read]. unfold paragraph_start. rewrite Hbl. cbn [negb].
      match goal with |- context [para_loop ?pa ?pb ?pc ?pd ?pe] => replace (para_loop pa pb pc pd pe) with (buf, c, false) by (symmetry; exact Hpl) end. reflexivity.
    - assert (N : start_read types rec k ((c0 :: t ++ [10]) :: rest) ln st = None).
      { destruct (non_paragraph_non_table k) eqn:EN.
        - apply block_starts_need_marker; assumption.
        - destruct k; try discriminate. cbn [start_read]. unfold table_start.
          change (c0 :: t ++ [10]) with ((c0 :: t) ++ [10]). unfold mem. rewrite existsb_app. fold (mem 124 (c0 :: t)). rewrite Hp. reflexivity. }
      rewrite N. apply IH. destruct Hin as [->|Hin]; [destruct BK_Paragraph; discriminate|exact Hin].
  Qed.
End BlocksW.

(* ---- the lines of a paragraph with trailing spaces ---- *)
Fixpoint brk_lines (ls : list bline) : list str :=
  match ls with
  | [] => []
  | (l, k) :: r => match r with [] => [l] | _ => (l ++ repeat 32 k) :: brk_lines r end
  end.

Lemma brk_lines_cons l k b r : brk_lines ((l, k) :: b :: r) = (l ++ repeat 32 k) :: brk_lines (b :: r).
Proof. reflexivity. Qed.

Lemma concat_brk_lines : forall ls, ls <> [] -> concat (nl_lines (brk_lines ls)) = brk_join ls ++ [10].
Proof.
  induction ls as [|[l k] r IH]; [contradiction|]. intros _. destruct r as [|b r']; [cbn; rewrite app_nil_r; reflexivity|].
  rewrite brk_lines_cons, brk_join_cons.
  change (nl_lines ((l ++ repeat 32 k) :: brk_lines (b :: r'))) with (((l ++ repeat 32 k) ++ [10]) :: nl_lines (brk_lines (b :: r'))).
  cbn [concat]. rewrite IH by discriminate. rewrite <- !app_assoc. reflexivity.
Qed.

Lemma brk_join_head : forall ls l k, exists t, brk_join ((l, k) :: ls) = l ++ t.
Proof. intros [|b r] l k; [exists []; cbn; rewrite app_nil_r; reflexivity|]. rewrite brk_join_cons. eexists. reflexivity. Qed.

Lemma brk_join_last : forall ls l k, Forall (fun b : bline => fst b <> []) ((l, k) :: ls) ->
  last (brk_join ((l, k) :: ls)) 0 = last (fst (last ls (l, k))) 0.
Proof.
  induction ls as [|[l2 k2] r IH]; intros l k H; [reflexivity|]. inversion H as [|? ? Hl Hr]; subst. inversion Hr as [|? ? Hl2 _]; subst. cbn [fst] in *.
  rewrite brk_join_cons. rewrite last_app_ne by (destruct (repeat 32 k); discriminate).
  rewrite last_app_ne by discriminate. change (10 :: brk_join ((l2, k2) :: r)) with ([10] ++ brk_join ((l2, k2) :: r)).
  rewrite last_app_ne.
  - rewrite (IH l2 k2 Hr). rewrite last_cons_default. reflexivity.
  - destruct (brk_join_head r l2 k2) as [t ->]. destruct l2; [contradiction|discriminate].
Qed.

(* ---- the paragraph as a whole ---- *)
Definition brk_para_b (ls : list bline) : bool :=
  match ls with
  | [] => false
  | (l, _) :: r =>
    forallb bline_okb ls && forallb (fun b : bline => negb (mem 9 (fst b)) && negb (is_space_c (last (fst b) 0))) ls &&
    plain_first (hd 0 l) && nomatch fl_block_token_ListItem_pattern re_block_token_ListItem_pattern (hd 0 l) &&
    forallb (fun b : bline => cont_first (hd 0 (fst b))) r
  end.

Lemma bline_okb_spec b : bline_okb b = true -> plain_text (fst b) = true /\ fst b <> [] /\ last (fst b) 0 <> 32.
Proof.
  unfold bline_okb. intros H. repeat rewrite andb_true_iff in H. destruct H as [[H1 H2] H3].
  split; [exact H1|]. split; [destruct (fst b); [discriminate|discriminate]|]. apply negb_true_iff in H3. apply Z.eqb_neq in H3. exact H3.
Qed.

Lemma wline_spaces l j : plain_text l = true -> l <> [] -> plain_first (hd 0 l) = true -> wline (l ++ repeat 32 j).
Proof.
  intros Hp Hne Hf. destruct l as [|c t]; [contradiction|]. cbn [app hd] in *. split; [exact Hf|]. split; [|discriminate].
  change (c :: t ++ repeat 32 j) with ((c :: t) ++ repeat 32 j). unfold mem. rewrite existsb_app. fold (mem 124 (c :: t)). fold (mem 124 (repeat 32 j)).
  rewrite (plain_no 124 _ eq_refl Hp), (mem_repeat 124 32 j) by lia. reflexivity.
Qed.

Lemma hd_spaces (l : str) j : l <> [] -> hd 0 (l ++ repeat 32 j) = hd 0 l.
Proof. destruct l; [contradiction|reflexivity]. Qed.

Lemma brk_conts : forall r, forallb bline_okb r = true -> forallb (fun b : bline => cont_first (hd 0 (fst b))) r = true -> Forall wcont (brk_lines r).
Proof.
  induction r as [|[l k] r IH]; intros Hok Hc; [constructor|].
  cbn [forallb fst] in Hok, Hc. apply andb_true_iff in Hok as [Hl Hr]. apply andb_true_iff in Hc as [Hc1 Hcr].
  destruct (bline_okb_spec _ Hl) as (Hp & Hne & _). cbn [fst] in Hp, Hne.
  assert (Hpf : plain_first (hd 0 l) = true) by (unfold cont_first in Hc1; repeat rewrite andb_true_iff in Hc1; tauto).
  assert (W : forall j, wcont (l ++ repeat 32 j)) by (intros j; split; [apply wline_spaces; assumption|rewrite hd_spaces by exact Hne; exact Hc1]).
  destruct r as [|b r'].
  - cbn [brk_lines]. constructor; [|constructor]. rewrite <- (app_nil_r l). apply (W 0%nat).
  - rewrite brk_lines_cons. constructor; [apply W|apply IH; assumption].
Qed.

Lemma brk_para_lines ls : brk_para_b ls = true ->
  exists x r, brk_lines ls = x :: r /\ wline x /\ Forall wcont r /\
              nomatch fl_block_token_ListItem_pattern re_block_token_ListItem_pattern (hd 0 x) = true /\ hd 0 x = hd 0 (fst (hd ([], 0%nat) ls)) /\ mem 10 x = false.
Proof.
  destruct ls as [|[l k] r]; [discriminate|]. cbn [brk_para_b]. intros H. repeat rewrite andb_true_iff in H. destruct H as [[[[Hok _] Hf] Hn] Hc].
  pose proof Hok as Hok'. cbn [forallb] in Hok'. apply andb_true_iff in Hok' as [Hl Hr].
  destruct (bline_okb_spec _ Hl) as (Hp & Hne & _). cbn [fst] in Hp, Hne.
  assert (X : forall j, wline (l ++ repeat 32 j) /\ hd 0 (l ++ repeat 32 j) = hd 0 l /\ mem 10 (l ++ repeat 32 j) = false).
  { intros j. split; [apply wline_spaces; assumption|]. split; [apply hd_spaces; exact Hne|].
    unfold mem. rewrite existsb_app. fold (mem 10 l). fold (mem 10 (repeat 32 j)). rewrite (plain_no 10 _ eq_refl Hp), (mem_repeat 10 32 j) by lia. reflexivity. }
  destruct r as [|b r'].
  - cbn [brk_lines]. exists l, []. destruct (X 0%nat) as (W & Hh & H10). cbn [repeat] in *. rewrite app_nil_r in *.
    split; [reflexivity|]. split; [exact W|]. split; [constructor|]. split; [exact Hn|]. split; [reflexivity|exact H10].
  - rewrite brk_lines_cons. exists (l ++ repeat 32 k), (brk_lines (b :: r')). destruct (X k) as (W & Hh & H10).
    split; [reflexivity|]. split; [exact W|]. split; [apply brk_conts; assumption|]. rewrite Hh. split; [exact Hn|]. split; [reflexivity|exact H10].
Qed.

Section BrkBlock.
  Variable types : list block_kind.
  Hypothesis Hpar : In BK_Paragraph types.

  Lemma brk_try rec ls rest ln st : brk_para_b ls = true -> (rest = [] \/ exists B, rest = NL :: B) ->
    try_types types rec types (nl_lines (brk_lines ls) ++ rest) ln st = Some (PParagraph ln (nl_lines (brk_lines ls)), length (brk_lines ls), st).
  Proof.
    intros Hw Hrest. destruct (brk_para_lines ls Hw) as (x & r & -> & Wx & Wr & _).
    unfold nl_lines. cbn [map app].
    pose proof (para_loop_w types (ps_setext st) rest Hrest r [x ++ [10]] 1 Wr) as PLoop. cbn [rev app] in PLoop.
    exact (try_types_para_w types rec x _ ln st _ _ Wx PLoop types Hpar).
  Qed.

  Lemma brk_block f ls ln st : brk_para_b ls = true ->
    tokenize_block types (S f) (nl_lines (brk_lines ls)) ln st = ([PParagraph ln (nl_lines (brk_lines ls))], false, st).
  Proof.
    intros Hw. pose proof (brk_try (tokenize_block types f) ls [] ln st Hw (or_introl eq_refl)) as T. rewrite app_nil_r in T.
    destruct (brk_para_lines ls Hw) as (x & r & E & _). rewrite E in *. unfold nl_lines in *. cbn [map] in *.
    cbn [tokenize_block length dispatch_loop]. rewrite T. cbn [length skipn].
    match goal with |- context [@skipn ?T ?n ?X] => replace (@skipn T n X) with (@nil T) by (symmetry; apply skipn_all2; rewrite map_length; apply le_n) end.
    reflexivity.
  Qed.
End BrkBlock.

(* Paragraph's content: the lines, each stripped on the left, joined, stripped *)
Lemma brk_strip ls : brk_para_b ls = true -> strip (concat (map lstrip (nl_lines (brk_lines ls)))) = brk_join ls.
Proof.
  intros Hw. destruct (brk_para_lines ls Hw) as (x & r & E & Wx & Wr & _).
  assert (Hall : Forall wline (brk_lines ls)).
  { rewrite E. constructor; [exact Wx|]. apply Forall_forall. intros y Hy. rewrite Forall_forall in Wr. apply (Wr y Hy). }
  assert (E1 : map lstrip (nl_lines (brk_lines ls)) = nl_lines (brk_lines ls)).
  { unfold nl_lines. rewrite map_map. apply map_ext_in. intros y Hy. rewrite Forall_forall in Hall. destruct (Hall y Hy) as (Hf & _ & Hne).
    destruct y as [|c t]; [contradiction|]. cbn [hd] in Hf. cbn [app]. apply lstrip_nonspace. apply plain_first_not_space. exact Hf. }
  assert (Hne : ls <> []) by (destruct ls; [discriminate|discriminate]).
  rewrite E1, concat_brk_lines by exact Hne.
  destruct ls as [|[l k] more]; [contradiction|]. unfold bline in *.
  cbn [brk_para_b] in Hw. repeat rewrite andb_true_iff in Hw. destruct Hw as [[[[Hok Hsp] Hf] _] _].
  assert (Hnn : Forall (fun b : bline => fst b <> []) ((l, k) :: more)).
  { apply Forall_forall. intros b Hb. rewrite forallb_forall in Hok. apply (bline_okb_spec b (Hok b Hb)). }
  pose proof (brk_join_last more l k Hnn) as LJ.
  destruct (brk_join_head more l k) as [t Ej].
  inversion Hnn as [|? ? Hl _]; subst. cbn [fst] in Hl.
  assert (Hlast : is_space_c (last (fst (last more (l, k))) 0) = false).
  { assert (Hin : In (last more (l, k)) ((l, k) :: more)) by apply last_in.
    rewrite forallb_forall in Hsp. specialize (Hsp _ Hin). apply andb_true_iff in Hsp as [_ Hsp]. apply negb_true_iff in Hsp. exact Hsp. }
  assert (Hlast' : is_space_c (last (brk_join ((l, k) :: more)) 0) = false) by (etransitivity; [apply f_equal; exact LJ|exact Hlast]).
  clear LJ Hlast. revert Hlast' Ej. generalize (brk_join ((l, k) :: more)). intros X Hlast Ej.
  destruct l as [|c body]; [contradiction|]. cbn [hd] in Hf.
  assert (Ex : X = c :: body ++ t) by (rewrite Ej; reflexivity).
  unfold strip, strip_by. fold (lstrip (X ++ [10])). rewrite Ex. cbn [app]. rewrite lstrip_nonspace by (apply plain_first_not_space; exact Hf).
  change (c :: (body ++ t) ++ [10]) with ((c :: body ++ t) ++ [10]). rewrite <- Ex. fold (rstrip (X ++ [10])). apply rstrip_last.
  - rewrite Ex. discriminate.
  - exact Hlast.
Qed.

Lemma brk_lines_wline ls : brk_para_b ls = true -> Forall wline (brk_lines ls).
Proof.
  intros Hw. destruct (brk_para_lines ls Hw) as (x & r & E & Wx & Wr & _). rewrite E. constructor; [exact Wx|].
  apply Forall_forall. intros y Hy. rewrite Forall_forall in Wr. apply (Wr y Hy).
Qed.

Lemma brk_para_okb ls : brk_para_b ls = true -> ls <> [] /\ forallb bline_okb ls = true.
Proof.
  destruct ls as [|[l k] r]; [discriminate|]. cbn [brk_para_b]. intros H. repeat rewrite andb_true_iff in H. destruct H as [[[[Hok _] _] _] _].
  split; [discriminate|exact Hok].
Qed.
