(* C14: (1) unbounded — a line that does not begin with a marker character cannot start any
   block kind other than a paragraph or a table, for the block-start patterns REGENERATED
   from /repo (first-character analysis of Proofs/ReFirst.v), and the set of marker
   characters is exactly the one the specification gives; (2) an inertness predicate on
   paragraphs written from the CommonMark rules (it does not use the parser model), used
   as the guard of the kernel sweep of Proofs/Prose/*.v. *)
From Coq Require Import ZArith List Bool Lia.
From Mistletoe Require Import Base.Sx Base.PyStr Base.PyText Gen.GenTables Gen.GenRegex Gen.GenConfig Re.ReMatch
     Model.CoreTokens Model.Block Model.HtmlRenderer Model.Parser Proofs.ReFirst Proofs.Laws.
Import ListNotations.
Local Open Scope Z_scope.

(* ---- (1) block starts need their marker character ---- *)
Definition plain_first (c : Z) : bool :=
  nomatch fl_block_token_Heading_pattern re_block_token_Heading_pattern c &&
  nomatch fl_block_token_CodeFence_pattern re_block_token_CodeFence_pattern c &&
  nomatch fl_block_token_ThematicBreak_pattern re_block_token_ThematicBreak_pattern c &&
  nomatch fl_block_token_List_pattern re_block_token_List_pattern c &&
  nomatch fl_markdown_renderer_BlankLine_pattern re_markdown_renderer_BlankLine_pattern c &&
  nomatch fl_block_token_HtmlBlock_multiblock re_block_token_HtmlBlock_multiblock c &&
  nomatch fl_block_token_HtmlBlock_predefined re_block_token_HtmlBlock_predefined c &&
  nomatch fl_block_token_HtmlBlock_custom_tag re_block_token_HtmlBlock_custom_tag c &&
  negb (is_space_c c) && negb (c =? 62) && negb (c =? 91) && negb (c =? 60).

Definition non_paragraph_non_table (k : block_kind) : bool :=
  match k with BK_Paragraph | BK_Table => false | _ => true end.

Lemma rmatch_plain r fl c t : nomatch fl r c = true -> rmatch r fl (c :: t) = None.
Proof. intros H. unfold rmatch. apply match_here_none. exact H. Qed.

Lemma lstrip_plain c t : is_space_c c = false -> lstrip (c :: t) = c :: t.
Proof. intros H. unfold lstrip. cbn [lstrip_by]. rewrite H. reflexivity. Qed.

Lemma startswith_neq a p c t : (a =? c) = false -> startswith (a :: p) (c :: t) = false.
Proof. intros H. cbn [startswith]. rewrite H. reflexivity. Qed.

Theorem block_starts_need_marker types rec k c t rest ln st :
  plain_first c = true -> non_paragraph_non_table k = true ->
  start_read types rec k ((c :: t) :: rest) ln st = None.
Proof.
  unfold plain_first. intros H Hk. repeat rewrite andb_true_iff in H.
  destruct H as [[[[[[[[[[[N1 N2] N3] N4] N5] N6] N7] N8] H3] H62] H91] H60].
  apply negb_true_iff in H3, H62, H91, H60.
  assert (E9 : 9 =? c = false) by (apply Z.eqb_neq; intros <-; vm_compute in H3; discriminate).
  assert (E32 : 32 =? c = false) by (apply Z.eqb_neq; intros <-; vm_compute in H3; discriminate).
  assert (S4 : startswith $"    " (tabs_to_spaces_once (c :: t)) = false).
  { unfold tabs_to_spaces_once. cbn [replace_first startswith]. rewrite E9. cbn [andb].
    replace ($"    ") with [32; 32; 32; 32] by reflexivity. cbn [startswith]. rewrite E32. reflexivity. }
  destruct k; try discriminate; cbn [start_read].
  - unfold blockcode_start. rewrite S4. reflexivity.
  - unfold heading_start. rewrite rmatch_plain by assumption. reflexivity.
  - unfold quote_start, lstrip_set. cbn [lstrip_by mem existsb].
    rewrite (Z.eqb_sym c 32), E32. cbn [orb]. rewrite Z.sub_diag. cbn [Z.ltb Z.compare].
    rewrite startswith_neq by (rewrite Z.eqb_sym; assumption). reflexivity.
  - unfold codefence_start. rewrite rmatch_plain by assumption. reflexivity.
  - unfold thematic_start. rewrite rmatch_plain by assumption. reflexivity.
  - unfold list_start. rewrite rmatch_plain by assumption. reflexivity.
  - unfold footnote_start. rewrite lstrip_plain by assumption. rewrite startswith_neq by (rewrite Z.eqb_sym; assumption). reflexivity.
  - unfold htmlblock_start. rewrite lstrip_plain by assumption. rewrite Z.sub_diag. cbn [Z.leb Z.compare].
    rewrite rmatch_plain by assumption.
    assert (L : forall p, startswith (60 :: p) (c :: t) = false) by (intros; apply startswith_neq; rewrite Z.eqb_sym; assumption).
    cbn [s2l]. rewrite !L. cbn [andb]. rewrite !rmatch_plain by assumption. reflexivity.
  - unfold blankline_start. rewrite rmatch_plain by assumption. reflexivity.
  - unfold footnote_start. rewrite lstrip_plain by assumption. rewrite startswith_neq by (rewrite Z.eqb_sym; assumption). reflexivity.
Qed.

(* the ASCII characters that CAN begin a non-paragraph, non-table block: white space, # * + - digits < > [ _ ` ~ *)
Definition ascii_codes : list Z := map Z.of_nat (seq 0 128).
Lemma marker_characters :
  filter (fun c => negb (plain_first c)) ascii_codes =
  [9; 10; 11; 12; 13; 28; 29; 30; 31; 32; 35; 42; 43; 45; 48; 49; 50; 51; 52; 53; 54; 55; 56; 57; 60; 62; 91; 95; 96; 126].
Proof. vm_compute. reflexivity. Qed.

(* ---- (2) the inertness predicate (independent of the parser model) ---- *)
Definition is_sp (c : Z) : bool := c =? 32.
Definition boundary_ok (c : option Z) : bool := match c with None => true | Some x => (x =? 32) || (x =? 10) end.
Definition alnum_ok (c : option Z) : bool := match c with None => false | Some x => is_alnum_ascii x end.

Fixpoint count_leading (ch : Z) (s : str) : nat := match s with c :: r => if c =? ch then S (count_leading ch r) else O | [] => O end.
Definition space_or_end (s : str) : bool := match s with [] => true | c :: _ => c =? 32 end.

Definition atx_like (l : str) : bool :=
  let n := count_leading 35 l in (1 <=? Z.of_nat n) && (Z.of_nat n <=? 6) && space_or_end (skipn n l).
Definition thematic_like (l : str) : bool :=
  existsb (fun ch => forallb (fun c => (c =? ch) || (c =? 32)) l && (3 <=? count_char ch l)) [45; 95; 42].
Definition bullet_like (l : str) : bool :=
  match l with c :: r => ((c =? 45) || (c =? 43) || (c =? 42)) && space_or_end r | [] => false end.
Fixpoint leading_digits (s : str) : str := match s with c :: r => if (48 <=? c) && (c <=? 57) then c :: leading_digits r else [] | [] => [] end.
Definition ordered_like (first : bool) (l : str) : bool :=
  let ds := leading_digits l in
  let n := length ds in
  match skipn n l with
  | d :: r =>
    (1 <=? Z.of_nat n) && (Z.of_nat n <=? 9) && ((d =? 46) || (d =? 41)) && space_or_end r &&
    (first || (int_of_digits ds =? 1) || match r with [] => true | _ => false end)
  | [] => false
  end.
Definition fence_like (l : str) : bool := (3 <=? Z.of_nat (count_leading 96 l)) || (3 <=? Z.of_nat (count_leading 126 l)).
Definition underline_like (l : str) : bool :=
  let body := rstrip_set [32] l in
  match body with [] => false | _ => forallb (Z.eqb 61) body || forallb (Z.eqb 45) body end.
Definition delim_row_like (l : str) : bool :=
  forallb (fun c => (c =? 32) || (c =? 124) || (c =? 58) || (c =? 45)) l && mem 45 l.

Definition line_starts_block (first : bool) (l : str) : bool :=
  atx_like l || (char_at l 0 =? 62) || thematic_like l || bullet_like l || ordered_like first l || fence_like l ||
  (negb first && underline_like l) || (char_at l 0 =? 60) || (char_at l 0 =? 91) || delim_row_like l.

Definition line_shape_ok (l : str) : bool :=
  match l with [] => false | c :: _ => negb (c =? 32) end && negb (last_char l =? 32) && negb (contains [32; 32] l).

(* runs of ch in the text: every run has acceptable neighbours *)
Fixpoint runs_ok (ch : Z) (ok : option Z -> option Z -> bool) (prev : option Z) (s : str) (fuel : nat) : bool :=
  match fuel with
  | O => true
  | S f =>
    match s with
    | [] => true
    | c :: r =>
      if c =? ch then
        let n := count_leading ch s in
        let rest := skipn n s in
        ok prev (match rest with x :: _ => Some x | [] => None end) && runs_ok ch ok (Some ch) rest f
      else runs_ok ch ok (Some c) r f
    end
  end.

Fixpoint bracket_after_open (seen_open : bool) (s : str) : bool :=     (* a ']' after a '[' *)
  match s with
  | [] => false
  | c :: r => if c =? 91 then bracket_after_open true r
              else if (c =? 93) && seen_open then true else bracket_after_open seen_open r
  end.
Fixpoint semicolon_after_amp (seen : bool) (s : str) : bool :=
  match s with
  | [] => false
  | c :: r => if c =? 38 then semicolon_after_amp true r
              else if (c =? 59) && seen then true else semicolon_after_amp seen r
  end.

Definition inert_text (lines : list str) : bool :=
  match lines with
  | [] => false
  | first :: rest =>
    forallb line_shape_ok lines &&
    negb (line_starts_block true first) && forallb (fun l => negb (line_starts_block false l)) rest &&
    (let text := join [10] lines in
     negb (mem 96 text) && negb (mem 92 text) && negb (mem 9 text) && negb (mem 60 text) && negb (contains [126; 126] text) &&
     negb (semicolon_after_amp false text) && negb (bracket_after_open false text) &&
     runs_ok 42 (fun a b => boundary_ok a && boundary_ok b) None text (S (length text)) &&
     runs_ok 95 (fun a b => (boundary_ok a && boundary_ok b) || (alnum_ok a && alnum_ok b)) None text (S (length text)))
  end.

Definition prose_guarded (lines : list str) : bool :=
  if inert_text lines then prose_law (mkHopts false false) lines else true.

(* the vocabulary of the sweep and the families of lines *)
Definition prose_vocab : list str :=
  [ $"a"; $"b_c"; $"*"; $"-"; $"+"; $"#"; $">"; $"="; $"|"; $"1."; $"2)"; $"."; $")"; $"&"; $"["; $"]" ].
Definition lines_of_tokens (n : nat) : list str :=
  map (join [32]) ((fix go (n : nat) : list (list str) :=
                      match n with O => [[]] | S k => flat_map (fun l => map (fun t => t :: l) prose_vocab) (go k) end) n).
Definition prose_lines12 : list str := lines_of_tokens 1 ++ lines_of_tokens 2.
Definition prose_lines3 : list str := lines_of_tokens 3.
