(* kernel evaluation of C03 on a quarter of the one-block documents x all 48 spelling choices *)
From Coq Require Import ZArith List Bool.
From Mistletoe Require Import Base.Sx Base.PyStr Model.Parser Proofs.Laws Spec.Spell Proofs.SpellLaw.
Import ListNotations.
Lemma sweep : forallb (fun d => forallb (fun c => spell_law c d) all_choices) (every4 0 docs1) = true.
Proof. vm_compute. reflexivity. Qed.
