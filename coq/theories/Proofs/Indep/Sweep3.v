(* kernel evaluation of the blank-line independence law (C05) on a quarter of the pairs indep_As x indep_Bs *)
From Coq Require Import ZArith List Bool.
From Mistletoe Require Import Base.Sx Base.PyStr Model.Parser Proofs.Laws.
Import ListNotations.
Lemma sweep : forallb (fun a => forallb (independence_guarded cfg_html a) indep_Bs) (every4 3 indep_As) = true.
Proof. vm_compute. reflexivity. Qed.
