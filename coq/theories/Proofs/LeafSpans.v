(* what the fragment asks of the span token types: the conditions of the sentence theorems its leaves rest on *)
From Coq Require Import ZArith List Bool.
From Mistletoe Require Import Base.Sx Gen.GenConfig Proofs.RefSentence Proofs.CodeSpan Proofs.StrikeSentence Proofs.EscSentence Proofs.AutoLinkSentence.
Definition leaf_spans (types : list span_kind) : bool :=
  ref_spans types && code_spans types && strike_spans types && esc_spans types && auto_spans types.
