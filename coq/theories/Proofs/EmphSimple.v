(* C06, the first unbounded end-to-end theorem with inline markup: a paragraph "*w*", "**w**",
   "_w_" or "__w__" whose inside w is plain text beginning and ending with a character that
   is neither white space nor punctuation renders as <p><em>w</em></p> (<strong> for the
   doubled forms) - through the delimiter scanner, process_emphasis, every other span
   finder (which find nothing), the candidate tokenizer and the HTML renderer. *)
From Coq Require Import ZArith List Bool Lia.
From Mistletoe Require Import Base.Sx Base.PyStr Base.PyText Gen.GenTables Gen.GenRegex Gen.GenConfig Re.ReMatch
     Model.SpanTokenizer Model.Tree Model.Unescape Model.CoreTokens Model.Inline Model.Block Model.Build Model.Parser Model.HtmlRenderer
     Proofs.ReFirst Proofs.ReNeeds Proofs.Prose Proofs.PlainProse Proofs.ListLaw Proofs.ProseLines.
Import ListNotations.
Local Open Scope Z_scope.

Lemma char_at_mid (pre : str) c post : char_at (pre ++ c :: post) (slen pre) = c.
Proof.
  unfold char_at, slen. assert (Z.of_nat (length pre) <? 0 = false) as -> by (apply Z.ltb_ge; lia).
  rewrite Nat2Z.id. rewrite app_nth2 by lia. rewrite Nat.sub_diag. reflexivity.
Qed.

(* a character the scanner does nothing with *)
Definition inert_char (c : Z) : bool := negb (mem c [92; 42; 95; 91; 33; 93]).

Definition run_ok (st : scan) : Prop := match sc_run st with Some rc => rc = 42 \/ rc = 95 | None => True end.

(* the state after an inert character read at position i *)
Definition after_inert (s : str) (st : scan) (i : Z) : scan :=
  mkScan (match sc_run st with Some _ => sc_ds st ++ [new_delim (sc_start st) i s] | None => sc_ds st end)
         (sc_ms st) false None false (sc_start st) (sc_code st).

Lemma scan_inert_step fuel s fn pre c post st : s = pre ++ c :: post -> inert_char c = true -> sc_escaped st = false -> run_ok st ->
  scan_loop (S fuel) s fn (slen pre) None st = scan_loop fuel s fn (slen pre + 1) None (after_inert s st (slen pre)).
Proof.
  intros Es Hc He Hr. cbn [scan_loop].
  assert (Hi : slen pre <? slen s = true) by (apply Z.ltb_lt; rewrite Es, slen_app; unfold slen; cbn [length]; lia).
  assert (Ec : char_at s (slen pre) = c) by (rewrite Es; apply char_at_mid).
  rewrite Hi. cbn [negb]. rewrite Ec.
  unfold inert_char, mem in Hc. cbn [existsb] in Hc. apply negb_true_iff in Hc. repeat (apply orb_false_iff in Hc; destruct Hc as [? Hc]).
  repeat match goal with X : (_ =? c) = false |- _ => rewrite Z.eqb_sym in X end.
  rewrite He. cbn [negb andb orb].
  repeat match goal with X : (c =? _) = false |- _ => rewrite X end. cbn [andb orb negb].
  unfold after_inert, close_run. rewrite He. destruct (sc_run st) as [rc|] eqn:Er.
  - unfold run_ok in Hr. rewrite Er in Hr.
    assert ((c =? rc) = false) as -> by (destruct Hr as [->| ->]; assumption). cbn [negb orb]. reflexivity.
  - reflexivity.
Qed.

Lemma scan_inert_seg s fn : forall t fuel pre post st, s = pre ++ t ++ post -> forallb inert_char t = true -> t <> [] ->
  sc_escaped st = false -> run_ok st ->
  scan_loop (length t + fuel) s fn (slen pre) None st = scan_loop fuel s fn (slen pre + slen t) None (after_inert s st (slen pre)).
Proof.
  induction t as [|c t IH]; intros fuel pre post st Es Ht Hne He Hr; [contradiction|].
  cbn [forallb] in Ht. apply andb_true_iff in Ht as [Hc Ht]. cbn [length Nat.add].
  rewrite (scan_inert_step _ s fn pre c (t ++ post) st Es Hc He Hr).
  destruct t as [|d t'].
  - cbn [length Nat.add]. unfold slen. cbn [length]. reflexivity.
  - replace (slen pre + 1) with (slen (pre ++ [c])) by (rewrite slen_app; reflexivity).
    rewrite (IH fuel (pre ++ [c]) post (after_inert s st (slen pre))); [| rewrite Es, <- app_assoc; reflexivity | exact Ht | discriminate | reflexivity | exact I].
    rewrite slen_app. unfold after_inert at 2. cbn [sc_run sc_ds sc_ms sc_start sc_code].
    replace (slen pre + slen [c] + slen (d :: t')) with (slen pre + slen (c :: d :: t')) by (unfold slen; cbn [length]; lia).
    reflexivity.
Qed.

(* a run of * or _ read from a state with no run open *)
Definition in_run (st : scan) (ch i0 : Z) : scan := mkScan (sc_ds st) (sc_ms st) false (Some ch) false i0 (sc_code st).

Lemma scan_run_step fuel s fn pre ch post st i0 : s = pre ++ ch :: post -> (ch = 42 \/ ch = 95) -> sc_escaped st = false ->
  (sc_run st = None /\ i0 = slen pre \/ sc_run st = Some ch /\ sc_start st = i0 /\ sc_in_image st = false) ->
  scan_loop (S fuel) s fn (slen pre) None st = scan_loop fuel s fn (slen pre + 1) None (in_run st ch i0).
Proof.
  intros Es Hch He Hrun. cbn [scan_loop].
  assert (Hi : slen pre <? slen s = true) by (apply Z.ltb_lt; rewrite Es, slen_app; unfold slen; cbn [length]; lia).
  assert (Ec : char_at s (slen pre) = ch) by (rewrite Es; apply char_at_mid).
  rewrite Hi. cbn [negb]. rewrite Ec, He. unfold in_run.
  destruct Hrun as [[Hn ->]|(Hs & Hst & Him)].
  - rewrite Hn. destruct Hch as [->| ->]; cbn [Z.eqb Pos.eqb andb orb negb]; reflexivity.
  - rewrite Hs, Hst, Him, Z.eqb_refl. cbn [negb orb]. destruct Hch as [->| ->]; cbn [Z.eqb Pos.eqb andb orb negb]; reflexivity.
Qed.

Lemma scan_run_seg s fn ch : (ch = 42 \/ ch = 95) -> forall k fuel pre post st, s = pre ++ repeat ch (S k) ++ post ->
  sc_escaped st = false -> sc_run st = None ->
  scan_loop (S k + fuel) s fn (slen pre) None st = scan_loop fuel s fn (slen pre + Z.of_nat (S k)) None (in_run st ch (slen pre)).
Proof.
  intros Hch.
  assert (G : forall k fuel pre post st i0, s = pre ++ repeat ch (S k) ++ post -> sc_escaped st = false ->
              (sc_run st = None /\ i0 = slen pre \/ sc_run st = Some ch /\ sc_start st = i0 /\ sc_in_image st = false) ->
              scan_loop (S k + fuel) s fn (slen pre) None st = scan_loop fuel s fn (slen pre + Z.of_nat (S k)) None (in_run st ch i0)).
  { induction k as [|k IH]; intros fuel pre post st i0 Es He Hrun.
    - cbn [repeat app] in Es. cbn [Nat.add]. rewrite (scan_run_step fuel s fn pre ch post st i0 Es Hch He Hrun). reflexivity.
    - change (repeat ch (S (S k))) with (ch :: repeat ch (S k)) in Es. cbn [app] in Es. cbn [Nat.add].
      rewrite (scan_run_step _ s fn pre ch (repeat ch (S k) ++ post) st i0 Es Hch He Hrun).
      replace (slen pre + 1) with (slen (pre ++ [ch])) by (rewrite slen_app; reflexivity).
      change (S (k + fuel)) with (S k + fuel)%nat.
      rewrite (IH fuel (pre ++ [ch]) post (in_run st ch i0) i0); [| rewrite Es, <- app_assoc; reflexivity | reflexivity | right; repeat split; reflexivity].
      rewrite slen_app. unfold in_run. cbn [sc_ds sc_ms sc_code]. f_equal. unfold slen. cbn [length]. lia. }
  intros k fuel pre post st Es He Hn. apply (G k fuel pre post st (slen pre) Es He). left. split; [exact Hn|reflexivity].
Qed.

(* the end of the text *)
Lemma scan_end fuel s fn st : scan_loop (S fuel) s fn (slen s) None st =
  match sc_run st with
  | Some _ => mkScan (sc_ds st ++ [new_delim (sc_start st) (slen s) s]) (sc_ms st) (sc_escaped st) (sc_run st) (sc_in_image st) (sc_start st) (sc_code st)
  | None => st
  end.
Proof. cbn [scan_loop]. rewrite Z.ltb_irrefl. reflexivity. Qed.

(* ---- process_emphasis on an opener and a closer of the same kind and length (1 or 2) ---- *)
Lemma emph_two (s : str) (ch b : Z) (ty : str) (K : Z) : (ch = 42 \/ ch = 95) -> (K = 1 \/ K = 2) ->
  process_emphasis s None [mkDelim (ch :: ty) K K true 0 K true true false; mkDelim (ch :: ty) K K true b (b + K) true false true] [] =
  ([], [mkMobj (K - K) (b + K) [(K - K + K, b + K - K, substr s (K - K + K) (b + K - K))] (if K =? 2 then $"Strong" else $"Emphasis") [char_at s (K - K)] [] None []]).
Proof.
  intros Hch HK. unfold process_emphasis.
  assert (Hf : exists f', (3 * length s + 3)%nat = S (S f')) by (exists (3 * length s + 1)%nat; lia). destruct Hf as [f' ->].
  destruct Hch as [->| ->]; destruct HK as [->| ->]; vm_compute; reflexivity.
Qed.

(* ---- the text R w R ---- *)
Definition alnum_like (c : Z) : bool := negb (is_uws c) && negb (is_punct c).

Section Emph.
  Variables (ch : Z) (k : nat) (w : str).
  Hypothesis Hch : ch = 42 \/ ch = 95.
  Hypothesis Hk : (k <= 1)%nat.                         (* the run has S k characters: 1 or 2 *)
  Hypothesis Hw : plain_text w = true.
  Hypothesis Hne : w <> [].
  Hypothesis Hfirst : alnum_like (hd 0 w) = true.
  Hypothesis Hlast : alnum_like (last w 0) = true.
  Let R := repeat ch (S k).
  Let s := R ++ w ++ R.
  Let K := Z.of_nat (S k).

  Lemma w_inert : forallb inert_char w = true.
  Proof.
    apply forallb_forall. intros x Hx. pose proof Hw as H. unfold plain_text in H. rewrite forallb_forall in H. specialize (H x Hx).
    apply negb_true_iff in H. unfold inert_char. apply negb_true_iff. unfold mem, triggers in *. cbn [existsb] in *.
    repeat (apply orb_false_iff in H; destruct H as [? H]).
    repeat match goal with X : (_ =? _) = false |- _ => rewrite X; clear X end. reflexivity.
  Qed.

  Lemma slen_s : slen s = K + slen w + K.
  Proof. unfold s, R, K. rewrite !slen_app, !slen_repeat. lia. Qed.

  Definition D1 : delim := new_delim 0 K s.
  Definition D2 : delim := new_delim (K + slen w) (slen s) s.

  Lemma scan_emph fn : scan_loop (S (S (length s))) s fn 0 None (mkScan [] [] false None false 0 []) =
                       mkScan [D1; D2] [] false (Some ch) false (K + slen w) [].
  Proof.
    assert (El : (S (S (length s)) = S k + (length w + (S k + 2)))%nat).
    { unfold s, R. rewrite !app_length, !repeat_length. lia. }
    rewrite El.
    rewrite (scan_run_seg s fn ch Hch k _ [] (w ++ R) (mkScan [] [] false None false 0 []) eq_refl eq_refl eq_refl).
    change (slen [] + Z.of_nat (S k)) with K. replace K with (slen R) at 1 by (unfold R; apply slen_repeat).
    rewrite (scan_inert_seg s fn w _ R R (in_run (mkScan [] [] false None false 0 []) ch (slen [])) eq_refl w_inert Hne eq_refl); [|cbn; exact Hch].
    replace (slen R + slen w) with (slen (R ++ w)) by (rewrite slen_app; reflexivity).
    unfold after_inert, in_run. cbn [sc_run sc_ds sc_ms sc_start sc_code app].
    rewrite (scan_run_seg s fn ch Hch k 2 (R ++ w) [] _); [|unfold s; rewrite app_nil_r, app_assoc; reflexivity|reflexivity|reflexivity].
    assert (Ee : slen (R ++ w) + Z.of_nat (S k) = slen s) by (rewrite slen_s, slen_app; unfold R, K; rewrite slen_repeat; lia).
    rewrite Ee. rewrite scan_end. unfold in_run. cbn [sc_run sc_ds sc_ms sc_start sc_code sc_escaped sc_in_image app].
    unfold D1, D2. rewrite slen_app. unfold R at 1 2 3. rewrite !slen_repeat. fold K. reflexivity.
  Qed.

  (* ---- the two delimiters: the first can only open, the second only close ---- *)
  Lemma s_first : char_at s K = hd 0 w.
  Proof.
    destruct w as [|c t] eqn:E; [contradiction|]. cbn [hd]. unfold s. replace K with (slen R) by (unfold R; apply slen_repeat).
    change ((c :: t) ++ R) with (c :: t ++ R). apply char_at_mid.
  Qed.

  Lemma s_last : char_at s (K + slen w - 1) = last w 0.
  Proof.
    destruct (exists_last Hne) as (t & c & E). rewrite E, last_last. unfold s. rewrite E, <- app_assoc. cbn [app].
    replace (K + slen (t ++ [c]) - 1) with (slen (R ++ t)) by (rewrite !slen_app; unfold R; rewrite slen_repeat; unfold slen; cbn [length]; fold K; lia).
    rewrite app_assoc. apply char_at_mid.
  Qed.

  Lemma s_0 : char_at s 0 = ch.
  Proof. unfold s, R. reflexivity. Qed.

  Lemma s_close : char_at s (K + slen w) = ch.
  Proof.
    unfold s. replace (K + slen w) with (slen (R ++ w)) by (rewrite slen_app; unfold R; rewrite slen_repeat; reflexivity).
    rewrite app_assoc. unfold R at 2. cbn [repeat]. apply char_at_mid.
  Qed.

  Lemma K_pos : 0 < K.  Proof. unfold K. lia. Qed.
  Lemma w_pos : 0 < slen w.  Proof. destruct w; [contradiction|]. unfold slen. cbn [length]. lia. Qed.

  Lemma D1_flags : d_open D1 = true /\ d_close D1 = false /\ d_emph D1 = true /\ d_type D1 = R /\ d_number D1 = K /\ d_orig D1 = K /\ d_start D1 = 0 /\ d_end D1 = K.
  Proof.
    pose proof K_pos as HK. pose proof w_pos as Hwp. pose proof slen_s as Hs.
    assert (Ty : substr s 0 K = R).
    { unfold substr, s. rewrite Z.sub_0_r. change (Z.to_nat 0) with 0%nat. change (skipn 0 (R ++ w ++ R)) with (R ++ w ++ R).
      unfold K. rewrite Nat2Z.id. unfold R at 1. apply firstn_repeat_app. }
    assert (Em : (ch =? 42) || (ch =? 95) = true) by (destruct Hch as [->| ->]; reflexivity).
    unfold D1, new_delim. rewrite Ty. change R with (ch :: repeat ch k). cbv iota. rewrite Em. cbn [andb].
    pose proof Hfirst as HF. unfold alnum_like in HF. apply andb_true_iff in HF as [F1 F2]. apply negb_true_iff in F1, F2.
    assert (L : is_left_delimiter 0 K s = true).
    { unfold is_left_delimiter, succeeded_by. assert (K <? slen s = true) as -> by (apply Z.ltb_lt; lia). rewrite s_first, F1, F2. reflexivity. }
    assert (Rt : is_right_delimiter 0 K s = false).
    { unfold is_right_delimiter, preceded_by. cbn [Z.ltb Z.compare]. reflexivity. }
    assert (Op : is_opener 0 K s = true) by (unfold is_opener; rewrite s_0, L, Rt; destruct (ch =? 42); reflexivity).
    assert (Cl : is_closer 0 K s = false) by (unfold is_closer; rewrite s_0, L, Rt; destruct (ch =? 42); reflexivity).
    cbn [d_open d_close d_emph d_type d_number d_orig d_start d_end]. rewrite Op, Cl. repeat split; try reflexivity; lia.
  Qed.

  Lemma D2_flags : d_open D2 = false /\ d_close D2 = true /\ d_emph D2 = true /\ d_type D2 = R /\ d_number D2 = K /\ d_orig D2 = K /\
                   d_start D2 = K + slen w /\ d_end D2 = slen s.
  Proof.
    pose proof K_pos as HK. pose proof w_pos as Hwp. pose proof slen_s as Hs.
    assert (Ty : substr s (K + slen w) (slen s) = R).
    { unfold substr. rewrite Hs. replace (K + slen w + K - (K + slen w)) with K by lia. unfold s.
      replace (Z.to_nat (K + slen w)) with (length (R ++ w)) by (rewrite app_length; unfold R, K, slen; rewrite repeat_length; lia).
      rewrite app_assoc, skipn_app, skipn_all, Nat.sub_diag. change (skipn 0 R) with R. cbn [app]. unfold K. rewrite Nat2Z.id. apply firstn_all2. unfold R. rewrite repeat_length. lia. }
    assert (Em : (ch =? 42) || (ch =? 95) = true) by (destruct Hch as [->| ->]; reflexivity).
    unfold D2, new_delim. rewrite Ty. change R with (ch :: repeat ch k). cbv iota. rewrite Em. cbn [andb].
    pose proof Hlast as HF. unfold alnum_like in HF. apply andb_true_iff in HF as [F1 F2]. apply negb_true_iff in F1, F2.
    assert (Rt : is_right_delimiter (K + slen w) (slen s) s = true).
    { unfold is_right_delimiter, preceded_by. assert (0 <? K + slen w = true) as -> by (apply Z.ltb_lt; lia). rewrite s_last, F1, F2. reflexivity. }
    assert (L : is_left_delimiter (K + slen w) (slen s) s = false).
    { unfold is_left_delimiter, succeeded_by. rewrite Z.ltb_irrefl. reflexivity. }
    assert (Op : is_opener (K + slen w) (slen s) s = false) by (unfold is_opener; rewrite s_close, L, Rt; destruct (ch =? 42); reflexivity).
    assert (Cl : is_closer (K + slen w) (slen s) s = true) by (unfold is_closer; rewrite s_close, L, Rt; destruct (ch =? 42); reflexivity).
    cbn [d_open d_close d_emph d_type d_number d_orig d_start d_end]. rewrite Op, Cl. repeat split; try reflexivity; lia.
  Qed.


  Lemma delim_eta d : d = mkDelim (d_type d) (d_number d) (d_orig d) (d_active d) (d_start d) (d_end d) (d_emph d) (d_open d) (d_close d).
  Proof. destruct d; reflexivity. Qed.

  Lemma D1_eq : D1 = mkDelim (ch :: repeat ch k) K K true 0 K true true false.
  Proof.
    pose proof D1_flags as (O1 & C1 & E1 & T1 & N1 & R1 & S1 & X1). rewrite (delim_eta D1). rewrite O1, C1, E1, T1, N1, R1, S1, X1. reflexivity.
  Qed.

  Lemma D2_eq : D2 = mkDelim (ch :: repeat ch k) K K true (K + slen w) (K + slen w + K) true false true.
  Proof.
    pose proof D2_flags as (O1 & C1 & E1 & T1 & N1 & R1 & S1 & X1). rewrite (delim_eta D2). rewrite O1, C1, E1, T1, N1, R1, S1, X1, slen_s. reflexivity.
  Qed.

  Definition the_match : mobj :=
    mkMobj 0 (slen s) [(K, slen s - K, w)] (if K =? 2 then $"Strong" else $"Emphasis") [ch] [] None [].

  Lemma K_cases : K = 1 \/ K = 2.
  Proof. unfold K. destruct k as [|[|k']]; [left; reflexivity|right; reflexivity|lia]. Qed.

  Lemma inner_text : substr s K (slen s - K) = w.
  Proof.
    rewrite slen_s. replace (K + slen w + K - K) with (K + slen w) by lia. unfold s. replace K with (slen R) by (unfold R; apply slen_repeat).
    apply substr_mid.
  Qed.

  Lemma emphasis_match : process_emphasis s None [D1; D2] [] = ([], [the_match]).
  Proof.
    rewrite D1_eq, D2_eq. rewrite (emph_two s ch (K + slen w) (repeat ch k) K Hch K_cases).
    unfold the_match. pose proof slen_s as Hs. pose proof inner_text as It.
    replace (K - K) with 0 by lia. replace (0 + K) with K by lia. replace (K + slen w + K) with (slen s) by lia.
    rewrite It, s_0. reflexivity.
  Qed.

  Lemma code_none : code_search s 0 = None.
  Proof.
    unfold code_search. apply (search_state_none _ _ 96); [vm_compute; reflexivity|]. unfold seek. cbn [aft]. unfold drop. cbn [Z.to_nat skipn].
    unfold s, mem. rewrite !existsb_app. fold (mem 96 R). fold (mem 96 w). rewrite (plain_no 96 w eq_refl Hw).
    unfold R. rewrite (mem_repeat 96 ch) by (destruct Hch as [->| ->]; discriminate). reflexivity.
  Qed.

  Theorem core_finds_the_match fn : find_core_tokens s fn = ([the_match], []).
  Proof. unfold find_core_tokens. rewrite code_none, scan_emph. cbn [sc_ds sc_ms sc_code]. rewrite emphasis_match. reflexivity. Qed.

  (* ---- the other finders find nothing; the candidates; the tokens ---- *)
  Definition triggers_e : list Z := [92; 91; 93; 33; 96; 126; 60; 10; 36; 38; 123; 124].
  Definition kind_quiet_e (kd : span_kind) : bool :=
    match kd with
    | SK_CoreTokens | SK_InlineCode | SK_RawText => true
    | _ => existsb (fun c => needs (fst (re_of kd)) c) triggers_e
    end.

  Lemma s_no c : mem c triggers_e = true -> mem c s = false.
  Proof.
    intros Hc. unfold s, mem. rewrite !existsb_app. fold (mem c R). fold (mem c w).
    assert (Hcw : mem c w = false).
    { apply plain_no; [|exact Hw]. unfold mem, triggers_e, triggers in *. cbn [existsb] in *.
      repeat (apply orb_true_iff in Hc; destruct Hc as [Hc|Hc]); try discriminate; rewrite Hc; cbn [orb]; rewrite ?orb_true_r; reflexivity. }
    rewrite Hcw. unfold R. rewrite (mem_repeat c ch); [reflexivity|].
    intros ->. destruct Hch as [->| ->]; vm_compute in Hc; discriminate.
  Qed.

  Lemma find_all_emph fn : forall types, forallb kind_quiet_e types = true ->
    find_all types s fn [] = flat_map (fun kd => match kd with SK_CoreTokens => [CCore the_match] | _ => [] end) types.
  Proof.
    induction types as [|kd ts IH]; intros Hq; [reflexivity|].
    cbn [forallb] in Hq. apply andb_true_iff in Hq as [Hkq Hts]. cbn [find_all flat_map].
    assert (F : match kd with SK_CoreTokens | SK_InlineCode | SK_RawText => True | _ => finditer (snd (re_of kd)) (fst (re_of kd)) s = [] end).
    { destruct kd; try exact I; cbn [kind_quiet_e] in Hkq; apply existsb_exists in Hkq as (c & Hin & Hn);
        (apply (finditer_none _ _ c s Hn); apply s_no; unfold mem; apply existsb_exists; exists c; split; [exact Hin|apply Z.eqb_refl]). }
    destruct kd; cbn [find_kind];
      try (rewrite core_finds_the_match; cbn [map app]; f_equal; apply IH; exact Hts);
      try (cbn [map app]; apply IH; exact Hts);
      (cbn [re_of fst snd] in F |- *; rewrite F; cbn [map app]; apply IH; exact Hts).
  Qed.

  Definition emph_tok : tok := if K =? 2 then Strong [ch] [RawText w] else Emphasis [ch] [RawText w].

  Theorem tokenize_inner_emph types fn : forallb kind_quiet_e (removelast types) = true ->
    filter (fun kd => match kd with SK_CoreTokens => true | _ => false end) (removelast types) = [SK_CoreTokens] ->
    tokenize_inner types fn s = [emph_tok].
  Proof.
    intros Hq Hc. unfold tokenize_inner. rewrite (find_all_emph fn _ Hq).
    assert (Es : flat_map (fun kd => match kd with SK_CoreTokens => [CCore the_match] | _ => [] end) (removelast types) = [CCore the_match]).
    { clear Hq. revert Hc. generalize (removelast types) as ts.
      assert (G : forall ts n, length (filter (fun kd => match kd with SK_CoreTokens => true | _ => false end) ts) = n ->
                flat_map (fun kd => match kd with SK_CoreTokens => [CCore the_match] | _ => [] end) ts = repeat (CCore the_match) n).
      { induction ts as [|kd ts IH]; intros n Hn; [cbn in Hn; subst n; reflexivity|]. cbn [flat_map filter] in *.
        destruct kd; try (cbn [app]; apply IH; exact Hn). destruct n as [|n]; [discriminate|]. cbn [length] in Hn. cbn [repeat app]. f_equal. apply IH. lia. }
      intros ts H. rewrite (G ts 1%nat) by (rewrite H; reflexivity). reflexivity. }
    rewrite Es. cbn [number_from map fst snd cand_of sk_parse_group field_span the_match m_fields nth_error m_start m_end sk_precedence sk_parse_inner].
    pose proof K_pos as HK. pose proof w_pos as Hwp. pose proof slen_s as Hs.
    unfold tokenize, SpanTokenizer.make_tokens, make_tokens_with.
    cbn [sort_cands fold_right insert_stable buffer_rev eval_loop last_end pc ce mk_rev cs make inner ps pe app rev].
    rewrite Z.eqb_refl. assert (0 >? 0 = false) as -> by reflexivity.
    unfold make_tokens_with. cbn [last_end mk_rev app rev].
    assert (K =? slen s - K = false) as -> by (apply Z.eqb_neq; lia).
    cbn [app rev map build_otok cid src_at Z.to_nat nth build_inner].
    rewrite inner_text, (unescape_plain w Hw). unfold emph_tok, the_match. cbn [m_type m_delimiter].
    destruct K_cases as [->| ->]; reflexivity.
  Qed.
End Emph.

(* ---- stated for use: the four spellings ---- *)
Definition emph_spans (types : list span_kind) : bool :=
  forallb kind_quiet_e (removelast types) &&
  match filter (fun kd => match kd with SK_CoreTokens => true | _ => false end) (removelast types) with [SK_CoreTokens] => true | _ => false end.

Definition emph_word (w : str) : bool :=
  plain_text w && (match w with [] => false | _ => true end) && alnum_like (hd 0 w) && alnum_like (last w 0).

Theorem simple_emphasis types fn o ch (double : bool) w :
  (ch = 42 \/ ch = 95) -> emph_word w = true -> emph_spans types = true ->
  let run := if double then [ch; ch] else [ch] in
  let tag := if double then $"strong" else $"em" in
  tokenize_inner types fn (run ++ w ++ run) = [if double then Strong [ch] [RawText w] else Emphasis [ch] [RawText w]] /\
  serialize (flat_map (render o false false) (tokenize_inner types fn (run ++ w ++ run))) =
    $"<" ++ tag ++ $">" ++ escape_html_text o w ++ $"</" ++ tag ++ $">".
Proof.
  intros Hch Hw Hs run tag. unfold emph_word in Hw. repeat rewrite andb_true_iff in Hw. destruct Hw as [[[Hp Hn] Hf] Hl].
  assert (Hne : w <> []) by (destruct w; [discriminate|discriminate]).
  unfold emph_spans in Hs. apply andb_true_iff in Hs as [Hq Hc].
  assert (Hc' : filter (fun kd => match kd with SK_CoreTokens => true | _ => false end) (removelast types) = [SK_CoreTokens]).
  { destruct (filter _ _) as [|[] [|? ?]]; try discriminate. reflexivity. }
  pose proof (tokenize_inner_emph ch (if double then 1%nat else 0%nat) w Hch ltac:(destruct double; lia) Hp Hne Hf Hl types fn Hq Hc') as T.
  assert (Er : repeat ch (S (if double then 1%nat else 0%nat)) = run) by (destruct double; reflexivity).
  rewrite Er in T. split.
  - rewrite T. unfold emph_tok. destruct double; reflexivity.
  - rewrite T. unfold emph_tok, tag. destruct double; cbn; rewrite ?app_nil_r; reflexivity.
Qed.

Lemma emph_configs :
  forallb (fun c => emph_spans (cfg_span c)) [cfg_html; cfg_html_nohtml; cfg_markdown; cfg_latex; cfg_mathjax; cfg_default] = true.
Proof. vm_compute. reflexivity. Qed.

Example emph_words : emph_word ($"really") = true /\ emph_word ($"two words, or 3") = true /\ emph_word ($"é") = true /\
                     emph_word ($" x") = false /\ emph_word ($"x.") = false /\ emph_word ($"a*b") = false.
Proof. vm_compute. repeat split; reflexivity. Qed.
