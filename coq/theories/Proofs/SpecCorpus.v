(* C02: the whole-pipeline model (regenerated patterns, tables and token
   configuration; block phase, inline phase, HTML renderer) evaluated by the
   kernel on the complete vendored CommonMark 0.30 corpus. *)
From Coq Require Import ZArith List Bool.
From Mistletoe Require Import Base.Sx Base.PyStr Model.HtmlRenderer Model.Parser Gen.GenCorpus.
Import ListNotations.
Local Open Scope Z_scope.

(* HtmlRenderer(html_escape_double_quotes=True) *)
Definition dq_opts : hopts := mkHopts true false.

Definition example_ok (e : Z * list Z * list Z) : bool :=
  match e with (_, md, html) => str_eqb (markdown_html dq_opts true md) html end.

Definition corpus : list (Z * list Z * list Z) := concat corpus_shards.

Lemma corpus_conforms : forallb example_ok corpus = true.
Proof. vm_compute. reflexivity. Qed.

Lemma corpus_complete : Z.of_nat (length corpus) = 652 /\ corpus_size = 652.
Proof. vm_compute. split; reflexivity. Qed.

Theorem every_example : forall n md html, In (n, md, html) corpus -> markdown_html dq_opts true md = html.
Proof.
  intros n md html Hin. pose proof corpus_conforms as H. rewrite forallb_forall in H.
  specialize (H _ Hin). cbn in H. now apply str_eqb_eq.
Qed.
