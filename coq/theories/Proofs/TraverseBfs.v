(* C12: utils.traverse yields every proper descendant exactly once, with its true
   parent and depth. *)
From Coq Require Import ZArith List Bool Lia.
From Mistletoe Require Import Model.Traverse.
Import ListNotations.

Lemma NoDup_app_intro {A} (a b : list A) :
  NoDup a -> NoDup b -> (forall x, In x a -> In x b -> False) -> NoDup (a ++ b).
Proof.
  induction a as [|x a IH]; intros Ha Hb Hd; cbn; [exact Hb|].
  inversion Ha; subst. constructor.
  - rewrite in_app_iff. intros [H|H]; [auto|]. apply (Hd x); [left; reflexivity|exact H].
  - apply IH; auto. intros y Hy1 Hy2. apply (Hd y); [right; exact Hy1|exact Hy2].
Qed.

Lemma number_spec {A} (l : list A) : forall i k x, In (k, x) (number i l) <-> (i <= k /\ nth_error l (k - i) = Some x).
Proof.
  induction l as [|y l IH]; intros i k x; cbn [number].
  - split; [intros []|]. intros [_ H]. destruct (k - i); discriminate.
  - cbn [In]. rewrite IH. split.
    + intros [E|[Hk H]].
      * inversion E; subst. split; [lia|]. now rewrite Nat.sub_diag.
      * split; [lia|]. replace (k - i) with (S (k - S i)) by lia. exact H.
    + intros [Hk H]. destruct (Nat.eq_dec k i) as [->|Hne].
      * rewrite Nat.sub_diag in H. cbn in H. inversion H. left. reflexivity.
      * right. split; [lia|]. replace (k - i) with (S (k - S i)) in H by lia. exact H.
Qed.

Lemma number_fst_NoDup {A} (l : list A) i : NoDup (map fst (number i l)).
Proof.
  revert i; induction l as [|y l IH]; intros i; cbn; constructor; auto.
  intros Hin. apply in_map_iff in Hin. destruct Hin as ((k, x) & E & H). cbn in E. subst k.
  apply number_spec in H. lia.
Qed.

(* the level-k frontier: exactly the valid paths of length k+1 *)
Definition valid_at (t : utree) (pt : path * utree) : Prop := subtree t (fst pt) = Some (snd pt).

Lemma expand_spec t p s q c :
  subtree t p = Some s -> (In (q, c) (expand (p, s)) <-> exists i, q = i :: p /\ nth_error (uchildren s) i = Some c).
Proof.
  intros Hs. unfold expand. cbn [fst snd]. rewrite in_map_iff. split.
  - intros ((i, x) & E & Hin). inversion E; subst. apply number_spec in Hin. destruct Hin as [_ H].
    rewrite Nat.sub_0_r in H. eauto.
  - intros (i & -> & H). exists (i, c). split; [reflexivity|]. apply number_spec. split; [lia|]. now rewrite Nat.sub_0_r.
Qed.

Fixpoint level (t : utree) (k : nat) : list (path * utree) :=
  match k with
  | O => expand ([], t)
  | S k' => flat_map expand (level t k')
  end.

Lemma level_spec t k : forall q c, In (q, c) (level t k) <-> (length q = S k /\ subtree t q = Some c).
Proof.
  induction k as [|k IH]; intros q c; cbn [level].
  - rewrite (expand_spec t [] t q c eq_refl). split.
    + intros (i & -> & H). split; [reflexivity|]. cbn. exact H.
    + intros [Hl Hs]. destruct q as [|i [|j q]]; cbn in Hl; try lia. exists i. split; [reflexivity|]. exact Hs.
  - rewrite in_flat_map. split.
    + intros ((p, s) & Hin & Hq). apply IH in Hin. destruct Hin as [Hl Hs].
      apply (expand_spec t p s q c Hs) in Hq. destruct Hq as (i & -> & H). split; [cbn; lia|]. cbn. now rewrite Hs.
    + intros [Hl Hs]. destruct q as [|i p]; [cbn in Hl; lia|]. cbn in Hs.
      destruct (subtree t p) as [s|] eqn:Ep; [|discriminate].
      exists (p, s). split; [apply IH; split; [cbn in Hl; lia|exact Ep]|].
      apply (expand_spec t p s (i :: p) c Ep). eauto.
Qed.

Lemma expand_NoDup pt : NoDup (map fst (expand pt)).
Proof.
  unfold expand. rewrite map_map. cbn [fst].
  assert (H : NoDup (map fst (number 0 (uchildren (snd pt))))) by apply number_fst_NoDup.
  induction (number 0 (uchildren (snd pt))) as [|(i, x) l IH]; cbn in *; [constructor|].
  inversion H; subst. constructor; auto.
  intros Hin. apply in_map_iff in Hin. destruct Hin as ((j, y) & E & Hj). cbn in E. inversion E; subst.
  apply H2. apply in_map_iff. exists (i, y). auto.
Qed.

Lemma level_NoDup t k : NoDup (map fst (level t k)).
Proof.
  induction k as [|k IH]; cbn [level]; [apply expand_NoDup|].
  induction (level t k) as [|(p, s) l IHl]; cbn [flat_map]; [constructor|].
  cbn [map fst] in IH. inversion IH as [|? ? Hnin Hnd]; subst.
  rewrite map_app. apply NoDup_app_intro.
  - apply expand_NoDup.
  - apply IHl. exact Hnd.
  - intros q Hq1 Hq2. apply in_map_iff in Hq1. destruct Hq1 as ((q1, c1) & E1 & H1). cbn in E1. subst q1.
    unfold expand in H1. apply in_map_iff in H1. destruct H1 as ((i, x) & E & _). inversion E; subst.
    apply in_map_iff in Hq2. destruct Hq2 as ((q2, c2) & E2 & H2). cbn in E2. subst q2.
    apply in_flat_map in H2. destruct H2 as ((p2, s2) & Hin2 & He). unfold expand in He.
    apply in_map_iff in He. destruct He as ((j, y) & E' & _). inversion E'; subst.
    apply Hnin. apply in_map_iff. exists (p, s2). auto.
Qed.

(* ---- heights bound path lengths ---- *)
Lemma child_height s c : In c (uchildren s) -> height c < height s.
Proof.
  destruct s as [l ch]. cbn [uchildren height]. induction ch as [|x ch IH]; intros H; [destruct H|].
  cbn [fold_right]. destruct H as [->|H]; [lia|]. specialize (IH H). lia.
Qed.

Lemma subtree_height t : forall q c, subtree t q = Some c -> length q + height c <= height t.
Proof.
  induction q as [|i p IH]; intros c H; cbn in H.
  - inversion H; subst. cbn. lia.
  - destruct (subtree t p) as [s|] eqn:E; [|discriminate]. specialize (IH s eq_refl).
    apply nth_error_In in H. apply child_height in H. cbn [length]. lia.
Qed.

Lemma height_pos c : 1 <= height c.
Proof. destruct c. cbn. lia. Qed.

Lemma level_empty_mono t i j : i <= j -> level t i = [] -> level t j = [].
Proof.
  induction 1 as [|j Hij IH]; intros H; [exact H|]. cbn [level]. now rewrite IH.
Qed.

(* ---- the loop ---- *)
Definition under_limit (limit : option nat) (d : nat) : bool := match limit with Some l => Nat.ltb d l | None => true end.

Lemma bfs_in t keep limit : forall fuel k q c d,
  In (q, c, d) (bfs fuel keep limit k (level t k)) <->
  exists j, k <= j /\ j < k + fuel /\ under_limit limit j = true /\ In (q, c) (level t j) /\ keep c = true /\ d = S j.
Proof.
  induction fuel as [|f IH]; intros k q c d; cbn [bfs].
  - split; [intros []|]. intros (j & H1 & H2 & _). lia.
  - destruct (level t k) as [|x l] eqn:El.
    + split; [intros []|]. intros (j & H1 & _ & _ & Hin & _).
      rewrite (level_empty_mono t k j H1 El) in Hin. destruct Hin.
    + rewrite <- El. fold (under_limit limit k). destruct (under_limit limit k) eqn:Eu.
      * rewrite in_app_iff. change (flat_map expand (level t k)) with (level t (S k)). rewrite IH. split.
        -- intros [H|(j & H1 & H2 & H3 & H4 & H5 & H6)].
           ++ apply in_map_iff in H. destruct H as ((q0, c0) & E & Hf). cbn in E. inversion E; subst.
              apply filter_In in Hf. destruct Hf as [Hin Hk]. exists k. repeat split; auto; lia.
           ++ exists j. repeat split; auto; lia.
        -- intros (j & H1 & H2 & H3 & H4 & H5 & H6). destruct (Nat.eq_dec j k) as [->|Hne].
           ++ left. apply in_map_iff. exists (q, c). split; [subst; reflexivity|]. apply filter_In. split; auto.
           ++ right. exists j. repeat split; auto; lia.
      * split; [intros []|]. intros (j & H1 & _ & H3 & _).
        unfold under_limit in *. destruct limit as [L|]; [|discriminate].
        apply Nat.ltb_lt in H3. apply Nat.ltb_ge in Eu. lia.
Qed.

(* what traverse yields: exactly the proper descendants that pass the filter (and the
   depth limit), each with depth = length of its path *)
Theorem traverse_spec t keep limit q c d :
  In (q, c, d) (traverse t keep limit false) <->
  q <> [] /\ subtree t q = Some c /\ keep c = true /\ d = length q /\
  match limit with Some L => length q <= L | None => True end.
Proof.
  unfold traverse. cbn [andb app]. change (expand ([], t)) with (level t 0). rewrite bfs_in. split.
  - intros (j & _ & _ & Hu & Hin & Hk & ->). apply level_spec in Hin. destruct Hin as [Hl Hs].
    repeat split; auto.
    + intro; subst; discriminate.
    + unfold under_limit in Hu. destruct limit as [L|]; [|exact I]. apply Nat.ltb_lt in Hu. lia.
  - intros (Hne & Hs & Hk & -> & Hl). destruct q as [|i p]; [congruence|].
    exists (length p). repeat split; auto; try lia.
    + pose proof (subtree_height t _ _ Hs) as Hh. pose proof (height_pos c). cbn [length] in Hh. lia.
    + unfold under_limit. destruct limit as [L|]; [|reflexivity]. apply Nat.ltb_lt. cbn [length] in Hl. lia.
    + apply level_spec. split; [reflexivity|exact Hs].
Qed.

(* ... each exactly once *)
Lemma NoDup_map_filter_fst (keep : utree -> bool) d (l : list (path * utree)) :
  NoDup (map fst l) ->
  NoDup (map (fun x : path * utree * nat => fst (fst x)) (map (fun pt => (fst pt, snd pt, d)) (filter (fun pt => keep (snd pt)) l))).
Proof.
  rewrite map_map. cbn [fst]. induction l as [|(q, c) l IH]; cbn; intros H; [constructor|].
  inversion H; subst. destruct (keep c); cbn; auto. constructor; auto.
  intros Hin. apply in_map_iff in Hin. destruct Hin as ((q2, c2) & E & Hf). cbn in E. subst q2.
  apply filter_In in Hf. destruct Hf as [Hf _]. apply H2. apply in_map_iff. exists (q, c2). auto.
Qed.

Lemma bfs_NoDup t keep limit : forall fuel k,
  NoDup (map (fun x : path * utree * nat => fst (fst x)) (bfs fuel keep limit k (level t k))).
Proof.
  induction fuel as [|f IH]; intros k; cbn [bfs]; [constructor|].
  destruct (level t k) as [|x l] eqn:El; [constructor|]. rewrite <- El.
  destruct (match limit with Some l0 => Nat.ltb k l0 | None => true end); [|constructor].
  rewrite map_app. change (flat_map expand (level t k)) with (level t (S k)). apply NoDup_app_intro.
  - apply NoDup_map_filter_fst. apply level_NoDup.
  - apply IH.
  - intros q H1 H2.
    apply in_map_iff in H1. destruct H1 as (((q1, c1), d1) & E1 & H1). cbn in E1. subst q1.
    apply in_map_iff in H1. destruct H1 as ((q1, c1') & E1 & Hf). inversion E1; subst.
    apply filter_In in Hf. destruct Hf as [Hin1 _]. apply level_spec in Hin1. destruct Hin1 as [Hl1 _].
    apply in_map_iff in H2. destruct H2 as (((q2, c2), d2) & E2 & H2). cbn in E2. subst q2.
    apply bfs_in in H2. destruct H2 as (j & Hj & _ & _ & Hin2 & _). apply level_spec in Hin2. destruct Hin2 as [Hl2 _]. lia.
Qed.

Theorem traverse_once t keep limit : NoDup (map (fun x : path * utree * nat => fst (fst x)) (traverse t keep limit false)).
Proof. unfold traverse. cbn [andb app]. change (expand ([], t)) with (level t 0). apply bfs_NoDup. Qed.

(* the parent that is yielded with a node is the token at the path without its head *)
Theorem parent_is_true_parent t i p c : subtree t (i :: p) = Some c ->
  exists s, subtree t p = Some s /\ nth_error (uchildren s) i = Some c.
Proof. cbn. destruct (subtree t p) as [s|]; [eauto|discriminate]. Qed.

Example traverse_example :
  let t := UT 0 [UT 1 [UT 3 []]; UT 2 []] in
  map (fun x => (fst (fst x), ulabel (snd (fst x)), snd x)) (traverse t (fun _ => true) None false)
  = [([0], 1%Z, 1); ([1], 2%Z, 1); ([0; 0], 3%Z, 2)].
Proof. reflexivity. Qed.
