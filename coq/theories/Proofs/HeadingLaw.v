(* ATX headings: Heading.start on "#...# title" evaluated through the regex engine - the
   opening run of hashes (greedy), one white-space character (lazy), the title (lazy, up to
   the newline: the closing-sequence alternative needs a '#', which the title does not
   hold), the newline. *)
From Coq Require Import ZArith List Bool Lia.
From Mistletoe Require Import Base.Sx Base.PyStr Base.PyText Gen.GenTables Gen.GenRegex Gen.GenConfig Re.ReMatch Model.Block
     Proofs.ReFirst Proofs.ReNeeds Proofs.ReExact Proofs.Prose Proofs.PlainProse Proofs.ListLaw Proofs.IndentLaw.
Import ListNotations.
Local Open Scope Z_scope.

Definition HCLOSE : re := Seq (Rep false 1 None SPC) (Seq (Rep true 1 None (Lit 35)) (Seq (Rep false 0 None SPC) Eol)).
Definition HTAIL : re := Alt (Lit 10) (Seq (Rep false 1 None SPC) (Seq (Grp 2 (Rep false 0 None Any)) (Grp 3 (Alt (Lit 10) HCLOSE)))).
Lemma heading_shape :
  re_block_token_Heading_pattern = Seq (Rep true 0 (Some 3%nat) (Lit 32)) (Seq (Grp 1 (Rep true 1 (Some 6%nat) (Lit 35))) HTAIL) /\
  fl_block_token_Heading_pattern = mkFlags false false.
Proof. split; reflexivity. Qed.

Section Lazy.
  Variable fl : flags.

  (* a lazy repetition of a class: the first count (from the minimum up) at which what follows succeeds *)
  Lemma lazy_run r mn mx k v rest : is_char_re r = true ->
    forall run s cnt fuel done,
      aft s = run ++ rest -> forallb (char_ok fl r) run = true ->
      (forall x, mx = Some x -> (cnt + length run <= x)%nat) ->
      (length run < length fuel)%nat ->
      (forall j, (j < length run)%nat -> (mn <= cnt + j)%nat -> k (adv_run s (firstn j run) (skipn j run ++ rest)) = None) ->
      (mn <= cnt + length run)%nat ->
      k (adv_run s run rest) = Some v ->
      done = tt ->
      loop (m fl r) false mn mx k fuel cnt s = Some v.
  Proof.
    intros Hr. induction run as [|c run IH]; intros s cnt fuel done Ha Hall Hmx Hf Hfail Hmn Hk _.
    - cbn [app] in Ha. assert (Es : adv_run s [] rest = s) by (rewrite <- Ha; apply adv_run_nil). rewrite Es in Hk.
      destruct fuel as [|x fuel]; [cbn [length] in Hf; lia|]. cbn [loop].
      assert (Nat.ltb cnt mn = false) as -> by (apply Nat.ltb_ge; cbn [length] in Hmn; lia). rewrite Hk. reflexivity.
    - cbn [app] in Ha. cbn [forallb] in Hall. apply andb_true_iff in Hall as [Hc Hall].
      destruct fuel as [|x fuel]; [cbn [length] in Hf; lia|]. cbn [loop].
      assert (Eu : under mx cnt = true).
      { unfold under. destruct mx as [xm|]; [|reflexivity]. apply Nat.ltb_lt. specialize (Hmx xm eq_refl). cbn [length] in Hmx. lia. }
      rewrite Eu. rewrite (m_char fl r s c (run ++ rest) _ Hr Ha), Hc.
      assert (Step : (if Nat.leb mn cnt && (pos (advance s c (run ++ rest)) =? pos s) then None
                      else loop (m fl r) false mn mx k fuel (S cnt) (advance s c (run ++ rest))) = Some v).
      { replace (pos (advance s c (run ++ rest)) =? pos s) with false by (symmetry; apply Z.eqb_neq; cbn [advance pos]; lia).
        rewrite andb_false_r.
        apply (IH (advance s c (run ++ rest)) (S cnt) fuel tt eq_refl Hall).
        - intros y Hy. specialize (Hmx y Hy). cbn [length] in Hmx. lia.
        - cbn [length] in Hf. lia.
        - intros j Hj Hm. specialize (Hfail (S j) ltac:(cbn [length]; lia) ltac:(lia)). cbn [firstn skipn] in Hfail.
          rewrite <- adv_run_cons in Hfail.
          replace (firstn j run ++ skipn j run ++ rest) with (run ++ rest) in Hfail by (rewrite app_assoc, firstn_skipn; reflexivity). exact Hfail.
        - cbn [length] in Hmn. lia.
        - rewrite adv_run_cons. exact Hk.
        - reflexivity. }
      destruct (Nat.ltb cnt mn) eqn:El; [exact Step|].
      assert (K0 : k s = None).
      { apply Nat.ltb_ge in El. specialize (Hfail 0%nat ltac:(cbn [length]; lia) ltac:(lia)). cbn [firstn skipn app] in Hfail. rewrite <- Ha, adv_run_nil in Hfail. exact Hfail. }
      rewrite K0. cbn [orelse]. exact Step.
  Qed.

  Corollary m_lazy r mn mx s k v run rest : is_char_re r = true ->
    aft s = run ++ rest -> forallb (char_ok fl r) run = true ->
    (forall x, mx = Some x -> (length run <= x)%nat) ->
    (forall j, (j < length run)%nat -> (mn <= j)%nat -> k (adv_run s (firstn j run) (skipn j run ++ rest)) = None) ->
    (mn <= length run)%nat ->
    k (adv_run s run rest) = Some v ->
    m fl (Rep false mn mx r) s k = Some v.
  Proof.
    intros Hr Ha Hall Hmx Hfail Hmn Hk. cbn [m].
    apply (lazy_run r mn mx k v rest Hr run s 0%nat _ tt Ha Hall); try assumption; try reflexivity.
    - rewrite app_length, repeat_length. cbn [length]. rewrite Ha, app_length. lia.
  Qed.
End Lazy.

Lemma hclose_needs_hash : needs HCLOSE 35 = true.
Proof. reflexivity. Qed.

Lemma rstrip_nonspace s : s <> [] -> is_space_c (last s 0) = false -> rstrip s = s.
Proof.
  intros Hne Hl. unfold rstrip, rstrip_by. destruct (rev s) as [|x r] eqn:E.
  - apply (f_equal (@rev Z)) in E. rewrite rev_involutive in E. cbn in E. contradiction.
  - assert (x = last s 0).
    { apply (f_equal (@rev Z)) in E. rewrite rev_involutive in E. rewrite E. cbn [rev]. rewrite last_last. reflexivity. }
    subst x. cbn [lstrip_by]. rewrite Hl. rewrite <- E. apply rev_involutive.
Qed.

Lemma strip_solid c t : is_space_c c = false -> is_space_c (last (c :: t) 0) = false -> strip (c :: t) = c :: t.
Proof.
  intros Hc Hl. unfold strip, strip_by. fold (lstrip (c :: t)). unfold lstrip. cbn [lstrip_by]. rewrite Hc.
  fold (rstrip (c :: t)). apply rstrip_nonspace; [discriminate|exact Hl].
Qed.

Definition hline (lv : nat) (title : str) : str := repeat 35 lv ++ 32 :: title ++ [10].

Theorem heading_start_line lv c body :
  (1 <= lv <= 6)%nat -> mem 10 (c :: body) = false -> mem 35 (c :: body) = false ->
  is_space_c c = false -> is_space_c (last (c :: body) 0) = false ->
  heading_start (hline lv (c :: body)) = Some (Z.of_nat lv, c :: body, []).
Proof.
  intros Hlv H10 H35 Hc Hl. destruct heading_shape as [Sh Fl]. set (title := c :: body) in *.
  set (line := hline lv title).
  unfold heading_start, rmatch, match_here, start_at. fold line. rewrite Sh, Fl. cbn [bef aft pos length Z.of_nat].
  set (fl := mkFlags false false). set (s0 := mkMst [] line 0 []).
  set (rest1 := 32 :: title ++ [10]).
  assert (T10 : forall x, In x title -> (x =? 10) = false).
  { intros x Hx. destruct (x =? 10) eqn:E; [|reflexivity]. apply Z.eqb_eq in E. subst x.
    assert (mem 10 title = true) by (unfold mem; apply existsb_exists; exists 10; split; [exact Hx|reflexivity]). congruence. }
  assert (M : exists res, m fl (Seq (Rep true 0 (Some 3%nat) (Lit 32)) (Seq (Grp 1 (Rep true 1 (Some 6%nat) (Lit 35))) HTAIL)) s0 (fun s' => Some s') = Some res /\
                          bef res = rev line /\ pos res = slen line /\
                          lookup_grp 1 (grp res) = Some (0, Z.of_nat lv) /\
                          lookup_grp 2 (grp res) = Some (Z.of_nat lv + 1, Z.of_nat lv + 1 + slen title) /\
                          lookup_grp 3 (grp res) = Some (Z.of_nat lv + 1 + slen title, Z.of_nat lv + 1 + slen title + 1)).
  { eexists. split.
    - rewrite m_seq.
      eapply (m_greedy fl (Lit 32) 0 (Some 3%nat) s0 _ _ [] line); [reflexivity| |reflexivity|reflexivity|cbn [length]; lia|intros x Hx; cbn [length]; lia|].
      + unfold line, hline. destruct lv as [|lv']; [lia|]. reflexivity.
      + change (adv_run s0 [] line) with s0. rewrite m_seq, m_grp.
        eapply (m_greedy fl (Lit 35) 1 (Some 6%nat) s0 _ _ (repeat 35 lv) rest1); [reflexivity|reflexivity|reflexivity|apply forallb_repeat; reflexivity|rewrite repeat_length; lia|intros x Hx; injection Hx as <-; rewrite repeat_length; lia|].
        set (s1 := set_grp 1 (pos s0) (pos (adv_run s0 (repeat 35 lv) rest1)) (adv_run s0 (repeat 35 lv) rest1)).
        unfold HTAIL. rewrite m_alt.
        rewrite (m_char fl (Lit 10) s1 32 (title ++ [10]) _ eq_refl eq_refl). cbn [char_ok Z.eqb Pos.eqb orelse].
        rewrite m_seq.
        eapply (m_lazy fl SPC 1 None s1 _ _ [32] (title ++ [10])); [reflexivity|reflexivity|reflexivity|discriminate| |cbn [length]; lia|].
        * intros j Hj Hm. cbn [length] in Hj. lia.
        * set (s2 := adv_run s1 [32] (title ++ [10])). rewrite m_seq, m_grp.
          eapply (m_lazy fl Any 0 None s2 _ _ title [10]); [reflexivity|reflexivity| |discriminate| |lia|].
          -- apply forallb_forall. intros x Hx. cbn [char_ok dotall fl orb]. rewrite (T10 x Hx). reflexivity.
          -- intros j Hj _. rewrite m_grp, m_alt.
             assert (Hs : exists d r, skipn j title = d :: r /\ In d title).
             { destruct (skipn j title) as [|d r] eqn:Es.
               - exfalso. assert (length (skipn j title) = (length title - j)%nat) by apply skipn_length. rewrite Es in H. cbn [length] in H. lia.
               - exists d, r. split; [reflexivity|]. apply (in_skipn d j). rewrite Es. left. reflexivity. }
             destruct Hs as (d & r & Es & Hd). rewrite Es. cbn [app].
             erewrite (m_char fl (Lit 10) _ d (r ++ [10]) _ eq_refl); [|reflexivity]. cbn [char_ok]. rewrite (T10 d Hd). cbn [orelse].
             apply (needs_sound fl HCLOSE 35 hclose_needs_hash). cbn [set_grp adv_run aft].
             unfold mem. change (d :: r ++ [10]) with ((d :: r) ++ [10]). rewrite existsb_app. change (existsb (Z.eqb 35) [10]) with false. rewrite orb_false_r.
             assert (Hsub : forall x, In x (d :: r) -> In x title) by (intros x Hx; apply (in_skipn x j); rewrite Es; exact Hx).
             apply not_true_iff_false. intros E. apply existsb_exists in E as (x & Hx & Ex). apply Z.eqb_eq in Ex. subst x.
             assert (mem 35 title = true) by (unfold mem; apply existsb_exists; exists 35; split; [apply Hsub; exact Hx|reflexivity]). congruence.
          -- set (s3 := adv_run s2 title [10]). rewrite m_grp, m_alt.
             rewrite (m_char fl (Lit 10) (set_grp 2 (pos s2) (pos s3) s3) 10 [] _ eq_refl eq_refl). cbn [char_ok Z.eqb Pos.eqb orelse]. reflexivity.
    - cbn [set_grp advance adv_run bef aft pos grp lookup_grp Nat.eqb]. subst s0. cbn [bef pos].
      unfold line, hline. rewrite !slen_repeat. split; [|split; [|split; [|split]]].
      + rewrite !rev_app_distr. cbn [rev app]. rewrite !rev_app_distr. cbn [rev app]. rewrite <- !app_assoc. cbn [app]. rewrite ?app_nil_r. reflexivity.
      + rewrite slen_app, slen_repeat. unfold slen. cbn [length]. rewrite app_length. cbn [length]. lia.
      + reflexivity.
      + try reflexivity; repeat f_equal; unfold slen; cbn [length]; try lia.
      + try reflexivity; repeat f_equal; unfold slen; cbn [length]; try lia. }
  destruct M as (res & Hm & Hbef & Hpos & G1 & G2 & G3). rewrite Hm.
  unfold gtxt, group_text. rewrite G1, G2, G3.
  assert (SL : slen line = Z.of_nat lv + 1 + slen title + 1).
  { unfold line, hline. rewrite slen_app, slen_repeat. unfold slen. cbn [length]. rewrite app_length. cbn [length]. lia. }
  assert (T0 : 0 <= slen title) by (unfold slen; lia).
  assert (S1 : segment res 0 (Z.of_nat lv) = repeat 35 lv).
  { rewrite (segment_known res line) by (try assumption; lia). rewrite Z.sub_0_r, Nat2Z.id. cbn [Z.to_nat skipn]. unfold line, hline. apply firstn_repeat_app. }
  assert (S2 : segment res (Z.of_nat lv + 1) (Z.of_nat lv + 1 + slen title) = title).
  { rewrite (segment_known res line) by (try assumption; lia).
    replace (Z.of_nat lv + 1 + slen title - (Z.of_nat lv + 1)) with (slen title) by lia.
    replace (Z.to_nat (Z.of_nat lv + 1)) with (lv + 1)%nat by lia. unfold line, hline.
    change (repeat 35 lv ++ 32 :: title ++ [10]) with (repeat 35 lv ++ [32] ++ title ++ [10]). rewrite app_assoc.
    rewrite skipn_app. rewrite skipn_all2 by (rewrite app_length, repeat_length; cbn [length]; lia).
    rewrite app_length, repeat_length. cbn [length app]. replace (lv + 1 - (lv + 1))%nat with 0%nat by lia. cbn [skipn].
    unfold slen. rewrite Nat2Z.id. rewrite firstn_app, firstn_all, Nat.sub_diag. cbn [firstn]. apply app_nil_r. }
  assert (S3 : segment res (Z.of_nat lv + 1 + slen title) (Z.of_nat lv + 1 + slen title + 1) = [10]).
  { rewrite (segment_known res line) by (try assumption; lia).
    replace (Z.of_nat lv + 1 + slen title + 1 - (Z.of_nat lv + 1 + slen title)) with 1 by lia.
    replace (Z.to_nat (Z.of_nat lv + 1 + slen title)) with (lv + 1 + length title)%nat by (unfold slen; lia). unfold line, hline.
    change (repeat 35 lv ++ 32 :: title ++ [10]) with (repeat 35 lv ++ [32] ++ title ++ [10]). rewrite !app_assoc.
    rewrite skipn_app. rewrite skipn_all2 by (rewrite !app_length, repeat_length; cbn [length]; lia).
    rewrite !app_length, repeat_length. cbn [length app]. replace (lv + 1 + length title - (lv + 1 + length title))%nat with 0%nat by lia. reflexivity. }
  rewrite S1, S2, S3. rewrite slen_repeat. unfold title. rewrite (strip_solid c body Hc Hl).
  assert (E35 : (35 =? c) = false) by (unfold mem in H35; cbn [existsb] in H35; apply orb_false_iff in H35; tauto).
  cbn [forallb]. rewrite E35. cbn [andb]. reflexivity.
Qed.

(* ---- the dispatch: which kinds may be tried before Heading ---- *)
Fixpoint heading_first (ts : list block_kind) : bool :=
  match ts with
  | BK_Heading :: _ => true
  | BK_HtmlBlock :: r | BK_BlockCode :: r | BK_Footnote :: r | BK_LinkReferenceDefinitionBlock :: r | BK_BlankLine :: r => heading_first r
  | _ => false
  end.

Lemma hash_facts :
  nomatch fl_markdown_renderer_BlankLine_pattern re_markdown_renderer_BlankLine_pattern 35 &&
  nomatch fl_block_token_HtmlBlock_multiblock re_block_token_HtmlBlock_multiblock 35 &&
  nomatch fl_block_token_HtmlBlock_predefined re_block_token_HtmlBlock_predefined 35 &&
  nomatch fl_block_token_HtmlBlock_custom_tag re_block_token_HtmlBlock_custom_tag 35 &&
  nomatch fl_block_token_ListItem_pattern re_block_token_ListItem_pattern 35 = true.
Proof. vm_compute. reflexivity. Qed.

Definition head_ok (lv : nat) (c : Z) (body : str) : Prop :=
  (1 <= lv <= 6)%nat /\ mem 10 (c :: body) = false /\ mem 35 (c :: body) = false /\ is_space_c c = false /\ is_space_c (last (c :: body) 0) = false.

Lemma hline_hash lv title : (1 <= lv)%nat -> hline lv title = 35 :: repeat 35 (lv - 1) ++ 32 :: title ++ [10].
Proof. intros H. unfold hline. destruct lv as [|k]; [lia|]. cbn [repeat app]. replace (S k - 1)%nat with k by lia. reflexivity. Qed.

Section HeadTry.
  Variable types : list block_kind.
  Variable rec : list str -> Z -> pstate -> list pre * bool * pstate.

  Lemma start_read_hash k t rest ln st :
    match k with BK_HtmlBlock | BK_BlockCode | BK_Footnote | BK_LinkReferenceDefinitionBlock | BK_BlankLine => True | _ => False end ->
    start_read types rec k ((35 :: t) :: rest) ln st = None.
  Proof.
    intros Hk. pose proof hash_facts as F. repeat rewrite andb_true_iff in F. destruct F as [[[[F1 F2] F3] F4] _].
    assert (L : lstrip (35 :: t) = 35 :: t) by reflexivity.
    destruct k; try contradiction; cbn [start_read].
    - unfold blockcode_start, tabs_to_spaces_once. cbn [replace_first startswith Z.eqb Pos.eqb andb]. reflexivity.
    - unfold footnote_start. rewrite L. reflexivity.
    - unfold htmlblock_start. rewrite L. rewrite Z.sub_diag. cbn [Z.leb Z.compare].
      rewrite rmatch_first by exact F2. cbn [s2l startswith Z.eqb Pos.eqb andb]. rewrite !rmatch_first by assumption. reflexivity.
    - unfold blankline_start. rewrite rmatch_first by exact F1. reflexivity.
    - unfold footnote_start. rewrite L. reflexivity.
  Qed.

  Lemma try_types_heading lv c body rest ln st : head_ok lv c body -> forall ts, heading_first ts = true ->
    try_types types rec ts (hline lv (c :: body) :: rest) ln st = Some (PHeading ln (Z.of_nat lv) (c :: body) [], 1%nat, st).
  Proof.
    intros (Hlv & H10 & H35 & Hc & Hl). pose proof (heading_start_line lv c body Hlv H10 H35 Hc Hl) as HS.
    induction ts as [|k ts IH]; intros Hf; [discriminate|]. cbn [try_types].
    destruct k; cbn [heading_first] in Hf; try discriminate;
      try (rewrite (hline_hash lv (c :: body)) by lia; rewrite start_read_hash by exact I; rewrite <- (hline_hash lv (c :: body)) by lia; apply IH; exact Hf).
    cbn [start_read]. rewrite HS. reflexivity.
  Qed.
End HeadTry.

(* the heading line as a structured line, and what the list readers make of it *)
Lemma hline_sline lv c body : (1 <= lv)%nat -> hline lv (c :: body) = render_line (SLine 0 35 (repeat 35 (lv - 1) ++ 32 :: c :: body)).
Proof. intros H. rewrite hline_hash by exact H. cbn [render_line]. unfold line_of. cbn [repeat app]. rewrite <- app_assoc. reflexivity. Qed.
