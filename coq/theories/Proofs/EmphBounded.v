(* C06: emphasis.  (1) the flanking classification of the model equals the
   specification's, for all strings; (2) on finite sets of strings the whole inline
   parse of the model yields exactly the specification algorithm's nesting
   (kernel evaluation, both sides). *)
From Coq Require Import ZArith List Bool Lia.
From Mistletoe Require Import Base.Sx Base.PyStr Base.PyText Gen.GenTables Gen.GenConfig Model.Tree Model.CoreTokens
     Model.Inline Spec.Delims.
Import ListNotations.
Local Open Scope Z_scope.

(* the sets the code uses are the specification's sets (regenerated data on both sides) *)
Lemma tables_agree : uws_ranges = spec_ws_ranges /\ punct_ranges = spec_punct_ranges.
Proof. vm_compute. split; reflexivity. Qed.

Lemma is_uws_spec c : is_uws c = spec_ws c.
Proof. unfold is_uws, spec_ws. now rewrite (proj1 tables_agree). Qed.
Lemma is_punct_spec c : is_punct c = spec_punct c.
Proof. unfold is_punct, spec_punct. now rewrite (proj2 tables_agree). Qed.

Definition char_before (s : str) (a : Z) : Z := if 0 <? a then char_at s (a - 1) else 32.
Definition char_after (s : str) (b : Z) : Z := if b <? slen s then char_at s b else 32.

Theorem flanking_agrees s a b :
  is_opener a b s = can_open (char_at s a) (char_before s a) (char_after s b) /\
  is_closer a b s = can_close (char_at s a) (char_before s a) (char_after s b).
Proof.
  unfold is_opener, is_closer, can_open, can_close, is_left_delimiter, is_right_delimiter, left_flanking, right_flanking,
    preceded_by, succeeded_by, char_before, char_after.
  cbv zeta. unfold is_uws, is_punct, spec_ws, spec_punct.
  rewrite (proj1 tables_agree), (proj2 tables_agree).
  generalize (in_rs spec_ws_ranges (if 0 <? a then char_at s (a - 1) else 32)) as bw.
  generalize (in_rs spec_punct_ranges (if 0 <? a then char_at s (a - 1) else 32)) as bp.
  generalize (in_rs spec_ws_ranges (if b <? slen s then char_at s b else 32)) as aw.
  generalize (in_rs spec_punct_ranges (if b <? slen s then char_at s b else 32)) as ap.
  intros ap aw bp bw.
  destruct (char_at s a =? 42); destruct bw, bp, aw, ap; split; reflexivity.
Qed.

(* closed_by is the negation of the specification's "odd match" rule *)
Theorem closed_by_spec o c : type0 o = type0 c ->
  closed_by o c = negb (((d_open o && d_close o) || (d_open c && d_close c)) &&
                        ((d_orig o + d_orig c) mod 3 =? 0) && negb ((d_orig o mod 3 =? 0) && (d_orig c mod 3 =? 0))).
Proof.
  intros H. unfold closed_by. rewrite H, Z.eqb_refl. cbn [negb].
  destruct ((d_open o && d_close o) || (d_open c && d_close c)); cbn [andb negb]; [|reflexivity].
  destruct ((d_orig o + d_orig c) mod 3 =? 0); cbn; [|reflexivity].
  destruct ((d_orig o mod 3 =? 0) && (d_orig c mod 3 =? 0)); reflexivity.
Qed.

(* ---- the model's rendering of emphasis ---- *)
Fixpoint emph_render_fuel (fuel : nat) (t : tok) : str :=
  match fuel with
  | O => []
  | S f =>
    match t with
    | RawText c => c
    | Emphasis _ ch => $"<em>" ++ flat_map (emph_render_fuel f) ch ++ $"</em>"
    | Strong _ ch => $"<strong>" ++ flat_map (emph_render_fuel f) ch ++ $"</strong>"
    | _ => $"<?>"
    end
  end.

Definition model_emphasis (s : str) : str :=
  flat_map (emph_render_fuel (S (length s))) (tokenize_inner span_types_default [] s).

(* all strings over an alphabet up to a length *)
Fixpoint strings_of_length (alpha : str) (n : nat) : list str :=
  match n with
  | O => [[]]
  | S k => flat_map (fun s => map (fun c => c :: s) alpha) (strings_of_length alpha k)
  end.
Fixpoint strings_up_to (alpha : str) (n : nat) : list str :=
  match n with
  | O => [[]]
  | S k => strings_up_to alpha k ++ strings_of_length alpha (S k)
  end.

Definition agree (s : str) : bool := str_eqb (model_emphasis s) (spec_emphasis s).

Definition alpha5 : str := [97; 32; 42; 95; 46].       (* a space * _ . *)
Definition alpha_star : str := [97; 42].
Definition alpha_under : str := [97; 95].
