(* Model of the inline phase: block_tokenizer.make_tokens and the constructors of
   block_token.py / markdown_renderer.py, turning pre-tokens into the token tree.
   `fn` is the COMPLETE footnote map of the document (the block phase is over). *)
From Coq Require Import ZArith List Bool.
From Mistletoe Require Import Base.Sx Base.PyStr Base.PyText Gen.GenTables Re.ReMatch Gen.GenRegex Gen.GenConfig
     Model.Tree Model.CoreTokens Model.Unescape Model.Inline Model.Block.
Import ListNotations.
Local Open Scope Z_scope.

(* pattern.split(s) for a pattern without groups *)
Fixpoint split_matches (text : str) (cur : Z) (ms : list (mst * mst)) : list str :=
  match ms with
  | [] => [drop cur text]
  | (s0, s1) :: r => substr text cur (pos s0) :: split_matches text (pos s1) r
  end.
Definition re_split (r : re) (fl : flags) (s : str) : list str := split_matches s 0 (finditer fl r s).
Definition re_findall (r : re) (fl : flags) (s : str) : list str :=
  map (fun p => whole_text (fst p) (snd p)) (finditer fl r s).

Definition parse_align (column : str) : option Z :=
  if last_char column =? 58 then Some (if char_at column 0 =? 58 then 0 else 1) else None.

Fixpoint zip_longest (cells : list str) (aligns : list (option Z)) : list (option str * option Z) :=
  match cells with
  | [] => map (fun a => (None, a)) aligns
  | c :: cs => match aligns with
               | [] => (Some c, None) :: zip_longest cs []
               | a :: al => (Some c, a) :: zip_longest cs al
               end
  end.

Definition unescape_pipes (cell : str) : str :=
  sub_matches cell 0 (finditer fl_block_token_TableRow_escaped_pipe_pattern re_block_token_TableRow_escaped_pipe_pattern cell)
              (fun m => (match group_text m 1 with Some g => g | None => [] end) ++ [124]).

Definition nonempty_str (s : str) : bool := match s with [] => false | _ => true end.

Section Build.
  Variable span_types : list span_kind.
  Variable keep_definitions : bool.      (* LinkReferenceDefinitionBlock (Markdown renderer) instead of Footnote *)
  Variable fn : footnotes.

  Definition inline (content : str) : list tok := tokenize_inner span_types fn content.

  (* TableRow(line, row_align, line_number) *)
  Definition table_row (line : str) (row_align : list (option Z)) : tok :=
    let ra := match row_align with [] => [None] | _ => row_align end in
    let cells := filter nonempty_str (re_split re_block_token_TableRow_split_pattern fl_block_token_TableRow_split_pattern (strip line)) in
    TableRow ra (map (fun p => TableCell (snd p) (inline (match fst p with
                                                           | Some cell => unescape_pipes (strip cell)
                                                           | None => []
                                                           end)))
                     (zip_longest cells ra)).

  (* Table(match) *)
  Definition build_table (lines : list str) : tok :=
    match lines with
    | l0 :: l1 :: rows =>
      if mem 45 l1 then
        let ca := map parse_align (re_findall re_block_token_Table_column_align_pattern fl_block_token_Table_column_align_pattern l1) in
        Table ca (Some (table_row l0 ca)) (map (fun l => table_row l ca) rows)
      else Table [None] None (map (fun l => table_row l []) lines)
    | _ => Table [None] None (map (fun l => table_row l []) lines)
    end.

  (* token_type(result) for one parse-buffer entry; None = no token (Footnote) *)
  Fixpoint build (p : pre) : option tok :=
    let kids := fun (es : list pre) => flat_map (fun e => match build e with Some t => [t] | None => [] end) es in
    match p with
    | PBlockCode _ lines => Some (BlockCode (strip_set [10] (concat lines) ++ [10]))
    | PHeading _ level content closing => Some (Heading level closing (inline content))
    | PQuote _ es => Some (Quote (kids es))
    | PCodeFence _ lines indent leader info lang =>
      Some (CodeFence (mkFence indent leader info (escape_strip_std lang) (concat lines)))
    | PThematic _ lines => Some (ThematicBreak (strip_set [10] (match lines with l :: _ => l | [] => [] end)))
    | PList _ items =>
      let children := kids items in
      let loose := existsb (fun t => match t with ListItem a _ => i_loose a | _ => false end) children in
      let leader := match children with ListItem a _ :: _ => i_leader a | _ => [] end in
      Some (List (if slen leader =? 1 then None else Some (int_of_digits (removelast leader))) loose children)
    | PItem _ es loose indentation prepend leader => Some (ListItem (mkItem leader indentation prepend loose) (kids es))
    | PTable _ lines => Some (build_table lines)
    | PFootnote _ defs =>
      if keep_definitions then
        Some (LinkRefDefBlock (map (fun d => match d with (l, d_, t, dt, td) => LinkRefDef (mkLrd l d_ t dt td) end) defs))
      else None
    | PParagraph _ lines => Some (Paragraph (inline (strip (concat (map lstrip lines)))))
    | PSetext _ lines =>
      let underline := rstrip (last lines []) in
      Some (SetextHeading (if endswith [61] underline then 1 else 2) underline
                          (inline (strip (concat (map lstrip (removelast lines))))))
    | PHtmlBlock _ lines => Some (HtmlBlock (rstrip_set [10] (concat lines)))
    | PBlankLine _ => Some BlankLine
    end.

  Definition make_tokens (es : list pre) : list tok :=
    flat_map (fun e => match build e with Some t => [t] | None => [] end) es.
End Build.

(* line numbers of the block tokens, in pre-order (a table: the table, its header
   row and cells, then each body row and its cells) *)
Definition row_cell_count (line : str) (row_align : list (option Z)) : nat :=
  let ra := match row_align with [] => [None] | _ => row_align end in
  let cells := filter nonempty_str (re_split re_block_token_TableRow_split_pattern fl_block_token_TableRow_split_pattern (strip line)) in
  Nat.max (length cells) (length ra).

Fixpoint number_lines (ln : Z) (ca : list (option Z)) (rows : list str) : list Z :=
  match rows with
  | [] => []
  | r :: rest => (ln :: repeat ln (row_cell_count r ca)) ++ number_lines (ln + 1) ca rest
  end.

Section Lnums.
  Variable keep_definitions : bool.
  Fixpoint lnums (p : pre) : list Z :=
    let all := flat_map lnums in
    match p with
    | PBlockCode ln _ | PHeading ln _ _ _ | PCodeFence ln _ _ _ _ _ | PThematic ln _ | PParagraph ln _ | PSetext ln _
    | PHtmlBlock ln _ | PBlankLine ln => [ln]
    | PQuote ln es => ln :: all es
    | PList ln items => ln :: all items
    | PItem ln es _ _ _ _ => ln :: all es
    | PFootnote ln _ => if keep_definitions then [ln] else []
    | PTable ln lines =>
      match lines with
      | l0 :: l1 :: rows =>
        if mem 45 l1 then
          let ca := map parse_align (re_findall re_block_token_Table_column_align_pattern fl_block_token_Table_column_align_pattern l1) in
          ln :: (ln :: repeat ln (row_cell_count l0 ca)) ++ number_lines (ln + 2) ca rows
        else ln :: number_lines ln [] lines
      | _ => ln :: number_lines ln [] lines
      end
    end.
End Lnums.
