(* Model of mistletoe/latex_renderer.py: LaTeXRenderer.render on a token tree.
   Output = list of items + serialize.  The text escape table, the URL safe
   set and chain, the escaping applied at each template hole and the \verb
   delimiter candidates come from Gen/GenLatex.v (regenerated every run). *)
From Coq Require Import ZArith List Bool.
From Mistletoe Require Import Base.Sx Base.PyStr Model.Fillers Model.Tree Gen.GenLatex.
Import ListNotations.
Local Open Scope Z_scope.

Inductive litem :=
| LText (s : str)       (* document text after render_raw_text(escape=True)           *)
| LCmd (s : str)        (* fixed template text (contains no brace)                    *)
| LOpen | LClose        (* the braces of a template group                              *)
| LBegin (env : str) | LEnd (env : str)
| LUrl (s : str)        (* escape_url output inside \href{..} / \url{..}               *)
| LArg (s : str)        (* a token attribute written by the template into an argument  *)
| LVerb (s : str)       (* verbatim material: \verb|..| , lstlisting body              *)
| LMath (s : str)       (* Math token content, passed through by design                *)
| LFail.                (* RuntimeError('Unable to find delimiter for verb macro')     *)

Fixpoint assoc (c : Z) (l : list (Z * str)) : option str :=
  match l with
  | [] => None
  | (k, v) :: r => if c =? k then Some v else assoc c r
  end.

(* token.content.translate(self._escape_table) *)
Definition latex_escape_char (c : Z) : str :=
  match assoc c latex_text_table with Some r => r | None => [c] end.
Definition latex_escape (s : str) : str := flat_map latex_escape_char s.

(* LaTeXRenderer.escape_url *)
Definition latex_escape_url (s : str) : str :=
  fold_left (fun acc e => replace_char (fst e) (snd e) acc) latex_url_chain (quote latex_url_safe s).

Definition lfill (f : filler) (s : str) : litem :=
  match f with
  | FRaw => LArg s
  | FEscapeUrl => LUrl (latex_escape_url s)
  | FEscapeText => LText (latex_escape s)
  | FHtmlEscape => LArg s
  end.

Definition ser_litem (i : litem) : str :=
  match i with
  | LText s | LCmd s | LUrl s | LArg s | LVerb s | LMath s => s
  | LOpen => [123]
  | LClose => [125]
  | LBegin e => $"\begin{" ++ e ++ $"}"
  | LEnd e => $"\end{" ++ e ++ $"}"
  | LFail => []
  end.
Definition lserialize (l : list litem) : str := flat_map ser_litem l.

Definition group (inner : list litem) : list litem := LOpen :: inner ++ [LClose].
Definition cmd1 (name : str) (inner : list litem) : list litem := LCmd name :: group inner.
Definition lnl : litem := LCmd [10].

(* for delimiter in self.verb_delimiters: if delimiter not in content: break *)
Definition find_delim (content : str) : option Z :=
  find (fun d => negb (mem d content)) latex_verb_delimiters.

Definition align_letter (a : option Z) : str :=
  match a with None => $"l" | Some 0 => $"c" | Some 1 => $"r" | Some _ => $"l" end.

Fixpoint lrender (t : tok) : list litem :=
  let inner := fun (ch : list tok) => flat_map lrender ch in
  match t with
  | RawText c => [LText (latex_escape c)]
  | Strong _ ch => cmd1 $"\textbf" (inner ch)
  | Emphasis _ ch => cmd1 $"\textit" (inner ch)
  | Strikethrough ch => cmd1 $"\sout" (inner ch)
  | InlineCode a =>
    match find_delim (c_content a) with
    | Some d => [LVerb ($"\verb" ++ [d] ++ c_content a ++ [d])]
    | None => [LFail]
    end
  | Image a _ => LCmd ([10] ++ $"\includegraphics") :: group [lfill latex_image_src (l_target a)] ++ [lnl]
  | Link a ch => LCmd $"\href" :: group [lfill latex_link_target (l_target a)] ++ group (inner ch)
  | AutoLink target _ _ => LCmd $"\url" :: group [lfill latex_autolink_target target]
  | EscapeSequence ch => inner ch
  | LineBreak _ soft => if soft then [lnl] else [LCmd ($"\newline" ++ [10])]
  | HtmlSpan _ => []        (* not in LaTeXRenderer's render_map; outside wf_shape *)
  | Math c => [LMath c]
  | Heading level _ ch | SetextHeading level _ ch =>
    LCmd ([10] ++ (if level =? 1 then $"\section" else if level =? 2 then $"\subsection" else $"\subsubsection"))
         :: group (inner ch) ++ [lnl]
  | Quote ch => [LBegin $"displayquote"; lnl] ++ inner ch ++ [LEnd $"displayquote"; lnl]
  | Paragraph ch => lnl :: inner ch ++ [lnl]
  | BlockCode c =>
    [lnl; LBegin $"lstlisting"; LCmd $"[language="; lfill latex_code_language []; LCmd ($"]" ++ [10]);
     LVerb c; LEnd $"lstlisting"; lnl]
  | CodeFence a =>
    [lnl; LBegin $"lstlisting"; LCmd $"[language="; lfill latex_code_language (f_language a); LCmd ($"]" ++ [10]);
     LVerb (f_content a); LEnd $"lstlisting"; lnl]
  | List start _ ch =>
    let tag := match start with Some _ => $"enumerate" | None => $"itemize" end in
    [LBegin tag; lnl] ++ inner ch ++ [LEnd tag; lnl]
  | ListItem _ ch => LCmd $"\item " :: inner ch ++ [lnl]
  | Table ca header ch =>
    [LBegin $"tabular"]
      ++ match ca with
         | [None] => []
         | _ => group [LCmd (join $" " (map align_letter ca))]
         end
      ++ [lnl]
      ++ match header with
         | Some h => lrender h ++ [LCmd ($"\hline" ++ [10])]
         | None => []
         end
      ++ inner ch ++ [LEnd $"tabular"; lnl]
  | TableRow _ cells =>
    (fix cells_join (l : list tok) : list litem :=
       match l with
       | [] => []
       | [c] => lrender c
       | c :: r => lrender c ++ LCmd $" & " :: cells_join r
       end) cells ++ [LCmd ($" \\" ++ [10])]
  | TableCell _ ch => inner ch
  | ThematicBreak _ => [LCmd ([10] ++ $"\hrulefill" ++ [10])]
  | HtmlBlock _ => []       (* not in render_map *)
  | Document ch => inner ch  (* the body only; render_document wraps it, see render_latex *)
  | BlankLine | LinkRefDef _ | LinkRefDefBlock _ => []   (* not in LaTeXRenderer's render_map *)
  end.

(* packages: self.packages[...] = ... assignments in rendering order *)
Fixpoint pkgs (t : tok) : list str :=
  let all := flat_map pkgs in
  match t with
  | Strikethrough ch => $"ulem" :: all ch
  | Image _ _ => [$"graphicx"]
  | Link _ ch => $"hyperref" :: all ch
  | AutoLink _ _ _ => [$"hyperref"]
  | Math _ => [$"amsmath"; $"amsfonts"; $"amssymb"]
  | Quote ch => $"csquotes" :: all ch
  | BlockCode _ | CodeFence _ => [$"listings"]
  | List _ _ ch => $"listings" :: all ch
  | Table _ header ch => match header with Some h => pkgs h | None => [] end ++ all ch
  | Strong _ ch | Emphasis _ ch | EscapeSequence ch | Heading _ _ ch | SetextHeading _ _ ch
  | Paragraph ch | ListItem _ ch | TableRow _ ch | TableCell _ ch | Document ch => all ch
  | _ => []
  end.

Fixpoint dedup (seen : list str) (l : list str) : list str :=
  match l with
  | [] => []
  | x :: r => if existsb (str_eqb x) seen then dedup seen r else x :: dedup (x :: seen) r
  end.

(* '\\usepackage{options}{{{package}}}\n'.format(options=options or '', package=package):
   the only non-empty options value is the Python list ['normalem'], formatted by str() *)
Definition usepackage (p : str) : list litem :=
  LCmd ($"\usepackage" ++ (if str_eqb p $"ulem" then $"['normalem']" else [])) :: group [LCmd p] ++ [lnl].

(* render_document (for any other token class, render = lrender) *)
Definition render_latex_items (t : tok) : list litem :=
  match t with
  | Document ch =>
    LCmd $"\documentclass" :: group [LCmd $"article"] ++ [lnl]
      ++ flat_map usepackage (dedup [] (pkgs t))
      ++ [LBegin $"document"; lnl] ++ lrender t ++ [LEnd $"document"; lnl]
  | _ => lrender t
  end.

Definition has_fail (l : list litem) : bool := existsb (fun i => match i with LFail => true | _ => false end) l.

Definition render_latex (t : tok) : option str :=
  let its := render_latex_items t in
  if has_fail its then None else Some (lserialize its).
