(* Model of Document(lines) and of mistletoe.markdown(text, Renderer) for the
   renderers whose models exist. *)
From Coq Require Import ZArith List Bool.
From Mistletoe Require Import Base.Sx Base.PyStr Base.PyText Gen.GenConfig Model.Tree Model.CoreTokens Model.Block
     Model.Build Model.DocLines Model.HtmlRenderer.
Import ListNotations.
Local Open Scope Z_scope.

Record pconfig := mkPcfg { cfg_block : list block_kind; cfg_span : list span_kind; cfg_keep_defs : bool }.

Definition cfg_html : pconfig := mkPcfg block_types_html span_types_html false.
Definition cfg_html_nohtml : pconfig := mkPcfg block_types_html_nohtml span_types_html_nohtml false.
Definition cfg_markdown : pconfig := mkPcfg block_types_markdown span_types_markdown true.
Definition cfg_latex : pconfig := mkPcfg block_types_latex span_types_latex false.
Definition cfg_mathjax : pconfig := mkPcfg block_types_mathjax span_types_mathjax false.
Definition cfg_default : pconfig := mkPcfg block_types_default span_types_default false.

(* nesting can be no deeper than the longest line is long: every container strips at least one character *)
Definition depth_fuel (lines : list str) : nat := S (S (fold_left (fun m l => Nat.max m (length l)) lines O)).

(* the block phase of a whole document: parse buffer, footnotes *)
Definition block_phase (cfg : pconfig) (lines : list str) : list pre * footnotes :=
  let '(es, _, _) := tokenize_block (cfg_block cfg) (depth_fuel lines) lines 1 (mkPs true) in (es, footnotes_of es).

(* Document(lines) for prepared lines *)
Definition parse_lines (cfg : pconfig) (lines : list str) : tok * footnotes * list Z :=
  let '(es, fn) := block_phase cfg lines in
  (Document (make_tokens (cfg_span cfg) (cfg_keep_defs cfg) fn es), fn, flat_map (lnums (cfg_keep_defs cfg)) es).

Definition parse_document (cfg : pconfig) (text : str) : tok * footnotes * list Z :=
  parse_lines cfg (doc_lines_of_str text).

(* mistletoe.markdown(text, HtmlRenderer) with the given options *)
Definition markdown_html (o : hopts) (process_html : bool) (text : str) : str :=
  let '(t, _, _) := parse_document (if process_html then cfg_html else cfg_html_nohtml) text in render_html o t.

(* TocRenderer.toc: block_token.tokenize(lines) while the TOC renderer (an HtmlRenderer) is active; the property
   returns the first token.  fn = the link reference definitions of the document parsed last (what inline
   parsing consults). *)
Definition toc_tokens (fn : footnotes) (lines : list str) : list tok :=
  let '(es, _, _) := tokenize_block block_types_html (depth_fuel lines) lines 1 (mkPs true) in
  make_tokens span_types_html false fn es.
