(* Model of the HTML-based contrib renderers (TocRenderer, GithubWikiRenderer,
   MathJaxRenderer, PygmentsRenderer) as METHOD RESOLUTION over the HTML model:
   `render_with k tbl` renders a node with the HTML clause when the regenerated
   table `tbl` (Gen/GenDispatch.v: which class of the renderer's MRO supplies
   each method) names HtmlRenderer for that node's render method, and with the
   contrib class's override otherwise.  Pygments' `highlight` is a parameter. *)
From Coq Require Import ZArith List Bool.
From Mistletoe Require Import Base.Sx Base.PyStr Model.Fillers Model.Tree Gen.GenEscapes Gen.GenDispatch
     Model.HtmlRenderer.
Import ListNotations.
Local Open Scope Z_scope.

Inductive rkind := KHtml | KToc | KWiki | KMathJax | KPygments.

Fixpoint assoc_str (k : str) (l : list (str * str)) : str :=
  match l with
  | [] => []
  | (k', v) :: r => if str_eqb k k' then v else assoc_str k r
  end.

Definition table_of (k : rkind) : list (str * str) :=
  match k with
  | KHtml => definers_html | KToc => definers_toc | KWiki => definers_wiki
  | KMathJax => definers_mathjax | KPygments => definers_pygments
  end.

Definition unmodelled : list item := [IRaw $"<?unmodelled-override?>"].

Section WithHighlight.
  Variable highlight : str -> str -> str.   (* pygments.highlight(code, lexer(language), formatter) *)

  (* the override that class `d` supplies for method `m`, given what the HTML
     clause (the super() call) produces *)
  Definition override (d m : str) (html_clause : list item) (t : tok) : list item :=
    if str_eqb d $"TocRenderer" && str_eqb m $"render_heading" then html_clause   (* returns super()'s string *)
    else if str_eqb d $"MathJaxRenderer" && str_eqb m $"render_document" then html_clause ++ [IRaw mathjax_src]
    else if str_eqb d $"PygmentsRenderer" && str_eqb m $"render_block_code" then
      match t with
      | BlockCode c => [IRaw (highlight [] c)]
      | CodeFence a => [IRaw (highlight (f_language a) (f_content a))]
      | _ => unmodelled
      end
    else unmodelled.

  Definition via (tbl : list (str * str)) (m : str) (html_clause : list item) (t : tok) : list item :=
    let d := assoc_str m tbl in
    if str_eqb d $"HtmlRenderer" then html_clause else override d m html_clause t.

  (* MathJaxRenderer.render_math *)
  Definition mathjax_math (o : hopts) (c : str) : list item :=
    let txt := fill o html_raw_text c in      (* self.render_raw_text(token): HtmlRenderer's, by the MRO *)
    if startswith $"$$" c then [IText txt]
    else [IText ($"\(" ++ strip_char 36 txt ++ $"\)")].

  Fixpoint render_with (k : rkind) (tbl : list (str * str)) (o : hopts) (sup hdr : bool) (t : tok) : list item :=
    let R := render_with k tbl o in
    let inner := fun (s : bool) (ch : list tok) => flat_map (R s false) ch in
    match t with
    | RawText c => via tbl $"render_raw_text" [IText (fill o html_raw_text c)] t
    | Strong _ ch => via tbl $"render_strong" (wrap $"strong" [] (inner sup ch)) t
    | Emphasis _ ch => via tbl $"render_emphasis" (wrap $"em" [] (inner sup ch)) t
    | Strikethrough ch => via tbl $"render_strikethrough" (wrap $"del" [] (inner sup ch)) t
    | InlineCode a =>
      via tbl $"render_inline_code" (wrap $"code" [] [IText (fill o html_inline_code_inner (c_content a))]) t
    | Image a ch =>
      via tbl $"render_image"
          [IVoid $"img" ([($"src", fill o html_image_src (l_target a)); ($"alt", flat_map to_plain ch)]
                          ++ title_attr o html_image_title (l_title a))] t
    | Link a ch =>
      via tbl $"render_link"
          (wrap $"a" (($"href", fill o html_link_target (l_target a)) :: title_attr o html_link_title (l_title a))
                (inner sup ch)) t
    | AutoLink target mailto ch =>
      via tbl $"render_auto_link"
          (wrap $"a" [($"href", if mailto then $"mailto:" ++ fill o html_autolink_mailto target
                                else fill o html_autolink_target target)]
                (inner sup ch)) t
    | EscapeSequence ch => via tbl $"render_escape_sequence" (inner sup ch) t
    | LineBreak _ soft => via tbl $"render_line_break" (if soft then [nl] else [IVoid $"br" []; nl]) t
    | HtmlSpan c => via tbl $"render_html_span" [IRaw c] t
    | Math c => match k with KMathJax => mathjax_math o c | _ => [] end
    | Heading level _ ch | SetextHeading level _ ch =>
      via tbl $"render_heading" (wrap (heading_tag level) [] (inner sup ch)) t
    | Quote ch =>
      via tbl $"render_quote"
          (join_items [nl] ([[IOpen $"blockquote" []]] ++ map (R false false) ch ++ [[IClose $"blockquote"]])) t
    | Paragraph ch => via tbl $"render_paragraph" (if sup then inner sup ch else wrap $"p" [] (inner sup ch)) t
    | BlockCode c =>
      via tbl $"render_block_code" (wrap $"pre" [] (wrap $"code" [] [IText (fill o html_code_inner c)])) t
    | CodeFence a =>
      via tbl $"render_block_code"
          (wrap $"pre" []
                (wrap $"code" (match f_language a with
                               | [] => []
                               | lang => [($"class", $"language-" ++ fill o html_code_language lang)]
                               end)
                      [IText (fill o html_code_inner (f_content a))])) t
    | List start loose ch =>
      let tag := match start with Some _ => $"ol" | None => $"ul" end in
      let attrs := match start with
                   | Some n => if n =? 1 then [] else [($"start", str_of_Z n)]
                   | None => [] end in
      via tbl $"render_list" (wrap tag attrs (nl :: join_items [nl] (map (R (negb loose) false) ch) ++ [nl])) t
    | ListItem _ ch =>
      via tbl $"render_list_item"
          (match ch with
           | [] => wrap $"li" [] []
           | _ => wrap $"li" []
                       ((if sup && first_is_paragraph ch then [] else [nl])
                          ++ join_items [nl] (map (R sup false) ch)
                          ++ (if sup && last_is_paragraph ch then [] else [nl]))
           end) t
    | Table _ header ch =>
      via tbl $"render_table"
          (wrap $"table" []
                (nl :: match header with
                       | Some h => wrap $"thead" [] (nl :: R sup true h) ++ [nl]
                       | None => []
                       end
                    ++ wrap $"tbody" [] (nl :: inner sup ch) ++ [nl])) t
    | TableRow _ cells => via tbl $"render_table_row" (wrap $"tr" [] (nl :: flat_map (R sup hdr) cells) ++ [nl]) t
    | TableCell a ch =>
      via tbl $"render_table_cell"
          (wrap (if hdr then $"th" else $"td") [($"align", align_name a)] (inner sup ch) ++ [nl]) t
    | ThematicBreak _ => via tbl $"render_thematic_break" [IVoid $"hr" []] t
    | HtmlBlock c => via tbl $"render_html_block" [IRaw c] t
    | Document ch =>
      via tbl $"render_document"
          (let body := join_items [nl] (map (R false false) ch) in
           match serialize body with [] => [] | _ => body ++ [nl] end) t
    | BlankLine | LinkRefDef _ | LinkRefDefBlock _ => []
    end.
End WithHighlight.

Definition render_contrib (highlight : str -> str -> str) (k : rkind) (o : hopts) (t : tok) : str :=
  serialize (render_with highlight k (table_of k) o false false t).

(* ---- TocRenderer: what render_heading appends to self._headings ---- *)
Record toc_cfg := mkTocCfg { toc_depth : Z; toc_omit_title : bool }.

(* re.sub(r'<.+?>', '', rendered): a tag is '<', at least one character, then
   lazily up to the first '>' -- '.' does not match a newline *)
Fixpoint find_close (s : str) : option str :=     (* rest after the first '>' with no newline before it *)
  match s with
  | [] => None
  | c :: r => if c =? 62 then Some r else if c =? 10 then None else find_close r
  end.

Fixpoint strip_tags_fuel (fuel : nat) (s : str) : str :=
  match fuel with
  | O => s
  | S f =>
    match s with
    | [] => []
    | c :: r =>
      if c =? 60 then
        match r with
        | c1 :: r1 =>
          if c1 =? 10 then c :: strip_tags_fuel f r
          else match find_close r1 with
               | Some rest => strip_tags_fuel f rest
               | None => c :: strip_tags_fuel f r
               end
        | [] => [c]
        end
      else c :: strip_tags_fuel f r
    end
  end.
Definition strip_tags (s : str) : str := strip_tags_fuel (S (length s)) s.

(* the Heading / SetextHeading nodes in the order render() reaches them, with
   the tight-list flag in force at each (it does not influence a heading's own
   HTML, but is part of the state the renderer is in) *)
Fixpoint headings_in_render_order (t : tok) : list tok :=
  let all := flat_map headings_in_render_order in
  match t with
  | Heading _ _ ch | SetextHeading _ _ ch => all ch ++ [t]   (* children are rendered before the append *)
  | Image _ _ => []                        (* the description is rendered by render_to_plain *)
  | Strong _ ch | Emphasis _ ch | Strikethrough ch | Link _ ch | AutoLink _ _ ch | EscapeSequence ch
  | Quote ch | Paragraph ch | List _ _ ch | ListItem _ ch | TableRow _ ch | TableCell _ ch | Document ch => all ch
  | Table _ h ch => match h with Some h' => headings_in_render_order h' | None => [] end ++ all ch
  | _ => []
  end.

Definition heading_level (t : tok) : Z :=
  match t with Heading l _ _ | SetextHeading l _ _ => l | _ => 0 end.

(* a heading is rendered AFTER its children (super().render_heading renders the
   inner tokens first), so nested headings would be appended before their
   parent; headings never nest in parsed trees (wf_shape) *)
Definition toc_entry (o : hopts) (h : tok) : Z * str :=
  (heading_level h, strip_tags (serialize (render o false false h))).

Definition qualifies (cfg : toc_cfg) (filters : list (str -> bool)) (e : Z * str) : bool :=
  negb ((toc_omit_title cfg && (fst e =? 1)) || (fst e >? toc_depth cfg) || existsb (fun f => f (snd e)) filters).

Definition toc_headings (cfg : toc_cfg) (filters : list (str -> bool)) (o : hopts) (t : tok) : list (Z * str) :=
  filter (qualifies cfg filters) (map (toc_entry o) (headings_in_render_order t)).

(* TocRenderer.toc: the lines handed to block_token.tokenize.
   base_level = min((level for level, _ in self._headings), default=1) *)
Definition base_level (hs : list (Z * str)) : Z :=
  match hs with
  | [] => 1
  | e :: r => fold_left (fun m x => Z.min m (fst x)) r (fst e)
  end.
Definition toc_line (base : Z) (e : Z * str) : str :=
  concat (repeat $" " (Z.to_nat (4 * (fst e - base)))) ++ $"- " ++ snd e ++ [10].
Definition toc_lines (hs : list (Z * str)) : list str := map (toc_line (base_level hs)) hs.
