(* The token tree as the renderers see it.  One inductive for block and inline
   tokens alike: the renderers dispatch on the class name of whatever object
   is in `children`, so the model does the same.  A constructor stands for a
   token object AS ITS CONSTRUCTOR BUILDS IT:
     InlineCode / BlockCode / CodeFence / HtmlBlock hold their single RawText
     child as the `content` string; AutoLink / EscapeSequence keep their
     children list.
   Attributes that exist only for the Markdown renderer's round trip live in
   the records too, so that one tree serves every renderer model. *)
From Coq Require Import ZArith List Bool.
From Mistletoe Require Import Base.Sx.
Import ListNotations.
Local Open Scope Z_scope.

Record link_attrs := mkLink {
  l_target : str;            (* Link.target / Image.src *)
  l_title : str;
  l_dest_type : str;         (* "", "uri", "angle_uri", "full", "collapsed", "shortcut" *)
  l_label : option str;
  l_title_delim : str        (* "" for None *)
}.

Record code_attrs := mkCode {
  c_delimiter : str; c_padding : str; c_content : str
}.

Record fence_attrs := mkFence {
  f_indentation : Z; f_delimiter : str; f_info : str; f_language : str; f_content : str
}.

Record lrd_attrs := mkLrd {
  d_label : str; d_dest : str; d_title : str; d_dest_type : str; d_title_delim : str
}.

Record item_attrs := mkItem {
  i_leader : str; i_indentation : Z; i_prepend : Z; i_loose : bool
}.

Inductive tok :=
(* span tokens *)
| RawText (content : str)
| Strong (delim : str) (ch : list tok)
| Emphasis (delim : str) (ch : list tok)
| Strikethrough (ch : list tok)
| InlineCode (a : code_attrs)
| Image (a : link_attrs) (ch : list tok)
| Link (a : link_attrs) (ch : list tok)
| AutoLink (target : str) (mailto : bool) (ch : list tok)
| EscapeSequence (ch : list tok)
| LineBreak (content : str) (soft : bool)
| HtmlSpan (content : str)
| Math (content : str)                       (* latex_token.Math *)
(* block tokens *)
| Heading (level : Z) (closing : str) (ch : list tok)
| SetextHeading (level : Z) (underline : str) (ch : list tok)
| Quote (ch : list tok)
| Paragraph (ch : list tok)
| BlockCode (content : str)                  (* language = '' *)
| CodeFence (a : fence_attrs)
| List (start : option Z) (loose : bool) (ch : list tok)
| ListItem (a : item_attrs) (ch : list tok)
| Table (column_align : list (option Z)) (header : option tok) (ch : list tok)
| TableRow (row_align : list (option Z)) (ch : list tok)
| TableCell (align : option Z) (ch : list tok)
| ThematicBreak (line : str)
| HtmlBlock (content : str)
| Document (ch : list tok)
(* tokens that exist only while the Markdown renderer is active *)
| BlankLine
| LinkRefDef (a : lrd_attrs)                 (* markdown_renderer.LinkReferenceDefinition *)
| LinkRefDefBlock (ch : list tok).           (* markdown_renderer.LinkReferenceDefinitionBlock *)

Section TokInd.
  Variable P : tok -> Prop.
  Definition AllP (l : list tok) := Forall P l.
  Hypothesis H_RawText : forall s, P (RawText s).
  Hypothesis H_Strong : forall d ch, AllP ch -> P (Strong d ch).
  Hypothesis H_Emphasis : forall d ch, AllP ch -> P (Emphasis d ch).
  Hypothesis H_Strikethrough : forall ch, AllP ch -> P (Strikethrough ch).
  Hypothesis H_InlineCode : forall a, P (InlineCode a).
  Hypothesis H_Image : forall a ch, AllP ch -> P (Image a ch).
  Hypothesis H_Link : forall a ch, AllP ch -> P (Link a ch).
  Hypothesis H_AutoLink : forall t m ch, AllP ch -> P (AutoLink t m ch).
  Hypothesis H_EscapeSequence : forall ch, AllP ch -> P (EscapeSequence ch).
  Hypothesis H_LineBreak : forall c s, P (LineBreak c s).
  Hypothesis H_HtmlSpan : forall c, P (HtmlSpan c).
  Hypothesis H_Math : forall c, P (Math c).
  Hypothesis H_Heading : forall l c ch, AllP ch -> P (Heading l c ch).
  Hypothesis H_SetextHeading : forall l u ch, AllP ch -> P (SetextHeading l u ch).
  Hypothesis H_Quote : forall ch, AllP ch -> P (Quote ch).
  Hypothesis H_Paragraph : forall ch, AllP ch -> P (Paragraph ch).
  Hypothesis H_BlockCode : forall c, P (BlockCode c).
  Hypothesis H_CodeFence : forall a, P (CodeFence a).
  Hypothesis H_List : forall s l ch, AllP ch -> P (List s l ch).
  Hypothesis H_ListItem : forall a ch, AllP ch -> P (ListItem a ch).
  Hypothesis H_Table : forall ca h ch, (forall t, h = Some t -> P t) -> AllP ch -> P (Table ca h ch).
  Hypothesis H_TableRow : forall ra ch, AllP ch -> P (TableRow ra ch).
  Hypothesis H_TableCell : forall a ch, AllP ch -> P (TableCell a ch).
  Hypothesis H_ThematicBreak : forall l, P (ThematicBreak l).
  Hypothesis H_HtmlBlock : forall c, P (HtmlBlock c).
  Hypothesis H_Document : forall ch, AllP ch -> P (Document ch).
  Hypothesis H_BlankLine : P BlankLine.
  Hypothesis H_LinkRefDef : forall a, P (LinkRefDef a).
  Hypothesis H_LinkRefDefBlock : forall ch, AllP ch -> P (LinkRefDefBlock ch).

  Fixpoint tok_ind' (t : tok) : P t :=
    let all := (fix all (l : list tok) : Forall P l :=
                  match l with
                  | [] => Forall_nil _
                  | x :: xs => Forall_cons _ (tok_ind' x) (all xs)
                  end) in
    match t with
    | RawText s => H_RawText s
    | Strong d ch => H_Strong d ch (all ch)
    | Emphasis d ch => H_Emphasis d ch (all ch)
    | Strikethrough ch => H_Strikethrough ch (all ch)
    | InlineCode a => H_InlineCode a
    | Image a ch => H_Image a ch (all ch)
    | Link a ch => H_Link a ch (all ch)
    | AutoLink t m ch => H_AutoLink t m ch (all ch)
    | EscapeSequence ch => H_EscapeSequence ch (all ch)
    | LineBreak c s => H_LineBreak c s
    | HtmlSpan c => H_HtmlSpan c
    | Math c => H_Math c
    | Heading l c ch => H_Heading l c ch (all ch)
    | SetextHeading l u ch => H_SetextHeading l u ch (all ch)
    | Quote ch => H_Quote ch (all ch)
    | Paragraph ch => H_Paragraph ch (all ch)
    | BlockCode c => H_BlockCode c
    | CodeFence a => H_CodeFence a
    | List s l ch => H_List s l ch (all ch)
    | ListItem a ch => H_ListItem a ch (all ch)
    | Table ca h ch =>
      H_Table ca h ch
              (fun t' => match h as h0 return h0 = Some t' -> P t' with
                         | Some t0 => fun e => match e in _ = o return match o with Some x => P x | None => True end with
                                               | eq_refl => tok_ind' t0 end
                         | None => fun e => match e in _ = o return match o with Some x => P x | None => True end with
                                            | eq_refl => I end
                         end)
              (all ch)
    | TableRow ra ch => H_TableRow ra ch (all ch)
    | TableCell a ch => H_TableCell a ch (all ch)
    | ThematicBreak l => H_ThematicBreak l
    | HtmlBlock c => H_HtmlBlock c
    | Document ch => H_Document ch (all ch)
    | BlankLine => H_BlankLine
    | LinkRefDef a => H_LinkRefDef a
    | LinkRefDefBlock ch => H_LinkRefDefBlock ch (all ch)
    end.
End TokInd.

Definition children (t : tok) : option (list tok) :=
  match t with
  | Strong _ ch | Emphasis _ ch | Strikethrough ch | Image _ ch | Link _ ch
  | AutoLink _ _ ch | EscapeSequence ch | Heading _ _ ch | SetextHeading _ _ ch
  | Quote ch | Paragraph ch | List _ _ ch | ListItem _ ch | Table _ _ ch
  | TableRow _ ch | TableCell _ ch | Document ch | LinkRefDefBlock ch => Some ch
  | BlankLine => Some []
  | InlineCode a => Some [RawText (c_content a)]
  | BlockCode c => Some [RawText c]
  | CodeFence a => Some [RawText (f_content a)]
  | HtmlBlock c => Some [RawText c]
  | RawText _ | LineBreak _ _ | HtmlSpan _ | Math _ | ThematicBreak _ | LinkRefDef _ => None
  end.

Definition is_paragraph (t : tok) : bool := match t with Paragraph _ => true | _ => false end.
